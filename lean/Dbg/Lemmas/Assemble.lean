import Dbg.Lemmas.Final
import Dbg.Spec.C01
/-! String assembly of nodes: the k-mers of the sequence assembled by `build_node` are the oriented keys of the
    ids on the path (C01 at the level of sequences). -/
namespace Compress
open Walk (Dir)
variable {D : Type}

theorem orientR_eq_rc_orientL (e : Entry D) (d : Dir) : orientR e d = rc (orientL e d) := by
  cases d <;> simp [orientR, orientL]

/-- one link step, seen from the left walk: the next oriented k-mer is the current one extended on the left -/
theorem link_stepL {T : Table D} {st : Bool} {join : D → D → Bool} {x y : Nat} {d d' : Dir}
    (h : linkOf T st join x d = some (y, d')) :
    ∃ ex ey b, T[x]? = some ex ∧ T[y]? = some ey ∧ orientL ey d' = extendLeft (orientL ex d) b ∧ (st = true → d' = d) := by
  obtain ⟨ex, ey0, b, f⟩ := linkOf_inv T st join h
  obtain ⟨ey, hy, hk⟩ := findId_some f.hfind
  have hyy : ey0 = ey := by have := f.hy; rw [hy] at this; exact (Option.some.inj this).symm
  subst hyy
  have hd' := f.hd'
  cases st with
  | true =>
    simp only [canonSt, if_true] at hk hd'
    simp only [condFlip, Bool.false_eq_true, if_false] at hd'
    cases d with
    | L => subst hd'; exact ⟨ex, ey0, b, f.hx, hy, by simp [orientL, hk, extend], fun _ => rfl⟩
    | R => subst hd'; exact ⟨ex, ey0, comp b, f.hx, hy, by simp [orientL, hk, extend, rc_extendRight], fun _ => rfl⟩
  | false =>
    simp only [canonSt, Bool.false_eq_true, if_false, minRcFlip] at hk hd'
    by_cases hlt : extend ex.key b d < rc (extend ex.key b d)
    · simp only [hlt, if_true] at hk hd'
      simp only [condFlip, Bool.false_eq_true, if_false] at hd'
      cases d with
      | L => subst hd'; exact ⟨ex, ey0, b, f.hx, hy, by simp [orientL, hk, extend], fun h => absurd h (by simp)⟩
      | R => subst hd'; exact ⟨ex, ey0, comp b, f.hx, hy, by simp [orientL, hk, extend, rc_extendRight], fun h => absurd h (by simp)⟩
    · simp only [hlt, if_false] at hk hd'
      simp only [condFlip, if_true] at hd'
      cases d with
      | L => subst hd'; exact ⟨ex, ey0, b, f.hx, hy, by simp [orientL, Dir.flip, hk, extend], fun h => absurd h (by simp)⟩
      | R => subst hd'; exact ⟨ex, ey0, comp b, f.hx, hy, by simp [orientL, Dir.flip, hk, extend, rc_extendRight], fun h => absurd h (by simp)⟩

/-- the same step seen from the right walk -/
theorem link_stepR {T : Table D} {st : Bool} {join : D → D → Bool} {x y : Nat} {d d' : Dir}
    (h : linkOf T st join x d = some (y, d')) :
    ∃ ex ey b, T[x]? = some ex ∧ T[y]? = some ey ∧ orientR ey d' = extendRight (orientR ex d) b ∧ (st = true → d' = d) := by
  obtain ⟨ex, ey, b, hx, hy, ho, hs⟩ := link_stepL h
  refine ⟨ex, ey, comp b, hx, hy, ?_, hs⟩
  rw [orientR_eq_rc_orientL, orientR_eq_rc_orientL, ho, rc_extendLeft]

/-! ### windows of a sequence grown by one base -/

theorem windowsOf_eq (K : Nat) (s : Seq) (h : K ≤ s.length) :
    windowsOf K s = (List.range (s.length - K + 1)).map fun i => (s.drop i).take K := by
  unfold windowsOf; simp [show ¬ s.length < K by omega]

theorem windowsOf_cons (K : Nat) (b : Base) (s : Seq) (hK : 1 ≤ K) (h : K ≤ s.length) :
    windowsOf K (b :: s) = (b :: s).take K :: windowsOf K s := by
  rw [windowsOf_eq K (b :: s) (by simp; omega), windowsOf_eq K s h]
  have : (b :: s).length - K + 1 = (s.length - K + 1) + 1 := by simp; omega
  rw [this, List.range_succ_eq_map]
  simp [Function.comp_def]

theorem windowsOf_snoc (K : Nat) (b : Base) (s : Seq) (hK : 1 ≤ K) (h : K ≤ s.length) :
    windowsOf K (s ++ [b]) = windowsOf K s ++ [(s ++ [b]).drop (s.length + 1 - K)] := by
  rw [windowsOf_eq K (s ++ [b]) (by simp; omega), windowsOf_eq K s h]
  have : (s ++ [b]).length - K + 1 = (s.length - K + 1) + 1 := by simp; omega
  rw [this, List.range_succ, List.map_append]
  congr 1
  · apply List.map_congr_left
    intro i hi
    simp only [List.mem_range] at hi
    rw [List.drop_append_of_le_length (by omega), List.take_append_of_le_length (by simp; omega)]
  · simp only [List.map_cons, List.map_nil, List.cons.injEq, and_true]
    have e : s.length - K + 1 = s.length + 1 - K := by omega
    rw [e]
    apply List.take_of_length_le
    simp; omega

theorem take_cons_extendLeft (K : Nat) (b : Base) (s : Seq) (hK : 1 ≤ K) (h : K ≤ s.length) :
    (b :: s).take K = extendLeft (s.take K) b := by
  unfold extendLeft
  cases K with
  | zero => omega
  | succ k =>
    simp only [List.take_succ_cons, List.cons.injEq, true_and]
    apply List.ext_getElem
    · simp; omega
    · intro i h1 h2
      simp [List.getElem_dropLast]

theorem drop_snoc_extendRight (K : Nat) (b : Base) (s : Seq) (hK : 1 ≤ K) (h : K ≤ s.length) :
    (s ++ [b]).drop (s.length + 1 - K) = extendRight (s.drop (s.length - K)) b := by
  unfold extendRight
  rw [List.drop_append_of_le_length (by omega), List.tail_drop]
  congr 2; omega

/-! ### the folds of `build_node` -/

/-- oriented k-mer of a path entry (empty if the id is out of range) -/
def oL (T : Table D) (p : Nat × Dir) : Seq := match T[p.1]? with | some e => orientL e p.2 | none => []
def oR (T : Table D) (p : Nat × Dir) : Seq := match T[p.1]? with | some e => orientR e p.2 | none => []

/-- each k-mer of the list is the previous one extended on the left by some base -/
def ChainL : Seq → List Seq → Prop
  | _, [] => True
  | o0, o :: rest => (∃ b, o = extendLeft o0 b) ∧ ChainL o rest
def ChainR : Seq → List Seq → Prop
  | _, [] => True
  | o0, o :: rest => (∃ b, o = extendRight o0 b) ∧ ChainR o rest

theorem extendLeft_length (o : Seq) (b : Base) (h : 1 ≤ o.length) : (extendLeft o b).length = o.length := by
  simp [extendLeft]; omega
theorem extendRight_length (o : Seq) (b : Base) (h : 1 ≤ o.length) : (extendRight o b).length = o.length := by
  simp [extendRight]; omega

theorem leftStep_some (T : Table D) (reduce : D → D → D) (sq : Seq) (dat : D) (p : Nat × Dir) (e : Entry D) (b : Base)
    (he : T[p.1]? = some e) (hh : (orientL e p.2).head? = some b) :
    leftStep T reduce (some (sq, dat)) p = some (b :: sq, reduce dat e.data) := by
  unfold leftStep
  simp only [he, hh]

theorem leftFold_spec (T : Table D) (reduce : D → D → D) (K : Nat) (hK : 1 ≤ K) :
    ∀ (path : List (Nat × Dir)) (seq0 : Seq) (d0 : D) (o0 : Seq),
      K ≤ seq0.length → seq0.take K = o0 →
      (∀ p ∈ path, ∃ e, T[p.1]? = some e) →
      ChainL o0 (path.map (oL T)) →
      ∃ sq dat, leftFold T reduce path seq0 d0 = some (sq, dat) ∧
        windowsOf K sq = (path.map (oL T)).reverse ++ windowsOf K seq0 ∧
        (o0 :: path.map (oL T)).getLast? = some (sq.take K) ∧ K ≤ sq.length ∧
        dat = path.foldl (fun a p => match T[p.1]? with | some e => reduce a e.data | none => a) d0 := by
  intro path
  induction path with
  | nil => intro seq0 d0 o0 hl ht _ _; exact ⟨seq0, d0, rfl, by simp, by simp [ht], hl, rfl⟩
  | cons p rest ih =>
    intro seq0 d0 o0 hl ht hp hc
    obtain ⟨e, he⟩ := hp p (by simp)
    simp only [List.map_cons, ChainL] at hc
    obtain ⟨⟨b, hb⟩, hc'⟩ := hc
    have hoL : oL T p = orientL e p.2 := by simp [oL, he]
    have hhead : (orientL e p.2).head? = some b := by rw [← hoL, hb]; simp [extendLeft]
    have hstep : leftFold T reduce (p :: rest) seq0 d0 = leftFold T reduce rest (b :: seq0) (reduce d0 e.data) := by
      unfold leftFold
      rw [List.foldl_cons, leftStep_some T reduce seq0 d0 p e b he hhead]
    have htake : (b :: seq0).take K = oL T p := by
      rw [take_cons_extendLeft K b seq0 hK hl, ht, hb]
    obtain ⟨sq, dat, h1, h2, h3, h4, h5⟩ := ih (b :: seq0) (reduce d0 e.data) (oL T p) (by simp; omega) htake
      (fun q hq => hp q (by simp [hq])) hc'
    refine ⟨sq, dat, by rw [hstep, h1], ?_, ?_, h4, ?_⟩
    · rw [h2, windowsOf_cons K b seq0 hK hl, htake]
      simp
    · rw [List.map_cons, List.getLast?_cons_cons]; exact h3
    · rw [h5]; simp [he]

theorem rightStep_some (T : Table D) (reduce : D → D → D) (sq : Seq) (dat : D) (p : Nat × Dir) (e : Entry D) (b : Base)
    (he : T[p.1]? = some e) (hh : (orientR e p.2).getLast? = some b) :
    rightStep T reduce (some (sq, dat)) p = some (sq ++ [b], reduce dat e.data) := by
  unfold rightStep
  simp only [he, hh]

theorem rightFold_spec (T : Table D) (reduce : D → D → D) (K : Nat) (hK : 1 ≤ K) :
    ∀ (path : List (Nat × Dir)) (seq0 : Seq) (d0 : D) (o0 : Seq),
      K ≤ seq0.length → seq0.drop (seq0.length - K) = o0 →
      (∀ p ∈ path, ∃ e, T[p.1]? = some e) →
      ChainR o0 (path.map (oR T)) →
      ∃ sq dat, rightFold T reduce path seq0 d0 = some (sq, dat) ∧
        windowsOf K sq = windowsOf K seq0 ++ path.map (oR T) ∧
        (o0 :: path.map (oR T)).getLast? = some (sq.drop (sq.length - K)) ∧ K ≤ sq.length ∧
        dat = path.foldl (fun a p => match T[p.1]? with | some e => reduce a e.data | none => a) d0 := by
  intro path
  induction path with
  | nil => intro seq0 d0 o0 hl ht _ _; exact ⟨seq0, d0, rfl, by simp, by simp [ht], hl, rfl⟩
  | cons p rest ih =>
    intro seq0 d0 o0 hl ht hp hc
    obtain ⟨e, he⟩ := hp p (by simp)
    simp only [List.map_cons, ChainR] at hc
    obtain ⟨⟨b, hb⟩, hc'⟩ := hc
    have hoR : oR T p = orientR e p.2 := by simp [oR, he]
    have hlast : (orientR e p.2).getLast? = some b := by rw [← hoR, hb]; simp [extendRight]
    have hstep : rightFold T reduce (p :: rest) seq0 d0 = rightFold T reduce rest (seq0 ++ [b]) (reduce d0 e.data) := by
      unfold rightFold
      rw [List.foldl_cons, rightStep_some T reduce seq0 d0 p e b he hlast]
    have hdrop : (seq0 ++ [b]).drop ((seq0 ++ [b]).length - K) = oR T p := by
      have : (seq0 ++ [b]).length - K = seq0.length + 1 - K := by simp
      rw [this, drop_snoc_extendRight K b seq0 hK hl, ht, hb]
    obtain ⟨sq, dat, h1, h2, h3, h4, h5⟩ := ih (seq0 ++ [b]) (reduce d0 e.data) (oR T p) (by simp; omega) hdrop
      (fun q hq => hp q (by simp [hq])) hc'
    refine ⟨sq, dat, by rw [hstep, h1], ?_, ?_, h4, ?_⟩
    · rw [h2, windowsOf_snoc K b seq0 hK hl]
      have : (seq0 ++ [b]).drop (seq0.length + 1 - K) = oR T p := by
        rw [drop_snoc_extendRight K b seq0 hK hl, ht, hb]
      rw [this]; simp
    · rw [List.map_cons, List.getLast?_cons_cons]; exact h3
    · rw [h5]; simp [he]

/-! ### the walks spell chains -/

theorem walk_chainL (T : Table D) (st : Bool) (join : D → D → Bool) (avail : List Nat) (x : Nat) (d : Dir) :
    ∀ ex, T[x]? = some ex →
      ChainL (orientL ex d) ((Walk.walk (linkOf T st join) avail x d).1.map (oL T)) ∧
      (∀ p ∈ (Walk.walk (linkOf T st join) avail x d).1, ∃ e, T[p.1]? = some e) ∧
      (st = true → ∀ p ∈ (Walk.walk (linkOf T st join) avail x d).1, p.2 = d) := by
  fun_induction Walk.walk (linkOf T st join) avail x d with
  | case1 avail x d y d' hl hy r ih =>
    intro ex hx
    obtain ⟨ex', ey, b, hx', hyy, ho, hs⟩ := link_stepL hl
    have : ex' = ex := by rw [hx] at hx'; exact (Option.some.inj hx').symm
    subst this
    obtain ⟨c1, c2, c3⟩ := ih ey hyy
    refine ⟨?_, ?_, ?_⟩
    · simp only [List.map_cons, ChainL]
      refine ⟨⟨b, by simp [oL, hyy, ho]⟩, ?_⟩
      simpa [oL, hyy] using c1
    · intro p hp
      rcases List.mem_cons.mp hp with rfl | hp
      · exact ⟨ey, hyy⟩
      · exact c2 p hp
    · intro hst p hp
      have hdd := hs hst
      rcases List.mem_cons.mp hp with rfl | hp
      · exact hdd
      · rw [c3 hst p hp, hdd]
  | case2 avail x d y d' hl hy => intro ex _; exact ⟨by simp [ChainL], by simp, by simp⟩
  | case3 avail x d hl => intro ex _; exact ⟨by simp [ChainL], by simp, by simp⟩

theorem walk_chainR (T : Table D) (st : Bool) (join : D → D → Bool) (avail : List Nat) (x : Nat) (d : Dir) :
    ∀ ex, T[x]? = some ex →
      ChainR (orientR ex d) ((Walk.walk (linkOf T st join) avail x d).1.map (oR T)) := by
  fun_induction Walk.walk (linkOf T st join) avail x d with
  | case1 avail x d y d' hl hy r ih =>
    intro ex hx
    obtain ⟨ex', ey, b, hx', hyy, ho, _⟩ := link_stepR hl
    have : ex' = ex := by rw [hx] at hx'; exact (Option.some.inj hx').symm
    subst this
    have c1 := ih ey hyy
    simp only [List.map_cons, ChainR]
    refine ⟨⟨b, by simp [oR, hyy, ho]⟩, ?_⟩
    simpa [oR, hyy] using c1
  | case2 avail x d y d' hl hy => intro ex _; simp [ChainR]
  | case3 avail x d hl => intro ex _; simp [ChainR]

/-! ### `build_node` -/

theorem rm_of_not_mem (a : List Nat) (y : Nat) (h : y ∉ a) : Walk.rm a y = a := by
  unfold Walk.rm
  apply List.filter_eq_self.mpr
  intro z hz
  simp only [bne_iff_ne, ne_eq]
  rintro rfl; exact h hz

/-- the canonical form of an oriented key is the key (keys are canonical; in stranded mode walks never flip) -/
theorem canon_orientL (st : Bool) (e : Entry D) (d : Dir) (hc : st = false → ¬ (rc e.key < e.key)) (hd : st = true → d = .L) :
    (canonOf st (orientL e d)).1 = e.key := by
  cases st with
  | true => simp [canonOf, orientL, hd rfl]
  | false =>
    have hc := hc rfl
    cases d with
    | L =>
      simp only [canonOf, Bool.false_eq_true, if_false, orientL, minRcFlip]
      by_cases h : e.key < rc e.key
      · simp [h]
      · simp only [h, if_false]
        rcases Std.lt_trichotomy e.key (rc e.key) with h' | h' | h'
        · exact absurd h' h
        · exact h'.symm
        · exact absurd h' hc
    | R =>
      simp only [canonOf, Bool.false_eq_true, if_false, orientL, minRcFlip, rc_rc]
      simp [hc]

theorem canon_orientR (st : Bool) (e : Entry D) (d : Dir) (hc : st = false → ¬ (rc e.key < e.key)) (hd : st = true → d = .R) :
    (canonOf st (orientR e d)).1 = e.key := by
  have : orientR e d = orientL e d.flip := by cases d <;> rfl
  rw [this]
  exact canon_orientL st e d.flip hc (fun h => by rw [hd h]; rfl)

/-- the two walks of `build_node` -/
def leftW (T : Table D) (st : Bool) (join : D → D → Bool) (avail : List Nat) (seed : Nat) : List (Nat × Dir) × List Nat :=
  Walk.walk (linkOf T st join) (Walk.rm avail seed) seed .L
def rightW (T : Table D) (st : Bool) (join : D → D → Bool) (avail : List Nat) (seed : Nat) : List (Nat × Dir) × List Nat :=
  Walk.walk (linkOf T st join) (leftW T st join avail seed).2 seed .R

/-- **`build_node` on a reciprocal table**: it never panics, consumes exactly the ids of the abstract `build`, and the
    k-mers of the assembled sequence are the oriented keys of the left path (reversed), the seed, and the right path. -/
theorem buildNodeC_spec {T : Table D} {K : Nat} {st : Bool} {join : D → D → Bool} (reduce : D → D → D)
    (wf : WF T K st) (hes : ExtSym T st) (avail : List Nat) (seed : Nat) (es : Entry D)
    (hseed : T[seed]? = some es) :
    ∃ nd, buildNodeC T st join reduce avail seed =
        some (nd, (Walk.build (linkOf T st join) avail seed).1, (Walk.build (linkOf T st join) avail seed).2) ∧
      windowsOf K nd.seq = ((leftW T st join avail seed).1.map (oL T)).reverse ++ [es.key] ++ (rightW T st join avail seed).1.map (oR T) ∧
      nd.data = ((leftW T st join avail seed).1 ++ (rightW T st join avail seed).1).foldl
        (fun a p => match T[p.1]? with | some e => reduce a e.data | none => a) es.data := by
  generalize hlink : linkOf T st join = link
  generalize hlw : Walk.walk link (Walk.rm avail seed) seed .L = lw
  generalize hrw : Walk.walk link lw.2 seed .R = rw
  have elw : leftW T st join avail seed = lw := by unfold leftW; rw [hlink, hlw]
  have erw : rightW T st join avail seed = rw := by unfold rightW; rw [elw, hlink, hrw]
  have ebuild : Walk.build link avail seed = ((lw.1.map Prod.fst).reverse ++ [seed] ++ rw.1.map Prod.fst, rw.2) := by
    unfold Walk.build; simp only [hlw, hrw]
  rw [elw, erw, ebuild]
  have hnp := noPanic (join := join) wf hes
  obtain ⟨el, hl⟩ := walkC_refines T st join hnp (Walk.rm avail seed) seed .L
  rw [hlink, hlw] at hl
  -- the seed is no longer available after the left walk
  have hsub : ∀ z, z ∈ lw.2 → z ∈ Walk.rm avail seed := by
    intro z hz
    rw [← hlw] at hz
    have : ∀ (a : List Nat) (x : Nat) (d : Dir) (z : Nat), z ∈ (Walk.walk link a x d).2 → z ∈ a := by
      intro a x d
      fun_induction Walk.walk link a x d with
      | case1 a x d y d' hl hy r ih => intro z hz; exact (Walk.mem_rm.mp (ih z hz)).1
      | case2 a x d y d' hl hy => intro z hz; exact hz
      | case3 a x d hl => intro z hz; exact hz
    exact this _ _ _ z hz
  have hnot : seed ∉ lw.2 := fun h => (Walk.mem_rm.mp (hsub seed h)).2 rfl
  have hrm : Walk.rm lw.2 seed = lw.2 := rm_of_not_mem _ _ hnot
  obtain ⟨er, hr⟩ := walkC_refines T st join hnp lw.2 seed .R
  rw [hlink, hrw] at hr
  have hK := wf.kpos
  have hlen := wf.len seed es hseed
  obtain ⟨cl1, cl2, _⟩ := walk_chainL T st join (Walk.rm avail seed) seed .L es hseed
  rw [hlink, hlw] at cl1 cl2
  have cr1 := walk_chainR T st join lw.2 seed .R es hseed
  have cr2 := (walk_chainL T st join lw.2 seed .R es hseed).2.1
  rw [hlink, hrw] at cr1 cr2
  -- left fold from the seed k-mer
  obtain ⟨sqL, datL, f1, f2, _, f4, f5⟩ := leftFold_spec T reduce K hK lw.1 es.key es.data (orientL es .L)
    (by omega) (by simp [orientL, ← hlen]) cl2 cl1
  -- the assembled left part still ends with the seed k-mer
  have hend : sqL.drop (sqL.length - K) = orientR es .R := by
    have : ∀ (path : List (Nat × Dir)) (s0 : Seq) (d0 : D) (sq : Seq) (dat : D),
        leftFold T reduce path s0 d0 = some (sq, dat) → K ≤ s0.length →
        sq.drop (sq.length - K) = s0.drop (s0.length - K) ∧ s0.length ≤ sq.length := by
      intro path
      induction path with
      | nil => intro s0 d0 sq dat h _; simp only [leftFold, List.foldl_nil, Option.some.injEq, Prod.mk.injEq] at h; simp [h.1]
      | cons p rest ih =>
        intro s0 d0 sq dat h hs0
        unfold leftFold at h
        rw [List.foldl_cons] at h
        cases hstep : leftStep T reduce (some (s0, d0)) p with
        | none =>
          rw [hstep] at h
          have : ∀ l : List (Nat × Dir), l.foldl (leftStep T reduce) none = none := by
            intro l; induction l with
            | nil => rfl
            | cons a t iht => simp [List.foldl_cons, leftStep, iht]
          rw [this] at h; cases h
        | some r =>
          obtain ⟨s1, d1⟩ := r
          rw [hstep] at h
          -- one step prepends a base
          have hs1 : ∃ b, s1 = b :: s0 := by
            unfold leftStep at hstep
            split at hstep
            · rename_i sq0 dat0 e heq1 heq2
              simp only [Option.some.injEq, Prod.mk.injEq] at heq1
              obtain ⟨rfl, rfl⟩ := heq1
              split at hstep
              · rename_i b _
                simp only [Option.some.injEq, Prod.mk.injEq] at hstep
                exact ⟨b, hstep.1.symm⟩
              · cases hstep
            · cases hstep
          obtain ⟨b, rfl⟩ := hs1
          obtain ⟨i1, i2⟩ := ih (b :: s0) d1 sq dat h (by simp; omega)
          refine ⟨?_, by simp at i2; omega⟩
          rw [i1]
          simp only [List.length_cons]
          rw [show s0.length + 1 - K = (s0.length - K) + 1 by omega, List.drop_succ_cons]
    have := (this lw.1 es.key es.data sqL datL f1 (by omega)).1
    rw [this]; simp [orientR, ← hlen]
  obtain ⟨sqR, datR, g1, g2, _, _, g5⟩ := rightFold_spec T reduce K hK rw.1 sqL datL (orientR es .R) f4 hend cr2 cr1
  have hb : ∃ ex, buildNodeC T st join reduce avail seed =
      some (⟨sqR, ex, datR⟩, (lw.1.map Prod.fst).reverse ++ [seed] ++ rw.1.map Prod.fst, rw.2) := by
    unfold buildNodeC
    simp only [hseed, hl, f1, hrm, hr, g1]
    exact ⟨_, rfl⟩
  obtain ⟨ex, hb⟩ := hb
  refine ⟨⟨sqR, ex, datR⟩, hb, ?_, ?_⟩
  · show windowsOf K sqR = _
    rw [g2, f2]
    have : windowsOf K es.key = [es.key] := by
      rw [windowsOf_eq K es.key (by omega)]; simp [hlen]
      exact List.take_of_length_le (by omega)
    rw [this]
  · show datR = _
    rw [g5, f5, List.foldl_append]

/-- key of an id (empty if out of range) -/
def keyOf (T : Table D) (i : Nat) : Seq := match T[i]? with | some e => e.key | none => []

/-- the canonical k-mers of the node built around `seed` are the keys of the ids it consumed, in node order -/
theorem buildNodeC_canon {T : Table D} {K : Nat} {st : Bool} {join : D → D → Bool} (reduce : D → D → D)
    (wf : WF T K st) (hes : ExtSym T st) (avail : List Nat) (seed : Nat) (es : Entry D)
    (hseed : T[seed]? = some es) :
    ∃ nd, buildNodeC T st join reduce avail seed =
        some (nd, (Walk.build (linkOf T st join) avail seed).1, (Walk.build (linkOf T st join) avail seed).2) ∧
      (windowsOf K nd.seq).map (fun w => (canonOf st w).1) = (Walk.build (linkOf T st join) avail seed).1.map (keyOf T) ∧
      K ≤ nd.seq.length := by
  obtain ⟨nd, h1, h2, _⟩ := buildNodeC_spec (join := join) reduce wf hes avail seed es hseed
  have hlenK : K ≤ nd.seq.length := by
    by_cases h : nd.seq.length < K
    · have : windowsOf K nd.seq = [] := by simp [windowsOf, h]
      rw [this] at h2
      have := congrArg List.length h2
      simp at this
    · omega
  refine ⟨nd, h1, ?_, hlenK⟩
  rw [h2]
  have hL := walk_chainL T st join (Walk.rm avail seed) seed .L es hseed
  have hR := walk_chainL T st join (leftW T st join avail seed).2 seed .R es hseed
  have ebuild : (Walk.build (linkOf T st join) avail seed).1 =
      ((leftW T st join avail seed).1.map Prod.fst).reverse ++ [seed] ++ (rightW T st join avail seed).1.map Prod.fst := by
    unfold Walk.build leftW rightW; rfl
  rw [ebuild]
  simp only [List.map_append, List.map_reverse, List.map_map, List.map_cons, List.map_nil]
  have cL : ∀ p ∈ (leftW T st join avail seed).1, (canonOf st (oL T p)).1 = keyOf T p.1 := by
    intro p hp
    obtain ⟨e, he⟩ := hL.2.1 p hp
    simp only [oL, keyOf, he]
    exact canon_orientL st e p.2 (fun h => wf.canon h p.1 e he) (fun h => hL.2.2 h p hp)
  have cR : ∀ p ∈ (rightW T st join avail seed).1, (canonOf st (oR T p)).1 = keyOf T p.1 := by
    intro p hp
    obtain ⟨e, he⟩ := hR.2.1 p hp
    simp only [oR, keyOf, he]
    exact canon_orientR st e p.2 (fun h => wf.canon h p.1 e he) (fun h => hR.2.2 h p hp)
  have cS : (canonOf st es.key).1 = keyOf T seed := by
    simp only [keyOf, hseed]
    exact canon_orientL st es .L (fun h => wf.canon h seed es hseed) (fun _ => rfl)
  congr 1
  · congr 1
    · congr 1
      apply List.map_congr_left
      intro p hp; exact cL p hp
    · simp [cS]
  · apply List.map_congr_left
    intro p hp; exact cR p hp

/-! ### the loop of `compress_kmers` -/

theorem compressLoopC_spec {T : Table D} {K : Nat} {st : Bool} {join : D → D → Bool} (reduce : D → D → D)
    (wf : WF T K st) (hes : ExtSym T st) :
    ∀ (is avail : List Nat), (∀ i ∈ is, i < T.length) →
      ∃ out, compressLoopC T st join reduce is avail = some out ∧
        out.map (·.2) = Walk.compress (linkOf T st join) is avail ∧
        ∀ x ∈ out, (windowsOf K x.1.seq).map (fun w => (canonOf st w).1) = x.2.map (keyOf T) ∧ K ≤ x.1.seq.length := by
  intro is
  induction is with
  | nil => intro avail _; exact ⟨[], rfl, rfl, by simp⟩
  | cons i is ih =>
    intro avail hr
    have hi : i < T.length := hr i (by simp)
    have hrest : ∀ j ∈ is, j < T.length := fun j hj => hr j (by simp [hj])
    by_cases hmem : i ∈ avail
    · obtain ⟨nd, hb, hc, hk⟩ := buildNodeC_canon (join := join) reduce wf hes avail i T[i] (by simp [hi])
      obtain ⟨out, ho, hm, hw⟩ := ih (Walk.build (linkOf T st join) avail i).2 hrest
      refine ⟨(nd, (Walk.build (linkOf T st join) avail i).1) :: out, ?_, ?_, ?_⟩
      · simp only [compressLoopC, hmem, if_true, hb, ho]
      · simp only [Walk.compress, hmem, if_true, List.map_cons, hm]
      · intro x hx
        rcases List.mem_cons.mp hx with rfl | hx
        · exact ⟨hc, hk⟩
        · exact hw x hx
    · obtain ⟨out, ho, hm, hw⟩ := ih avail hrest
      exact ⟨out, by simp only [compressLoopC, hmem, if_false, ho], by simp only [Walk.compress, hmem, if_false, hm], hw⟩

/-- **C01 at the level of sequences.** On every well-formed table with reciprocal extensions and a symmetric join
    predicate, `compress_kmers` does not panic and the canonical k-mers of all node sequences together are a permutation
    of the table's keys: every input k-mer occurs in exactly one node at exactly one offset, and no node contains a
    k-mer that was not in the table. -/
theorem compressKmersC_partition {T : Table D} {K : Nat} {st : Bool} {join : D → D → Bool} (reduce : D → D → D)
    (wf : WF T K st) (hes : ExtSym T st) (hj : ∀ a b, join a b = join b a) :
    ∃ out, compressKmersC T st join reduce = some out ∧
      (out.flatMap fun x => (windowsOf K x.1.seq).map (fun w => (canonOf st w).1)).Perm (T.map (·.key)) ∧
      ∀ x ∈ out, K ≤ x.1.seq.length := by
  obtain ⟨out, ho, hm, hw⟩ := compressLoopC_spec (join := join) reduce wf hes (List.range T.length) (List.range T.length)
    (fun i hi => List.mem_range.mp hi)
  obtain ⟨hnd, hcov, _⟩ := compress_components_concrete wf hes hj
  refine ⟨out, ho, ?_, ?_⟩
  · -- canonical windows of all nodes = keys of the flattened id lists
    have e1 : (out.flatMap fun x => (windowsOf K x.1.seq).map (fun w => (canonOf st w).1)) =
        ((out.map (·.2)).flatten).map (keyOf T) := by
      rw [List.map_flatten, List.map_map, List.flatMap_def]
      congr 1
      apply List.map_congr_left
      intro x hx; exact (hw x hx).1
    rw [e1, hm]
    have hperm : (Walk.compress (linkOf T st join) (List.range T.length) (List.range T.length)).flatten.Perm (List.range T.length) := by
      apply (List.perm_ext_iff_of_nodup hnd List.nodup_range).mpr
      intro a; rw [hcov a, List.mem_range]
    have e2 : (List.range T.length).map (keyOf T) = T.map (·.key) := by
      apply List.ext_getElem
      · simp
      · intro i h1 h2
        simp only [List.length_map, List.length_range] at h1
        simp [keyOf, h1]
    rw [← e2]
    exact hperm.map _
  · intro x hx
    exact (hw x hx).2

end Compress
