import Dbg.Lemmas.RecompressPG2
import Dbg.Lemmas.Sandwich
import Dbg.Lemmas.Idempotent
/-! The adjacencies of a ported graph — steps between consecutive k-mers inside nodes, and resolved edges between node
    ends — are exactly the extensions recorded in the (closed) table, as unordered pairs of canonical k-mers. -/
namespace Compress
open Walk (Dir Conn Rel rm)
open Filter (has ExtSym2 removeCensoredExts)
open Graph (G termKmer findLink)
variable {D : Type}

/-- a recorded extension of the table, as a pair of canonical k-mers -/
def AdjK (T : Table D) (st : Bool) (k1 k2 : Seq) : Prop :=
  ∃ e ∈ T, ∃ (d : Dir) (b : Base), e.key = k1 ∧ has e.exts d b ∧ (canonSt st (extend e.key b d)).1 = k2

/-- an adjacency of the graph: a step between consecutive k-mers of a node, or a resolved edge between two node ends -/
def AdjG (K : Nat) (st : Bool) (nodes : List (Node D)) (k1 k2 : Seq) : Prop :=
  (∃ n ∈ nodes, ∃ j : Nat, (canonKeys K st n)[j]? = some k1 ∧ (canonKeys K st n)[j + 1]? = some k2) ∨
  (∃ (i : Nat) (n : Node D) (s : Dir) (β : Base) (Y : Nat) (inc : Dir) (fl : Bool) (nY : Node D),
    nodes[i]? = some n ∧ has n.exts s β ∧
    findLink (⟨K, nodes, st⟩ : G D) (extend (termKmer K n.seq s) β s) s = some (Y, inc, fl) ∧ nodes[Y]? = some nY ∧
    k1 = (canonSt st (termKmer K n.seq s)).1 ∧ k2 = (canonSt st (termKmer K nY.seq inc)).1)

theorem adjK_content {A B : Table D} {st : Bool} (hle : ContentLe A B) (k1 k2 : Seq) (h : AdjK A st k1 k2) : AdjK B st k1 k2 := by
  obtain ⟨e, he, d, b, hk, hb, ht⟩ := h
  obtain ⟨e', he', hk', _, hx⟩ := hle e he
  refine ⟨e', he', d, b, by rw [← hk', hk], ?_, by rw [← hk']; exact ht⟩
  unfold has at hb ⊢
  rw [← hx d]; exact hb

theorem canon_term_key {T : Table D} {K : Nat} {st : Bool} (wf : WF T K st) {n : Node D} {s : Dir} {p : Nat × Dir} {e : Entry D}
    (np : NodePort T K st n s p e) : (canonSt st (termKmer K n.seq s)).1 = e.key := by
  have hc := fun h => wf.canon h p.1 e np.ent
  symm
  apply key_is_canon st e.key _ hc
  · intro hst
    rw [np.term, if_pos (np.strand hst)]
  · rw [np.term]
    by_cases h : p.2 = s
    · left; rw [if_pos h]
    · right; rw [if_neg h, rc_rc]

end Compress

namespace Compress
open Walk (Dir Conn Rel rm)
open Filter (has ExtSym2 removeCensoredExts)
open Graph (G termKmer findLink)
variable {D : Type}

section
variable {T : Table D} {K : Nat} {st : Bool} {join0 : D → D → Bool} {nodes : List (Node D)}
  {port : Nat → Dir → Nat × Dir} {members : Nat → List Nat} {lk : Walk.Link}

/-- a good link is a recorded extension -/
theorem adjK_of_link (x : Nat) (d : Dir) (y : Nat) (d' : Dir) (h : linkOf T st join0 x d = some (y, d')) :
    AdjK T st (keyOf T x) (keyOf T y) := by
  obtain ⟨ex, ey, b, f⟩ := linkOf_inv T st join0 h
  obtain ⟨ey', hy', hkey⟩ := findId_some f.hfind
  have : ey' = ey := by rw [f.hy] at hy'; exact (Option.some.inj hy').symm
  subst this
  have hasx : has ex.exts d b := CompressGraph.nibUniq_has _ b f.uniq
  refine ⟨ex, List.mem_of_getElem? f.hx, d, b, (keyOf_of_get f.hx).symm, hasx, ?_⟩
  rw [keyOf_of_get f.hy, hkey]

/-- **graph adjacencies are table extensions** -/
theorem PGraph.adjG_sub (pg : PGraph T K st join0 nodes port members lk) (wf : WF T K st) (hes2 : ExtSym2 T st)
    (k1 k2 : Seq) (h : AdjG K st nodes k1 k2) : AdjK T st k1 k2 := by
  rcases h with ⟨n, hn, j, h1, h2⟩ | ⟨i, n, s, β, Y, inc, fl, nY, hi, hβ, hl, hY, hk1, hk2⟩
  · obtain ⟨i, hi, e⟩ := List.getElem_of_mem hn
    have hi' : nodes[i]? = some n := by rw [List.getElem?_eq_getElem hi, e]
    obtain ⟨cs, hcm, hoc, _, _⟩ := pg.chain i hi
    unfold canonKeys at h1 h2
    rw [pg.keys i n hi', ← hcm, List.map_map, List.getElem?_map] at h1 h2
    cases ha : cs[j]? with
    | none => rw [ha] at h1; cases h1
    | some a =>
      cases hb : cs[j + 1]? with
      | none => rw [hb] at h2; cases h2
      | some b =>
        rw [ha] at h1; rw [hb] at h2
        simp only [Option.map_some, Option.some.injEq, Function.comp] at h1 h2
        have hlk := ochain_getElem lk cs hoc j a b ha hb
        have := adjK_of_link (T := T) (st := st) (join0 := join0) a.1 a.2 b.1 b.2 (pg.lkSub _ _ _ _ hlk)
        rw [h1, h2] at this
        exact this
  · obtain ⟨ex, np⟩ := pg.np i n s hi
    obtain ⟨nn, hY', hterm, _, hf1⟩ := Graph.findLink_sound _ _ _ _ _ _ hl
    have hY'' : nodes[Y]? = some nn := hY'
    rw [hY] at hY''; cases hY''
    obtain ⟨_, hcan⟩ := node_target n s (port i s) ex np β
    refine ⟨ex, List.mem_of_getElem? np.ent, (port i s).2, _, ?_, (np.exts β).mp hβ, ?_⟩
    · rw [hk1]; exact (canon_term_key wf np).symm
    · rw [hk2, ← hcan]
      have ht : termKmer K nY.seq inc = if fl then rc (extend (termKmer K n.seq s) β s) else extend (termKmer K n.seq s) β s := hterm
      rw [ht]
      cases fl with
      | false => rfl
      | true =>
        have hst : st = false := (hf1 rfl).2
        subst hst
        simp only [if_true, canonSt, Bool.false_eq_true, if_false]
        exact (Filter.minRcFlip_rc_key _).symm

end

end Compress

namespace Compress
open Walk (Dir Conn Rel rm)
open Filter (has ExtSym2 removeCensoredExts)
open Graph (G termKmer findLink)
variable {D : Type}

section
variable {T : Table D} {K : Nat} {st : Bool} {join0 : D → D → Bool} {nodes : List (Node D)}
  {port : Nat → Dir → Nat × Dir} {members : Nat → List Nat} {lk : Walk.Link}

/-- the target of a good link is the target of the (only) extension on that side -/
theorem link_target_of_ext {x : Nat} {d : Dir} {y : Nat} {d' : Dir} (h : linkOf T st join0 x d = some (y, d'))
    (wf : WF T K st) (ex : Entry D) (hx : T[x]? = some ex) (b : Base) (hb : has ex.exts d b) :
    (canonSt st (extend ex.key b d)).1 = keyOf T y := by
  obtain ⟨ex', ey, b', f⟩ := linkOf_inv T st join0 h
  have : ex' = ex := by have h0 := f.hx; rw [hx] at h0; exact (Option.some.inj h0).symm
  subst this
  have tx := nib_table ⟨ex'.exts.dirBits d, dirBits_lt _ (wf.ext8 x ex' hx) d⟩ b
  have h1 := tx.1 f.cntx hb
  have h2 := f.uniq
  rw [h1] at h2
  have : b = b' := Option.some.inj h2
  subst this
  obtain ⟨ey', hy', hkey⟩ := findId_some f.hfind
  rw [keyOf_of_get hy', hkey]

/-- **table extensions are graph adjacencies** (in one direction or the other) -/
theorem PGraph.adjK_sub (pg : PGraph T K st join0 nodes port members lk) (wf : WF T K st) (hes2 : ExtSym2 T st)
    (hcl : Closed T st) (hj0 : ∀ a b, join0 a b = join0 b a) (k1 k2 : Seq) (h : AdjK T st k1 k2) :
    AdjG K st nodes k1 k2 ∨ AdjG K st nodes k2 k1 := by
  obtain ⟨e, he, d, b, hk1, hb, hk2⟩ := h
  obtain ⟨x, hx⟩ := mem_index T e he
  have hxlt : x < T.length := (List.getElem?_eq_some_iff.mp hx).1
  obtain ⟨i, hi, hxi⟩ := pg.cover x hxlt
  obtain ⟨n, hn⟩ : ∃ n, nodes[i]? = some n := ⟨_, List.getElem?_eq_getElem hi⟩
  have hsym := linkOf_sym wf hes2.toExtSym hj0
  -- is the port an end of the node?
  by_cases hend : ∃ s, (x, d) = port i s
  · obtain ⟨s, hs⟩ := hend
    obtain ⟨ex, np⟩ := pg.np i n s hn
    have hex : ex = e := by
      have := np.ent
      rw [← hs] at this
      rw [hx] at this; exact (Option.some.inj this).symm
    subst hex
    have hp2 : (port i s).2 = d := by rw [← hs]
    -- the node-level base
    let β : Base := if d = s then b else comp b
    have hβb : (if (port i s).2 = s then β else comp β) = b := by
      rw [hp2]; by_cases hh : d = s <;> simp [β, hh]
    have hβ : has n.exts s β := by rw [np.exts β, hβb, hp2]; exact hb
    obtain ⟨_, hcan⟩ := node_target n s (port i s) ex np β
    rw [hβb, hp2] at hcan
    obtain ⟨y, hy⟩ := hcl x ex d b hx hb
    have hmem : (canonSt st (extend (termKmer K n.seq s) β s)).1 ∈ T.map (·.key) := by
      rw [hcan]
      obtain ⟨ey, hey, hkey⟩ := findId_some hy
      rw [← hkey]; exact List.mem_map_of_mem (List.mem_of_getElem? hey)
    obtain ⟨⟨Y, inc, fl⟩, hl⟩ := Option.isSome_iff_exists.mp ((pg.edge_iff wf hes2 i n hn s β hβ).mpr hmem)
    obtain ⟨nY, hY, hterm, _, hf1⟩ := Graph.findLink_sound _ _ _ _ _ _ hl
    left
    refine Or.inr ⟨i, n, s, β, Y, inc, fl, nY, hn, hβ, hl, hY, ?_, ?_⟩
    · rw [canon_term_key wf np, hk1]
    · rw [← hk2, ← hcan]
      have ht : termKmer K nY.seq inc = if fl then rc (extend (termKmer K n.seq s) β s) else extend (termKmer K n.seq s) β s := hterm
      rw [ht]
      cases fl with
      | false => rfl
      | true =>
        have hst : st = false := (hf1 rfl).2
        subst hst
        simp only [if_true, canonSt, Bool.false_eq_true, if_false]
        exact (Filter.minRcFlip_rc_key _).symm
  · -- an interior port: the extension is the step to the neighbour in the node's chain
    obtain ⟨cs, hcm, hoc, hhead, hlast⟩ := pg.chain i hi
    rw [← hcm] at hxi
    obtain ⟨a, ha, hax⟩ := List.mem_map.mp hxi
    obtain ⟨j, hj, haj⟩ := List.getElem_of_mem ha
    have haj' : cs[j]? = some a := by rw [List.getElem?_eq_getElem hj, haj]
    have hkeys := pg.keys i n hn
    have hcanon : canonKeys K st n = cs.map fun c => keyOf T c.1 := by
      unfold canonKeys; rw [hkeys, ← hcm, List.map_map]; rfl
    have hkx : keyOf T x = k1 := by rw [keyOf_of_get hx, hk1]
    rcases Walk.dir_cases d a.2 with hd | hd
    · -- forward: the next entry
      have hjl : j ≠ cs.length - 1 := by
        intro e1
        apply hend
        refine ⟨.R, ?_⟩
        rw [List.getLast?_eq_getElem?, ← e1, haj'] at hlast
        rw [← Option.some.inj hlast, ← hax, hd]
      have hj1 : j + 1 < cs.length := by omega
      obtain ⟨c, hc⟩ : ∃ c, cs[j + 1]? = some c := ⟨_, List.getElem?_eq_getElem hj1⟩
      have hlk := pg.lkSub _ _ _ _ (ochain_getElem lk cs hoc j a c haj' hc)
      rw [hax, ← hd] at hlk
      have htgt := link_target_of_ext hlk wf e hx b hb
      left
      refine Or.inl ⟨n, List.mem_of_getElem? hn, j, ?_, ?_⟩
      · rw [hcanon, List.getElem?_map, haj']; simp only [Option.map_some]; rw [hax, hkx]
      · rw [hcanon, List.getElem?_map, hc]; simp only [Option.map_some]; rw [← htgt, hk2]
    · -- backward: the previous entry
      have hj0' : j ≠ 0 := by
        intro e1
        apply hend
        refine ⟨.L, ?_⟩
        rw [List.head?_eq_getElem?, ← e1, haj'] at hhead
        simp only [Option.map_some, Option.some.injEq] at hhead
        rw [← hhead, ← hax, hd]; rfl
      obtain ⟨c, hc⟩ : ∃ c, cs[j - 1]? = some c := ⟨_, List.getElem?_eq_getElem (by omega)⟩
      have haj'' : cs[j - 1 + 1]? = some a := by rw [show j - 1 + 1 = j by omega]; exact haj'
      have hlk := pg.lkSub _ _ _ _ (ochain_getElem lk cs hoc (j - 1) c a hc haj'')
      have hlk' := hsym _ _ _ _ hlk
      rw [hax, ← hd] at hlk'
      have htgt := link_target_of_ext hlk' wf e hx b hb
      right
      refine Or.inl ⟨n, List.mem_of_getElem? hn, j - 1, ?_, ?_⟩
      · rw [hcanon, List.getElem?_map, hc]; simp only [Option.map_some]; rw [← htgt, hk2]
      · rw [hcanon, List.getElem?_map, haj'']; simp only [Option.map_some]; rw [hax, hkx]

end

end Compress

namespace Compress
open Walk (Dir Conn Rel rm)
open Filter (has ExtSym2 removeCensoredExts)
open Graph (G termKmer findLink)
open CompressGraph (compressGraph)
variable {D : Type}

/-- adjacency as an unordered pair -/
def AdjGS (K : Nat) (st : Bool) (nodes : List (Node D)) (k1 k2 : Seq) : Prop := AdjG K st nodes k1 k2 ∨ AdjG K st nodes k2 k1
def AdjKS (T : Table D) (st : Bool) (k1 k2 : Seq) : Prop := AdjK T st k1 k2 ∨ AdjK T st k2 k1

/-- **the adjacencies of a ported graph over a closed table are exactly the table's recorded extensions** -/
theorem PGraph.adj_iff {T : Table D} {K : Nat} {st : Bool} {join0 : D → D → Bool} {nodes : List (Node D)}
    {port : Nat → Dir → Nat × Dir} {members : Nat → List Nat} {lk : Walk.Link}
    (pg : PGraph T K st join0 nodes port members lk) (wf : WF T K st) (hes2 : ExtSym2 T st) (hcl : Closed T st)
    (hj0 : ∀ a b, join0 a b = join0 b a) (k1 k2 : Seq) : AdjGS K st nodes k1 k2 ↔ AdjKS T st k1 k2 := by
  constructor
  · rintro (h | h)
    · exact Or.inl (pg.adjG_sub wf hes2 _ _ h)
    · exact Or.inr (pg.adjG_sub wf hes2 _ _ h)
  · rintro (h | h)
    · exact pg.adjK_sub wf hes2 hcl hj0 _ _ h
    · rcases pg.adjK_sub wf hes2 hcl hj0 _ _ h with h' | h'
      · exact Or.inr h'
      · exact Or.inl h'

theorem contentLe_trans {A B C : Table D} (h1 : ContentLe A B) (h2 : ContentLe B C) : ContentLe A C := by
  intro ea hea
  obtain ⟨eb, heb, k1, d1, x1⟩ := h1 ea hea
  obtain ⟨ec, hec, k2, d2, x2⟩ := h2 eb heb
  exact ⟨ec, hec, k1.trans k2, d1.trans d2, fun d => (x1 d).trans (x2 d)⟩

theorem closed_perm {A B : Table D} {st : Bool} (hp : A.Perm B) (h : Closed B st) : Closed A st := by
  intro x e d b hx hb
  obtain ⟨i, hi⟩ := mem_index B e (hp.mem_iff.mp (List.mem_of_getElem? hx))
  obtain ⟨y, hy⟩ := h i e d b hi hb
  obtain ⟨ey, hey, hkey⟩ := findId_some hy
  have : (canonSt st (extend e.key b d)).1 ∈ A.map (·.key) := by
    rw [← hkey]; exact List.mem_map_of_mem (hp.mem_iff.mpr (List.mem_of_getElem? hey))
  exact findId_isSome_of_mem A _ this

/-- **adjacencies agree**: in the abstract setting of `sharded_eq_direct_abstract`, the re-compressed combination of the
    shard graphs and the one-pass graph have the same set of adjacencies (unordered pairs of canonical k-mers: steps
    inside nodes and resolved edges between node ends) -/
theorem sharded_adjacency_abstract {R : Table D} {K : Nat} {st : Bool} (wfR : WF R K st) (hesR : ExtSym2 R st)
    (Ts : List (Table D)) (sw : Sandwich st Ts.flatten R) (reduce : D → D → D)
    (join0 : D → D → Bool) (hj0 : ∀ a b, join0 a b = join0 b a)
    (Td : Table D) (hperm : Td.Perm (removeCensoredExts st R)) :
    ∃ outs g' paths outd, AllBuilt st join0 reduce Ts outs ∧
      compressGraph st (⟨K, (outs.map fun o => o.map (·.1)).flatten, st⟩ : G D) (fun _ _ => true) reduce [] = some (g', paths) ∧
      compressKmersC Td st (fun _ _ => true) reduce = some outd ∧
      ∀ k1 k2, AdjGS K st g'.nodes k1 k2 ↔ AdjGS K st (outd.map (·.1)) k1 k2 := by
  have wfU := sandwich_wf wfR sw
  have hesU := sandwich_extSym2 wfR hesR sw
  obtain ⟨outs, hb, hp⟩ := allBuilt_of_tables (K := K) join0 hj0 reduce Ts wfU hesU
  obtain ⟨port, mem, lk, pg⟩ := pgraph_flatten K st join0 Ts _ hp wfU
  obtain ⟨g', paths, port', mem', hcg, hK', hst', pg3, _, _⟩ := pgraph_compressGraph pg wfU hesU reduce
  have wf1 := Filter.wf_removeCensored st _ K wfU
  have hes1 := Filter.extSym2_removeCensored st _ K wfU hesU
  have wf2 := Filter.wf_removeCensored st _ K wf1
  have hes2' := Filter.extSym2_removeCensored st _ K wf1 hes1
  have wfRp := Filter.wf_removeCensored st R K wfR
  have hesRp := Filter.extSym2_removeCensored st R K wfR hesR
  have wfd := Filter.wf_perm st _ Td K hperm wfRp
  have hesd := Filter.extSym2_perm st _ Td K hperm wfRp hesRp
  obtain ⟨outd, hod, _, _⟩ := compressKmersC_partition (join := fun _ _ => true) reduce wfd hesd.toExtSym (fun _ _ => rfl)
  obtain ⟨portd, memd, pgd, _⟩ := pgraph_of_compress reduce wfd hesd.toExtSym (fun _ _ => rfl) outd hod
  refine ⟨outs, g', paths, outd, hb, hcg, hod, fun k1 k2 => ?_⟩
  -- content equivalence of the two tables
  obtain ⟨c21, c12⟩ := prune_closed_content wf1 (closed_pruned st Ts.flatten)
  obtain ⟨cUR, cRU⟩ := sandwich_pruned wfR sw
  have cRd := contentLe_of_perm hperm.symm
  have cdR := contentLe_of_perm hperm
  have c3d : ContentLe (removeCensoredExts st (removeCensoredExts st Ts.flatten)) Td := contentLe_trans (contentLe_trans c21 cUR) cRd
  have cd3 : ContentLe Td (removeCensoredExts st (removeCensoredExts st Ts.flatten)) := contentLe_trans (contentLe_trans cdR cRU) c12
  rw [pg3.adj_iff wf2 hes2' (closed_pruned st _) (fun _ _ => rfl) k1 k2,
    pgd.adj_iff wfd hesd (closed_perm hperm (closed_pruned st R)) (fun _ _ => rfl) k1 k2]
  constructor
  · rintro (h | h)
    · exact Or.inl (adjK_content c3d _ _ h)
    · exact Or.inr (adjK_content c3d _ _ h)
  · rintro (h | h)
    · exact Or.inl (adjK_content cd3 _ _ h)
    · exact Or.inr (adjK_content cd3 _ _ h)

end Compress
