import Dbg.Lemmas.RecompressPorts
import Dbg.Lemmas.FinalKeys
import Dbg.Lemmas.ChainOps
/-! The graph `compress_graph` builds from a ported graph is again ported (into the pruned table). -/
namespace Compress
open Walk (Dir Conn Rel rm)
open Filter (has ExtSym2 removeCensoredExts)
open Graph (G termKmer orientedKmers)
variable {D : Type}

theorem windowsOf_length (K : Nat) (s : Seq) (h : K ≤ s.length) : (windowsOf K s).length = s.length - K + 1 := by
  rw [windowsOf_eq K s h]; simp

/-- the windows of the reverse complement are the reverse-complemented windows in reverse order -/
theorem windowsOf_rc (K : Nat) (s : Seq) (h : K ≤ s.length) : windowsOf K (rc s) = ((windowsOf K s).map rc).reverse := by
  have hl : K ≤ (rc s).length := by rw [rc_length]; exact h
  apply List.ext_getElem
  · rw [List.length_reverse, List.length_map, windowsOf_length K s h, windowsOf_length K (rc s) hl, rc_length]
  · intro i h1 h2
    rw [windowsOf_length K (rc s) hl, rc_length] at h1
    rw [List.getElem_reverse, List.getElem_map]
    simp only [windowsOf_eq K s h, windowsOf_eq K (rc s) hl, List.getElem_map, List.getElem_range, List.length_map, List.length_range, rc_length]
    have := rc_window s K i (by omega)
    have e : s.length - K + 1 - 1 - i = s.length - i - K := by omega
    rw [e, ← this, rc_rc]

theorem canon_map_rc (K : Nat) (s : Seq) (h : K ≤ s.length) :
    (windowsOf K (rc s)).map (fun w => (canonOf false w).1) = ((windowsOf K s).map (fun w => (canonOf false w).1)).reverse := by
  rw [windowsOf_rc K s h, List.map_reverse, List.map_map]
  congr 1
  apply List.map_congr_left
  intro w _
  exact canonOf_rc w

theorem windowsOf_ne_nil (K : Nat) (s : Seq) (h : K ≤ s.length) : windowsOf K s ≠ [] := by
  intro e
  have := windowsOf_length K s h
  rw [e] at this
  simp at this

theorem head?_flatMap_of_ne {α β} (f : α → List β) (a : α) (t : List α) (h : f a ≠ []) :
    ((a :: t).flatMap f).head? = (f a).head? := by
  rw [List.flatMap_cons, List.head?_append]
  cases hfa : f a with
  | nil => exact absurd hfa h
  | cons x xs => rfl

theorem getLast?_flatMap_of_ne {α β} (f : α → List β) (t : List α) (a : α) (h : f a ≠ []) :
    ((t ++ [a]).flatMap f).getLast? = (f a).getLast? := by
  rw [List.flatMap_append, List.flatMap_cons, List.flatMap_nil, List.append_nil, List.getLast?_append]
  cases hfa : (f a).getLast? with
  | none => exact absurd (List.getLast?_eq_none_iff.mp hfa) h
  | some x => rfl

theorem orientedKmers_eq (K : Nat) (st : Bool) (nodes : List (Node D)) (Y : Nat) (ω : Dir) (nY : Node D) (h : nodes[Y]? = some nY) :
    orientedKmers (⟨K, nodes, st⟩ : G D) (Y, ω) = windowsOf K (match ω with | .L => nY.seq | .R => rc nY.seq) := by
  unfold orientedKmers
  have : (⟨K, nodes, st⟩ : G D).nodes[(Y, ω).1]? = some nY := h
  rw [this]
  cases ω <;> rfl

/-- the left side of a new node is the port of the first old node on its path, on that node's outer side -/
theorem new_node_port_L {T : Table D} {K : Nat} {st : Bool} {join0 : D → D → Bool} {nodes1 : List (Node D)}
    {port1 : Nat → Dir → Nat × Dir} {mem1 : Nat → List Nat} {lk1 : Walk.Link}
    (pg1 : PGraph T K st join0 nodes1 port1 mem1 lk1) (hK : 1 ≤ K) (nd : Node D) (hlen : K ≤ nd.seq.length)
    (Y : Nat) (ω : Dir) (rest : List (Nat × Dir)) (nY : Node D) (hY : nodes1[Y]? = some nY)
    (hw : windowsOf K nd.seq = ((Y, ω) :: rest).flatMap (orientedKmers (⟨K, nodes1, st⟩ : G D)))
    (hex : ∀ b, has nd.exts .L b ↔ has nY.exts ω (if ω = .R then comp b else b))
    (hstr : st = true → ω = .L) :
    ∃ e, NodePort T K st nd .L (port1 Y ω) e := by
  obtain ⟨e, npY⟩ := pg1.np Y nY ω hY
  have hlY := pg1.len Y nY hY
  refine ⟨e, npY.ent, ?_, ?_, ?_⟩
  · have h1 := (windowsOf_head_last K nd.seq hK hlen).1
    rw [hw, head?_flatMap_of_ne _ _ _ (by rw [orientedKmers_eq K st nodes1 Y ω nY hY]; cases ω <;> exact windowsOf_ne_nil K _ (by simp [rc_length]; exact hlY)),
      orientedKmers_eq K st nodes1 Y ω nY hY] at h1
    have hterm := npY.term
    cases ω with
    | L =>
      simp only at h1
      rw [(windowsOf_head_last K nY.seq hK hlY).1] at h1
      have : termKmer K nd.seq .L = termKmer K nY.seq .L := (Option.some.inj h1).symm
      rw [this]; exact hterm
    | R =>
      simp only at h1
      have hlr : K ≤ (rc nY.seq).length := by rw [rc_length]; exact hlY
      rw [(windowsOf_head_last K (rc nY.seq) hK hlr).1] at h1
      have h2 : termKmer K nd.seq .L = (rc nY.seq).take K := (Option.some.inj h1).symm
      have h3 : (rc nY.seq).take K = rc (termKmer K nY.seq .R) := by
        show _ = rc (nY.seq.drop (nY.seq.length - K))
        rw [Graph.rc_drop, show nY.seq.length - (nY.seq.length - K) = K by omega]
      rw [h2, h3, hterm]
      cases hp : (port1 Y Dir.R).2 <;> simp [rc_rc]
  · intro b
    rw [hex b, npY.exts]
    cases ω <;> cases hp : (port1 Y _).2 <;> simp [comp_comp]
  · intro hst
    have := npY.strand hst
    rw [this]; exact hstr hst

/-- the right side of a new node is the port of the last old node on its path, on that node's outer side -/
theorem new_node_port_R {T : Table D} {K : Nat} {st : Bool} {join0 : D → D → Bool} {nodes1 : List (Node D)}
    {port1 : Nat → Dir → Nat × Dir} {mem1 : Nat → List Nat} {lk1 : Walk.Link}
    (pg1 : PGraph T K st join0 nodes1 port1 mem1 lk1) (hK : 1 ≤ K) (nd : Node D) (hlen : K ≤ nd.seq.length)
    (Y : Nat) (ω : Dir) (front : List (Nat × Dir)) (nY : Node D) (hY : nodes1[Y]? = some nY)
    (hw : windowsOf K nd.seq = (front ++ [(Y, ω)]).flatMap (orientedKmers (⟨K, nodes1, st⟩ : G D)))
    (hex : ∀ b, has nd.exts .R b ↔ has nY.exts ω.flip (if ω.flip = .L then comp b else b))
    (hstr : st = true → ω = .L) :
    ∃ e, NodePort T K st nd .R (port1 Y ω.flip) e := by
  obtain ⟨e, npY⟩ := pg1.np Y nY ω.flip hY
  have hlY := pg1.len Y nY hY
  refine ⟨e, npY.ent, ?_, ?_, ?_⟩
  · have h1 := (windowsOf_head_last K nd.seq hK hlen).2
    rw [hw, getLast?_flatMap_of_ne _ _ _ (by rw [orientedKmers_eq K st nodes1 Y ω nY hY]; cases ω <;> exact windowsOf_ne_nil K _ (by simp [rc_length]; exact hlY)),
      orientedKmers_eq K st nodes1 Y ω nY hY] at h1
    have hterm := npY.term
    cases ω with
    | L =>
      simp only at h1
      rw [(windowsOf_head_last K nY.seq hK hlY).2] at h1
      have : termKmer K nd.seq .R = termKmer K nY.seq .R := (Option.some.inj h1).symm
      rw [this]; exact hterm
    | R =>
      simp only at h1
      have hlr : K ≤ (rc nY.seq).length := by rw [rc_length]; exact hlY
      rw [(windowsOf_head_last K (rc nY.seq) hK hlr).2] at h1
      have h2 : termKmer K nd.seq .R = (rc nY.seq).drop ((rc nY.seq).length - K) := (Option.some.inj h1).symm
      have h3 : (rc nY.seq).drop ((rc nY.seq).length - K) = rc (termKmer K nY.seq .L) := by
        show _ = rc (nY.seq.take K)
        rw [Graph.rc_take, rc_length]
      rw [h2, h3]
      have hterm' : termKmer K nY.seq .L = if (port1 Y Dir.L).2 = Dir.L then e.key else rc e.key := hterm
      rw [hterm']
      cases hp : (port1 Y Dir.L).2 <;> simp [Dir.flip, hp, rc_rc]
  · intro b
    rw [hex b, npY.exts]
    cases ω <;> cases hp : (port1 Y _).2 <;> simp [Dir.flip, comp_comp]
  · intro hst
    have := npY.strand hst
    rw [this, hstr hst]; rfl

end Compress

namespace Compress
open Walk (Dir Conn Rel rm)
open Filter (has ExtSym2 removeCensoredExts)
open Graph (G termKmer orientedKmers)
open CompressGraph (glinkV RInv buildNode ids)
variable {D : Type}

theorem list_head_tail {α} (l : List α) (a : α) (h : l.head? = some a) : ∃ t, l = a :: t := by
  cases l with
  | nil => cases h
  | cons x t => simp only [List.head?_cons, Option.some.injEq] at h; exact ⟨t, by rw [h]⟩

theorem list_front_last {α} (l : List α) (a : α) (h : l.getLast? = some a) : ∃ f, l = f ++ [a] := by
  have hne : l ≠ [] := by intro e; rw [e] at h; cases h
  refine ⟨l.dropLast, ?_⟩
  have h1 := List.dropLast_concat_getLast hne
  have h2 : l.getLast hne = a := by
    rw [List.getLast?_eq_getLast hne] at h
    exact Option.some.inj h
  rw [h2] at h1
  exact h1.symm

/-- geometry of a node built by the re-compression: its path, seen from both ends -/
theorem recompress_node_ends (g : G D) (valid : List Nat) (hr : RInv g valid) (st : Bool) (hst : st = g.stranded)
    (join : D → D → Bool) (reduce : D → D → D) (avail : List Nat) (hav : ∀ z ∈ avail, z ∈ valid) (seed : Nat) (hs : seed ∈ avail)
    (hsn : (g.nodes[seed]?).isSome) :
    ∃ nd path rest front a', buildNode g st join reduce avail seed = some (nd, path, a') ∧
      path = (nodeChain (Walk.walk (glinkV g st join valid) (rm avail seed) seed .L).1
          (Walk.walk (glinkV g st join valid) (Walk.walk (glinkV g st join valid) (rm avail seed) seed .L).2 seed .R).1 seed).map CompressGraph.flip2 ∧
      path = lastPort (Walk.walk (glinkV g st join valid) (rm avail seed) seed .L).1 seed .L :: rest ∧
      path = front ++ [flip2 (lastPort (Walk.walk (glinkV g st join valid) (Walk.walk (glinkV g st join valid) (rm avail seed) seed .L).2 seed .R).1 seed .R)] ∧
      ids path = (Walk.build (glinkV g st join valid) avail seed).1 := by
  obtain ⟨nd, hb, _, _⟩ := CompressGraph.buildNode_ports g valid hr st hst join reduce avail hav seed hs hsn
  generalize hlw : (Walk.walk (glinkV g st join valid) (rm avail seed) seed .L) = lw at *
  generalize hrw : (Walk.walk (glinkV g st join valid) lw.2 seed .R) = rw at *
  obtain ⟨c0, h0, hc0⟩ := nodeChain_head lw.1 rw.1 seed
  have hm := nodeChain_last lw.1 rw.1 seed
  have hhead : ((nodeChain lw.1 rw.1 seed).map CompressGraph.flip2).head? = some (lastPort lw.1 seed .L) := by
    rw [List.head?_map, List.head?_eq_getElem?, h0, ← hc0]; rfl
  have hlast : ((nodeChain lw.1 rw.1 seed).map CompressGraph.flip2).getLast? = some (flip2 (lastPort rw.1 seed .R)) := by
    rw [List.getLast?_map, List.getLast?_eq_getElem?, hm]; rfl
  obtain ⟨rest, hrest⟩ := list_head_tail _ _ hhead
  obtain ⟨front, hfront⟩ := list_front_last _ _ hlast
  refine ⟨nd, _, rest, front, _, hb, rfl, hrest, hfront, ?_⟩
  have hbuild : (Walk.build (glinkV g st join valid) avail seed).1 = (lw.1.map Prod.fst).reverse ++ [seed] ++ rw.1.map Prod.fst := by
    unfold Walk.build; simp only [hlw, hrw]
  rw [hbuild, ← nodeChain_ids]
  unfold ids
  rw [List.map_map]
  rfl

end Compress

namespace Compress
open Walk (Dir Conn Rel rm)
open Filter (has ExtSym2 removeCensoredExts)
open Graph (G termKmer orientedKmers)
open CompressGraph (glinkV RInv buildNode ids)
variable {D : Type}

/-- the table positions of the k-mers of a path of old nodes, in the order of the new node's k-mers -/
def memOf (mem1 : Nat → List Nat) (path : List (Nat × Dir)) : List Nat :=
  path.flatMap fun q => if q.2 = Dir.L then mem1 q.1 else (mem1 q.1).reverse

theorem mem_memOf (mem1 : Nat → List Nat) (path : List (Nat × Dir)) (z : Nat) :
    z ∈ memOf mem1 path ↔ ∃ q ∈ path, z ∈ mem1 q.1 := by
  unfold memOf
  rw [List.mem_flatMap]
  constructor
  · rintro ⟨q, hq, hz⟩
    refine ⟨q, hq, ?_⟩
    split at hz
    · exact hz
    · exact List.mem_reverse.mp hz
  · rintro ⟨q, hq, hz⟩
    refine ⟨q, hq, ?_⟩
    split
    · exact hz
    · exact List.mem_reverse.mpr hz

/-- a palindromic single-k-mer node has no node-level good link -/
theorem glinkV_pal_none (g : G D) (join : D → D → Bool) (valid : List Nat) (Y : Nat) (nY : Node D) (hY : g.nodes[Y]? = some nY)
    (hlen : nY.seq.length = g.K) (hrc : rc nY.seq = nY.seq) (d : Dir) : glinkV g false join valid Y d = none := by
  unfold glinkV
  split
  · have : CompressGraph.staticNode g false join Y d = .terminal (nY.exts.singleDir d) := by
      unfold CompressGraph.staticNode
      rw [hY]
      simp only
      have hp : isPalindrome (nY.seq.take g.K) = true := by
        rw [← hlen, List.take_length]; exact isPal_of_rc _ hrc
      simp [hlen, hp]
    rw [this]
  · rfl

theorem joined_of_ochain {α : Type} (nl link : Walk.Link) (och : Nat × Dir → List (Nat × Dir))
    (h : ∀ a b : Nat × Dir, nl a.1 a.2 = some b → ∃ x y, (och a).getLast? = some x ∧ (och b).head? = some y ∧ link x.1 x.2 = some y) :
    ∀ (cs : List (Nat × Dir)), OChain nl cs → Joined link och cs := by
  intro cs
  induction cs with
  | nil => intro _; trivial
  | cons c t ih =>
    intro hc
    cases t with
    | nil => trivial
    | cons c' rest =>
      have hc' : LinkedFrom nl c.1 c.2 (c' :: rest) := hc
      exact ⟨h c c' hc'.1, ih hc'.2⟩

/-- **the k-mer chain of a re-compressed node**: the chains of the old nodes on its path, each read in the orientation
    in which the old node lies in the new one, joined by the k-mer-level good links that the node-level good links are -/
theorem new_chain {T : Table D} {K : Nat} {st : Bool} {join0 : D → D → Bool} {nodes1 : List (Node D)}
    {port1 : Nat → Dir → Nat × Dir} {mem1 : Nat → List Nat} {lk1 : Walk.Link}
    (pg1 : PGraph T K st join0 nodes1 port1 mem1 lk1) (wf : WF T K st) (hes2 : ExtSym2 T st) (hcl : Closed T st)
    (hx8 : ∀ (i : Nat) (n : Node D), nodes1[i]? = some n → n.exts.val < 256)
    (csn : List (Nat × Dir))
    (hoc : OChain (glinkV (⟨K, nodes1, st⟩ : G D) st (fun _ _ => true) (List.range nodes1.length)) csn)
    (hlt : ∀ c ∈ csn, c.1 < nodes1.length) :
    ∃ cs : List (Nat × Dir),
      cs.map Prod.fst = csn.flatMap (fun c => if c.2 = Dir.R then mem1 c.1 else (mem1 c.1).reverse) ∧
      OChain (linkOf T st (fun _ _ => true)) cs ∧
      cs.head?.map flip2 = csn.head?.map (fun c => port1 c.1 c.2.flip) ∧
      cs.getLast? = csn.getLast?.map (fun c => port1 c.1 c.2) := by
  -- a chain for every old node
  have hex : ∀ Y : Nat, ∃ ch : List (Nat × Dir), Y < nodes1.length →
      (ch.map Prod.fst = mem1 Y ∧ OChain lk1 ch ∧ ch.head?.map flip2 = some (port1 Y .L) ∧ ch.getLast? = some (port1 Y .R)) := by
    intro Y
    by_cases hY : Y < nodes1.length
    · obtain ⟨ch, h⟩ := pg1.chain Y hY
      exact ⟨ch, fun _ => h⟩
    · exact ⟨[], fun h => absurd h hY⟩
  obtain ⟨ch, hch⟩ := Classical.axiomOfChoice hex
  have hsymT : Walk.Sym (linkOf T st (fun (_ _ : D) => true)) := linkOf_sym wf hes2.toExtSym (fun _ _ => rfl)
  have hmono : ∀ x d r, lk1 x d = some r → linkOf T st (fun (_ _ : D) => true) x d = some r :=
    fun x d r h => linkOf_mono join0 _ (fun _ _ _ => rfl) x d r (pg1.lkSub x d r.1 r.2 h)
  let och : Nat × Dir → List (Nat × Dir) := fun c => if c.2 = Dir.R then ch c.1 else ((ch c.1).map flip2).reverse
  have hjc : JoinCompat (U := T) (K := K) (st := st) nodes1 port1 (fun _ _ => true) (fun _ _ => true) := by
    intro i j ni nj s s' ei ej _ _ _ _; rfl
  -- ends of the oriented chains
  have hends : ∀ c : Nat × Dir, c.1 < nodes1.length →
      OChain (linkOf T st (fun _ _ => true)) (och c) ∧ och c ≠ [] ∧ (och c).map Prod.fst = (if c.2 = Dir.R then mem1 c.1 else (mem1 c.1).reverse) ∧
      (och c).head?.map flip2 = some (port1 c.1 c.2.flip) ∧ (och c).getLast? = some (port1 c.1 c.2) := by
    intro c hc
    obtain ⟨h1, h2, h3, h4⟩ := hch c.1 hc
    have hne : ch c.1 ≠ [] := by intro e; rw [e] at h4; cases h4
    have h2' := ochain_mono lk1 _ hmono _ h2
    obtain ⟨c1, c2⟩ := c
    cases c2 with
    | R =>
      refine ⟨h2', hne, ?_, ?_, ?_⟩
      · show (ch c1).map Prod.fst = _; rw [h1]; rfl
      · exact h3
      · exact h4
    | L =>
      refine ⟨ochain_rev _ hsymT _ h2', by simp [och, hne], ?_, ?_, ?_⟩
      · show (((ch c1).map flip2).reverse).map Prod.fst = _
        rw [List.map_reverse, List.map_map]
        have : (Prod.fst ∘ flip2) = (Prod.fst : Nat × Dir → Nat) := by funext p; rfl
        rw [this, h1]; rfl
      · show (((ch c1).map flip2).reverse).head?.map flip2 = _
        rw [List.head?_reverse, List.getLast?_map, h4]
        simp only [Option.map_some, flip2_flip2]; rfl
      · show (((ch c1).map flip2).reverse).getLast? = _
        rw [List.getLast?_reverse, List.head?_map]
        exact h3
  have hallends : ∀ c ∈ csn, OChain (linkOf T st (fun _ _ => true)) (och c) ∧ och c ≠ [] := fun c hc =>
    ⟨(hends c (hlt c hc)).1, (hends c (hlt c hc)).2.1⟩
  -- junctions
  have hjoin : Joined (linkOf T st (fun _ _ => true)) och csn := by
    have aux : ∀ (cs : List (Nat × Dir)), (∀ c ∈ cs, c.1 < nodes1.length) →
        OChain (glinkV (⟨K, nodes1, st⟩ : G D) st (fun _ _ => true) (List.range nodes1.length)) cs → Joined (linkOf T st (fun _ _ => true)) och cs := by
      intro cs
      induction cs with
      | nil => intro _ _; trivial
      | cons c t ih =>
        intro hl hc
        cases t with
        | nil => trivial
        | cons c' rest =>
          have hc' : LinkedFrom _ c.1 c.2 (c' :: rest) := hc
          refine ⟨?_, ih (fun x hx => hl x (List.mem_cons_of_mem _ hx)) hc'.2⟩
          have hcl' := hl c (List.mem_cons_self ..)
          have hc'l := hl c' (by simp)
          have hkl := pg1.glink_to_link wf hes2 hcl hx8 _ _ hjc _ c.1 c.2 c'.1 c'.2 hc'.1
          obtain ⟨y, hy⟩ : ∃ y, (och c').head? = some y := by
            cases hh : (och c').head? with
            | none => exact absurd (List.head?_eq_none_iff.mp hh) (hends c' hc'l).2.1
            | some y => exact ⟨y, rfl⟩
          refine ⟨port1 c.1 c.2, y, (hends c hcl').2.2.2.2, hy, ?_⟩
          rw [hkl]
          have h3 := (hends c' hc'l).2.2.2.1
          rw [hy] at h3
          simp only [Option.map_some, Option.some.injEq] at h3
          rw [← h3]
          congr 1
          obtain ⟨y1, y2⟩ := y
          cases y2 <;> rfl
    exact aux csn hlt hoc
  refine ⟨csn.flatMap och, ?_, ochain_flatMap _ och csn hallends hjoin, ?_, ?_⟩
  · rw [List.map_flatMap, List.flatMap_def, List.flatMap_def]
    congr 1
    apply List.map_congr_left
    intro c hc
    exact (hends c (hlt c hc)).2.2.1
  · cases hcs : csn with
    | nil => rfl
    | cons c0 t =>
      have hc0 : c0.1 < nodes1.length := hlt c0 (by rw [hcs]; exact List.mem_cons_self ..)
      rw [head?_flatMap_cons och c0 t (hends c0 hc0).2.1, (hends c0 hc0).2.2.2.1]
      rfl
  · cases hcs : csn.getLast? with
    | none =>
      have : csn = [] := List.getLast?_eq_none_iff.mp hcs
      rw [this]; rfl
    | some cm =>
      obtain ⟨front, hfront⟩ := list_front_last csn cm hcs
      have hcm : cm.1 < nodes1.length := hlt cm (by rw [hfront]; simp)
      rw [hfront, getLast?_flatMap_snoc och front cm (hends cm hcm).2.1, (hends cm hcm).2.2.2.2]
      rfl

/-- per-node obligations of a ported graph, for one node given with its two ports and its member list -/
structure NodeOK (T : Table D) (K : Nat) (st : Bool) (nd : Node D) (pL pR : Nat × Dir) (mem : List Nat) : Prop where
  len : K ≤ nd.seq.length
  npL : ∃ e, NodePort T K st nd .L pL e
  npR : ∃ e, NodePort T K st nd .R pR e
  pal : ∀ (s : Dir) (e : Entry D), NodePort T K st nd s (match s with | .L => pL | .R => pR) e → st = false → rc e.key = e.key →
    nd.seq.length = K ∧ rc nd.seq = nd.seq ∧ pL = (pL.1, Dir.L) ∧ pR = (pL.1, Dir.R)
  keys : (windowsOf K nd.seq).map (fun w => (canonOf st w).1) = mem.map (keyOf T)
  pLmem : pL.1 ∈ mem
  pRmem : pR.1 ∈ mem
  pne : pL ≠ pR
  inner : ∀ w ∈ mem, ∀ δ, (w, δ) ≠ pL → (w, δ) ≠ pR →
    ∃ w' d', linkOf T st (fun _ _ => true) w δ = some (w', d') ∧ w' ∈ mem ∧ (w', d'.flip) ≠ pL ∧ (w', d'.flip) ≠ pR
  connM : ∀ x ∈ mem, ∀ y ∈ mem, Conn (linkOf T st (fun _ _ => true)) x y
  chain : ∃ cs : List (Nat × Dir), cs.map Prod.fst = mem ∧ OChain (linkOf T st (fun _ _ => true)) cs ∧
    cs.head?.map flip2 = some pL ∧ cs.getLast? = some pR

end Compress

namespace Compress
open Walk (Dir Conn Rel rm)
open Filter (has ExtSym2 removeCensoredExts)
open Graph (G termKmer orientedKmers)
open CompressGraph (glinkV RInv buildNode ids)
variable {D : Type}

theorem walk_nil_of_none (link : Walk.Link) (a : List Nat) (x : Nat) (d : Dir) (h : link x d = none) : (Walk.walk link a x d).1 = [] := by
  unfold Walk.walk; rw [h]

theorem walk_head_link (link : Walk.Link) (a : List Nat) (x : Nat) (d : Dir) (q : Nat × Dir) (t : List (Nat × Dir))
    (h : (Walk.walk link a x d).1 = q :: t) : link x d = some q := by
  have := walk_linked link a x d
  rw [h] at this
  exact this.1

/-- **one node of the re-compressed graph is a ported node** over the same table, with the ports of the old nodes at
    the two ends of its path -/
theorem recompress_node_ok {T : Table D} {K : Nat} {st : Bool} {join0 : D → D → Bool} {nodes1 : List (Node D)}
    {port1 : Nat → Dir → Nat × Dir} {mem1 : Nat → List Nat} {lk1 : Walk.Link}
    (pg1 : PGraph T K st join0 nodes1 port1 mem1 lk1) (wf : WF T K st) (hes2 : ExtSym2 T st) (hcl : Closed T st)
    (hx8 : ∀ (i : Nat) (n : Node D), nodes1[i]? = some n → n.exts.val < 256)
    (hr : RInv (⟨K, nodes1, st⟩ : G D) (List.range nodes1.length)) (reduce : D → D → D)
    (avail : List Nat) (hav : ∀ z ∈ avail, z ∈ List.range nodes1.length) (seed : Nat) (hs : seed ∈ avail) :
    ∃ nd path a', buildNode (⟨K, nodes1, st⟩ : G D) st (fun _ _ => true) reduce avail seed = some (nd, path, a') ∧
      ids path = (Walk.build (glinkV (⟨K, nodes1, st⟩ : G D) st (fun _ _ => true) (List.range nodes1.length)) avail seed).1 ∧
      NodeOK T K st nd
        (port1 (lastPort (Walk.walk (glinkV (⟨K, nodes1, st⟩ : G D) st (fun _ _ => true) (List.range nodes1.length)) (rm avail seed) seed .L).1 seed .L).1
               (lastPort (Walk.walk (glinkV (⟨K, nodes1, st⟩ : G D) st (fun _ _ => true) (List.range nodes1.length)) (rm avail seed) seed .L).1 seed .L).2)
        (port1 (lastPort (Walk.walk (glinkV (⟨K, nodes1, st⟩ : G D) st (fun _ _ => true) (List.range nodes1.length))
                  (Walk.walk (glinkV (⟨K, nodes1, st⟩ : G D) st (fun _ _ => true) (List.range nodes1.length)) (rm avail seed) seed .L).2 seed .R).1 seed .R).1
               (lastPort (Walk.walk (glinkV (⟨K, nodes1, st⟩ : G D) st (fun _ _ => true) (List.range nodes1.length))
                  (Walk.walk (glinkV (⟨K, nodes1, st⟩ : G D) st (fun _ _ => true) (List.range nodes1.length)) (rm avail seed) seed .L).2 seed .R).1 seed .R).2)
        (memOf mem1 path) := by
  generalize hg : (⟨K, nodes1, st⟩ : G D) = g at *
  have hgn : g.nodes = nodes1 := by rw [← hg]
  have hgK : g.K = K := by rw [← hg]
  have hgst : g.stranded = st := by rw [← hg]
  have hseedlt : seed < nodes1.length := List.mem_range.mp (hav seed hs)
  have hsn : (g.nodes[seed]?).isSome := by rw [hgn, List.getElem?_eq_getElem hseedlt]; rfl
  have hsym := CompressGraph.glinkV_sym g (List.range nodes1.length) hr st hgst.symm (fun _ _ => true) (fun _ _ => rfl)
  obtain ⟨nd, path, rest, front, a', hb, hpath, hhead, hlast, hids⟩ :=
    recompress_node_ends g (List.range nodes1.length) hr st hgst.symm (fun _ _ => true) reduce avail hav seed hs hsn
  obtain ⟨nd', hb', ⟨nl, hnl, hexL⟩, ⟨nr, hnr, hexR⟩⟩ :=
    CompressGraph.buildNode_ports g (List.range nodes1.length) hr st hgst.symm (fun _ _ => true) reduce avail hav seed hs hsn
  rw [hb] at hb'
  have hnd : nd' = nd := by
    have := Option.some.inj hb'
    exact (congrArg Prod.fst this).symm
  subst hnd
  generalize hlink : glinkV g st (fun _ _ => true) (List.range nodes1.length) = link at *
  have ok := Walk.build_ok link hsym avail seed hs
  generalize hlw : Walk.walk link (rm avail seed) seed .L = lw at *
  generalize hrw : Walk.walk link lw.2 seed .R = rw at *
  generalize hYL : lastPort lw.1 seed .L = YL at *
  generalize hYR : lastPort rw.1 seed .R = YR at *
  rw [hgn] at hnl hnr
  -- windows of the new node
  obtain ⟨hwin, hchain, hnodes⟩ := CompressGraph.buildNode_kmers g (by rw [hgK]; exact wf.kpos)
    (by intro i n hi; rw [hgK]; rw [hgn] at hi; exact pg1.len i n hi) st (fun _ _ => true) reduce avail seed nd' path a' hb
  rw [hgK] at hwin
  have hdirs : st = true → ∀ q ∈ path, q.2 = Dir.L := by
    intro hst q hq
    exact CompressGraph.isChain_dirs g (by rw [hgst]; exact hst) path hchain q hq (seed, Dir.L)
      (CompressGraph.buildNode_has_seed g st _ reduce avail seed nd' path a' hb)
  have hpathlt : ∀ q ∈ path, q.1 < nodes1.length := by
    intro q hq
    have : q.1 ∈ ids path := List.mem_map_of_mem hq
    rw [hids] at this
    exact List.mem_range.mp (hav _ (ok.ids _ this))
  have hpathnode : ∀ q ∈ path, ∃ nq, nodes1[q.1]? = some nq := fun q hq => ⟨_, List.getElem?_eq_getElem (hpathlt q hq)⟩
  -- the new node has at least K bases
  have hlen : K ≤ nd'.seq.length := by
    by_cases h : nd'.seq.length < K
    · exfalso
      have : windowsOf K nd'.seq = [] := by simp [windowsOf, h]
      rw [this, hhead, List.flatMap_cons] at hwin
      obtain ⟨nq, hnq⟩ := hpathnode YL (by rw [hhead]; exact List.mem_cons_self ..)
      have hq : orientedKmers g YL ≠ [] := by
        rw [← hg, show YL = (YL.1, YL.2) from rfl, orientedKmers_eq K st nodes1 YL.1 YL.2 nq hnq]
        cases YL.2 <;> exact windowsOf_ne_nil K _ (by simp [rc_length]; exact pg1.len _ nq hnq)
      have := congrArg List.length hwin
      simp at this
      exact hq (List.length_eq_zero_iff.mp (by omega))
    · omega
  have hgw : windowsOf K nd'.seq = path.flatMap (orientedKmers (⟨K, nodes1, st⟩ : G D)) := by rw [hg]; exact hwin
  -- the two sides
  have npL : ∃ e, NodePort T K st nd' .L (port1 YL.1 YL.2) e := by
    apply new_node_port_L pg1 wf.kpos nd' hlen YL.1 YL.2 rest nl hnl (by rw [← hhead]; exact hgw) hexL
    intro hst
    exact hdirs hst YL (by rw [hhead]; exact List.mem_cons_self ..)
  have npR : ∃ e, NodePort T K st nd' .R (port1 YR.1 YR.2) e := by
    have h1 := new_node_port_R pg1 wf.kpos nd' hlen YR.1 YR.2.flip front nr hnr
      (by rw [show ((YR.1, YR.2.flip) : Nat × Dir) = flip2 YR from rfl, ← hlast]; exact hgw)
      (by rw [Dir.flip_flip]; exact hexR)
      (by intro hst
          have := hdirs hst (flip2 YR) (by rw [hlast]; simp)
          exact this)
    rw [Dir.flip_flip] at h1
    exact h1
  -- the end nodes lie on the path
  have hYLp : YL ∈ path := by rw [hhead]; exact List.mem_cons_self ..
  have hYRp : flip2 YR ∈ path := by rw [hlast]; simp
  have hYLlt := hpathlt YL hYLp
  have hYRlt : YR.1 < nodes1.length := hpathlt (flip2 YR) hYRp
  have hidsmem : ∀ Y, Y ∈ ids path → ∃ q ∈ path, q.1 = Y := by
    intro Y hY
    obtain ⟨q, hq, e⟩ := List.mem_map.mp hY
    exact ⟨q, hq, e⟩
  have hmemY : ∀ Y, Y ∈ ids path → ∀ z ∈ mem1 Y, z ∈ memOf mem1 path := by
    intro Y hY z hz
    obtain ⟨q, hq, e⟩ := hidsmem Y hY
    exact (mem_memOf mem1 path z).mpr ⟨q, hq, by rw [e]; exact hz⟩
  have hYLids : YL.1 ∈ ids path := List.mem_map_of_mem hYLp
  have hYRids : YR.1 ∈ ids path := by
    have : (flip2 YR).1 ∈ ids path := List.mem_map_of_mem hYRp
    exact this
  have pLmem : (port1 YL.1 YL.2).1 ∈ memOf mem1 path := hmemY _ hYLids _ (pg1.portMem YL.1 YL.2 hYLlt)
  have pRmem : (port1 YR.1 YR.2).1 ∈ memOf mem1 path := hmemY _ hYRids _ (pg1.portMem YR.1 YR.2 hYRlt)
  -- a k-mer port determines the node-level port
  have hportinj : ∀ (Y Y' : Nat) (s s' : Dir), Y < nodes1.length → Y' < nodes1.length → port1 Y s = port1 Y' s' → (Y, s) = (Y', s') := by
    intro Y Y' s s' hY hY' he
    have h1 := pg1.portMem Y s hY
    have h2 := pg1.portMem Y' s' hY'
    rw [he] at h1
    have := pg1.disjoint Y Y' hY hY' _ h1 h2
    subst this
    by_cases hss : s = s'
    · rw [hss]
    · exfalso
      have hne := pg1.portNe Y hY
      cases s <;> cases s' <;> simp_all
  have hendsne : YL ≠ YR := by
    have := build_ports_ne link hsym avail seed hs
    rw [hlw, hrw, hYL, hYR] at this
    exact this
  have pne : port1 YL.1 YL.2 ≠ port1 YR.1 YR.2 := by
    intro he
    have := hportinj YL.1 YR.1 YL.2 YR.2 hYLlt hYRlt he
    exact hendsne this
  -- canonical k-mers, in order
  have keys : (windowsOf K nd'.seq).map (fun w => (canonOf st w).1) = (memOf mem1 path).map (keyOf T) := by
    rw [hgw]
    unfold memOf
    rw [List.map_flatMap, List.map_flatMap, List.flatMap_def, List.flatMap_def]
    congr 1
    apply List.map_congr_left
    intro q hq
    obtain ⟨nq, hnq⟩ := hpathnode q hq
    rw [show q = (q.1, q.2) from rfl, orientedKmers_eq K st nodes1 q.1 q.2 nq hnq]
    cases hd : q.2 with
    | L => simp only [if_true]; exact pg1.keys q.1 nq hnq
    | R =>
      have hstf : st = false := by
        cases hst : st with
        | false => rfl
        | true => have := hdirs hst q hq; rw [hd] at this; cases this
      subst hstf
      simp only [Dir.noConfusion, if_false, reduceCtorEq]
      rw [canon_map_rc K nq.seq (pg1.len q.1 nq hnq), pg1.keys q.1 nq hnq, List.map_reverse]
  -- members of the node are joined by good links
  have hle : ∀ a b, join0 a b = true → (fun (_ _ : D) => true) a b = true := fun _ _ _ => rfl
  have hjc : JoinCompat (U := T) (K := K) (st := st) nodes1 port1 (fun _ _ => true) (fun _ _ => true) := by
    intro i j ni nj s s' ei ej _ _ _ _; rfl
  have hlink' : link = glinkV (⟨K, nodes1, st⟩ : G D) st (fun _ _ => true) (List.range nodes1.length) := by
    rw [← hlink, hg]
  have connM : ∀ x ∈ memOf mem1 path, ∀ y ∈ memOf mem1 path, Conn (linkOf T st (fun _ _ => true)) x y := by
    intro x hx y hy
    obtain ⟨q, hq, hxq⟩ := (mem_memOf mem1 path x).mp hx
    obtain ⟨q', hq', hyq⟩ := (mem_memOf mem1 path y).mp hy
    have h1 : q.1 ∈ (Walk.build link avail seed).1 := by rw [← hids]; exact List.mem_map_of_mem hq
    have h2 : q'.1 ∈ (Walk.build link avail seed).1 := by rw [← hids]; exact List.mem_map_of_mem hq'
    have hc : Conn link q.1 q'.1 := Conn.trans _ (Conn.symm _ hsym (ok.conn _ h1)) (ok.conn _ h2)
    rw [hlink'] at hc
    exact (pg1.conn_kmers_of_nodes wf hes2 hcl hx8 _ _ hjc hle q.1 q'.1 hc (hpathlt q hq)).2 x hxq y hyq
  -- interior ports
  have inner : ∀ w ∈ memOf mem1 path, ∀ δ, (w, δ) ≠ port1 YL.1 YL.2 → (w, δ) ≠ port1 YR.1 YR.2 →
      ∃ w' d', linkOf T st (fun _ _ => true) w δ = some (w', d') ∧ w' ∈ memOf mem1 path ∧
        (w', d'.flip) ≠ port1 YL.1 YL.2 ∧ (w', d'.flip) ≠ port1 YR.1 YR.2 := by
    intro w hw δ hL hR
    obtain ⟨q, hq, hwq⟩ := (mem_memOf mem1 path w).mp hw
    have hYlt := hpathlt q hq
    have hYids : q.1 ∈ ids path := List.mem_map_of_mem hq
    by_cases hA : (w, δ) ≠ port1 q.1 .L ∧ (w, δ) ≠ port1 q.1 .R
    · -- interior port of the old node
      obtain ⟨w', d', h1, h2, h3, h4⟩ := pg1.inner q.1 hYlt w hwq δ hA.1 hA.2
      refine ⟨w', d', linkOf_mono join0 _ hle w δ _ (pg1.lkSub _ _ _ _ h1), hmemY _ hYids _ h2, ?_, ?_⟩
      · intro he
        have hm := pg1.portMem YL.1 YL.2 hYLlt
        rw [← he] at hm
        have := pg1.disjoint q.1 YL.1 hYlt hYLlt w' h2 hm
        rw [← this] at he
        cases hd : YL.2 <;> rw [hd] at he
        · exact h3 he
        · exact h4 he
      · intro he
        have hm := pg1.portMem YR.1 YR.2 hYRlt
        rw [← he] at hm
        have := pg1.disjoint q.1 YR.1 hYlt hYRlt w' h2 hm
        rw [← this] at he
        cases hd : YR.2 <;> rw [hd] at he
        · exact h3 he
        · exact h4 he
    · -- an end port of the old node that is not an end of the new node: it is joined to the next old node
      have hB : ∃ s, (w, δ) = port1 q.1 s := by
        by_cases h1 : (w, δ) = port1 q.1 .L
        · exact ⟨.L, h1⟩
        · by_cases h2 : (w, δ) = port1 q.1 .R
          · exact ⟨.R, h2⟩
          · exact absurd ⟨h1, h2⟩ hA
      obtain ⟨s, hs'⟩ := hB
      have hneL : (q.1, s) ≠ lastPort lw.1 seed .L := by
        rw [hYL]; intro e; apply hL; rw [hs', ← e]
      have hneR : (q.1, s) ≠ lastPort rw.1 seed .R := by
        rw [hYR]; intro e; apply hR; rw [hs', ← e]
      have hqb : q.1 ∈ (Walk.build link avail seed).1 := by rw [← hids]; exact hYids
      have hbi := build_inner link hsym avail seed hs q.1 hqb s (by rw [hlw]; exact hneL) (by rw [hlw, hrw]; exact hneR)
      rw [hlw, hrw, hYL, hYR] at hbi
      obtain ⟨Y', d', hl, hY', n1, n2⟩ := hbi
      rw [hlink'] at hl
      have hkl := pg1.glink_to_link wf hes2 hcl hx8 _ _ hjc _ q.1 s Y' d' hl
      have hY'ids : Y' ∈ ids path := by rw [hids]; exact hY'
      have hY'lt : Y' < nodes1.length := by
        obtain ⟨q', hq', e⟩ := hidsmem Y' hY'ids
        rw [← e]; exact hpathlt q' hq'
      have hw1 : w = (port1 q.1 s).1 := congrArg Prod.fst hs'
      have hw2 : δ = (port1 q.1 s).2 := congrArg Prod.snd hs'
      refine ⟨(port1 Y' d'.flip).1, (port1 Y' d'.flip).2.flip, by rw [hw1, hw2]; exact hkl,
        hmemY _ hY'ids _ (pg1.portMem Y' d'.flip hY'lt), ?_, ?_⟩
      · rw [Dir.flip_flip]
        intro he
        have := hportinj Y' YL.1 d'.flip YL.2 hY'lt hYLlt he
        exact n1 this
      · rw [Dir.flip_flip]
        intro he
        have := hportinj Y' YR.1 d'.flip YR.2 hY'lt hYRlt he
        exact n2 this
  -- a palindromic k-mer at an end: the new node is that single old node
  have pal : ∀ (s : Dir) (e : Entry D), NodePort T K st nd' s (match s with | .L => port1 YL.1 YL.2 | .R => port1 YR.1 YR.2) e →
      st = false → rc e.key = e.key →
      nd'.seq.length = K ∧ rc nd'.seq = nd'.seq ∧ port1 YL.1 YL.2 = ((port1 YL.1 YL.2).1, Dir.L) ∧
        port1 YR.1 YR.2 = ((port1 YL.1 YL.2).1, Dir.R) := by
    intro s e np hstf hrc
    subst hstf
    -- the old node at that end is a palindromic single-k-mer node
    have hY : ∃ (Y : Nat × Dir) (nY : Node D), (Y = YL ∨ Y = YR) ∧ nodes1[Y.1]? = some nY ∧ nY.seq.length = K ∧ rc nY.seq = nY.seq ∧
        ∀ t, port1 Y.1 t = ((port1 Y.1 Y.2).1, t) := by
      cases s with
      | L =>
        obtain ⟨e', npY⟩ := pg1.np YL.1 nl YL.2 hnl
        have : e' = e := by have a := npY.ent; have b := np.ent; simp only at b; rw [a] at b; exact Option.some.inj b
        subst this
        obtain ⟨a, b, c⟩ := pg1.pal YL.1 nl YL.2 e' hnl npY rfl hrc
        exact ⟨YL, nl, Or.inl rfl, hnl, a, b, c⟩
      | R =>
        obtain ⟨e', npY⟩ := pg1.np YR.1 nr YR.2 hnr
        have : e' = e := by have a := npY.ent; have b := np.ent; simp only at b; rw [a] at b; exact Option.some.inj b
        subst this
        obtain ⟨a, b, c⟩ := pg1.pal YR.1 nr YR.2 e' hnr npY rfl hrc
        exact ⟨YR, nr, Or.inr rfl, hnr, a, b, c⟩
    obtain ⟨Y, nY, hYor, hnY, hlY, hrcY, hportsY⟩ := hY
    have hnone : ∀ d, link Y.1 d = none := by
      intro d
      rw [← hlink, ← hg]
      exact glinkV_pal_none _ _ _ Y.1 nY hnY hlY hrcY d
    -- no link enters or leaves that node, so both walks are empty and the node is the seed
    have hnoin : ∀ x d q, link x d = some q → q.1 ≠ Y.1 := by
      intro x d q hq he
      have := hsym x d q.1 q.2 hq
      rw [he, hnone] at this; cases this
    have hentered : ∀ (x : Nat) (d : Dir) (p : List (Nat × Dir)), LinkedFrom link x d p → p ≠ [] →
        ∃ x' d', link x' d' = some (lastPort p x d) := by
      intro x d p hp hne
      cases p with
      | nil => exact absurd rfl hne
      | cons q t =>
        obtain ⟨q1, q2⟩ := q
        rw [lastPort_cons]
        rcases lastPort_linked link q1 q2 t hp.2 with h3 | h3
        · exact ⟨x, d, by rw [h3]; exact hp.1⟩
        · exact h3
    have hll : LinkedFrom link seed .L lw.1 := by rw [← hlw]; exact walk_linked link _ seed .L
    have hrr : LinkedFrom link seed .R rw.1 := by rw [← hrw]; exact walk_linked link _ seed .R
    have hseedY : seed = Y.1 := by
      rcases hYor with h | h
      · by_cases hl : lw.1 = []
        · rw [h, ← hYL]; unfold lastPort; rw [hl]; rfl
        · exfalso
          obtain ⟨x', d', hx'⟩ := hentered seed .L lw.1 hll hl
          rw [hYL] at hx'
          exact hnoin x' d' _ hx' (by rw [h])
      · by_cases hl : rw.1 = []
        · rw [h, ← hYR]; unfold lastPort; rw [hl]; rfl
        · exfalso
          obtain ⟨x', d', hx'⟩ := hentered seed .R rw.1 hrr hl
          rw [hYR] at hx'
          exact hnoin x' d' _ hx' (by rw [h])
    have hlwnil : lw.1 = [] := by
      rw [← hlw]; exact walk_nil_of_none link _ seed .L (by rw [hseedY]; exact hnone _)
    have hrwnil : rw.1 = [] := by
      rw [← hrw]; exact walk_nil_of_none link _ seed .R (by rw [hseedY]; exact hnone _)
    have hYLeq : YL = (seed, Dir.L) := by rw [← hYL]; unfold lastPort; rw [hlwnil]; rfl
    have hYReq : YR = (seed, Dir.R) := by rw [← hYR]; unfold lastPort; rw [hrwnil]; rfl
    have hpathone : path = [(seed, Dir.L)] := by
      rw [hpath, hlwnil, hrwnil]; rfl
    have hnYs : nodes1[seed]? = some nY := by rw [hseedY]; exact hnY
    have hw1 : windowsOf K nd'.seq = windowsOf K nY.seq := by
      rw [hgw, hpathone]
      simp only [List.flatMap_cons, List.flatMap_nil, List.append_nil]
      exact orientedKmers_eq K false nodes1 seed .L nY hnYs
    have hl1 : nd'.seq.length = K := by
      have := congrArg List.length hw1
      rw [windowsOf_length K nd'.seq hlen, windowsOf_length K nY.seq (by omega)] at this
      omega
    have hseq : nd'.seq = nY.seq := by
      have h1 := (windowsOf_head_last K nd'.seq wf.kpos hlen).1
      have h2 := (windowsOf_head_last K nY.seq wf.kpos (by omega)).1
      rw [hw1, h2] at h1
      have h3 := Option.some.inj h1
      have e1 : nY.seq.take K = nY.seq := by rw [← hlY, List.take_length]
      have e2 : nd'.seq.take K = nd'.seq := by rw [← hl1, List.take_length]
      rw [e1, e2] at h3
      exact h3.symm
    refine ⟨hl1, by rw [hseq]; exact hrcY, ?_, ?_⟩
    · rw [hYLeq]; simp only; rw [hseedY, hportsY .L]
    · rw [hYLeq, hYReq]; simp only; rw [hseedY, hportsY .R, hportsY .L]
  -- the k-mer chain of the new node
  have chain : ∃ cs : List (Nat × Dir), cs.map Prod.fst = memOf mem1 path ∧ OChain (linkOf T st (fun _ _ => true)) cs ∧
      cs.head?.map flip2 = some (port1 YL.1 YL.2) ∧ cs.getLast? = some (port1 YR.1 YR.2) := by
    have hll : LinkedFrom link seed .L lw.1 := by rw [← hlw]; exact walk_linked link _ seed .L
    have hrr : LinkedFrom link seed .R rw.1 := by rw [← hrw]; exact walk_linked link _ seed .R
    have hoc := nodeChain_ochain link hsym lw.1 rw.1 seed hll hrr
    rw [hlink'] at hoc
    have hcsn : ∀ c ∈ nodeChain lw.1 rw.1 seed, c.1 < nodes1.length := by
      intro c hc
      have : CompressGraph.flip2 c ∈ path := by rw [hpath]; exact List.mem_map_of_mem hc
      exact hpathlt (CompressGraph.flip2 c) this
    obtain ⟨cs, h1, h2, h3, h4⟩ := new_chain pg1 wf hes2 hcl hx8 (nodeChain lw.1 rw.1 seed) hoc hcsn
    refine ⟨cs, ?_, h2, ?_, ?_⟩
    · rw [h1, hpath]
      unfold memOf
      rw [List.flatMap_map]
      rw [List.flatMap_def, List.flatMap_def]
      congr 1
      apply List.map_congr_left
      intro c _
      obtain ⟨c1, c2⟩ := c
      cases c2 <;> rfl
    · rw [h3]
      obtain ⟨c0, h0, hc0⟩ := nodeChain_head lw.1 rw.1 seed
      rw [List.head?_eq_getElem?, h0, Option.map_some]
      rw [hYL] at hc0
      rw [← hc0]; rfl
    · rw [h4, List.getLast?_eq_getElem?, nodeChain_last, Option.map_some, hYR]
  exact ⟨nd', path, a', hb, hids, ⟨hlen, npL, npR, pal, keys, pLmem, pRmem, pne, inner, connM, chain⟩⟩

end Compress
