import Dbg.Lemmas.IsCompressed
import Dbg.Lemmas.Idempotent
/-! The result of `compress_graph` (no censoring, constantly-true join) passes the crate's own `is_compressed` check — the
    `debug_assert!` at the end of `compress_graph` cannot fire. -/
namespace Compress
open Walk (Dir Conn Rel rm)
open Filter (has ExtSym2 removeCensoredExts)
open Graph (G termKmer orientedKmers fixExts isCompressed)
open CompressGraph (glinkV RInv buildNode ids compressLoop compressGraph)
variable {D : Type}

/-- the final `fix_exts` leaves extension bytes -/
theorem compressGraph_x8 (st : Bool) (g : G D) (join : D → D → Bool) (reduce : D → D → D) (censor : List Nat)
    (g' : G D) (paths : List (List (Nat × Dir))) (h : compressGraph st g join reduce censor = some (g', paths)) :
    ∀ (i : Nat) (n : Node D), g'.nodes[i]? = some n → n.exts.val < 256 := by
  unfold compressGraph at h
  dsimp only at h
  split at h
  · cases h
  · rename_i nodes _
    simp only [Option.some.injEq, Prod.mk.injEq] at h
    obtain ⟨rfl, _⟩ := h
    intro i n hn
    have sh := CompressGraph.fixExts_shape (⟨g.K, nodes.map (·.1), st⟩ : G D) none
    obtain ⟨n0, h0⟩ : ∃ n0, (⟨g.K, nodes.map (·.1), st⟩ : G D).nodes[i]? = some n0 := by
      have hlt : i < (fixExts (⟨g.K, nodes.map (·.1), st⟩ : G D) none).nodes.length := (List.getElem?_eq_some_iff.mp hn).1
      rw [shape_length _ _ sh] at hlt
      exact ⟨_, List.getElem?_eq_getElem hlt⟩
    exact (CompressGraph.fixExts_exact _ none i n0 n h0 hn).2.2.1

theorem pgraph_recompress_isCompressed {U : Table D} {K : Nat} {st : Bool} {join0 : D → D → Bool} {nodes : List (Node D)}
    {port : Nat → Dir → Nat × Dir} {members : Nat → List Nat} {lk : Walk.Link}
    (pg : PGraph U K st join0 nodes port members lk) (wf : WF U K st) (hes2 : ExtSym2 U st) (reduce : D → D → D) :
    ∃ g' paths, compressGraph st (⟨K, nodes, st⟩ : G D) (fun _ _ => true) reduce [] = some (g', paths) ∧
      isCompressed g' (fun _ _ => true) = none := by
  obtain ⟨g', paths, port', mem', hcg, hK', hst', pg3, hlen3, hmem3⟩ := pgraph_compressGraph pg wf hes2 reduce
  obtain ⟨g'0, paths0, hcg0, hne, hchar⟩ := pgraph_recompress pg wf hes2 reduce (fun _ _ => true) (fun _ _ => true) (fun _ _ => rfl) (fun _ _ => rfl)
  rw [hcg] at hcg0
  have e0 : g'0 = g' ∧ paths0 = paths := by
    have := Option.some.inj hcg0
    exact ⟨(congrArg Prod.fst this).symm, (congrArg Prod.snd this).symm⟩
  obtain ⟨rfl, rfl⟩ := e0
  obtain ⟨_, _, hcovP, hrangeP, hndP⟩ := CompressGraph.C09_kmers_cover st (⟨K, nodes, st⟩ : G D) wf.kpos pg.len _ reduce [] g'0 paths0 hcg
  have hrange1 : ∀ p ∈ paths0, ∀ i ∈ ids p, i < nodes.length := fun p hp i hi => (hrangeP p hp i hi).2
  have wf1 := Filter.wf_removeCensored st U K wf
  have hes1 := Filter.extSym2_removeCensored st U K wf hes2
  have wf2 := Filter.wf_removeCensored st _ K wf1
  have hes2' := Filter.extSym2_removeCensored st _ K wf1 hes1
  have hcl1 := closed_pruned st U
  have hcl2 := closed_pruned st (removeCensoredExts st U)
  obtain ⟨c21, _⟩ := prune_closed_content wf1 hcl1
  have heta := graph_eta g'0 K st hK' hst'
  have hpathU : ∀ (i j : Nat) (p q : List (Nat × Dir)), paths0[i]? = some p → paths0[j]? = some q → ∀ X, X ∈ ids p → X ∈ ids q → i = j := by
    intro i j p q hi hj X h1 h2
    rw [← List.flatMap_def] at hndP
    obtain ⟨_, hidx⟩ := nodup_flatMap_index paths0 ids hndP
    obtain ⟨hil, ei⟩ := List.getElem?_eq_some_iff.mp hi
    obtain ⟨hjl, ej⟩ := List.getElem?_eq_some_iff.mp hj
    exact hidx i j hil hjl X (by rw [ei]; exact h1) (by rw [ej]; exact h2)
  refine ⟨g'0, paths0, hcg, ?_⟩
  rw [heta]
  apply pg3.isCompressed_none wf2 hes2' hcl2 (compressGraph_x8 st _ _ reduce [] g'0 paths0 hcg)
  intro X Y d o hX hY hl
  -- the two end ports are joined by a good link of the twice-pruned table, hence connected in the once-pruned one
  have hx := pg3.portMem X d hX
  have hy := pg3.portMem Y o hY
  generalize (port' X d).1 = x at hx hl
  generalize (port' Y o).1 = y at hy hl
  have hc : Conn (linkOf (removeCensoredExts st (removeCensoredExts st U)) st (fun _ _ => true)) x y :=
    Conn.step (Conn.refl x) ⟨_, _, hl⟩
  have hXp : X < paths0.length := by rw [← hlen3]; exact hX
  have hYp : Y < paths0.length := by rw [← hlen3]; exact hY
  have hpx : paths0[X]? = some paths0[X] := List.getElem?_eq_getElem hXp
  have hpy : paths0[Y]? = some paths0[Y] := List.getElem?_eq_getElem hYp
  rw [hmem3 X _ hpx] at hx
  rw [hmem3 Y _ hpy] at hy
  obtain ⟨qx, hqx, hxq⟩ := (mem_memOf members _ x).mp hx
  obtain ⟨qy, hqy, hyq⟩ := (mem_memOf members _ y).mp hy
  have hqxlt := hrange1 _ (List.getElem_mem hXp) qx.1 (List.mem_map_of_mem hqx)
  have hqylt := hrange1 _ (List.getElem_mem hYp) qy.1 (List.mem_map_of_mem hqy)
  have hk := conn_kconn _ st _ x y hc
  simp only [keyOf_pruned] at hk
  have hk2 := kconn_content _ wf1 c21 _ _ hk
  have hxl : x < (removeCensoredExts st U).length := by
    rw [(Filter.removeCensored_exact st U).1]; exact pg.inRange qx.1 hqxlt x hxq
  obtain ⟨y', hy', hky, hc1⟩ := kconn_conn wf1 _ _ _ hk2 x hxl (keyOf_pruned st U x)
  rw [keyOf_pruned] at hky
  rw [(Filter.removeCensored_exact st U).1] at hy'
  have : y' = y := keyOf_inj wf y' y hy' (pg.inRange qy.1 hqylt y hyq) hky
  subst this
  obtain ⟨p, hpm, h1, h2⟩ := (hchar qx.1 qy.1 hqxlt hqylt).2.mpr ⟨x, hxq, y', hyq, hc1⟩
  obtain ⟨k, hk', ek⟩ := List.getElem_of_mem hpm
  have hpk : paths0[k]? = some p := by rw [List.getElem?_eq_getElem hk', ek]
  have e1 := hpathU X k _ p hpx hpk qx.1 (List.mem_map_of_mem hqx) h1
  have e2 := hpathU Y k _ p hpy hpk qy.1 (List.mem_map_of_mem hqy) h2
  omega

/-- the sharded pipeline's final graph passes `is_compressed` -/
theorem sharded_result_isCompressed {R : Table D} {K : Nat} {st : Bool} (wfR : WF R K st) (hesR : ExtSym2 R st)
    (Ts : List (Table D)) (sw : Sandwich st Ts.flatten R) (reduce : D → D → D)
    (join0 : D → D → Bool) (hj0 : ∀ a b, join0 a b = join0 b a) :
    ∃ outs g' paths, AllBuilt st join0 reduce Ts outs ∧
      compressGraph st (⟨K, (outs.map fun o => o.map (·.1)).flatten, st⟩ : G D) (fun _ _ => true) reduce [] = some (g', paths) ∧
      isCompressed g' (fun _ _ => true) = none := by
  have wfU := sandwich_wf wfR sw
  have hesU := sandwich_extSym2 wfR hesR sw
  obtain ⟨outs, hb, hp⟩ := allBuilt_of_tables (K := K) join0 hj0 reduce Ts wfU hesU
  obtain ⟨port, mem, lk, pg⟩ := pgraph_flatten K st join0 Ts _ hp wfU
  obtain ⟨g', paths, hcg, hic⟩ := pgraph_recompress_isCompressed pg wfU hesU reduce
  exact ⟨outs, g', paths, hb, hcg, hic⟩

end Compress
