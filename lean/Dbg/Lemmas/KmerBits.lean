import Dbg.Model.Kmer
import Dbg.Spec.C10
/-! Bit-level facts about the packed k-mer model, generic in the storage width and K. -/
namespace Kmer

theorem mod4_testBit (x : Nat) : x % 4 = 2 * (x.testBit 1).toNat + (x.testBit 0).toNat := by
  have h0 : x.testBit 0 = decide (x % 2 = 1) := Nat.testBit_zero ..
  have h1 : x.testBit 1 = decide ((x / 2) % 2 = 1) := by
    rw [show (1 : Nat) = 0 + 1 from rfl, Nat.testBit_succ, Nat.testBit_zero]
  rw [h0, h1]
  by_cases a : x % 2 = 1 <;> by_cases b : (x / 2) % 2 = 1 <;> simp [a, b] <;> omega

/-- well-formed configuration: at least one base, the K lanes fit, full-width types use all lanes -/
structure Cfg.WF (c : Cfg) : Prop where
  hK : 1 ≤ c.K
  hw : 2 * c.K ≤ c.w
  hint : c.var = false → c.w = 2 * c.K

variable {c : Cfg}

/-- bit view of `get`: the base at `pos` is the two bits at `addr pos` -/
theorem get_bits (hc : c.WF) (s : St c) (pos : Nat) :
    get c s pos = 2 * (s.getLsbD (addr c pos + 1)).toNat + (s.getLsbD (addr c pos)).toNat := by
  have hw2 : 2 ≤ c.w := by have := hc.hK; have := hc.hw; omega
  unfold get
  rw [BitVec.toNat_and, BitVec.toNat_ofNat]
  have h3 : 3 % 2 ^ c.w = 3 := by
    apply Nat.mod_eq_of_lt
    have : 2 ^ 2 ≤ 2 ^ c.w := Nat.pow_le_pow_right (by decide) hw2
    omega
  rw [h3, show (3 : Nat) = 2 ^ 2 - 1 from rfl, Nat.and_two_pow_sub_one_eq_mod, show (2:Nat)^2 = 4 from rfl, mod4_testBit]
  simp only [BitVec.testBit_toNat, BitVec.getLsbD_ushiftRight]
  rw [Nat.add_comm (addr c pos) 1]
  simp

theorem get_lt (hc : c.WF) (s : St c) (pos : Nat) : get c s pos < 4 := by
  rw [get_bits hc]
  cases s.getLsbD (addr c pos + 1) <;> cases s.getLsbD (addr c pos) <;> simp

/-- two k-mers read the same base at `pos` iff their two bits there agree -/
theorem get_eq_iff (hc : c.WF) (s t : St c) (pos : Nat) :
    get c s pos = get c t pos ↔
      (s.getLsbD (addr c pos) = t.getLsbD (addr c pos) ∧ s.getLsbD (addr c pos + 1) = t.getLsbD (addr c pos + 1)) := by
  rw [get_bits hc, get_bits hc]
  cases s.getLsbD (addr c pos + 1) <;> cases s.getLsbD (addr c pos) <;>
    cases t.getLsbD (addr c pos + 1) <;> cases t.getLsbD (addr c pos) <;> simp

/-- bits of a small constant shifted into a lane -/
theorem ofNat_shift_bits (w v a i : Nat) (hv : v < 4) (hi : i < w) :
    (BitVec.ofNat w v <<< a).getLsbD i = (decide (a ≤ i) && v.testBit (i - a)) := by
  simp only [BitVec.getLsbD_shiftLeft, BitVec.getLsbD_ofNat]
  by_cases h : i < a
  · simp [h]; omega
  · have : i - a < w := by omega
    simp [h, hi, this, Nat.not_lt.mp h]

theorem testBit_lt4 (v j : Nat) (hv : v < 4) (hj : 2 ≤ j) : v.testBit j = false := by
  apply Nat.testBit_lt_two_pow
  have : 2 ^ 2 ≤ 2 ^ j := Nat.pow_le_pow_right (by decide) hj
  omega

/-- bits of `set_mut`: the two bits of the lane become `v`, all others are unchanged -/
theorem setMut_bits (hc : c.WF) (s : St c) (pos v i : Nat) (hv : v < 4) (hi : i < c.w) :
    (setMut c s pos v).getLsbD i =
      if i = addr c pos then v.testBit 0 else if i = addr c pos + 1 then v.testBit 1 else s.getLsbD i := by
  unfold setMut
  simp only [BitVec.getLsbD_or, BitVec.getLsbD_and, BitVec.getLsbD_not, hi, decide_true, Bool.true_and]
  rw [ofNat_shift_bits c.w v _ i hv hi, ofNat_shift_bits c.w 3 _ i (by decide) hi]
  have t30 : Nat.testBit 3 0 = true := by decide
  have t31 : Nat.testBit 3 1 = true := by decide
  by_cases h1 : i = addr c pos
  · subst h1; simp [t30]
  · by_cases h2 : i = addr c pos + 1
    · subst h2
      have e : addr c pos + 1 - addr c pos = 1 := by omega
      simp [e, t31]
    · simp only [h1, h2, if_false]
      by_cases h3 : addr c pos ≤ i
      · have : 2 ≤ i - addr c pos := by omega
        simp [h3, testBit_lt4 3 _ (by decide) this, testBit_lt4 v _ hv this]
      · simp [h3]

theorem toNat_of_testBits (v : Nat) (hv : v < 4) : 2 * (v.testBit 1).toNat + (v.testBit 0).toNat = v := by
  have : v = 0 ∨ v = 1 ∨ v = 2 ∨ v = 3 := by omega
  rcases this with rfl | rfl | rfl | rfl <;> decide

theorem addr_lt (hc : c.WF) (pos : Nat) (hp : pos < c.K) : addr c pos + 1 < c.w := by
  unfold addr; have := hc.hw; omega

theorem addr_inj (pos q : Nat) (hp : pos < c.K) (hq : q < c.K) (h : addr c pos = addr c q) : pos = q := by
  unfold addr at h; omega

/-- `get` after `set_mut` -/
theorem get_setMut (hc : c.WF) (s : St c) (pos v q : Nat) (hp : pos < c.K) (hq : q < c.K) (hv : v < 4) :
    get c (setMut c s pos v) q = if q = pos then v else get c s q := by
  rw [get_bits hc, get_bits hc]
  have hq1 := addr_lt hc q hq
  rw [setMut_bits hc s pos v _ hv hq1, setMut_bits hc s pos v _ hv (by omega)]
  by_cases h : q = pos
  · subst h
    have e1 : addr c q + 1 ≠ addr c q := by omega
    rw [if_neg e1, if_pos rfl, if_pos rfl, if_pos rfl]
    exact toNat_of_testBits v hv
  · have hne : addr c q ≠ addr c pos := fun e => h (addr_inj q pos hq hp e)
    have hne2 : addr c q + 1 ≠ addr c pos := by unfold addr; omega
    have hne3 : addr c q ≠ addr c pos + 1 := by unfold addr; omega
    have hne4 : addr c q + 1 ≠ addr c pos + 1 := by omega
    simp [h, hne, hne2, hne3, hne4]

/-- **`set_mut` refines `List.set`.** -/
theorem toSeq_setMut (hc : c.WF) (s : St c) (pos v : Nat) (hp : pos < c.K) (hv : v < 4) :
    toSeq c (setMut c s pos v) = (toSeq c s).set pos v := by
  apply List.ext_getElem
  · simp [toSeq]
  · intro q h1 h2
    simp only [toSeq, List.length_map, List.length_range] at h1
    simp only [toSeq, List.getElem_map, List.getElem_range, List.getElem_set]
    rw [get_setMut hc s pos v q hp h1 hv]
    by_cases h : q = pos
    · subst h; simp
    · have : ¬ pos = q := fun e => h e.symm
      simp [h, this]

/-- representation invariant: no bit outside the 2K used ones -/
def Inv (c : Cfg) (s : St c) : Prop := ∀ i, 2 * c.K ≤ i → s.getLsbD i = false

theorem inv_setMut (hc : c.WF) (s : St c) (pos v : Nat) (hp : pos < c.K) (hv : v < 4) (h : Inv c s) :
    Inv c (setMut c s pos v) := by
  intro i hi
  by_cases hw : i < c.w
  · rw [setMut_bits hc s pos v i hv hw]
    have e1 : i ≠ addr c pos := by unfold addr; omega
    have e2 : i ≠ addr c pos + 1 := by unfold addr; omega
    rw [if_neg e1, if_neg e2]; exact h i hi
  · exact BitVec.getLsbD_of_ge _ _ (by omega)

end Kmer
