import Dbg.Lemmas.RecompressConn
/-! Good links at the level of keys: two tables with the same content (same keys, payloads and extension sets, in any
    order) have the same key-level good-link relation, hence the same partition of keys into connected classes. -/
namespace Compress
open Walk (Dir Conn Rel)
open Filter (has)
variable {D : Type}

/-- every entry of `A` occurs in `B` with the same key, payload and extension bits -/
def ContentLe (A B : Table D) : Prop :=
  ∀ ea ∈ A, ∃ eb ∈ B, ea.key = eb.key ∧ ea.data = eb.data ∧ ∀ d, ea.exts.dirBits d = eb.exts.dirBits d

/-- one good link, between keys -/
def KRel (T : Table D) (st : Bool) (join : D → D → Bool) (k1 k2 : Seq) : Prop :=
  ∃ x y, Rel (linkOf T st join) x y ∧ keyOf T x = k1 ∧ keyOf T y = k2

inductive KConn (T : Table D) (st : Bool) (join : D → D → Bool) : Seq → Seq → Prop
  | refl (k) : KConn T st join k k
  | step {k1 k2 k3} : KConn T st join k1 k2 → KRel T st join k2 k3 → KConn T st join k1 k3

theorem conn_kconn (T : Table D) (st : Bool) (join : D → D → Bool) (x y : Nat) (h : Conn (linkOf T st join) x y) :
    KConn T st join (keyOf T x) (keyOf T y) := by
  induction h with
  | refl => exact KConn.refl _
  | step _ r ih => exact KConn.step ih ⟨_, _, r, rfl, rfl⟩

theorem rel_lt {T : Table D} {st : Bool} {join : D → D → Bool} {x y : Nat} (h : Rel (linkOf T st join) x y) :
    x < T.length ∧ y < T.length := by
  obtain ⟨d, d', hl⟩ := h
  obtain ⟨ex, ey, b, f⟩ := linkOf_inv T st join hl
  exact ⟨(List.getElem?_eq_some_iff.mp f.hx).1, (List.getElem?_eq_some_iff.mp f.hy).1⟩

theorem kconn_conn {T : Table D} {K : Nat} {st : Bool} (wf : WF T K st) (join : D → D → Bool) (k1 k2 : Seq)
    (h : KConn T st join k1 k2) (x : Nat) (hx : x < T.length) (hk : keyOf T x = k1) :
    ∃ y, y < T.length ∧ keyOf T y = k2 ∧ Conn (linkOf T st join) x y := by
  induction h with
  | refl => exact ⟨x, hx, hk, Conn.refl _⟩
  | step _ r ih =>
    obtain ⟨z, hz, hkz, hc⟩ := ih
    obtain ⟨a, b, hr, ha, hb⟩ := r
    have hab := rel_lt hr
    have : a = z := keyOf_inj wf a z hab.1 hz (by rw [ha, hkz])
    subst this
    exact ⟨b, hab.2, hb, Conn.step hc hr⟩

theorem mem_index {α} (l : List α) (a : α) (h : a ∈ l) : ∃ i : Nat, l[i]? = some a := by
  obtain ⟨i, hi, e⟩ := List.getElem_of_mem h
  exact ⟨i, by rw [List.getElem?_eq_getElem hi, e]⟩

theorem keyOf_of_get {T : Table D} {x : Nat} {e : Entry D} (h : T[x]? = some e) : keyOf T x = e.key := by
  unfold keyOf; rw [h]

/-- **content determines the good links** -/
theorem krel_content {A B : Table D} {K : Nat} {st : Bool} (join : D → D → Bool) (wfB : WF B K st) (hle : ContentLe A B)
    (k1 k2 : Seq) (h : KRel A st join k1 k2) : KRel B st join k1 k2 := by
  obtain ⟨x, y, ⟨d, d', hl⟩, hk1, hk2⟩ := h
  obtain ⟨ex, ey, b, f⟩ := linkOf_inv A st join hl
  obtain ⟨ex', hxm, kx, dx, bx⟩ := hle ex (List.mem_of_getElem? f.hx)
  obtain ⟨ey', hym, ky, dy, by'⟩ := hle ey (List.mem_of_getElem? f.hy)
  obtain ⟨x', hx'⟩ := mem_index B ex' hxm
  obtain ⟨y', hy'⟩ := mem_index B ey' hym
  obtain ⟨ey0, hy0, hkey⟩ := findId_some f.hfind
  rw [f.hy] at hy0; cases hy0
  refine ⟨x', y', ⟨d, d', ?_⟩, by rw [keyOf_of_get hx', ← kx, ← keyOf_of_get f.hx]; exact hk1,
    by rw [keyOf_of_get hy', ← ky, ← keyOf_of_get f.hy]; exact hk2⟩
  apply linkOf_intro B st join (ex := ex') (ey := ey') (b := b)
  refine ⟨hx', by rw [← bx]; exact f.cntx, by rw [← kx]; exact f.palx, by rw [← bx]; exact f.uniq, ?_, hy', ?_, ?_, ?_, ?_⟩
  · rw [← kx, ← hkey, ky]; exact findId_self wfB hy'
  · rw [← kx]; exact f.hd'
  · rw [← kx, ← by']; exact f.cnty
  · rw [← dx, ← dy]; exact f.hjoin
  · rw [← kx]; exact f.paly

theorem kconn_content {A B : Table D} {K : Nat} {st : Bool} (join : D → D → Bool) (wfB : WF B K st) (hle : ContentLe A B)
    (k1 k2 : Seq) (h : KConn A st join k1 k2) : KConn B st join k1 k2 := by
  induction h with
  | refl => exact KConn.refl _
  | step _ r ih => exact KConn.step ih (krel_content join wfB hle _ _ r)

end Compress

namespace Compress
open Walk (Dir Conn Rel)
open Filter (has)
variable {D : Type}

/-- content up to the extension bytes of self-complementary keys (which good links never read) -/
def ContentLeW (st : Bool) (A B : Table D) : Prop :=
  ∀ ea ∈ A, ∃ eb ∈ B, ea.key = eb.key ∧ ea.data = eb.data ∧
    ((!st && isPalindrome ea.key) = false → ∀ d, ea.exts.dirBits d = eb.exts.dirBits d)

theorem krel_contentW {A B : Table D} {K : Nat} {st : Bool} (join : D → D → Bool) (wfB : WF B K st) (hle : ContentLeW st A B)
    (k1 k2 : Seq) (h : KRel A st join k1 k2) : KRel B st join k1 k2 := by
  obtain ⟨x, y, ⟨d, d', hl⟩, hk1, hk2⟩ := h
  obtain ⟨ex, ey, b, f⟩ := linkOf_inv A st join hl
  obtain ⟨ex', hxm, kx, dx, bx⟩ := hle ex (List.mem_of_getElem? f.hx)
  obtain ⟨ey', hym, ky, dy, by'⟩ := hle ey (List.mem_of_getElem? f.hy)
  obtain ⟨x', hx'⟩ := mem_index B ex' hxm
  obtain ⟨y', hy'⟩ := mem_index B ey' hym
  obtain ⟨ey0, hy0, hkey⟩ := findId_some f.hfind
  rw [f.hy] at hy0; cases hy0
  have bx := bx f.palx
  have by' := by' (by rw [hkey]; exact f.paly)
  refine ⟨x', y', ⟨d, d', ?_⟩, by rw [keyOf_of_get hx', ← kx, ← keyOf_of_get f.hx]; exact hk1,
    by rw [keyOf_of_get hy', ← ky, ← keyOf_of_get f.hy]; exact hk2⟩
  apply linkOf_intro B st join (ex := ex') (ey := ey') (b := b)
  refine ⟨hx', by rw [← bx]; exact f.cntx, by rw [← kx]; exact f.palx, by rw [← bx]; exact f.uniq, ?_, hy', ?_, ?_, ?_, ?_⟩
  · rw [← kx, ← hkey, ky]; exact findId_self wfB hy'
  · rw [← kx]; exact f.hd'
  · rw [← kx, ← by']; exact f.cnty
  · rw [← dx, ← dy]; exact f.hjoin
  · rw [← kx]; exact f.paly

theorem kconn_contentW {A B : Table D} {K : Nat} {st : Bool} (join : D → D → Bool) (wfB : WF B K st) (hle : ContentLeW st A B)
    (k1 k2 : Seq) (h : KConn A st join k1 k2) : KConn B st join k1 k2 := by
  induction h with
  | refl => exact KConn.refl _
  | step _ r ih => exact KConn.step ih (krel_contentW join wfB hle _ _ r)

end Compress
