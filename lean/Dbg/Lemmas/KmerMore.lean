import Dbg.Lemmas.KmerOrder
import Dbg.Lemmas.KmerExtend
/-! Remaining constructors / renderers of the packed k-mer model: from_u64, to_string, from_ascii, kmers_from_bytes. -/
namespace Kmer
variable {c : Cfg}

theorem val_digits4 : ∀ (k r : Nat), r < 4 ^ k → Lex.val (KSpec.digits4 k r) = r := by
  intro k
  induction k with
  | zero => intro r h; simp at h; subst h; simp [KSpec.digits4, Lex.val]
  | succ k ih =>
    intro r h
    simp only [KSpec.digits4]
    rw [val_append_single, ih (r / 4) (by rw [Nat.pow_succ] at h; omega)]
    omega

theorem digits4_length : ∀ (k r : Nat), (KSpec.digits4 k r).length = k := by
  intro k; induction k with
  | zero => intro r; rfl
  | succ k ih => intro r; simp [KSpec.digits4, ih]

theorem digits4_lt : ∀ (k r : Nat), ∀ d ∈ KSpec.digits4 k r, d < 4 := by
  intro k; induction k with
  | zero => intro r d hd; simp [KSpec.digits4] at hd
  | succ k ih =>
    intro r d hd
    simp only [KSpec.digits4, List.mem_append, List.mem_singleton] at hd
    rcases hd with hd | rfl
    · exact ih _ d hd
    · omega

/-- equal base-4 value and equal length ⇒ equal digit lists -/
theorem val_inj (l1 l2 : List Nat) (hl : l1.length = l2.length) (h1 : ∀ d ∈ l1, d < 4) (h2 : ∀ d ∈ l2, d < 4)
    (h : Lex.val l1 = Lex.val l2) : l1 = l2 := by
  have n1 : ¬ l1 < l2 := fun hh => by have := (Lex.val_lt_iff_lex _ _ hl h1 h2).mpr hh; omega
  have n2 : ¬ l2 < l1 := fun hh => by have := (Lex.val_lt_iff_lex _ _ hl.symm h2 h1).mpr hh; omega
  rcases Std.lt_trichotomy l1 l2 with h' | h' | h'
  · exact absurd h' n1
  · exact h'
  · exact absurd h' n2

/-- **`from_u64`**: for ranks below 4^K the k-mer spells the K base-4 digits of the rank -/
theorem fromU64_spec (hc : c.WF) (v : Nat) (hv : v < 4 ^ c.K) :
    ∃ s, fromU64 c v = some s ∧ toSeq c s = KSpec.digits4 c.K v ∧ Inv c s := by
  have hw : (4 : Nat) ^ c.K ≤ 2 ^ c.w := by
    rw [show (4 : Nat) = 2 ^ 2 by rfl, ← Nat.pow_mul]; exact Nat.pow_le_pow_right (by decide) hc.hw
  have hlt : v < 2 ^ c.w := by omega
  unfold fromU64
  simp only [hlt, if_true]
  have hinv : Inv c (BitVec.ofNat c.w v) := by
    intro i hi
    rw [BitVec.getLsbD_ofNat]
    have : v.testBit i = false := by
      apply Nat.testBit_lt_two_pow
      have : (4 : Nat) ^ c.K = 2 ^ (2 * c.K) := by rw [show (4 : Nat) = 2 ^ 2 by rfl, ← Nat.pow_mul]
      have : 2 ^ (2 * c.K) ≤ 2 ^ i := Nat.pow_le_pow_right (by decide) hi
      omega
    simp [this]
  refine ⟨_, rfl, ?_, hinv⟩
  apply val_inj _ _ (by simp [toSeq_length, digits4_length]) (toSeq_lt4 hc _) (digits4_lt _ _)
  rw [← toNat_eq_val hc _ hinv, val_digits4 c.K v hv, BitVec.toNat_ofNat, Nat.mod_eq_of_lt hlt]

/-- **`to_string`** renders the bases as letters -/
theorem toStr_spec (hc : c.WF) (s : St c) : toStr c s = KSpec.toText (toSeq c s) := by
  unfold toStr KSpec.toText
  apply List.map_congr_left
  intro b hb
  have := toSeq_lt4 hc s b hb
  have : b = 0 ∨ b = 1 ∨ b = 2 ∨ b = 3 := by omega
  rcases this with rfl | rfl | rfl | rfl <;> rfl

/-- the k-mer built from the first K of `bs` by successive `set_mut` (shared by from_bytes / from_ascii / kmers_from_*) -/
def buildK (c : Cfg) (bs : List Nat) : St c :=
  ((bs.take c.K).zipIdx).foldl (fun s (bi : Nat × Nat) => setMut c s bi.2 bi.1) (empty c)

theorem fromBytes_eq_buildK (bs : List Nat) (h : c.K ≤ bs.length) : fromBytes c bs = some (buildK c bs) := by
  unfold fromBytes buildK; simp [show ¬ bs.length < c.K by omega]

theorem fromAscii_eq (bs : List Nat) : fromAscii c bs = fromBytes c (bs.map baseToBits) := by
  unfold fromAscii fromBytes
  simp only [List.length_map]
  split
  · rfl
  · congr 1
    rw [← List.map_take]
    generalize bs.take c.K = l
    generalize empty c = s0
    -- zipIdx of a mapped list
    have : ∀ (l : List Nat) (n : Nat) (s0 : St c),
        (l.zipIdx n).foldl (fun s (bi : Nat × Nat) => setMut c s bi.2 (baseToBits bi.1)) s0 =
        ((l.map baseToBits).zipIdx n).foldl (fun s (bi : Nat × Nat) => setMut c s bi.2 bi.1) s0 := by
      intro l
      induction l with
      | nil => intro n s0; rfl
      | cons a t ih => intro n s0; simp only [List.zipIdx_cons, List.foldl_cons, List.map_cons]; exact ih _ _
    exact this l 0 s0

/-- the step of the `kmers_from_bytes` loop -/
def kfbStep (c : Cfg) (acc : List (St c) × St c) (v : Nat) : List (St c) × St c :=
  let k' := extendRight c acc.2 v
  (k' :: acc.1, k')

theorem kmersFromBytes_eq (str : List Nat) (h : c.K ≤ str.length) :
    kmersFromBytes c str = ((str.drop c.K).foldl (kfbStep c) ([buildK c str], buildK c str)).1.reverse := by
  unfold kmersFromBytes buildK kfbStep
  simp [show ¬ str.length < c.K by omega]

/-- sliding a window over further bases -/
def slide (w : List Nat) : List Nat → List (List Nat)
  | [] => []
  | v :: t => (w.tail ++ [v]) :: slide (w.tail ++ [v]) t

theorem kfb_fold (hc : c.WF) : ∀ (rest : List Nat) (cur : St c) (acc : List (St c)), (∀ b ∈ rest, b < 4) →
    (((rest.foldl (kfbStep c) (acc, cur)).1.reverse).map (toSeq c)) = (acc.reverse.map (toSeq c)) ++ slide (toSeq c cur) rest := by
  intro rest
  induction rest with
  | nil => intro cur acc _; simp [slide]
  | cons v t ih =>
    intro cur acc hb
    have hv : v < 4 := hb v (by simp)
    rw [List.foldl_cons]
    have := ih (extendRight c cur v) (extendRight c cur v :: acc) (fun b hb' => hb b (by simp [hb']))
    simp only [kfbStep] at this ⊢
    rw [this]
    have e := toSeq_extendRight hc cur v hv
    unfold KSpec.extendRight at e
    simp [slide, e]

/-- pure list fact: sliding from the last K bases of `pre` over `rest` yields the windows of `pre ++ rest` that end inside `rest` -/
theorem slide_windows (K : Nat) (hK : 1 ≤ K) : ∀ (rest pre : List Nat), K ≤ pre.length →
    slide (pre.drop (pre.length - K)) rest =
      (List.range rest.length).map fun i => ((pre ++ rest).drop (pre.length - K + i + 1)).take K := by
  intro rest
  induction rest with
  | nil => intro pre _; simp [slide]
  | cons v t ih =>
    intro pre hl
    have hw : (pre.drop (pre.length - K)).tail ++ [v] = (pre ++ [v]).drop ((pre ++ [v]).length - K) := by
      simp only [List.length_append, List.length_singleton]
      rw [List.drop_append_of_le_length (by omega), List.tail_drop]
      congr 2; omega
    simp only [slide]
    rw [hw, ih (pre ++ [v]) (by simp; omega), List.length_cons, List.range_succ_eq_map, List.map_cons, List.map_map]
    have happ : pre ++ v :: t = (pre ++ [v]) ++ t := by simp
    rw [happ]
    have hp2 : (pre ++ [v]).length = pre.length + 1 := by simp
    generalize pre ++ [v] = p2 at hp2 ⊢
    congr 1
    · -- the first new window
      have hlen : (p2.drop (p2.length - K)).length = K := by simp; omega
      have e : pre.length - K + 0 + 1 = p2.length - K := by omega
      rw [e, List.drop_append_of_le_length (by omega), List.take_append_of_le_length (by rw [hlen]; exact Nat.le_refl _),
        List.take_of_length_le (by rw [hlen]; exact Nat.le_refl _)]
    · apply List.map_congr_left
      intro i _
      simp only [Function.comp]
      congr 2
      omega

theorem buildK_spec (hc : c.WF) (bs : List Nat) (hl : c.K ≤ bs.length) (hb : ∀ b ∈ bs, b < 4) :
    toSeq c (buildK c bs) = bs.take c.K ∧ Inv c (buildK c bs) := by
  -- `from_bytes` is `buildK`; its specification is proved in Props/C10 by the same induction, re-done here
  have key : ∀ (n : Nat), n ≤ c.K → n ≤ bs.length → ∀ (s0 : St c), Inv c s0 →
      let r := ((bs.take n).zipIdx).foldl (fun s (bi : Nat × Nat) => setMut c s bi.2 bi.1) s0
      Inv c r ∧ ∀ q, q < c.K → get c r q = if q < n then bs.getD q 0 else get c s0 q := by
    intro n
    induction n with
    | zero => intro _ _ s0 h0; simp [h0]
    | succ n ih =>
      intro hn hl' s0 h0
      have hlt : n < bs.length := by omega
      have e : (bs.take (n + 1)).zipIdx = (bs.take n).zipIdx ++ [(bs[n], n)] := by
        rw [List.take_succ_eq_append_getElem hlt, List.zipIdx_append]; simp; omega
      simp only [e, List.foldl_append, List.foldl_cons, List.foldl_nil]
      obtain ⟨i1, i2⟩ := ih (by omega) (by omega) s0 h0
      have hbn : bs[n] < 4 := hb _ (List.getElem_mem hlt)
      refine ⟨inv_setMut hc _ n _ (by omega) hbn i1, ?_⟩
      intro q hq
      rw [get_setMut hc _ n _ q (by omega) hq hbn, i2 q hq]
      by_cases h1 : q = n
      · subst h1; simp [hlt]
      · by_cases h2 : q < n
        · have : q < n + 1 := by omega
          simp [h1, h2, this]
        · have : ¬ q < n + 1 := by omega
          simp [h1, h2, this]
  have inv0 : Inv c (empty c) := by intro i _; simp [empty]
  obtain ⟨k1, k2⟩ := key c.K (Nat.le_refl _) hl (empty c) inv0
  refine ⟨?_, k1⟩
  apply List.ext_getElem
  · simp [toSeq]; omega
  · intro q h1 h2
    simp only [toSeq, List.length_map, List.length_range] at h1
    simp only [toSeq, List.getElem_map, List.getElem_range, List.getElem_take]
    have := k2 q h1
    unfold buildK
    rw [this]
    have : q < bs.length := by omega
    simp [h1, this]

/-- **`kmers_from_bytes`** yields exactly the `n-K+1` windows in order -/
theorem kmersFromBytes_spec (hc : c.WF) (str : List Nat) (hb : ∀ b ∈ str, b < 4) :
    (kmersFromBytes c str).map (toSeq c) = KSpec.windows c.K str := by
  by_cases hs : str.length < c.K
  · simp [kmersFromBytes, KSpec.windows, hs]
  · have hl : c.K ≤ str.length := by omega
    have hK := hc.hK
    rw [kmersFromBytes_eq str hl, kfb_fold hc (str.drop c.K) (buildK c str) [buildK c str] (fun b hb' => hb b (List.mem_of_mem_drop hb'))]
    have h0 := (buildK_spec hc str hl hb).1
    have hpre : toSeq c (buildK c str) = (str.take c.K).drop ((str.take c.K).length - c.K) := by
      rw [h0]; simp [Nat.min_eq_left hl]
    rw [hpre, slide_windows c.K hK (str.drop c.K) (str.take c.K) (by simp; omega)]
    simp only [List.reverse_cons, List.reverse_nil, List.nil_append, List.map_cons, List.map_nil, List.take_append_drop,
      List.length_take, List.length_drop, Nat.min_eq_left hl, h0, Nat.sub_self, Nat.zero_add]
    unfold KSpec.windows
    simp only [hs, if_false]
    rw [show str.length - c.K + 1 = (str.length - c.K) + 1 by omega, List.range_succ_eq_map, List.map_cons, List.map_map]
    simp [Function.comp_def]

end Kmer
