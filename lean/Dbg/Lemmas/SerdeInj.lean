import Dbg.Model.Serde
/-! Unique readability of the serialised texts: every encoder is *prefix-decodable* - if two encodings, each followed by
    text that does not start with a digit, are equal, then the values and the following texts are equal. -/
namespace Serde

/-- the text does not start with a digit (all separators and closers qualify) -/
def NDS (r : List Char) : Prop := ∀ c, r.head? = some c → c.isDigit = false

theorem nds_nil : NDS [] := by intro c h; simp at h
theorem nds_cons {c : Char} {r : List Char} (h : c.isDigit = false) : NDS (c :: r) := by
  intro c' h'; simp at h'; subst h'; exact h

/-- prefix-decodable encoder whose texts do not start with `]` or `,` -/
structure PF {α : Type} (e : α → List Char) : Prop where
  inj : ∀ a b r1 r2, NDS r1 → NDS r2 → e a ++ r1 = e b ++ r2 → a = b ∧ r1 = r2
  head : ∀ a, ∃ c t, e a = c :: t ∧ c ≠ ']'

theorem digits_split : ∀ (l1 l2 r1 r2 : List Char), (∀ c ∈ l1, c.isDigit = true) → (∀ c ∈ l2, c.isDigit = true) →
    NDS r1 → NDS r2 → l1 ++ r1 = l2 ++ r2 → l1 = l2 ∧ r1 = r2 := by
  intro l1
  induction l1 with
  | nil =>
    intro l2 r1 r2 _ h2 n1 _ h
    cases l2 with
    | nil => exact ⟨rfl, by simpa using h⟩
    | cons c t =>
      simp only [List.nil_append, List.cons_append] at h
      have := n1 c (by rw [h]; rfl)
      rw [h2 c (by simp)] at this
      cases this
  | cons a t ih =>
    intro l2 r1 r2 h1 h2 n1 n2 h
    cases l2 with
    | nil =>
      simp only [List.nil_append, List.cons_append] at h
      have := n2 a (by rw [← h]; rfl)
      rw [h1 a (by simp)] at this
      cases this
    | cons b u =>
      simp only [List.cons_append, List.cons.injEq] at h
      obtain ⟨e1, e2⟩ := ih u r1 r2 (fun c hc => h1 c (by simp [hc])) (fun c hc => h2 c (by simp [hc])) n1 n2 h.2
      exact ⟨by rw [h.1, e1], e2⟩

theorem num_digits (n : Nat) : ∀ c ∈ num n, c.isDigit = true := fun _ hc => Nat.isDigit_of_mem_toDigits (by decide) (by decide) hc

theorem num_inj {m n : Nat} (h : num m = num n) : m = n := by
  have := congrArg (fun l => Nat.ofDigitChars 10 l 0) h
  simpa [num, Nat.ofDigitChars_ten_toDigits] using this

theorem pf_num : PF num where
  inj := by
    intro a b r1 r2 n1 n2 h
    obtain ⟨e1, e2⟩ := digits_split _ _ _ _ (num_digits a) (num_digits b) n1 n2 h
    exact ⟨num_inj e1, e2⟩
  head := by
    intro a
    cases hn : num a with
    | nil => exact absurd hn (by unfold num; exact Nat.toDigits_ne_nil)
    | cons c t =>
      refine ⟨c, t, rfl, ?_⟩
      intro hc
      have := num_digits a c (by rw [hn]; simp)
      rw [hc] at this
      exact absurd this (by decide)

theorem pf_comp {α β : Type} {e : β → List Char} (h : PF e) (f : α → β) (hf : ∀ a b, f a = f b → a = b) : PF (fun a => e (f a)) where
  inj := by
    intro a b r1 r2 n1 n2 hh
    obtain ⟨e1, e2⟩ := h.inj _ _ _ _ n1 n2 hh
    exact ⟨hf _ _ e1, e2⟩
  head := fun a => h.head (f a)

theorem arrTail_inj {α : Type} {e : α → List Char} (h : PF e) : ∀ (l1 l2 : List α) (r1 r2 : List Char),
    arrTail e l1 ++ ']' :: r1 = arrTail e l2 ++ ']' :: r2 → l1 = l2 ∧ r1 = r2 := by
  intro l1
  induction l1 with
  | nil =>
    intro l2 r1 r2 hh
    cases l2 with
    | nil => simpa [arrTail] using hh
    | cons b u => simp [arrTail] at hh
  | cons a t ih =>
    intro l2 r1 r2 hh
    cases l2 with
    | nil => simp [arrTail] at hh
    | cons b u =>
      simp only [arrTail, List.cons_append, List.append_assoc, List.cons.injEq, true_and] at hh
      have nds : ∀ (l : List α) (r : List Char), NDS (arrTail e l ++ ']' :: r) := by
        intro l r
        cases l with
        | nil => exact nds_cons (by decide)
        | cons x y => exact nds_cons (by decide)
      obtain ⟨e1, e2⟩ := h.inj a b _ _ (nds t r1) (nds u r2) hh
      obtain ⟨e3, e4⟩ := ih u r1 r2 e2
      exact ⟨by rw [e1, e3], e4⟩

theorem pf_arr {α : Type} {e : α → List Char} (h : PF e) : PF (arr e) where
  inj := by
    intro l1 l2 r1 r2 _ _ hh
    cases l1 with
    | nil =>
      cases l2 with
      | nil => simpa [arr] using hh
      | cons b u =>
        exfalso
        obtain ⟨c, t, hc, hne⟩ := h.head b
        simp [arr, hc] at hh
        exact hne hh.1.symm
    | cons a t =>
      cases l2 with
      | nil =>
        exfalso
        obtain ⟨c, t', hc, hne⟩ := h.head a
        simp [arr, hc] at hh
        exact hne hh.1
      | cons b u =>
        simp only [arr, List.cons_append, List.append_assoc, List.cons.injEq, true_and, List.nil_append] at hh
        have nds : ∀ (l : List α) (r : List Char), NDS (arrTail e l ++ ']' :: r) := by
          intro l r
          cases l with
          | nil => exact nds_cons (by decide)
          | cons x y => exact nds_cons (by decide)
        obtain ⟨e1, e2⟩ := h.inj a b _ _ (nds t r1) (nds u r2) hh
        obtain ⟨e3, e4⟩ := arrTail_inj h t u r1 r2 e2
        exact ⟨by rw [e1, e3], e4⟩
  head := by
    intro l
    cases l with
    | nil => exact ⟨'[', [']'], rfl, by decide⟩
    | cons a t => exact ⟨'[', _, rfl, by decide⟩

theorem pf_bool : PF bool where
  inj := by
    intro a b r1 r2 _ _ hh
    cases a <;> cases b <;> simp [bool, lit] at hh ⊢ <;> first | exact hh | skip
  head := by
    intro a
    cases a
    · exact ⟨'f', ['a', 'l', 's', 'e'], by simp [bool, lit], by decide⟩
    · exact ⟨'t', ['r', 'u', 'e'], by simp [bool, lit], by decide⟩

end Serde
