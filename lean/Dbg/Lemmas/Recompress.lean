import Dbg.Lemmas.PGraphEdges
import Dbg.Props.C09
/-! Re-compression of a ported graph: after `fix_exts` the graph is ported into the pruned table; the node-level good
    links are the k-mer-level good links of the pruned table between end ports. -/
namespace Compress
open Walk (Dir rm)
open Filter (has hasExt_iff ExtSym2 removeCensoredExts)
open Graph (termKmer findLink searchKmer fixExts)
open CompressGraph (sameShape fixExts_shape fixExts_exact shape_get)
variable {D : Type}

theorem shape_length (g g' : Graph.G D) (h : sameShape g g') : g'.nodes.length = g.nodes.length := by
  have := congrArg List.length h.2.2.1
  simpa using this

theorem shape_get' (g g' : Graph.G D) (h : sameShape g g') (i : Nat) (n : Node D) (hn : g.nodes[i]? = some n) :
    ∃ n', g'.nodes[i]? = some n' := by
  have hi : i < g.nodes.length := (List.getElem?_eq_some_iff.mp hn).1
  exact ⟨_, List.getElem?_eq_getElem (by rw [shape_length g g' h]; exact hi)⟩

theorem keyOf_pruned (st : Bool) (U : Table D) (x : Nat) : keyOf (removeCensoredExts st U) x = keyOf U x := by
  unfold keyOf removeCensoredExts
  rw [List.getElem?_map]
  cases U[x]? <;> rfl

/-- **`fix_exts` of a ported graph is ported into the pruned table**, with the same ports, members and internal links -/
theorem pgraph_fix {U : Table D} {K : Nat} {st : Bool} {join0 : D → D → Bool} {nodes : List (Node D)}
    {port : Nat → Dir → Nat × Dir} {members : Nat → List Nat} {lk : Walk.Link}
    (pg : PGraph U K st join0 nodes port members lk) (wf : WF U K st) (hes2 : ExtSym2 U st)
    (valid : Option (List Nat))
    (hvalid : ∀ t, t < nodes.length → (match valid with | some vs => vs.contains t | none => true) = true) :
    PGraph (removeCensoredExts st U) K st join0
      (fixExts (⟨K, nodes, st⟩ : Graph.G D) valid).nodes port members lk := by
  generalize hg0 : (⟨K, nodes, st⟩ : Graph.G D) = g0
  have hn0 : g0.nodes = nodes := by rw [← hg0]
  have hK0 : g0.K = K := by rw [← hg0]
  have hst0 : g0.stranded = st := by rw [← hg0]
  have sh := fixExts_shape g0 valid
  generalize hg1 : fixExts g0 valid = g1 at sh
  have hlen1 : g1.nodes.length = nodes.length := by rw [shape_length g0 g1 sh, hn0]
  have hUlen : (removeCensoredExts st U).length = U.length := (Filter.removeCensored_exact st U).1
  -- every node of g1 is a node of g0 with the same sequence and the exactly pruned byte
  have hnode : ∀ (i : Nat) (n1 : Node D), g1.nodes[i]? = some n1 → ∃ n0, nodes[i]? = some n0 ∧ n1.seq = n0.seq ∧
      ∀ d b, has n1.exts d b ↔ has n0.exts d b ∧ (canonSt st (extend (termKmer K n0.seq d) b d)).1 ∈ U.map (·.key) := by
    intro i n1 h1
    obtain ⟨n0, h0, _⟩ := shape_get g0 g1 sh i n1 h1
    rw [← hg1] at h1
    obtain ⟨a, _, _, e⟩ := fixExts_exact g0 valid i n0 n1 h0 h1
    rw [hn0] at h0
    refine ⟨n0, h0, a, fun d b => ?_⟩
    rw [e d b]
    constructor
    · rintro ⟨hb, t, s', f, hl, _⟩
      refine ⟨hb, ?_⟩
      rw [← pg.edge_iff wf hes2 i n0 h0 d b hb]
      rw [← hg0] at hl
      exact Option.isSome_iff_exists.mpr ⟨_, hl⟩
    · rintro ⟨hb, hm⟩
      refine ⟨hb, ?_⟩
      have := (pg.edge_iff wf hes2 i n0 h0 d b hb).mpr hm
      obtain ⟨⟨t, s', f⟩, hl⟩ := Option.isSome_iff_exists.mp this
      obtain ⟨nd, hv, _⟩ := Graph.findLink_sound _ _ _ _ _ _ hl
      have hv' : nodes[t]? = some nd := hv
      exact ⟨t, s', f, by rw [← hg0]; exact hl, hvalid t (List.getElem?_eq_some_iff.mp hv').1⟩
  -- the pruned entry at a port
  have hent : ∀ (x : Nat) (e0 : Entry D), U[x]? = some e0 → ∃ e1, (removeCensoredExts st U)[x]? = some e1 ∧ e1.key = e0.key ∧
      e1.data = e0.data ∧ ∀ d b, has e1.exts d b ↔ has e0.exts d b ∧ Filter.extTarget st e0.key b d ∈ U.map (·.key) := by
    intro x e0 h0
    have hx : x < (removeCensoredExts st U).length := by rw [hUlen]; exact (List.getElem?_eq_some_iff.mp h0).1
    obtain ⟨e0', h0', hk, hd, _, hx'⟩ := (Filter.removeCensored_exact st U).2 x _ (List.getElem?_eq_getElem hx)
    rw [h0] at h0'; cases h0'
    exact ⟨_, List.getElem?_eq_getElem hx, hk, hd, hx'⟩
  have hnp : ∀ (i : Nat) (n1 n0 : Node D) (s : Dir) (e0 : Entry D), g1.nodes[i]? = some n1 → nodes[i]? = some n0 → n1.seq = n0.seq →
      (∀ d b, has n1.exts d b ↔ has n0.exts d b ∧ (canonSt st (extend (termKmer K n0.seq d) b d)).1 ∈ U.map (·.key)) →
      NodePort U K st n0 s (port i s) e0 → ∃ e1, NodePort (removeCensoredExts st U) K st n1 s (port i s) e1 ∧ e1.key = e0.key := by
    intro i n1 n0 s e0 h1 h0 hseq hex np0
    obtain ⟨e1, he1, hk, _, hx1⟩ := hent _ e0 np0.ent
    refine ⟨e1, ⟨he1, by rw [hseq, hk]; exact np0.term, fun b => ?_, np0.strand⟩, hk⟩
    rw [hex s b, hx1, np0.exts b, Filter.extTarget_eq, (node_target n0 s (port i s) e0 np0 b).2]
  refine ⟨?_, ?_, ?_, ?_, ?_, ?_, ?_, ?_, ?_, ?_, ?_, ?_, ?_, ?_⟩
  · intro i n1 h1
    obtain ⟨n0, h0, hs, _⟩ := hnode i n1 h1
    rw [hs]; exact pg.len i n0 h0
  · intro i n1 s h1
    obtain ⟨n0, h0, hs, hex⟩ := hnode i n1 h1
    obtain ⟨e0, np0⟩ := pg.np i n0 s h0
    obtain ⟨e1, np1, _⟩ := hnp i n1 n0 s e0 h1 h0 hs hex np0
    exact ⟨e1, np1⟩
  · intro i n1 s e1 h1 np1 hstf hrc
    obtain ⟨n0, h0, hs, hex⟩ := hnode i n1 h1
    obtain ⟨e0, np0⟩ := pg.np i n0 s h0
    obtain ⟨e1', np1', hk⟩ := hnp i n1 n0 s e0 h1 h0 hs hex np0
    have : e1' = e1 := by
      have a := np1'.ent; have b := np1.ent
      rw [a] at b; exact Option.some.inj b
    subst this
    obtain ⟨a, b, c⟩ := pg.pal i n0 s e0 h0 np0 hstf (by rw [← hk]; exact hrc)
    exact ⟨by rw [hs]; exact a, by rw [hs]; exact b, c⟩
  · intro i n1 h1
    obtain ⟨n0, h0, hs, _⟩ := hnode i n1 h1
    rw [hs, pg.keys i n0 h0]
    apply List.map_congr_left
    intro z _
    exact (keyOf_pruned st U z).symm
  · intro i hi; rw [hlen1] at hi; exact pg.nodupM i hi
  · intro i j hi hj; rw [hlen1] at hi hj; exact pg.disjoint i j hi hj
  · intro i hi z hz; rw [hlen1] at hi; rw [hUlen]; exact pg.inRange i hi z hz
  · intro z hz
    rw [hUlen] at hz
    obtain ⟨i, hi, hzi⟩ := pg.cover z hz
    exact ⟨i, by rw [hlen1]; exact hi, hzi⟩
  · intro i s hi; rw [hlen1] at hi; exact pg.portMem i s hi
  · intro i hi; rw [hlen1] at hi; exact pg.portNe i hi
  · intro x d y d' h
    exact linkOf_prune join0 wf hes2 x d y d' (pg.lkSub x d y d' h)
  · intro i hi; rw [hlen1] at hi; exact pg.inner i hi
  · intro i hi; rw [hlen1] at hi; exact pg.connM i hi
  · intro i hi; rw [hlen1] at hi; exact pg.chain i hi

/-! ### node sides and port entries have the same number of extensions -/

theorem port_count {T : Table D} {K : Nat} {st : Bool} {n : Node D} {s : Dir} {p : Nat × Dir} {e : Entry D}
    (np : NodePort T K st n s p e) (hn8 : n.exts.val < 256) (he8 : e.exts.val < 256) :
    nibCnt (n.exts.dirBits s) = nibCnt (e.exts.dirBits p.2) := by
  by_cases h : p.2 = s
  · have : n.exts.dirBits s = e.exts.dirBits s := dirBits_ext n.exts e.exts hn8 he8 s (fun b => by
      have := np.exts b
      rw [if_pos h, h] at this
      exact this)
    rw [this, h]
  · have := (nibble_comp ⟨n.exts.dirBits s, dirBits_lt _ hn8 s⟩ ⟨e.exts.dirBits p.2, dirBits_lt _ he8 p.2⟩ (fun b => by
      have := np.exts b
      rw [if_neg h] at this
      unfold has at this
      cases h3 : nibHas (n.exts.dirBits s) b <;> cases h4 : nibHas (e.exts.dirBits p.2) (comp b) <;> simp_all)).1
    exact this

theorem termKmer_single (K : Nat) (s : Seq) (h : s.length = K) (d : Dir) : termKmer K s d = s := by
  cases d with
  | L => show s.take K = s; rw [← h, List.take_length]
  | R => show s.drop (s.length - K) = s; rw [h]; simp

/-- **where `find_link` arrives**: the node and side it reports are the node and side whose port is the target k-mer
    (unless the extended k-mer is its own reverse complement) -/
theorem PGraph.findLink_port {U : Table D} {K : Nat} {st : Bool} {join0 : D → D → Bool} {nodes : List (Node D)}
    {port : Nat → Dir → Nat × Dir} {members : Nat → List Nat} {lk : Walk.Link}
    (pg : PGraph U K st join0 nodes port members lk) (wf : WF U K st) (hes2 : ExtSym2 U st)
    (i : Nat) (n : Node D) (hi : nodes[i]? = some n) (s : Dir) (ex : Entry D) (np : NodePort U K st n s (port i s) ex)
    (β : Base) (hβ : has n.exts s β)
    (y : Nat) (hy : findId U (canonSt st (extend (termKmer K n.seq s) β s)).1 = some y)
    (Y : Nat) (inc : Dir) (fl : Bool)
    (hl : findLink (⟨K, nodes, st⟩ : Graph.G D) (extend (termKmer K n.seq s) β s) s = some (Y, inc, fl))
    (hnp : (!st && isPalindrome (extend (termKmer K n.seq s) β s)) = false) :
    port Y inc = (y, condFlip (port i s).2.flip
      (canonSt st (extend ex.key (if (port i s).2 = s then β else comp β) (port i s).2)).2) := by
  have hg := pg.ginv wf hes2
  obtain ⟨j, nj, s', c, hnj, hport, hside, hterm, hc⟩ := pg.resolve wf hes2 i n hi s ex np β hβ y hy
  obtain ⟨nn, hY, htermY, hf0, hf1⟩ := Graph.findLink_sound _ _ _ _ _ _ hl
  have hY' : nodes[Y]? = some nn := hY
  have hinc : inc = condFlip s.flip fl := by
    cases fl with
    | false => rw [hf0 rfl]; rfl
    | true => rw [(hf1 rfl).1]; simp [condFlip]
  have htY : termKmer K nn.seq inc = rcIf fl (extend (termKmer K n.seq s) β s) := by
    have : termKmer K nn.seq inc = if fl then rc (extend (termKmer K n.seq s) β s) else extend (termKmer K n.seq s) β s := htermY
    rw [this]; cases fl <;> rfl
  by_cases hcf : c = fl
  · subst hcf
    have hs' : s' = inc := by rw [hside, hinc]
    subst hs'
    have := hg.sameSide j Y nj nn s' hnj hY' (by show termKmer K nj.seq s' = termKmer K nn.seq s'; rw [hterm, htY])
    subst this
    exact hport
  · exfalso
    have hcf' : c = !fl := by
      cases hc1 : c <;> cases hf1' : fl
      · exact absurd (by rw [hc1, hf1']) hcf
      · rfl
      · rfl
      · exact absurd (by rw [hc1, hf1']) hcf
    have hst : st = false := by
      cases hf1' : fl with
      | true => exact (hf1 hf1').2
      | false => rw [hf1'] at hcf'; exact hc hcf'
    subst hst
    have hs' : s' = inc.flip := by
      rw [hside, hinc, hcf']
      cases fl <;> cases s <;> rfl
    have hrc : termKmer K nj.seq inc.flip = rc (termKmer K nn.seq inc) := by
      rw [← hs', hterm, htY, hcf']
      cases fl
      · rfl
      · show extend (termKmer K n.seq s) β s = rc (rc (extend (termKmer K n.seq s) β s))
        rw [rc_rc]
    obtain ⟨hjY, hlen⟩ := hg.rcSide j Y nj nn inc rfl hnj hY' hrc
    subst hjY
    rw [hnj] at hY'; cases hY'
    have hlen' : nj.seq.length = K := hlen
    rw [termKmer_single K nj.seq hlen', termKmer_single K nj.seq hlen'] at hrc
    have : rc (extend (termKmer K n.seq s) β s) = extend (termKmer K n.seq s) β s := by
      rw [termKmer_single K nj.seq hlen'] at htY
      rw [htY] at hrc
      cases fl
      · exact hrc.symm
      · have h2 : rc (extend (termKmer K n.seq s) β s) = rc (rc (extend (termKmer K n.seq s) β s)) := hrc
        rw [rc_rc] at h2
        exact h2
    rw [isPal_of_rc _ this] at hnp
    simp at hnp

/-! ### node-level good links are k-mer-level good links between end ports -/

/-- a closed table: every recorded extension leads to a present k-mer -/
def Closed (T : Table D) (st : Bool) : Prop :=
  ∀ (x : Nat) (e : Entry D) (d : Dir) (b : Base), T[x]? = some e → has e.exts d b →
    ∃ y, findId T (canonSt st (extend e.key b d)).1 = some y

theorem closed_pruned (st : Bool) (U : Table D) : Closed (removeCensoredExts st U) st :=
  fun x e d b hx hb => pruned_closed st U x e hx d b hb

theorem isPal_canon (st : Bool) (x : Seq) : (!st && isPalindrome (canonSt st x).1) = (!st && isPalindrome x) := by
  cases st with
  | true => rfl
  | false =>
    simp only [Bool.not_false, Bool.true_and, canonSt, Bool.false_eq_true, if_false]
    unfold minRcFlip
    split
    · rfl
    · simp only
      unfold isPalindrome
      rw [rc_length, rc_rc]
      cases h : (x == rc x)
      · have : (rc x == x) = false := by
          cases h2 : (rc x == x)
          · rfl
          · have e : rc x = x := by simpa using h2
            rw [e] at h; simp at h
        rw [this]
      · have e : x = rc x := by simpa using h
        rw [← e]; simp

/-- the data the recompression theorem needs about the two join predicates: node-level `join` agrees with k-mer-level
    `joinK` on the entries at the ports (both are constantly true in the crate's pipelines) -/
def JoinCompat {U : Table D} {K : Nat} {st : Bool} (nodes : List (Node D)) (port : Nat → Dir → Nat × Dir)
    (join joinK : D → D → Bool) : Prop :=
  ∀ (i j : Nat) (ni nj : Node D) (s s' : Dir) (ei ej : Entry D), nodes[i]? = some ni → nodes[j]? = some nj →
    NodePort U K st ni s (port i s) ei → NodePort U K st nj s' (port j s') ej → join ni.data nj.data = joinK ei.data ej.data

/-- **a node-level good link is a k-mer-level good link** between the end port it leaves and the end port it enters -/
theorem PGraph.glink_to_link {T : Table D} {K : Nat} {st : Bool} {join0 : D → D → Bool} {nodes : List (Node D)}
    {port : Nat → Dir → Nat × Dir} {members : Nat → List Nat} {lk : Walk.Link}
    (pg : PGraph T K st join0 nodes port members lk) (wf : WF T K st) (hes2 : ExtSym2 T st) (hcl : Closed T st)
    (hx8 : ∀ (i : Nat) (n : Node D), nodes[i]? = some n → n.exts.val < 256)
    (join joinK : D → D → Bool) (hjc : JoinCompat (U := T) (K := K) (st := st) nodes port join joinK)
    (valid : List Nat) (X : Nat) (d : Dir) (Y : Nat) (o : Dir)
    (h : CompressGraph.glinkV (⟨K, nodes, st⟩ : Graph.G D) st join valid X d = some (Y, o)) :
    linkOf T st joinK (port X d).1 (port X d).2 = some ((port Y o.flip).1, (port Y o.flip).2.flip) := by
  obtain ⟨_, _, e, hs⟩ := CompressGraph.glinkV_some _ st join valid X d Y o h
  obtain ⟨nd, nn, b, fl, hX, hY, hc, hsp, hu, hl, hbad, hcnt, _⟩ := CompressGraph.staticNode_cand _ st join X d Y o.flip false 1 e hs
  have hX' : nodes[X]? = some nd := hX
  have hY' : nodes[Y]? = some nn := hY
  have hK : (⟨K, nodes, st⟩ : Graph.G D).K = K := rfl
  rw [hK] at hsp hl hbad
  have hb := CompressGraph.has_of_unique _ _ _ hu
  have hbad' : (!st && isPalindrome (extend (termKmer K nd.seq d) b d)) = false ∧ join nd.data nn.data = true := by
    have := hbad.symm
    simp only [Bool.or_eq_false_iff, Bool.not_eq_false'] at this
    exact this
  obtain ⟨ex, npX⟩ := pg.np X nd d hX'
  generalize hp : port X d = p at *
  have hbx := (npX.exts b).mp hb
  obtain ⟨y, hy⟩ := hcl p.1 ex p.2 _ npX.ent hbx
  obtain ⟨_, hcan⟩ := node_target nd d p ex npX b
  have hy' : findId T (canonSt st (extend (termKmer K nd.seq d) b d)).1 = some y := by rw [hcan]; exact hy
  have hportY := pg.findLink_port wf hes2 X nd hX' d ex (by rw [hp]; exact npX) b hb y hy' Y o.flip fl hl hbad'.1
  rw [hp] at hportY
  obtain ⟨ey, npY⟩ := pg.np Y nn o.flip hY'
  rw [hportY] at npY ⊢
  generalize hb0 : (if p.2 = d then b else comp b) = b' at *
  generalize hf : (canonSt st (extend ex.key b' p.2)).2 = f at *
  -- counts
  have hcx : nibCnt (ex.exts.dirBits p.2) = 1 := by
    rw [← port_count npX (hx8 X nd hX') (wf.ext8 _ ex npX.ent), ← numExtDir_eq]; exact hc
  have hcy : nibCnt (ey.exts.dirBits (condFlip p.2.flip f)) = 1 := by
    have := port_count npY (hx8 Y nn hY') (wf.ext8 _ ey npY.ent)
    simp only at this
    rw [← this, ← numExtDir_eq]; exact hcnt.symm
  have tx := nib_table ⟨ex.exts.dirBits p.2, dirBits_lt _ (wf.ext8 _ ex npX.ent) p.2⟩ b'
  -- `x` is not a palindrome: otherwise its node is a palindromic single-k-mer node
  have hpalx : (!st && isPalindrome ex.key) = false := by
    cases hst : st with
    | true => rfl
    | false =>
      cases hpk : isPalindrome ex.key with
      | false => rfl
      | true =>
        exfalso
        subst hst
        have hrc : rc ex.key = ex.key := by
          unfold isPalindrome at hpk
          simp only [Bool.and_eq_true, beq_iff_eq] at hpk
          exact hpk.2.symm
        obtain ⟨h1, h2, _⟩ := pg.pal X nd d ex hX' (by rw [hp]; exact npX) rfl hrc
        have : (nd.seq.take K) = nd.seq := by rw [← h1, List.take_length]
        rw [this, isPal_of_rc _ h2] at hsp
        simp [h1] at hsp
  apply linkOf_intro T st joinK (ex := ex) (ey := ey) (b := b')
  refine ⟨npX.ent, hcx, hpalx, tx.1 hcx hbx, hy, npY.ent, ?_, ?_, ?_, ?_⟩
  · show (condFlip p.2.flip f).flip = condFlip p.2 (canonSt st (extend ex.key b' p.2)).2
    rw [hf, condFlip_flip, Dir.flip_flip]
  · rw [hf]; exact hcy
  · rw [← hjc X Y nd nn d o.flip ex ey hX' hY' (by rw [hp]; exact npX) (by rw [hportY]; exact npY)]
    exact hbad'.2
  · have h1 := hbad'.1
    rw [← isPal_canon st (extend (termKmer K nd.seq d) b d), hcan] at h1
    exact h1

/-- **a k-mer-level good link leaving an end port is a node-level good link**, entering the node whose end port it reaches -/
theorem PGraph.link_to_glink {T : Table D} {K : Nat} {st : Bool} {join0 : D → D → Bool} {nodes : List (Node D)}
    {port : Nat → Dir → Nat × Dir} {members : Nat → List Nat} {lk : Walk.Link}
    (pg : PGraph T K st join0 nodes port members lk) (wf : WF T K st) (hes2 : ExtSym2 T st)
    (hx8 : ∀ (i : Nat) (n : Node D), nodes[i]? = some n → n.exts.val < 256)
    (join joinK : D → D → Bool) (hjc : JoinCompat (U := T) (K := K) (st := st) nodes port join joinK)
    (X : Nat) (hXlt : X < nodes.length) (d : Dir) (y : Nat) (δy : Dir)
    (h : linkOf T st joinK (port X d).1 (port X d).2 = some (y, δy)) :
    ∃ Y o, CompressGraph.glinkV (⟨K, nodes, st⟩ : Graph.G D) st join (List.range nodes.length) X d = some (Y, o) ∧
      port Y o.flip = (y, δy.flip) := by
  obtain ⟨ex, ey, b', F⟩ := linkOf_inv T st joinK h
  obtain ⟨nd, hX⟩ : ∃ nd, nodes[X]? = some nd := ⟨_, List.getElem?_eq_getElem hXlt⟩
  obtain ⟨ex', npX⟩ := pg.np X nd d hX
  have : ex' = ex := by have := npX.ent; rw [F.hx] at this; exact (Option.some.inj this).symm
  subst this
  generalize hp : port X d = p at *
  -- the node-level base
  let β : Base := if p.2 = d then b' else comp b'
  have hβb : (if p.2 = d then β else comp β) = b' := by
    by_cases hh : p.2 = d <;> simp [β, hh]
  have tx := nib_table ⟨ex'.exts.dirBits p.2, dirBits_lt _ (wf.ext8 _ ex' F.hx) p.2⟩ b'
  have hbx : has ex'.exts p.2 b' := tx.2.1 F.cntx F.uniq
  have hβ : has nd.exts d β := by rw [npX.exts β, hβb]; exact hbx
  have hn8 := hx8 X nd hX
  have hc : nd.exts.numExtDir d = 1 := by
    rw [numExtDir_eq, port_count npX hn8 (wf.ext8 _ ex' F.hx)]; exact F.cntx
  have hu : nd.exts.uniqueExt d = some β := by
    rw [uniqueExt_eq, ← numExtDir_eq, hc]
    simp only [bne_self_eq_false, Bool.false_eq_true, if_false]
    exact (nib_table ⟨nd.exts.dirBits d, dirBits_lt _ hn8 d⟩ β).1 (by rw [← numExtDir_eq]; exact hc) hβ
  obtain ⟨_, hcan⟩ := node_target nd d p ex' npX β
  rw [hβb] at hcan
  -- the node is not a palindromic single-k-mer node
  have hsp : (!st && nd.seq.length == K && isPalindrome (nd.seq.take K)) = false := by
    cases hst : st with
    | true => rfl
    | false =>
      subst hst
      cases hl : (nd.seq.length == K) with
      | false => rfl
      | true =>
        cases hpl : isPalindrome (nd.seq.take K) with
        | false => rfl
        | true =>
          exfalso
          have hlen : nd.seq.length = K := by simpa using hl
          have hseq : nd.seq.take K = nd.seq := by rw [← hlen, List.take_length]
          rw [hseq] at hpl
          have hrc : rc nd.seq = nd.seq := by
            unfold isPalindrome at hpl
            simp only [Bool.and_eq_true, beq_iff_eq] at hpl
            exact hpl.2.symm
          have hterm := npX.term
          rw [termKmer_single K nd.seq hlen d] at hterm
          have hk : rc ex'.key = ex'.key := by
            by_cases hh : p.2 = d
            · rw [if_pos hh] at hterm; rw [← hterm]; exact hrc
            · rw [if_neg hh] at hterm
              have h2 := congrArg rc hterm
              rw [hrc, rc_rc] at h2
              rw [← hterm]; exact h2
          have := F.palx
          rw [isPal_of_rc _ hk] at this
          simp at this
  -- the extension resolves
  have hmem : (canonSt st (extend (termKmer K nd.seq d) β d)).1 ∈ T.map (·.key) := by
    rw [hcan]
    obtain ⟨ey0, hy0, hk0⟩ := findId_some F.hfind
    rw [← hk0]; exact List.mem_map_of_mem (List.mem_of_getElem? hy0)
  obtain ⟨⟨Y, inc, fl⟩, hl⟩ := Option.isSome_iff_exists.mp ((pg.edge_iff wf hes2 X nd hX d β hβ).mpr hmem)
  have hnpal : (!st && isPalindrome (extend (termKmer K nd.seq d) β d)) = false := by
    rw [← isPal_canon, hcan]; exact F.paly
  have hy' : findId T (canonSt st (extend (termKmer K nd.seq d) β d)).1 = some y := by rw [hcan]; exact F.hfind
  have hportY := pg.findLink_port wf hes2 X nd hX d ex' (by rw [hp]; exact npX) β hβ y hy' Y inc fl hl hnpal
  rw [hp, hβb] at hportY
  obtain ⟨nn, hY, _, hf0, hf1⟩ := Graph.findLink_sound _ _ _ _ _ _ hl
  have hY' : nodes[Y]? = some nn := hY
  obtain ⟨ey', npY⟩ := pg.np Y nn inc hY'
  rw [hportY] at npY
  have : ey' = ey := by have := npY.ent; simp only at this; rw [F.hy] at this; exact (Option.some.inj this).symm
  subst this
  have hcons : CompressGraph.consistentDir d inc fl = true := by
    cases fl with
    | false => rw [hf0 rfl]; cases d <;> rfl
    | true => rw [(hf1 rfl).1]; cases d <;> rfl
  have hstat := CompressGraph.staticNode_intro (⟨K, nodes, st⟩ : Graph.G D) st join X d nd nn β Y inc fl hX
    hc hsp hu hl hY hcons
  have hbad : ((!st && isPalindrome (extend (termKmer K nd.seq d) β d)) || !(join nd.data nn.data)) = false := by
    rw [hnpal, hjc X Y nd nn d inc ex' ey' hX hY' (by rw [hp]; exact npX) (by rw [hportY]; exact npY), F.hjoin]
    rfl
  have hcnt : nn.exts.numExtDir inc = 1 := by
    rw [numExtDir_eq, port_count npY (hx8 Y nn hY') (wf.ext8 _ ey' F.hy)]
    exact F.cnty
  have hK : (⟨K, nodes, st⟩ : Graph.G D).K = K := rfl
  rw [hK, hbad, hcnt] at hstat
  refine ⟨Y, inc.flip, CompressGraph.glinkV_intro _ st join _ X d Y inc _ (List.mem_range.mpr hXlt)
    (List.mem_range.mpr (List.getElem?_eq_some_iff.mp hY').1) hstat, ?_⟩
  rw [Dir.flip_flip, hportY, F.hd', condFlip_flip]

end Compress
