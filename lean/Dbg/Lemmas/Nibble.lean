import Dbg.Model.Compress
/-! nibble-level facts about extension sets (lib.rs 679-717) -/
namespace Compress

def nibCnt (b : Nat) : Nat := (b &&& 1) + ((b &&& 2) >>> 1) + ((b &&& 4) >>> 2) + ((b &&& 8) >>> 3)
def nibUniq (b : Nat) : Option Base :=
  if b &&& 1 > 0 then some 0 else if b &&& 2 > 0 then some 1 else if b &&& 4 > 0 then some 2
  else if b &&& 8 > 0 then some 3 else none
def nibHas (n : Nat) (b : Base) : Bool := n &&& (1 <<< b.val) != 0

theorem numExtDir_eq (e : Exts) (d : Walk.Dir) : e.numExtDir d = nibCnt (e.dirBits d) := rfl

theorem uniqueExt_eq (e : Exts) (d : Walk.Dir) :
    e.uniqueExt d = if nibCnt (e.dirBits d) != 1 then none else nibUniq (e.dirBits d) := rfl

theorem nib_table : ∀ n : Fin 16, ∀ b : Base,
    (nibCnt n.val = 1 → nibHas n.val b = true → nibUniq n.val = some b) ∧
    (nibCnt n.val = 1 → nibUniq n.val = some b → nibHas n.val b = true) ∧
    (nibHas n.val b = true → nibCnt n.val ≠ 0) ∧
    (nibCnt n.val = 1 → ∃ c, nibUniq n.val = some c) := by decide

theorem dirBits_lt (e : Exts) (h : e.val < 256) (d : Walk.Dir) : e.dirBits d < 16 := by
  cases d
  · show e.val &&& 0xf < 16
    exact Nat.lt_of_le_of_lt Nat.and_le_right (by decide)
  · show e.val >>> 4 < 16
    rw [Nat.shiftRight_eq_div_pow]; omega

end Compress
