/-! Probe: kernel-only proof that the u64 `reverse_by_twos` ladder reverses 2-bit lanes. -/
namespace Ladder

/-- one ladder step: `((x & m) << s) | ((x >> s) & m)` -/
def swapStep {w : Nat} (x m : BitVec w) (s : Nat) : BitVec w := ((x &&& m) <<< s) ||| ((x >>> s) &&& m)

/-- index map of a step with block size s -/
def swapIdx (s i : Nat) : Nat := if i % (2 * s) < s then i + s else i - s

/-- A mask is the block mask for `s` if bit i is set iff `i % 2s < s`. -/
def IsBlockMask {w : Nat} (m : BitVec w) (s : Nat) : Prop := ∀ i, i < w → m.getLsbD i = decide (i % (2 * s) < s)

syntax "swap_tac " num : tactic
macro_rules
  | `(tactic| swap_tac $s:num) => `(tactic| (
  intro hw hm i hi
  unfold swapStep swapIdx
  simp only [BitVec.getLsbD_or, BitVec.getLsbD_and, BitVec.getLsbD_shiftLeft, BitVec.getLsbD_ushiftRight]
  have hmi := hm i hi
  rw [hmi]
  by_cases c : i % (2 * $s) < $s
  · by_cases c2 : i < $s
    · simp [c, c2, hi, Nat.add_comm]
    · have hm2 := hm (i - $s) (by omega)
      have : ¬ ((i - $s) % (2 * $s) < $s) := by omega
      rw [hm2]
      simp [c, c2, hi, this, Nat.add_comm]
  · have hm2 := hm (i - $s) (by omega)
    have hlow : (i - $s) % (2 * $s) < $s := by omega
    have c2 : ¬ i < $s := by omega
    rw [hm2]
    simp [c, c2, hi, hlow]))

theorem swap2 {w : Nat} (x m : BitVec w) : w % (2 * 2) = 0 → IsBlockMask m 2 → ∀ i, i < w →
    (swapStep x m 2).getLsbD i = x.getLsbD (swapIdx 2 i) := by swap_tac 2
theorem swap4 {w : Nat} (x m : BitVec w) : w % (2 * 4) = 0 → IsBlockMask m 4 → ∀ i, i < w →
    (swapStep x m 4).getLsbD i = x.getLsbD (swapIdx 4 i) := by swap_tac 4
theorem swap8 {w : Nat} (x m : BitVec w) : w % (2 * 8) = 0 → IsBlockMask m 8 → ∀ i, i < w →
    (swapStep x m 8).getLsbD i = x.getLsbD (swapIdx 8 i) := by swap_tac 8
theorem swap16 {w : Nat} (x m : BitVec w) : w % (2 * 16) = 0 → IsBlockMask m 16 → ∀ i, i < w →
    (swapStep x m 16).getLsbD i = x.getLsbD (swapIdx 16 i) := by swap_tac 16
theorem swap32 {w : Nat} (x m : BitVec w) : w % (2 * 32) = 0 → IsBlockMask m 32 → ∀ i, i < w →
    (swapStep x m 32).getLsbD i = x.getLsbD (swapIdx 32 i) := by swap_tac 32

def rev2_64 (x : BitVec 64) : BitVec 64 :=
  let r := swapStep x 0x3333333333333333#64 2
  let r := swapStep r 0x0F0F0F0F0F0F0F0F#64 4
  let r := swapStep r 0x00FF00FF00FF00FF#64 8
  let r := swapStep r 0x0000FFFF0000FFFF#64 16
  let r := swapStep r 0x00000000FFFFFFFF#64 32
  r

theorem mask64_2 : IsBlockMask 0x3333333333333333#64 2 := by
  intro i hi
  have : ∀ j : Fin 64, (0x3333333333333333#64).getLsbD j.val = decide (j.val % (2 * 2) < 2) := by decide
  exact this ⟨i, hi⟩
theorem mask64_4 : IsBlockMask 0x0F0F0F0F0F0F0F0F#64 4 := by
  intro i hi
  have : ∀ j : Fin 64, (0x0F0F0F0F0F0F0F0F#64).getLsbD j.val = decide (j.val % (2 * 4) < 4) := by decide
  exact this ⟨i, hi⟩
theorem mask64_8 : IsBlockMask 0x00FF00FF00FF00FF#64 8 := by
  intro i hi
  have : ∀ j : Fin 64, (0x00FF00FF00FF00FF#64).getLsbD j.val = decide (j.val % (2 * 8) < 8) := by decide
  exact this ⟨i, hi⟩
theorem mask64_16 : IsBlockMask 0x0000FFFF0000FFFF#64 16 := by
  intro i hi
  have : ∀ j : Fin 64, (0x0000FFFF0000FFFF#64).getLsbD j.val = decide (j.val % (2 * 16) < 16) := by decide
  exact this ⟨i, hi⟩
theorem mask64_32 : IsBlockMask 0x00000000FFFFFFFF#64 32 := by
  intro i hi
  have : ∀ j : Fin 64, (0x00000000FFFFFFFF#64).getLsbD j.val = decide (j.val % (2 * 32) < 32) := by decide
  exact this ⟨i, hi⟩

/-- composed index map = lane reversal keeping the bit within the lane -/
theorem idx64 : ∀ j : Fin 64,
    swapIdx 2 (swapIdx 4 (swapIdx 8 (swapIdx 16 (swapIdx 32 j.val)))) = 2 * (31 - j.val / 2) + j.val % 2
    ∧ swapIdx 32 j.val < 64 ∧ swapIdx 16 (swapIdx 32 j.val) < 64 ∧ swapIdx 8 (swapIdx 16 (swapIdx 32 j.val)) < 64
    ∧ swapIdx 4 (swapIdx 8 (swapIdx 16 (swapIdx 32 j.val))) < 64 := by decide

theorem rev2_64_spec (x : BitVec 64) (i : Nat) (hi : i < 64) :
    (rev2_64 x).getLsbD i = x.getLsbD (2 * (31 - i / 2) + i % 2) := by
  obtain ⟨h0, h1, h2, h3, h4⟩ := idx64 ⟨i, hi⟩
  simp only at h0 h1 h2 h3 h4
  unfold rev2_64
  simp only
  rw [swap32 _ _ (by decide) mask64_32 i hi]
  rw [swap16 _ _ (by decide) mask64_16 _ h1]
  rw [swap8 _ _ (by decide) mask64_8 _ h2]
  rw [swap4 _ _ (by decide) mask64_4 _ h3]
  rw [swap2 _ _ (by decide) mask64_2 _ h4]
  rw [h0]

end Ladder
