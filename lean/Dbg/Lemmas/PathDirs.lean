import Dbg.Props.C09
import Dbg.Props.C03
/-! Orientation of re-compression paths: stranded graphs are never walked reverse-complemented. -/
namespace CompressGraph
open Compress (Seq Exts Node windowsOf rc)
open Walk (Dir rm mem_rm)
open Graph
variable {D : Type}

theorem buildNode_has_seed (g : G D) (st : Bool) (join : D → D → Bool) (reduce : D → D → D) (avail : List Nat) (seed : Nat)
    (nd : Node D) (path : List (Nat × Dir)) (a' : List Nat) (h : buildNode g st join reduce avail seed = some (nd, path, a')) :
    (seed, Dir.L) ∈ path := by
  unfold buildNode at h
  cases hn : g.nodes[seed]? with
  | none => simp [hn] at h
  | some sn =>
    simp only [hn] at h
    cases hL : extendNode g st join (rm avail seed) seed .L with
    | none => simp [hL] at h
    | some rl =>
      obtain ⟨lpath, lext, a2⟩ := rl
      simp only [hL] at h
      cases hR : extendNode g st join (rm a2 seed) seed .R with
      | none => simp [hR] at h
      | some rr =>
        obtain ⟨rpath, rext, a3⟩ := rr
        simp only [hR] at h
        split at h
        · simp only [Option.some.injEq, Prod.mk.injEq] at h
          obtain ⟨_, rfl, _⟩ := h
          simp
        · simp at h

/-- in a stranded graph a step along an edge keeps the orientation -/
theorem stepOK_dir (g : G D) (hst : g.stranded = true) (a b : Nat × Dir) (h : StepOK g a b) : b.2 = a.2 := by
  rcases h with ⟨es, f, he, hm⟩ | ⟨es, f, he, hm⟩
  · obtain ⟨nd, c, _, _, hl⟩ := C03_edges_justified g a.1 a.2.flip es he _ hm
    obtain ⟨_, _, _, hf0, hf1⟩ := findLink_sound g _ _ _ _ _ hl
    cases f with
    | false => have := hf0 rfl; rw [this, Dir.flip_flip]
    | true => have := (hf1 rfl).2; rw [hst] at this; cases this
  · obtain ⟨nd, c, _, _, hl⟩ := C03_edges_justified g b.1 b.2 es he _ hm
    obtain ⟨_, _, _, hf0, hf1⟩ := findLink_sound g _ _ _ _ _ hl
    cases f with
    | false =>
      have := hf0 rfl
      cases ha : a.2 <;> cases hb : b.2 <;> simp_all [Dir.flip]
    | true => have := (hf1 rfl).2; rw [hst] at this; cases this

theorem chainStep_dirs (g : G D) (hst : g.stranded = true) : ∀ (rest : List (Nat × Dir)) (p : Nat × Dir), ChainStep g p rest →
    ∀ q ∈ rest, q.2 = p.2 := by
  intro rest
  induction rest with
  | nil => intro p _ q hq; cases hq
  | cons r t ih =>
    intro p h q hq
    have h1 := stepOK_dir g hst p r h.1
    rcases List.mem_cons.mp hq with rfl | hq'
    · exact h1
    · rw [ih r h.2 q hq', h1]

theorem isChain_dirs (g : G D) (hst : g.stranded = true) (path : List (Nat × Dir)) (h : IsChain g path) :
    ∀ q ∈ path, ∀ q' ∈ path, q.2 = q'.2 := by
  cases path with
  | nil => intro q hq; cases hq
  | cons p rest =>
    have hall : ∀ q ∈ p :: rest, q.2 = p.2 := by
      intro q hq
      rcases List.mem_cons.mp hq with rfl | hq'
      · rfl
      · exact chainStep_dirs g hst rest p h q hq'
    intro q hq q' hq'
    rw [hall q hq, hall q' hq']

/-- every path of the loop is a chain containing its seed in forward orientation -/
theorem compressLoop_seed (g : G D) (hK : 1 ≤ g.K) (hl : ∀ (i : Nat) (n : Node D), g.nodes[i]? = some n → g.K ≤ n.seq.length)
    (st : Bool) (join : D → D → Bool) (reduce : D → D → D) :
    ∀ (is avail : List Nat) (out : List (Node D × List (Nat × Dir))),
      compressLoop g st join reduce is avail = some out →
      ∀ np ∈ out, IsChain g np.2 ∧ ∃ s, (s, Dir.L) ∈ np.2 := by
  intro is
  induction is with
  | nil => intro avail out h np hnp; simp only [compressLoop, Option.some.injEq] at h; subst h; cases hnp
  | cons j is ih =>
    intro avail out h np hnp
    simp only [compressLoop] at h
    by_cases hj : j ∈ avail
    · simp only [hj, if_true] at h
      cases hb : buildNode g st join reduce avail j with
      | none => simp [hb] at h
      | some r =>
        obtain ⟨nd, path, a'⟩ := r
        simp only [hb] at h
        cases hrest : compressLoop g st join reduce is a' with
        | none => simp [hrest] at h
        | some rest =>
          simp only [hrest, Option.some.injEq] at h
          subst h
          rcases List.mem_cons.mp hnp with rfl | hnp'
          · obtain ⟨_, c, _⟩ := buildNode_kmers g hK hl st join reduce avail j nd path a' hb
            exact ⟨c, j, buildNode_has_seed g st join reduce avail j nd path a' hb⟩
          · exact ih a' rest hrest np hnp'
    · simp only [hj, if_false] at h
      exact ih avail out h np hnp

/-- **stranded re-compression never reverse-complements a node**: every entry of every path is in forward orientation -/
theorem compressGraph_dirs_stranded (g : G D) (hK : 1 ≤ g.K) (hl : ∀ (i : Nat) (n : Node D), g.nodes[i]? = some n → g.K ≤ n.seq.length)
    (hst : g.stranded = true) (st : Bool) (join : D → D → Bool) (reduce : D → D → D) (censor : List Nat)
    (g' : G D) (paths : List (List (Nat × Dir))) (h : compressGraph st g join reduce censor = some (g', paths)) :
    ∀ p ∈ paths, ∀ q ∈ p, q.2 = Dir.L := by
  unfold compressGraph at h
  dsimp only at h
  split at h
  · simp at h
  · rename_i nodes hloop
    simp only [Option.some.injEq, Prod.mk.injEq] at h
    obtain ⟨_, rfl⟩ := h
    have sh1 := fixExts_shape g (some ((List.range g.nodes.length).filter fun i => !censor.contains i))
    have hK1 : 1 ≤ (fixExts g (some ((List.range g.nodes.length).filter fun i => !censor.contains i))).K := by rw [sh1.1]; exact hK
    have hst1 : (fixExts g (some ((List.range g.nodes.length).filter fun i => !censor.contains i))).stranded = true := by
      rw [sh1.2.1]; exact hst
    intro p hp q hq
    obtain ⟨np, hnp, rfl⟩ := List.mem_map.mp hp
    obtain ⟨hc, s, hs⟩ := compressLoop_seed _ hK1 (shape_len g _ sh1 hl) st join reduce _ _ nodes hloop np hnp
    exact isChain_dirs _ hst1 np.2 hc q hq (s, Dir.L) hs

end CompressGraph
