import Dbg.Lemmas.RecompressPG2
import Dbg.Lemmas.ShardFinal
/-! Re-compressing a re-compressed graph changes nothing but node order and orientation. -/
namespace Compress
open Walk (Dir Conn Rel rm)
open Filter (has ExtSym2 removeCensoredExts)
open Graph (G termKmer orientedKmers fixExts)
open CompressGraph (glinkV RInv buildNode ids compressLoop compressGraph)
variable {D : Type}

/-- pruning a closed table does not change its content -/
theorem prune_closed_content {T : Table D} {K : Nat} {st : Bool} (wf : WF T K st) (hcl : Closed T st) :
    ContentLe (removeCensoredExts st T) T ∧ ContentLe T (removeCensoredExts st T) := by
  have key : ∀ (i : Nat) (e1 e0 : Entry D), (removeCensoredExts st T)[i]? = some e1 → T[i]? = some e0 →
      e1.key = e0.key ∧ e1.data = e0.data ∧ ∀ d, e1.exts.dirBits d = e0.exts.dirBits d := by
    intro i e1 e0 h1 h0
    obtain ⟨e0', h0', hk, hd, h8, hx⟩ := (Filter.removeCensored_exact st T).2 i e1 h1
    have e : e0' = e0 := by rw [h0] at h0'; exact (Option.some.inj h0').symm
    subst e
    refine ⟨hk, hd, fun d => dirBits_ext e1.exts e0'.exts h8 (wf.ext8 i e0' h0) d (fun c => ?_)⟩
    rw [hx d c]
    constructor
    · exact fun h => h.1
    · intro hc
      refine ⟨hc, ?_⟩
      obtain ⟨y, hy⟩ := hcl i e0' d c h0 hc
      obtain ⟨ey, hey, hkey⟩ := findId_some hy
      rw [Filter.extTarget_eq, ← hkey]
      exact List.mem_map_of_mem (List.mem_of_getElem? hey)
  have hlen := (Filter.removeCensored_exact st T).1
  constructor
  · intro e1 h1
    obtain ⟨i, hi⟩ := mem_index _ e1 h1
    have hlt : i < T.length := by rw [← hlen]; exact (List.getElem?_eq_some_iff.mp hi).1
    obtain ⟨a, b, c⟩ := key i e1 T[i] hi (List.getElem?_eq_getElem hlt)
    exact ⟨T[i], List.getElem_mem hlt, a, b, c⟩
  · intro e0 h0
    obtain ⟨i, hi⟩ := mem_index _ e0 h0
    have hlt : i < (removeCensoredExts st T).length := by rw [hlen]; exact (List.getElem?_eq_some_iff.mp hi).1
    obtain ⟨a, b, c⟩ := key i _ e0 (List.getElem?_eq_getElem hlt) hi
    exact ⟨_, List.getElem_mem hlt, a.symm, b.symm, fun d => (c d).symm⟩

end Compress

namespace Compress
open Walk (Dir Conn Rel rm)
open Filter (has ExtSym2 removeCensoredExts)
open Graph (G termKmer orientedKmers fixExts)
open CompressGraph (glinkV RInv buildNode ids compressLoop compressGraph)
variable {D : Type}

theorem sum_map_one {α} (l : List α) : (l.map fun _ => 1).sum = l.length := by
  induction l with
  | nil => rfl
  | cons a t ih => rw [List.map_cons, List.sum_cons, ih, List.length_cons]; omega

/-- **idempotence of re-compression.**  Re-compress a ported graph (constantly-true join, no censoring), then
    re-compress the result: both calls return, every path of the second call consists of exactly one node of the first
    result, the node counts are equal, and the partitions of the k-mers into nodes are the same. -/
theorem pgraph_recompress_idem {U : Table D} {K : Nat} {st : Bool} {join0 : D → D → Bool} {nodes : List (Node D)}
    {port : Nat → Dir → Nat × Dir} {members : Nat → List Nat} {lk : Walk.Link}
    (pg : PGraph U K st join0 nodes port members lk) (wf : WF U K st) (hes2 : ExtSym2 U st) (reduce : D → D → D) :
    ∃ g' paths g'' paths'', compressGraph st (⟨K, nodes, st⟩ : G D) (fun _ _ => true) reduce [] = some (g', paths) ∧
      compressGraph st g' (fun _ _ => true) reduce [] = some (g'', paths'') ∧
      (∀ p ∈ paths'', ∃ X, ids p = [X]) ∧ g''.nodes.length = g'.nodes.length ∧ SameParts K st g''.nodes g'.nodes := by
  obtain ⟨g', paths, port', mem', hcg, hK', hst', pg3, hlen3, hmem3⟩ := pgraph_compressGraph pg wf hes2 reduce
  obtain ⟨g'0, paths0, hcg0, hne, hchar⟩ := pgraph_recompress pg wf hes2 reduce (fun _ _ => true) (fun _ _ => true) (fun _ _ => rfl) (fun _ _ => rfl)
  rw [hcg] at hcg0
  have e0 : g'0 = g' ∧ paths0 = paths := by
    have := Option.some.inj hcg0
    exact ⟨(congrArg Prod.fst this).symm, (congrArg Prod.snd this).symm⟩
  obtain ⟨rfl, rfl⟩ := e0
  obtain ⟨_, _, hcovP, hrangeP, hndP⟩ := CompressGraph.C09_kmers_cover st (⟨K, nodes, st⟩ : G D) wf.kpos pg.len _ reduce [] g'0 paths0 hcg
  have hcov1 : ∀ X, X < nodes.length → ∃ p ∈ paths0, X ∈ ids p := fun X hX => hcovP X hX (by simp)
  have hrange1 : ∀ p ∈ paths0, ∀ i ∈ ids p, i < nodes.length := fun p hp i hi => (hrangeP p hp i hi).2
  -- tables
  have wf1 := Filter.wf_removeCensored st U K wf
  have hes1 := Filter.extSym2_removeCensored st U K wf hes2
  have wf2 := Filter.wf_removeCensored st _ K wf1
  have hes2' := Filter.extSym2_removeCensored st _ K wf1 hes1
  have wf3 := Filter.wf_removeCensored st _ K wf2
  have hcl1 := closed_pruned st U
  have hcl2 := closed_pruned st (removeCensoredExts st U)
  obtain ⟨c21, _⟩ := prune_closed_content wf1 hcl1
  obtain ⟨c32, _⟩ := prune_closed_content wf2 hcl2
  -- the second re-compression
  have heta := graph_eta g'0 K st hK' hst'
  obtain ⟨g'', paths'', hcg2, hne2, hchar2⟩ := pgraph_recompress pg3 wf2 hes2' reduce (fun _ _ => true) (fun _ _ => true) (fun _ _ => rfl) (fun _ _ => rfl)
  rw [← heta] at hcg2
  obtain ⟨hlenP2, hkeys2⟩ := final_keys K wf.kpos st g'0.nodes pg3.len _ reduce g'' paths'' (by rw [← heta]; exact hcg2)
  obtain ⟨_, _, hcovP2, hrangeP2, hndP2⟩ := CompressGraph.C09_kmers_cover st g'0 (by rw [hK']; exact wf.kpos)
    (by intro i n hi; rw [hK']; exact pg3.len i n hi) _ reduce [] g'' paths'' hcg2
  have hcov2 : ∀ X, X < g'0.nodes.length → ∃ p ∈ paths'', X ∈ ids p := fun X hX => hcovP2 X hX (by simp)
  have hrange2 : ∀ p ∈ paths'', ∀ i ∈ ids p, i < g'0.nodes.length := fun p hp i hi => (hrangeP2 p hp i hi).2
  -- a first-level path is determined by any of its members
  have hpathU : ∀ (i j : Nat) (p q : List (Nat × Dir)), paths0[i]? = some p → paths0[j]? = some q → ∀ X, X ∈ ids p → X ∈ ids q → i = j := by
    intro i j p q hi hj X h1 h2
    rw [← List.flatMap_def] at hndP
    obtain ⟨_, hidx⟩ := nodup_flatMap_index paths0 ids hndP
    obtain ⟨hil, ei⟩ := List.getElem?_eq_some_iff.mp hi
    obtain ⟨hjl, ej⟩ := List.getElem?_eq_some_iff.mp hj
    exact hidx i j hil hjl X (by rw [ei]; exact h1) (by rw [ej]; exact h2)
  -- two nodes of the first result that share a second-level path are the same node
  have hsame : ∀ X Y, X < g'0.nodes.length → Y < g'0.nodes.length → (∃ p ∈ paths'', X ∈ ids p ∧ Y ∈ ids p) → X = Y := by
    intro X Y hX hY hp
    obtain ⟨x, hx, y, hy, hc⟩ := (hchar2 X Y hX hY).2.mp hp
    have hXp : X < paths0.length := by rw [← hlen3]; exact hX
    have hYp : Y < paths0.length := by rw [← hlen3]; exact hY
    have hpx : paths0[X]? = some paths0[X] := List.getElem?_eq_getElem hXp
    have hpy : paths0[Y]? = some paths0[Y] := List.getElem?_eq_getElem hYp
    rw [hmem3 X _ hpx] at hx
    rw [hmem3 Y _ hpy] at hy
    obtain ⟨qx, hqx, hxq⟩ := (mem_memOf members _ x).mp hx
    obtain ⟨qy, hqy, hyq⟩ := (mem_memOf members _ y).mp hy
    have hqxlt := hrange1 _ (List.getElem_mem hXp) qx.1 (List.mem_map_of_mem hqx)
    have hqylt := hrange1 _ (List.getElem_mem hYp) qy.1 (List.mem_map_of_mem hqy)
    -- transfer the connection to the once-pruned table
    have hk := conn_kconn _ st _ x y hc
    simp only [keyOf_pruned] at hk
    have hk1 := kconn_content _ wf2 c32 _ _ hk
    have hk2 := kconn_content _ wf1 c21 _ _ hk1
    have hxl : x < (removeCensoredExts st U).length := by
      rw [(Filter.removeCensored_exact st U).1]; exact pg.inRange qx.1 hqxlt x hxq
    obtain ⟨y', hy', hky, hc1⟩ := kconn_conn wf1 _ _ _ hk2 x hxl (keyOf_pruned st U x)
    rw [keyOf_pruned] at hky
    rw [(Filter.removeCensored_exact st U).1] at hy'
    have : y' = y := keyOf_inj wf y' y hy' (pg.inRange qy.1 hqylt y hyq) hky
    subst this
    obtain ⟨p, hpm, h1, h2⟩ := (hchar qx.1 qy.1 hqxlt hqylt).2.mpr ⟨x, hxq, y', hyq, hc1⟩
    obtain ⟨k, hk', ek⟩ := List.getElem_of_mem hpm
    have hpk : paths0[k]? = some p := by rw [List.getElem?_eq_getElem hk', ek]
    have e1 := hpathU X k _ p hpx hpk qx.1 (List.mem_map_of_mem hqx) h1
    have e2 := hpathU Y k _ p hpy hpk qy.1 (List.mem_map_of_mem hqy) h2
    omega
  -- hence every second-level path is a single node
  have hsingle : ∀ p ∈ paths'', ∃ X, ids p = [X] := by
    intro p hp
    have hnd : (ids p).Nodup := by
      rw [← List.flatMap_def] at hndP2
      exact (nodup_flatMap_index paths'' ids hndP2).1 p hp
    cases hids : ids p with
    | nil =>
      exfalso
      have : p = [] := by unfold ids at hids; exact List.map_eq_nil_iff.mp hids
      exact hne2 p hp this
    | cons X t =>
      cases t with
      | nil => exact ⟨X, rfl⟩
      | cons Y t' =>
        exfalso
        rw [hids] at hnd
        have hXm : X ∈ ids p := by rw [hids]; simp
        have hYm : Y ∈ ids p := by rw [hids]; simp
        have := hsame X Y (hrange2 p hp X hXm) (hrange2 p hp Y hYm) ⟨p, hp, hXm, hYm⟩
        rw [this] at hnd
        simp at hnd
  refine ⟨g'0, paths0, g'', paths'', hcg, hcg2, hsingle, ?_, ?_⟩
  · -- the singletons enumerate the nodes of the first result exactly once
    have hflat : (paths''.map ids).flatten.length = paths''.length := by
      rw [List.length_flatten, List.map_map]
      have : (List.map (List.length ∘ ids) paths'') = paths''.map (fun _ => 1) := by
        apply List.map_congr_left
        intro p hp
        obtain ⟨X, hX⟩ := hsingle p hp
        simp only [Function.comp, hX, List.length_singleton]
      rw [this]
      exact sum_map_one paths''
    have hperm : (paths''.map ids).flatten.Perm (List.range g'0.nodes.length) := by
      apply (List.perm_ext_iff_of_nodup hndP2 List.nodup_range).mpr
      intro X
      rw [List.mem_range, List.mem_flatten]
      constructor
      · rintro ⟨N, hN, hXN⟩
        obtain ⟨p, hp, rfl⟩ := List.mem_map.mp hN
        exact hrange2 p hp X hXN
      · intro hX
        obtain ⟨p, hp, hXp⟩ := hcov2 X hX
        exact ⟨ids p, List.mem_map_of_mem hp, hXp⟩
    have := hperm.length_eq
    rw [hflat, List.length_range] at this
    rw [hlenP2, this]
  · -- same k-mer sets
    constructor
    · intro n'' hn''
      obtain ⟨i, hi, e⟩ := List.getElem_of_mem hn''
      have hip : i < paths''.length := by rw [← hlenP2]; exact hi
      have hpi : paths''[i]? = some paths''[i] := List.getElem?_eq_getElem hip
      obtain ⟨X, hX⟩ := hsingle _ (List.getElem_mem hip)
      have hXlt : X < g'0.nodes.length := hrange2 _ (List.getElem_mem hip) X (by rw [hX]; simp)
      refine ⟨g'0.nodes[X], List.getElem_mem hXlt, fun k => ?_⟩
      rw [hkeys2 i n'' _ (by rw [List.getElem?_eq_getElem hi, e]) hpi k]
      constructor
      · rintro ⟨q, hq, nq, hnq, hk⟩
        have : q.1 = X := by
          have : q.1 ∈ ids paths''[i] := List.mem_map_of_mem hq
          rw [hX] at this; simpa using this
        rw [this, List.getElem?_eq_getElem hXlt] at hnq
        cases hnq; exact hk
      · intro hk
        have : X ∈ ids paths''[i] := by rw [hX]; simp
        obtain ⟨q, hq, hqX⟩ := List.mem_map.mp this
        exact ⟨q, hq, g'0.nodes[X], by rw [hqX]; exact List.getElem?_eq_getElem hXlt, hk⟩
    · intro n' hn'
      obtain ⟨X, hX, e⟩ := List.getElem_of_mem hn'
      obtain ⟨p, hp, hXp⟩ := hcov2 X hX
      obtain ⟨i, hi, ei⟩ := List.getElem_of_mem hp
      have hig : i < g''.nodes.length := by rw [hlenP2]; exact hi
      obtain ⟨X', hX'⟩ := hsingle p hp
      have hXX : X' = X := by rw [hX'] at hXp; exact (List.mem_singleton.mp hXp).symm
      subst hXX
      refine ⟨g''.nodes[i], List.getElem_mem hig, fun k => ?_⟩
      rw [hkeys2 i _ p (List.getElem?_eq_getElem hig) (by rw [List.getElem?_eq_getElem hi, ei]) k]
      constructor
      · intro hk
        obtain ⟨q, hq, hqX⟩ := List.mem_map.mp hXp
        exact ⟨q, hq, n', by rw [hqX, List.getElem?_eq_getElem hX, e], hk⟩
      · rintro ⟨q, hq, nq, hnq, hk⟩
        have : q.1 = X' := by
          have : q.1 ∈ ids p := List.mem_map_of_mem hq
          rw [hX'] at this; simpa using this
        rw [this, List.getElem?_eq_getElem hX, e] at hnq
        cases hnq; exact hk

end Compress

namespace Compress
open Walk (Dir Conn Rel rm)
open Filter (has ExtSym2 removeCensoredExts)
open Graph (G termKmer orientedKmers fixExts GInv)
open CompressGraph (compressGraph)
variable {D : Type}

/-- the re-compressed combination of shard graphs satisfies the node-level invariant -/
theorem sharded_result_ginv {R : Table D} {K : Nat} {st : Bool} (wfR : WF R K st) (hesR : ExtSym2 R st)
    (Ts : List (Table D)) (sw : Sandwich st Ts.flatten R) (reduce : D → D → D)
    (join0 : D → D → Bool) (hj0 : ∀ a b, join0 a b = join0 b a) :
    ∃ outs g' paths, AllBuilt st join0 reduce Ts outs ∧
      compressGraph st (⟨K, (outs.map fun o => o.map (·.1)).flatten, st⟩ : G D) (fun _ _ => true) reduce [] = some (g', paths) ∧
      GInv g' ∧ CompressGraph.PalEnd g' := by
  have wfU := sandwich_wf wfR sw
  have hesU := sandwich_extSym2 wfR hesR sw
  obtain ⟨outs, hb, hp⟩ := allBuilt_of_tables (K := K) join0 hj0 reduce Ts wfU hesU
  obtain ⟨port, mem, lk, pg⟩ := pgraph_flatten K st join0 Ts _ hp wfU
  obtain ⟨g', paths, port', mem', hcg, hK, hst, pg3, _, _⟩ := pgraph_compressGraph pg wfU hesU reduce
  have wf1 := Filter.wf_removeCensored st _ K wfU
  have hes1 := Filter.extSym2_removeCensored st _ K wfU hesU
  have wf2 := Filter.wf_removeCensored st _ K wf1
  have hes2' := Filter.extSym2_removeCensored st _ K wf1 hes1
  have heta := graph_eta g' K st hK hst
  refine ⟨outs, g', paths, hb, hcg, ?_, ?_⟩
  · rw [heta]; exact pg3.ginv wf2 hes2'
  · intro i n s hstf hi hrc
    rw [hK] at hrc ⊢
    exact pg3.palEnd i n s (by rw [← hst]; exact hstf) hi hrc

theorem allBuilt_unique {st : Bool} (join : D → D → Bool) (reduce : D → D → D) :
    ∀ (Ts : List (Table D)) (o1 o2 : List (List (Node D × List Nat))), AllBuilt st join reduce Ts o1 → AllBuilt st join reduce Ts o2 → o1 = o2 := by
  intro Ts
  induction Ts with
  | nil =>
    intro o1 o2 h1 h2
    cases o1 with
    | nil => cases o2 with
      | nil => rfl
      | cons _ _ => exact absurd h2 (by simp [AllBuilt])
    | cons _ _ => exact absurd h1 (by simp [AllBuilt])
  | cons T Ts ih =>
    intro o1 o2 h1 h2
    cases o1 with
    | nil => exact absurd h1 (by simp [AllBuilt])
    | cons a as =>
      cases o2 with
      | nil => exact absurd h2 (by simp [AllBuilt])
      | cons b bs =>
        obtain ⟨ha, has⟩ : compressKmersC T st join reduce = some a ∧ AllBuilt st join reduce Ts as := h1
        obtain ⟨hb, hbs⟩ : compressKmersC T st join reduce = some b ∧ AllBuilt st join reduce Ts bs := h2
        rw [ha] at hb
        rw [Option.some.inj hb, ih as bs has hbs]

end Compress
