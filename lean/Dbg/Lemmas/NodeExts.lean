import Dbg.Lemmas.Assemble
import Dbg.Lemmas.FilterSym
/-! The extension byte and the terminal k-mers of a node built by `build_node`, in terms of the two k-mer "ports" at
    which its walks stopped. -/
namespace Compress
open Walk (Dir rm)
open Filter (has hasExt_iff)
variable {D : Type}

/-! ### nibble algebra of `single_dir`, `complement`, `from_single_dirs` -/

theorem nibble_table : ∀ n m : Fin 16, ∀ b : Base,
    (nibHas ((Exts.fromSingleDirs ⟨n.val⟩ ⟨m.val⟩).dirBits .L) b = nibHas n.val b) ∧
    (nibHas ((Exts.fromSingleDirs ⟨n.val⟩ ⟨m.val⟩).dirBits .R) b = nibHas m.val b) ∧
    (nibHas ((Exts.fromSingleDirs (⟨n.val⟩ : Exts).complement ⟨m.val⟩).dirBits .L) b = nibHas n.val (comp b)) ∧
    (nibHas ((Exts.fromSingleDirs ⟨n.val⟩ (⟨m.val⟩ : Exts).complement).dirBits .R) b = nibHas m.val (comp b)) ∧
    (nibHas ((Exts.fromSingleDirs (⟨n.val⟩ : Exts).complement ⟨m.val⟩).dirBits .R) b = nibHas m.val b) ∧
    (nibHas ((Exts.fromSingleDirs ⟨n.val⟩ (⟨m.val⟩ : Exts).complement).dirBits .L) b = nibHas n.val b) ∧
    (nibHas ((Exts.fromSingleDirs (⟨n.val⟩ : Exts).complement (⟨m.val⟩ : Exts).complement).dirBits .L) b = nibHas n.val (comp b)) ∧
    (nibHas ((Exts.fromSingleDirs (⟨n.val⟩ : Exts).complement (⟨m.val⟩ : Exts).complement).dirBits .R) b = nibHas m.val (comp b)) := by
  decide +kernel

/-- the byte assembled from the two terminal extension sets: `cl`/`cr` say whether the left / right one was complemented -/
theorem fromSingleDirs_has (e1 e2 : Exts) (h1 : e1.val < 256) (h2 : e2.val < 256) (d1 d2 : Dir) (cl cr : Bool) (b : Base) :
    (has (Exts.fromSingleDirs (if cl then (e1.singleDir d1).complement else e1.singleDir d1)
        (if cr then (e2.singleDir d2).complement else e2.singleDir d2)) .L b ↔ has e1 d1 (if cl then comp b else b)) ∧
    (has (Exts.fromSingleDirs (if cl then (e1.singleDir d1).complement else e1.singleDir d1)
        (if cr then (e2.singleDir d2).complement else e2.singleDir d2)) .R b ↔ has e2 d2 (if cr then comp b else b)) := by
  have l1 := dirBits_lt e1 h1 d1
  have l2 := dirBits_lt e2 h2 d2
  obtain ⟨t1, t2, t3, t4, t5, t6, t7, t8⟩ := nibble_table ⟨e1.dirBits d1, l1⟩ ⟨e2.dirBits d2, l2⟩ b
  unfold has Exts.singleDir
  cases cl <;> cases cr <;> simp only [Bool.false_eq_true, if_false, if_true]
  · exact ⟨by rw [t1], by rw [t2]⟩
  · exact ⟨by rw [t6], by rw [t4]⟩
  · exact ⟨by rw [t3], by rw [t5]⟩
  · exact ⟨by rw [t7], by rw [t8]⟩

/-! ### the extension set returned by the walk -/

theorem tryExtend_terminal (T : Table D) (st : Bool) (join : D → D → Bool) (avail : List Nat) (x : Nat) (d : Dir) (e : Exts)
    (ex : Entry D) (hx : T[x]? = some ex) (h : tryExtend T st join avail x d = .terminal e) : e = ex.exts.singleDir d := by
  unfold tryExtend at h
  have hs : ∀ e0, staticStep T st join x d = .blocked e0 ∨ staticStep T st join x d = .absent e0 ∨
      (∃ y d' ok pn, staticStep T st join x d = .cand y d' ok pn e0) → e0 = ex.exts.singleDir d := by
    intro e0 hh
    unfold staticStep at hh
    rw [hx] at hh
    simp only at hh
    split at hh
    · rcases hh with h1 | h1 | ⟨_, _, _, _, h1⟩
      · cases h1; rfl
      · cases h1
      · cases h1
    · split at hh
      · rcases hh with h1 | h1 | ⟨_, _, _, _, h1⟩
        · cases h1; rfl
        · cases h1
        · cases h1
      · split at hh
        · rcases hh with h1 | h1 | ⟨_, _, _, _, h1⟩
          · cases h1
          · cases h1; rfl
          · cases h1
        · split at hh
          · rcases hh with h1 | h1 | ⟨_, _, _, _, h1⟩
            · cases h1
            · cases h1; rfl
            · cases h1
          · rcases hh with h1 | h1 | ⟨_, _, _, _, h1⟩
            · cases h1
            · cases h1
            · cases h1; rfl
  cases hst : staticStep T st join x d with
  | blocked e0 => rw [hst] at h; cases h; exact hs e (Or.inl hst)
  | absent e0 => rw [hst] at h; cases h; exact hs e (Or.inr (Or.inl hst))
  | cand y d' ok pn e0 =>
    rw [hst] at h
    simp only at h
    have he0 := hs e0 (Or.inr (Or.inr ⟨y, d', ok, pn, hst⟩))
    split at h
    · cases h; exact he0
    · split at h
      · cases h
      · split at h
        · cases h
        · cases h; exact he0

/-- the last port of a walk (the start port if the walk made no step) -/
def lastPort (p : List (Nat × Dir)) (x : Nat) (d : Dir) : Nat × Dir := p.getLast?.getD (x, d)

theorem lastPort_cons (q : Nat × Dir) (p : List (Nat × Dir)) (x : Nat) (d : Dir) : lastPort (q :: p) x d = lastPort p q.1 q.2 := by
  unfold lastPort
  cases p with
  | nil => rfl
  | cons a t =>
    rw [List.getLast?_cons_cons]
    cases h : (a :: t).getLast? with
    | none => rw [List.getLast?_eq_none_iff] at h; cases h
    | some z => rfl

/-- **the walk returns the extension set of its last port** -/
theorem walkC_exts (T : Table D) (st : Bool) (join : D → D → Bool) (hall : ∀ x d y d', linkOf T st join x d = some (y, d') → ∃ ey, T[y]? = some ey)
    (avail : List Nat) (x : Nat) (d : Dir) :
    ∀ p e a ex, T[x]? = some ex → walkC T st join avail x d = some (p, e, a) →
      ∃ el, T[(lastPort p x d).1]? = some el ∧ e = el.exts.singleDir (lastPort p x d).2 := by
  fun_induction walkC T st join avail x d with
  | case1 avail x d y d' ht hy p0 e0 a0 hrec ih =>
    intro p e a ex hx h
    simp only [Option.some.injEq, Prod.mk.injEq] at h
    obtain ⟨rfl, rfl, rfl⟩ := h
    -- the step is a link, so `y` is in the table
    have hl : linkOf T st join x d = some (y, d') := by
      unfold tryExtend at ht
      unfold linkOf
      cases hs : staticStep T st join x d with
      | blocked e1 => rw [hs] at ht; cases ht
      | absent e1 => rw [hs] at ht; cases ht
      | cand y1 d1 ok pn e1 =>
        rw [hs] at ht
        simp only at ht
        split at ht
        · cases ht
        · split at ht
          · cases ht
          · split at ht
            · rename_i hpn hok
              simp only [ExtMode.unique.injEq] at ht
              obtain ⟨rfl, rfl⟩ := ht
              have hpn' : pn = false := by simpa using hpn
              subst hpn'
              rw [hok]
            · cases ht
    obtain ⟨ey, hy'⟩ := hall x d y d' hl
    rw [lastPort_cons]
    exact ih p0 e0 a0 ey hy' hrec
  | case2 avail x d y d' ht hy hnone =>
    intro p e a ex hx h; cases h
  | case3 avail x d y d' ht hny =>
    intro p e a ex hx h; cases h
  | case4 avail x d e0 ht =>
    intro p e a ex hx h
    simp only [Option.some.injEq, Prod.mk.injEq] at h
    obtain ⟨rfl, rfl, rfl⟩ := h
    exact ⟨ex, hx, tryExtend_terminal T st join avail x d e0 ex hx ht⟩
  | case5 avail x d ht =>
    intro p e a ex hx h; cases h

end Compress

namespace Compress
open Walk (Dir rm)
open Filter (has hasExt_iff)
variable {D : Type}

theorem link_target_in_table (T : Table D) (st : Bool) (join : D → D → Bool) :
    ∀ x d y d', linkOf T st join x d = some (y, d') → ∃ ey, T[y]? = some ey := by
  intro x d y d' h
  obtain ⟨ex, ey, b, f⟩ := linkOf_inv T st join h
  exact ⟨ey, f.hy⟩

/-- the two ports of a node: where the left walk and the right walk stopped -/
def leftPort (T : Table D) (st : Bool) (join : D → D → Bool) (avail : List Nat) (seed : Nat) : Nat × Dir :=
  lastPort (leftW T st join avail seed).1 seed .L
def rightPort (T : Table D) (st : Bool) (join : D → D → Bool) (avail : List Nat) (seed : Nat) : Nat × Dir :=
  lastPort (rightW T st join avail seed).1 seed .R

theorem walk_avail_sub (link : Walk.Link) : ∀ (a : List Nat) (x : Nat) (d : Dir) (z : Nat), z ∈ (Walk.walk link a x d).2 → z ∈ a := by
  intro a x d
  fun_induction Walk.walk link a x d with
  | case1 a x d y d' hl hy r ih => intro z hz; exact (Walk.mem_rm.mp (ih z hz)).1
  | case2 a x d y d' hl hy => intro z hz; exact hz
  | case3 a x d hl => intro z hz; exact hz

/-- **the extension byte of a built node**: on each side, the extensions recorded by the k-mer at that port, complemented
    when the k-mer lies reverse-complemented in the node -/
theorem buildNodeC_exts {T : Table D} {K : Nat} {st : Bool} {join : D → D → Bool} (reduce : D → D → D)
    (wf : WF T K st) (hes : ExtSym T st) (avail : List Nat) (seed : Nat) (es : Entry D) (hseed : T[seed]? = some es)
    (nd : Node D) (ids a' : List Nat) (hb : buildNodeC T st join reduce avail seed = some (nd, ids, a')) :
    ∃ el er, T[(leftPort T st join avail seed).1]? = some el ∧ T[(rightPort T st join avail seed).1]? = some er ∧
      (∀ b, has nd.exts .L b ↔ has el.exts (leftPort T st join avail seed).2
        (if (leftPort T st join avail seed).2 = .R then comp b else b)) ∧
      (∀ b, has nd.exts .R b ↔ has er.exts (rightPort T st join avail seed).2
        (if (rightPort T st join avail seed).2 = .L then comp b else b)) := by
  have hnp := noPanic (join := join) wf hes
  obtain ⟨el0, hl⟩ := walkC_refines T st join hnp (Walk.rm avail seed) seed .L
  have hnot : seed ∉ (leftW T st join avail seed).2 := by
    intro h
    have := walk_avail_sub (linkOf T st join) _ _ _ seed h
    exact (Walk.mem_rm.mp this).2 rfl
  have hrm : Walk.rm (leftW T st join avail seed).2 seed = (leftW T st join avail seed).2 := rm_of_not_mem _ _ hnot
  obtain ⟨er0, hr⟩ := walkC_refines T st join hnp (leftW T st join avail seed).2 seed .R
  -- what the two walks returned
  obtain ⟨el, hel, eel⟩ := walkC_exts T st join (link_target_in_table T st join) _ seed .L _ _ _ es hseed hl
  obtain ⟨er, her, eer⟩ := walkC_exts T st join (link_target_in_table T st join) _ seed .R _ _ _ es hseed hr
  refine ⟨el, er, hel, her, ?_⟩
  -- open `build_node`
  unfold buildNodeC at hb
  rw [hseed] at hb
  try simp only at hb
  have hl' : walkC T st join (rm avail seed) seed .L = some ((leftW T st join avail seed).1, el0, (leftW T st join avail seed).2) := hl
  rw [hl'] at hb
  try simp only at hb
  split at hb
  · cases hb
  · rename_i seqL datL hfl
    try simp only at hb
    rw [hrm] at hb
    have hr' : walkC T st join (leftW T st join avail seed).2 seed .R =
        some ((rightW T st join avail seed).1, er0, (rightW T st join avail seed).2) := hr
    rw [hr'] at hb
    try simp only at hb
    split at hb
    · cases hb
    · rename_i seqR datR hfr
      simp only [Option.some.injEq, Prod.mk.injEq] at hb
      obtain ⟨hnd, _, _⟩ := hb
      subst hnd
      -- the two arguments of `from_single_dirs`, by cases on how the two walks ended
      have eel' : el0 = el.exts.singleDir (leftPort T st join avail seed).2 := eel
      have eer' : er0 = er.exts.singleDir (rightPort T st join avail seed).2 := eer
      have fin : ∀ (cl cr : Bool), cl = decide ((leftPort T st join avail seed).2 = .R) → cr = decide ((rightPort T st join avail seed).2 = .L) →
          (∀ b, has (Exts.fromSingleDirs (if cl then el0.complement else el0) (if cr then er0.complement else er0)) .L b ↔
            has el.exts (leftPort T st join avail seed).2 (if (leftPort T st join avail seed).2 = .R then comp b else b)) ∧
          (∀ b, has (Exts.fromSingleDirs (if cl then el0.complement else el0) (if cr then er0.complement else er0)) .R b ↔
            has er.exts (rightPort T st join avail seed).2 (if (rightPort T st join avail seed).2 = .L then comp b else b)) := by
        intro cl cr hcl hcr
        rw [eel', eer']
        have hfs := fromSingleDirs_has el.exts er.exts (wf.ext8 _ el hel) (wf.ext8 _ er her)
          (leftPort T st join avail seed).2 (rightPort T st join avail seed).2 cl cr
        constructor
        · intro b
          rw [(hfs b).1, hcl]
          by_cases hc : (leftPort T st join avail seed).2 = .R <;> simp [hc]
        · intro b
          rw [(hfs b).2, hcr]
          by_cases hc : (rightPort T st join avail seed).2 = .L <;> simp [hc]
      have hlp : (leftPort T st join avail seed) = ((leftW T st join avail seed).1.getLast?).getD (seed, .L) := rfl
      have hrp : (rightPort T st join avail seed) = ((rightW T st join avail seed).1.getLast?).getD (seed, .R) := rfl
      cases hgl : (leftW T st join avail seed).1.getLast? with
      | none =>
        have dl : (leftPort T st join avail seed).2 = .L := by rw [hlp, hgl]; rfl
        cases hgr : (rightW T st join avail seed).1.getLast? with
        | none =>
          have dr : (rightPort T st join avail seed).2 = .R := by rw [hrp, hgr]; rfl
          exact fin false false (by simp [dl]) (by simp [dr])
        | some q =>
          obtain ⟨q1, q2⟩ := q
          have dr : (rightPort T st join avail seed).2 = q2 := by rw [hrp, hgr]; rfl
          cases q2 with
          | L => exact fin false true (by simp [dl]) (by simp [dr])
          | R => exact fin false false (by simp [dl]) (by simp [dr])
      | some p =>
        obtain ⟨p1, p2⟩ := p
        have dl : (leftPort T st join avail seed).2 = p2 := by rw [hlp, hgl]; rfl
        cases hgr : (rightW T st join avail seed).1.getLast? with
        | none =>
          have dr : (rightPort T st join avail seed).2 = .R := by rw [hrp, hgr]; rfl
          cases p2 with
          | L => exact fin false false (by simp [dl]) (by simp [dr])
          | R => exact fin true false (by simp [dl]) (by simp [dr])
        | some q =>
          obtain ⟨q1, q2⟩ := q
          have dr : (rightPort T st join avail seed).2 = q2 := by rw [hrp, hgr]; rfl
          cases p2 <;> cases q2
          · exact fin false true (by simp [dl]) (by simp [dr])
          · exact fin false false (by simp [dl]) (by simp [dr])
          · exact fin true true (by simp [dl]) (by simp [dr])
          · exact fin true false (by simp [dl]) (by simp [dr])

end Compress

namespace Compress
open Walk (Dir rm)
open Filter (has hasExt_iff)
variable {D : Type}

theorem windowsOf_head_last (K : Nat) (s : Seq) (hK : 1 ≤ K) (h : K ≤ s.length) :
    (windowsOf K s).head? = some (s.take K) ∧ (windowsOf K s).getLast? = some (s.drop (s.length - K)) := by
  rw [windowsOf_eq K s h]
  constructor
  · rw [List.head?_map, List.head?_range]; simp
  · rw [List.getLast?_map, List.getLast?_range]
    simp only [show s.length - K + 1 ≠ 0 by omega, if_false, Option.map_some, Nat.add_sub_cancel]
    congr 1
    apply List.take_of_length_le
    simp; omega

/-- **the terminal k-mers of a built node** are the oriented keys at its two ports -/
theorem buildNodeC_terms {T : Table D} {K : Nat} {st : Bool} {join : D → D → Bool} (reduce : D → D → D)
    (wf : WF T K st) (hes : ExtSym T st) (avail : List Nat) (seed : Nat) (es : Entry D) (hseed : T[seed]? = some es)
    (nd : Node D) (ids a' : List Nat) (hb : buildNodeC T st join reduce avail seed = some (nd, ids, a')) :
    K ≤ nd.seq.length ∧ nd.seq.take K = oL T (leftPort T st join avail seed) ∧
      nd.seq.drop (nd.seq.length - K) = oR T (rightPort T st join avail seed) := by
  obtain ⟨nd', hb', hw, _⟩ := buildNodeC_spec (join := join) reduce wf hes avail seed es hseed
  rw [hb] at hb'
  simp only [Option.some.injEq, Prod.mk.injEq] at hb'
  obtain ⟨rfl, _, _⟩ := hb'
  have hlenK : K ≤ nd.seq.length := by
    by_cases h : nd.seq.length < K
    · have : windowsOf K nd.seq = [] := by simp [windowsOf, h]
      rw [this] at hw
      have := congrArg List.length hw
      simp at this
    · omega
  obtain ⟨h1, h2⟩ := windowsOf_head_last K nd.seq wf.kpos hlenK
  rw [hw] at h1 h2
  have hkey : oL T (seed, .L) = es.key ∧ oR T (seed, .R) = es.key := by simp [oL, oR, hseed, orientL, orientR]
  refine ⟨hlenK, ?_, ?_⟩
  · have : (((leftW T st join avail seed).1.map (oL T)).reverse ++ [es.key] ++ (rightW T st join avail seed).1.map (oR T)).head? =
        some (oL T (leftPort T st join avail seed)) := by
      unfold leftPort lastPort
      cases hgl : (leftW T st join avail seed).1.getLast? with
      | none =>
        have : (leftW T st join avail seed).1 = [] := List.getLast?_eq_none_iff.mp hgl
        rw [this]; simp [hkey.1]
      | some q =>
        have hne : (leftW T st join avail seed).1 ≠ [] := by intro e; rw [e] at hgl; cases hgl
        rw [List.append_assoc, List.head?_append, List.head?_reverse, List.getLast?_map, hgl]
        rfl
    rw [this] at h1
    exact (Option.some.inj h1).symm
  · have : (((leftW T st join avail seed).1.map (oL T)).reverse ++ [es.key] ++ (rightW T st join avail seed).1.map (oR T)).getLast? =
        some (oR T (rightPort T st join avail seed)) := by
      unfold rightPort lastPort
      cases hgr : (rightW T st join avail seed).1.getLast? with
      | none =>
        have : (rightW T st join avail seed).1 = [] := List.getLast?_eq_none_iff.mp hgr
        rw [this]; simp [hkey.2]
      | some q =>
        have hne : (rightW T st join avail seed).1 ≠ [] := by intro e; rw [e] at hgr; cases hgr
        rw [List.getLast?_append, List.getLast?_map, hgr]
        rfl
    rw [this] at h2
    exact (Option.some.inj h2).symm

end Compress

namespace Compress
open Walk (Dir)

/-- consecutive entries of a walk are joined by links -/
def LinkedFrom (link : Walk.Link) : Nat → Dir → List (Nat × Dir) → Prop
  | _, _, [] => True
  | x, d, (y, d') :: rest => link x d = some (y, d') ∧ LinkedFrom link y d' rest

theorem walk_linked (link : Walk.Link) (avail : List Nat) (x : Nat) (d : Dir) :
    LinkedFrom link x d (Walk.walk link avail x d).1 := by
  fun_induction Walk.walk link avail x d with
  | case1 avail x d y d' hl hy r ih => exact ⟨hl, ih⟩
  | case2 avail x d y d' hl hy => trivial
  | case3 avail x d hl => trivial

end Compress
