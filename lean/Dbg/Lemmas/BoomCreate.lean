import Dbg.Model.Boom
/-! `create_map` (cycle sort by a minimal perfect hash) terminates, permutes the pairs and leaves every pair in its slot. -/
namespace Boom
open Compress (Seq)

abbrev Pairs (V : Type) := Array (Seq × V)

variable {V : Type}

/-- 0 if slot `j` holds a pair whose key hashes to `j`, else 1 -/
def ind (th : Seq → Option Nat) (ps : Pairs V) (j : Nat) : Nat :=
  if (ps[j]?.bind fun p => th p.1) = some j then 0 else 1

/-- number of slots below `n` not holding their own pair -/
def cnt (th : Seq → Option Nat) (ps : Pairs V) : Nat → Nat
  | 0 => 0
  | n + 1 => cnt th ps n + ind th ps n

theorem ind_le (th : Seq → Option Nat) (ps : Pairs V) (j : Nat) : ind th ps j ≤ 1 := by unfold ind; split <;> omega

theorem cnt_le (th : Seq → Option Nat) (ps : Pairs V) (n : Nat) : cnt th ps n ≤ n := by
  induction n with
  | zero => simp [cnt]
  | succ n ih => have := ind_le th ps n; simp only [cnt]; omega

theorem ite_lt_succ (x n u : Nat) (h : n ≠ x) : (if x < n + 1 then u else 0) = (if x < n then u else 0) := by
  by_cases h1 : x < n
  · simp [h1, Nat.lt_succ_of_lt h1]
  · have : ¬ x < n + 1 := by omega
    simp [h1, this]

theorem cnt_change (th : Seq → Option Nat) (ps ps' : Pairs V) (a b : Nat) (hab : a ≠ b)
    (hsame : ∀ j, j ≠ a → j ≠ b → ps'[j]? = ps[j]?) (n : Nat) :
    cnt th ps' n + (if a < n then ind th ps a else 0) + (if b < n then ind th ps b else 0)
      = cnt th ps n + (if a < n then ind th ps' a else 0) + (if b < n then ind th ps' b else 0) := by
  induction n with
  | zero => simp [cnt]
  | succ n ih =>
    simp only [cnt]
    have e : n ≠ a → n ≠ b → ind th ps' n = ind th ps n := by
      intro h1 h2; unfold ind; rw [hsame n h1 h2]
    by_cases h1 : n = a
    · subst h1
      rw [ite_lt_succ b n _ hab, ite_lt_succ b n _ hab]
      simp only [Nat.lt_irrefl, Nat.lt_succ_self, if_true, if_false] at ih ⊢
      omega
    · by_cases h2 : n = b
      · subst h2
        rw [ite_lt_succ a n _ h1, ite_lt_succ a n _ h1]
        simp only [Nat.lt_irrefl, Nat.lt_succ_self, if_true, if_false] at ih ⊢
        omega
      · rw [ite_lt_succ a n _ h1, ite_lt_succ a n _ h1, ite_lt_succ b n _ h2, ite_lt_succ b n _ h2, e h1 h2]
        omega

/-- the hash function is defined on every stored key, with a rank below the number of pairs -/
def Ranked (th : Seq → Option Nat) (ps : Pairs V) : Prop := ∀ p ∈ ps.toList, ∃ s, th p.1 = some s ∧ s < ps.size
/-- … and injective on the stored pairs -/
def Inj (th : Seq → Option Nat) (ps : Pairs V) : Prop := ps.toList.Pairwise fun p q => th p.1 ≠ th q.1

theorem Inj.pos {th : Seq → Option Nat} {ps : Pairs V} (h : Inj th ps) (a b : Nat) (ha : a < ps.size) (hb : b < ps.size)
    (e : th ps[a].1 = th ps[b].1) : a = b := by
  have hp := List.pairwise_iff_getElem.mp h
  rcases Nat.lt_trichotomy a b with h1 | h1 | h1
  · have := hp a b (by simpa using ha) (by simpa using hb) h1
    simp only [Array.getElem_toList] at this
    exact absurd e this
  · exact h1
  · have := hp b a (by simpa using hb) (by simpa using ha) h1
    simp only [Array.getElem_toList] at this
    exact absurd e.symm this

theorem ind_zero_iff (th : Seq → Option Nat) (ps : Pairs V) (j : Nat) (hj : j < ps.size) :
    ind th ps j = 0 ↔ th ps[j].1 = some j := by
  unfold ind
  rw [Array.getElem?_eq_getElem hj]
  simp only [Option.bind_some]
  split <;> simp_all

theorem settle_spec (th : Seq → Option Nat) (i : Nat) : ∀ (fuel : Nat) (ps : Pairs V), Ranked th ps → Inj th ps → i < ps.size →
    cnt th ps ps.size < fuel →
    ∃ ps', settle th i fuel ps = some ps' ∧ ps'.Perm ps ∧ ind th ps' i = 0 ∧ (∀ j, ind th ps j = 0 → ind th ps' j = 0) := by
  intro fuel
  induction fuel with
  | zero => intro ps _ _ _ h; omega
  | succ fuel ih =>
    intro ps hr hinj hi hc
    obtain ⟨s, hs, hlt⟩ := hr ps[i] (by simp)
    unfold settle
    simp only [hi, dite_true, hs]
    by_cases his : i = s
    · rw [if_pos his]
      refine ⟨ps, by simp, Array.Perm.refl _, ?_, fun j h => h⟩
      subst his
      exact (ind_zero_iff th ps i hi).mpr hs
    · rw [if_neg his, dif_pos hlt]
      have hperm : (ps.swap i s hi hlt).Perm ps := Array.swap_perm hi hlt
      have hsz : (ps.swap i s hi hlt).size = ps.size := Array.size_swap
      have hr2 : Ranked th (ps.swap i s hi hlt) := by
        intro p hp
        rw [hsz]
        exact hr p ((Array.perm_iff_toList_perm.mp hperm).mem_iff.mp hp)
      have hinj2 : Inj th (ps.swap i s hi hlt) :=
        (Array.Perm.pairwise_iff (fun h => Ne.symm h) hperm).mpr hinj
      have hsame : ∀ j, j ≠ i → j ≠ s → (ps.swap i s hi hlt)[j]? = ps[j]? := by
        intro j h1 h2
        rw [Array.getElem?_swap, if_neg (Ne.symm h2), if_neg (Ne.symm h1)]
      have hch := cnt_change th ps (ps.swap i s hi hlt) i s his hsame ps.size
      simp only [hi, hlt, if_true] at hch
      have h_i : ind th ps i = 1 := by
        unfold ind
        rw [Array.getElem?_eq_getElem hi]
        simp only [Option.bind_some, hs]
        have : ¬ (some s = some i) := by intro h; exact his (Option.some.inj h).symm
        simp [this]
      have h_s : ind th ps s = 1 := by
        have : ¬ ind th ps s = 0 := by
          intro h0
          have := (ind_zero_iff th ps s hlt).mp h0
          exact his (hinj.pos i s hi hlt (by rw [hs, this]))
        have := ind_le th ps s
        omega
      have h_s2 : ind th (ps.swap i s hi hlt) s = 0 := by
        rw [ind_zero_iff th _ s (by rw [hsz]; exact hlt)]
        simp [hs]
      have hle := ind_le th (ps.swap i s hi hlt) i
      have hdec : cnt th (ps.swap i s hi hlt) (ps.swap i s hi hlt).size < fuel := by rw [hsz]; omega
      obtain ⟨ps', e1, e2, e3, e4⟩ := ih (ps.swap i s hi hlt) hr2 hinj2 (by rw [hsz]; exact hi) hdec
      refine ⟨ps', e1, e2.trans hperm, e3, ?_⟩
      intro j hj
      apply e4
      have hji : j ≠ i := by intro h; subst h; omega
      have hjs : j ≠ s := by intro h; subst h; omega
      unfold ind at hj ⊢
      rw [hsame j hji hjs]; exact hj

theorem createLoop_spec (th : Seq → Option Nat) : ∀ (r i : Nat) (ps : Pairs V), Ranked th ps → Inj th ps → i + r = ps.size →
    (∀ j, j < i → ind th ps j = 0) →
    ∃ ps', createLoop th r i ps = some ps' ∧ ps'.Perm ps ∧ ∀ j, j < ps.size → ind th ps' j = 0 := by
  intro r
  induction r with
  | zero =>
    intro i ps _ _ hsum hfix
    exact ⟨ps, rfl, Array.Perm.refl _, fun j hj => hfix j (by omega)⟩
  | succ r ih =>
    intro i ps hr hinj hsum hfix
    have hc := cnt_le th ps ps.size
    obtain ⟨ps1, e1, e2, e3, e4⟩ := settle_spec th i (ps.size + 1) ps hr hinj (by omega) (by omega)
    have hsz : ps1.size = ps.size := by
      have := (Array.perm_iff_toList_perm.mp e2).length_eq; simpa using this
    have hr1 : Ranked th ps1 := by
      intro p hp; rw [hsz]; exact hr p ((Array.perm_iff_toList_perm.mp e2).mem_iff.mp hp)
    have hinj1 : Inj th ps1 := (Array.Perm.pairwise_iff (fun h => Ne.symm h) e2).mpr hinj
    have hfix1 : ∀ j, j < i + 1 → ind th ps1 j = 0 := by
      intro j hj
      by_cases h : j = i
      · subst h; exact e3
      · exact e4 j (hfix j (by omega))
    obtain ⟨ps2, f1, f2, f3⟩ := ih (i + 1) ps1 hr1 hinj1 (by omega) hfix1
    refine ⟨ps2, ?_, f2.trans e2, fun j hj => f3 j (by omega)⟩
    simp only [createLoop, e1, f1]

end Boom

namespace Boom
open Graph (G termKmer)
open Walk (Dir)

/-- a minimal perfect hash on `keys`: defined with a rank below their number, and injective (so the keys are distinct) -/
def MPH (th : Compress.Seq → Option Nat) (keys : List Compress.Seq) : Prop :=
  (∀ k ∈ keys, ∃ s, th k = some s ∧ s < keys.length) ∧ keys.Pairwise fun a b => th a ≠ th b

theorem create_spec (th : Compress.Seq → Option Nat) (keys : List Compress.Seq) (vals : List Nat) (hlen : keys.length = vals.length)
    (hm : MPH th keys) :
    ∃ b, Map.create th keys vals = some b ∧ b.tryHash = th ∧ b.Slotted ∧
      (b.keys.zip b.vals).Perm (keys.zip vals) ∧ b.keys.length = b.vals.length := by
  have hsz : (keys.zip vals).toArray.size = keys.length := by simp [hlen]
  have hr : Ranked th (keys.zip vals).toArray := by
    intro p hp
    rw [hsz]
    have : (p.1, p.2) ∈ keys.zip vals := by simpa using hp
    exact hm.1 p.1 (List.of_mem_zip this).1
  have hinj : Inj th (keys.zip vals).toArray := by
    have h1 : ((keys.zip vals).map Prod.fst).Pairwise fun a b => th a ≠ th b := by
      rw [List.map_fst_zip (by omega)]; exact hm.2
    have := List.pairwise_map.mp h1
    simpa [Inj] using this
  obtain ⟨ps', e1, e2, e3⟩ := createLoop_spec th (keys.zip vals).toArray.size 0 (keys.zip vals).toArray hr hinj (by omega)
    (fun j hj => by omega)
  have hsz' : ps'.size = keys.length := by
    have := (Array.perm_iff_toList_perm.mp e2).length_eq
    simp only [Array.length_toList] at this; rw [this]; simp [hlen]
  refine ⟨⟨th, ps'.toList.map (·.1), ps'.toList.map (·.2)⟩, ?_, rfl, ?_, ?_, by simp⟩
  · simp only [Map.create, e1, Option.map_some]
  · intro pos k hk
    simp only [List.getElem?_map, Option.map_eq_some_iff] at hk
    obtain ⟨p, hp, rfl⟩ := hk
    have hlt : pos < ps'.size := by
      rcases Nat.lt_or_ge pos ps'.size with h | h
      · exact h
      · rw [List.getElem?_eq_none (by simpa using h)] at hp; cases hp
    have h0 := e3 pos (by rw [hsz, ← hsz']; exact hlt)
    have := (ind_zero_iff th ps' pos hlt).mp h0
    have hpe : ps'[pos] = p := by
      have : ps'.toList[pos]? = some ps'[pos] := by simp [hlt]
      rw [this] at hp; exact Option.some.inj hp
    rw [← hpe]; exact this
  · have : (ps'.toList.map (·.1)).zip (ps'.toList.map (·.2)) = ps'.toList := by
      symm; exact List.zip_of_prod rfl rfl
    simp only [this]
    simpa using Array.perm_iff_toList_perm.mp e2

end Boom

namespace Boom
variable {V : Type}

theorem createTable_spec (th : Compress.Seq → Option Nat) (rows : List (Compress.Seq × V)) (hm : MPH th (rows.map (·.1))) :
    ∃ T, createTable th rows = some T ∧ T.Perm rows ∧ ∀ pos k, (T.map (·.1))[pos]? = some k → th k = some pos := by
  have hr : Ranked th rows.toArray := by
    intro p hp
    have hp' : p ∈ rows := by simpa using hp
    obtain ⟨s, h1, h2⟩ := hm.1 p.1 (List.mem_map_of_mem (f := (·.1)) hp')
    exact ⟨s, h1, by simpa using h2⟩
  have hinj : Inj th rows.toArray := by
    have := List.pairwise_map.mp hm.2
    simpa [Inj] using this
  obtain ⟨ps', e1, e2, e3⟩ := createLoop_spec th rows.toArray.size 0 rows.toArray hr hinj (by omega) (fun j hj => by omega)
  have hsz' : ps'.size = rows.length := by
    have := (Array.perm_iff_toList_perm.mp e2).length_eq
    simpa using this
  refine ⟨ps'.toList, ?_, by simpa using Array.perm_iff_toList_perm.mp e2, ?_⟩
  · have : rows.length = rows.toArray.size := by simp
    simp only [createTable, this, e1, Option.map_some]
  · intro pos k hk
    simp only [List.getElem?_map, Option.map_eq_some_iff] at hk
    obtain ⟨p, hp, rfl⟩ := hk
    have hlt : pos < ps'.size := by
      rcases Nat.lt_or_ge pos ps'.size with h | h
      · exact h
      · rw [List.getElem?_eq_none (by simpa using h)] at hp; cases hp
    have h0 := e3 pos (by simpa [hsz'] using hlt)
    have := (ind_zero_iff th ps' pos hlt).mp h0
    have hpe : ps'[pos] = p := by
      have : ps'.toList[pos]? = some ps'[pos] := by simp [hlt]
      rw [this] at hp; exact Option.some.inj hp
    rw [← hpe]; exact this

/-- `get_key_id` on slotted keys is the position of the key: exact for present and absent k-mers, whatever the hash
    function answers for the absent ones -/
theorem keyId_exact (th : Compress.Seq → Option Nat) (keys : List Compress.Seq)
    (hs : ∀ pos k, keys[pos]? = some k → th k = some pos) (hr : ∀ k pos, th k = some pos → pos < keys.length)
    (k : Compress.Seq) : keyIdOf th keys k = some (keys.findIdx? (· == k)) := by
  unfold keyIdOf
  cases h : th k with
  | none =>
    simp only
    congr 1
    symm
    rw [List.findIdx?_eq_none_iff]
    intro x hx
    obtain ⟨i, hi⟩ := List.getElem?_of_mem hx
    have := hs i x hi
    by_cases e : x = k
    · subst e; rw [h] at this; cases this
    · simpa using e
  | some pos =>
    have hp := hr k pos h
    have hk : keys[pos]? = some keys[pos] := List.getElem?_eq_getElem hp
    simp only [hk]
    by_cases e : k = keys[pos]
    · simp only [e, beq_self_eq_true, if_true]
      congr 1
      symm
      rw [List.findIdx?_eq_some_iff_getElem]
      refine ⟨hp, by simp [← e], ?_⟩
      intro j hj
      simp only [beq_iff_eq]
      intro ej
      have hjl : j < keys.length := by omega
      have := hs j keys[j] (List.getElem?_eq_getElem hjl)
      rw [ej, ← e, h] at this
      have := Option.some.inj this
      omega
    · have e' : (k == keys[pos]) = false := by simpa using e
      simp only [e', Bool.false_eq_true, if_false]
      congr 1
      symm
      rw [List.findIdx?_eq_none_iff]
      intro x hx
      obtain ⟨i, hi⟩ := List.getElem?_of_mem hx
      have h1 := hs i x hi
      by_cases ex : x = k
      · subst ex
        rw [h] at h1
        have : pos = i := Option.some.inj h1
        subst this
        rw [hk] at hi
        exact absurd (Option.some.inj hi).symm e
      · simpa using ex

end Boom
