import Dbg.Spec.C03
/-! `find_link` / `search_kmer` of a finished graph are sound and complete; link lookups do not read extensions. -/
namespace Graph
open Compress (Seq Base Exts rc extend Node)
open Walk (Dir)
variable {D : Type}

theorem searchKmer_sound (g : G D) (km : Seq) (side : Dir) (i : Nat) (h : searchKmer g km side = some i) :
    ∃ nd, g.nodes[i]? = some nd ∧ termKmer g.K nd.seq side = km := by
  unfold searchKmer at h
  rw [List.findIdx?_eq_some_iff_getElem] at h
  obtain ⟨hi, hp, _⟩ := h
  exact ⟨g.nodes[i], by simp [hi], by simpa using hp⟩

/-- a k-mer is found as a node end exactly when some node starts (left map) / ends (right map) with it -/
theorem searchKmer_complete (g : G D) (km : Seq) (side : Dir) :
    (searchKmer g km side).isSome ↔ ∃ nd ∈ g.nodes, termKmer g.K nd.seq side = km := by
  unfold searchKmer
  constructor
  · intro h
    obtain ⟨i, hi⟩ := Option.isSome_iff_exists.mp h
    rw [List.findIdx?_eq_some_iff_getElem] at hi
    obtain ⟨hlt, hp, _⟩ := hi
    exact ⟨g.nodes[i], List.getElem_mem hlt, by simpa using hp⟩
  · rintro ⟨nd, hm, he⟩
    cases hf : List.findIdx? (fun nd => termKmer g.K nd.seq side == km) g.nodes with
    | some _ => rfl
    | none =>
      rw [List.findIdx?_eq_none_iff] at hf
      have := hf nd hm
      simp [he] at this

/-- **`find_link` is sound.** -/
theorem findLink_sound (g : G D) (km : Seq) (d : Dir) (v : Nat) (s : Dir) (f : Bool)
    (h : findLink g km d = some (v, s, f)) :
    ∃ nd, g.nodes[v]? = some nd ∧ termKmer g.K nd.seq s = (if f then rc km else km) ∧
      (f = false → s = d.flip) ∧ (f = true → s = d ∧ g.stranded = false) := by
  unfold findLink at h
  cases d with
  | L =>
    simp only at h
    cases h1 : searchKmer g km .R with
    | some idx =>
      simp only [h1, Option.some.injEq, Prod.mk.injEq] at h
      obtain ⟨rfl, rfl, rfl⟩ := h
      obtain ⟨nd, e1, e2⟩ := searchKmer_sound g km .R _ h1
      exact ⟨nd, e1, by simpa using e2, by simp [Dir.flip], by simp⟩
    | none =>
      simp only [h1] at h
      by_cases hs : g.stranded = true
      · simp [hs] at h
      · have hs' : g.stranded = false := by cases hh : g.stranded <;> simp_all
        simp only [hs', Bool.not_false, if_true] at h
        cases h2 : searchKmer g (rc km) .L with
        | some idx =>
          simp only [h2, Option.some.injEq, Prod.mk.injEq] at h
          obtain ⟨rfl, rfl, rfl⟩ := h
          obtain ⟨nd, e1, e2⟩ := searchKmer_sound g (rc km) .L _ h2
          exact ⟨nd, e1, by simpa using e2, by simp, by simp [hs']⟩
        | none => simp [h2] at h
  | R =>
    simp only at h
    cases h1 : searchKmer g km .L with
    | some idx =>
      simp only [h1, Option.some.injEq, Prod.mk.injEq] at h
      obtain ⟨rfl, rfl, rfl⟩ := h
      obtain ⟨nd, e1, e2⟩ := searchKmer_sound g km .L _ h1
      exact ⟨nd, e1, by simpa using e2, by simp [Dir.flip], by simp⟩
    | none =>
      simp only [h1] at h
      by_cases hs : g.stranded = true
      · simp [hs] at h
      · have hs' : g.stranded = false := by cases hh : g.stranded <;> simp_all
        simp only [hs', Bool.not_false, if_true] at h
        cases h2 : searchKmer g (rc km) .R with
        | some idx =>
          simp only [h2, Option.some.injEq, Prod.mk.injEq] at h
          obtain ⟨rfl, rfl, rfl⟩ := h
          obtain ⟨nd, e1, e2⟩ := searchKmer_sound g (rc km) .R _ h2
          exact ⟨nd, e1, by simpa using e2, by simp, by simp [hs']⟩
        | none => simp [h2] at h

/-- link lookups do not read extensions: replacing every node's extension byte leaves `find_link` unchanged
    (so the in-place, sequential update of `fix_exts` is harmless) -/
theorem findLink_exts_irrelevant (g : G D) (f : Node D → Exts) (km : Seq) (d : Dir) :
    findLink { g with nodes := g.nodes.map fun n => { n with exts := f n } } km d = findLink g km d := by
  have hs : ∀ side k, searchKmer { g with nodes := g.nodes.map fun n => { n with exts := f n } } k side = searchKmer g k side := by
    intro side k
    simp [searchKmer, List.findIdx?_map, Function.comp_def]
  unfold findLink
  simp only [hs]

end Graph
