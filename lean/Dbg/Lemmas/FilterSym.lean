import Dbg.Lemmas.FilterProofs
import Dbg.Lemmas.SymProof
/-! Tables delivered by `filter_kmers` from reads (with empty boundary extensions) are well-formed and
    record reciprocal extensions — the hypotheses `WF`, `ExtSym` of the compression theorems. -/
namespace Filter
open Compress (Seq Base Exts rc minRcFlip Entry Table extend extendLeft extendRight comp canonSt isPalindrome condFlip
  nibHas headB lastB recip findId)
open Walk (Dir)

/-! ### extension bits as propositions -/

def bitIdx : Dir → Base → Nat
  | .L, b => b.val
  | .R, b => b.val + 4

/-- the set `e` records base `b` on side `d` -/
def has (e : Exts) (d : Dir) (b : Base) : Prop := nibHas (e.dirBits d) b = true

theorem and_two_pow_ne (n i : Nat) : (n &&& 2 ^ i != 0) = n.testBit i := by
  have h : n &&& 2 ^ i = if n.testBit i then 2 ^ i else 0 := by
    apply Nat.eq_of_testBit_eq
    intro j
    rw [Nat.testBit_and, Nat.testBit_two_pow]
    by_cases hij : i = j
    · subst hij
      cases hb : n.testBit i <;> simp [Nat.testBit_two_pow_self]
    · cases hb : n.testBit i <;> simp [hij, Nat.testBit_two_pow_of_ne hij]
  rw [h]
  cases hb : n.testBit i
  · simp
  · have : 2 ^ i ≠ 0 := Nat.ne_of_gt (Nat.pow_pos (by decide))
    simp [this]

theorem has_iff (e : Exts) (d : Dir) (b : Base) : has e d b ↔ e.val.testBit (bitIdx d b) = true := by
  unfold has nibHas
  rw [Nat.one_shiftLeft, and_two_pow_ne]
  cases d with
  | L =>
    show (e.val &&& 0xf).testBit b.val = true ↔ _
    rw [Nat.testBit_and, show (0xf : Nat) = 2 ^ 4 - 1 from rfl, Nat.testBit_two_pow_sub_one]
    have := b.isLt
    simp [bitIdx, this]
  | R =>
    show (e.val >>> 4).testBit b.val = true ↔ _
    rw [Nat.testBit_shiftRight]
    simp [bitIdx, Nat.add_comm]

theorem has_or (x y : Nat) (d : Dir) (b : Base) : has ⟨x ||| y⟩ d b ↔ has ⟨x⟩ d b ∨ has ⟨y⟩ d b := by
  simp only [has_iff, Nat.testBit_or, Bool.or_eq_true]

theorem has_zero (d : Dir) (b : Base) : ¬ has ⟨0⟩ d b := by
  rw [has_iff]; simp

/-- the union over the observations of a k-mer -/
theorem has_fold (obs : List (Exts × Nat)) (init : Nat) (d : Dir) (b : Base) :
    has ⟨obs.foldl (fun a o => a ||| o.1.val) init⟩ d b ↔ has ⟨init⟩ d b ∨ ∃ o ∈ obs, has o.1 d b := by
  induction obs generalizing init with
  | nil => simp
  | cons o t ih =>
    rw [List.foldl_cons, ih, has_or]
    constructor
    · rintro ((h | h) | ⟨o', ho', h⟩)
      · exact Or.inl h
      · exact Or.inr ⟨o, by simp, h⟩
      · exact Or.inr ⟨o', by simp [ho'], h⟩
    · rintro (h | ⟨o', ho', h⟩)
      · exact Or.inl (Or.inl h)
      · rcases List.mem_cons.mp ho' with rfl | ht
        · exact Or.inl (Or.inr h)
        · exact Or.inr ⟨o', ht, h⟩

/-- `Exts::rc` swaps the sides and complements the bases (all 256 sets) -/
theorem has_rc_table : ∀ v : Fin 256, ∀ b : Base,
    (nibHas ((⟨v.val⟩ : Exts).rc.dirBits .L) b = nibHas ((⟨v.val⟩ : Exts).dirBits .R) (comp b)) ∧
    (nibHas ((⟨v.val⟩ : Exts).rc.dirBits .R) b = nibHas ((⟨v.val⟩ : Exts).dirBits .L) (comp b)) ∧
    (⟨v.val⟩ : Exts).rc.val < 256 := by decide +kernel

theorem has_rc (e : Exts) (he : e.val < 256) (d : Dir) (b : Base) : has e.rc d b ↔ has e d.flip (comp b) := by
  obtain ⟨h1, h2, _⟩ := has_rc_table ⟨e.val, he⟩ b
  unfold has
  cases d with
  | L => show nibHas (e.rc.dirBits .L) b = true ↔ nibHas (e.dirBits .R) (comp b) = true; rw [h1]
  | R => show nibHas (e.rc.dirBits .R) b = true ↔ nibHas (e.dirBits .L) (comp b) = true; rw [h2]

theorem rc_lt (e : Exts) (he : e.val < 256) : e.rc.val < 256 := (has_rc_table ⟨e.val, he⟩ 0).2.2

/-- the extension byte made from an optional left and an optional right neighbour -/
def mkE (lo ro : Option Base) : Exts :=
  Exts.merge ⟨match lo with | some b => 1 <<< b.val | none => 0⟩ ⟨match ro with | some b => 1 <<< (b.val + 4) | none => 0⟩

theorem mkE_table (lo ro : Option Base) (b : Base) :
    (nibHas ((mkE lo ro).dirBits .L) b = decide (lo = some b)) ∧ (nibHas ((mkE lo ro).dirBits .R) b = decide (ro = some b)) ∧
    (mkE lo ro).val < 256 := by
  cases lo with
  | none =>
    cases ro with
    | none => revert b; decide
    | some r => revert b r; decide
  | some l =>
    cases ro with
    | none => revert b l; decide
    | some r => revert b l r; decide

theorem has_mkE (lo ro : Option Base) (d : Dir) (b : Base) :
    has (mkE lo ro) d b ↔ (match d with | .L => lo | .R => ro) = some b := by
  obtain ⟨h1, h2, _⟩ := mkE_table lo ro b
  unfold has
  cases d with
  | L => rw [h1]; simp
  | R => rw [h2]; simp

/-! ### the (k-mer, extensions) stream of a read with empty boundary extensions -/

/-- bases `i .. i+K` -/
def win (s : Seq) (K i : Nat) : Seq := (s.drop i).take K

/-- the neighbours of the k-mer at position `i` inside the read -/
def rawE (s : Seq) (K i : Nat) : Exts := mkE (if i = 0 then none else s[i - 1]?) s[i + K]?

theorem kmerExtsOf_zero (K : Nat) (s : Seq) (hK : 1 ≤ K) :
    kmerExtsOf K s ⟨0⟩ = if s.length < K then [] else (List.range (s.length - K + 1)).map fun i => (win s K i, rawE s K i) := by
  unfold kmerExtsOf
  split
  · rfl
  · rename_i hlen
    apply List.map_congr_left
    intro i hi
    rw [List.mem_range] at hi
    simp only
    congr 1
    · rw [Array.toList_extract, List.extract_eq_take_drop]
      simp only [List.toList_toArray, win]
      congr 1; omega
    · unfold rawE mkE
      congr 1
      · by_cases h0 : i = 0
        · simp [h0, Exts.merge]
        · simp only [h0, if_false, List.getElem?_toArray]
          cases s[i - 1]? <;> rfl
      · by_cases hl : i + 1 = s.length - K + 1
        · have : s[i + K]? = none := List.getElem?_eq_none (by omega)
          simp [hl, this]
        · simp only [hl, if_false, List.getElem?_toArray]
          cases s[i + K]? <;> rfl

theorem has_rawE (s : Seq) (K i : Nat) (d : Dir) (b : Base) :
    has (rawE s K i) d b ↔ (match d with | .L => 0 < i ∧ s[i - 1]? = some b | .R => s[i + K]? = some b) := by
  unfold rawE
  rw [has_mkE]
  cases d with
  | R => rfl
  | L =>
    simp only
    by_cases h0 : i = 0
    · simp [h0]
    · simp [h0]; omega

theorem rawE_lt (s : Seq) (K i : Nat) : (rawE s K i).val < 256 := (mkE_table _ _ 0).2.2

end Filter

namespace Filter
open Compress (Seq Base Exts rc minRcFlip Entry Table extend extendLeft extendRight comp canonSt isPalindrome condFlip
  nibHas headB lastB recip findId)
open Walk (Dir)

/-! ### windows of a read -/

theorem win_length (s : Seq) (K i : Nat) (h : i + K ≤ s.length) : (win s K i).length = K := by
  unfold win; rw [List.length_take, List.length_drop]; omega

theorem win_getElem? (s : Seq) (K i j : Nat) (hj : j < K) : (win s K i)[j]? = s[i + j]? := by
  unfold win; rw [List.getElem?_take_of_lt hj, List.getElem?_drop]

theorem win_succ (s : Seq) (K i : Nat) (hK : 1 ≤ K) (b : Base) (h : s[i + K]? = some b) :
    win s K (i + 1) = extendRight (win s K i) b := by
  have hlt : i + K < s.length := by
    cases hh : decide (i + K < s.length) with
    | true => simpa using hh
    | false => rw [List.getElem?_eq_none (by simpa using hh)] at h; cases h
  apply List.ext_getElem?
  intro j
  unfold extendRight
  by_cases hj : j < K - 1
  · rw [win_getElem? s K (i + 1) j (by omega), List.getElem?_append_left (by rw [List.length_tail, win_length s K i (by omega)]; omega),
      List.getElem?_tail, win_getElem? s K i (j + 1) (by omega)]
    congr 1; omega
  · by_cases hj2 : j = K - 1
    · subst hj2
      rw [win_getElem? s K (i + 1) _ (by omega), List.getElem?_append_right (by rw [List.length_tail, win_length s K i (by omega)]; omega),
        List.length_tail, win_length s K i (by omega), Nat.sub_self, List.getElem?_cons_zero, ← h]
      congr 1; omega
    · rw [List.getElem?_eq_none (by rw [win_length s K (i + 1) (by omega)]; omega),
        List.getElem?_eq_none (by rw [List.length_append, List.length_tail, win_length s K i (by omega)]; simp; omega)]

theorem win_pred (s : Seq) (K i : Nat) (hK : 1 ≤ K) (hi : 0 < i) (hlen : i + K ≤ s.length) (b : Base) (h : s[i - 1]? = some b) :
    win s K (i - 1) = extendLeft (win s K i) b := by
  apply List.ext_getElem?
  intro j
  unfold extendLeft
  cases j with
  | zero =>
    rw [win_getElem? s K (i - 1) 0 (by omega), List.getElem?_cons_zero, ← h]; rfl
  | succ j =>
    rw [List.getElem?_cons_succ]
    by_cases hj : j + 1 < K
    · rw [win_getElem? s K (i - 1) (j + 1) hj, List.getElem?_dropLast, win_length s K i hlen, if_pos (by omega),
        win_getElem? s K i j (by omega)]
      congr 1; omega
    · rw [List.getElem?_eq_none (by rw [win_length s K (i - 1) (by omega)]; omega),
        List.getElem?_eq_none (by rw [List.length_dropLast, win_length s K i hlen]; omega)]

theorem headB_win (s : Seq) (K i : Nat) (hK : 1 ≤ K) (hlen : i + K ≤ s.length) : s[i]? = some (headB (win s K i)) := by
  unfold headB
  have h0 := win_getElem? s K i 0 (by omega)
  have hl := win_length s K i hlen
  cases hw : win s K i with
  | nil => rw [hw] at hl; simp at hl; omega
  | cons a t => rw [hw] at h0; simpa using h0.symm

theorem lastB_win (s : Seq) (K i : Nat) (hK : 1 ≤ K) (hlen : i + K ≤ s.length) : s[i + K - 1]? = some (lastB (win s K i)) := by
  have hl := win_length s K i hlen
  have hne : win s K i ≠ [] := by intro e; rw [e] at hl; simp at hl; omega
  have h1 := Compress.lastB_eq (win s K i) hne
  rw [List.getLast?_eq_getElem?, hl, win_getElem? s K i (K - 1) (by omega)] at h1
  rw [← h1]; congr 1; omega

/-! ### occurrences -/

/-- `u` (as spelled, or — unstranded — as the reverse complement of what is spelled) occurs in a read with
    base `b` next to it on side `d` -/
def Occ (K : Nat) (reads : List (Seq × Exts × Nat)) (st : Bool) (u : Seq) (d : Dir) (b : Base) : Prop :=
  ∃ r ∈ reads, ∃ i, i + K ≤ r.1.length ∧
    ((u = win r.1 K i ∧ has (rawE r.1 K i) d b) ∨ (st = false ∧ u = rc (win r.1 K i) ∧ has (rawE r.1 K i) d.flip (comp b)))

/-- the base that leads back from the neighbour on side `d` -/
def back (u : Seq) : Dir → Base
  | .R => headB u
  | .L => lastB u

theorem comp_comp (b : Base) : comp (comp b) = b := by
  apply Fin.ext; simp [comp]; omega

theorem headB_rc (x : Seq) (hx : x ≠ []) : headB (rc x) = comp (lastB x) := by
  have h1 := Compress.rc_head? x
  rw [Compress.lastB_eq x hx] at h1
  have h2 := Compress.headB_eq (rc x) (Compress.rc_ne_nil hx)
  rw [h1] at h2
  simpa using h2.symm

theorem lastB_rc (x : Seq) (hx : x ≠ []) : lastB (rc x) = comp (headB x) := by
  have h1 := Compress.rc_getLast? x
  rw [Compress.headB_eq x hx] at h1
  have h2 := Compress.lastB_eq (rc x) (Compress.rc_ne_nil hx)
  rw [h1] at h2
  simpa using h2.symm

/-- **an occurrence with a neighbour is an occurrence of the neighbour** looking back -/
theorem occ_step (K : Nat) (hK : 1 ≤ K) (reads : List (Seq × Exts × Nat)) (st : Bool) (u : Seq) (d : Dir) (b : Base)
    (h : Occ K reads st u d b) : Occ K reads st (extend u b d) d.flip (back u d) := by
  obtain ⟨r, hr, i, hlen, hcase⟩ := h
  have hne : win r.1 K i ≠ [] := by
    intro e; have := win_length r.1 K i hlen; rw [e] at this; simp at this; omega
  rcases hcase with ⟨hu, hh⟩ | ⟨hst, hu, hh⟩
  · subst hu
    cases d with
    | R =>
      rw [has_rawE] at hh
      replace hh : r.1[i + K]? = some b := hh
      have hlt : i + K < r.1.length := by
        cases hd : decide (i + K < r.1.length) with
        | true => simpa using hd
        | false => rw [List.getElem?_eq_none (by simpa using hd)] at hh; cases hh
      refine ⟨r, hr, i + 1, by omega, Or.inl ⟨(win_succ r.1 K i hK b hh).symm, ?_⟩⟩
      rw [has_rawE]
      show 0 < i + 1 ∧ r.1[i + 1 - 1]? = some (headB (win r.1 K i))
      exact ⟨by omega, by simpa using headB_win r.1 K i hK hlen⟩
    | L =>
      rw [has_rawE] at hh
      replace hh : 0 < i ∧ r.1[i - 1]? = some b := hh
      refine ⟨r, hr, i - 1, by omega, Or.inl ⟨(win_pred r.1 K i hK hh.1 hlen b hh.2).symm, ?_⟩⟩
      rw [has_rawE]
      show r.1[i - 1 + K]? = some (lastB (win r.1 K i))
      rw [← lastB_win r.1 K i hK hlen]; congr 1; omega
  · subst hu
    cases d with
    | R =>
      -- reading the other strand: the neighbour is on the left of the spelled k-mer
      rw [has_rawE] at hh
      replace hh : 0 < i ∧ r.1[i - 1]? = some (comp b) := hh
      refine ⟨r, hr, i - 1, by omega, Or.inr ⟨hst, ?_, ?_⟩⟩
      · rw [win_pred r.1 K i hK hh.1 hlen (comp b) hh.2]
        show extendRight (rc (win r.1 K i)) b = rc (extendLeft (win r.1 K i) (comp b))
        rw [Compress.rc_extendLeft, comp_comp]
      · rw [has_rawE]
        show r.1[i - 1 + K]? = some (comp (headB (rc (win r.1 K i))))
        rw [headB_rc _ hne, comp_comp, ← lastB_win r.1 K i hK hlen]; congr 1; omega
    | L =>
      rw [has_rawE] at hh
      replace hh : r.1[i + K]? = some (comp b) := hh
      have hlt : i + K < r.1.length := by
        cases hd : decide (i + K < r.1.length) with
        | true => simpa using hd
        | false => rw [List.getElem?_eq_none (by simpa using hd)] at hh; cases hh
      refine ⟨r, hr, i + 1, by omega, Or.inr ⟨hst, ?_, ?_⟩⟩
      · rw [win_succ r.1 K i hK (comp b) hh]
        show extendLeft (rc (win r.1 K i)) b = rc (extendRight (win r.1 K i) (comp b))
        rw [Compress.rc_extendRight, comp_comp]
      · rw [has_rawE]
        show 0 < i + 1 ∧ r.1[i + 1 - 1]? = some (comp (lastB (rc (win r.1 K i))))
        rw [lastB_rc _ hne, comp_comp]
        exact ⟨by omega, by simpa using headB_win r.1 K i hK hlen⟩

end Filter

namespace Filter
open Compress (Seq Base Exts rc minRcFlip Entry Table extend extendLeft extendRight comp canonSt isPalindrome condFlip
  nibHas headB lastB recip findId)
open Walk (Dir)

/-- reads carry no boundary extensions (`Exts::empty()`, the way the crate's own pipelines call the filter) -/
def NoBoundary (reads : List (Seq × Exts × Nat)) : Prop := ∀ r ∈ reads, r.2.1 = ⟨0⟩

/-- the canonical observation made from the k-mer at one position of a read -/
def canonObs (st : Bool) (km : Seq) (E : Exts) (lab : Nat) : Seq × Exts × Nat :=
  if st then (km, E, lab) else if km < rc km then (km, E, lab) else (rc km, E.rc, lab)

theorem mem_observations (K : Nat) (hK : 1 ≤ K) (reads : List (Seq × Exts × Nat)) (hb : NoBoundary reads) (st : Bool)
    (o : Seq × Exts × Nat) :
    o ∈ observations K reads st ↔ ∃ r ∈ reads, ∃ i, i + K ≤ r.1.length ∧ o = canonObs st (win r.1 K i) (rawE r.1 K i) r.2.2 := by
  unfold observations
  rw [List.mem_flatMap]
  constructor
  · rintro ⟨r, hr, ho⟩
    rw [hb r hr, kmerExtsOf_zero K r.1 hK] at ho
    by_cases hl : r.1.length < K
    · rw [if_pos hl] at ho; simp at ho
    · rw [if_neg hl, List.map_map, List.mem_map] at ho
      obtain ⟨i, hi, e⟩ := ho
      rw [List.mem_range] at hi
      exact ⟨r, hr, i, by omega, e.symm⟩
  · rintro ⟨r, hr, i, hi, e⟩
    refine ⟨r, hr, ?_⟩
    rw [hb r hr, kmerExtsOf_zero K r.1 hK, if_neg (by omega), List.map_map, List.mem_map]
    exact ⟨i, by rw [List.mem_range]; omega, e.symm⟩

/-- the extension set of a table entry is the union over exactly the observations of its key -/
theorem entry_facts (K : Nat) (reads : List (Seq × Exts × Nat)) (sm : Summarizer) (st : Bool) (e : Entry Payload)
    (he : e ∈ refTable K reads sm st) :
    e.key ∈ distinctKeys (observations K reads st) ∧
    ∀ d b, has e.exts d b ↔ ∃ o ∈ observations K reads st, o.1 = e.key ∧ has o.2.1 d b := by
  unfold refTable at he
  rw [List.mem_filterMap] at he
  obtain ⟨⟨k, obs⟩, hg, hf⟩ := he
  unfold refGroups at hg
  rw [List.mem_map] at hg
  obtain ⟨k', hk', e'⟩ := hg
  simp only [Prod.mk.injEq] at e'
  obtain ⟨rfl, hobs⟩ := e'
  have hsum : ∀ (sm : Summarizer) (obs : List (Exts × Nat)), (summarize sm obs).2.1 = ⟨obs.foldl (fun a o => a ||| o.1.val) 0⟩ := by
    intro sm obs; cases sm <;> rfl
  simp only at hf
  split at hf
  · rename_i hv
    cases hf
    refine ⟨hk', fun d b => ?_⟩
    show has (summarize sm obs).2.1 d b ↔ _
    rw [hsum, has_fold]
    constructor
    · rintro (h | ⟨o, ho, h⟩)
      · exact absurd h (has_zero d b)
      · rw [← hobs, List.mem_map] at ho
        obtain ⟨o', ho', rfl⟩ := ho
        rw [List.mem_filter] at ho'
        exact ⟨o', ho'.1, by simpa using ho'.2, h⟩
    · rintro ⟨o, ho, hk, h⟩
      refine Or.inr ⟨(o.2.1, o.2.2), ?_, h⟩
      rw [← hobs, List.mem_map]
      exact ⟨o, by rw [List.mem_filter]; exact ⟨ho, by simp [hk]⟩, rfl⟩
  · cases hf

theorem canonObs_lt (st : Bool) (km : Seq) (E : Exts) (lab : Nat) (hE : E.val < 256) : (canonObs st km E lab).2.1.val < 256 := by
  unfold canonObs
  split
  · exact hE
  · split
    · exact hE
    · exact rc_lt E hE

/-- **table ⇒ occurrence** -/
theorem table_occ (K : Nat) (hK : 1 ≤ K) (reads : List (Seq × Exts × Nat)) (hb : NoBoundary reads) (sm : Summarizer) (st : Bool)
    (e : Entry Payload) (he : e ∈ refTable K reads sm st) (d : Dir) (b : Base) (h : has e.exts d b) :
    Occ K reads st e.key d b := by
  obtain ⟨o, ho, hk, hh⟩ := ((entry_facts K reads sm st e he).2 d b).mp h
  obtain ⟨r, hr, i, hi, rfl⟩ := (mem_observations K hK reads hb st o).mp ho
  refine ⟨r, hr, i, hi, ?_⟩
  unfold canonObs at hk hh
  cases st with
  | true => simp only [if_true] at hk hh; exact Or.inl ⟨hk.symm, hh⟩
  | false =>
    simp only [Bool.false_eq_true, if_false] at hk hh
    by_cases hlt : win r.1 K i < rc (win r.1 K i)
    · simp only [hlt, if_true] at hk hh; exact Or.inl ⟨hk.symm, hh⟩
    · simp only [hlt, if_false] at hk hh
      exact Or.inr ⟨rfl, hk.symm, (has_rc _ (rawE_lt _ _ _) d b).mp hh⟩

/-- **occurrence ⇒ table**: if the canonical form of an occurring k-mer is in the table (and is not a
    palindrome), its entry records the neighbour, on the side and with the base as seen from the canonical strand -/
theorem occ_table (K : Nat) (hK : 1 ≤ K) (reads : List (Seq × Exts × Nat)) (hb : NoBoundary reads) (sm : Summarizer) (st : Bool)
    (u : Seq) (d : Dir) (b : Base) (h : Occ K reads st u d b)
    (ey : Entry Payload) (hey : ey ∈ refTable K reads sm st) (f : Bool) (hc : canonSt st u = (ey.key, f))
    (hp : (!st && isPalindrome ey.key) = false) :
    has ey.exts (condFlip d f) (if f then comp b else b) := by
  obtain ⟨r, hr, i, hi, hcase⟩ := h
  rw [(entry_facts K reads sm st ey hey).2]
  have hmem : canonObs st (win r.1 K i) (rawE r.1 K i) r.2.2 ∈ observations K reads st :=
    (mem_observations K hK reads hb st _).mpr ⟨r, hr, i, hi, rfl⟩
  refine ⟨_, hmem, ?_⟩
  generalize hw : win r.1 K i = w at *
  generalize hE : rawE r.1 K i = E at *
  have hE8 : E.val < 256 := by rw [← hE]; exact rawE_lt _ _ _
  cases st with
  | true =>
    simp only [canonSt, if_true, Prod.mk.injEq] at hc
    obtain ⟨hk, hf⟩ := hc
    subst hf
    rcases hcase with ⟨hu, hh⟩ | ⟨hst, _, _⟩
    · subst hu
      simp only [canonObs, if_true, condFlip, Bool.false_eq_true, if_false]
      exact ⟨hk, hh⟩
    · cases hst
  | false =>
    simp only [canonSt, Bool.false_eq_true, if_false] at hc
    simp only [Bool.not_false, Bool.true_and] at hp
    have hne : rc ey.key ≠ ey.key := Compress.notPal_ne hp
    unfold minRcFlip at hc
    simp only [canonObs, Bool.false_eq_true, if_false]
    rcases hcase with ⟨hu, hh⟩ | ⟨_, hu, hh⟩
    · subst hu
      by_cases hlt : u < rc u
      · simp only [hlt, if_true, Prod.mk.injEq] at hc ⊢
        obtain ⟨hk, hf⟩ := hc; subst hf
        simp only [condFlip, Bool.false_eq_true, if_false]
        exact ⟨hk, hh⟩
      · simp only [hlt, if_false, Prod.mk.injEq] at hc ⊢
        obtain ⟨hk, hf⟩ := hc; subst hf
        simp only [condFlip, if_true]
        refine ⟨hk, ?_⟩
        rw [has_rc E hE8, Dir.flip_flip, comp_comp]; exact hh
    · -- `u` is the reverse complement of the spelled k-mer `w`
      subst hu
      rw [Compress.rc_rc] at hc
      by_cases hlt : rc w < w
      · simp only [hlt, if_true, Prod.mk.injEq] at hc
        obtain ⟨hk, hf⟩ := hc; subst hf
        have hnlt : ¬ w < rc w := fun h' => seq_lt_irrefl _ (seq_lt_trans hlt h')
        simp only [hnlt, if_false, condFlip, Bool.false_eq_true]
        exact ⟨hk, (has_rc E hE8 d b).mpr hh⟩
      · simp only [hlt, if_false, Prod.mk.injEq] at hc
        obtain ⟨hk, hf⟩ := hc; subst hf
        -- the spelled k-mer is the canonical one (it cannot equal its reverse complement: not a palindrome)
        have hlt' : w < rc w := by
          rcases seq_tri w (rc w) with h' | h' | h'
          · exact h'
          · exact absurd (by rw [← hk, ← h']) hne
          · exact absurd h' hlt
        simp only [hlt', if_true, condFlip]
        exact ⟨hk, hh⟩

end Filter

namespace Filter
open Compress (Seq Base Exts rc minRcFlip Entry Table extend extendLeft extendRight comp canonSt isPalindrome condFlip
  nibHas headB lastB recip findId WF ExtSym)
open Walk (Dir)

theorem recip_eq (x : Seq) (d : Dir) (f : Bool) : recip x d f = if f then comp (back x d) else back x d := by
  unfold recip back; cases d <;> rfl

/-- **reciprocity**: the table `filter_kmers` builds from reads records reciprocal extensions -/
theorem refTable_extSym (K : Nat) (hK : 1 ≤ K) (reads : List (Seq × Exts × Nat)) (hb : NoBoundary reads) (sm : Summarizer) (st : Bool) :
    ExtSym (refTable K reads sm st) st := by
  intro x ex d b y ey hx hbit hy hy' _ hpy
  have hex : ex ∈ refTable K reads sm st := List.mem_of_getElem? hx
  have hey : ey ∈ refTable K reads sm st := List.mem_of_getElem? hy'
  obtain ⟨ey', hy'', hkey⟩ := Compress.findId_some hy
  rw [hy'] at hy''; cases hy''
  have hocc := table_occ K hK reads hb sm st ex hex d b hbit
  have hstep := occ_step K hK reads st ex.key d b hocc
  have := occ_table K hK reads hb sm st (extend ex.key b d) d.flip (back ex.key d) hstep ey hey
    (canonSt st (extend ex.key b d)).2 (by rw [hkey]) hpy
  rw [recip_eq]
  exact this

theorem kmerKey_length (K : Nat) (hK : 1 ≤ K) (reads : List (Seq × Exts × Nat)) (hb : NoBoundary reads) (st : Bool)
    (o : Seq × Exts × Nat) (ho : o ∈ observations K reads st) : o.1.length = K ∧ (st = false → ¬ rc o.1 < o.1) ∧ o.2.1.val < 256 := by
  obtain ⟨r, hr, i, hi, rfl⟩ := (mem_observations K hK reads hb st o).mp ho
  have hl := win_length r.1 K i hi
  refine ⟨?_, ?_, canonObs_lt st _ _ _ (rawE_lt _ _ _)⟩
  · unfold canonObs
    split
    · exact hl
    · split
      · exact hl
      · show (rc _).length = K; rw [Compress.rc_length]; exact hl
  · intro hst
    subst hst
    unfold canonObs
    simp only [Bool.false_eq_true, if_false]
    by_cases hlt : win r.1 K i < rc (win r.1 K i)
    · simp only [hlt, if_true]
      exact fun h' => seq_lt_irrefl _ (seq_lt_trans hlt h')
    · simp only [hlt, if_false]
      rw [Compress.rc_rc]; exact hlt

theorem filterMap_keys_sublist {α : Type} (l : List (Seq × α)) (f : Seq × α → Option (Entry Payload))
    (hf : ∀ p e, f p = some e → e.key = p.1) : ((l.filterMap f).map (·.key)).Sublist (l.map (·.1)) := by
  induction l with
  | nil => exact List.Sublist.slnil
  | cons p t ih =>
    rw [List.filterMap_cons]
    cases hp : f p with
    | none => simp only [List.map_cons]; exact List.Sublist.cons _ ih
    | some e =>
      simp only [List.map_cons]
      rw [hf p e hp]
      exact List.Sublist.cons₂ _ ih

theorem fold_or_lt (obs : List (Exts × Nat)) (init : Nat) (hi : init < 2 ^ 8) (h : ∀ o ∈ obs, o.1.val < 2 ^ 8) :
    obs.foldl (fun a o => a ||| o.1.val) init < 2 ^ 8 := by
  induction obs generalizing init with
  | nil => exact hi
  | cons o t ih =>
    rw [List.foldl_cons]
    exact ih _ (Nat.or_lt_two_pow hi (h o (by simp))) (fun x hx => h x (by simp [hx]))

/-- **well-formedness** of the table built from reads -/
theorem refTable_wf (K : Nat) (hK : 1 ≤ K) (reads : List (Seq × Exts × Nat)) (hb : NoBoundary reads) (sm : Summarizer) (st : Bool) :
    WF (refTable K reads sm st) K st := by
  have hspec := distinctKeys_spec (observations K reads st)
  have hobs : ∀ e ∈ refTable K reads sm st, ∃ o ∈ observations K reads st, o.1 = e.key :=
    fun e he => (hspec.2 e.key).mp (entry_facts K reads sm st e he).1
  -- keys strictly ascending
  have hasc : ((refTable K reads sm st).map (·.key)).Pairwise (· < ·) := by
    have hsub : ((refTable K reads sm st).map (·.key)).Sublist ((refGroups K reads st).map (·.1)) := by
      unfold refTable
      apply filterMap_keys_sublist
      intro p e hpe
      simp only at hpe
      split at hpe
      · cases hpe; rfl
      · cases hpe
    have : (refGroups K reads st).map (·.1) = distinctKeys (observations K reads st) := by
      unfold refGroups; simp [List.map_map, Function.comp_def]
    rw [this] at hsub
    exact List.Pairwise.sublist hsub hspec.1
  refine ⟨hK, ?_, ?_, ?_, ?_⟩
  · intro x e hx
    obtain ⟨o, ho, hk⟩ := hobs e (List.mem_of_getElem? hx)
    rw [← hk]; exact (kmerKey_length K hK reads hb st o ho).1
  · intro x y ex ey hx hy hk
    rw [List.pairwise_iff_getElem] at hasc
    have hxl : x < (refTable K reads sm st).length := by
      cases hd : decide (x < (refTable K reads sm st).length) with
      | true => simpa using hd
      | false => rw [List.getElem?_eq_none (by simpa using hd)] at hx; cases hx
    have hyl : y < (refTable K reads sm st).length := by
      cases hd : decide (y < (refTable K reads sm st).length) with
      | true => simpa using hd
      | false => rw [List.getElem?_eq_none (by simpa using hd)] at hy; cases hy
    rw [List.getElem?_eq_getElem hxl] at hx; rw [List.getElem?_eq_getElem hyl] at hy
    cases hx; cases hy
    rcases Nat.lt_trichotomy x y with hlt | heq | hgt
    · have := hasc x y (by simpa using hxl) (by simpa using hyl) hlt
      simp only [List.getElem_map] at this
      rw [hk] at this; exact absurd this (seq_lt_irrefl _)
    · exact heq
    · have := hasc y x (by simpa using hyl) (by simpa using hxl) hgt
      simp only [List.getElem_map] at this
      rw [hk] at this; exact absurd this (seq_lt_irrefl _)
  · intro hst x e hx
    obtain ⟨o, ho, hk⟩ := hobs e (List.mem_of_getElem? hx)
    rw [← hk]; exact (kmerKey_length K hK reads hb st o ho).2.1 hst
  · intro x e hx
    have he := List.mem_of_getElem? hx
    -- the union of bytes is a byte
    unfold refTable at he
    rw [List.mem_filterMap] at he
    obtain ⟨⟨k, obs⟩, hg, hf⟩ := he
    unfold refGroups at hg
    rw [List.mem_map] at hg
    obtain ⟨k', _, e'⟩ := hg
    simp only [Prod.mk.injEq] at e'
    obtain ⟨rfl, hobs'⟩ := e'
    have hsum : ∀ (sm : Summarizer) (obs : List (Exts × Nat)), (summarize sm obs).2.1 = ⟨obs.foldl (fun a o => a ||| o.1.val) 0⟩ := by
      intro sm obs; cases sm <;> rfl
    simp only at hf
    split at hf
    · cases hf
      show (summarize sm obs).2.1.val < 256
      rw [hsum]
      apply fold_or_lt _ _ (by decide)
      intro o ho
      rw [← hobs', List.mem_map] at ho
      obtain ⟨o', ho', rfl⟩ := ho
      rw [List.mem_filter] at ho'
      exact (kmerKey_length K hK reads hb st o' ho'.1).2.2
    · cases hf

end Filter

namespace Filter
open Compress (Seq Base Exts rc minRcFlip Entry Table extend extendLeft extendRight comp canonSt isPalindrome condFlip
  nibHas headB lastB recip findId WF ExtSym)
open Walk (Dir)

/-! ### pruning (`remove_censored_exts`) and re-ordering (the hash map's index order) keep the hypotheses -/

theorem bitIdx_inj (d d' : Dir) (b b' : Base) (h : bitIdx d b = bitIdx d' b') : d = d' ∧ b = b' := by
  have := b.isLt; have := b'.isLt
  cases d <;> cases d' <;> simp only [bitIdx] at h
  · exact ⟨rfl, Fin.ext h⟩
  · omega
  · omega
  · exact ⟨rfl, Fin.ext (by omega)⟩

theorem has_set (acc : Exts) (d d' : Dir) (b b' : Base) :
    has (Graph.Exts.set acc d b.val) d' b' ↔ has acc d' b' ∨ (d' = d ∧ b' = b) := by
  have hlt : bitIdx d b < 8 := by have := b.isLt; cases d <;> simp [bitIdx] <;> omega
  have hval : (Graph.Exts.set acc d b.val).val = acc.val ||| 2 ^ bitIdx d b := by
    have h256 : 2 ^ bitIdx d b % 256 = 2 ^ bitIdx d b := Nat.mod_eq_of_lt (by
      calc 2 ^ bitIdx d b < 2 ^ 8 := Nat.pow_lt_pow_right (by decide) hlt
        _ = 256 := by decide)
    cases d with
    | L => show acc.val ||| (1 <<< (b.val + 0)) % 256 = _; rw [Nat.one_shiftLeft, Nat.add_zero]; exact congrArg _ h256
    | R => show acc.val ||| (1 <<< (b.val + 4)) % 256 = _; rw [Nat.one_shiftLeft]; exact congrArg _ h256
  have e : Graph.Exts.set acc d b.val = ⟨acc.val ||| 2 ^ bitIdx d b⟩ := by
    cases hs : Graph.Exts.set acc d b.val with
    | mk v => rw [hs] at hval; simp only at hval; rw [hval]
  rw [e, has_or]
  constructor
  · rintro (h | h)
    · exact Or.inl h
    · rw [has_iff, Nat.testBit_two_pow] at h
      have := bitIdx_inj d d' b b' (by simpa using h)
      exact Or.inr ⟨this.1.symm, this.2.symm⟩
  · rintro (h | ⟨rfl, rfl⟩)
    · exact Or.inl h
    · exact Or.inr (by rw [has_iff, Nat.testBit_two_pow_self])

theorem hasExt_iff (e : Exts) (d : Dir) (b : Base) : e.hasExt d b.val = true ↔ has e d b := by
  unfold Exts.hasExt has nibHas
  simp only [decide_eq_true_eq, bne_iff_ne, ne_eq]
  omega

theorem has_keepInner (e : Exts) (keep : Dir → Base → Bool) (d : Dir) (bs : List Base) (acc : Exts) (d' : Dir) (b' : Base) :
    has (bs.foldl (fun acc b => if e.hasExt d b.val ∧ keep d b then Graph.Exts.set acc d b.val else acc) acc) d' b' ↔
      has acc d' b' ∨ (d' = d ∧ b' ∈ bs ∧ has e d b' ∧ keep d b' = true) := by
  induction bs generalizing acc with
  | nil => simp
  | cons b t ih =>
    rw [List.foldl_cons, ih]
    by_cases hc : e.hasExt d b.val = true ∧ keep d b = true
    · rw [if_pos hc, has_set]
      constructor
      · rintro ((h | ⟨rfl, rfl⟩) | ⟨h1, h2, h3⟩)
        · exact Or.inl h
        · exact Or.inr ⟨rfl, by simp, (hasExt_iff e d' b').mp hc.1, hc.2⟩
        · exact Or.inr ⟨h1, by simp [h2], h3⟩
      · rintro (h | ⟨h1, h2, h3⟩)
        · exact Or.inl (Or.inl h)
        · rcases List.mem_cons.mp h2 with rfl | ht
          · exact Or.inl (Or.inr ⟨h1, rfl⟩)
          · exact Or.inr ⟨h1, ht, h3⟩
    · rw [if_neg hc]
      constructor
      · rintro (h | ⟨h1, h2, h3⟩)
        · exact Or.inl h
        · exact Or.inr ⟨h1, by simp [h2], h3⟩
      · rintro (h | ⟨h1, h2, h3⟩)
        · exact Or.inl h
        · rcases List.mem_cons.mp h2 with rfl | ht
          · exact absurd ⟨(hasExt_iff e d b').mpr (h1 ▸ h3.1), h1 ▸ h3.2⟩ hc
          · exact Or.inr ⟨h1, ht, h3⟩

/-- **`keepBits`** keeps exactly the recorded extensions that pass the test -/
theorem has_keepBits (e : Exts) (keep : Dir → Base → Bool) (d : Dir) (b : Base) :
    has (keepBits e keep) d b ↔ has e d b ∧ keep d b = true := by
  unfold keepBits
  simp only [List.foldl_cons, List.foldl_nil]
  rw [has_keepInner, has_keepInner]
  have hmem : b ∈ Graph.base4 := by
    have := b.isLt
    have : b = 0 ∨ b = 1 ∨ b = 2 ∨ b = 3 := by
      rcases b with ⟨v, hv⟩
      have : v = 0 ∨ v = 1 ∨ v = 2 ∨ v = 3 := by omega
      rcases this with rfl | rfl | rfl | rfl <;> simp
    rcases this with rfl | rfl | rfl | rfl <;> simp [Graph.base4]
  constructor
  · rintro ((h | ⟨hd, _, h⟩) | ⟨hd, _, h⟩)
    · exact absurd h (has_zero d b)
    · subst hd; exact h
    · subst hd; exact h
  · rintro ⟨h1, h2⟩
    cases d with
    | L => exact Or.inl (Or.inr ⟨rfl, hmem, h1, h2⟩)
    | R => exact Or.inr ⟨rfl, hmem, h1, h2⟩

theorem keepBits_lt (e : Exts) (keep : Dir → Base → Bool) : (keepBits e keep).val < 256 := by
  have hs : ∀ (acc : Exts) (d : Dir) (b : Nat), acc.val < 2 ^ 8 → (Graph.Exts.set acc d b).val < 2 ^ 8 := by
    intro acc d b h
    unfold Graph.Exts.set
    exact Nat.or_lt_two_pow h (Nat.mod_lt _ (by decide))
  have hin : ∀ (d : Dir) (bs : List Base) (acc : Exts), acc.val < 2 ^ 8 →
      (bs.foldl (fun acc b => if e.hasExt d b.val ∧ keep d b then Graph.Exts.set acc d b.val else acc) acc).val < 2 ^ 8 := by
    intro d bs
    induction bs with
    | nil => intro acc h; exact h
    | cons b t ih =>
      intro acc h
      rw [List.foldl_cons]
      apply ih
      split
      · exact hs _ _ _ h
      · exact h
  unfold keepBits
  simp only [List.foldl_cons, List.foldl_nil]
  exact hin _ _ _ (hin _ _ _ (by decide))

theorem extTarget_eq (st : Bool) (k : Seq) (b : Base) (d : Dir) : extTarget st k b d = (canonSt st (extend k b d)).1 := by
  unfold extTarget canonSt; cases st <;> rfl

theorem removeCensored_getElem? {D : Type} (st : Bool) (T : List (Entry D)) (x : Nat) (e1 : Entry D)
    (h : (removeCensoredExts st T)[x]? = some e1) :
    ∃ e0, T[x]? = some e0 ∧ e1.key = e0.key ∧ e1.data = e0.data ∧
      e1.exts = keepBits e0.exts (fun d b => (T.map (·.key)).contains (extTarget st e0.key b d)) := by
  unfold removeCensoredExts at h
  rw [List.getElem?_map] at h
  cases h0 : T[x]? with
  | none => rw [h0] at h; cases h
  | some e0 => rw [h0] at h; cases h; exact ⟨e0, rfl, rfl, rfl, rfl⟩

theorem findId_removeCensored {D : Type} (st : Bool) (T : List (Entry D)) (k : Seq) :
    findId (removeCensoredExts st T) k = findId T k := by
  unfold findId removeCensoredExts
  rw [List.findIdx?_map]
  rfl

/-- pruning keeps well-formedness -/
theorem wf_removeCensored {D : Type} (st : Bool) (T : List (Entry D)) (K : Nat) (wf : WF T K st) : WF (removeCensoredExts st T) K st := by
  refine ⟨wf.kpos, ?_, ?_, ?_, ?_⟩
  · intro x e h
    obtain ⟨e0, h0, hk, _, _⟩ := removeCensored_getElem? st T x e h
    rw [hk]; exact wf.len x e0 h0
  · intro x y ex ey hx hy hk
    obtain ⟨e0, h0, hk0, _, _⟩ := removeCensored_getElem? st T x ex hx
    obtain ⟨e1, h1, hk1, _, _⟩ := removeCensored_getElem? st T y ey hy
    exact wf.distinct x y e0 e1 h0 h1 (by rw [← hk0, ← hk1, hk])
  · intro hst x e h
    obtain ⟨e0, h0, hk, _, _⟩ := removeCensored_getElem? st T x e h
    rw [hk]; exact wf.canon hst x e0 h0
  · intro x e h
    obtain ⟨e0, _, _, _, he⟩ := removeCensored_getElem? st T x e h
    rw [he]; exact keepBits_lt _ _

/-- pruning keeps reciprocity: the reciprocal extension leads back to a present k-mer, so it survives -/
theorem extSym_removeCensored {D : Type} (st : Bool) (T : List (Entry D)) (K : Nat) (wf : WF T K st) (hes : ExtSym T st) :
    ExtSym (removeCensoredExts st T) st := by
  intro x ex d b y ey hx hbit hy hy' hpx hpy
  obtain ⟨ex0, hx0, hkx, _, hex⟩ := removeCensored_getElem? st T x ex hx
  obtain ⟨ey0, hy0, hky, _, hey⟩ := removeCensored_getElem? st T y ey hy'
  rw [findId_removeCensored, hkx] at hy
  have hb0 : has ex0.exts d b := by
    have : has ex.exts d b := hbit
    rw [hex, has_keepBits] at this; exact this.1
  rw [hkx] at hpx ⊢; rw [hky] at hpy
  have h0 := hes x ex0 d b y ey0 hx0 hb0 hy hy0 hpx hpy
  show has ey.exts _ _
  rw [hey, has_keepBits]
  refine ⟨h0, ?_⟩
  -- the reciprocal extension of `ey0` points back at `ex0`, which is present
  obtain ⟨ey', hy'', hkey⟩ := Compress.findId_some hy
  rw [hy0] at hy''; cases hy''
  have hne : ex0.key ≠ [] := by
    intro e; have := wf.len x ex0 hx0; rw [e] at this; simp at this; have := wf.kpos; omega
  have hback := Compress.canon_back (st := st) (x := ex0.key) (b := b) (d := d) hne (fun hst => wf.canon hst x ex0 hx0) hpx
  rw [extTarget_eq, hkey, hback]
  simp only [List.contains_eq_mem, List.mem_map, decide_eq_true_eq]
  exact ⟨ex0, List.mem_of_getElem? hx0, rfl⟩

end Filter

namespace Filter
open Compress (Seq Base Exts rc minRcFlip Entry Table extend comp canonSt isPalindrome condFlip nibHas recip findId WF ExtSym)
open Walk (Dir)

theorem mem_getElem? {α} (l : List α) (a : α) (h : a ∈ l) : ∃ i : Nat, l[i]? = some a := by
  obtain ⟨i, hi, e⟩ := List.getElem_of_mem h
  exact ⟨i, by rw [List.getElem?_eq_getElem hi, e]⟩

/-- re-ordering (the hash map lists the table in its own index order) keeps well-formedness -/
theorem wf_perm {D : Type} (st : Bool) (T1 T2 : List (Entry D)) (K : Nat) (hp : T2.Perm T1) (wf : WF T1 K st) : WF T2 K st := by
  have hmem : ∀ e, e ∈ T2 → ∃ x, T1[x]? = some e := fun e he => mem_getElem? T1 e (hp.mem_iff.mp he)
  have hnd1 : (T1.map (·.key)).Nodup := by
    rw [List.Nodup, List.pairwise_iff_getElem]
    intro i j hi hj hij
    simp only [List.getElem_map]
    intro hk
    simp only [List.length_map] at hi hj
    have := wf.distinct i j T1[i] T1[j] (List.getElem?_eq_getElem hi) (List.getElem?_eq_getElem hj) hk
    omega
  have hnd2 : (T2.map (·.key)).Nodup := (hp.map _).nodup_iff.mpr hnd1
  refine ⟨wf.kpos, ?_, ?_, ?_, ?_⟩
  · intro x e h
    obtain ⟨x1, h1⟩ := hmem e (List.mem_of_getElem? h)
    exact wf.len x1 e h1
  · intro x y ex ey hx hy hk
    have hxl : x < T2.length := by
      cases hd : decide (x < T2.length) with
      | true => simpa using hd
      | false => rw [List.getElem?_eq_none (by simpa using hd)] at hx; cases hx
    have hyl : y < T2.length := by
      cases hd : decide (y < T2.length) with
      | true => simpa using hd
      | false => rw [List.getElem?_eq_none (by simpa using hd)] at hy; cases hy
    rw [List.getElem?_eq_getElem hxl] at hx; rw [List.getElem?_eq_getElem hyl] at hy
    cases hx; cases hy
    rw [List.Nodup, List.pairwise_iff_getElem] at hnd2
    rcases Nat.lt_trichotomy x y with hlt | heq | hgt
    · have := hnd2 x y (by simpa using hxl) (by simpa using hyl) hlt
      simp only [List.getElem_map] at this
      exact absurd hk this
    · exact heq
    · have := hnd2 y x (by simpa using hyl) (by simpa using hxl) hgt
      simp only [List.getElem_map] at this
      exact absurd hk.symm this
  · intro hst x e h
    obtain ⟨x1, h1⟩ := hmem e (List.mem_of_getElem? h)
    exact wf.canon hst x1 e h1
  · intro x e h
    obtain ⟨x1, h1⟩ := hmem e (List.mem_of_getElem? h)
    exact wf.ext8 x1 e h1

/-- re-ordering keeps reciprocity -/
theorem extSym_perm {D : Type} (st : Bool) (T1 T2 : List (Entry D)) (K : Nat) (hp : T2.Perm T1) (wf : WF T1 K st) (hes : ExtSym T1 st) :
    ExtSym T2 st := by
  intro x ex d b y ey hx hbit hy hy' hpx hpy
  obtain ⟨x1, hx1⟩ := mem_getElem? T1 ex (hp.mem_iff.mp (List.mem_of_getElem? hx))
  obtain ⟨y1, hy1⟩ := mem_getElem? T1 ey (hp.mem_iff.mp (List.mem_of_getElem? hy'))
  obtain ⟨ey', hy'', hkey⟩ := Compress.findId_some hy
  rw [hy'] at hy''; cases hy''
  have hf : findId T1 (canonSt st (extend ex.key b d)).1 = some y1 := by
    rw [← hkey]; exact Compress.findId_self wf hy1
  exact hes x1 ex d b y1 ey hx1 hbit hf hy1 hpx hpy

/-- **tables from reads satisfy the hypotheses of the compression theorems**: after `filter_kmers`,
    `remove_censored_exts` and any re-ordering -/
theorem pipeline_table_ok (K : Nat) (hK : 1 ≤ K) (reads : List (Seq × Exts × Nat)) (hb : NoBoundary reads) (sm : Summarizer) (st : Bool)
    (T : List (Entry Payload)) (hp : T.Perm (removeCensoredExts st (refTable K reads sm st))) :
    WF T K st ∧ ExtSym T st := by
  have w0 := refTable_wf K hK reads hb sm st
  have s0 := refTable_extSym K hK reads hb sm st
  have w1 := wf_removeCensored st _ K w0
  have s1 := extSym_removeCensored st _ K w0 s0
  exact ⟨wf_perm st _ T K hp w1, extSym_perm st _ T K hp w1 s1⟩

end Filter

namespace Filter
open Compress (Seq Base Exts Entry extend)
open Walk (Dir)

/-- **`remove_censored_exts` is exact**: same keys and payloads, and a recorded extension survives iff its target
    is a valid k-mer -/
theorem removeCensored_exact {D : Type} (st : Bool) (T : List (Entry D)) :
    (removeCensoredExts st T).length = T.length ∧
    ∀ (x : Nat) (e1 : Entry D), (removeCensoredExts st T)[x]? = some e1 → ∃ e0 : Entry D, T[x]? = some e0 ∧ e1.key = e0.key ∧ e1.data = e0.data ∧
      e1.exts.val < 256 ∧
      ∀ d b, has e1.exts d b ↔ has e0.exts d b ∧ extTarget st e0.key b d ∈ T.map (·.key) := by
  refine ⟨by simp [removeCensoredExts], fun x e1 h => ?_⟩
  obtain ⟨e0, h0, hk, hd, he⟩ := removeCensored_getElem? st T x e1 h
  refine ⟨e0, h0, hk, hd, by rw [he]; exact keepBits_lt _ _, fun d b => ?_⟩
  rw [he, has_keepBits]
  simp only [List.contains_eq_mem, decide_eq_true_eq]

/-- **`remove_censored_exts_sharded` is exact**: an extension is dropped iff its target is a k-mer that was seen
    (`all_kmers`) but is not valid -/
theorem removeCensoredSharded_exact {D : Type} (st : Bool) (T : List (Entry D)) (all : List Seq) :
    (removeCensoredExtsSharded st T all).length = T.length ∧
    ∀ (x : Nat) (e1 : Entry D), (removeCensoredExtsSharded st T all)[x]? = some e1 → ∃ e0 : Entry D, T[x]? = some e0 ∧ e1.key = e0.key ∧ e1.data = e0.data ∧
      ∀ d b, has e1.exts d b ↔ has e0.exts d b ∧
        ¬ (extTarget st e0.key b d ∉ T.map (·.key) ∧ extTarget st e0.key b d ∈ all) := by
  refine ⟨by simp [removeCensoredExtsSharded], fun x e1 h => ?_⟩
  unfold removeCensoredExtsSharded at h
  rw [List.getElem?_map] at h
  cases h0 : T[x]? with
  | none => rw [h0] at h; cases h
  | some e0 =>
    rw [h0] at h; cases h
    refine ⟨e0, rfl, rfl, rfl, fun d b => ?_⟩
    show has (keepBits e0.exts _) d b ↔ _
    rw [has_keepBits]
    simp only [List.contains_eq_mem, Bool.not_eq_true', Bool.and_eq_false_imp, Bool.not_eq_eq_eq_not, Bool.not_true,
      decide_eq_false_iff_not, decide_eq_true_eq, Bool.not_and]
    constructor
    · rintro ⟨h1, h2⟩
      refine ⟨h1, fun ⟨h3, h4⟩ => ?_⟩
      simp [h3, h4] at h2
    · rintro ⟨h1, h2⟩
      refine ⟨h1, ?_⟩
      by_cases h3 : extTarget st e0.key b d ∈ T.map (·.key)
      · simp [h3]
      · by_cases h4 : extTarget st e0.key b d ∈ all
        · exact absurd ⟨h3, h4⟩ h2
        · simp [h3, h4]

end Filter

namespace Filter
open Compress (Seq Base Exts rc minRcFlip Entry Table extend comp canonSt isPalindrome condFlip nibHas recip findId WF ExtSym)
open Walk (Dir)

/-! ### reciprocity including palindromic neighbours -/

/-- reciprocity towards any present neighbour: it records the reciprocal base on the facing side — or, if it is a
    palindrome (whose two strands coincide), possibly as seen from the other strand: complemented, on the other side -/
def ExtSym2 {D : Type} (T : Table D) (st : Bool) : Prop :=
  ∀ (x : Nat) (ex : Entry D) (d : Dir) (b : Base) (y : Nat) (ey : Entry D), T[x]? = some ex → has ex.exts d b →
    findId T (canonSt st (extend ex.key b d)).1 = some y → T[y]? = some ey →
    has ey.exts (condFlip d.flip (canonSt st (extend ex.key b d)).2) (recip ex.key d (canonSt st (extend ex.key b d)).2) ∨
    ((!st && isPalindrome ey.key) = true ∧
      has ey.exts (condFlip d.flip (canonSt st (extend ex.key b d)).2).flip (comp (recip ex.key d (canonSt st (extend ex.key b d)).2)))

theorem ExtSym2.toExtSym {D : Type} {T : Table D} {st : Bool} (h : ExtSym2 T st) : ExtSym T st := by
  intro x ex d b y ey hx hb hy hy' _ hpy
  rcases h x ex d b y ey hx hb hy hy' with h1 | ⟨h1, _⟩
  · exact h1
  · rw [hpy] at h1; cases h1

/-- an occurrence next to a palindromic k-mer is recorded by it from one strand or the other -/
theorem occ_table_pal (K : Nat) (hK : 1 ≤ K) (reads : List (Seq × Exts × Nat)) (hb : NoBoundary reads) (sm : Summarizer)
    (u : Seq) (d : Dir) (b : Base) (h : Occ K reads false u d b)
    (ey : Entry Payload) (hey : ey ∈ refTable K reads sm false) (f : Bool) (hc : canonSt false u = (ey.key, f))
    (hp : rc ey.key = ey.key) :
    has ey.exts (condFlip d f) (if f then comp b else b) ∨ has ey.exts (condFlip d f).flip (comp (if f then comp b else b)) := by
  obtain ⟨r, hr, i, hi, hcase⟩ := h
  have hmem : canonObs false (win r.1 K i) (rawE r.1 K i) r.2.2 ∈ observations K reads false :=
    (mem_observations K hK reads hb false _).mpr ⟨r, hr, i, hi, rfl⟩
  generalize hw : win r.1 K i = w at *
  generalize hE : rawE r.1 K i = E at *
  have hE8 : E.val < 256 := by rw [← hE]; exact rawE_lt _ _ _
  -- `u` is its own reverse complement, and so is the spelled k-mer
  simp only [canonSt, Bool.false_eq_true, if_false] at hc
  unfold minRcFlip at hc
  have hu : u = ey.key ∧ f = true := by
    by_cases hlt : u < rc u
    · simp only [hlt, if_true, Prod.mk.injEq] at hc
      obtain ⟨hk, _⟩ := hc
      rw [hk, hp] at hlt; exact absurd hlt (seq_lt_irrefl _)
    · simp only [hlt, if_false, Prod.mk.injEq] at hc
      obtain ⟨hk, hf⟩ := hc
      exact ⟨by have := congrArg rc hk; rw [Compress.rc_rc, hp] at this; exact this, hf.symm⟩
  obtain ⟨huk, hf⟩ := hu
  subst hf
  have hwk : w = ey.key := by
    rcases hcase with ⟨h1, _⟩ | ⟨_, h1, _⟩
    · rw [← h1, huk]
    · have : rc u = w := by rw [h1, Compress.rc_rc]
      rw [← this, huk, hp]
  -- the observation made at this occurrence
  have hobs : canonObs false w E r.2.2 = (ey.key, E.rc, r.2.2) := by
    unfold canonObs
    simp only [Bool.false_eq_true, if_false]
    have : ¬ w < rc w := by rw [hwk, hp]; exact seq_lt_irrefl _
    rw [if_neg this, hwk, hp]
  rw [hobs] at hmem
  simp only [condFlip, if_true]
  rcases hcase with ⟨_, hh⟩ | ⟨_, _, hh⟩
  · left
    rw [(entry_facts K reads sm false ey hey).2]
    exact ⟨_, hmem, rfl, by rw [has_rc E hE8, Dir.flip_flip, comp_comp]; exact hh⟩
  · right
    rw [(entry_facts K reads sm false ey hey).2]
    exact ⟨_, hmem, rfl, by rw [has_rc E hE8, Dir.flip_flip, comp_comp]; exact hh⟩

/-- **reciprocity (including palindromic neighbours)** of the table built from reads -/
theorem refTable_extSym2 (K : Nat) (hK : 1 ≤ K) (reads : List (Seq × Exts × Nat)) (hb : NoBoundary reads) (sm : Summarizer) (st : Bool) :
    ExtSym2 (refTable K reads sm st) st := by
  intro x ex d b y ey hx hbit hy hy'
  have hex : ex ∈ refTable K reads sm st := List.mem_of_getElem? hx
  have hey : ey ∈ refTable K reads sm st := List.mem_of_getElem? hy'
  obtain ⟨ey', hy'', hkey⟩ := Compress.findId_some hy
  rw [hy'] at hy''; cases hy''
  have hocc := table_occ K hK reads hb sm st ex hex d b hbit
  have hstep := occ_step K hK reads st ex.key d b hocc
  rw [recip_eq]
  by_cases hp : (!st && isPalindrome ey.key) = false
  · exact Or.inl (occ_table K hK reads hb sm st (extend ex.key b d) d.flip (back ex.key d) hstep ey hey
      (canonSt st (extend ex.key b d)).2 (by rw [hkey]) hp)
  · have hp' : (!st && isPalindrome ey.key) = true := by simpa using hp
    simp only [Bool.and_eq_true, Bool.not_eq_true'] at hp'
    obtain ⟨hst, hpal⟩ := hp'
    subst hst
    have hrc : rc ey.key = ey.key := by
      unfold isPalindrome at hpal
      simp only [Bool.and_eq_true, beq_iff_eq] at hpal
      exact hpal.2.symm
    rcases occ_table_pal K hK reads hb sm (extend ex.key b d) d.flip (back ex.key d) hstep ey hey
      (canonSt false (extend ex.key b d)).2 (by rw [hkey]) hrc with h1 | h1
    · exact Or.inl h1
    · exact Or.inr ⟨by simp [hpal], h1⟩

end Filter

namespace Filter
open Compress (Seq Base Exts rc minRcFlip Entry Table extend comp canonSt isPalindrome condFlip nibHas recip findId WF ExtSym)
open Walk (Dir)

theorem minRcFlip_rc_key (x : Seq) : (minRcFlip (rc x)).1 = (minRcFlip x).1 := by
  unfold minRcFlip
  rw [Compress.rc_rc]
  rcases seq_tri x (rc x) with h | h | h
  · have : ¬ rc x < x := fun h' => seq_lt_irrefl _ (seq_lt_trans h h')
    simp [h, this]
  · have h1 : ¬ x < rc x := by rw [← h]; exact seq_lt_irrefl _
    have h2 : ¬ rc x < x := by rw [← h]; exact seq_lt_irrefl _
    simp [h1, h2, ← h]
  · have : ¬ x < rc x := fun h' => seq_lt_irrefl _ (seq_lt_trans h h')
    simp [h, this]

/-- stepping back with the reciprocal base returns to the canonical k-mer one came from (whether or not it is a palindrome) -/
theorem canon_back_key {st : Bool} {x : Seq} {b : Base} {d : Dir} (hx : x ≠ []) (hc : st = false → ¬ (rc x < x)) :
    (canonSt st (extend (canonSt st (extend x b d)).1 (recip x d (canonSt st (extend x b d)).2)
      (condFlip d.flip (canonSt st (extend x b d)).2))).1 = x := by
  have hmin : st = false → (minRcFlip x).1 = x := by
    intro hst
    unfold minRcFlip
    by_cases h : x < rc x
    · simp [h]
    · have : x = rc x := by
        rcases seq_tri x (rc x) with h' | h' | h'
        · exact absurd h' h
        · exact h'
        · exact absurd h' (hc hst)
      rw [if_neg h]; exact this.symm
  cases st with
  | true =>
    simp only [canonSt, if_true, condFlip, Bool.false_eq_true, if_false]
    rw [Compress.extend_back x b d hx]
  | false =>
    simp only [canonSt, Bool.false_eq_true, if_false]
    unfold minRcFlip
    by_cases hlt : extend x b d < rc (extend x b d)
    · simp only [hlt, if_true, condFlip, Bool.false_eq_true, if_false]
      rw [Compress.extend_back x b d hx]
      exact hmin rfl
    · simp only [hlt, if_false, condFlip, if_true, Dir.flip_flip]
      rw [Compress.extend_back_flip x b d hx]
      have := minRcFlip_rc_key x
      unfold minRcFlip at this
      rw [this]
      exact hmin rfl

theorem extend_comp_flip (k : Seq) (r : Base) (s : Dir) : extend k (comp r) s.flip = rc (extend (rc k) r s) := by
  cases s with
  | L => show Compress.extendRight k (comp r) = rc (Compress.extendLeft (rc k) r)
         rw [Compress.rc_extendLeft, Compress.rc_rc]
  | R => show Compress.extendLeft k (comp r) = rc (Compress.extendRight (rc k) r)
         rw [Compress.rc_extendRight, Compress.rc_rc]

/-- pruning keeps reciprocity (including towards palindromes) -/
theorem extSym2_removeCensored {D : Type} (st : Bool) (T : List (Entry D)) (K : Nat) (wf : WF T K st) (hes : ExtSym2 T st) :
    ExtSym2 (removeCensoredExts st T) st := by
  intro x ex d b y ey hx hbit hy hy'
  obtain ⟨ex0, hx0, hkx, _, hex⟩ := removeCensored_getElem? st T x ex hx
  obtain ⟨ey0, hy0, hky, _, hey⟩ := removeCensored_getElem? st T y ey hy'
  rw [findId_removeCensored, hkx] at hy
  have hb0 : has ex0.exts d b := by
    rw [hex, has_keepBits] at hbit; exact hbit.1
  rw [hkx]
  obtain ⟨ey', hy'', hkey⟩ := Compress.findId_some hy
  rw [hy0] at hy''; cases hy''
  have hne : ex0.key ≠ [] := by
    intro e; have := wf.len x ex0 hx0; rw [e] at this; simp at this; have := wf.kpos; omega
  have hback := canon_back_key (st := st) (x := ex0.key) (b := b) (d := d) hne (fun hst => wf.canon hst x ex0 hx0)
  have hpres : ex0.key ∈ T.map (·.key) := List.mem_map.mpr ⟨ex0, List.mem_of_getElem? hx0, rfl⟩
  rcases hes x ex0 d b y ey0 hx0 hb0 hy hy0 with h1 | ⟨hp, h1⟩
  · left
    rw [hey, has_keepBits]
    refine ⟨h1, ?_⟩
    rw [extTarget_eq, hkey, hback]
    simpa using hpres
  · right
    refine ⟨by rw [hky]; exact hp, ?_⟩
    rw [hey, has_keepBits]
    refine ⟨h1, ?_⟩
    -- the same target, read from the other strand of the palindrome
    simp only [Bool.and_eq_true, Bool.not_eq_true'] at hp
    obtain ⟨hst, hpal⟩ := hp
    have hrc : rc ey0.key = ey0.key := by
      unfold isPalindrome at hpal
      simp only [Bool.and_eq_true, beq_iff_eq] at hpal
      exact hpal.2.symm
    rw [extTarget_eq, extend_comp_flip, hrc]
    subst hst
    have hcan : ∀ z, (canonSt false (rc z)).1 = (canonSt false z).1 := by
      intro z
      simp only [canonSt, Bool.false_eq_true, if_false]
      exact minRcFlip_rc_key z
    rw [hcan, hkey, hback]
    simpa using hpres

/-- re-ordering keeps reciprocity (including towards palindromes) -/
theorem extSym2_perm {D : Type} (st : Bool) (T1 T2 : List (Entry D)) (K : Nat) (hp : T2.Perm T1) (wf : WF T1 K st) (hes : ExtSym2 T1 st) :
    ExtSym2 T2 st := by
  intro x ex d b y ey hx hbit hy hy'
  obtain ⟨x1, hx1⟩ := mem_getElem? T1 ex (hp.mem_iff.mp (List.mem_of_getElem? hx))
  obtain ⟨y1, hy1⟩ := mem_getElem? T1 ey (hp.mem_iff.mp (List.mem_of_getElem? hy'))
  obtain ⟨ey', hy'', hkey⟩ := Compress.findId_some hy
  rw [hy'] at hy''; cases hy''
  have hf : findId T1 (canonSt st (extend ex.key b d)).1 = some y1 := by
    rw [← hkey]; exact Compress.findId_self wf hy1
  exact hes x1 ex d b y1 ey hx1 hbit hf hy1

/-- tables from reads: well-formed, reciprocal towards every present neighbour, and closed (every recorded extension leads
    to a present k-mer) -/
theorem pipeline_table_ok2 (K : Nat) (hK : 1 ≤ K) (reads : List (Seq × Exts × Nat)) (hb : NoBoundary reads) (sm : Summarizer) (st : Bool)
    (T : List (Entry Payload)) (hp : T.Perm (removeCensoredExts st (refTable K reads sm st))) :
    WF T K st ∧ ExtSym2 T st := by
  have w0 := refTable_wf K hK reads hb sm st
  have s0 := refTable_extSym2 K hK reads hb sm st
  have w1 := wf_removeCensored st _ K w0
  have s1 := extSym2_removeCensored st _ K w0 s0
  exact ⟨wf_perm st _ T K hp w1, extSym2_perm st _ T K hp w1 s1⟩

end Filter
