import Dbg.Lemmas.MspProofs
import Dbg.Spec.C07
/-! From the loop invariant on the reversed `min_positions` to the forward interval list. -/
namespace Msp

/-- forward-order version of `AccOK`; `n` = number of k-mers -/
def FwdOK (sc : Nat → Nat) (d n : Nat) : List (Nat × MinPos) → Prop
  | [] => False
  | [(s, mn)] => IvOK sc d s (n - 1) mn
  | (s, mn) :: (s', mn') :: rest =>
    IvOK sc d s (s' - 1) mn ∧ s < s' ∧ (mn.pos < s' ∨ sc (s' + d) < mn.val) ∧ FwdOK sc d n ((s', mn') :: rest)

theorem fwd_of_acc (sc : Nat → Nat) (d n : Nat) :
    ∀ (acc : List (Nat × MinPos)) (x : Nat × MinPos) (suffix : List (Nat × MinPos)) (cur : Nat),
      AccOK sc d cur (x :: acc) →
      (IvOK sc d x.1 cur x.2 → FwdOK sc d n (x :: suffix)) →
      FwdOK sc d n (acc.reverse ++ x :: suffix) ∧ (acc.reverse ++ x :: suffix).head?.map (·.1) = some 0 := by
  intro acc
  induction acc with
  | nil =>
    intro x suffix cur h hk
    obtain ⟨s, mn⟩ := x
    have h' : s = 0 ∧ IvOK sc d s cur mn := h
    exact ⟨by simpa using hk h'.2, by simp [h'.1]⟩
  | cons y acc ih =>
    intro x suffix cur h hk
    obtain ⟨s, mn⟩ := x
    obtain ⟨s', mn'⟩ := y
    have h' : IvOK sc d s cur mn ∧ s' < s ∧ (mn'.pos < s ∨ sc (s + d) < mn'.val) ∧
        AccOK sc d (s - 1) ((s', mn') :: acc) := h
    obtain ⟨h1, h2, h3, h4⟩ := h'
    have := ih (s', mn') ((s, mn) :: suffix) (s - 1) h4 (by
      intro hiv
      exact ⟨hiv, h2, h3, hk h1⟩)
    simpa using this

theorem minPositions_fwd (sc : Nat → Nat) (d n : Nat) (hn : 1 ≤ n) :
    FwdOK sc d n (minPositions sc d n).reverse ∧ (minPositions sc d n).reverse.head?.map (·.1) = some 0 := by
  obtain ⟨s, mn, rest, e, h⟩ := minPositions_ok sc d n hn
  rw [e]
  have := fwd_of_acc sc d n rest (s, mn) [] (n - 1) h (fun hiv => hiv)
  simpa using this

/-- the interval built from a closed entry covering k-mer starts `s..e` -/
theorem ivValid_of_IvOK (seq : Array Compress.Base) (score : Compress.Seq → Nat) (k p s e : Nat) (mn : MinPos) (len : Nat)
    (hp : 1 ≤ p) (hpk : p ≤ k) (h : IvOK (fun q => score (window seq p q)) (k - p) s e mn) (hlen : len = e + k - s) :
    IvValid seq (fun q => score (window seq p q)) k p ⟨s, len, mn.pos, window seq p mn.pos⟩ := by
  obtain ⟨_, hse, lo, hi, hmin⟩ := h
  refine ⟨by simp only; omega, by simp only; omega, rfl, by simp only; omega, by simp only; omega, ?_⟩
  intro q hq1 hq2
  simp only at hq1 hq2 ⊢
  have h1 := hmin q hq2 (by omega)
  have h2 := hmin mn.pos (by omega) (by omega)
  omega

end Msp
