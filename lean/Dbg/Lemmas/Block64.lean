import Dbg.Lemmas.KmerSlice
import Dbg.Model.Lmer
/-! A 64-bit storage block of `DnaString` / `Lmer` is a `Kmer32` word: the block accessors are the
    k-mer accessors at configuration ⟨64, 32, full-width⟩. -/
namespace Block64
open Kmer

abbrev k32 : Cfg := ⟨64, 32, false⟩
theorem k32_wf : k32.WF := ⟨by decide, by decide, fun _ => by decide⟩

/-- `DnaString::get_by_addr` on a block = `Kmer32::get` -/
theorem dna_blockGet_eq (b : BitVec 64) (i : Nat) (hi : i < 32) : DnaStr.blockGet b (2 * i) = Kmer.get k32 b i := by
  unfold DnaStr.blockGet Kmer.get addr
  have : 62 - 2 * i = (k32.K - 1 - i) * 2 := by simp [k32]; omega
  rw [this]; rfl

/-- `DnaString::set_by_addr` on a block = `Kmer32::set_mut` (the or-xor-or sequence clears the lane) -/
theorem dna_blockSet_eq (b : BitVec 64) (i v : Nat) (hi : i < 32) (hv : v < 4) :
    DnaStr.blockSet b (2 * i) v = setMut k32 b i v := by
  unfold DnaStr.blockSet setMut addr
  have e : 62 - 2 * i = (k32.K - 1 - i) * 2 := by simp [k32]; omega
  rw [e]
  have hm : BitVec.ofNat 64 Gen.dnaMask = 3#64 := rfl
  have hvv : (BitVec.ofNat 64 v &&& BitVec.ofNat 64 Gen.dnaMask) = BitVec.ofNat 64 v := by
    have : v = 0 ∨ v = 1 ∨ v = 2 ∨ v = 3 := by omega
    rcases this with rfl | rfl | rfl | rfl <;> decide
  rw [hvv, hm]
  have key : ∀ (x m : BitVec 64), (x ||| m) ^^^ m = x &&& ~~~m := by
    intro x m
    apply BitVec.eq_of_getLsbD_eq
    intro j hj
    simp only [BitVec.getLsbD_or, BitVec.getLsbD_xor, BitVec.getLsbD_and, BitVec.getLsbD_not, hj, decide_true, Bool.true_and]
    cases x.getLsbD j <;> cases m.getLsbD j <;> rfl
  simp only [key]

/-- `Lmer`'s `block_get` / `block_set` are literally the k-mer accessors -/
theorem lmer_blockGet_eq (b : BitVec 64) (i : Nat) : Lmer.blockGet b i = Kmer.get k32 b i := rfl
theorem lmer_blockSet_eq (b : BitVec 64) (i v : Nat) : Lmer.blockSet b i v = setMut k32 b i v := rfl

/-- the 32 bases of a block -/
def blockSeq (b : BitVec 64) : List Nat := toSeq k32 b

/-- writing base `i` of a block changes exactly that base -/
theorem dna_blockSet_spec (b : BitVec 64) (i v : Nat) (hi : i < 32) (hv : v < 4) :
    blockSeq (DnaStr.blockSet b (2 * i) v) = (blockSeq b).set i v := by
  rw [dna_blockSet_eq b i v hi hv]; exact toSeq_setMut k32_wf b i v hi hv

theorem dna_blockGet_spec (b : BitVec 64) (i : Nat) (hi : i < 32) : (blockSeq b)[i]? = some (DnaStr.blockGet b (2 * i)) := by
  rw [dna_blockGet_eq b i hi]; simp [blockSeq, toSeq, hi, k32]

end Block64
