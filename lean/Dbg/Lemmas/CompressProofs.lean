import Dbg.Model.Compress
import Dbg.Lemmas.WalkProofs
namespace Compress
open Walk (Dir rm mem_rm rm_length_lt)

variable {D : Type} (T : Table D) (st : Bool) (join : D → D → Bool)

/-- Under `NoPanic`, the concrete walk is the abstract walk over `linkOf T`. -/
theorem walkC_refines (hnp : NoPanic T st join) (avail : List Nat) (x : Nat) (d : Dir) :
    ∃ e, walkC T st join avail x d =
      some ((Walk.walk (linkOf T st join) avail x d).1, e, (Walk.walk (linkOf T st join) avail x d).2) := by
  fun_induction Walk.walk (linkOf T st join) avail x d with
  | case1 avail x d y d' hl hy r ih =>
    obtain ⟨e, ih⟩ := ih
    -- linkOf = some (y,d') means staticStep = cand y d' true false _
    have hs : ∃ e0, staticStep T st join x d = .cand y d' true false e0 := by
      unfold linkOf at hl
      split at hl
      · rename_i y0 d0 e0 heq
        simp only [Option.some.injEq, Prod.mk.injEq] at hl
        obtain ⟨rfl, rfl⟩ := hl
        exact ⟨e0, heq⟩
      · cases hl
    obtain ⟨e0, hs⟩ := hs
    have ht : tryExtend T st join avail x d = .unique y d' := by
      simp [tryExtend, hs, hy]
    unfold walkC
    split
    · rename_i y1 d1 heq
      rw [ht] at heq
      cases heq
      simp only [hy, dite_true]
      rw [ih]
      exact ⟨e, rfl⟩
    · rename_i e1 heq; rw [ht] at heq; cases heq
    · rename_i heq; rw [ht] at heq; cases heq
  | case2 avail x d y d' hl hy =>
    have hs : ∃ e0, staticStep T st join x d = .cand y d' true false e0 := by
      unfold linkOf at hl
      split at hl
      · rename_i y0 d0 e0 heq
        simp only [Option.some.injEq, Prod.mk.injEq] at hl
        obtain ⟨rfl, rfl⟩ := hl
        exact ⟨e0, heq⟩
      · cases hl
    obtain ⟨e0, hs⟩ := hs
    have ht : tryExtend T st join avail x d = .terminal e0 := by
      simp [tryExtend, hs, hy]
    unfold walkC
    split
    · rename_i y1 d1 heq; rw [ht] at heq; cases heq
    · rename_i e1 heq; rw [ht] at heq; cases heq; exact ⟨e0, rfl⟩
    · rename_i heq; rw [ht] at heq; cases heq
  | case3 avail x d hl =>
    -- no link: tryExtend is terminal (never unique, never panic)
    have ht : ∃ e0, tryExtend T st join avail x d = .terminal e0 := by
      unfold tryExtend
      cases hs : staticStep T st join x d with
      | blocked e => exact ⟨e, rfl⟩
      | absent e => exact ⟨e, rfl⟩
      | cand y d' ok panic e =>
        simp only
        by_cases hy : y ∈ avail
        · simp only [hy, not_true_eq_false, if_false]
          cases panic with
          | true => exact absurd hs (hnp x d y d' ok e)
          | false =>
            cases ok with
            | true =>
              exfalso
              unfold linkOf at hl
              rw [hs] at hl
              cases hl
            | false => exact ⟨e, by simp⟩
        · exact ⟨e, by simp [hy]⟩
    obtain ⟨e0, ht⟩ := ht
    unfold walkC
    split
    · rename_i y1 d1 heq; rw [ht] at heq; cases heq
    · rename_i e1 heq; rw [ht] at heq; cases heq; exact ⟨e0, rfl⟩
    · rename_i heq; rw [ht] at heq; cases heq

end Compress
