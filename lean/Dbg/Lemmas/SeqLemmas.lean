import Dbg.Model.Compress
namespace Compress

@[simp] theorem comp_comp (b : Base) : comp (comp b) = b := by
  apply Fin.ext; simp [comp]; omega

@[simp] theorem rc_rc (s : Seq) : rc (rc s) = s := by
  simp [rc, List.map_reverse, Function.comp_def]

@[simp] theorem rc_length (s : Seq) : (rc s).length = s.length := by simp [rc]

theorem rc_extendRight (x : Seq) (b : Base) : rc (extendRight x b) = extendLeft (rc x) (comp b) := by
  unfold rc extendRight extendLeft
  cases x with
  | nil => simp
  | cons a t =>
    simp only [List.tail_cons, List.map_append, List.map_cons, List.map_nil, List.reverse_append,
      List.reverse_cons, List.reverse_nil, List.nil_append, List.singleton_append, List.cons.injEq, true_and]
    simp [List.dropLast_concat]

theorem rc_extendLeft (x : Seq) (b : Base) : rc (extendLeft x b) = extendRight (rc x) (comp b) := by
  have := rc_extendRight (rc x) (comp b)
  rw [rc_rc, comp_comp] at this
  rw [← this, rc_rc]

theorem extendLeft_extendRight (x : Seq) (b : Base) (a : Base) (t : Seq) (hx : x = a :: t) :
    extendLeft (extendRight x b) a = x := by
  subst hx
  simp [extendLeft, extendRight, List.dropLast_concat]

theorem extendRight_extendLeft (x : Seq) (b : Base) (hx : x ≠ []) :
    extendRight (extendLeft x b) (x.getLast hx) = x := by
  simp only [extendLeft, extendRight, List.tail_cons]
  exact List.dropLast_concat_getLast hx

theorem extend_length (x : Seq) (b : Base) (d : Walk.Dir) (hx : x ≠ []) : (extend x b d).length = x.length := by
  cases d
  · simp only [extend, extendLeft, List.length_cons, List.length_dropLast]
    have : 0 < x.length := List.length_pos_iff.mpr hx
    omega
  · simp only [extend, extendRight, List.length_append, List.length_tail, List.length_cons, List.length_nil]
    have : 0 < x.length := List.length_pos_iff.mpr hx
    omega

end Compress
