import Dbg.Lemmas.SeqLemmas
/-! string facts behind reciprocity of links -/
namespace Compress
open Walk (Dir)

def headB (x : Seq) : Base := x.headD 0
def lastB (x : Seq) : Base := x.getLastD 0

/-- the base that leads back from the neighbour reached from `x` in direction `d` -/
def recip (x : Seq) (d : Dir) (flip : Bool) : Base :=
  let e := match d with
    | .R => headB x
    | .L => lastB x
  if flip then comp e else e

theorem lastB_eq' (x : Seq) (hx : x ≠ []) : x.getLastD 0 = x.getLast hx := by
  rw [List.getLastD_eq_getLast?, List.getLast?_eq_some_getLast hx]; rfl

theorem extend_back (x : Seq) (b : Base) (d : Dir) (hx : x ≠ []) :
    extend (extend x b d) (recip x d false) d.flip = x := by
  cases d
  · -- d = L : went left, come back with extendRight and the last base
    simp only [extend, Dir.flip, recip, lastB, extendLeft, extendRight, List.tail_cons]
    have hl := lastB_eq' x hx
    rw [hl]
    exact List.dropLast_concat_getLast hx
  · cases x with
    | nil => exact absurd rfl hx
    | cons a t =>
      simp [extend, Dir.flip, recip, headB, extendLeft, extendRight]

theorem rc_ne_nil {x : Seq} (hx : x ≠ []) : rc x ≠ [] := by
  intro h; apply hx
  have := congrArg List.length h
  simpa using this

theorem rc_getLast? (x : Seq) : (rc x).getLast? = x.head?.map comp := by
  simp [rc, List.getLast?_reverse, List.head?_map]

theorem rc_head? (x : Seq) : (rc x).head? = x.getLast?.map comp := by
  simp [rc, List.head?_reverse, List.getLast?_map]

theorem lastB_eq (x : Seq) (hx : x ≠ []) : x.getLast? = some (lastB x) := by
  unfold lastB
  rw [List.getLastD_eq_getLast?]
  cases h : x.getLast? with
  | none => simp [List.getLast?_eq_none_iff] at h; exact absurd h hx
  | some v => simp

theorem headB_eq (x : Seq) (hx : x ≠ []) : x.head? = some (headB x) := by
  cases x with
  | nil => exact absurd rfl hx
  | cons a t => simp [headB]

theorem extend_back_flip (x : Seq) (b : Base) (d : Dir) (hx : x ≠ []) :
    extend (rc (extend x b d)) (recip x d true) d = rc x := by
  cases d
  · -- d = L
    simp only [extend, recip, if_true]
    rw [rc_extendLeft]
    simp only [extendLeft, extendRight, List.dropLast_concat]
    have h := rc_head? x
    rw [lastB_eq x hx] at h
    cases hr : rc x with
    | nil => exact absurd hr (rc_ne_nil hx)
    | cons a t =>
      rw [hr] at h
      simp at h
      simp [h]
  · simp only [extend, recip, if_true]
    rw [rc_extendRight]
    simp only [extendLeft, extendRight, List.tail_cons]
    have h := rc_getLast? x
    rw [headB_eq x hx] at h
    have hne := rc_ne_nil hx
    have h2 : (rc x).getLast hne = comp (headB x) := by
      have := List.getLast?_eq_some_getLast hne
      rw [h] at this
      simpa using this.symm
    rw [← h2]
    exact List.dropLast_concat_getLast hne

end Compress
