import Dbg.Lemmas.DnaRefine
import Dbg.Model.Slice
/-! The block walk of `DnaString::get_kmer` / `Lmer::get_kmer` reads `K` consecutive lanes. -/
namespace DnaStr
open Block64 (blockSeq k32 k32_wf)
open Kmer (Cfg St)

/-- lane `j` of a block shifted up by `bp` lanes is lane `bp + j` of the block -/
theorem runBase_shift (v : BitVec 64) (bp j : Nat) (h : bp + j < 32) :
    KSpec.runBase (v <<< (2 * bp)) j = Kmer.get k32 v (bp + j) := by
  have e1 : KSpec.runBase (v <<< (2 * bp)) j = Kmer.get k32 (v <<< (2 * bp)) j := by
    unfold KSpec.runBase Kmer.get Kmer.addr
    have : 62 - 2 * j = (k32.K - 1 - j) * 2 := by simp [k32]; omega
    rw [this]
  have g1 := Kmer.get_bits k32_wf (s := (v <<< (2 * bp) : BitVec 64)) j
  have g2 := Kmer.get_bits k32_wf (s := v) (bp + j)
  have a1 : Kmer.addr k32 j = 62 - 2 * j := by simp [Kmer.addr, k32]; omega
  have a2 : Kmer.addr k32 (bp + j) = 62 - 2 * (bp + j) := by simp [Kmer.addr, k32]; omega
  have b1 : (v <<< (2 * bp) : BitVec 64).getLsbD (62 - 2 * j) = v.getLsbD (62 - 2 * (bp + j)) := by
    rw [BitVec.getLsbD_shiftLeft]
    have : 62 - 2 * j - 2 * bp = 62 - 2 * (bp + j) := by omega
    simp [this]; omega
  have b2 : (v <<< (2 * bp) : BitVec 64).getLsbD (62 - 2 * j + 1) = v.getLsbD (62 - 2 * (bp + j) + 1) := by
    rw [BitVec.getLsbD_shiftLeft]
    have : 62 - 2 * j + 1 - 2 * bp = 62 - 2 * (bp + j) + 1 := by omega
    simp [this]; omega
  rw [a1] at g1; rw [a2] at g2
  rw [e1]
  refine g1.trans (Eq.trans ?_ g2.symm)
  show 2 * ((v <<< (2 * bp) : BitVec 64).getLsbD (62 - 2 * j + 1)).toNat + ((v <<< (2 * bp) : BitVec 64).getLsbD (62 - 2 * j)).toNat = _
  rw [b1, b2]

theorem toSeq_getElem (c : Cfg) (s : St c) (q : Nat) (hq : q < c.K) : (Kmer.toSeq c s)[q]? = some (Kmer.get c s q) := by
  simp [Kmer.toSeq, hq]

/-- loop invariant of the block walk -/
theorem walk_inv (c : Cfg) (hc : c.WF) (S : List Block) (p : Nat) (hp : p + c.K ≤ 32 * S.length)
    (block kmerPos blockPos : Nat) (kmer : St c)
    (h1 : kmerPos < c.K → 32 * block + blockPos = p + kmerPos) (h2 : blockPos < 32) (h3 : kmerPos ≤ c.K) (hi : Kmer.Inv c kmer)
    (hq : ∀ q, q < kmerPos → (Kmer.toSeq c kmer)[q]? = (S.flatMap blockSeq)[p + q]?) :
    ∃ s, walkBlocks c S block kmerPos blockPos kmer = some s ∧ Kmer.Inv c s ∧
      ∀ q, q < c.K → (Kmer.toSeq c s)[q]? = (S.flatMap blockSeq)[p + q]? := by
  fun_induction walkBlocks c S block kmerPos blockPos kmer with
  | case1 block kmerPos blockPos kmer hk nb hnb => exfalso; simp only [nb] at hnb; omega
  | case2 block kmerPos blockPos kmer hk nb hnb hnone =>
    exfalso
    have h1' := h1 hk
    have : block < S.length := by omega
    rw [List.getElem?_eq_getElem this] at hnone; cases hnone
  | case3 block kmerPos blockPos kmer hk nb hnb v hv val ih =>
    have hn1 : 1 ≤ nb := by omega
    have hn32 : nb ≤ 32 := by simp only [nb]; omega
    have hpn : kmerPos + nb ≤ c.K := by simp only [nb]; omega
    have hnb2 : nb ≤ 32 - blockPos := by simp only [nb]; omega
    have h1' := h1 hk
    apply ih
    · intro hlt
      have : nb = 32 - blockPos := by simp only [nb] at hlt ⊢; omega
      omega
    · omega
    · exact hpn
    · exact Kmer.inv_setSliceMut hc kmer kmerPos nb val hn1 hn32 hpn hi
    · intro q hq'
      have hqK : q < c.K := by omega
      rw [toSeq_getElem c _ q hqK, Kmer.get_setSliceMut hc kmer kmerPos nb val q hn1 hn32 hpn hqK]
      by_cases hin : kmerPos ≤ q ∧ q < kmerPos + nb
      · rw [if_pos hin]
        have hlane : blockPos + (q - kmerPos) < 32 := by omega
        rw [runBase_shift v blockPos (q - kmerPos) hlane]
        have hidx : (p + q) / 32 = block ∧ (p + q) % 32 = blockPos + (q - kmerPos) := by omega
        rw [flatMap_getElem S (p + q) v (by rw [hidx.1]; exact hv), hidx.2, blockSeq_get v _ hlane]
      · rw [if_neg hin, ← toSeq_getElem c kmer q hqK]
        exact hq q (by omega)
  | case4 block kmerPos blockPos kmer hk =>
    have : kmerPos = c.K := by omega
    subst this
    exact ⟨kmer, rfl, hi, hq⟩

end DnaStr

namespace DnaStr
open Block64 (blockSeq k32 k32_wf)
open Kmer (Cfg St)

/-- the block walk over any storage: `K` consecutive lanes starting at lane `p` -/
theorem walk_spec (c : Cfg) (hc : c.WF) (S : List Block) (p : Nat) (hp : p + c.K ≤ 32 * S.length) :
    ∃ s, walkBlocks c S (p / 32) 0 (p % 32) (Kmer.empty c) = some s ∧ Kmer.Inv c s ∧
      Kmer.toSeq c s = ((S.flatMap blockSeq).drop p).take c.K := by
  obtain ⟨s, e, i, q⟩ := walk_inv c hc S p hp (p / 32) 0 (p % 32) (Kmer.empty c) (fun _ => by omega) (by omega) (by omega)
    (by intro i _; simp [Kmer.empty]) (fun q hq => by omega)
  refine ⟨s, e, i, ?_⟩
  apply List.ext_getElem?
  intro j
  by_cases hj : j < c.K
  · rw [q j hj, List.getElem?_take_of_lt hj, List.getElem?_drop]
  · rw [List.getElem?_eq_none (by simp [Kmer.toSeq]; omega), List.getElem?_eq_none (by simp; omega)]

/-- **`DnaString::get_kmer(pos)`** spells bases `pos..pos+K` -/
theorem getKmer_spec (c : Cfg) (hc : c.WF) (d : T) (h : Inv d) (pos : Nat) (hp : pos + c.K ≤ d.len) :
    ∃ s, getKmer c d pos = some s ∧ Kmer.Inv c s ∧ Kmer.toSeq c s = ((toSeq d).drop pos).take c.K := by
  have hb := h.blocks
  unfold getKmer
  rw [if_neg (by omega), addr_eq]
  obtain ⟨s, e, i, t⟩ := walk_spec c hc d.storage pos (by omega)
  refine ⟨s, e, i, ?_⟩
  rw [t]
  unfold toSeq flat
  rw [List.drop_take, List.take_take, Nat.min_eq_left (by omega)]

/-- the assertion of `get_kmer` -/
theorem getKmer_guard (c : Cfg) (d : T) (pos : Nat) (hp : ¬ pos + c.K ≤ d.len) : getKmer c d pos = none := by
  unfold getKmer; rw [if_pos (by omega)]

end DnaStr
