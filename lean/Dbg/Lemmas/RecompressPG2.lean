import Dbg.Lemmas.RecompressPG
/-! Assembly: the nodes produced by the loop of `compress_graph` on a ported graph form a ported graph. -/
namespace Compress
open Walk (Dir Conn Rel rm)
open Filter (has ExtSym2 removeCensoredExts)
open Graph (G termKmer orientedKmers)
open CompressGraph (glinkV RInv buildNode ids compressLoop)
variable {D : Type}

/-- per output node of the loop: its two ports, with the per-node obligations -/
theorem compressLoop_nodes_ok {T : Table D} {K : Nat} {st : Bool} {join0 : D → D → Bool} {nodes1 : List (Node D)}
    {port1 : Nat → Dir → Nat × Dir} {mem1 : Nat → List Nat} {lk1 : Walk.Link}
    (pg1 : PGraph T K st join0 nodes1 port1 mem1 lk1) (wf : WF T K st) (hes2 : ExtSym2 T st) (hcl : Closed T st)
    (hx8 : ∀ (i : Nat) (n : Node D), nodes1[i]? = some n → n.exts.val < 256)
    (hr : RInv (⟨K, nodes1, st⟩ : G D) (List.range nodes1.length)) (reduce : D → D → D) :
    ∀ (is avail : List Nat) (out : List (Node D × List (Nat × Dir))), (∀ z ∈ avail, z ∈ List.range nodes1.length) →
      compressLoop (⟨K, nodes1, st⟩ : G D) st (fun _ _ => true) reduce is avail = some out →
      ∃ ports : List ((Nat × Dir) × (Nat × Dir)), ports.length = out.length ∧
        ∀ (i : Nat) (np : Node D × List (Nat × Dir)) (pp : (Nat × Dir) × (Nat × Dir)), out[i]? = some np → ports[i]? = some pp →
          NodeOK T K st np.1 pp.1 pp.2 (memOf mem1 np.2) := by
  intro is
  induction is with
  | nil =>
    intro avail out _ h
    simp only [compressLoop, Option.some.injEq] at h
    subst h
    exact ⟨[], rfl, fun i np pp h _ => by simp at h⟩
  | cons j is ih =>
    intro avail out hav h
    simp only [compressLoop] at h
    by_cases hj : j ∈ avail
    · simp only [hj, if_true] at h
      obtain ⟨nd, path, a', pL, pR, hb, hok⟩ : ∃ nd path a' pL pR,
          buildNode (⟨K, nodes1, st⟩ : G D) st (fun _ _ => true) reduce avail j = some (nd, path, a') ∧
          NodeOK T K st nd pL pR (memOf mem1 path) := by
        obtain ⟨nd, path, a', hb, _, hok⟩ := recompress_node_ok pg1 wf hes2 hcl hx8 hr reduce avail hav j hj
        exact ⟨nd, path, a', _, _, hb, hok⟩
      rw [hb] at h
      simp only at h
      have hbo := CompressGraph.buildNode_ok _ st _ reduce avail j hj nd path a' hb
      cases hrest : compressLoop (⟨K, nodes1, st⟩ : G D) st (fun _ _ => true) reduce is a' with
      | none => rw [hrest] at h; cases h
      | some rest =>
        rw [hrest] at h
        simp only [Option.some.injEq] at h
        subst h
        obtain ⟨ports, hl, hp⟩ := ih a' rest (fun z hz => hav z ((hbo.2.1 z).mp hz).1) hrest
        refine ⟨(pL, pR) :: ports, by simp [hl], ?_⟩
        intro i np pp hnp hpp
        cases i with
        | zero =>
          simp only [List.getElem?_cons_zero, Option.some.injEq] at hnp hpp
          subst hnp; subst hpp
          exact hok
        | succ i =>
          rw [List.getElem?_cons_succ] at hnp hpp
          exact hp i np pp hnp hpp
    · simp only [hj, if_false] at h
      exact ih avail out hav h

theorem nodup_flatMap_fst {β} (g : Nat → List β) (f : Nat × Dir → List β) (hf : ∀ q z, z ∈ f q ↔ z ∈ g q.1)
    (hfn : ∀ q, (g q.1).Nodup → (f q).Nodup) :
    ∀ (path : List (Nat × Dir)), (path.map Prod.fst).Nodup → (∀ q ∈ path, (g q.1).Nodup) →
      (∀ q ∈ path, ∀ q' ∈ path, ∀ z, z ∈ g q.1 → z ∈ g q'.1 → q.1 = q'.1) → (path.flatMap f).Nodup := by
  intro path
  induction path with
  | nil => intro _ _ _; simp
  | cons q t ih =>
    intro hnd hn hd
    rw [List.map_cons, List.nodup_cons] at hnd
    rw [List.flatMap_cons, List.nodup_append]
    refine ⟨hfn q (hn q (List.mem_cons_self ..)), ih hnd.2 (fun q' hq' => hn q' (List.mem_cons_of_mem _ hq'))
      (fun a ha b hb => hd a (List.mem_cons_of_mem _ ha) b (List.mem_cons_of_mem _ hb)), ?_⟩
    intro x hx y hy hxy
    subst hxy
    rw [List.mem_flatMap] at hy
    obtain ⟨q', hq', hy'⟩ := hy
    have := hd q (List.mem_cons_self ..) q' (List.mem_cons_of_mem _ hq') x ((hf q x).mp hx) ((hf q' x).mp hy')
    apply hnd.1
    rw [this]
    exact List.mem_map_of_mem hq'

end Compress

namespace Compress
open Walk (Dir Conn Rel rm)
open Filter (has ExtSym2 removeCensoredExts)
open Graph (G termKmer orientedKmers)
open CompressGraph (glinkV RInv buildNode ids compressLoop)
variable {D : Type}

/-- **the nodes built by the loop of `compress_graph` on a ported graph form a ported graph over the same table** -/
theorem pgraph_of_compressLoop {T : Table D} {K : Nat} {st : Bool} {join0 : D → D → Bool} {nodes1 : List (Node D)}
    {port1 : Nat → Dir → Nat × Dir} {mem1 : Nat → List Nat} {lk1 : Walk.Link}
    (pg1 : PGraph T K st join0 nodes1 port1 mem1 lk1) (wf : WF T K st) (hes2 : ExtSym2 T st) (hcl : Closed T st)
    (hx8 : ∀ (i : Nat) (n : Node D), nodes1[i]? = some n → n.exts.val < 256)
    (hr : RInv (⟨K, nodes1, st⟩ : G D) (List.range nodes1.length)) (reduce : D → D → D)
    (out : List (Node D × List (Nat × Dir)))
    (hloop : compressLoop (⟨K, nodes1, st⟩ : G D) st (fun _ _ => true) reduce (List.range nodes1.length) (List.range nodes1.length) = some out) :
    ∃ port' mem', PGraph T K st (fun _ _ => true) (out.map (·.1)) port' mem' (linkOf T st (fun _ _ => true)) ∧
      ∀ i np, out[i]? = some np → mem' i = memOf mem1 np.2 := by
  obtain ⟨ports, hpl, hpok⟩ := compressLoop_nodes_ok pg1 wf hes2 hcl hx8 hr reduce _ _ out (fun z hz => hz) hloop
  have hsym := CompressGraph.glinkV_sym (⟨K, nodes1, st⟩ : G D) (List.range nodes1.length) hr st rfl (fun _ _ => true) (fun _ _ => rfl)
  obtain ⟨out', ho', hm⟩ := CompressGraph.compressLoop_refines (⟨K, nodes1, st⟩ : G D) (List.range nodes1.length) hr st rfl
    (fun _ _ => true) reduce (List.range nodes1.length) (List.range nodes1.length) (fun z hz => hz)
    (fun i hi => by
      have hlt : i < nodes1.length := List.mem_range.mp hi
      show (nodes1[i]?).isSome
      rw [List.getElem?_eq_getElem hlt]; rfl)
  rw [hloop] at ho'; cases ho'
  generalize hlink : glinkV (⟨K, nodes1, st⟩ : G D) st (fun _ _ => true) (List.range nodes1.length) = link at *
  have comp := Walk.compress_ok link hsym (List.range nodes1.length) (List.range nodes1.length)
  rw [← hm] at comp
  have hfl : (out.map fun np => ids np.2).flatten = out.flatMap fun np => ids np.2 := by rw [List.flatMap_def]
  obtain ⟨hnd1, hnd2⟩ := nodup_flatMap_index out (fun np => ids np.2) (by rw [← hfl]; exact comp.nodup)
  let port' : Nat → Dir → Nat × Dir := fun i s => match ports[i]? with
    | some pp => (match s with | .L => pp.1 | .R => pp.2)
    | none => (0, s)
  let mem' : Nat → List Nat := fun i => match out[i]? with
    | some np => memOf mem1 np.2
    | none => []
  have hmem : ∀ i np, out[i]? = some np → mem' i = memOf mem1 np.2 := by
    intro i np h; show (match out[i]? with | some np => _ | none => _) = _; rw [h]
  have hport : ∀ i pp s, ports[i]? = some pp → port' i s = (match s with | .L => pp.1 | .R => pp.2) := by
    intro i pp s h; show (match ports[i]? with | some pp => _ | none => _) = _; rw [h]
  have hlen' : (out.map (·.1)).length = out.length := by simp
  have hget : ∀ (i : Nat) (n : Node D), (out.map (·.1))[i]? = some n → ∃ np pp, out[i]? = some np ∧ ports[i]? = some pp ∧ n = np.1 := by
    intro i n h
    rw [List.getElem?_map] at h
    cases hx : out[i]? with
    | none => rw [hx] at h; cases h
    | some np =>
      rw [hx] at h
      have hi : i < ports.length := by rw [hpl]; exact (List.getElem?_eq_some_iff.mp hx).1
      exact ⟨np, ports[i], rfl, List.getElem?_eq_getElem hi, by simpa using h.symm⟩
  have hgetI : ∀ i, i < out.length → ∃ np pp, out[i]? = some np ∧ ports[i]? = some pp := by
    intro i hi
    exact ⟨out[i], ports[i]'(by rw [hpl]; exact hi), List.getElem?_eq_getElem hi, List.getElem?_eq_getElem _⟩
  -- ids of the paths are old node indices
  have hidsrange : ∀ np ∈ out, ∀ q ∈ np.2, q.1 < nodes1.length := by
    intro np hnp q hq
    have : q.1 ∈ ids np.2 := List.mem_map_of_mem hq
    exact List.mem_range.mp (comp.ids _ (List.mem_map_of_mem hnp) _ this)
  refine ⟨port', mem', ⟨?_, ?_, ?_, ?_, ?_, ?_, ?_, ?_, ?_, ?_, ?_, ?_, ?_, ?_⟩, hmem⟩
  · intro i n hi
    obtain ⟨np, pp, hnp, hpp, rfl⟩ := hget i n hi
    exact (hpok i np pp hnp hpp).len
  · intro i n s hi
    obtain ⟨np, pp, hnp, hpp, rfl⟩ := hget i n hi
    rw [hport i pp s hpp]
    cases s with
    | L => exact (hpok i np pp hnp hpp).npL
    | R => exact (hpok i np pp hnp hpp).npR
  · intro i n s e hi hnp' hstf hrc
    obtain ⟨np, pp, hnp, hpp, rfl⟩ := hget i n hi
    rw [hport i pp s hpp] at hnp'
    obtain ⟨a, b, c, d⟩ := (hpok i np pp hnp hpp).pal s e hnp' hstf hrc
    refine ⟨a, b, fun t => ?_⟩
    rw [hport i pp t hpp, hport i pp s hpp]
    cases s <;> cases t <;> simp only
    · exact c
    · exact d
    · rw [c]; simp only [d]
    · rw [d]
  · intro i n hi
    obtain ⟨np, pp, hnp, hpp, rfl⟩ := hget i n hi
    rw [hmem i np hnp]
    exact (hpok i np pp hnp hpp).keys
  · intro i hi
    rw [hlen'] at hi
    obtain ⟨np, pp, hnp, hpp⟩ := hgetI i hi
    rw [hmem i np hnp]
    have hnpm := List.mem_of_getElem? hnp
    unfold memOf
    apply nodup_flatMap_fst mem1 _ (fun q z => by
        constructor
        · intro hz; split at hz
          · exact hz
          · exact List.mem_reverse.mp hz
        · intro hz; split
          · exact hz
          · exact List.mem_reverse.mpr hz)
      (fun q hq => by
        split
        · exact hq
        · exact Walk.nodup_reverse' hq) np.2 (hnd1 np hnpm)
      (fun q hq => pg1.nodupM q.1 (hidsrange np hnpm q hq))
      (fun q hq q' hq' z hz hz' => pg1.disjoint q.1 q'.1 (hidsrange np hnpm q hq) (hidsrange np hnpm q' hq') z hz hz')
  · intro i j hi hj z h1 h2
    rw [hlen'] at hi hj
    obtain ⟨npi, _, hnpi, _⟩ := hgetI i hi
    obtain ⟨npj, _, hnpj, _⟩ := hgetI j hj
    rw [hmem i npi hnpi] at h1
    rw [hmem j npj hnpj] at h2
    obtain ⟨q, hq, hzq⟩ := (mem_memOf mem1 _ z).mp h1
    obtain ⟨q', hq', hzq'⟩ := (mem_memOf mem1 _ z).mp h2
    have hnpim := List.mem_of_getElem? hnpi
    have hnpjm := List.mem_of_getElem? hnpj
    have := pg1.disjoint q.1 q'.1 (hidsrange npi hnpim q hq) (hidsrange npj hnpjm q' hq') z hzq hzq'
    have e1 : out[i] = npi := by rw [List.getElem?_eq_getElem hi] at hnpi; exact Option.some.inj hnpi
    have e2 : out[j] = npj := by rw [List.getElem?_eq_getElem hj] at hnpj; exact Option.some.inj hnpj
    apply hnd2 i j hi hj q.1
    · rw [e1]; exact List.mem_map_of_mem hq
    · rw [e2, this]; exact List.mem_map_of_mem hq'
  · intro i hi z hz
    rw [hlen'] at hi
    obtain ⟨np, _, hnp, _⟩ := hgetI i hi
    rw [hmem i np hnp] at hz
    obtain ⟨q, hq, hzq⟩ := (mem_memOf mem1 _ z).mp hz
    exact pg1.inRange q.1 (hidsrange np (List.mem_of_getElem? hnp) q hq) z hzq
  · intro z hz
    obtain ⟨Y, hY, hzY⟩ := pg1.cover z hz
    obtain ⟨N, hN, hYN⟩ := comp.cover Y (List.mem_range.mpr hY) (List.mem_range.mpr hY)
    obtain ⟨np, hnp, rfl⟩ := List.mem_map.mp hN
    obtain ⟨i, hi, e⟩ := List.getElem_of_mem hnp
    refine ⟨i, by rw [hlen']; exact hi, ?_⟩
    rw [hmem i np (by rw [List.getElem?_eq_getElem hi, e])]
    obtain ⟨q, hq, hqY⟩ := List.mem_map.mp hYN
    exact (mem_memOf mem1 _ z).mpr ⟨q, hq, by rw [hqY]; exact hzY⟩
  · intro i s hi
    rw [hlen'] at hi
    obtain ⟨np, pp, hnp, hpp⟩ := hgetI i hi
    rw [hmem i np hnp, hport i pp s hpp]
    cases s with
    | L => exact (hpok i np pp hnp hpp).pLmem
    | R => exact (hpok i np pp hnp hpp).pRmem
  · intro i hi
    rw [hlen'] at hi
    obtain ⟨np, pp, hnp, hpp⟩ := hgetI i hi
    rw [hport i pp .L hpp, hport i pp .R hpp]
    exact (hpok i np pp hnp hpp).pne
  · intro x d y d' h; exact h
  · intro i hi w hw δ hL hR
    rw [hlen'] at hi
    obtain ⟨np, pp, hnp, hpp⟩ := hgetI i hi
    rw [hmem i np hnp] at hw ⊢
    rw [hport i pp .L hpp] at hL ⊢
    rw [hport i pp .R hpp] at hR ⊢
    exact (hpok i np pp hnp hpp).inner w hw δ hL hR
  · intro i hi x hx y hy
    rw [hlen'] at hi
    obtain ⟨np, pp, hnp, hpp⟩ := hgetI i hi
    rw [hmem i np hnp] at hx hy
    exact (hpok i np pp hnp hpp).connM x hx y hy
  · intro i hi
    rw [hlen'] at hi
    obtain ⟨np, pp, hnp, hpp⟩ := hgetI i hi
    rw [hmem i np hnp, hport i pp .L hpp, hport i pp .R hpp]
    exact (hpok i np pp hnp hpp).chain

end Compress

namespace Compress
open Walk (Dir Conn Rel rm)
open Filter (has ExtSym2 removeCensoredExts)
open Graph (G termKmer orientedKmers fixExts)
open CompressGraph (glinkV RInv buildNode ids compressLoop compressGraph)
variable {D : Type}

/-- **the result of `compress_graph` on a ported graph is a ported graph** (over the pruned table, pruned once more by the
    final `fix_exts`, which changes nothing but is applied by the code) -/
theorem pgraph_compressGraph {U : Table D} {K : Nat} {st : Bool} {join0 : D → D → Bool} {nodes : List (Node D)}
    {port : Nat → Dir → Nat × Dir} {members : Nat → List Nat} {lk : Walk.Link}
    (pg : PGraph U K st join0 nodes port members lk) (wf : WF U K st) (hes2 : ExtSym2 U st) (reduce : D → D → D) :
    ∃ g' paths port' mem', compressGraph st (⟨K, nodes, st⟩ : G D) (fun _ _ => true) reduce [] = some (g', paths) ∧
      g'.K = K ∧ g'.stranded = st ∧
      PGraph (removeCensoredExts st (removeCensoredExts st U)) K st (fun _ _ => true) g'.nodes port' mem'
        (linkOf (removeCensoredExts st U) st (fun _ _ => true)) ∧
      g'.nodes.length = paths.length ∧ ∀ i p, paths[i]? = some p → mem' i = memOf members p := by
  have hg := pg.ginv wf hes2
  have hpe : CompressGraph.PalEnd (⟨K, nodes, st⟩ : G D) := fun i n s hst hi hrc => pg.palEnd i n s hst hi hrc
  have pg1 := pgraph_fix pg wf hes2 (some (List.range nodes.length)) (fun t ht => by simpa using ht)
  have hr := CompressGraph.rinv_fixExts (⟨K, nodes, st⟩ : G D) hg hpe (List.range nodes.length)
  have sh := CompressGraph.fixExts_shape (⟨K, nodes, st⟩ : G D) (some (List.range nodes.length))
  generalize hg1 : fixExts (⟨K, nodes, st⟩ : G D) (some (List.range nodes.length)) = g1 at *
  have heta := graph_eta g1 K st sh.1 sh.2.1
  have hlen1 : g1.nodes.length = nodes.length := shape_length _ g1 sh
  have hx8 : ∀ (i : Nat) (n : Node D), g1.nodes[i]? = some n → n.exts.val < 256 := by
    intro i n h
    obtain ⟨n0, h0, _⟩ := CompressGraph.shape_get _ g1 sh i n h
    rw [← hg1] at h
    exact (CompressGraph.fixExts_exact _ _ i n0 n h0 h).2.2.1
  have wf1 := Filter.wf_removeCensored st U K wf
  have hes1 := Filter.extSym2_removeCensored st U K wf hes2
  have hr' : RInv (⟨K, g1.nodes, st⟩ : G D) (List.range g1.nodes.length) := by
    rw [← heta, hlen1]; exact hr
  obtain ⟨out, hloop, _⟩ := CompressGraph.compressLoop_refines (⟨K, g1.nodes, st⟩ : G D) (List.range g1.nodes.length) hr' st rfl
    (fun _ _ => true) reduce (List.range g1.nodes.length) (List.range g1.nodes.length) (fun z hz => hz)
    (fun i hi => by
      have hlt : i < g1.nodes.length := List.mem_range.mp hi
      show (g1.nodes[i]?).isSome
      rw [List.getElem?_eq_getElem hlt]; rfl)
  obtain ⟨port2, mem2, pg2, hmem2⟩ := pgraph_of_compressLoop pg1 wf1 hes1 (closed_pruned st U) hx8 hr' reduce out hloop
  have pg3 := pgraph_fix pg2 wf1 hes1 none (fun _ _ => rfl)
  have sh3 := CompressGraph.fixExts_shape (⟨K, out.map (·.1), st⟩ : G D) none
  refine ⟨fixExts (⟨K, out.map (·.1), st⟩ : G D) none, out.map (·.2), port2, mem2, ?_, sh3.1, sh3.2.1, pg3, ?_, ?_⟩
  rotate_left
  · rw [shape_length _ _ sh3]; simp
  · intro i p hp
    rw [List.getElem?_map] at hp
    cases hnp : out[i]? with
    | none => rw [hnp] at hp; cases hp
    | some np =>
      rw [hnp] at hp
      simp only [Option.map_some, Option.some.injEq] at hp
      rw [hmem2 i np hnp, hp]
  unfold compressGraph
  dsimp only
  have hvalid : ((List.range nodes.length).filter fun i => !([] : List Nat).contains i) = List.range nodes.length := by simp
  rw [hvalid, hg1]
  have hloop' : compressLoop g1 st (fun _ _ => true) reduce (List.range nodes.length) (List.range nodes.length) = some out := by
    rw [heta, ← hlen1]; exact hloop
  rw [hloop']

end Compress
