import Dbg.Lemmas.FinalKeys
import Dbg.Props.C02
/-! Sharded assembly = one-pass assembly, abstractly: shards whose concatenation is sandwiched between the pruned and
    the full reference table, compressed separately, combined and re-compressed, give the same partition of the k-mers
    into nodes as compressing the pruned reference table (in any order) in one pass. -/
namespace Compress
open Walk (Dir Conn Rel)
open Filter (has ExtSym2 removeCensoredExts)
open Graph (G)
variable {D : Type}

/-- a family of key lists is the set of classes of the relation `E` on `keys` -/
structure Classes (E : Seq → Seq → Prop) (keys : List Seq) (parts : List (List Seq)) : Prop where
  nonempty : ∀ P ∈ parts, ∃ k, k ∈ P
  sub : ∀ P ∈ parts, ∀ k ∈ P, k ∈ keys
  cover : ∀ k ∈ keys, ∃ P ∈ parts, k ∈ P
  same : ∀ P ∈ parts, ∀ k1 ∈ P, ∀ k2 ∈ keys, (k2 ∈ P ↔ E k1 k2)

theorem classes_same {E : Seq → Seq → Prop} {keys : List Seq} {A B : List (List Seq)} (ha : Classes E keys A) (hb : Classes E keys B) :
    ∀ P ∈ A, ∃ Q ∈ B, ∀ k, k ∈ P ↔ k ∈ Q := by
  intro P hP
  obtain ⟨k0, hk0⟩ := ha.nonempty P hP
  obtain ⟨Q, hQ, hk0Q⟩ := hb.cover k0 (ha.sub P hP k0 hk0)
  refine ⟨Q, hQ, fun k => ⟨fun hk => ?_, fun hk => ?_⟩⟩
  · have hkk := ha.sub P hP k hk
    exact (hb.same Q hQ k0 hk0Q k hkk).mpr ((ha.same P hP k0 hk0 k hkk).mp hk)
  · have hkk := hb.sub Q hQ k hk
    exact (ha.same P hP k0 hk0 k hkk).mpr ((hb.same Q hQ k0 hk0Q k hkk).mp hk)

/-- two graphs have the same partition of canonical k-mers into nodes -/
def SameParts (K : Nat) (st : Bool) (A B : List (Node D)) : Prop :=
  (∀ n ∈ A, ∃ m ∈ B, ∀ k, k ∈ canonKeys K st n ↔ k ∈ canonKeys K st m) ∧
  (∀ m ∈ B, ∃ n ∈ A, ∀ k, k ∈ canonKeys K st m ↔ k ∈ canonKeys K st n)

theorem sameParts_of_classes {K : Nat} {st : Bool} {E : Seq → Seq → Prop} {keys : List Seq} {A B : List (Node D)}
    (ha : Classes E keys (A.map (canonKeys K st))) (hb : Classes E keys (B.map (canonKeys K st))) : SameParts K st A B := by
  constructor
  · intro n hn
    obtain ⟨Q, hQ, h⟩ := classes_same ha hb _ (List.mem_map_of_mem hn)
    obtain ⟨m, hm, rfl⟩ := List.mem_map.mp hQ
    exact ⟨m, hm, h⟩
  · intro m hm
    obtain ⟨Q, hQ, h⟩ := classes_same hb ha _ (List.mem_map_of_mem hm)
    obtain ⟨n, hn, rfl⟩ := List.mem_map.mp hQ
    exact ⟨n, hn, h⟩

theorem contentLe_of_perm {A B : Table D} (h : A.Perm B) : ContentLe A B :=
  fun e he => ⟨e, h.mem_iff.mp he, rfl, rfl, fun _ => rfl⟩

theorem keyOf_mem {T : Table D} {x : Nat} (h : x < T.length) : keyOf T x ∈ T.map (·.key) := by
  unfold keyOf; rw [List.getElem?_eq_getElem h]; exact List.mem_map_of_mem (List.getElem_mem h)

theorem index_of_key {T : Table D} (k : Seq) (h : k ∈ T.map (·.key)) : ∃ x, x < T.length ∧ keyOf T x = k := by
  obtain ⟨e, he, rfl⟩ := List.mem_map.mp h
  obtain ⟨i, hi⟩ := mem_index T e he
  exact ⟨i, (List.getElem?_eq_some_iff.mp hi).1, keyOf_of_get hi⟩

/-- **the one-pass side**: the nodes of `compress_kmers` on a table `Td` with the content of the pruned reference table
    are the classes of the key-level good-link relation of the pruned reference table -/
theorem direct_classes {Rp Td : Table D} {K : Nat} {st : Bool} (join : D → D → Bool) (hj : ∀ a b, join a b = join b a)
    (reduce : D → D → D) (wfR : WF Rp K st) (wfd : WF Td K st) (hesd : ExtSym2 Td st) (hperm : Td.Perm Rp) :
    ∃ outd, compressKmersC Td st join reduce = some outd ∧
      Classes (KConn Rp st join) (Rp.map (·.key)) ((outd.map (·.1)).map (canonKeys K st)) := by
  obtain ⟨outd, ho, hcomp⟩ := C02_components_seq (join := join) reduce wfd hesd.toExtSym hj
  obtain ⟨outd', ho', hpermK, hlen⟩ := compressKmersC_partition (join := join) reduce wfd hesd.toExtSym hj
  rw [ho] at ho'; cases ho'
  have hkeys : ∀ k, k ∈ Td.map (·.key) ↔ k ∈ Rp.map (·.key) := fun k => (hperm.map (·.key)).mem_iff
  have hndK : (Td.map (·.key)).Nodup := by
    rw [List.Nodup, List.pairwise_iff_getElem]
    intro i j hi hj' hij
    simp only [List.getElem_map]
    intro hk
    simp only [List.length_map] at hi hj'
    have := wfd.distinct i j Td[i] Td[j] (List.getElem?_eq_getElem hi) (List.getElem?_eq_getElem hj') hk
    omega
  have hnd := hpermK.nodup_iff.mpr hndK
  obtain ⟨_, hidx⟩ := nodup_flatMap_index outd (fun x => (windowsOf K x.1.seq).map (fun w => (canonOf st w).1)) hnd
  have huniq : ∀ n1 ∈ outd, ∀ n2 ∈ outd, ∀ k, k ∈ canonKeys K st n1.1 → k ∈ canonKeys K st n2.1 → n1 = n2 := by
    intro n1 h1 n2 h2 k hk1 hk2
    obtain ⟨i, hi, e1⟩ := List.getElem_of_mem h1
    obtain ⟨j, hj', e2⟩ := List.getElem_of_mem h2
    have := hidx i j hi hj' k (by rw [e1]; exact hk1) (by rw [e2]; exact hk2)
    subst this
    rw [← e1, ← e2]
  have hcl := contentLe_of_perm hperm
  have hcl' := contentLe_of_perm hperm.symm
  refine ⟨outd, ho, ?_, ?_, ?_, ?_⟩
  · intro P hP
    obtain ⟨n, hn, rfl⟩ := List.mem_map.mp hP
    obtain ⟨x, hx, rfl⟩ := List.mem_map.mp hn
    have hl := hlen x hx
    unfold canonKeys
    rw [windowsOf_eq K x.1.seq hl]
    exact ⟨_, List.mem_map_of_mem (List.mem_map_of_mem (List.mem_range.mpr (by omega : 0 < x.1.seq.length - K + 1)))⟩
  · intro P hP k hk
    obtain ⟨n, hn, rfl⟩ := List.mem_map.mp hP
    obtain ⟨x, hx, rfl⟩ := List.mem_map.mp hn
    rw [← hkeys]
    apply hpermK.mem_iff.mp
    exact List.mem_flatMap.mpr ⟨x, hx, hk⟩
  · intro k hk
    rw [← hkeys] at hk
    have := hpermK.mem_iff.mpr hk
    obtain ⟨x, hx, hkx⟩ := List.mem_flatMap.mp this
    exact ⟨canonKeys K st x.1, List.mem_map_of_mem (List.mem_map_of_mem hx), hkx⟩
  · intro P hP k1 hk1 k2 hk2
    obtain ⟨n, hn, rfl⟩ := List.mem_map.mp hP
    obtain ⟨m, hm, rfl⟩ := List.mem_map.mp hn
    have hk1T : k1 ∈ Td.map (·.key) := by
      apply hpermK.mem_iff.mp; exact List.mem_flatMap.mpr ⟨m, hm, hk1⟩
    obtain ⟨x, hx, rfl⟩ := index_of_key k1 hk1T
    obtain ⟨y, hy, rfl⟩ := index_of_key k2 ((hkeys _).mpr hk2)
    constructor
    · intro h2
      have hc := (hcomp x y hx hy).mpr ⟨m, hm, hk1, h2⟩
      exact kconn_content join wfR hcl _ _ (conn_kconn Td st join x y hc)
    · intro hE
      have hE' := kconn_content join wfd hcl' _ _ hE
      obtain ⟨y', hy', hky, hc⟩ := kconn_conn wfd join _ _ hE' x hx rfl
      have : y' = y := keyOf_inj wfd y' y hy' hy hky
      subst this
      obtain ⟨m', hm', h1, h2⟩ := (hcomp x y' hx hy).mp hc
      have := huniq m' hm' m hm _ h1 hk1
      subst this
      exact h2

end Compress

namespace Compress
open Walk (Dir Conn Rel)
open Filter (has ExtSym2 removeCensoredExts)
open Graph (G)
open CompressGraph (ids)
variable {D : Type}

theorem keys_pruned (st : Bool) (T : Table D) : (removeCensoredExts st T).map (·.key) = T.map (·.key) := by
  simp [removeCensoredExts, List.map_map, Function.comp_def]

/-- **the sharded side**: shards whose concatenation is sandwiched by the reference table `R`, compressed separately
    (with any symmetric join predicate `join0`, e.g. never joining: one k-mer per node), combined and re-compressed
    (constantly-true join): nothing panics and the nodes of the final graph are the classes of
    the key-level good-link relation of the pruned reference table -/
theorem sharded_classes {R : Table D} {K : Nat} {st : Bool} (wfR : WF R K st) (hesR : ExtSym2 R st)
    (Ts : List (Table D)) (sw : Sandwich st Ts.flatten R) (reduce : D → D → D)
    (join0 : D → D → Bool) (hj0 : ∀ a b, join0 a b = join0 b a) :
    ∃ outs g' paths, AllBuilt st join0 reduce Ts outs ∧
      CompressGraph.compressGraph st (⟨K, (outs.map fun o => o.map (·.1)).flatten, st⟩ : G D) (fun _ _ => true) reduce [] = some (g', paths) ∧
      Classes (KConn (removeCensoredExts st R) st (fun _ _ => true)) ((removeCensoredExts st R).map (·.key))
        (g'.nodes.map (canonKeys K st)) := by
  have wfU := sandwich_wf wfR sw
  have hesU := sandwich_extSym2 wfR hesR sw
  obtain ⟨outs, hb, hp⟩ := allBuilt_of_tables (K := K) join0 hj0 reduce Ts wfU hesU
  obtain ⟨port, mem, lk, pg⟩ := pgraph_flatten K st join0 Ts _ hp wfU
  generalize hnodes : (outs.map fun o => o.map (·.1)).flatten = nodes at pg
  generalize hU : Ts.flatten = U at *
  obtain ⟨g', paths, hcg, hne, hchar⟩ := pgraph_recompress pg wfU hesU reduce (fun _ _ => true) (fun _ _ => true) (fun _ _ => rfl) (fun _ _ => rfl)
  refine ⟨outs, g', paths, hb, by rw [hnodes]; exact hcg, ?_⟩
  obtain ⟨hlenP, hkeysF⟩ := final_keys K wfU.kpos st nodes pg.len _ reduce g' paths hcg
  obtain ⟨_, _, hcovP, hrangeP, hndP⟩ := CompressGraph.C09_kmers_cover st (⟨K, nodes, st⟩ : G D) wfU.kpos pg.len _ reduce [] g' paths hcg
  have hcovP' : ∀ X, X < nodes.length → ∃ p ∈ paths, X ∈ ids p := fun X hX => hcovP X hX (by simp)
  have hrangeP' : ∀ p ∈ paths, ∀ i ∈ ids p, i < nodes.length := fun p hp i hi => (hrangeP p hp i hi).2
  obtain ⟨c1, c2⟩ := sandwich_pruned wfR sw
  have wfUp := Filter.wf_removeCensored st U K wfU
  have wfRp := Filter.wf_removeCensored st R K wfR
  have hkeysUR : ∀ k, k ∈ U.map (·.key) ↔ k ∈ (removeCensoredExts st R).map (·.key) := by
    intro k; rw [keys_pruned]; exact sw.keys.mem_iff
  -- access to old nodes
  have hnode : ∀ X, X < nodes.length → ∃ nX, nodes[X]? = some nX := fun X hX => ⟨_, List.getElem?_eq_getElem hX⟩
  have F1 : ∀ X nX, nodes[X]? = some nX → canonKeys K st nX = (mem X).map (keyOf U) := fun X nX h => pg.keys X nX h
  have F2 : ∀ k, k ∈ (removeCensoredExts st R).map (·.key) → ∃ X, X < nodes.length ∧ ∃ x ∈ mem X, keyOf U x = k := by
    intro k hk
    obtain ⟨x, hx, hkx⟩ := index_of_key k ((hkeysUR k).mpr hk)
    obtain ⟨X, hX, hxX⟩ := pg.cover x hx
    exact ⟨X, hX, x, hxX, hkx⟩
  have F3 : ∀ X Y, X < nodes.length → Y < nodes.length → ∀ x ∈ mem X, ∀ y ∈ mem Y,
      ((∃ p ∈ paths, X ∈ ids p ∧ Y ∈ ids p) ↔ KConn (removeCensoredExts st R) st (fun _ _ => true) (keyOf U x) (keyOf U y)) := by
    intro X Y hX hY x hx y hy
    obtain ⟨h1, h2⟩ := hchar X Y hX hY
    constructor
    · intro hp
      have hc := h1.mp hp x hx y hy
      have := conn_kconn _ st _ x y hc
      rw [keyOf_pruned, keyOf_pruned] at this
      exact kconn_content _ wfRp c1 _ _ this
    · intro hE
      have hE' := kconn_content _ wfUp c2 _ _ hE
      have hxl : x < (removeCensoredExts st U).length := by
        rw [(Filter.removeCensored_exact st U).1]; exact pg.inRange X hX x hx
      obtain ⟨y', hy', hky, hc⟩ := kconn_conn wfUp _ _ _ hE' x hxl (keyOf_pruned st U x)
      rw [keyOf_pruned] at hky
      rw [(Filter.removeCensored_exact st U).1] at hy'
      have : y' = y := keyOf_inj wfU y' y hy' (pg.inRange Y hY y hy) hky
      subst this
      exact h2.mpr ⟨x, hx, y', hy, hc⟩
  -- a path is determined by any of its members
  have hpathU : ∀ p ∈ paths, ∀ p' ∈ paths, ∀ X, X ∈ ids p → X ∈ ids p' → p = p' := by
    intro p hp p' hp' X h1 h2
    rw [← List.flatMap_def] at hndP
    obtain ⟨_, hidx⟩ := nodup_flatMap_index paths ids hndP
    obtain ⟨i, hi, e1⟩ := List.getElem_of_mem hp
    obtain ⟨j, hj, e2⟩ := List.getElem_of_mem hp'
    have := hidx i j hi hj X (by rw [e1]; exact h1) (by rw [e2]; exact h2)
    subst this
    rw [← e1, ← e2]
  -- new nodes and their paths
  have hget : ∀ P, P ∈ g'.nodes.map (canonKeys K st) → ∃ (i : Nat) (n' : Node D) (p : List (Nat × Dir)), g'.nodes[i]? = some n' ∧ paths[i]? = some p ∧ p ∈ paths ∧ P = canonKeys K st n' := by
    intro P hP
    obtain ⟨n', hn', rfl⟩ := List.mem_map.mp hP
    obtain ⟨i, hi, e⟩ := List.getElem_of_mem hn'
    have hip : i < paths.length := by rw [← hlenP]; exact hi
    exact ⟨i, n', paths[i], by rw [List.getElem?_eq_getElem hi, e], List.getElem?_eq_getElem hip, List.getElem_mem hip, rfl⟩
  have hmemids : ∀ (p : List (Nat × Dir)) (X : Nat), X ∈ ids p → ∃ q ∈ p, q.1 = X := by
    intro p X h
    obtain ⟨q, hq, e⟩ := List.mem_map.mp h
    exact ⟨q, hq, e⟩
  refine ⟨?_, ?_, ?_, ?_⟩
  · intro P hP
    obtain ⟨i, n', p, hn', hp, hpm, rfl⟩ := hget P hP
    cases hpe : p with
    | nil => exact absurd hpe (hne p hpm)
    | cons q t =>
      have hq : q ∈ p := by rw [hpe]; exact List.mem_cons_self ..
      have hqlt := hrangeP' p hpm q.1 (List.mem_map_of_mem hq)
      obtain ⟨nq, hnq⟩ := hnode q.1 hqlt
      have hx := pg.portMem q.1 .L hqlt
      refine ⟨keyOf U (port q.1 .L).1, (hkeysF i n' p hn' hp _).mpr ⟨q, hq, nq, hnq, ?_⟩⟩
      rw [F1 q.1 nq hnq]; exact List.mem_map_of_mem hx
  · intro P hP k hk
    obtain ⟨i, n', p, hn', hp, hpm, rfl⟩ := hget P hP
    obtain ⟨q, hq, nq, hnq, hkq⟩ := (hkeysF i n' p hn' hp k).mp hk
    rw [F1 q.1 nq hnq] at hkq
    obtain ⟨z, hz, rfl⟩ := List.mem_map.mp hkq
    have hqlt := hrangeP' p hpm q.1 (List.mem_map_of_mem hq)
    exact (hkeysUR _).mp (keyOf_mem (pg.inRange q.1 hqlt z hz))
  · intro k hk
    obtain ⟨X, hX, x, hxX, rfl⟩ := F2 k hk
    obtain ⟨p, hpm, hXp⟩ := hcovP' X hX
    obtain ⟨i, hi, e⟩ := List.getElem_of_mem hpm
    have hig : i < g'.nodes.length := by rw [hlenP]; exact hi
    refine ⟨canonKeys K st g'.nodes[i], List.mem_map_of_mem (List.getElem_mem hig), ?_⟩
    obtain ⟨q, hq, hqX⟩ := hmemids p X hXp
    obtain ⟨nX, hnX⟩ := hnode X hX
    apply (hkeysF i g'.nodes[i] p (List.getElem?_eq_getElem hig) (by rw [List.getElem?_eq_getElem hi, e]) _).mpr
    refine ⟨q, hq, nX, by rw [hqX]; exact hnX, ?_⟩
    rw [F1 X nX hnX]; exact List.mem_map_of_mem hxX
  · intro P hP k1 hk1 k2 hk2
    obtain ⟨i, n', p, hn', hp, hpm, rfl⟩ := hget P hP
    obtain ⟨q1, hq1, n1, hn1, hkq1⟩ := (hkeysF i n' p hn' hp k1).mp hk1
    rw [F1 q1.1 n1 hn1] at hkq1
    obtain ⟨x, hx, rfl⟩ := List.mem_map.mp hkq1
    have hXlt := hrangeP' p hpm q1.1 (List.mem_map_of_mem hq1)
    constructor
    · intro h2
      obtain ⟨q2, hq2, n2, hn2, hkq2⟩ := (hkeysF i n' p hn' hp k2).mp h2
      rw [F1 q2.1 n2 hn2] at hkq2
      obtain ⟨y, hy, rfl⟩ := List.mem_map.mp hkq2
      have hYlt := hrangeP' p hpm q2.1 (List.mem_map_of_mem hq2)
      exact (F3 q1.1 q2.1 hXlt hYlt x hx y hy).mp ⟨p, hpm, List.mem_map_of_mem hq1, List.mem_map_of_mem hq2⟩
    · intro hE
      obtain ⟨Y, hY, y, hyY, rfl⟩ := F2 k2 hk2
      obtain ⟨p', hp', h1, h2⟩ := (F3 q1.1 Y hXlt hY x hx y hyY).mpr hE
      have := hpathU p hpm p' hp' q1.1 (List.mem_map_of_mem hq1) h1
      subst this
      obtain ⟨q2, hq2, hq2Y⟩ := hmemids p Y h2
      obtain ⟨nY, hnY⟩ := hnode Y hY
      apply (hkeysF i n' p hn' hp _).mpr
      refine ⟨q2, hq2, nY, by rw [hq2Y]; exact hnY, ?_⟩
      rw [F1 Y nY hnY]; exact List.mem_map_of_mem hyY

/-- the abstract core: shards sandwiched by the reference table, compressed, combined and re-compressed, give the same
    partition as one-pass compression of the pruned reference table in any order -/
theorem sharded_eq_direct_abstract {R : Table D} {K : Nat} {st : Bool} (wfR : WF R K st) (hesR : ExtSym2 R st)
    (Ts : List (Table D)) (sw : Sandwich st Ts.flatten R) (reduce : D → D → D)
    (join0 : D → D → Bool) (hj0 : ∀ a b, join0 a b = join0 b a)
    (Td : Table D) (hperm : Td.Perm (removeCensoredExts st R)) :
    ∃ outs g' paths outd, AllBuilt st join0 reduce Ts outs ∧
      CompressGraph.compressGraph st (⟨K, (outs.map fun o => o.map (·.1)).flatten, st⟩ : Graph.G D) (fun _ _ => true) reduce [] = some (g', paths) ∧
      compressKmersC Td st (fun _ _ => true) reduce = some outd ∧
      SameParts K st g'.nodes (outd.map (·.1)) := by
  obtain ⟨outs, g', paths, hb, hcg, hcl⟩ := sharded_classes wfR hesR Ts sw reduce join0 hj0
  have wfRp := Filter.wf_removeCensored st R K wfR
  have hesRp := Filter.extSym2_removeCensored st R K wfR hesR
  have wfd := Filter.wf_perm st _ Td K hperm wfRp
  have hesd := Filter.extSym2_perm st _ Td K hperm wfRp hesRp
  obtain ⟨outd, hod, hcd⟩ := direct_classes (fun _ _ => true) (fun _ _ => rfl) reduce wfRp wfd hesd hperm
  exact ⟨outs, g', paths, outd, hb, hcg, hod, sameParts_of_classes hcl hcd⟩


/-- a table is sandwiched by itself -/
theorem sandwich_refl {K : Nat} {st : Bool} (T : Table D) (wf : WF T K st) : Sandwich st T T :=
  ⟨List.Perm.refl _, fun e he => by
    obtain ⟨i, hi⟩ := mem_index T e he
    exact ⟨e, he, rfl, rfl, wf.ext8 i e hi, fun _ _ h => h, fun _ _ h _ => h⟩⟩

end Compress
