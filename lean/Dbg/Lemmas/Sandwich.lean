import Dbg.Lemmas.KeyConn
/-! A table whose extension sets lie between the pruned and the full sets of a reference table (what the sharded
    pipeline produces: extensions towards other shards are kept unconditionally) is well-formed and reciprocal, and after
    pruning has the content of the pruned reference table. -/
namespace Compress
open Walk (Dir)
open Filter (has ExtSym2 removeCensoredExts extTarget)
variable {D : Type}

structure Sandwich (st : Bool) (U R : Table D) : Prop where
  keys : (U.map (·.key)).Perm (R.map (·.key))
  ent : ∀ eu ∈ U, ∃ er ∈ R, eu.key = er.key ∧ eu.data = er.data ∧ eu.exts.val < 256 ∧
    (∀ d c, has eu.exts d c → has er.exts d c) ∧
    (∀ d c, has er.exts d c → extTarget st er.key c d ∈ R.map (·.key) → has eu.exts d c)

theorem entry_of_key {R : Table D} {K : Nat} {st : Bool} (wf : WF R K st) (e1 e2 : Entry D) (h1 : e1 ∈ R) (h2 : e2 ∈ R)
    (hk : e1.key = e2.key) : e1 = e2 := by
  obtain ⟨i, hi⟩ := mem_index R e1 h1
  obtain ⟨j, hj⟩ := mem_index R e2 h2
  have := wf.distinct i j e1 e2 hi hj hk
  subst this
  rw [hi] at hj; exact Option.some.inj hj

theorem sandwich_wf {U R : Table D} {K : Nat} {st : Bool} (wf : WF R K st) (sw : Sandwich st U R) : WF U K st := by
  have hnd : (R.map (·.key)).Nodup := by
    rw [List.Nodup, List.pairwise_iff_getElem]
    intro i j hi hj hij
    simp only [List.getElem_map]
    intro hk
    simp only [List.length_map] at hi hj
    have := wf.distinct i j R[i] R[j] (List.getElem?_eq_getElem hi) (List.getElem?_eq_getElem hj) hk
    omega
  have hndU : (U.map (·.key)).Nodup := sw.keys.nodup_iff.mpr hnd
  refine ⟨wf.kpos, ?_, ?_, ?_, ?_⟩
  · intro x e h
    obtain ⟨er, hr, hk, _⟩ := sw.ent e (List.mem_of_getElem? h)
    obtain ⟨i, hi⟩ := mem_index R er hr
    rw [hk]; exact wf.len i er hi
  · intro x y ex ey hx hy hk
    rw [List.Nodup, List.pairwise_iff_getElem] at hndU
    have hxl : x < U.length := (List.getElem?_eq_some_iff.mp hx).1
    have hyl : y < U.length := (List.getElem?_eq_some_iff.mp hy).1
    have ex' : U[x] = ex := by rw [List.getElem?_eq_getElem hxl] at hx; exact Option.some.inj hx
    have ey' : U[y] = ey := by rw [List.getElem?_eq_getElem hyl] at hy; exact Option.some.inj hy
    rcases Nat.lt_trichotomy x y with h | h | h
    · exact absurd (by rw [List.getElem_map, List.getElem_map, ex', ey']; exact hk) (hndU x y (by simpa using hxl) (by simpa using hyl) h)
    · exact h
    · exact absurd (by rw [List.getElem_map, List.getElem_map, ex', ey']; exact hk.symm) (hndU y x (by simpa using hyl) (by simpa using hxl) h)
  · intro hst x e h
    obtain ⟨er, hr, hk, _⟩ := sw.ent e (List.mem_of_getElem? h)
    obtain ⟨i, hi⟩ := mem_index R er hr
    rw [hk]; exact wf.canon hst i er hi
  · intro x e h
    obtain ⟨_, _, _, _, h8, _⟩ := sw.ent e (List.mem_of_getElem? h)
    exact h8

theorem findId_of_mem {T : Table D} {K : Nat} {st : Bool} (wf : WF T K st) (e : Entry D) (h : e ∈ T) :
    ∃ y, findId T e.key = some y ∧ T[y]? = some e := by
  obtain ⟨i, hi⟩ := mem_index T e h
  exact ⟨i, findId_self wf hi, hi⟩

theorem sandwich_extSym2 {U R : Table D} {K : Nat} {st : Bool} (wf : WF R K st) (hes2 : ExtSym2 R st) (sw : Sandwich st U R) :
    ExtSym2 U st := by
  intro x ex d b y ey hx hb hy hy'
  obtain ⟨er, hrm, hkx, _, _, hup, _⟩ := sw.ent ex (List.mem_of_getElem? hx)
  obtain ⟨ery, hrym, hky, _, _, _, hlow⟩ := sw.ent ey (List.mem_of_getElem? hy')
  obtain ⟨xr, _, hxr⟩ := findId_of_mem wf er hrm
  obtain ⟨yr, hfy, hyr⟩ := findId_of_mem wf ery hrym
  obtain ⟨ey0, hy0, hkey0⟩ := findId_some hy
  rw [hy'] at hy0; cases hy0
  have hxne : er.key ≠ [] := by
    intro e
    have := wf.len xr er hxr
    rw [e] at this
    have := wf.kpos
    simp at *; omega
  rw [hkx] at hkey0 ⊢
  have hfind : findId R (canonSt st (extend er.key b d)).1 = some yr := by rw [← hkey0, hky]; exact hfy
  have hback := Filter.canon_back_key (st := st) (x := er.key) (b := b) (d := d) hxne (fun h => wf.canon h xr er hxr)
  have hmemx : er.key ∈ R.map (·.key) := List.mem_map_of_mem hrm
  rcases hes2 xr er d b yr ery hxr (hup d b hb) hfind hyr with h | ⟨hp, h⟩
  · left
    apply hlow _ _ h
    rw [Filter.extTarget_eq, ← hky, hkey0, hback]; exact hmemx
  · right
    refine ⟨by rw [hky]; exact hp, ?_⟩
    apply hlow _ _ h
    -- the palindrome's other-strand extension leads to the same canonical k-mer
    have hst : st = false := by cases st <;> simp_all
    subst hst
    have hrc : rc ery.key = ery.key := by
      have : isPalindrome ery.key = true := by simpa using hp
      unfold isPalindrome at this
      simp only [Bool.and_eq_true, beq_iff_eq] at this
      exact this.2.symm
    rw [Filter.extTarget_eq]
    have h1 := Filter.extend_comp_flip ery.key (recip er.key d (canonSt false (extend er.key b d)).2)
      (condFlip d.flip (canonSt false (extend er.key b d)).2)
    rw [hrc] at h1
    rw [h1]
    simp only [canonSt, Bool.false_eq_true, if_false]
    rw [Filter.minRcFlip_rc_key]
    have h2 := hback
    simp only [canonSt, Bool.false_eq_true, if_false] at h2 hkey0
    rw [← hky, hkey0, h2]; exact hmemx

/-- after pruning, the sandwiched table has the content of the pruned reference table -/
theorem sandwich_pruned {U R : Table D} {K : Nat} {st : Bool} (wf : WF R K st) (sw : Sandwich st U R) :
    ContentLe (removeCensoredExts st U) (removeCensoredExts st R) ∧ ContentLe (removeCensoredExts st R) (removeCensoredExts st U) := by
  have wfU := sandwich_wf wf sw
  have hkeys : ∀ k, k ∈ U.map (·.key) ↔ k ∈ R.map (·.key) := fun k => sw.keys.mem_iff
  -- one direction from entries of `U`
  have main : ∀ eu ∈ U, ∀ er ∈ R, eu.key = er.key → eu.data = er.data →
      (∀ d c, has eu.exts d c → has er.exts d c) →
      (∀ d c, has er.exts d c → extTarget st er.key c d ∈ R.map (·.key) → has eu.exts d c) →
      ∀ (eu' er' : Entry D), eu' ∈ removeCensoredExts st U → eu'.key = eu.key →
        er' ∈ removeCensoredExts st R → er'.key = er.key →
        eu'.data = er'.data ∧ ∀ d, eu'.exts.dirBits d = er'.exts.dirBits d := by
    intro eu hu er hr hk hd hup hlow eu' er' hu' hku' hr' hkr'
    obtain ⟨i, hi⟩ := mem_index _ eu' hu'
    obtain ⟨j, hj⟩ := mem_index _ er' hr'
    obtain ⟨eu0, hu0, hk0, hd0, h80, hx0⟩ := (Filter.removeCensored_exact st U).2 i eu' hi
    obtain ⟨er0, hr0, hk1, hd1, h81, hx1⟩ := (Filter.removeCensored_exact st R).2 j er' hj
    have e0 : eu0 = eu := entry_of_key wfU eu0 eu (List.mem_of_getElem? hu0) hu (by rw [← hk0, hku'])
    have e1 : er0 = er := entry_of_key wf er0 er (List.mem_of_getElem? hr0) hr (by rw [← hk1, hkr'])
    subst e0; subst e1
    refine ⟨by rw [hd0, hd1, hd], fun d => ?_⟩
    apply dirBits_ext eu'.exts er'.exts h80 h81 d
    intro c
    rw [hx0 d c, hx1 d c, hk, hkeys]
    constructor
    · rintro ⟨a, b⟩; exact ⟨hup d c a, b⟩
    · rintro ⟨a, b⟩; exact ⟨hlow d c a b, b⟩
  have hlenU : ∀ e' ∈ removeCensoredExts st U, ∃ e ∈ U, e'.key = e.key := by
    intro e' h
    obtain ⟨i, hi⟩ := mem_index _ e' h
    obtain ⟨e0, h0, hk, _⟩ := (Filter.removeCensored_exact st U).2 i e' hi
    exact ⟨e0, List.mem_of_getElem? h0, hk⟩
  have hlenR : ∀ e' ∈ removeCensoredExts st R, ∃ e ∈ R, e'.key = e.key := by
    intro e' h
    obtain ⟨i, hi⟩ := mem_index _ e' h
    obtain ⟨e0, h0, hk, _⟩ := (Filter.removeCensored_exact st R).2 i e' hi
    exact ⟨e0, List.mem_of_getElem? h0, hk⟩
  have hmk : ∀ (T : Table D) (e : Entry D), e ∈ T → ∃ e' ∈ removeCensoredExts st T, e'.key = e.key := by
    intro T e h
    obtain ⟨i, hi⟩ := mem_index T e h
    have hlt : i < (removeCensoredExts st T).length := by
      rw [(Filter.removeCensored_exact st T).1]; exact (List.getElem?_eq_some_iff.mp hi).1
    obtain ⟨e0, h0, hk, _⟩ := (Filter.removeCensored_exact st T).2 i _ (List.getElem?_eq_getElem hlt)
    rw [hi] at h0; cases h0
    exact ⟨_, List.getElem_mem hlt, hk⟩
  constructor
  · intro eu' hu'
    obtain ⟨eu, hu, hku⟩ := hlenU eu' hu'
    obtain ⟨er, hr, hk, hd, _, hup, hlow⟩ := sw.ent eu hu
    obtain ⟨er', hr', hkr⟩ := hmk R er hr
    obtain ⟨a, b⟩ := main eu hu er hr hk hd hup hlow eu' er' hu' hku hr' hkr
    exact ⟨er', hr', by rw [hku, hk, hkr], a, b⟩
  · intro er' hr'
    obtain ⟨er, hr, hkr⟩ := hlenR er' hr'
    -- the entry of `U` with this key
    have : er.key ∈ U.map (·.key) := (hkeys _).mpr (List.mem_map_of_mem hr)
    obtain ⟨eu, hu, hke⟩ := List.mem_map.mp this
    obtain ⟨er2, hr2, hk, hd, _, hup, hlow⟩ := sw.ent eu hu
    have : er2 = er := entry_of_key wf er2 er hr2 hr (by rw [← hk, hke])
    subst this
    obtain ⟨eu', hu', hku⟩ := hmk U eu hu
    obtain ⟨a, b⟩ := main eu hu er2 hr2 hk hd hup hlow eu' er' hu' hku hr' hkr
    exact ⟨eu', hu', by rw [hkr, ← hk, hku], a.symm, fun d => (b d).symm⟩

end Compress
