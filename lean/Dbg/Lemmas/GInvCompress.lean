import Dbg.Lemmas.NodeExts
import Dbg.Lemmas.GraphSym
/-! The graph produced by `compress_kmers` from a well-formed reciprocal table satisfies the node-level invariant `GInv`. -/
namespace Compress
open Walk (Dir rm)
open Filter (has hasExt_iff ExtSym2)
variable {D : Type}

/-- every node of the output was built by `build_node` around some seed -/
theorem compressLoopC_prov (T : Table D) (st : Bool) (join : D → D → Bool) (reduce : D → D → D) :
    ∀ (is avail : List Nat) (out : List (Node D × List Nat)), (∀ i ∈ is, i < T.length) →
      compressLoopC T st join reduce is avail = some out →
      ∀ x ∈ out, ∃ av seed a', seed < T.length ∧ buildNodeC T st join reduce av seed = some (x.1, x.2, a') := by
  intro is
  induction is with
  | nil => intro avail out _ h; simp only [compressLoopC, Option.some.injEq] at h; subst h; intro x hx; cases hx
  | cons i is ih =>
    intro avail out hr h
    have hi : i < T.length := hr i (by simp)
    have hrest : ∀ j ∈ is, j < T.length := fun j hj => hr j (by simp [hj])
    unfold compressLoopC at h
    by_cases hmem : i ∈ avail
    · rw [if_pos hmem] at h
      cases hb : buildNodeC T st join reduce avail i with
      | none => rw [hb] at h; cases h
      | some r =>
        obtain ⟨nd, ids, a'⟩ := r
        rw [hb] at h
        simp only at h
        cases hrec : compressLoopC T st join reduce is a' with
        | none => rw [hrec] at h; cases h
        | some rest =>
          rw [hrec] at h
          simp only [Option.some.injEq] at h
          subst h
          intro x hx
          rcases List.mem_cons.mp hx with rfl | hx'
          · exact ⟨avail, i, a', hi, hb⟩
          · exact ih a' rest hrest hrec x hx'
    · rw [if_neg hmem] at h
      exact ih avail out hrest h

/-- a node side seen as a k-mer port: the k-mer entry `e` at table position `p.1`, walked in direction `p.2`; the k-mer lies
    in the node as spelled iff `p.2 = s` -/
structure NodePort (T : Table D) (K : Nat) (st : Bool) (nd : Node D) (s : Dir) (p : Nat × Dir) (e : Entry D) : Prop where
  ent : T[p.1]? = some e
  term : Graph.termKmer K nd.seq s = (if p.2 = s then e.key else rc e.key)
  exts : ∀ b, has nd.exts s b ↔ has e.exts p.2 (if p.2 = s then b else comp b)
  strand : st = true → p.2 = s

theorem lastPort_mem (p : List (Nat × Dir)) (x : Nat) (d : Dir) : lastPort p x d = (x, d) ∨ lastPort p x d ∈ p := by
  unfold lastPort
  cases h : p.getLast? with
  | none => exact Or.inl rfl
  | some q => exact Or.inr (List.mem_of_getLast? h)

/-- the port of a built node on side `s` -/
def nodePort (T : Table D) (st : Bool) (join : D → D → Bool) (avail : List Nat) (seed : Nat) : Dir → Nat × Dir
  | .L => leftPort T st join avail seed
  | .R => rightPort T st join avail seed

theorem built_node_ports {T : Table D} {K : Nat} {st : Bool} {join : D → D → Bool} (reduce : D → D → D)
    (wf : WF T K st) (hes : ExtSym T st) (avail : List Nat) (seed : Nat) (hseed : seed < T.length)
    (nd : Node D) (ids a' : List Nat) (hb : buildNodeC T st join reduce avail seed = some (nd, ids, a')) :
    K ≤ nd.seq.length ∧ ∀ s, ∃ e, NodePort T K st nd s (nodePort T st join avail seed s) e := by
  have hs : T[seed]? = some T[seed] := List.getElem?_eq_getElem hseed
  obtain ⟨el, er, hel, her, hxl, hxr⟩ := buildNodeC_exts (join := join) reduce wf hes avail seed T[seed] hs nd ids a' hb
  obtain ⟨hlen, htl, htr⟩ := buildNodeC_terms (join := join) reduce wf hes avail seed T[seed] hs nd ids a' hb
  refine ⟨hlen, fun s => ?_⟩
  cases s with
  | L =>
    have hp : nodePort T st join avail seed .L = leftPort T st join avail seed := rfl
    rw [hp]
    refine ⟨el, hel, ?_, ?_, ?_⟩
    · show nd.seq.take K = _
      rw [htl]
      unfold oL
      rw [hel]
      cases (leftPort T st join avail seed).2 <;> simp [orientL]
    · intro b
      rw [hxl b]
      cases (leftPort T st join avail seed).2 <;> simp
    · intro hst
      rcases lastPort_mem (leftW T st join avail seed).1 seed .L with h | h
      · show (lastPort _ _ _).2 = _; rw [h]
      · exact (walk_chainL T st join (Walk.rm avail seed) seed .L T[seed] hs).2.2 hst _ h
  | R =>
    have hp : nodePort T st join avail seed .R = rightPort T st join avail seed := rfl
    rw [hp]
    refine ⟨er, her, ?_, ?_, ?_⟩
    · show nd.seq.drop (nd.seq.length - K) = _
      rw [htr]
      unfold oR
      rw [her]
      cases (rightPort T st join avail seed).2 <;> simp [orientR]
    · intro b
      rw [hxr b]
      cases (rightPort T st join avail seed).2 <;> simp
    · intro hst
      rcases lastPort_mem (rightW T st join avail seed).1 seed .R with h | h
      · show (lastPort _ _ _).2 = _; rw [h]
      · exact (walk_chainL T st join (leftW T st join avail seed).2 seed .R T[seed] hs).2.2 hst _ h

end Compress

namespace Compress
open Walk (Dir rm)
open Filter (has hasExt_iff ExtSym2 back recip_eq comp_comp seq_tri seq_lt_irrefl seq_lt_trans)
variable {D : Type}

/-! ### orientation algebra -/

def rcIf (c : Bool) (x : Seq) : Seq := if c then rc x else x

theorem rcIf_rcIf (a b : Bool) (x : Seq) : rcIf a (rcIf b x) = rcIf (xor a b) x := by
  cases a <;> cases b <;> simp [rcIf]

theorem rcIf_inj (x : Seq) (hne : rc x ≠ x) (a b : Bool) (h : rcIf a x = rcIf b x) : a = b := by
  cases a <;> cases b <;> simp [rcIf] at h ⊢
  · exact hne h.symm
  · exact hne h

theorem minRcFlip_rcIf (raw : Seq) : (minRcFlip raw).1 = rcIf (minRcFlip raw).2 raw := by
  unfold minRcFlip rcIf; split <;> simp

theorem canonSt_rcIf (st : Bool) (raw : Seq) : (canonSt st raw).1 = rcIf (canonSt st raw).2 raw := by
  cases st with
  | true => simp [canonSt, rcIf]
  | false => simp only [canonSt, Bool.false_eq_true, if_false]; exact minRcFlip_rcIf raw

theorem canonSt_flag_stranded (raw : Seq) : (canonSt true raw).2 = false := rfl

/-- a canonical key equal to `raw` or to its reverse complement is the canonical form of `raw` -/
theorem key_is_canon (st : Bool) (key raw : Seq) (hc : st = false → ¬ rc key < key) (hs : st = true → key = raw)
    (h : key = raw ∨ key = rc raw) : key = (canonSt st raw).1 := by
  cases st with
  | true => simp [canonSt]; exact hs rfl
  | false =>
    have hc := hc rfl
    simp only [canonSt, Bool.false_eq_true, if_false]
    unfold minRcFlip
    rcases h with h | h
    · subst h
      by_cases hlt : key < rc key
      · simp [hlt]
      · have : key = rc key := by
          rcases seq_tri key (rc key) with h' | h' | h'
          · exact absurd h' hlt
          · exact h'
          · exact absurd h' hc
        rw [if_neg hlt]; exact this
    · subst h
      rw [rc_rc] at hc
      simp [hc]

theorem back_rc (x : Seq) (hx : x ≠ []) (d : Dir) : back (rc x) d.flip = comp (back x d) := by
  cases d with
  | L => show headB (rc x) = comp (lastB x); exact Filter.headB_rc x hx
  | R => show lastB (rc x) = comp (headB x); exact Filter.lastB_rc x hx

/-- the boolean / direction bookkeeping of one edge, once the orientations are known -/
theorem parity_core (d pu2 s pv2 : Dir) (f fl : Bool) (β : Base)
    (hs : s = condFlip d.flip f)
    (hpar : xor (decide (pv2 ≠ s)) fl = xor f (decide (pu2 ≠ d))) :
    pv2 = condFlip pu2.flip fl ∧
      (if pv2 = s then (if f then comp (if pu2 = d then β else comp β) else (if pu2 = d then β else comp β))
        else comp (if f then comp (if pu2 = d then β else comp β) else (if pu2 = d then β else comp β))) =
      (if fl then comp β else β) := by
  subst hs
  cases d <;> cases pu2 <;> cases pv2 <;> cases f <;> cases fl <;> simp [condFlip, Dir.flip, comp_comp] at hpar ⊢

/-- either orientation: the pair of candidate ports is the same set -/
theorem parity_pal (d pu2 s : Dir) (f fl : Bool) (β : Base) (hs : s = condFlip d.flip f) :
    (condFlip pu2.flip fl = s ∧ (if fl then comp β else β) = (if f then comp (if pu2 = d then β else comp β) else (if pu2 = d then β else comp β))) ∨
    (condFlip pu2.flip fl = s.flip ∧ (if fl then comp β else β) = comp (if f then comp (if pu2 = d then β else comp β) else (if pu2 = d then β else comp β))) := by
  subst hs
  cases d <;> cases pu2 <;> cases f <;> cases fl <;> simp [condFlip, Dir.flip, comp_comp]

end Compress

namespace Compress
open Walk (Dir rm)
open Filter (has hasExt_iff ExtSym2 back recip_eq comp_comp seq_tri seq_lt_irrefl seq_lt_trans)
open Graph (termKmer)
variable {D : Type}

theorem rcIf_self (a : Bool) (x : Seq) : rcIf a (rcIf a x) = x := by cases a <;> simp [rcIf]

theorem dir_ne_iff (a b : Dir) : a ≠ b ↔ a = b.flip := by cases a <;> cases b <;> simp [Dir.flip]

/-- **reciprocity between two node sides**, at the level of the k-mers at their ports -/
theorem port_recipr {T : Table D} {K : Nat} {st : Bool} (wf : WF T K st) (hes2 : ExtSym2 T st)
    (nu nv : Node D) (d s : Dir) (pu pv : Nat × Dir) (eu ev : Entry D)
    (hu : NodePort T K st nu d pu eu) (hv : NodePort T K st nv s pv ev)
    (b : Base) (hb : has nu.exts d b) (f : Bool)
    (hterm : termKmer K nv.seq s = (if f then rc (extend (termKmer K nu.seq d) b d) else extend (termKmer K nu.seq d) b d))
    (hf0 : f = false → s = d.flip) (hf1 : f = true → s = d ∧ st = false) :
    has ev.exts pv.2 (if pv.2 = s then recip (termKmer K nu.seq d) d f else comp (recip (termKmer K nu.seq d) d f)) ∨
      (st = false ∧ rc ev.key = ev.key ∧
        has ev.exts pv.2.flip (comp (if pv.2 = s then recip (termKmer K nu.seq d) d f else comp (recip (termKmer K nu.seq d) d f)))) := by
  have hkne : eu.key ≠ [] := by
    intro e; have := wf.len _ eu hu.ent; rw [e] at this; simp at this; have := wf.kpos; omega
  -- the extension, in the coordinates of the k-mer at the port of `u`
  have hb' : has eu.exts pu.2 (if pu.2 = d then b else comp b) := (hu.exts b).mp hb
  generalize hbb : (if pu.2 = d then b else comp b) = b' at hb'
  generalize hraw : extend eu.key b' pu.2 = raw
  have hnk : extend (termKmer K nu.seq d) b d = rcIf (decide (pu.2 ≠ d)) raw := by
    rw [hu.term]
    by_cases hsame : pu.2 = d
    · simp only [hsame, if_true, ne_eq, not_true, decide_false, rcIf, Bool.false_eq_true, if_false] at hbb ⊢
      rw [← hraw, ← hbb, hsame]
    · have hfl : d = pu.2.flip := by cases h1 : pu.2 <;> cases d <;> simp_all [Dir.flip]
      simp only [hsame, if_false, ne_eq, not_false_eq_true, decide_true, rcIf, if_true] at hbb ⊢
      rw [← hraw, ← hbb, hfl]
      have := Filter.extend_comp_flip (rc eu.key) (comp b) pu.2
      rw [comp_comp, rc_rc] at this
      exact this
  have hs : s = condFlip d.flip f := by
    cases f with
    | false => simp [condFlip, hf0 rfl]
    | true => simp [condFlip, (hf1 rfl).1]
  -- the k-mer at the port of `v` is `raw` or its reverse complement
  have hevk : ev.key = rcIf (xor (decide (pv.2 ≠ s)) (xor f (decide (pu.2 ≠ d)))) raw := by
    have h1 : rcIf (decide (pv.2 ≠ s)) ev.key = rcIf f (rcIf (decide (pu.2 ≠ d)) raw) := by
      rw [← hnk]
      have := hv.term
      rw [hterm] at this
      cases f <;> by_cases hq : pv.2 = s <;> simp [rcIf, hq] at this ⊢ <;> exact this.symm
    have h2 := congrArg (rcIf (decide (pv.2 ≠ s))) h1
    rw [rcIf_self, rcIf_rcIf, rcIf_rcIf, Bool.xor_assoc] at h2
    exact h2
  have hmem : ev.key = raw ∨ ev.key = rc raw := by
    rw [hevk]; generalize (xor (decide (pv.2 ≠ s)) (xor f (decide (pu.2 ≠ d)))) = c
    cases c <;> simp [rcIf]
  have hstr : st = true → ev.key = raw := by
    intro hst
    have h1 := hu.strand hst; have h2 := hv.strand hst
    have h3 : f = false := by cases f with | false => rfl | true => have := (hf1 rfl).2; rw [hst] at this; cases this
    rw [hevk, h1, h2, h3]; simp [rcIf]
  have hck := key_is_canon st ev.key raw (fun h => wf.canon h _ ev hv.ent) hstr hmem
  have hfind : findId T (canonSt st raw).1 = some pv.1 := by rw [← hck]; exact findId_self wf hv.ent
  -- reciprocity of the table
  have hsym := hes2 pu.1 eu pu.2 b' pv.1 ev hu.ent hb' (by rw [hraw]; exact hfind) hv.ent
  rw [hraw] at hsym
  generalize hfl : (canonSt st raw).2 = fl at hsym
  -- the base leading back, in both coordinate systems
  have hR : recip (termKmer K nu.seq d) d f =
      (if f then comp (if pu.2 = d then back eu.key pu.2 else comp (back eu.key pu.2))
        else (if pu.2 = d then back eu.key pu.2 else comp (back eu.key pu.2))) := by
    rw [recip_eq, hu.term]
    by_cases hsame : pu.2 = d
    · simp only [hsame, if_true]
    · have hfl' : d = pu.2.flip := by cases h1 : pu.2 <;> cases d <;> simp_all [Dir.flip]
      simp only [hsame, if_false]
      rw [hfl', back_rc eu.key hkne pu.2]
  have hρ : recip eu.key pu.2 fl = (if fl then comp (back eu.key pu.2) else back eu.key pu.2) := recip_eq _ _ _
  rw [hR]
  rw [hρ] at hsym
  generalize back eu.key pu.2 = β at hsym ⊢
  by_cases hpal : rc raw = raw
  · -- the neighbour is its own reverse complement: either strand may have recorded the base
    have hevraw : ev.key = raw := by rcases hmem with h | h; exact h; rw [h, hpal]
    have hrcev : rc ev.key = ev.key := by rw [hevraw, hpal]
    cases st with
    | true =>
      have h1 := hu.strand rfl; have h2 := hv.strand rfl
      have h3 : f = false := by cases f with | false => rfl | true => have := (hf1 rfl).2; cases this
      have h4 : fl = false := by rw [← hfl]; rfl
      subst h3; subst h4
      rcases hsym with h | ⟨h, _⟩
      · left
        have hs' : s = d.flip := hf0 rfl
        simp only [h1, h2, hs', condFlip, Bool.false_eq_true, if_false, if_true] at h ⊢
        exact h
      · simp at h
    | false =>
      have hpp := parity_pal d pu.2 s f fl β hs
      have hv2 : pv.2 = s ∨ pv.2 = s.flip := by cases pv.2 <;> cases s <;> simp [Dir.flip]
      have hne : s.flip ≠ s := by cases s <;> simp [Dir.flip]
      rcases hsym with h | ⟨_, h⟩ <;> rcases hpp with ⟨e1, e2⟩ | ⟨e1, e2⟩ <;> rcases hv2 with e3 | e3
      all_goals (rw [e1, e2] at h)
      all_goals first
        | (left; rw [e3]; simpa [hne, Dir.flip_flip, comp_comp] using h)
        | (right; refine ⟨rfl, hrcev, ?_⟩; rw [e3]; simpa [hne, Dir.flip_flip, comp_comp] using h)
  · -- ordinary neighbour: the orientations are determined by the strings
    left
    have hnotpal : (!st && isPalindrome ev.key) = false := by
      cases hh : (!st && isPalindrome ev.key) with
      | false => rfl
      | true =>
        exfalso
        simp only [Bool.and_eq_true, Bool.not_eq_true'] at hh
        have hpk := hh.2
        unfold isPalindrome at hpk
        simp only [Bool.and_eq_true, beq_iff_eq] at hpk
        have hrk : rc ev.key = ev.key := hpk.2.symm
        rcases hmem with h | h
        · rw [h] at hrk; exact hpal hrk
        · rw [h, rc_rc] at hrk; exact hpal hrk.symm
    rcases hsym with h | ⟨hp, _⟩
    · have hpar : xor (decide (pv.2 ≠ s)) fl = xor f (decide (pu.2 ≠ d)) := by
        have h1 : rcIf fl raw = rcIf (xor (decide (pv.2 ≠ s)) (xor f (decide (pu.2 ≠ d)))) raw := by
          rw [← hevk, hck, ← hfl]; exact (canonSt_rcIf st raw).symm
        have := rcIf_inj raw hpal _ _ h1
        rw [this]
        cases (decide (pv.2 ≠ s)) <;> cases f <;> cases (decide (pu.2 ≠ d)) <;> rfl
      obtain ⟨e1, e2⟩ := parity_core d pu.2 s pv.2 f fl β hs hpar
      rw [e2, e1]; exact h
    · rw [hnotpal] at hp; cases hp

end Compress

namespace Compress
open Walk (Dir rm)
open Filter (has hasExt_iff ExtSym2)
open Graph (termKmer)
variable {D : Type}

/-! ### a terminal k-mer identifies its node and side -/

theorem nodup_flatMap_index {α β : Type} (l : List α) (f : α → List β) (h : (l.flatMap f).Nodup) :
    (∀ x ∈ l, (f x).Nodup) ∧
    ∀ (i j : Nat) (hi : i < l.length) (hj : j < l.length) (a : β), a ∈ f l[i] → a ∈ f l[j] → i = j := by
  rw [List.flatMap_def, List.Nodup, List.pairwise_flatten] at h
  obtain ⟨h1, h2⟩ := h
  refine ⟨fun x hx => h1 (f x) (List.mem_map_of_mem hx), ?_⟩
  rw [List.pairwise_iff_getElem] at h2
  intro i j hi hj a hai haj
  rcases Nat.lt_trichotomy i j with hlt | heq | hgt
  · have := h2 i j (by simpa using hi) (by simpa using hj) hlt a (by simpa using hai) a (by simpa using haj)
    exact absurd rfl this
  · exact heq
  · have := h2 j i (by simpa using hj) (by simpa using hi) hgt a (by simpa using haj) a (by simpa using hai)
    exact absurd rfl this

theorem term_mem_windows (K : Nat) (s : Seq) (hK : 1 ≤ K) (h : K ≤ s.length) (side : Dir) : termKmer K s side ∈ windowsOf K s := by
  obtain ⟨h1, h2⟩ := windowsOf_head_last K s hK h
  cases side with
  | L => exact List.mem_of_mem_head? h1
  | R => exact List.mem_of_getLast? h2

/-- in a list of windows with pairwise distinct canonical forms, equal canonical forms of the first and the last window
    mean there is only one window -/
theorem single_window (K : Nat) (st : Bool) (s : Seq) (hK : 1 ≤ K) (h : K ≤ s.length)
    (hnd : ((windowsOf K s).map (fun w => (canonOf st w).1)).Nodup)
    (he : (canonOf st (termKmer K s .L)).1 = (canonOf st (termKmer K s .R)).1) : s.length = K := by
  rw [windowsOf_eq K s h, List.map_map] at hnd
  rw [List.Nodup, List.pairwise_map, List.pairwise_iff_getElem] at hnd
  by_cases hlen : s.length = K
  · exact hlen
  · exfalso
    have h0 : 0 < (List.range (s.length - K + 1)).length := by simp
    have hl : s.length - K < (List.range (s.length - K + 1)).length := by simp
    have := hnd 0 (s.length - K) h0 hl (by omega)
    simp only [List.getElem_range, Function.comp] at this
    apply this
    have e1 : termKmer K s .L = (s.drop 0).take K := by simp [termKmer]
    have e2 : termKmer K s .R = (s.drop (s.length - K)).take K := by
      show s.drop (s.length - K) = _
      rw [List.take_of_length_le (by simp; omega)]
    rw [← e1, ← e2]; exact he

end Compress

namespace Compress
open Walk (Dir rm)
open Filter (has hasExt_iff ExtSym2)
open Graph (termKmer)
variable {D : Type}

/-! ### a palindromic k-mer forms a node by itself -/

theorem isPal_of_rc (k : Seq) (h : rc k = k) : isPalindrome k = true := by
  unfold isPalindrome
  have := rc_eq_self_even k h
  simp [this, h]

/-- a walk step never leaves and never enters a palindromic k-mer -/
theorem link_not_pal (T : Table D) (st : Bool) (join : D → D → Bool) (x y : Nat) (d d' : Dir)
    (h : linkOf T st join x d = some (y, d')) (hst : st = false) :
    (∀ ex, T[x]? = some ex → rc ex.key ≠ ex.key) ∧ (∀ ey, T[y]? = some ey → rc ey.key ≠ ey.key) := by
  obtain ⟨ex, ey, b, f⟩ := linkOf_inv T st join h
  subst hst
  constructor
  · intro ex' hx' hrc
    rw [f.hx] at hx'; cases hx'
    have := f.palx
    rw [isPal_of_rc _ hrc] at this; simp at this
  · intro ey' hy' hrc
    rw [f.hy] at hy'; cases hy'
    obtain ⟨ey2, h2, k2⟩ := findId_some f.hfind
    rw [f.hy] at h2; cases h2
    have := f.paly
    rw [← k2, isPal_of_rc _ hrc] at this; simp at this

theorem lastPort_linked (link : Walk.Link) (x : Nat) (d : Dir) (p : List (Nat × Dir)) (h : LinkedFrom link x d p) :
    lastPort p x d = (x, d) ∨ ∃ x' d', link x' d' = some (lastPort p x d) := by
  induction p generalizing x d with
  | nil => exact Or.inl rfl
  | cons q t ih =>
    obtain ⟨q1, q2⟩ := q
    obtain ⟨h1, h2⟩ := h
    rw [lastPort_cons]
    rcases ih q1 q2 h2 with h3 | h3
    · right; exact ⟨x, d, by rw [h3]; exact h1⟩
    · exact Or.inr h3

/-- **a node with a palindromic k-mer at one of its ports consists of that k-mer alone**, and both its sides are ports of
    that k-mer, as spelled -/
theorem pal_port_single {T : Table D} {K : Nat} {join : D → D → Bool} (reduce : D → D → D)
    (wf : WF T K false) (hes : ExtSym T false) (avail : List Nat) (seed : Nat) (hseed : seed < T.length)
    (nd : Node D) (ids a' : List Nat) (hb : buildNodeC T false join reduce avail seed = some (nd, ids, a'))
    (s : Dir) (e : Entry D) (hp : NodePort T K false nd s (nodePort T false join avail seed s) e) (hrc : rc e.key = e.key) :
    nd.seq.length = K ∧ rc nd.seq = nd.seq ∧ e = T[seed] ∧ ∀ t, nodePort T false join avail seed t = (seed, t) := by
  have hs : T[seed]? = some T[seed] := List.getElem?_eq_getElem hseed
  have hLL := walk_linked (linkOf T false join) (Walk.rm avail seed) seed .L
  have hLR := walk_linked (linkOf T false join) (leftW T false join avail seed).2 seed .R
  -- the port is the seed: a palindrome is never the target of a link
  have hport : nodePort T false join avail seed s = (seed, s) := by
    cases s with
    | L =>
      rcases lastPort_linked _ seed .L _ hLL with h | ⟨x', d', h⟩
      · exact h
      · exfalso
        have hq : linkOf T false join x' d' = some ((nodePort T false join avail seed .L).1, (nodePort T false join avail seed .L).2) := h
        exact (link_not_pal T false join x' _ d' _ hq rfl).2 e hp.ent hrc
    | R =>
      rcases lastPort_linked _ seed .R _ hLR with h | ⟨x', d', h⟩
      · exact h
      · exfalso
        have hq : linkOf T false join x' d' = some ((nodePort T false join avail seed .R).1, (nodePort T false join avail seed .R).2) := h
        exact (link_not_pal T false join x' _ d' _ hq rfl).2 e hp.ent hrc
  have he : e = T[seed] := by
    have := hp.ent
    rw [hport, hs] at this
    exact (Option.some.inj this).symm
  subst he
  -- the seed is a palindrome, so neither walk makes a step
  have hl0 : (leftW T false join avail seed).1 = [] := by
    cases hl : (leftW T false join avail seed).1 with
    | nil => rfl
    | cons q t =>
      exfalso
      have : LinkedFrom (linkOf T false join) seed .L (q :: t) := by rw [← hl]; exact hLL
      obtain ⟨q1, q2⟩ := q
      exact (link_not_pal T false join seed q1 .L q2 this.1 rfl).1 _ hs hrc
  have hr0 : (rightW T false join avail seed).1 = [] := by
    cases hr : (rightW T false join avail seed).1 with
    | nil => rfl
    | cons q t =>
      exfalso
      have : LinkedFrom (linkOf T false join) seed .R (q :: t) := by rw [← hr]; exact hLR
      obtain ⟨q1, q2⟩ := q
      exact (link_not_pal T false join seed q1 .R q2 this.1 rfl).1 _ hs hrc
  obtain ⟨nd', hb', hw, _⟩ := buildNodeC_spec (join := join) reduce wf hes avail seed T[seed] hs
  rw [hb] at hb'
  simp only [Option.some.injEq, Prod.mk.injEq] at hb'
  obtain ⟨rfl, _, _⟩ := hb'
  rw [hl0, hr0] at hw
  simp only [List.map_nil, List.reverse_nil, List.nil_append, List.append_nil] at hw
  have hlenK : K ≤ nd.seq.length := (built_node_ports (join := join) reduce wf hes avail seed hseed nd ids a' hb).1
  have hcount : nd.seq.length = K := by
    have := congrArg List.length hw
    rw [windowsOf_eq K nd.seq hlenK] at this
    simp at this
    omega
  have hseq : nd.seq = T[seed].key := by
    have h1 := (windowsOf_head_last K nd.seq wf.kpos hlenK).1
    rw [hw] at h1
    simp only [List.head?_cons, Option.some.injEq] at h1
    rw [h1, ← hcount, List.take_length]
  refine ⟨hcount, by rw [hseq]; exact hrc, rfl, ?_⟩
  intro t
  cases t with
  | L => show lastPort (leftW T false join avail seed).1 seed .L = _; rw [hl0]; rfl
  | R => show lastPort (rightW T false join avail seed).1 seed .R = _; rw [hr0]; rfl

end Compress

namespace Compress
open Walk (Dir rm)
open Filter (has hasExt_iff ExtSym2)
open Graph (termKmer)
variable {D : Type}

theorem canonOf_rc (w : Seq) : (canonOf false (rc w)).1 = (canonOf false w).1 := by
  simp only [canonOf, Bool.false_eq_true, if_false]
  exact Filter.minRcFlip_rc_key w

/-- **the graph built by `compress_kmers` satisfies the node-level invariant** -/
theorem compress_ginv {T : Table D} {K : Nat} {st : Bool} {join : D → D → Bool} (reduce : D → D → D)
    (wf : WF T K st) (hes2 : ExtSym2 T st) (hj : ∀ a b, join a b = join b a)
    (out : List (Node D × List Nat)) (ho : compressKmersC T st join reduce = some out) :
    Graph.GInv (⟨K, out.map (·.1), st⟩ : Graph.G D) := by
  have hes := hes2.toExtSym
  obtain ⟨out', ho', hperm, hlen⟩ := compressKmersC_partition (join := join) reduce wf hes hj
  rw [ho] at ho'; cases ho'
  have hprov := compressLoopC_prov T st join reduce (List.range T.length) (List.range T.length) out
    (fun i hi => List.mem_range.mp hi) ho
  -- canonical k-mers of all nodes are pairwise distinct
  have hkeys : (T.map (·.key)).Nodup := by
    rw [List.Nodup, List.pairwise_iff_getElem]
    intro i j hi hj' hij
    simp only [List.getElem_map]
    intro hk
    simp only [List.length_map] at hi hj'
    have := wf.distinct i j T[i] T[j] (List.getElem?_eq_getElem hi) (List.getElem?_eq_getElem hj') hk
    omega
  have hnd := hperm.nodup_iff.mpr hkeys
  obtain ⟨hnd1, hnd2⟩ := nodup_flatMap_index out (fun x => (windowsOf K x.1.seq).map (fun w => (canonOf st w).1)) hnd
  -- access to the nodes
  have hget : ∀ (i : Nat) (n : Node D), (out.map (·.1))[i]? = some n → ∃ x, out[i]? = some x ∧ n = x.1 := by
    intro i n h
    rw [List.getElem?_map] at h
    cases hx : out[i]? with
    | none => rw [hx] at h; cases h
    | some x => rw [hx] at h; exact ⟨x, rfl, by simpa using h.symm⟩
  have hcan : ∀ (i : Nat) (x : Node D × List Nat) (hi : out[i]? = some x) (s : Dir),
      (canonOf st (termKmer K x.1.seq s)).1 ∈ (windowsOf K x.1.seq).map (fun w => (canonOf st w).1) := by
    intro i x hi s
    exact List.mem_map_of_mem (term_mem_windows K x.1.seq wf.kpos (hlen x (List.mem_of_getElem? hi)) s)
  refine ⟨⟨wf.kpos, ?_, ?_, ?_⟩, ?_⟩
  · intro i n hi
    obtain ⟨x, hx, rfl⟩ := hget i n hi
    exact hlen x (List.mem_of_getElem? hx)
  · intro i j ni nj s hi hj' ht
    obtain ⟨xi, hxi, rfl⟩ := hget i ni hi
    obtain ⟨xj, hxj, rfl⟩ := hget j nj hj'
    have li := Graph.getElem?_lt hxi; have lj := Graph.getElem?_lt hxj
    have e1 : out[i] = xi := by rw [List.getElem?_eq_getElem li] at hxi; exact Option.some.inj hxi
    have e2 : out[j] = xj := by rw [List.getElem?_eq_getElem lj] at hxj; exact Option.some.inj hxj
    apply hnd2 i j li lj (canonOf st (termKmer K xi.1.seq s)).1
    · rw [e1]; exact hcan i xi hxi s
    · rw [e2]
      show (canonOf st (termKmer K xi.1.seq s)).1 ∈ _
      rw [show termKmer K xi.1.seq s = termKmer K xj.1.seq s from ht]; exact hcan j xj hxj s
  · intro i j ni nj s hst hi hj' ht
    have hst' : st = false := hst
    subst hst'
    obtain ⟨xi, hxi, rfl⟩ := hget i ni hi
    obtain ⟨xj, hxj, rfl⟩ := hget j nj hj'
    have li := Graph.getElem?_lt hxi; have lj := Graph.getElem?_lt hxj
    have e1 : out[i] = xi := by rw [List.getElem?_eq_getElem li] at hxi; exact Option.some.inj hxi
    have e2 : out[j] = xj := by rw [List.getElem?_eq_getElem lj] at hxj; exact Option.some.inj hxj
    have ht' : termKmer K xi.1.seq s.flip = rc (termKmer K xj.1.seq s) := ht
    have hij : i = j := by
      apply hnd2 i j li lj (canonOf false (termKmer K xi.1.seq s.flip)).1
      · rw [e1]; exact hcan i xi hxi s.flip
      · rw [e2, ht', canonOf_rc]; exact hcan j xj hxj s
    subst hij
    rw [hxi] at hxj; cases hxj
    refine ⟨rfl, ?_⟩
    apply single_window K false xi.1.seq wf.kpos (hlen xi (List.mem_of_getElem? hxi)) (hnd1 xi (List.mem_of_getElem? hxi))
    cases s with
    | L => have : termKmer K xi.1.seq .R = rc (termKmer K xi.1.seq .L) := ht'
           rw [this, canonOf_rc]
    | R => have : termKmer K xi.1.seq .L = rc (termKmer K xi.1.seq .R) := ht'
           rw [this, canonOf_rc]
  · intro u v nu nv d s b f hu hv hb hl
    obtain ⟨xu, hxu, rfl⟩ := hget u nu hu
    obtain ⟨xv, hxv, rfl⟩ := hget v nv hv
    obtain ⟨avu, su, au', hsu, hbu⟩ := hprov xu (List.mem_of_getElem? hxu)
    obtain ⟨avv, sv, av', hsv, hbv⟩ := hprov xv (List.mem_of_getElem? hxv)
    obtain ⟨_, hpu⟩ := built_node_ports (join := join) reduce wf hes avu su hsu xu.1 xu.2 au' hbu
    obtain ⟨_, hpv⟩ := built_node_ports (join := join) reduce wf hes avv sv hsv xv.1 xv.2 av' hbv
    obtain ⟨eu, hpu⟩ := hpu d
    obtain ⟨ev, hpvs⟩ := hpv s
    obtain ⟨nv', hv', hterm, hf0, hf1⟩ := Graph.findLink_sound _ _ _ _ _ _ hl
    rw [hv] at hv'; cases hv'
    have hterm' : termKmer K xv.1.seq s = (if f then rc (extend (termKmer K xu.1.seq d) b d) else extend (termKmer K xu.1.seq d) b d) := hterm
    rcases port_recipr wf hes2 xu.1 xv.1 d s _ _ eu ev hpu hpvs b hb f hterm' hf0 (fun h => ⟨(hf1 h).1, (hf1 h).2⟩) with h | ⟨hst, hrc, h⟩
    · left; exact (hpvs.exts _).mpr h
    · right
      subst hst
      obtain ⟨hK, hrs, hev, hports⟩ := pal_port_single (join := join) reduce wf hes avv sv hsv xv.1 xv.2 av' hbv s ev hpvs hrc
      refine ⟨⟨xv.1, hv, rfl, hK, hrs⟩, ?_⟩
      obtain ⟨ev', hpv'⟩ := hpv s.flip
      have he' : ev' = ev := by
        have h1 := hpv'.ent; have h2 := hpvs.ent
        rw [hports] at h1 h2
        rw [h1] at h2; exact Option.some.inj h2
      subst he'
      rw [hpv'.exts]
      have hps : (nodePort T false join avv sv s).2 = s := by rw [hports]
      have hpf : (nodePort T false join avv sv s.flip).2 = s.flip := by rw [hports]
      rw [hps] at h
      rw [hpf]
      simpa using h

end Compress
