import Dbg.Model.Avx2
import Dbg.Spec.C10
import Dbg.Lemmas.DnaRefine
/-! The AVX2 kernels, lane by lane: `convert_bases` is the scalar table on every lane and
    `pack_32_bases` packs the low two bits of byte `i` into bits `63-2i, 62-2i`. -/
namespace Avx2

theorem byte_map_range (f : Nat → Nat) (i : Nat) (hi : i < 32) : byte ((List.range 32).map f) i = f i := by
  unfold byte
  rw [List.getD_eq_getElem?_getD, List.getElem?_map, List.getElem?_range hi]; rfl

theorem byte_replicate (x i : Nat) (hi : i < 32) : byte (List.replicate 32 x) i = x := by
  unfold byte
  rw [List.getD_eq_getElem?_getD, List.getElem?_replicate]; simp [hi]

theorem all_congr_mem {α} (l : List α) (p q : α → Bool) (h : ∀ a ∈ l, p a = q a) : l.all p = l.all q := by
  induction l with
  | nil => rfl
  | cons a t ih => simp only [List.all_cons]; rw [h a (by simp), ih (fun x hx => h x (by simp [hx]))]

/-- a vector of 32 bytes -/
def IsVec (v : V) : Prop := v.length = 32 ∧ ∀ b ∈ v, b < 256

theorem byte_lt (v : V) (hv : IsVec v) (i : Nat) : byte v i < 256 := by
  unfold byte
  rw [List.getD_eq_getElem?_getD]
  by_cases hi : i < v.length
  · rw [List.getElem?_eq_getElem hi]; exact hv.2 _ (List.getElem_mem _)
  · rw [List.getElem?_eq_none (by omega)]; decide

/-- the 16-bit logical right shift by 3, masked to four bits, is the per-byte `(c >> 3) & 15` -/
theorem srli3_lane (input : V) (hv : IsVec input) (i : Nat) (hi : i < 32) :
    byte (andSi256 (srliEpi16 input 3) (set1Epi8 15)) i = (byte input i >>> 3) &&& 15 := by
  unfold andSi256
  rw [byte_map_range _ i hi]
  unfold set1Epi8
  rw [byte_replicate 15 i hi]
  unfold srliEpi16 ofWords16
  rw [byte_map_range _ i hi]
  unfold word16
  have h0 := byte_lt input hv (2 * (i / 2))
  have h1 := byte_lt input hv (2 * (i / 2) + 1)
  have e15 : ∀ x, x &&& 15 = x % 16 := fun x => Nat.and_two_pow_sub_one_eq_mod x 4
  simp only [Nat.shiftRight_eq_div_pow, e15]
  by_cases hp : i % 2 = 0
  · have : 2 * (i / 2) = i := by omega
    rw [this] at h0 ⊢
    simp only [hp, if_true]
    omega
  · have : 2 * (i / 2) + 1 = i := by omega
    rw [this] at h1 ⊢
    simp only [hp, if_false]
    omega

/-- one lane of `convert_bases`, as a function of the lane index and the byte in that lane -/
def laneConv (i c : Nat) : Nat × Nat :=
  let hi := (c >>> Gen.avxHiShift) &&& Gen.avxLoMask
  let hiLookup := if hi &&& 0x80 ≠ 0 then 0 else byte hiLut ((i / 16) * 16 + (hi &&& 0x0F))
  let loLookup := if c &&& 0x80 ≠ 0 then 0 else byte Gen.avxLoLut ((i / 16) * 16 + (c &&& 0x0F))
  let maskb := if (loLookup &&& hiLookup) = 0 then 255 else 0
  let shuffled := if c &&& 0x80 ≠ 0 then 0 else byte Gen.avxLut ((i / 16) * 16 + (c &&& 0x0F))
  ((255 - maskb) &&& shuffled, maskb)

def isValidByte (c : Nat) : Bool := Gen.isValidBase.getD c 0 == 1

/-- **lane table**: on every lane and for every byte value, the vector kernel computes the scalar
    `base_to_bits` and flags exactly the non-ACGT bytes (8192 cases, decided by the kernel against the
    tables regenerated from the source) -/
theorem lane_table : ∀ i : Fin 32, ∀ c : Fin 256,
    laneConv i.val c.val = (baseToBits c.val, if isValidByte c.val then 0 else 255) := by decide +kernel

theorem convert_lanes (input : V) (hv : IsVec input) :
    (convertBases input).1 = (List.range 32).map (fun i => (laneConv i (byte input i)).1) ∧
    (convertBases input).2 = (List.range 32).all (fun i => (laneConv i (byte input i)).2 == 0) := by
  have hhi : ∀ i, i < 32 → byte (andSi256 (srliEpi16 input Gen.avxHiShift) (set1Epi8 Gen.avxLoMask)) i = (byte input i >>> 3) &&& 15 :=
    fun i hi => srli3_lane input hv i hi
  have hmask : ∀ i, i < 32 →
      byte (cmpeqEpi8 (andSi256 (shuffleEpi8 Gen.avxLoLut input)
        (shuffleEpi8 hiLut (andSi256 (srliEpi16 input Gen.avxHiShift) (set1Epi8 Gen.avxLoMask)))) zero) i =
      (laneConv i (byte input i)).2 := by
    intro i hi
    have hh := hhi i hi
    generalize andSi256 (srliEpi16 input Gen.avxHiShift) (set1Epi8 Gen.avxLoMask) = H at hh ⊢
    unfold cmpeqEpi8
    rw [byte_map_range _ i hi]
    unfold zero
    rw [byte_replicate 0 i hi]
    unfold andSi256
    rw [byte_map_range _ i hi]
    unfold shuffleEpi8
    rw [byte_map_range _ i hi, byte_map_range _ i hi]
    simp only [hh]
    rfl
  constructor
  · unfold convertBases
    simp only
    unfold andnotSi256
    apply List.map_congr_left
    intro i hi
    rw [List.mem_range] at hi
    rw [hmask i hi]
    unfold shuffleEpi8
    rw [byte_map_range _ i hi]
    rfl
  · unfold convertBases
    simp only
    unfold testcSi256 andnotSi256
    rw [List.all_map]
    apply all_congr_mem
    intro i hi
    rw [List.mem_range] at hi
    simp only [Function.comp]
    rw [hmask i hi]
    unfold zero
    rw [byte_replicate 0 i hi]
    have h255 : ∀ x, (255 - 0) &&& x = x % 256 := fun x => by
      have := Nat.and_two_pow_sub_one_eq_mod x 8
      rw [Nat.and_comm]; exact this
    rw [h255]
    -- the mask byte is 0 or 255
    have : (laneConv i (byte input i)).2 = 0 ∨ (laneConv i (byte input i)).2 = 255 := by
      have helper : ∀ (P : Prop) [Decidable P], (if P then 255 else 0 : Nat) = 0 ∨ (if P then 255 else 0 : Nat) = 255 := by
        intro P _; by_cases hP : P <;> simp [hP]
      unfold laneConv; dsimp only
      exact helper _
    rcases this with h | h <;> simp [h]

/-- **`convert_bases`** on 32 arbitrary bytes = the scalar table on every lane; the flag says "all ACGT" -/
theorem convert_spec (input : V) (hv : IsVec input) :
    (convertBases input).1 = input.map baseToBits ∧ (convertBases input).2 = input.all isValidByte := by
  obtain ⟨h1, h2⟩ := convert_lanes input hv
  have hl := hv.1
  have hlane : ∀ i, i < 32 → laneConv i (byte input i) = (baseToBits (byte input i), if isValidByte (byte input i) then 0 else 255) :=
    fun i hi => lane_table ⟨i, hi⟩ ⟨byte input i, byte_lt input hv i⟩
  have hbyte : ∀ i (h : i < input.length), byte input i = input[i] := by
    intro i h; unfold byte; rw [List.getD_eq_getElem?_getD, List.getElem?_eq_getElem h]; rfl
  constructor
  · rw [h1]
    apply List.ext_getElem
    · simp [hl]
    · intro i p1 p2
      simp only [List.length_map, List.length_range] at p1
      simp only [List.getElem_map, List.getElem_range]
      rw [hlane i p1, hbyte i (by omega)]
  · rw [h2]
    have : input = (List.range 32).map (fun i => byte input i) := by
      apply List.ext_getElem
      · simp [hl]
      · intro i p1 p2
        simp only [List.getElem_map, List.getElem_range]
        exact (hbyte i p1).symm
    conv => rhs; rw [this, List.all_map]
    apply all_congr_mem
    intro i hi
    rw [List.mem_range] at hi
    simp only [Function.comp]
    rw [hlane i hi]
    cases isValidByte (byte input i) <;> simp

end Avx2

namespace Avx2

/-! ### `pack_32_bases` -/

def sumTo (n : Nat) (g : Nat → Nat) : Nat := (List.range n).foldl (fun acc i => acc + g i) 0

theorem foldl_add_shift (l : List Nat) (g : Nat → Nat) (s : Nat) :
    l.foldl (fun acc i => acc + g i) s = s + l.foldl (fun acc i => acc + g i) 0 := by
  induction l generalizing s with
  | nil => simp
  | cons a t ih => simp only [List.foldl_cons]; rw [ih (s + g a), ih (0 + g a)]; omega

theorem sumTo_succ (n : Nat) (g : Nat → Nat) : sumTo (n + 1) g = sumTo n g + g n := by
  unfold sumTo; rw [List.range_succ, List.foldl_append]; rfl

theorem sumTo_congr (n : Nat) (g h : Nat → Nat) (e : ∀ i, i < n → g i = h i) : sumTo n g = sumTo n h := by
  induction n with
  | zero => rfl
  | succ n ih => rw [sumTo_succ, sumTo_succ, ih (fun i hi => e i (by omega)), e n (by omega)]

/-- bits in pairs: `Σ_{i<2n} f i · 2^i = Σ_{m<n} (f(2m) + 2·f(2m+1)) · 4^m` -/
theorem sumTo_pairs (n : Nat) (f : Nat → Nat) :
    sumTo (2 * n) (fun i => f i * 2 ^ i) = sumTo n (fun m => (f (2 * m) + 2 * f (2 * m + 1)) * 4 ^ m) := by
  induction n with
  | zero => rfl
  | succ n ih =>
    rw [show 2 * (n + 1) = 2 * n + 1 + 1 by omega, sumTo_succ, sumTo_succ, sumTo_succ, ih]
    have e4 : (4 : Nat) ^ n = 2 ^ (2 * n) := by rw [Nat.pow_mul]
    rw [e4, Nat.pow_succ, Nat.add_mul]
    generalize (2 : Nat) ^ (2 * n) = P
    have h : f (2 * n + 1) * (P * 2) = 2 * f (2 * n + 1) * P := by
      rw [Nat.mul_comm P 2, ← Nat.mul_assoc, Nat.mul_comm (f (2 * n + 1)) 2]
    rw [h]; omega

theorem sumTo_split (a b : Nat) (g : Nat → Nat) : sumTo (a + b) g = sumTo a g + sumTo b (fun m => g (a + m)) := by
  induction b with
  | zero => simp [sumTo]
  | succ b ih => rw [← Nat.add_assoc, sumTo_succ, sumTo_succ, ih]; omega

theorem sumTo_mul (n c : Nat) (g : Nat → Nat) : sumTo n (fun m => g m * c) = sumTo n g * c := by
  induction n with
  | zero => simp [sumTo]
  | succ n ih => rw [sumTo_succ, sumTo_succ, ih, Nat.add_mul]

/-- base-4 digits of a digit sum -/
theorem digits_lt (n : Nat) (d : Nat → Nat) (hd : ∀ m, d m < 4) : sumTo n (fun m => d m * 4 ^ m) < 4 ^ n := by
  induction n with
  | zero => simp [sumTo]
  | succ n ih =>
    rw [sumTo_succ, Nat.pow_succ]
    have := hd n
    have h1 : d n * 4 ^ n ≤ 3 * 4 ^ n := Nat.mul_le_mul_right _ (by omega)
    omega

theorem digit_extract (n : Nat) (d : Nat → Nat) (hd : ∀ m, d m < 4) (k : Nat) (hk : k < n) :
    (sumTo n (fun m => d m * 4 ^ m) / 4 ^ k) % 4 = d k := by
  induction n with
  | zero => omega
  | succ n ih =>
    rw [sumTo_succ]
    by_cases hkn : k < n
    · have e : 4 ^ n = 4 ^ k * 4 ^ (n - k) := by rw [← Nat.pow_add]; congr 1; omega
      have e2 : 4 ^ (n - k) = 4 * 4 ^ (n - k - 1) := by
        rw [← Nat.pow_succ']; congr 1; omega
      rw [e, ← Nat.mul_assoc, Nat.mul_comm (d n) (4 ^ k), Nat.mul_assoc, Nat.add_mul_div_left _ _ (Nat.pow_pos (by decide)),
        e2, ← Nat.mul_assoc, Nat.mul_comm (d n) 4, Nat.mul_assoc, Nat.add_mul_mod_self_left]
      exact ih hkn
    · have : k = n := by omega
      subst this
      have hlt := digits_lt k d hd
      rw [Nat.add_mul_div_right _ _ (Nat.pow_pos (by decide)), Nat.div_eq_of_lt hlt, Nat.zero_add]
      exact Nat.mod_eq_of_lt (hd k)

theorem movemask_sum (a : V) : movemaskEpi8 a = sumTo 32 (fun i => (byte a i / 128) * 2 ^ i) := rfl

/-- control bytes of the reverse mask (table regenerated from the source) -/
theorem reverseMask_table : ∀ i : Fin 32,
    byte Gen.avxReverseMask i.val &&& 0x80 = 0 ∧ byte Gen.avxReverseMask i.val &&& 0x0F = 15 - i.val % 16 := by decide

/-- where byte `i` of `permuted` comes from -/
def rho (i : Nat) : Nat :=
  let idx := ((Gen.avxPermuteImm >>> (2 * (i / 8))) &&& 3) * 8 + i % 8
  (idx / 16) * 16 + (15 - idx % 16)

theorem permuted_lane (bases : V) (i : Nat) (hi : i < 32) :
    byte (permute4x64 (shuffleEpi8 bases Gen.avxReverseMask) Gen.avxPermuteImm) i = byte bases (rho i) := by
  unfold permute4x64
  rw [byte_map_range _ i hi]
  simp only
  have hidx : ((Gen.avxPermuteImm >>> (2 * (i / 8))) &&& 3) * 8 + i % 8 < 32 := by
    have : (Gen.avxPermuteImm >>> (2 * (i / 8))) &&& 3 ≤ 3 := Nat.and_le_right
    omega
  unfold shuffleEpi8
  rw [byte_map_range _ _ hidx]
  simp only
  obtain ⟨t1, t2⟩ := reverseMask_table ⟨_, hidx⟩
  simp only at t1 t2
  rw [if_neg (by rw [t1]; simp), t2]
  rfl

/-- the packed lanes read the bases in reverse: the low half takes bytes 31..16, the high half 15..0 -/
theorem rho_table : ∀ m : Fin 16, rho ((m.val / 8) * 16 + m.val % 8) = 31 - m.val ∧ rho ((m.val / 8) * 16 + 8 + m.val % 8) = 15 - m.val := by
  decide

theorem slli_msb (a : V) (ha : ∀ j, byte a j < 256) (i : Nat) (hi : i < 32) :
    byte (slliEpi16 a 7) i / 128 = byte a i % 2 ∧ byte (slliEpi16 a 6) i / 128 = (byte a i / 2) % 2 := by
  unfold slliEpi16 ofWords16
  rw [byte_map_range _ i hi, byte_map_range _ i hi]
  unfold word16
  have h0 := ha (2 * (i / 2)); have h1 := ha (2 * (i / 2) + 1)
  simp only [Nat.shiftLeft_eq]
  by_cases hp : i % 2 = 0
  · have : 2 * (i / 2) = i := by omega
    rw [this] at h0 ⊢
    simp only [hp, if_true]
    omega
  · have : 2 * (i / 2) + 1 = i := by omega
    rw [this] at h1 ⊢
    simp only [hp, if_false]
    omega

/-- one half of the interleave + movemask: 16 two-bit fields -/
theorem half_sum (a : V) (ha : ∀ j, byte a j < 256) (off : Nat) (hoff : off = 0 ∨ off = 8) :
    movemaskEpi8 (if off = 0 then unpackloEpi8 (slliEpi16 a 7) (slliEpi16 a 6) else unpackhiEpi8 (slliEpi16 a 7) (slliEpi16 a 6)) =
      sumTo 16 (fun m => (byte a ((m / 8) * 16 + off + m % 8) % 4) * 4 ^ m) := by
  rw [movemask_sum, show (32 : Nat) = 2 * 16 from rfl, sumTo_pairs]
  apply sumTo_congr
  intro m hm
  congr 1
  have hlane : (m / 8) * 16 + off + m % 8 < 32 := by rcases hoff with rfl | rfl <;> omega
  obtain ⟨s1, s2⟩ := slli_msb a ha _ hlane
  have e1 : 2 * m / 16 = m / 8 := by omega
  have e2 : 2 * m % 16 / 2 = m % 8 := by omega
  have e3 : (2 * m + 1) / 16 = m / 8 := by omega
  have e4 : (2 * m + 1) % 16 / 2 = m % 8 := by omega
  have p1 : 2 * m % 16 % 2 = 0 := by omega
  have p2 : ¬ (2 * m + 1) % 16 % 2 = 0 := by omega
  rcases hoff with rfl | rfl
  · simp only [if_true]
    unfold unpackloEpi8
    rw [byte_map_range _ _ (by omega), byte_map_range _ _ (by omega)]
    simp only [e1, e2, e3, e4, p1, p2, if_true, if_false, Nat.add_zero] at s1 s2 ⊢
    rw [s1, s2]; omega
  · simp only [show ¬ (8 = 0) by decide, if_false]
    unfold unpackhiEpi8
    rw [byte_map_range _ _ (by omega), byte_map_range _ _ (by omega)]
    simp only [e1, e2, e3, e4, p1, p2, if_true, if_false]
    rw [s1, s2]; omega

/-- **`pack_32_bases`**: the low two bits of byte `i` land in bits `63-2i, 62-2i` -/
theorem pack_sum (bases : V) (hv : IsVec bases) :
    pack32Bases bases = sumTo 32 (fun m => (byte bases (31 - m) % 4) * 4 ^ m) := by
  unfold pack32Bases
  simp only
  have hp : ∀ j, byte (permute4x64 (shuffleEpi8 bases Gen.avxReverseMask) Gen.avxPermuteImm) j < 256 := by
    intro j
    by_cases hj : j < 32
    · rw [permuted_lane bases j hj]; exact byte_lt bases hv _
    · unfold byte permute4x64
      rw [List.getD_eq_getElem?_getD, List.getElem?_eq_none (by simp; omega)]; decide
  have hlo := half_sum _ hp 0 (Or.inl rfl)
  have hhi := half_sum _ hp 8 (Or.inr rfl)
  simp only [if_true] at hlo
  simp only [show ¬ (8 = 0) by decide, if_false] at hhi
  show (movemaskEpi8 (unpackhiEpi8 (slliEpi16 _ 7) (slliEpi16 _ 6)) <<< 32) ||| movemaskEpi8 (unpackloEpi8 (slliEpi16 _ 7) (slliEpi16 _ 6)) = _
  rw [hlo, hhi]
  -- name the digits
  have dlo : sumTo 16 (fun m => byte (permute4x64 (shuffleEpi8 bases Gen.avxReverseMask) Gen.avxPermuteImm) (m / 8 * 16 + 0 + m % 8) % 4 * 4 ^ m) =
      sumTo 16 (fun m => (byte bases (31 - m) % 4) * 4 ^ m) := by
    apply sumTo_congr; intro m hm
    rw [Nat.add_zero, permuted_lane bases _ (by omega), (rho_table ⟨m, hm⟩).1]
  have dhi : sumTo 16 (fun m => byte (permute4x64 (shuffleEpi8 bases Gen.avxReverseMask) Gen.avxPermuteImm) (m / 8 * 16 + 8 + m % 8) % 4 * 4 ^ m) =
      sumTo 16 (fun m => (byte bases (15 - m) % 4) * 4 ^ m) := by
    apply sumTo_congr; intro m hm
    rw [permuted_lane bases _ (by omega), (rho_table ⟨m, hm⟩).2]
  rw [dlo, dhi]
  have hlt : sumTo 16 (fun m => (byte bases (31 - m) % 4) * 4 ^ m) < 2 ^ 32 := by
    have := digits_lt 16 (fun m => byte bases (31 - m) % 4) (fun m => Nat.mod_lt _ (by decide))
    rw [show (4 : Nat) ^ 16 = 2 ^ 32 by decide] at this; exact this
  rw [← Nat.shiftLeft_add_eq_or_of_lt hlt, Nat.shiftLeft_eq, show (32 : Nat) = 16 + 16 from rfl, sumTo_split]
  have : sumTo 16 (fun m => byte bases (31 - (16 + m)) % 4 * 4 ^ (16 + m)) = sumTo 16 (fun m => (byte bases (15 - m) % 4) * 4 ^ m) * 2 ^ (16 + 16) := by
    rw [← sumTo_mul]
    apply sumTo_congr; intro m _
    rw [show 31 - (16 + m) = 15 - m by omega, Nat.pow_add, show (4 : Nat) ^ 16 = 2 ^ (16 + 16) by decide,
      Nat.mul_comm (2 ^ (16 + 16)) (4 ^ m), Nat.mul_assoc]
  rw [this]; omega

end Avx2

namespace Avx2

theorem getElem_eq_byte (v : V) (i : Nat) (h : i < v.length) : v[i] = byte v i := by
  unfold byte; rw [List.getD_eq_getElem?_getD, List.getElem?_eq_getElem h]; rfl

/-- the block made by `pack_32_bases` holds the bases (mod 4) in order -/
theorem pack_block (bases : V) (hv : IsVec bases) :
    Block64.blockSeq (BitVec.ofNat 64 (pack32Bases bases)) = bases.map (· % 4) := by
  have hs := pack_sum bases hv
  have hd : ∀ m, byte bases (31 - m) % 4 < 4 := fun m => Nat.mod_lt _ (by decide)
  have hlt : pack32Bases bases < 2 ^ 64 := by
    rw [hs]; have := digits_lt 32 (fun m => byte bases (31 - m) % 4) hd
    rw [show (4 : Nat) ^ 32 = 2 ^ 64 by decide] at this; exact this
  apply List.ext_getElem
  · simp [Block64.blockSeq, Kmer.toSeq, hv.1]
  · intro i h1 h2
    have hi : i < 32 := by simpa [Block64.blockSeq, Kmer.toSeq] using h1
    have hg : (Block64.blockSeq (BitVec.ofNat 64 (pack32Bases bases)))[i]? = some (Kmer.get Block64.k32 (BitVec.ofNat 64 (pack32Bases bases)) i) := by
      simp [Block64.blockSeq, Kmer.toSeq, hi]
    rw [List.getElem?_eq_getElem h1] at hg
    rw [Option.some.inj hg]
    -- lane i = digit 31-i
    have hget : Kmer.get Block64.k32 (BitVec.ofNat 64 (pack32Bases bases)) i = (pack32Bases bases / 4 ^ (31 - i)) % 4 := by
      unfold Kmer.get Kmer.addr
      have : (Block64.k32.K - 1 - i) * 2 = 2 * (31 - i) := by simp; omega
      rw [this, BitVec.toNat_and, BitVec.toNat_ushiftRight, BitVec.toNat_ofNat, Nat.mod_eq_of_lt hlt]
      show pack32Bases bases >>> (2 * (31 - i)) &&& 3 = _
      rw [show (3 : Nat) = 2 ^ 2 - 1 from rfl, Nat.and_two_pow_sub_one_eq_mod, Nat.shiftRight_eq_div_pow, Nat.pow_mul]
    rw [hget, hs, digit_extract 32 (fun m => byte bases (31 - m) % 4) hd (31 - i) (by omega)]
    simp only [List.getElem_map]
    rw [show 31 - (31 - i) = i by omega, getElem_eq_byte bases i (by rw [hv.1]; exact hi)]

theorem baseToBits_lt (c : Nat) : baseToBits c < 4 := by
  by_cases h : c < 256
  · exact (by decide +kernel : ∀ c : Fin 256, baseToBits c.val < 4) ⟨c, h⟩
  · unfold baseToBits
    rw [List.getD_eq_getElem?_getD, List.getElem?_eq_none (by
      have : Gen.baseToBits.length = 256 := by decide +kernel
      omega)]
    decide

/-- a full 32-byte chunk through the vector kernels is the block of its scalar conversions -/
theorem chunk_block (chunk : List Nat) (hv : IsVec chunk) :
    Block64.blockSeq (BitVec.ofNat 64 (pack32Bases (convertBases chunk).1)) = chunk.map baseToBits := by
  have hc := (convert_spec chunk hv).1
  have hv' : IsVec (convertBases chunk).1 := by
    rw [hc]
    refine ⟨by simp [hv.1], ?_⟩
    intro b hb
    obtain ⟨c, _, rfl⟩ := List.mem_map.mp hb
    have := baseToBits_lt c; omega
  rw [pack_block _ hv', hc, List.map_map]
  apply List.map_congr_left
  intro c _
  simp only [Function.comp]
  exact Nat.mod_eq_of_lt (baseToBits_lt c)

/-- `extend` on a value whose `len` is 0 (whatever its storage) packs up to 32 bases into one more block -/
theorem extend_len0 (d : DnaStr.T) (hl : d.len = 0) (bs : List Nat) (hne : bs ≠ []) (hlen : bs.length ≤ 32) (hv : ∀ b ∈ bs, b < 4) :
    ∃ v, DnaStr.extend d bs = some ⟨d.storage ++ [v], bs.length⟩ ∧
      Block64.blockSeq v = bs ++ List.replicate (32 - bs.length) 0 := by
  have hex : DnaStr.extend d bs = DnaStr.extendChunks d bs := by
    cases hm : bs with
    | nil => exact absurd hm hne
    | cons b rest => unfold DnaStr.extend; rw [if_neg (by simp [hl])]
  obtain ⟨v, ev, sv⟩ := DnaStr.packChunk_spec bs hlen hv
  refine ⟨v, ?_, sv⟩
  rw [hex]
  unfold DnaStr.extendChunks
  rw [dif_neg hne]
  simp only
  rw [List.take_of_length_le hlen, List.drop_eq_nil_of_le hlen, ev]
  simp only
  unfold DnaStr.extendChunks
  rw [dif_pos rfl, hl, Nat.zero_add]

/-- the chunk loop of the vector path: storage grows by one block per whole chunk (without touching
    `len`, which stays 0), a shorter last chunk goes through `extend` -/
theorem vecLoop_spec (d : DnaStr.T) (bytes : List Nat) (hb : ∀ b ∈ bytes, b < 256) (hl : d.len = 0) :
    ∃ d', vecLoop d bytes = some d' ∧ d'.storage.length = d.storage.length + (bytes.length + 31) / 32 ∧
      DnaStr.flat d' = DnaStr.flat d ++ bytes.map baseToBits ++ List.replicate ((bytes.length + 31) / 32 * 32 - bytes.length) 0 := by
  fun_induction vecLoop d bytes with
  | case1 d => exact ⟨d, rfl, by simp, by simp⟩
  | case2 d bytes hne chunk hfull packed ih =>
    have hlen : 32 ≤ bytes.length := by simp only [chunk, List.length_take] at hfull; omega
    have hv : IsVec chunk := ⟨hfull, fun b hb' => hb b (List.mem_of_mem_take hb')⟩
    obtain ⟨d', e, sl, fl⟩ := ih (fun b hb' => hb b (List.mem_of_mem_drop hb')) hl
    refine ⟨d', e, ?_, ?_⟩
    · rw [sl]; dsimp only; simp only [List.length_append, List.length_cons, List.length_nil, List.length_drop]; omega
    · rw [fl]
      have hflat : DnaStr.flat { d with storage := d.storage ++ [BitVec.ofNat 64 packed] } = DnaStr.flat d ++ chunk.map baseToBits := by
        simp only [DnaStr.flat, List.flatMap_append, List.flatMap_cons, List.flatMap_nil, List.append_nil]
        rw [show packed = pack32Bases (convertBases chunk).1 from rfl, chunk_block chunk hv]
      rw [hflat]
      have hsplit : bytes.map baseToBits = chunk.map baseToBits ++ (bytes.drop 32).map baseToBits := by
        rw [← List.map_append, List.take_append_drop]
      rw [hsplit]
      have hdl : (bytes.drop 32).length = bytes.length - 32 := List.length_drop
      simp only [List.append_assoc]
      congr 4
      omega
  | case3 d bytes hne chunk hshort d1 hext ih =>
    have hcl : chunk.length < 32 := by
      have : chunk.length ≤ 32 := by simp [chunk, List.length_take]; omega
      omega
    have hbl : bytes.length = chunk.length := by simp only [chunk, List.length_take] at hcl ⊢; omega
    have hdrop : bytes.drop 32 = [] := List.drop_eq_nil_of_le (by omega)
    have hchunk : chunk = bytes := by simp only [chunk]; exact List.take_of_length_le (by omega)
    have hpos : 0 < bytes.length := List.length_pos_iff.mpr hne
    obtain ⟨v, ev, sv⟩ := extend_len0 d hl (chunk.map baseToBits) (by rw [hchunk]; simpa using hne) (by simp; omega)
      (fun b hb' => by obtain ⟨c, _, rfl⟩ := List.mem_map.mp hb'; exact baseToBits_lt c)
    rw [ev] at hext; cases hext
    rw [hdrop]
    unfold vecLoop
    rw [dif_pos rfl]
    refine ⟨_, rfl, ?_, ?_⟩
    · simp only [List.length_append, List.length_cons, List.length_nil]; omega
    · simp only [DnaStr.flat, List.flatMap_append, List.flatMap_cons, List.flatMap_nil, List.append_nil]
      rw [sv, hchunk]
      simp only [List.length_map, List.append_assoc]
      congr 3
      omega
  | case4 d bytes hne chunk hshort hnone =>
    exfalso
    have hcl : chunk.length ≤ 32 := by simp [chunk, List.length_take]; omega
    have hchunk : chunk ≠ [] := by
      simp only [chunk]; intro h
      have := congrArg List.length h
      simp only [List.length_take, List.length_nil] at this
      have : 0 < bytes.length := List.length_pos_iff.mpr hne
      omega
    obtain ⟨v, ev, _⟩ := extend_len0 d hl (chunk.map baseToBits) (by simpa using hchunk) (by simpa using hcl)
      (fun b hb' => by obtain ⟨c, _, rfl⟩ := List.mem_map.mp hb'; exact baseToBits_lt c)
    rw [ev] at hnone; cases hnone

end Avx2

namespace Avx2

/-- **vector path** of `from_acgt_bytes`: a well-formed string standing for the bytewise conversion -/
theorem fromAcgtBytesVec_spec (bytes : List Nat) (hb : ∀ b ∈ bytes, b < 256) :
    ∃ d, fromAcgtBytesVec bytes = some d ∧ DnaStr.Inv d ∧ DnaStr.toSeq d = bytes.map baseToBits := by
  obtain ⟨d', e, sl, fl⟩ := vecLoop_spec DnaStr.new bytes hb rfl
  unfold fromAcgtBytesVec
  rw [e]
  refine ⟨_, rfl, ?_, ?_⟩
  · constructor
    · show d'.storage.length = (bytes.length + 31) / 32
      rw [sl]; simp [DnaStr.new]
    · intro j hj1 hj2
      have hj1' : bytes.length ≤ j := hj1
      have hj2' : j < 32 * d'.storage.length := hj2
      show (DnaStr.flat d')[j]? = some 0
      rw [fl]
      simp only [DnaStr.flat, DnaStr.new, List.flatMap_nil, List.nil_append]
      rw [List.getElem?_append_right (by simp; omega), List.getElem?_replicate]
      rw [sl] at hj2'
      simp only [DnaStr.new, List.length_nil, Nat.zero_add, List.length_map] at hj2' ⊢
      simp; omega
  · show (DnaStr.flat d').take bytes.length = _
    rw [fl]
    simp only [DnaStr.flat, DnaStr.new, List.flatMap_nil, List.nil_append]
    rw [List.take_append_of_le_length (by simp)]
    have : bytes.length = (bytes.map baseToBits).length := by simp
    conv => lhs; rw [this, List.take_length]

/-- **scalar path** -/
theorem fromAcgtBytesScalar_spec (bytes : List Nat) :
    ∃ d, fromAcgtBytesScalar bytes = some d ∧ DnaStr.Inv d ∧ DnaStr.toSeq d = bytes.map baseToBits := by
  obtain ⟨d, e, i, s, _⟩ := DnaStr.fromBytes_spec (bytes.map baseToBits) (fun b hb => by
    obtain ⟨c, _, rfl⟩ := List.mem_map.mp hb; exact baseToBits_lt c)
  exact ⟨d, e, i, s⟩

/-- the step of `from_dna_only_string` -/
def onlyStep (acc : List (List Nat) × List Nat) (c : Nat) : List (List Nat) × List Nat :=
  match Gen.dnaOnlyBaseToBits.getD (c % 256) 255 with
  | 255 => if acc.2.isEmpty then acc else (acc.2.reverse :: acc.1, [])
  | b => (acc.1, b :: acc.2)

def onlyFinish (acc : List (List Nat) × List Nat) : List (List Nat) :=
  (if acc.2.isEmpty then acc.1 else acc.2.reverse :: acc.1).reverse

theorem fromDnaOnlyString_eq (cs : List Nat) : fromDnaOnlyString cs = onlyFinish (cs.foldl onlyStep ([], [])) := by
  unfold fromDnaOnlyString onlyFinish
  rfl

def strictOk (c : Nat) : Bool := Gen.dnaOnlyBaseToBits.getD (c % 256) 255 != 255
def strictBits (c : Nat) : Nat := Gen.dnaOnlyBaseToBits.getD (c % 256) 255

theorem onlyStep_valid (acc : List (List Nat) × List Nat) (c : Nat) (h : strictOk c = true) :
    onlyStep acc c = (acc.1, strictBits c :: acc.2) := by
  unfold onlyStep strictBits
  unfold strictOk at h
  split
  · rename_i heq; rw [heq] at h; simp at h
  · rfl

theorem onlyStep_invalid (acc : List (List Nat) × List Nat) (c : Nat) (h : strictOk c = false) :
    onlyStep acc c = if acc.2.isEmpty then acc else (acc.2.reverse :: acc.1, []) := by
  unfold onlyStep
  unfold strictOk at h
  have : Gen.dnaOnlyBaseToBits.getD (c % 256) 255 = 255 := by simpa using h
  split
  · rfl
  · rename_i hne; exact absurd this (hne)

/-- a whole run of valid characters is appended to the current run -/
theorem fold_valid_run (g : List Nat) (hg : ∀ c ∈ g, strictOk c = true) (runs : List (List Nat)) (cur : List Nat) :
    g.foldl onlyStep (runs, cur) = (runs, (g.map strictBits).reverse ++ cur) := by
  induction g generalizing cur with
  | nil => rfl
  | cons c g ih =>
    rw [List.foldl_cons, onlyStep_valid _ c (hg c (by simp)), ih (fun x hx => hg x (by simp [hx]))]
    simp

/-- **strict constructor**: for the (unique) decomposition of the text into maximal valid groups
    `g₀ x₁ g₁ x₂ … x_k g_k` (every `x_i` a non-ACGT character, every `g_i` ACGT only, possibly empty), the
    result is the converted non-empty groups, in order -/
theorem strict_runs (g0 : List Nat) (segs : List (Nat × List Nat)) (h0 : ∀ c ∈ g0, strictOk c = true)
    (hs : ∀ s ∈ segs, strictOk s.1 = false ∧ ∀ c ∈ s.2, strictOk c = true) :
    fromDnaOnlyString (g0 ++ segs.flatMap (fun s => s.1 :: s.2)) =
      ((g0 :: segs.map (·.2)).filter (fun g => !g.isEmpty)).map (·.map strictBits) := by
  rw [fromDnaOnlyString_eq]
  -- generalise over the accumulated runs (in reverse) and the current run (already converted, in reverse)
  have key : ∀ (segs : List (Nat × List Nat)) (runs : List (List Nat)) (g0 : List Nat), (∀ c ∈ g0, strictOk c = true) →
      (∀ s ∈ segs, strictOk s.1 = false ∧ ∀ c ∈ s.2, strictOk c = true) →
      onlyFinish ((g0 ++ segs.flatMap (fun s => s.1 :: s.2)).foldl onlyStep (runs, [])) =
        runs.reverse ++ ((g0 :: segs.map (·.2)).filter (fun g => !g.isEmpty)).map (·.map strictBits) := by
    intro segs
    induction segs with
    | nil =>
      intro runs g0 h0 _
      simp only [List.flatMap_nil, List.append_nil, List.map_nil]
      rw [fold_valid_run g0 h0]
      unfold onlyFinish
      cases g0 with
      | nil => simp
      | cons c g => simp
    | cons s segs ih =>
      intro runs g0 h0 hs
      obtain ⟨hx, hg⟩ := hs s (by simp)
      rw [List.flatMap_cons, ← List.append_assoc, List.foldl_append, List.foldl_append, fold_valid_run g0 h0]
      simp only [List.foldl_cons, List.foldl_nil, List.append_nil]
      rw [onlyStep_invalid _ _ hx]
      cases g0 with
      | nil =>
        simp only [List.map_nil, List.reverse_nil, List.isEmpty_nil, if_true]
        rw [← List.foldl_append, ih runs s.2 hg (fun t ht => hs t (by simp [ht]))]
        simp
      | cons c g =>
        simp only [List.map_cons, List.reverse_cons]
        have hne : ((g.map strictBits).reverse ++ [strictBits c]).isEmpty = false := by simp
        rw [hne]
        simp only [Bool.false_eq_true, if_false]
        rw [← List.foldl_append, ih _ s.2 hg (fun t ht => hs t (by simp [ht]))]
        simp
  have := key segs [] g0 h0 hs
  simpa using this

/-- **hashed-N constructor**, for any hasher `h`: ACGT untouched, every other position replaced by `h pos % 4` -/
theorem hashn_spec (bytes : List Nat) (h : Nat → Nat) :
    ∃ d, fromAcgtBytesHashn bytes h = some d ∧ DnaStr.Inv d ∧
      DnaStr.toSeq d = bytes.zipIdx.map (fun cp => if Gen.hashnArms.getD cp.1 255 = 255 then h cp.2 % 4 else Gen.hashnArms.getD cp.1 255) := by
  have hv : ∀ c : Nat, Gen.hashnArms.getD c 255 = 255 ∨ Gen.hashnArms.getD c 255 < 4 := by
    intro c
    by_cases hc : c < 256
    · exact (by decide +kernel : ∀ c : Fin 256, Gen.hashnArms.getD c.val 255 = 255 ∨ Gen.hashnArms.getD c.val 255 < 4) ⟨c, hc⟩
    · left
      rw [List.getD_eq_getElem?_getD, List.getElem?_eq_none (by
        have : Gen.hashnArms.length = 256 := by decide +kernel
        omega)]
      rfl
  have hstep : ∀ (cp : Nat × Nat), hashnBase h cp =
      (if Gen.hashnArms.getD cp.1 255 = 255 then h cp.2 % 4 else Gen.hashnArms.getD cp.1 255) := by
    intro cp
    unfold hashnBase
    split
    · rename_i heq; rw [if_pos heq]
    · rename_i hne; rw [if_neg (by intro e; exact hne e)]
  unfold fromAcgtBytesHashn
  have hfold : bytes.zipIdx.foldl (fun acc (cp : Nat × Nat) => acc.bind fun d => DnaStr.push d (hashnBase h cp)) (some DnaStr.new) =
      (bytes.zipIdx.map (fun cp => if Gen.hashnArms.getD cp.1 255 = 255 then h cp.2 % 4 else Gen.hashnArms.getD cp.1 255)).foldl
        (fun acc v => acc.bind (DnaStr.push · v)) (some DnaStr.new) := by
    rw [List.foldl_map]
    congr 1
    funext acc cp
    rw [hstep cp]
  rw [hfold]
  obtain ⟨d, e, i, s, _⟩ := DnaStr.pushAll_spec
    (bytes.zipIdx.map (fun cp => if Gen.hashnArms.getD cp.1 255 = 255 then h cp.2 % 4 else Gen.hashnArms.getD cp.1 255))
    DnaStr.new DnaStr.inv_new (fun v hv' => by
      obtain ⟨cp, _, rfl⟩ := List.mem_map.mp hv'
      rcases hv cp.1 with h1 | h1
      · rw [if_pos h1]; exact Nat.mod_lt _ (by decide)
      · rw [if_neg (by omega)]; exact h1)
  exact ⟨d, e, i, by simpa [DnaStr.toSeq_new] using s⟩

end Avx2
