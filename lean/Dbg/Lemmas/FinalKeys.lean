import Dbg.Lemmas.PathDirs
import Dbg.Lemmas.ShardGraph
/-! The canonical k-mers of a re-compressed node are those of the old nodes on its path. -/
namespace Compress
open Walk (Dir Conn Rel)
open Filter (has ExtSym2 removeCensoredExts)
open Graph (G orientedKmers)
variable {D : Type}

/-- the canonical k-mers of a node -/
def canonKeys (K : Nat) (st : Bool) (n : Node D) : List Seq := (windowsOf K n.seq).map fun w => (canonOf st w).1

theorem mem_windowsOf (K : Nat) (s : Seq) (h : K ≤ s.length) (w : Seq) :
    w ∈ windowsOf K s ↔ ∃ i, i + K ≤ s.length ∧ w = (s.drop i).take K := by
  rw [windowsOf_eq K s h, List.mem_map]
  constructor
  · rintro ⟨i, hi, rfl⟩; exact ⟨i, by rw [List.mem_range] at hi; omega, rfl⟩
  · rintro ⟨i, hi, rfl⟩; exact ⟨i, by rw [List.mem_range]; omega, rfl⟩

theorem rc_window (s : Seq) (K i : Nat) (h : i + K ≤ s.length) :
    rc (((rc s).drop i).take K) = (s.drop (s.length - i - K)).take K := by
  have h1 : (rc s).drop i = rc (s.take (s.length - i)) := by
    rw [Graph.rc_take, show s.length - (s.length - i) = i by omega]
  rw [h1]
  have hl : (s.take (s.length - i)).length = s.length - i := by rw [List.length_take]; omega
  have h2 : (rc (s.take (s.length - i))).take K = rc ((s.take (s.length - i)).drop (s.length - i - K)) := by
    rw [Graph.rc_drop, hl, show s.length - i - (s.length - i - K) = K by omega]
  rw [h2, rc_rc, List.drop_take]
  rw [show s.length - i - (s.length - i - K) = K by omega]

theorem windows_rc_mem (K : Nat) (s : Seq) (h : K ≤ s.length) (w : Seq) (hw : w ∈ windowsOf K (rc s)) : rc w ∈ windowsOf K s := by
  rw [mem_windowsOf K (rc s) (by rw [rc_length]; exact h)] at hw
  obtain ⟨i, hi, rfl⟩ := hw
  rw [rc_length] at hi
  rw [rc_window s K i hi, mem_windowsOf K s h]
  exact ⟨s.length - i - K, by omega, rfl⟩

/-- the canonical k-mers of a sequence and of its reverse complement coincide (unstranded) -/
theorem canonKeys_rc (K : Nat) (s : Seq) (h : K ≤ s.length) (k : Seq) :
    k ∈ (windowsOf K (rc s)).map (fun w => (canonOf false w).1) ↔ k ∈ (windowsOf K s).map (fun w => (canonOf false w).1) := by
  constructor
  · intro hk
    obtain ⟨w, hw, rfl⟩ := List.mem_map.mp hk
    exact List.mem_map.mpr ⟨rc w, windows_rc_mem K s h w hw, canonOf_rc w⟩
  · intro hk
    obtain ⟨w, hw, rfl⟩ := List.mem_map.mp hk
    have : rc w ∈ windowsOf K (rc s) := by
      have := windows_rc_mem K (rc s) (by rw [rc_length]; exact h) w (by rw [rc_rc]; exact hw)
      exact this
    exact List.mem_map.mpr ⟨rc w, this, canonOf_rc w⟩

/-- **k-mers of the re-compressed nodes**: the canonical k-mers of a new node are exactly those of the old nodes on its path -/
theorem final_keys (K : Nat) (hK : 1 ≤ K) (st : Bool) (nodes : List (Node D)) (hl : ∀ (i : Nat) (n : Node D), nodes[i]? = some n → K ≤ n.seq.length)
    (join : D → D → Bool) (reduce : D → D → D) (g' : G D) (paths : List (List (Nat × Dir)))
    (h : CompressGraph.compressGraph st (⟨K, nodes, st⟩ : G D) join reduce [] = some (g', paths)) :
    g'.nodes.length = paths.length ∧
    ∀ (i : Nat) (n' : Node D) (p : List (Nat × Dir)), g'.nodes[i]? = some n' → paths[i]? = some p →
      ∀ k, k ∈ canonKeys K st n' ↔ ∃ q ∈ p, ∃ nq, nodes[q.1]? = some nq ∧ k ∈ canonKeys K st nq := by
  obtain ⟨h1, h2, _, _, _⟩ := CompressGraph.C09_kmers_cover st (⟨K, nodes, st⟩ : G D) hK hl join reduce [] g' paths h
  refine ⟨h1, fun i n' p hn hp k => ?_⟩
  have hw := h2 i n' p hn hp
  have hK' : (⟨K, nodes, st⟩ : G D).K = K := rfl
  rw [hK'] at hw
  unfold canonKeys
  rw [hw, List.map_flatMap, List.mem_flatMap]
  have hdirs : st = true → ∀ q ∈ p, q.2 = Dir.L := fun hst =>
    CompressGraph.compressGraph_dirs_stranded (⟨K, nodes, st⟩ : G D) hK hl hst st join reduce [] g' paths h p (List.mem_of_getElem? hp)
  constructor
  · rintro ⟨q, hq, hk⟩
    unfold orientedKmers at hk
    have hn' : (⟨K, nodes, st⟩ : G D).nodes[q.1]? = nodes[q.1]? := rfl
    rw [hn'] at hk
    cases hnq : nodes[q.1]? with
    | none => rw [hnq] at hk; simp at hk
    | some nq =>
      rw [hnq] at hk
      simp only [hK'] at hk
      refine ⟨q, hq, nq, hnq, ?_⟩
      cases hd : q.2 with
      | L => rw [hd] at hk; exact hk
      | R =>
        rw [hd] at hk
        cases st with
        | true => have := hdirs rfl q hq; rw [hd] at this; cases this
        | false => exact (canonKeys_rc K nq.seq (hl q.1 nq hnq) k).mp hk
  · rintro ⟨q, hq, nq, hnq, hk⟩
    refine ⟨q, hq, ?_⟩
    unfold orientedKmers
    have hn' : (⟨K, nodes, st⟩ : G D).nodes[q.1]? = nodes[q.1]? := rfl
    rw [hn', hnq]
    simp only [hK']
    cases hd : q.2 with
    | L => exact hk
    | R =>
      cases st with
      | true => have := hdirs rfl q hq; rw [hd] at this; cases this
      | false => exact (canonKeys_rc K nq.seq (hl q.1 nq hnq) k).mpr hk

end Compress
