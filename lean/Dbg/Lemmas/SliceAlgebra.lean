import Dbg.Model.Slice
/-! View algebra of `DnaStringSlice`, for an arbitrary backing string: every view operation is a re-indexing of `get`. -/
namespace DnaStr.Slice

/-- reading a sub-view = reading the view at the shifted position -/
theorem get_slice (d : T) (s s' : Slice) (a b i : Nat) (h : s.slice a b = some s') (hi : i < b - a) :
    get d s' i = get d s (a + i) := by
  unfold slice at h
  split at h
  · rename_i hr
    obtain ⟨h1, h2, h3⟩ := hr
    by_cases hrc : s.isRc = true
    · simp only [hrc, Bool.not_true, Bool.false_eq_true, if_false, Option.some.injEq] at h
      subst h
      simp only [get, hrc, Bool.not_true, Bool.false_eq_true, if_false]
      have e1 : ¬ (s.start + s.length - b + (b - a) < 1 + i) := by omega
      have e2 : ¬ (s.start + s.length < 1 + (a + i)) := by omega
      simp only [e1, e2, if_false]
      congr 2; omega
    · have hrc' : s.isRc = false := by cases hh : s.isRc <;> simp_all
      simp only [hrc', Bool.not_false, if_true, Option.some.injEq] at h
      subst h
      simp only [get, hrc', Bool.not_false, if_true]
      congr 1; omega
  · exact absurd h (by simp)

/-- a sub-view has the requested length and keeps the orientation -/
theorem slice_length (s s' : Slice) (a b : Nat) (h : s.slice a b = some s') : s'.length = b - a ∧ s'.isRc = s.isRc := by
  unfold slice at h
  split at h
  · by_cases hrc : s.isRc = true
    · simp only [hrc, Bool.not_true, Bool.false_eq_true, if_false, Option.some.injEq] at h; subst h; simp [hrc]
    · have hrc' : s.isRc = false := by cases hh : s.isRc <;> simp_all
      simp only [hrc', Bool.not_false, if_true, Option.some.injEq] at h; subst h; simp [hrc']
  · exact absurd h (by simp)

/-- the interval assertions are exactly `a ≤ b ≤ length` -/
theorem slice_isSome (s : Slice) (a b : Nat) : (s.slice a b).isSome ↔ (a ≤ b ∧ b ≤ s.length) := by
  unfold slice
  by_cases h : a ≤ s.length ∧ b ≤ s.length ∧ a ≤ b
  · simp only [h, and_self, if_true]
    by_cases hrc : s.isRc = true <;> simp [hrc] <;> omega
  · simp only [h, if_false]; simp; omega

/-- reading the reverse-complemented view at `i` = complement of the view at `length-1-i` -/
theorem get_rc_fwd (d : T) (s : Slice) (i : Nat) (hf : s.isRc = false) (hi : i < s.length) :
    get d s.rc i = (get d s (s.length - 1 - i)).map complement := by
  simp only [get, rc, hf, Bool.not_false, Bool.not_true, Bool.false_eq_true, if_false, if_true]
  have : ¬ (s.start + s.length < 1 + i) := by omega
  simp only [this, if_false]
  congr 2; omega

/-- `rc` twice is the identity on views -/
theorem rc_rc (s : Slice) : s.rc.rc = s := by cases s; simp [rc]

/-- `rc` keeps start and length -/
theorem rc_fields (s : Slice) : s.rc.start = s.start ∧ s.rc.length = s.length ∧ s.rc.isRc = !s.isRc := by simp [rc]

/-- complement is an involution on bases and equals `3 - b` -/
theorem complement_spec : ∀ b : Fin 4, complement b.val = 3 - b.val ∧ complement (complement b.val) = b.val := by decide

/-- views made directly from the string -/
theorem sliceOf_spec (d : T) (a b : Nat) (s : Slice) (h : sliceOf d a b = some s) (i : Nat) :
    s.length = b - a ∧ s.isRc = false ∧ get d s i = DnaStr.get d (i + a) := by
  unfold sliceOf at h
  split at h
  · simp only [Option.some.injEq] at h; subst h; simp [get]
  · exact absurd h (by simp)

theorem prefix_spec (d : T) (k : Nat) (s : Slice) (h : prefix_ d k = some s) (i : Nat) :
    s.length = k ∧ s.isRc = false ∧ get d s i = DnaStr.get d i := by
  unfold prefix_ at h
  split at h
  · simp only [Option.some.injEq] at h; subst h; simp [get]
  · exact absurd h (by simp)

theorem suffix_spec (d : T) (k : Nat) (s : Slice) (h : suffix_ d k = some s) (i : Nat) :
    s.length = k ∧ s.isRc = false ∧ get d s i = DnaStr.get d (i + (d.len - k)) := by
  unfold suffix_ at h
  split at h
  · simp only [Option.some.injEq] at h; subst h; simp [get]
  · exact absurd h (by simp)

/-- the repaired `Debug` renders through `get`, like `Display`, below the summary threshold (D2) -/
theorem debug_eq_display (d : T) (s : Slice) (h : s.length < 256) : debug d s = display d s := by
  unfold debug display
  have : s.length < Gen.sliceDebugLimit := h
  simp [this]

end DnaStr.Slice
