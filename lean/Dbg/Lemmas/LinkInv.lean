import Dbg.Lemmas.Nibble
import Dbg.Lemmas.Recip
namespace Compress
open Walk (Dir)

variable {D : Type} (T : Table D) (st : Bool) (join : D → D → Bool)

/-- the facts packed into `linkOf T x d = some (y, d')` -/
structure LinkFacts (x : Nat) (d : Dir) (y : Nat) (d' : Dir) (ex ey : Entry D) (b : Base) : Prop where
  hx : T[x]? = some ex
  cntx : nibCnt (ex.exts.dirBits d) = 1
  palx : (!st && isPalindrome ex.key) = false
  uniq : nibUniq (ex.exts.dirBits d) = some b
  hfind : findId T (canonSt st (extend ex.key b d)).1 = some y
  hy : T[y]? = some ey
  hd' : d' = condFlip d (canonSt st (extend ex.key b d)).2
  cnty : nibCnt (ey.exts.dirBits (condFlip d.flip (canonSt st (extend ex.key b d)).2)) = 1
  hjoin : join ex.data ey.data = true
  paly : (!st && isPalindrome (canonSt st (extend ex.key b d)).1) = false

theorem linkOf_inv {x d y d'} (h : linkOf T st join x d = some (y, d')) :
    ∃ ex ey b, LinkFacts T st join x d y d' ex ey b := by
  unfold linkOf at h
  split at h
  · rename_i y0 d0 e0 heq
    simp only [Option.some.injEq, Prod.mk.injEq] at h
    obtain ⟨rfl, rfl⟩ := h
    unfold staticStep at heq
    split at heq
    · cases heq
    · rename_i ex hx
      split at heq
      · cases heq
      · rename_i hc
        split at heq
        · cases heq
        · rename_i b hb
          simp only at heq
          split at heq
          · cases heq
          · rename_i y1 hf
            split at heq
            · cases heq
            · rename_i ey hy
              simp only [Static.cand.injEq] at heq
              obtain ⟨rfl, rfl, hok, hpanic, _⟩ := heq
              rw [numExtDir_eq] at hc hok
              rw [uniqueExt_eq] at hb
              simp only [Bool.or_eq_true, bne_iff_ne, ne_eq, not_or, Bool.not_eq_true] at hc
              have hc1 : nibCnt (ex.exts.dirBits d) = 1 := by
                have := hc.1; simpa using this
              simp only [hc1, bne_self_eq_false, Bool.false_eq_true, if_false] at hb
              simp only [Bool.and_eq_true, beq_iff_eq, Bool.not_eq_true'] at hok
              exact ⟨ex, ey, b, hx, hc1, hc.2, hb, hf, hy, rfl, hok.1.2, hok.1.1, hok.2⟩
  · cases h

theorem linkOf_intro {x d y d' ex ey b} (f : LinkFacts T st join x d y d' ex ey b) :
    linkOf T st join x d = some (y, d') := by
  obtain ⟨hx, cntx, palx, uniq, hfind, hy, hd', cnty, hjoin, paly⟩ := f
  have hs : staticStep T st join x d = .cand y d' true false (ex.exts.singleDir d) := by
    unfold staticStep
    simp only [hx]
    have c1 : (ex.exts.numExtDir d != 1 || (!st && isPalindrome ex.key)) = false := by
      rw [numExtDir_eq, cntx, palx]; rfl
    simp only [c1, Bool.false_eq_true, if_false]
    have c2 : ex.exts.uniqueExt d = some b := by
      rw [uniqueExt_eq, cntx]; simpa using uniq
    simp only [c2, hfind, hy]
    rw [numExtDir_eq, cnty, hjoin, paly, hd']
    rfl
  unfold linkOf
  rw [hs]

end Compress
