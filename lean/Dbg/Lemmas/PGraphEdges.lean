import Dbg.Lemmas.PGraphAppend
import Dbg.Lemmas.Prune
/-! Edges of a ported graph: `find_link` resolves a recorded extension iff its target k-mer is in the table, and it
    resolves it to the node whose end port is the target k-mer. -/
namespace Compress
open Walk (Dir rm)
open Filter (has hasExt_iff ExtSym2)
open Graph (termKmer findLink searchKmer)
variable {D : Type}

/-- where a recorded extension leads: the node `j` and side `s'` whose port is the target k-mer, and how the terminal
    k-mer on that side spells the extended k-mer -/
theorem PGraph.resolve {U : Table D} {K : Nat} {st : Bool} {join0 : D → D → Bool} {nodes : List (Node D)}
    {port : Nat → Dir → Nat × Dir} {members : Nat → List Nat} {lk : Walk.Link}
    (pg : PGraph U K st join0 nodes port members lk) (wf : WF U K st) (hes2 : ExtSym2 U st)
    (i : Nat) (n : Node D) (hi : nodes[i]? = some n) (s : Dir) (ex : Entry D) (np : NodePort U K st n s (port i s) ex)
    (β : Base) (hβ : has n.exts s β)
    (y : Nat) (hy : findId U (canonSt st (extend (termKmer K n.seq s) β s)).1 = some y) :
    ∃ (j : Nat) (nj : Node D) (s' : Dir) (c : Bool), nodes[j]? = some nj ∧
      port j s' = (y, condFlip (port i s).2.flip
        (canonSt st (extend ex.key (if (port i s).2 = s then β else comp β) (port i s).2)).2) ∧
      s' = condFlip s.flip c ∧ termKmer K nj.seq s' = rcIf c (extend (termKmer K n.seq s) β s) ∧ (c = true → st = false) := by
  have hilt : i < nodes.length := (List.getElem?_eq_some_iff.mp hi).1
  generalize hp : port i s = p at np
  have hb := (np.exts β).mp hβ
  have hst : st = true → p.2 = s := np.strand
  obtain ⟨htn, hcan⟩ := node_target n s p ex np β
  rw [hcan] at hy
  rw [← hp] at hb hy
  obtain ⟨j, s', hj, hport⟩ := pg.target_port wf hes2 i hilt s ex (by rw [hp]; exact np.ent) _ hb y hy
  rw [hp] at hport hb hy
  obtain ⟨nj, hnj⟩ : ∃ nj, nodes[j]? = some nj := ⟨_, List.getElem?_eq_getElem hj⟩
  obtain ⟨ey, npY⟩ := pg.np j nj s' hnj
  rw [hport] at npY
  obtain ⟨ey', hey', hkey⟩ := findId_some hy
  have : ey' = ey := by have := npY.ent; simp only at this; rw [hey'] at this; exact Option.some.inj this
  subst this
  generalize hb0 : (if p.2 = s then β else comp β) = b at *
  generalize hf : (canonSt st (extend ex.key b p.2)).2 = f at *
  have hkey' : ey'.key = rcIf f (extend ex.key b p.2) := by rw [hkey, canonSt_rcIf, hf]
  have htY : termKmer K nj.seq s' = rcIf (decide (condFlip p.2.flip f ≠ s')) ey'.key := by
    have := npY.term
    simp only at this
    rw [this]
    by_cases h : condFlip p.2.flip f = s' <;> simp [h, rcIf]
  have hside := side_parity s p.2 s' f
  generalize hc : xor (xor (decide (condFlip p.2.flip f ≠ s')) f) (decide (p.2 ≠ s)) = c at hside
  refine ⟨j, nj, s', c, hnj, hport, hside, ?_, ?_⟩
  · rw [htY, hkey', htn, rcIf_parity _ f (decide (p.2 ≠ s)), hc]
  · intro hct
    cases st with
    | false => rfl
    | true =>
      exfalso
      have h1 : p.2 = s := hst rfl
      have h2 : f = false := by rw [← hf]; rfl
      have h3 : condFlip p.2.flip f = s' := by
        have := npY.strand rfl
        simpa using this
      rw [← hc, h2] at hct
      rw [h2, h1] at h3
      simp [h1] at hct
      exact hct h3

/-- **edges of a ported graph**: a recorded extension resolves iff its target is a key of the table -/
theorem PGraph.edge_iff {U : Table D} {K : Nat} {st : Bool} {join0 : D → D → Bool} {nodes : List (Node D)}
    {port : Nat → Dir → Nat × Dir} {members : Nat → List Nat} {lk : Walk.Link}
    (pg : PGraph U K st join0 nodes port members lk) (wf : WF U K st) (hes2 : ExtSym2 U st)
    (i : Nat) (n : Node D) (hi : nodes[i]? = some n) (s : Dir) (β : Base) (hβ : has n.exts s β) :
    (findLink (⟨K, nodes, st⟩ : Graph.G D) (extend (termKmer K n.seq s) β s) s).isSome ↔
      (canonSt st (extend (termKmer K n.seq s) β s)).1 ∈ U.map (·.key) := by
  constructor
  · intro h
    obtain ⟨⟨v, s', f⟩, hl⟩ := Option.isSome_iff_exists.mp h
    obtain ⟨nd, hv, hterm, _, hf1⟩ := Graph.findLink_sound _ _ _ _ _ _ hl
    have hv' : nodes[v]? = some nd := hv
    have hvlt : v < nodes.length := (List.getElem?_eq_some_iff.mp hv').1
    have hmem : (canonSt st (termKmer K nd.seq s')).1 ∈ (members v).map (keyOf U) := by
      rw [← pg.keys v nd hv']
      exact List.mem_map_of_mem (term_mem_windows K nd.seq wf.kpos (pg.len v nd hv') s')
    have hcan : (canonSt st (termKmer K nd.seq s')).1 = (canonSt st (extend (termKmer K n.seq s) β s)).1 := by
      have ht : termKmer K nd.seq s' = if f then rc (extend (termKmer K n.seq s) β s) else extend (termKmer K n.seq s) β s := hterm
      rw [ht]
      cases f with
      | false => rfl
      | true =>
        have hst : st = false := (hf1 rfl).2
        subst hst
        simp only [if_true, canonSt, Bool.false_eq_true, if_false]
        exact Filter.minRcFlip_rc_key _
    rw [hcan] at hmem
    obtain ⟨id, hid, hk⟩ := List.mem_map.mp hmem
    have hlt : id < U.length := pg.inRange v hvlt id hid
    rw [← hk]
    unfold keyOf
    rw [List.getElem?_eq_getElem hlt]
    exact List.mem_map_of_mem (List.getElem_mem hlt)
  · intro h
    obtain ⟨y, hy⟩ := findId_isSome_of_mem U _ h
    obtain ⟨e, np⟩ := pg.np i n s hi
    obtain ⟨j, nj, s', c, hnj, _, hside, hterm, hc⟩ := pg.resolve wf hes2 i n hi s e np β hβ y hy
    rw [hside] at hterm
    exact findLink_isSome (⟨K, nodes, st⟩ : Graph.G D) _ s nj (List.mem_of_getElem? hnj) c hterm hc

end Compress
