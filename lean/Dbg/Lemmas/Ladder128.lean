import Dbg.Lemmas.Ladder
namespace Ladder
theorem swap64 {w : Nat} (x m : BitVec w) : w % (2 * 64) = 0 → IsBlockMask m 64 → ∀ i, i < w →
    (swapStep x m 64).getLsbD i = x.getLsbD (swapIdx 64 i) := by swap_tac 64

def rev2_128 (x : BitVec 128) : BitVec 128 :=
  let r := swapStep x 0x33333333333333333333333333333333#128 2
  let r := swapStep r 0x0F0F0F0F0F0F0F0F0F0F0F0F0F0F0F0F#128 4
  let r := swapStep r 0x00FF00FF00FF00FF00FF00FF00FF00FF#128 8
  let r := swapStep r 0x0000FFFF0000FFFF0000FFFF0000FFFF#128 16
  let r := swapStep r 0x00000000FFFFFFFF00000000FFFFFFFF#128 32
  let r := swapStep r 0x0000000000000000FFFFFFFFFFFFFFFF#128 64
  r

theorem m128_2 : IsBlockMask 0x33333333333333333333333333333333#128 2 := by
  intro i hi
  have : ∀ j : Fin 128, (0x33333333333333333333333333333333#128).getLsbD j.val = decide (j.val % (2 * 2) < 2) := by decide +kernel
  exact this ⟨i, hi⟩
theorem m128_64 : IsBlockMask 0x0000000000000000FFFFFFFFFFFFFFFF#128 64 := by
  intro i hi
  have : ∀ j : Fin 128, (0x0000000000000000FFFFFFFFFFFFFFFF#128).getLsbD j.val = decide (j.val % (2 * 64) < 64) := by decide +kernel
  exact this ⟨i, hi⟩
theorem idx128 : ∀ j : Fin 128,
    swapIdx 2 (swapIdx 4 (swapIdx 8 (swapIdx 16 (swapIdx 32 (swapIdx 64 j.val))))) = 2 * (63 - j.val / 2) + j.val % 2 := by decide +kernel
end Ladder
