import Dbg.Lemmas.EdgeComplete
import Dbg.Lemmas.GraphSym
/-! A graph whose nodes are *ported into a table*: every node is a chain of k-mers (indices of the table `U`), its two
    sides are the k-mers at the chain's two end ports, and every other port of a member is joined by a good link to a
    non-end port of the same node.  The graph `compress_kmers` builds from one table is of this kind, and so is the
    concatenation of the graphs built from key-disjoint sub-tables (shards).  Everything the graph layer needs —
    the node-level invariant `GInv`, completeness of `find_link` — follows from this description alone. -/
namespace Compress
open Walk (Dir rm)
open Filter (has hasExt_iff ExtSym2)
open Graph (termKmer findLink searchKmer)
variable {D : Type}

structure PGraph (U : Table D) (K : Nat) (st : Bool) (join0 : D → D → Bool) (nodes : List (Node D))
    (port : Nat → Dir → Nat × Dir) (members : Nat → List Nat) (lk : Walk.Link) : Prop where
  len : ∀ (i : Nat) (n : Node D), nodes[i]? = some n → K ≤ n.seq.length
  np : ∀ (i : Nat) (n : Node D) (s : Dir), nodes[i]? = some n → ∃ e, NodePort U K st n s (port i s) e
  pal : ∀ (i : Nat) (n : Node D) (s : Dir) (e : Entry D), nodes[i]? = some n → NodePort U K st n s (port i s) e → st = false →
    rc e.key = e.key → n.seq.length = K ∧ rc n.seq = n.seq ∧ ∀ t, port i t = ((port i s).1, t)
  keys : ∀ (i : Nat) (n : Node D), nodes[i]? = some n →
    (windowsOf K n.seq).map (fun w => (canonOf st w).1) = (members i).map (keyOf U)
  nodupM : ∀ i, i < nodes.length → (members i).Nodup
  disjoint : ∀ i j, i < nodes.length → j < nodes.length → ∀ z, z ∈ members i → z ∈ members j → i = j
  inRange : ∀ i, i < nodes.length → ∀ z ∈ members i, z < U.length
  cover : ∀ z, z < U.length → ∃ i, i < nodes.length ∧ z ∈ members i
  portMem : ∀ i s, i < nodes.length → (port i s).1 ∈ members i
  portNe : ∀ i, i < nodes.length → port i .L ≠ port i .R
  lkSub : ∀ x d y d', lk x d = some (y, d') → linkOf U st join0 x d = some (y, d')
  inner : ∀ i, i < nodes.length → ∀ w ∈ members i, ∀ δ, (w, δ) ≠ port i .L → (w, δ) ≠ port i .R →
    ∃ w' d', lk w δ = some (w', d') ∧ w' ∈ members i ∧ (w', d'.flip) ≠ port i .L ∧ (w', d'.flip) ≠ port i .R
  connM : ∀ i, i < nodes.length → ∀ x ∈ members i, ∀ y ∈ members i, Walk.Conn lk x y
  chain : ∀ i, i < nodes.length → ∃ cs : List (Nat × Dir), cs.map Prod.fst = members i ∧ OChain lk cs ∧
    cs.head?.map flip2 = some (port i .L) ∧ cs.getLast? = some (port i .R)

/-- members of different nodes are disjoint -/
theorem PGraph.sameNode {U : Table D} {K : Nat} {st : Bool} {join0 : D → D → Bool} {nodes : List (Node D)}
    {port : Nat → Dir → Nat × Dir} {members : Nat → List Nat} {lk : Walk.Link}
    (pg : PGraph U K st join0 nodes port members lk) (i j : Nat) (hi : i < nodes.length) (hj : j < nodes.length) (z : Nat)
    (h1 : z ∈ members i) (h2 : z ∈ members j) : i = j := pg.disjoint i j hi hj z h1 h2

/-- **the target of an extension recorded at a node end is a node end**, on the facing side -/
theorem PGraph.target_port {U : Table D} {K : Nat} {st : Bool} {join0 : D → D → Bool} {nodes : List (Node D)}
    {port : Nat → Dir → Nat × Dir} {members : Nat → List Nat} {lk : Walk.Link}
    (pg : PGraph U K st join0 nodes port members lk) (wf : WF U K st) (hes2 : ExtSym2 U st)
    (i : Nat) (hi : i < nodes.length) (s : Dir) (ex : Entry D) (hex : U[(port i s).1]? = some ex)
    (b : Base) (hb : has ex.exts (port i s).2 b)
    (y : Nat) (hy : findId U (canonSt st (extend ex.key b (port i s).2)).1 = some y) :
    ∃ (j : Nat) (s' : Dir), j < nodes.length ∧
      port j s' = (y, condFlip (port i s).2.flip (canonSt st (extend ex.key b (port i s).2)).2) := by
  obtain ⟨ey, hey, _⟩ := findId_some hy
  have hylt : y < U.length := (List.getElem?_eq_some_iff.mp hey).1
  obtain ⟨j, hj, hyj⟩ := pg.cover y hylt
  generalize hp : port i s = p at *
  generalize hδ' : condFlip p.2.flip (canonSt st (extend ex.key b p.2)).2 = δ' at *
  by_cases hL : (y, δ') = port j .L
  · exact ⟨j, .L, hj, hL.symm⟩
  by_cases hR : (y, δ') = port j .R
  · exact ⟨j, .R, hj, hR.symm⟩
  exfalso
  obtain ⟨w', d', hl, hw', n1, n2⟩ := pg.inner j hj y hyj δ' hL hR
  have hl' := pg.lkSub _ _ _ _ hl
  rw [← hδ'] at hl'
  obtain ⟨hwx, hdx⟩ := link_back wf hes2 p.1 ex p.2 b y hex hb hy w' d' hl'
  have hxi : p.1 ∈ members i := by rw [← hp]; exact pg.portMem i s hi
  have hxj : p.1 ∈ members j := by rw [← hwx]; exact hw'
  have hij := pg.sameNode i j hi hj p.1 hxi hxj
  subst hij
  have hport : (w', d'.flip) = p := by rw [hwx, hdx]
  rw [hport] at n1 n2
  cases s with
  | L => exact n1 hp.symm
  | R => exact n2 hp.symm

theorem nodup_map_inj_on {α β} (f : α → β) : ∀ (l : List α), l.Nodup → (∀ a ∈ l, ∀ b ∈ l, f a = f b → a = b) → (l.map f).Nodup := by
  intro l
  induction l with
  | nil => intro _ _; simp
  | cons a t ih =>
    intro hn hinj
    rw [List.nodup_cons] at hn
    rw [List.map_cons, List.nodup_cons]
    refine ⟨?_, ih hn.2 (fun x hx y hy h => hinj x (List.mem_cons_of_mem _ hx) y (List.mem_cons_of_mem _ hy) h)⟩
    intro hm
    obtain ⟨x, hx, hfx⟩ := List.mem_map.mp hm
    have := hinj x (List.mem_cons_of_mem _ hx) a (List.mem_cons_self ..) hfx
    rw [this] at hx
    exact hn.1 hx

theorem keyOf_inj {U : Table D} {K : Nat} {st : Bool} (wf : WF U K st) (a b : Nat) (ha : a < U.length) (hb : b < U.length)
    (h : keyOf U a = keyOf U b) : a = b := by
  unfold keyOf at h
  rw [List.getElem?_eq_getElem ha, List.getElem?_eq_getElem hb] at h
  exact wf.distinct a b U[a] U[b] (List.getElem?_eq_getElem ha) (List.getElem?_eq_getElem hb) h

/-- **a ported graph satisfies the node-level invariant** (and palindromic terminal k-mers only occur in single-k-mer nodes) -/
theorem PGraph.ginv {U : Table D} {K : Nat} {st : Bool} {join0 : D → D → Bool} {nodes : List (Node D)}
    {port : Nat → Dir → Nat × Dir} {members : Nat → List Nat} {lk : Walk.Link}
    (pg : PGraph U K st join0 nodes port members lk) (wf : WF U K st) (hes2 : ExtSym2 U st) :
    Graph.GInv (⟨K, nodes, st⟩ : Graph.G D) := by
  have hlt : ∀ {i : Nat} {n : Node D}, nodes[i]? = some n → i < nodes.length := fun h => (List.getElem?_eq_some_iff.mp h).1
  -- a canonical k-mer belongs to one node
  have hnd2 : ∀ (i j : Nat) (ni nj : Node D), nodes[i]? = some ni → nodes[j]? = some nj → ∀ c,
      c ∈ (windowsOf K ni.seq).map (fun w => (canonOf st w).1) → c ∈ (windowsOf K nj.seq).map (fun w => (canonOf st w).1) → i = j := by
    intro i j ni nj hi hj c h1 h2
    rw [pg.keys i ni hi] at h1
    rw [pg.keys j nj hj] at h2
    obtain ⟨z1, hz1, e1⟩ := List.mem_map.mp h1
    obtain ⟨z2, hz2, e2⟩ := List.mem_map.mp h2
    have := keyOf_inj wf z1 z2 (pg.inRange i (hlt hi) z1 hz1) (pg.inRange j (hlt hj) z2 hz2) (by rw [e1, e2])
    subst this
    exact pg.sameNode i j (hlt hi) (hlt hj) z1 hz1 hz2
  have hnd1 : ∀ (i : Nat) (n : Node D), nodes[i]? = some n → ((windowsOf K n.seq).map (fun w => (canonOf st w).1)).Nodup := by
    intro i n hi
    rw [pg.keys i n hi]
    apply nodup_map_inj_on _ _ (pg.nodupM i (hlt hi))
    intro a ha b hb hab
    exact keyOf_inj wf a b (pg.inRange i (hlt hi) a ha) (pg.inRange i (hlt hi) b hb) hab
  have hcan : ∀ (i : Nat) (n : Node D) (hi : nodes[i]? = some n) (s : Dir),
      (canonOf st (termKmer K n.seq s)).1 ∈ (windowsOf K n.seq).map (fun w => (canonOf st w).1) := by
    intro i n hi s
    exact List.mem_map_of_mem (term_mem_windows K n.seq wf.kpos (pg.len i n hi) s)
  refine ⟨⟨wf.kpos, pg.len, ?_, ?_⟩, ?_⟩
  · intro i j ni nj s hi hj ht
    apply hnd2 i j ni nj hi hj (canonOf st (termKmer K ni.seq s)).1 (hcan i ni hi s)
    show (canonOf st (termKmer K ni.seq s)).1 ∈ _
    rw [show termKmer K ni.seq s = termKmer K nj.seq s from ht]; exact hcan j nj hj s
  · intro i j ni nj s hst hi hj ht
    have hst' : st = false := hst
    subst hst'
    have ht' : termKmer K ni.seq s.flip = rc (termKmer K nj.seq s) := ht
    have hij : i = j := by
      apply hnd2 i j ni nj hi hj (canonOf false (termKmer K ni.seq s.flip)).1 (hcan i ni hi s.flip)
      rw [ht', canonOf_rc]; exact hcan j nj hj s
    subst hij
    rw [hi] at hj; cases hj
    refine ⟨rfl, ?_⟩
    apply single_window K false ni.seq wf.kpos (pg.len i ni hi) (hnd1 i ni hi)
    cases s with
    | L => have : termKmer K ni.seq .R = rc (termKmer K ni.seq .L) := ht'
           rw [this, canonOf_rc]
    | R => have : termKmer K ni.seq .L = rc (termKmer K ni.seq .R) := ht'
           rw [this, canonOf_rc]
  · intro u v nu nv d s b f hu hv hb hl
    have hu' : nodes[u]? = some nu := hu
    have hv' : nodes[v]? = some nv := hv
    obtain ⟨eu, hpu⟩ := pg.np u nu d hu'
    obtain ⟨ev, hpvs⟩ := pg.np v nv s hv'
    obtain ⟨nv', hv'', hterm, hf0, hf1⟩ := Graph.findLink_sound _ _ _ _ _ _ hl
    rw [hv] at hv''; cases hv''
    have hterm' : termKmer K nv.seq s = (if f then rc (extend (termKmer K nu.seq d) b d) else extend (termKmer K nu.seq d) b d) := hterm
    rcases port_recipr wf hes2 nu nv d s _ _ eu ev hpu hpvs b hb f hterm' hf0 (fun h => ⟨(hf1 h).1, (hf1 h).2⟩) with h | ⟨hst, hrc, h⟩
    · left; exact (hpvs.exts _).mpr h
    · right
      subst hst
      obtain ⟨hK, hrs, hports⟩ := pg.pal v nv s ev hv' hpvs rfl hrc
      refine ⟨⟨nv, hv, rfl, hK, hrs⟩, ?_⟩
      obtain ⟨ev', hpv'⟩ := pg.np v nv s.flip hv'
      have he' : ev' = ev := by
        have h1 := hpv'.ent; have h2 := hpvs.ent
        rw [hports s.flip] at h1
        simp only at h1
        rw [h1] at h2; exact Option.some.inj h2
      subst he'
      rw [hpv'.exts]
      have hps : (port v s).2 = s := by
        have := hports s
        exact (congrArg Prod.snd this)
      have hpf : (port v s.flip).2 = s.flip := by rw [hports s.flip]
      rw [hps] at h
      rw [hpf]
      simpa using h

theorem PGraph.palEnd {U : Table D} {K : Nat} {st : Bool} {join0 : D → D → Bool} {nodes : List (Node D)}
    {port : Nat → Dir → Nat × Dir} {members : Nat → List Nat} {lk : Walk.Link}
    (pg : PGraph U K st join0 nodes port members lk) :
    ∀ (i : Nat) (n : Node D) (s : Dir), st = false → nodes[i]? = some n →
      rc (termKmer K n.seq s) = termKmer K n.seq s → n.seq.length = K := by
  intro i n s hst hi hrc
  obtain ⟨e, np⟩ := pg.np i n s hi
  have hk : rc e.key = e.key := by
    have ht := np.term
    by_cases h : (port i s).2 = s
    · rw [if_pos h] at ht; rw [← ht]; exact hrc
    · rw [if_neg h] at ht
      have : rc (rc e.key) = rc e.key := by rw [← ht]; exact hrc
      rw [rc_rc] at this
      exact this.symm
  exact (pg.pal i n s e hi np hst hk).1

/-! ### the graph built from one table is ported into it -/

theorem pgraph_of_compress {T : Table D} {K : Nat} {st : Bool} {join : D → D → Bool} (reduce : D → D → D)
    (wf : WF T K st) (hes : ExtSym T st) (hj : ∀ a b, join a b = join b a)
    (out : List (Node D × List Nat)) (ho : compressKmersC T st join reduce = some out) :
    ∃ port members, PGraph T K st join (out.map (·.1)) port members (linkOf T st join) ∧
      ∀ i x, out[i]? = some x → members i = x.2 := by
  obtain ⟨provs, hB⟩ := built_of_compress reduce wf hes hj out ho
  have hs := linkOf_sym wf hes hj
  obtain ⟨out', ho', hm, hw⟩ := compressLoopC_spec (join := join) reduce wf hes (List.range T.length) (List.range T.length)
    (fun i hi => List.mem_range.mp hi)
  have : out' = out := by
    have h1 : compressKmersC T st join reduce = some out' := ho'
    rw [ho] at h1; exact (Option.some.inj h1).symm
  subst this
  obtain ⟨_, hcov, _⟩ := compress_components_concrete wf hes hj
  rw [← hm] at hcov
  let port : Nat → Dir → Nat × Dir := fun i s => match provs[i]? with
    | some pr => nodePort T st join pr.1 pr.2 s
    | none => (0, s)
  let members : Nat → List Nat := fun i => match out'[i]? with
    | some x => x.2
    | none => []
  -- access
  have hget : ∀ (i : Nat) (n : Node D), (out'.map (·.1))[i]? = some n → ∃ x pr, out'[i]? = some x ∧ provs[i]? = some pr ∧ n = x.1 := by
    intro i n h
    rw [List.getElem?_map] at h
    cases hx : out'[i]? with
    | none => rw [hx] at h; cases h
    | some x =>
      rw [hx] at h
      have hi : i < provs.length := by rw [hB.len]; exact (List.getElem?_eq_some_iff.mp hx).1
      exact ⟨x, provs[i], rfl, List.getElem?_eq_getElem hi, by simpa using h.symm⟩
  have hport : ∀ i pr s, provs[i]? = some pr → port i s = nodePort T st join pr.1 pr.2 s := by
    intro i pr s h; show (match provs[i]? with | some pr => _ | none => _) = _; rw [h]
  have hmem : ∀ i x, out'[i]? = some x → members i = x.2 := by
    intro i x h; show (match out'[i]? with | some x => _ | none => _) = _; rw [h]
  have hlen' : (out'.map (·.1)).length = out'.length := by simp
  have hgetI : ∀ i, i < out'.length → ∃ x pr, out'[i]? = some x ∧ provs[i]? = some pr := by
    intro i hi
    exact ⟨out'[i], provs[i]'(by rw [hB.len]; exact hi), List.getElem?_eq_getElem hi, List.getElem?_eq_getElem _⟩
  obtain ⟨hnd1, hnd2⟩ := nodup_flatMap_index out' (·.2) hB.nodup
  refine ⟨port, members, ⟨?_, ?_, ?_, ?_, ?_, ?_, ?_, ?_, ?_, ?_, ?_, ?_, ?_, ?_⟩, hmem⟩
  · intro i n hi
    obtain ⟨x, pr, hx, _, rfl⟩ := hget i n hi
    exact (hw x (List.mem_of_getElem? hx)).2
  · intro i n s hi
    obtain ⟨x, pr, hx, hpr, rfl⟩ := hget i n hi
    obtain ⟨hlt, _, a', hb⟩ := hB.prov i x pr hx hpr
    rw [hport i pr s hpr]
    exact (built_node_ports (join := join) reduce wf hes pr.1 pr.2 hlt x.1 x.2 a' hb).2 s
  · intro i n s e hi hnp hst hrc
    subst hst
    obtain ⟨x, pr, hx, hpr, rfl⟩ := hget i n hi
    obtain ⟨hlt, _, a', hb⟩ := hB.prov i x pr hx hpr
    rw [hport i pr s hpr] at hnp
    obtain ⟨h1, h2, _, h4⟩ := pal_port_single (join := join) reduce wf hes pr.1 pr.2 hlt x.1 x.2 a' hb s e hnp hrc
    refine ⟨h1, h2, fun t => ?_⟩
    rw [hport i pr t hpr, hport i pr s hpr, h4 t, h4 s]
  · intro i n hi
    obtain ⟨x, pr, hx, _, rfl⟩ := hget i n hi
    rw [hmem i x hx]
    exact (hw x (List.mem_of_getElem? hx)).1
  · intro i hi
    rw [hlen'] at hi
    obtain ⟨x, pr, hx, _⟩ := hgetI i hi
    rw [hmem i x hx]
    exact hnd1 x (List.mem_of_getElem? hx)
  · intro i j hi hj' z h1 h2
    rw [hlen'] at hi hj'
    obtain ⟨xi, _, hxi, _⟩ := hgetI i hi
    obtain ⟨xj, _, hxj, _⟩ := hgetI j hj'
    rw [hmem i xi hxi] at h1
    rw [hmem j xj hxj] at h2
    have e1 : out'[i] = xi := by rw [List.getElem?_eq_getElem hi] at hxi; exact Option.some.inj hxi
    have e2 : out'[j] = xj := by rw [List.getElem?_eq_getElem hj'] at hxj; exact Option.some.inj hxj
    exact hnd2 i j hi hj' z (by rw [e1]; exact h1) (by rw [e2]; exact h2)
  · intro i hi z hz
    rw [hlen'] at hi
    obtain ⟨x, pr, hx, _⟩ := hgetI i hi
    rw [hmem i x hx] at hz
    apply (hcov z).mp
    exact List.mem_flatten.mpr ⟨x.2, List.mem_map_of_mem (List.mem_of_getElem? hx), hz⟩
  · intro z hz
    obtain ⟨x, hxm, hzx⟩ := hB.cover z hz
    obtain ⟨i, hi, hxi⟩ := List.getElem_of_mem hxm
    refine ⟨i, by rw [hlen']; exact hi, ?_⟩
    rw [hmem i x (by rw [List.getElem?_eq_getElem hi, hxi])]
    exact hzx
  · intro i s hi
    rw [hlen'] at hi
    obtain ⟨x, pr, hx, hpr⟩ := hgetI i hi
    rw [hmem i x hx, hport i pr s hpr, hB.ids i x pr hx hpr]
    exact nodePort_mem T st join pr.1 pr.2 s
  · intro i hi
    rw [hlen'] at hi
    obtain ⟨x, pr, hx, hpr⟩ := hgetI i hi
    obtain ⟨_, hseed, _, _⟩ := hB.prov i x pr hx hpr
    rw [hport i pr .L hpr, hport i pr .R hpr]
    exact build_ports_ne (linkOf T st join) hs pr.1 pr.2 hseed
  · intro x d y d' h; exact h
  · intro i hi w hw' δ hL hR
    rw [hlen'] at hi
    obtain ⟨x, pr, hx, hpr⟩ := hgetI i hi
    obtain ⟨_, hseed, _, _⟩ := hB.prov i x pr hx hpr
    rw [hmem i x hx, hB.ids i x pr hx hpr] at hw' ⊢
    rw [hport i pr .L hpr] at hL ⊢
    rw [hport i pr .R hpr] at hR ⊢
    exact build_inner (linkOf T st join) hs pr.1 pr.2 hseed w hw' δ hL hR
  · intro i hi x hx y hy
    rw [hlen'] at hi
    obtain ⟨X, pr, hX, hpr⟩ := hgetI i hi
    obtain ⟨_, hseed, _, _⟩ := hB.prov i X pr hX hpr
    rw [hmem i X hX, hB.ids i X pr hX hpr] at hx hy
    have ok := Walk.build_ok (linkOf T st join) hs pr.1 pr.2 hseed
    exact Walk.Conn.trans _ (Walk.Conn.symm _ hs (ok.conn x hx)) (ok.conn y hy)
  · intro i hi
    rw [hlen'] at hi
    obtain ⟨X, pr, hX, hpr⟩ := hgetI i hi
    rw [hmem i X hX, hB.ids i X pr hX hpr, hport i pr .L hpr, hport i pr .R hpr]
    have hll := walk_linked (linkOf T st join) (Walk.rm pr.1 pr.2) pr.2 .L
    have hlr := walk_linked (linkOf T st join) (Walk.walk (linkOf T st join) (Walk.rm pr.1 pr.2) pr.2 .L).2 pr.2 .R
    refine ⟨nodeChain (leftW T st join pr.1 pr.2).1 (rightW T st join pr.1 pr.2).1 pr.2, nodeChain_ids _ _ _,
      nodeChain_ochain _ hs _ _ _ hll hlr, ?_, ?_⟩
    · obtain ⟨c0, h0, hc0⟩ := nodeChain_head (leftW T st join pr.1 pr.2).1 (rightW T st join pr.1 pr.2).1 pr.2
      rw [List.head?_eq_getElem?, h0, Option.map_some, hc0]; rfl
    · rw [List.getLast?_eq_getElem?, nodeChain_last]; rfl

end Compress
