import Dbg.Spec.C10
import Dbg.Model.Seq
/-! String-level laws of reverse complement (used by C12, C13, C15). -/
namespace KSpec

theorem comp_comp (b : Nat) (h : b < 4) : comp (comp b) = b := by unfold comp; omega

/-- reverse complement is an involution on base strings -/
theorem rc_rc (l : List Nat) (h : ∀ b ∈ l, b < 4) : rc (rc l) = l := by
  unfold rc
  rw [List.map_reverse, List.reverse_reverse, List.map_map]
  conv => rhs; rw [← List.map_id l]
  apply List.map_congr_left
  intro b hb; simp [Function.comp, comp_comp b (h b hb)]

theorem rc_length (l : List Nat) : (rc l).length = l.length := by simp [rc]

/-- position `i` of the reverse complement is the complement of position `n-1-i` -/
theorem rc_getElem (l : List Nat) (i : Nat) (hi : i < l.length) :
    (rc l)[i]'(by simp [rc]; exact hi) = 3 - l[l.length - 1 - i] := by
  simp [rc, comp, List.getElem_reverse]

/-- rc of a window = the mirrored window of the rc: `rc (l[i..i+K]) = (rc l)[n-K-i .. n-i]` -/
theorem rc_window (l : List Nat) (k i : Nat) (h : i + k ≤ l.length) :
    rc ((l.drop i).take k) = ((rc l).drop (l.length - k - i)).take k := by
  unfold rc
  apply List.ext_getElem
  · simp; omega
  · intro j h1 h2
    simp only [List.length_reverse, List.length_map, List.length_take, List.length_drop] at h1
    simp only [List.getElem_reverse, List.getElem_map, List.getElem_take, List.getElem_drop, List.length_map,
      List.length_take, List.length_drop]
    congr 2; omega

/-- **rc commutes with k-mer extraction**: the `i`-th k-mer of the reverse complement is the reverse
    complement of the `(n-K-i)`-th k-mer -/
theorem windows_rc (l : List Nat) (k : Nat) (hk : k ≤ l.length) :
    windows k (rc l) = (windows k l).reverse.map rc := by
  unfold windows
  simp only [rc_length, show ¬ l.length < k by omega, if_false]
  apply List.ext_getElem
  · simp
  · intro i h1 h2
    simp only [List.length_map, List.length_range] at h1
    simp only [List.getElem_map, List.getElem_range, List.getElem_reverse, List.length_map, List.length_range]
    rw [rc_window l k (l.length - k + 1 - 1 - i) (by omega)]
    congr 2; omega

end KSpec
