import Dbg.Lemmas.Idempotent
import Dbg.Model.Pipeline
/-! Payload totals: with the saturating-sum reduction of the pipelines, the payload of every node — of the graph built
    from a table, of the shard graphs side by side, and of a re-compressed graph — is the saturated sum of the counts of
    its k-mers. -/
namespace Compress
open Walk (Dir Conn Rel rm)
open Filter (has ExtSym2 removeCensoredExts Payload)
open Graph (G termKmer orientedKmers fixExts)
open Pipeline (sumReduce)

def satMax : Nat := 2 ^ 32 - 1

/-- the count carried by a payload -/
def cntOf (p : Payload) : Nat := p.headD 0

/-- the count of the entry at a table position -/
def cntAt (T : Table Payload) (i : Nat) : Nat := match T[i]? with | some e => cntOf e.data | none => 0

/-- the saturated sum of the counts at the given positions -/
def tot (T : Table Payload) (ids : List Nat) : Payload := [min ((ids.map (cntAt T)).sum) satMax]

/-- every payload of the table is a single count that fits in 32 bits -/
def GoodData (T : Table Payload) : Prop := ∀ e ∈ T, ∃ c, c ≤ satMax ∧ e.data = [c]

theorem sumReduce_eq (a b : Payload) : sumReduce a b = [min (cntOf a + cntOf b) satMax] := rfl

theorem cnt_single (c : Nat) : cntOf [c] = c := rfl

theorem min_add_min (x y : Nat) : min (min x satMax + y) satMax = min (x + y) satMax := by
  unfold satMax; omega

theorem min_add_min' (x y : Nat) : min (x + min y satMax) satMax = min (x + y) satMax := by
  unfold satMax; omega

/-- folding the reduction over payloads that are single counts -/
theorem fold_sumReduce (cs : List Nat) (c0 : Nat) :
    cntOf (cs.foldl (fun a c => sumReduce a [c]) [c0]) = if cs = [] then c0 else min (c0 + cs.sum) satMax := by
  induction cs generalizing c0 with
  | nil => rfl
  | cons c t ih =>
    rw [List.foldl_cons, sumReduce_eq, cnt_single, cnt_single, ih]
    by_cases ht : t = []
    · subst ht; simp
    · simp only [ht, if_false, List.cons_ne_nil, List.sum_cons]
      rw [min_add_min]; congr 1; omega

theorem fold_sumReduce_list (cs : List Nat) (c0 : Nat) (h0 : c0 ≤ satMax) :
    cs.foldl (fun a c => sumReduce a [c]) [c0] = [min (c0 + cs.sum) satMax] := by
  induction cs generalizing c0 with
  | nil => simp [Nat.min_eq_left h0]
  | cons c t ih =>
    rw [List.foldl_cons, sumReduce_eq, cnt_single, cnt_single, ih _ (Nat.min_le_right _ _), List.sum_cons, min_add_min]
    congr 2; omega

end Compress

namespace Compress
open Walk (Dir Conn Rel rm)
open Filter (has ExtSym2 removeCensoredExts Payload)
open Graph (G termKmer orientedKmers fixExts)
open Pipeline (sumReduce)

theorem cntAt_good {T : Table Payload} (hg : GoodData T) (i : Nat) (e : Entry Payload) (h : T[i]? = some e) :
    e.data = [cntAt T i] ∧ cntAt T i ≤ satMax := by
  obtain ⟨c, hc, hd⟩ := hg e (List.mem_of_getElem? h)
  have e1 : cntAt T i = c := by unfold cntAt; rw [h]; simp only; rw [hd]; rfl
  rw [e1]
  exact ⟨hd, hc⟩

/-- folding over table positions with a step function that reduces with the entry's payload -/
theorem fold_entries {α} {T : Table Payload} (hg : GoodData T) (F : Payload → α → Payload) (pos : α → Nat)
    (hF : ∀ a p e, T[pos p]? = some e → F a p = sumReduce a e.data) :
    ∀ (ps : List α) (a : Payload), (∀ p ∈ ps, pos p < T.length) →
      ps.foldl F a = (ps.map fun p => cntAt T (pos p)).foldl (fun a c => sumReduce a [c]) a := by
  intro ps
  induction ps with
  | nil => intro a _; rfl
  | cons p t ih =>
    intro a hv
    have hp : pos p < T.length := hv p (List.mem_cons_self ..)
    have he : T[pos p]? = some T[pos p] := List.getElem?_eq_getElem hp
    rw [List.foldl_cons, List.map_cons, List.foldl_cons, hF a p _ he, (cntAt_good hg _ _ he).1]
    exact ih _ (fun q hq => hv q (List.mem_cons_of_mem _ hq))

/-- **payload of a node built by `compress_kmers`** with the saturating sum: the saturated sum over its k-mers -/
theorem compress_payload {T : Table Payload} {K : Nat} {st : Bool} {join : Payload → Payload → Bool}
    (wf : WF T K st) (hes : ExtSym T st) (hj : ∀ a b, join a b = join b a) (hg : GoodData T)
    (out : List (Node Payload × List Nat)) (ho : compressKmersC T st join sumReduce = some out) :
    ∀ x ∈ out, x.1.data = tot T x.2 := by
  obtain ⟨provs, hB⟩ := built_of_compress sumReduce wf hes hj out ho
  intro x hx
  obtain ⟨i, hi, hxi⟩ := List.getElem_of_mem hx
  have hxi' : out[i]? = some x := by rw [List.getElem?_eq_getElem hi, hxi]
  obtain ⟨pr, hpr⟩ : ∃ pr, provs[i]? = some pr := ⟨_, List.getElem?_eq_getElem (by rw [hB.len]; exact hi)⟩
  obtain ⟨hlt, hseed, a', hb⟩ := hB.prov i x pr hxi' hpr
  have hs : T[pr.2]? = some T[pr.2] := List.getElem?_eq_getElem hlt
  obtain ⟨nd, hb', _, hdata⟩ := buildNodeC_spec (join := join) sumReduce wf hes pr.1 pr.2 T[pr.2] hs
  rw [hb] at hb'
  simp only [Option.some.injEq, Prod.mk.injEq] at hb'
  obtain ⟨hnd, hids, _⟩ := hb'
  subst hnd
  -- the ids of the two walks are table positions
  have hsym := linkOf_sym wf hes hj
  have ok := Walk.build_ok (linkOf T st join) hsym pr.1 pr.2 hseed
  have hbuild : (Walk.build (linkOf T st join) pr.1 pr.2).1 =
      ((leftW T st join pr.1 pr.2).1.map Prod.fst).reverse ++ [pr.2] ++ (rightW T st join pr.1 pr.2).1.map Prod.fst := rfl
  obtain ⟨_, hcov, _⟩ := compress_components_concrete wf hes hj
  have hrange : ∀ z ∈ x.2, z < T.length := by
    intro z hz
    obtain ⟨X, hXm, hzX⟩ : ∃ X ∈ out, z ∈ X.2 := ⟨x, hx, hz⟩
    obtain ⟨out', ho', hm, _⟩ := compressLoopC_spec (join := join) sumReduce wf hes (List.range T.length) (List.range T.length)
      (fun i hi => List.mem_range.mp hi)
    have : out' = out := by
      have h1 : compressKmersC T st join sumReduce = some out' := ho'
      rw [ho] at h1; exact (Option.some.inj h1).symm
    subst this
    apply (hcov z).mp
    rw [← hm]
    exact List.mem_flatten.mpr ⟨X.2, List.mem_map_of_mem hXm, hzX⟩
  rw [hids, hbuild] at hrange
  have hvalid : ∀ p ∈ (leftW T st join pr.1 pr.2).1 ++ (rightW T st join pr.1 pr.2).1, p.1 < T.length := by
    intro p hp
    apply hrange
    rcases List.mem_append.mp hp with h | h
    · simp only [List.mem_append, List.mem_reverse, List.mem_map, List.mem_cons, List.mem_nil_iff, or_false]
      exact Or.inl (Or.inl ⟨p, h, rfl⟩)
    · simp only [List.mem_append, List.mem_reverse, List.mem_map, List.mem_cons, List.mem_nil_iff, or_false]
      exact Or.inr ⟨p, h, rfl⟩
  rw [hdata, fold_entries hg _ Prod.fst (fun a p e h => by simp only [h]) _ _ hvalid, (cntAt_good hg _ _ hs).1,
    fold_sumReduce_list _ _ (cntAt_good hg _ _ hs).2, hids, hbuild]
  unfold tot
  congr 2
  simp only [List.map_append, List.map_reverse, List.map_map, List.sum_append, List.sum_reverse, List.map_cons, List.map_nil,
    List.sum_cons, List.sum_nil, Function.comp_def]
  omega

end Compress

namespace Compress
open Walk (Dir Conn Rel rm)
open Filter (has ExtSym2 removeCensoredExts Payload)
open Graph (G termKmer orientedKmers fixExts)
open Pipeline (sumReduce)

/-- the count of a key in a table (0 if absent) -/
def cntK (T : Table Payload) (k : Seq) : Nat := match findId T k with | some i => cntAt T i | none => 0

theorem cntK_keyOf {T : Table Payload} {K : Nat} {st : Bool} (wf : WF T K st) (i : Nat) (hi : i < T.length) :
    cntK T (keyOf T i) = cntAt T i := by
  have he : T[i]? = some T[i] := List.getElem?_eq_getElem hi
  unfold cntK
  rw [keyOf_of_get he, findId_self wf he]

/-- the payload of a node is the saturated sum of the counts of its canonical k-mers -/
def KData (T : Table Payload) (K : Nat) (st : Bool) (n : Node Payload) : Prop :=
  n.data = [min (((canonKeys K st n).map (cntK T)).sum) satMax]

theorem kdata_of_tot {T : Table Payload} {K : Nat} {st : Bool} (wf : WF T K st) (n : Node Payload) (ids : List Nat)
    (hd : n.data = tot T ids) (hk : canonKeys K st n = ids.map (keyOf T)) (hr : ∀ z ∈ ids, z < T.length) : KData T K st n := by
  unfold KData
  rw [hd, hk, List.map_map]
  unfold tot
  congr 3
  apply List.map_congr_left
  intro z hz
  exact (cntK_keyOf wf z (hr z hz)).symm

/-- every node `compress_kmers` builds (saturating sum) carries the saturated sum of the counts of its k-mers -/
theorem compress_kdata {T : Table Payload} {K : Nat} {st : Bool} {join : Payload → Payload → Bool}
    (wf : WF T K st) (hes : ExtSym T st) (hj : ∀ a b, join a b = join b a) (hg : GoodData T)
    (out : List (Node Payload × List Nat)) (ho : compressKmersC T st join sumReduce = some out) :
    ∀ x ∈ out, KData T K st x.1 := by
  intro x hx
  obtain ⟨out', ho', hm, hw⟩ := compressLoopC_spec (join := join) sumReduce wf hes (List.range T.length) (List.range T.length)
    (fun i hi => List.mem_range.mp hi)
  have : out' = out := by
    have h1 : compressKmersC T st join sumReduce = some out' := ho'
    rw [ho] at h1; exact (Option.some.inj h1).symm
  subst this
  obtain ⟨_, hcov, _⟩ := compress_components_concrete wf hes hj
  apply kdata_of_tot wf x.1 x.2 (compress_payload wf hes hj hg out' ho x hx) (hw x hx).1
  intro z hz
  apply (hcov z).mp
  rw [← hm]
  exact List.mem_flatten.mpr ⟨x.2, List.mem_map_of_mem hx, hz⟩

theorem cntAt_append_left (A B : Table Payload) (i : Nat) (h : i < A.length) : cntAt (A ++ B) i = cntAt A i := by
  unfold cntAt; rw [List.getElem?_append_left h]

theorem cntAt_append_right (A B : Table Payload) (i : Nat) : cntAt (A ++ B) (A.length + i) = cntAt B i := by
  unfold cntAt; rw [getElem?_append_off]

theorem cntK_append_left (A B : Table Payload) (k : Seq) (h : k ∈ A.map (·.key)) : cntK (A ++ B) k = cntK A k := by
  obtain ⟨y, hy⟩ := findId_isSome_of_mem A k h
  unfold cntK
  rw [findId_append_left A B k y hy, hy]
  obtain ⟨e, he, _⟩ := findId_some hy
  exact cntAt_append_left A B y (List.getElem?_eq_some_iff.mp he).1

theorem cntK_append_right {A B : Table Payload} {K : Nat} {st : Bool} (wf : WF (A ++ B) K st) (k : Seq) (h : k ∈ B.map (·.key)) :
    cntK (A ++ B) k = cntK B k := by
  obtain ⟨y, hy⟩ := findId_isSome_of_mem B k h
  unfold cntK
  rw [findId_append_right wf k y hy, hy]
  exact cntAt_append_right A B y

theorem kdata_congr {T T' : Table Payload} {K : Nat} {st : Bool} (n : Node Payload)
    (h : ∀ k ∈ canonKeys K st n, cntK T k = cntK T' k) (hd : KData T K st n) : KData T' K st n := by
  unfold KData at *
  rw [hd]
  congr 3
  exact List.map_congr_left h

end Compress

namespace Compress
open Walk (Dir Conn Rel rm)
open Filter (has ExtSym2 removeCensoredExts Payload)
open Graph (G termKmer orientedKmers fixExts)
open Pipeline (sumReduce)

theorem goodData_append_left {A B : Table Payload} (h : GoodData (A ++ B)) : GoodData A :=
  fun e he => h e (List.mem_append_left _ he)
theorem goodData_append_right {A B : Table Payload} (h : GoodData (A ++ B)) : GoodData B :=
  fun e he => h e (List.mem_append_right _ he)

/-- the canonical k-mers of a built node are keys of the table -/
theorem built_keys_sub {T : Table Payload} {K : Nat} {st : Bool} {join : Payload → Payload → Bool}
    (wf : WF T K st) (hes : ExtSym T st) (hj : ∀ a b, join a b = join b a)
    (out : List (Node Payload × List Nat)) (ho : compressKmersC T st join sumReduce = some out) :
    ∀ x ∈ out, ∀ k ∈ canonKeys K st x.1, k ∈ T.map (·.key) := by
  obtain ⟨out', ho', hperm, _⟩ := compressKmersC_partition (join := join) sumReduce wf hes hj
  rw [ho] at ho'; cases ho'
  intro x hx k hk
  apply hperm.mem_iff.mp
  exact List.mem_flatMap.mpr ⟨x, hx, hk⟩

/-- all nodes of all shard graphs carry the saturated sum of their k-mers' counts, and their k-mers are keys of the
    concatenated table -/
theorem allBuilt_kdata {K : Nat} {st : Bool} (join : Payload → Payload → Bool) (hj : ∀ a b, join a b = join b a) :
    ∀ (Ts : List (Table Payload)) (outs : List (List (Node Payload × List Nat))), WF Ts.flatten K st → ExtSym2 Ts.flatten st →
      GoodData Ts.flatten → AllBuilt st join sumReduce Ts outs →
      ∀ n ∈ (outs.map fun o => o.map (·.1)).flatten, KData Ts.flatten K st n ∧ ∀ k ∈ canonKeys K st n, k ∈ Ts.flatten.map (·.key) := by
  intro Ts
  induction Ts with
  | nil =>
    intro outs _ _ _ hb n hn
    cases outs with
    | nil => simp at hn
    | cons _ _ => exact absurd hb (by simp [AllBuilt])
  | cons T Ts ih =>
    intro outs wf hes hg hb n hn
    cases outs with
    | nil => exact absurd hb (by simp [AllBuilt])
    | cons o os =>
      obtain ⟨ho, hbs⟩ : compressKmersC T st join sumReduce = some o ∧ AllBuilt st join sumReduce Ts os := hb
      rw [List.flatten_cons] at wf hes hg ⊢
      have wfT := wf_append_left wf
      have hesT := extSym2_append_left hes
      simp only [List.map_cons, List.flatten_cons, List.mem_append] at hn
      rcases hn with hn | hn
      · obtain ⟨x, hx, rfl⟩ := List.mem_map.mp hn
        have hsub := built_keys_sub wfT hesT.toExtSym hj o ho x hx
        have hkd := compress_kdata wfT hesT.toExtSym hj (goodData_append_left hg) o ho x hx
        refine ⟨kdata_congr x.1 (fun k hk => (cntK_append_left T Ts.flatten k (hsub k hk)).symm) hkd, fun k hk => ?_⟩
        rw [List.map_append]; exact List.mem_append_left _ (hsub k hk)
      · obtain ⟨hkd, hsub⟩ := ih os (wf_append_right wf) (extSym2_append_right wf hes) (goodData_append_right hg) hbs n hn
        refine ⟨kdata_congr n (fun k hk => (cntK_append_right wf k (hsub k hk)).symm) hkd, fun k hk => ?_⟩
        rw [List.map_append]; exact List.mem_append_right _ (hsub k hk)

end Compress

namespace Compress
open Walk (Dir Conn Rel rm)
open Filter (has ExtSym2 removeCensoredExts Payload)
open Graph (G termKmer orientedKmers fixExts)
open Pipeline (sumReduce)
open CompressGraph (compressLoop buildNode compressGraph payloadFold)

theorem compressLoop_prov {D : Type} (g : G D) (st : Bool) (join : D → D → Bool) (reduce : D → D → D) :
    ∀ (is avail : List Nat) (out : List (Node D × List (Nat × Dir))), compressLoop g st join reduce is avail = some out →
      ∀ np ∈ out, ∃ av seed a', buildNode g st join reduce av seed = some (np.1, np.2, a') := by
  intro is
  induction is with
  | nil => intro avail out h np hnp; simp only [compressLoop, Option.some.injEq] at h; subst h; cases hnp
  | cons j is ih =>
    intro avail out h np hnp
    simp only [compressLoop] at h
    by_cases hj : j ∈ avail
    · simp only [hj, if_true] at h
      cases hb : buildNode g st join reduce avail j with
      | none => simp [hb] at h
      | some r =>
        obtain ⟨nd, path, a'⟩ := r
        simp only [hb] at h
        cases hrest : compressLoop g st join reduce is a' with
        | none => simp [hrest] at h
        | some rest =>
          simp only [hrest, Option.some.injEq] at h
          subst h
          rcases List.mem_cons.mp hnp with rfl | hnp'
          · exact ⟨avail, j, a', hb⟩
          · exact ih a' rest hrest np hnp'
    · simp only [hj, if_false] at h
      exact ih avail out h np hnp

/-- folding node payloads that are single capped counts -/
theorem payloadFold_sum (g : G Payload) (c : Nat → Nat) (hc : ∀ (i : Nat) (n : Node Payload), g.nodes[i]? = some n → n.data = [c i] ∧ c i ≤ satMax) :
    ∀ (ps : List (Nat × Dir)) (c0 : Nat) (d : Payload), c0 ≤ satMax →
      ps.foldl (payloadFold g sumReduce) (some [c0]) = some d → d = [min (c0 + (ps.map fun p => c p.1).sum) satMax] := by
  intro ps
  induction ps with
  | nil =>
    intro c0 d h0 h
    simp only [List.foldl_nil, Option.some.injEq] at h
    rw [← h]; simp [Nat.min_eq_left h0]
  | cons p t ih =>
    intro c0 d h0 h
    rw [List.foldl_cons] at h
    cases hn : g.nodes[p.1]? with
    | none =>
      exfalso
      have : payloadFold g sumReduce (some [c0]) p = none := by unfold payloadFold; rw [hn]; rfl
      rw [this] at h
      have : ∀ (l : List (Nat × Dir)), l.foldl (payloadFold g sumReduce) none = none := by
        intro l; induction l with
        | nil => rfl
        | cons a l ih2 => rw [List.foldl_cons]; exact ih2
      rw [this] at h; cases h
    | some n =>
      obtain ⟨hd, hle⟩ := hc p.1 n hn
      have : payloadFold g sumReduce (some [c0]) p = some [min (c0 + c p.1) satMax] := by
        unfold payloadFold; rw [hn]; simp only [Option.map_some]; rw [hd]; rfl
      rw [this] at h
      rw [ih _ d (Nat.min_le_right _ _) h, List.map_cons, List.sum_cons, min_add_min]
      congr 2; omega

theorem sum_min_cap (l : List Nat) : min ((l.map fun s => min s satMax).sum) satMax = min l.sum satMax := by
  induction l with
  | nil => rfl
  | cons a t ih =>
    rw [List.map_cons, List.sum_cons, List.sum_cons]
    have h1 : min (min a satMax + (t.map fun s => min s satMax).sum) satMax = min (a + (t.map fun s => min s satMax).sum) satMax := min_add_min _ _
    rw [h1]
    have h2 : min (a + (t.map fun s => min s satMax).sum) satMax = min (a + min ((t.map fun s => min s satMax).sum) satMax) satMax := (min_add_min' _ _).symm
    rw [h2, ih, min_add_min']

end Compress

namespace Compress
open Walk (Dir Conn Rel rm)
open Filter (has ExtSym2 removeCensoredExts Payload)
open Graph (G termKmer orientedKmers fixExts)
open Pipeline (sumReduce)
open CompressGraph (compressLoop buildNode compressGraph payloadFold)

theorem sum_flatMap {α} (l : List α) (h : α → List Nat) : (l.flatMap h).sum = (l.map fun a => (h a).sum).sum := by
  induction l with
  | nil => rfl
  | cons a t ih => rw [List.flatMap_cons, List.sum_append, ih, List.map_cons, List.sum_cons]

theorem cap3 (s0 : Nat) (ls rs : List Nat) :
    min (min s0 satMax + (ls.map fun s => min s satMax).sum + (rs.map fun s => min s satMax).sum) satMax =
      min (s0 + ls.sum + rs.sum) satMax := by
  have := sum_min_cap (s0 :: (ls ++ rs))
  simp only [List.map_cons, List.map_append, List.sum_cons, List.sum_append] at this
  rw [← Nat.add_assoc, ← Nat.add_assoc] at this
  exact this

/-- the sum of the counts of the canonical k-mers of a sequence -/
def keySum (T : Table Payload) (K : Nat) (st : Bool) (n : Node Payload) : Nat := ((canonKeys K st n).map (cntK T)).sum

theorem kdata_iff (T : Table Payload) (K : Nat) (st : Bool) (n : Node Payload) : KData T K st n ↔ n.data = [min (keySum T K st n) satMax] := Iff.rfl

/-- **payloads through re-compression**: if every node of a graph carries the saturated sum of the counts of its k-mers,
    so does every node of the graph `compress_graph` returns (saturating-sum reduction, no censoring) -/
theorem compressGraph_kdata (T : Table Payload) (K : Nat) (hK : 1 ≤ K) (st : Bool) (nodes : List (Node Payload))
    (hl : ∀ (i : Nat) (n : Node Payload), nodes[i]? = some n → K ≤ n.seq.length)
    (hkd : ∀ n ∈ nodes, KData T K st n) (join : Payload → Payload → Bool)
    (g' : G Payload) (paths : List (List (Nat × Dir)))
    (h : compressGraph st (⟨K, nodes, st⟩ : G Payload) join sumReduce [] = some (g', paths)) :
    ∀ n' ∈ g'.nodes, KData T K st n' := by
  have hdirs := CompressGraph.compressGraph_dirs_stranded (⟨K, nodes, st⟩ : G Payload) hK hl
  have h0 := h
  unfold compressGraph at h
  dsimp only at h
  split at h
  · simp at h
  · rename_i out hloop
    simp only [Option.some.injEq, Prod.mk.injEq] at h
    obtain ⟨hg', hpaths⟩ := h
    generalize hvalid : ((List.range nodes.length).filter fun i => !([] : List Nat).contains i) = valid at *
    have sh1 := CompressGraph.fixExts_shape (⟨K, nodes, st⟩ : G Payload) (some valid)
    generalize hg1 : fixExts (⟨K, nodes, st⟩ : G Payload) (some valid) = g1 at *
    have hK1 : g1.K = K := sh1.1
    -- nodes of g1: same sequences and payloads
    have hnode1 : ∀ (i : Nat) (n1 : Node Payload), g1.nodes[i]? = some n1 → ∃ n0, nodes[i]? = some n0 ∧ n1.seq = n0.seq ∧ n1.data = n0.data := by
      intro i n1 h1
      obtain ⟨n0, h0', _⟩ := CompressGraph.shape_get _ g1 sh1 i n1 h1
      rw [← hg1] at h1
      obtain ⟨a, b, _⟩ := CompressGraph.fixExts_exact _ _ i n0 n1 h0' h1
      exact ⟨n0, h0', a, b⟩
    have hkd1 : ∀ (i : Nat) (n1 : Node Payload), g1.nodes[i]? = some n1 → KData T K st n1 ∧ K ≤ n1.seq.length := by
      intro i n1 h1
      obtain ⟨n0, h0', hs, hd⟩ := hnode1 i n1 h1
      have := hkd n0 (List.mem_of_getElem? h0')
      unfold KData canonKeys at *
      rw [hs, hd]
      exact ⟨this, hl i n0 h0'⟩
    -- the count of an old node
    let c : Nat → Nat := fun i => match g1.nodes[i]? with | some n => min (keySum T K st n) satMax | none => 0
    have hc : ∀ (i : Nat) (n : Node Payload), g1.nodes[i]? = some n → n.data = [c i] ∧ c i ≤ satMax := by
      intro i n hn
      have e : c i = min (keySum T K st n) satMax := by show (match g1.nodes[i]? with | some n => _ | none => _) = _; rw [hn]
      rw [e]
      exact ⟨(hkd1 i n hn).1, Nat.min_le_right _ _⟩
    have hl1 : ∀ (i : Nat) (n : Node Payload), g1.nodes[i]? = some n → g1.K ≤ n.seq.length := by
      intro i n hn; rw [hK1]; exact (hkd1 i n hn).2
    -- every new node
    have hnew : ∀ np ∈ out, KData T K st np.1 := by
      intro np hnp
      obtain ⟨av, seed, a', hb⟩ := compressLoop_prov g1 st join sumReduce _ _ out hloop np hnp
      obtain ⟨hw, _, hnodes⟩ := CompressGraph.buildNode_kmers g1 (by rw [hK1]; exact hK) hl1 st join sumReduce av seed np.1 np.2 a' hb
      obtain ⟨sn, lpath, rpath, hsn, hpath, hdata⟩ := CompressGraph.buildNode_payload g1 st join sumReduce av seed np.1 np.2 a' hb
      rw [hK1] at hw
      obtain ⟨hsd, hsle⟩ := hc seed sn hsn
      -- the payload
      rw [hsd] at hdata
      cases hfl : lpath.foldl (payloadFold g1 sumReduce) (some [c seed]) with
      | none =>
        rw [hfl] at hdata
        have : ∀ (l : List (Nat × Dir)), l.foldl (payloadFold g1 sumReduce) none = none := by
          intro l; induction l with
          | nil => rfl
          | cons a l ih2 => rw [List.foldl_cons]; exact ih2
        rw [this] at hdata; cases hdata
      | some dl =>
        have e1 := payloadFold_sum g1 c hc lpath (c seed) dl hsle hfl
        rw [hfl, e1] at hdata
        have e2 := payloadFold_sum g1 c hc rpath _ np.1.data (Nat.min_le_right _ _) hdata.symm
        rw [min_add_min] at e2
        -- the k-mers
        rw [kdata_iff, e2]
        congr 1
        have hpathsum : ∀ q ∈ np.2, ∃ nq, g1.nodes[q.1]? = some nq := by
          intro q hq
          exact Option.isSome_iff_exists.mp (hnodes q hq)
        have hks : keySum T K st np.1 = (np.2.map fun q => match g1.nodes[q.1]? with | some nq => keySum T K st nq | none => 0).sum := by
          unfold keySum canonKeys
          rw [hw, List.map_flatMap, List.map_flatMap, sum_flatMap]
          congr 1
          apply List.map_congr_left
          intro q hq
          obtain ⟨nq, hnq⟩ := hpathsum q hq
          rw [hnq]
          have hor : orientedKmers g1 q = windowsOf K (match q.2 with | .L => nq.seq | .R => rc nq.seq) := by
            unfold orientedKmers; rw [hnq, hK1]
            try rfl
          rw [hor]
          cases hd : q.2 with
          | L => rfl
          | R =>
            cases hst : st with
            | true =>
              exfalso
              have hq' : q ∈ np.2 := hq
              have hpm : np.2 ∈ paths := by rw [← hpaths]; exact List.mem_map_of_mem hnp
              have := hdirs hst st join sumReduce [] g' paths h0 np.2 hpm q hq'
              rw [hd] at this; cases this
            | false =>
              simp only
              rw [List.map_map]
              have := canon_map_rc K nq.seq (hkd1 q.1 nq hnq).2
              have e : (List.map ((cntK T) ∘ fun w => (canonOf false w).1) (windowsOf K (rc nq.seq))) =
                  ((windowsOf K (rc nq.seq)).map (fun w => (canonOf false w).1)).map (cntK T) := by rw [List.map_map]
              rw [e, this, List.map_reverse, List.sum_reverse, List.map_map]
        rw [hks, hpath]
        simp only [List.map_append, List.map_reverse, List.map_map, List.sum_append, List.sum_reverse, List.map_cons, List.map_nil,
          List.sum_cons, List.sum_nil, Function.comp_def]
        rw [hsn]
        -- collapse the caps
        have hcsum : ∀ (l : List (Nat × Dir)), (∀ q ∈ l, ∃ nq, g1.nodes[q.1]? = some nq) →
            (l.map fun p => c p.1) = (l.map fun q => match g1.nodes[q.1]? with | some nq => keySum T K st nq | none => 0).map fun s => min s satMax := by
          intro l hl'
          rw [List.map_map]
          apply List.map_congr_left
          intro q hq
          obtain ⟨nq, hnq⟩ := hl' q hq
          show (match g1.nodes[q.1]? with | some n => _ | none => _) = _
          simp only [Function.comp, hnq]
        have hlnodes : ∀ q ∈ lpath, ∃ nq, g1.nodes[q.1]? = some nq := by
          intro q hq
          apply hpathsum (q.1, q.2.flip)
          rw [hpath]
          simp only [List.mem_append, List.mem_reverse, List.mem_map, List.mem_cons, List.mem_nil_iff, or_false]
          exact Or.inl (Or.inl ⟨q, hq, rfl⟩)
        have hrnodes : ∀ q ∈ rpath, ∃ nq, g1.nodes[q.1]? = some nq := by
          intro q hq
          apply hpathsum q
          rw [hpath]
          simp only [List.mem_append, List.mem_reverse, List.mem_map, List.mem_cons, List.mem_nil_iff, or_false]
          exact Or.inr hq
        have hcseed : c seed = min (keySum T K st sn) satMax := by
          show (match g1.nodes[seed]? with | some n => _ | none => _) = _; rw [hsn]
        rw [hcsum lpath hlnodes, hcsum rpath hrnodes, hcseed, cap3]
        congr 1
        simp only
        omega
    intro n' hn'
    rw [← hg'] at hn'
    have sh2 := CompressGraph.fixExts_shape (⟨K, out.map (·.1), st⟩ : G Payload) none
    obtain ⟨i, hi, e⟩ := List.getElem_of_mem hn'
    have hn'' : (fixExts (⟨K, out.map (·.1), st⟩ : G Payload) none).nodes[i]? = some n' := by rw [List.getElem?_eq_getElem hi, e]
    obtain ⟨n0, h0', hs⟩ := CompressGraph.shape_get _ _ sh2 i n' hn''
    obtain ⟨_, hd, _⟩ := CompressGraph.fixExts_exact _ _ i n0 n' h0' hn''
    have h0'' : (out.map (·.1))[i]? = some n0 := h0'
    obtain ⟨np, hnp, rfl⟩ : ∃ np ∈ out, n0 = np.1 := by
      have := List.mem_of_getElem? h0''
      obtain ⟨np, hnp, e⟩ := List.mem_map.mp this
      exact ⟨np, hnp, e.symm⟩
    have := hnew np hnp
    unfold KData canonKeys at *
    rw [hd, ← hs]
    exact this

end Compress

namespace Compress
open Walk (Dir Conn Rel rm)
open Filter (has ExtSym2 removeCensoredExts Payload)
open Graph (G termKmer orientedKmers fixExts)
open Pipeline (sumReduce)

theorem cntK_of_mem {T : Table Payload} {K : Nat} {st : Bool} (wf : WF T K st) (e : Entry Payload) (he : e ∈ T) :
    cntK T e.key = cntOf e.data := by
  obtain ⟨i, hi⟩ := mem_index T e he
  have hlt := (List.getElem?_eq_some_iff.mp hi).1
  rw [← keyOf_of_get hi, cntK_keyOf wf i hlt]
  unfold cntAt; rw [hi]

/-- two nodes with the same canonical k-mers (each listed once) whose payloads are the saturated sums of counts taken from
    tables that agree on those k-mers have the same payload -/
theorem data_eq_of_same_keys {T T' : Table Payload} {K : Nat} {st : Bool} (n m : Node Payload)
    (hn : KData T K st n) (hm : KData T' K st m) (hnd : (canonKeys K st n).Nodup) (hmd : (canonKeys K st m).Nodup)
    (hk : ∀ k, k ∈ canonKeys K st n ↔ k ∈ canonKeys K st m) (hc : ∀ k ∈ canonKeys K st n, cntK T k = cntK T' k) :
    n.data = m.data := by
  unfold KData at hn hm
  rw [hn, hm]
  congr 2
  have hperm : (canonKeys K st n).Perm (canonKeys K st m) := (List.perm_ext_iff_of_nodup hnd hmd).mpr hk
  rw [List.map_congr_left hc]
  exact (hperm.map (cntK T')).sum_nat

theorem refTable_goodData (K : Nat) (reads : List (Seq × Exts × Nat)) (thr : Nat) (st : Bool) :
    GoodData (Filter.refTable K reads (.count thr) st) := by
  intro e he
  unfold Filter.refTable at he
  obtain ⟨g, _, hr⟩ := List.mem_filterMap.mp he
  obtain ⟨k, obs⟩ := g
  simp only at hr
  split at hr
  · cases hr
    refine ⟨min obs.length Gen.countSaturation, ?_, rfl⟩
    have : Gen.countSaturation ≤ satMax := by decide
    exact Nat.le_trans (Nat.min_le_right _ _) this
  · cases hr

end Compress

namespace Compress
open Walk (Dir Conn Rel rm)
open Filter (has ExtSym2 removeCensoredExts Payload)
open Graph (G termKmer orientedKmers fixExts)
open Pipeline (sumReduce)
open CompressGraph (compressGraph)

theorem PGraph.canonKeys_nodup {U : Table Payload} {K : Nat} {st : Bool} {join0 : Payload → Payload → Bool} {nodes : List (Node Payload)}
    {port : Nat → Dir → Nat × Dir} {members : Nat → List Nat} {lk : Walk.Link}
    (pg : PGraph U K st join0 nodes port members lk) (wf : WF U K st) (i : Nat) (n : Node Payload) (hi : nodes[i]? = some n) :
    (canonKeys K st n).Nodup := by
  have hlt : i < nodes.length := (List.getElem?_eq_some_iff.mp hi).1
  unfold canonKeys
  rw [pg.keys i n hi]
  apply nodup_map_inj_on _ _ (pg.nodupM i hlt)
  intro a ha b hb hab
  exact keyOf_inj wf a b (pg.inRange i hlt a ha) (pg.inRange i hlt b hb) hab

/-- **payload totals agree**: in the abstract setting of `sharded_eq_direct_abstract` with the saturating-sum reduction and
    count payloads, a node of the re-compressed combination and a node of the one-pass graph that have the same k-mers
    have the same payload -/
theorem sharded_payload_abstract {R : Table Payload} {K : Nat} {st : Bool} (wfR : WF R K st) (hesR : ExtSym2 R st) (hgR : GoodData R)
    (Ts : List (Table Payload)) (sw : Sandwich st Ts.flatten R)
    (join0 : Payload → Payload → Bool) (hj0 : ∀ a b, join0 a b = join0 b a)
    (Td : Table Payload) (hperm : Td.Perm (removeCensoredExts st R)) :
    ∃ outs g' paths outd, AllBuilt st join0 sumReduce Ts outs ∧
      compressGraph st (⟨K, (outs.map fun o => o.map (·.1)).flatten, st⟩ : G Payload) (fun _ _ => true) sumReduce [] = some (g', paths) ∧
      compressKmersC Td st (fun _ _ => true) sumReduce = some outd ∧
      ∀ n ∈ g'.nodes, ∀ m ∈ outd.map (·.1), (∀ k, k ∈ canonKeys K st n ↔ k ∈ canonKeys K st m) → n.data = m.data := by
  have wfU := sandwich_wf wfR sw
  have hesU := sandwich_extSym2 wfR hesR sw
  have hgU : GoodData Ts.flatten := by
    intro e he
    obtain ⟨er, her, _, hd, _⟩ := sw.ent e he
    rw [hd]; exact hgR er her
  obtain ⟨outs, hb, hp⟩ := allBuilt_of_tables (K := K) join0 hj0 sumReduce Ts wfU hesU
  have hkd0 := allBuilt_kdata join0 hj0 Ts outs wfU hesU hgU hb
  obtain ⟨port, mem, lk, pg⟩ := pgraph_flatten K st join0 Ts _ hp wfU
  obtain ⟨g', paths, port', mem', hcg, hK', hst', pg3, _, _⟩ := pgraph_compressGraph pg wfU hesU sumReduce
  have hkd1 := compressGraph_kdata Ts.flatten K wfU.kpos st _ pg.len (fun n hn => (hkd0 n hn).1) _ g' paths hcg
  -- the one-pass side
  have wfRp := Filter.wf_removeCensored st R K wfR
  have hesRp := Filter.extSym2_removeCensored st R K wfR hesR
  have wfd := Filter.wf_perm st _ Td K hperm wfRp
  have hesd := Filter.extSym2_perm st _ Td K hperm wfRp hesRp
  have hgd : GoodData Td := by
    intro e he
    have he' := hperm.mem_iff.mp he
    obtain ⟨i, hi⟩ := mem_index _ e he'
    obtain ⟨e0, h0, _, hd, _⟩ := (Filter.removeCensored_exact st R).2 i e hi
    rw [hd]; exact hgR e0 (List.mem_of_getElem? h0)
  obtain ⟨outd, hod, _, hlen⟩ := compressKmersC_partition (join := fun _ _ => true) sumReduce wfd hesd.toExtSym (fun _ _ => rfl)
  have hkdd := compress_kdata wfd hesd.toExtSym (fun _ _ => rfl) hgd outd hod
  obtain ⟨portd, memd, pgd, _⟩ := pgraph_of_compress sumReduce wfd hesd.toExtSym (fun _ _ => rfl) outd hod
  refine ⟨outs, g', paths, outd, hb, hcg, hod, ?_⟩
  intro n hn m hm hk
  obtain ⟨i, hi, ei⟩ := List.getElem_of_mem hn
  obtain ⟨x, hx, rfl⟩ := List.mem_map.mp hm
  obtain ⟨j, hj, ej⟩ := List.getElem_of_mem hm
  have wf1 := Filter.wf_removeCensored st _ K wfU
  have wf2 := Filter.wf_removeCensored st _ K wf1
  apply data_eq_of_same_keys n x.1 (hkd1 n hn) (hkdd x hx)
    (pg3.canonKeys_nodup wf2 i n (by rw [List.getElem?_eq_getElem hi, ei]))
    (pgd.canonKeys_nodup wfd j x.1 (by rw [List.getElem?_eq_getElem hj, ej])) hk
  -- counts agree on the keys of the node
  intro k hkn
  have hkx : k ∈ canonKeys K st x.1 := (hk k).mp hkn
  have hkT : k ∈ Td.map (·.key) := built_keys_sub wfd hesd.toExtSym (fun _ _ => rfl) outd hod x hx k hkx
  obtain ⟨ed, hed, hked⟩ := List.mem_map.mp hkT
  have hed' := hperm.mem_iff.mp hed
  obtain ⟨id, hid⟩ := mem_index _ ed hed'
  obtain ⟨e0, h0, hk0, hd0, _⟩ := (Filter.removeCensored_exact st R).2 id ed hid
  have hkU : k ∈ Ts.flatten.map (·.key) := sw.keys.mem_iff.mpr (by rw [← hked, hk0]; exact List.mem_map_of_mem (List.mem_of_getElem? h0))
  obtain ⟨eu, heu, hkeu⟩ := List.mem_map.mp hkU
  obtain ⟨er, her, hkr, hdr, _⟩ := sw.ent eu heu
  have : er = e0 := entry_of_key wfR er e0 her (List.mem_of_getElem? h0) (by rw [← hkr, hkeu, ← hked, hk0])
  subst this
  rw [← hkeu, cntK_of_mem wfU eu heu, hkeu, ← hked, cntK_of_mem wfd ed hed, hdr, hd0]

end Compress
