import Dbg.Model.Msp
namespace Msp

/-- the open/closed interval covering k-mer starts `s..e` with minimizer `mn` -/
structure IvOK (sc : Nat → Nat) (d s e : Nat) (mn : MinPos) : Prop where
  hval : mn.val = sc mn.pos
  hse : s ≤ e
  lo : e ≤ mn.pos
  hi : mn.pos ≤ s + d
  hmin : ∀ q, s ≤ q → q ≤ e + d → mn.val ≤ sc q

theorem mpMin_cases (a b : MinPos) : (mpMin a b = a ∧ (a.val < b.val ∨ (a.val = b.val ∧ b.pos ≤ a.pos)))
    ∨ (mpMin a b = b ∧ (b.val < a.val ∨ (a.val = b.val ∧ a.pos < b.pos))) := by
  unfold mpMin mpLe
  by_cases h1 : a.val < b.val
  · simp [h1]
  · by_cases h2 : a.val = b.val
    · by_cases h3 : b.pos ≤ a.pos
      · simp [h2, h3]
      · simp [h2, h3]; omega
    · have : b.val < a.val := by omega
      simp [h1, h2]; omega

theorem findMin_spec (sc : Nat → Nat) (a n : Nat) :
    let r := findMin sc a n
    r.val = sc r.pos ∧ a ≤ r.pos ∧ r.pos ≤ a + n ∧ ∀ q, a ≤ q → q ≤ a + n → r.val ≤ sc q := by
  induction n with
  | zero =>
    simp only [findMin, mp]
    refine ⟨trivial, Nat.le_refl _, Nat.le_refl _, ?_⟩
    intro q h1 h2
    have : q = a := by omega
    subst this; exact Nat.le_refl _
  | succ n ih =>
    simp only [findMin]
    obtain ⟨h1, h2, h3, h4⟩ := ih
    rcases mpMin_cases (findMin sc a n) (mp sc (a + n + 1)) with ⟨he, hc⟩ | ⟨he, hc⟩
    · rw [he]
      refine ⟨h1, h2, by omega, ?_⟩
      intro q hq1 hq2
      by_cases hq : q ≤ a + n
      · exact h4 q hq1 hq
      · have : q = a + n + 1 := by omega
        subst this
        simp only [mp] at hc
        omega
    · rw [he]
      simp only [mp] at hc ⊢
      refine ⟨trivial, by omega, by omega, ?_⟩
      intro q hq1 hq2
      by_cases hq : q ≤ a + n
      · have := h4 q hq1 hq; omega
      · have : q = a + n + 1 := by omega
        subst this; exact Nat.le_refl _

/-- invariant on the reversed `min_positions`: head is the open interval covering `s..cur` -/
def AccOK (sc : Nat → Nat) (d : Nat) : Nat → List (Nat × MinPos) → Prop
  | _, [] => False
  | cur, [(s, mn)] => s = 0 ∧ IvOK sc d s cur mn
  | cur, (s, mn) :: (s', mn') :: rest =>
      IvOK sc d s cur mn ∧ s' < s ∧ (mn'.pos < s ∨ sc (s + d) < mn'.val) ∧ AccOK sc d (s - 1) ((s', mn') :: rest)

theorem AccOK_head {sc d cur s mn rest} (h : AccOK sc d cur ((s, mn) :: rest)) : IvOK sc d s cur mn := by
  cases rest with
  | nil => exact h.2
  | cons x xs => obtain ⟨s', mn'⟩ := x; exact h.1

/-- replacing the head's coverage end -/
theorem AccOK_extend {sc d cur s mn rest} (h : AccOK sc d cur ((s, mn) :: rest)) (cur' : Nat)
    (h' : IvOK sc d s cur' mn) : AccOK sc d cur' ((s, mn) :: rest) := by
  cases rest with
  | nil => exact ⟨h.1, h'⟩
  | cons x xs => obtain ⟨s', mn'⟩ := x; exact ⟨h', h.2⟩

theorem AccOK_push {sc d cur s mn rest} (h : AccOK sc d cur ((s, mn) :: rest)) (i : Nat) (mn2 : MinPos)
    (hi : i = cur + 1) (hnew : IvOK sc d i i mn2) (hend : mn.pos < i ∨ sc (i + d) < mn.val) :
    AccOK sc d i ((i, mn2) :: (s, mn) :: rest) := by
  have hh := AccOK_head h
  refine ⟨hnew, ?_, hend, ?_⟩
  · have := hh.hse; omega
  · have : i - 1 = cur := by omega
    rw [this]; exact h

theorem scanLoop_inv (sc : Nat → Nat) (d : Nat) :
    ∀ (is : List Nat) (i0 : Nat) (s : Nat) (mn : MinPos) (rest : List (Nat × MinPos)) (len : Nat),
      is = List.range' (i0 + 1) len →
      AccOK sc d i0 ((s, mn) :: rest) →
      ∃ s' mn' rest', scanLoop sc d is mn ((s, mn) :: rest) = (s', mn') :: rest' ∧
        AccOK sc d (i0 + len) ((s', mn') :: rest') := by
  intro is
  induction is with
  | nil =>
    intro i0 s mn rest len hr h
    cases len with
    | zero => exact ⟨s, mn, rest, rfl, by simpa using h⟩
    | succ n => simp [List.range'] at hr
  | cons i is ih =>
    intro i0 s mn rest len hr h
    cases len with
    | zero => simp [List.range'] at hr
    | succ n =>
      simp only [List.range', List.cons.injEq] at hr
      obtain ⟨hi, hr⟩ := hr
      subst hi
      have hh := AccOK_head h
      simp only [scanLoop]
      by_cases c1 : i0 + 1 > mn.pos
      · simp only [c1, if_true]
        have fm := findMin_spec sc (i0 + 1) d
        have hnew : IvOK sc d (i0 + 1) (i0 + 1) (findMin sc (i0 + 1) d) :=
          ⟨fm.1, Nat.le_refl _, fm.2.1, fm.2.2.1, fm.2.2.2⟩
        have := ih (i0 + 1) (i0 + 1) (findMin sc (i0 + 1) d) ((s, mn) :: rest) n hr
          (AccOK_push h (i0 + 1) _ rfl hnew (Or.inl (by omega)))
        obtain ⟨s', mn', rest', e1, e2⟩ := this
        exact ⟨s', mn', rest', e1, by rw [show i0 + (n + 1) = i0 + 1 + n by omega]; exact e2⟩
      · simp only [c1, if_false]
        by_cases c2 : (mp sc (i0 + 1 + d)).val < mn.val
        · simp only [c2, if_true]
          simp only [mp] at c2
          have hnew : IvOK sc d (i0 + 1) (i0 + 1) (mp sc (i0 + 1 + d)) := by
            refine ⟨rfl, Nat.le_refl _, by simp [mp], by simp [mp], ?_⟩
            intro q hq1 hq2
            simp only [mp]
            by_cases hq : q ≤ i0 + d
            · have := hh.hmin q (by have := hh.hse; omega) hq; omega
            · have : q = i0 + 1 + d := by omega
              subst this; exact Nat.le_refl _
          have := ih (i0 + 1) (i0 + 1) (mp sc (i0 + 1 + d)) ((s, mn) :: rest) n hr
            (AccOK_push h (i0 + 1) _ rfl hnew (Or.inr c2))
          obtain ⟨s', mn', rest', e1, e2⟩ := this
          exact ⟨s', mn', rest', e1, by rw [show i0 + (n + 1) = i0 + 1 + n by omega]; exact e2⟩
        · simp only [c2, if_false]
          simp only [mp] at c2
          have hext : IvOK sc d s (i0 + 1) mn := by
            refine ⟨hh.hval, by have := hh.hse; omega, by omega, hh.hi, ?_⟩
            intro q hq1 hq2
            by_cases hq : q ≤ i0 + d
            · exact hh.hmin q hq1 hq
            · have : q = i0 + 1 + d := by omega
              subst this; omega
          have := ih (i0 + 1) s mn rest n hr (AccOK_extend h (i0 + 1) hext)
          obtain ⟨s', mn', rest', e1, e2⟩ := this
          exact ⟨s', mn', rest', e1, by rw [show i0 + (n + 1) = i0 + 1 + n by omega]; exact e2⟩

/-- Main: the reversed `min_positions` of a sequence with `n ≥ 1` k-mers satisfies the invariant up to the last k-mer. -/
theorem minPositions_ok (sc : Nat → Nat) (d n : Nat) (hn : 1 ≤ n) :
    ∃ s mn rest, minPositions sc d n = (s, mn) :: rest ∧ AccOK sc d (n - 1) ((s, mn) :: rest) := by
  unfold minPositions
  have fm := findMin_spec sc 0 d
  have h0 : AccOK sc d 0 [(0, findMin sc 0 d)] :=
    ⟨rfl, fm.1, Nat.le_refl _, fm.2.1, by simpa using fm.2.2.1, by simpa using fm.2.2.2⟩
  have := scanLoop_inv sc d (List.range' 1 (n - 1)) 0 0 (findMin sc 0 d) [] (n - 1) (by simp) h0
  obtain ⟨s, mn, rest, e1, e2⟩ := this
  exact ⟨s, mn, rest, e1, by simpa using e2⟩

end Msp
