import Dbg.Lemmas.FilterSym
import Dbg.Lemmas.FilterProofs
import Dbg.Lemmas.Window
import Dbg.Spec.C08
import Dbg.Lemmas.BucketPure
import Dbg.Lemmas.FilterRc
/-! Sharding loses and invents no observation: the (k-mer, extensions) stream of the minimizer pieces of a read,
    concatenated, is the stream of the read itself; hence every shard's table is the restriction of the one-pass
    table to the shard's bucket. -/
namespace Filter
open Compress (Seq Base Exts rc Entry)
open Walk (Dir)
open Msp (Piece PiecesFrom flankByte optPow window)

/-! ### the observations of one piece -/

def bitL (o : Option Base) : Nat := match o with | some b => 1 <<< b.val | none => 0
def bitR (o : Option Base) : Nat := match o with | some b => 1 <<< (b.val + 4) | none => 0

theorem mkE_eq (lo ro : Option Base) : mkE lo ro = Exts.merge ⟨bitL lo⟩ ⟨bitR ro⟩ := rfl

theorem flank_and (lo ro : Option Base) :
    (optPow 0 lo + optPow 4 ro) &&& 15 = bitL lo &&& 15 ∧ (optPow 0 lo + optPow 4 ro) &&& 240 = bitR ro &&& 240 := by
  cases lo with
  | none => cases ro with
    | none => decide
    | some r => revert r; decide
  | some l => cases ro with
    | none => revert l; decide
    | some r => revert l r; decide

theorem merge_flank_left (lo ro : Option Base) (r : Exts) :
    Exts.merge ⟨optPow 0 lo + optPow 4 ro⟩ r = Exts.merge ⟨bitL lo⟩ r := by
  unfold Exts.merge
  show (⟨((optPow 0 lo + optPow 4 ro) &&& 15) ||| (r.val &&& 240)⟩ : Exts) = ⟨(bitL lo &&& 15) ||| (r.val &&& 240)⟩
  rw [(flank_and lo ro).1]

theorem merge_flank_right (lo ro : Option Base) (l : Exts) :
    Exts.merge l ⟨optPow 0 lo + optPow 4 ro⟩ = Exts.merge l ⟨bitR ro⟩ := by
  unfold Exts.merge
  show (⟨(l.val &&& 15) ||| ((optPow 0 lo + optPow 4 ro) &&& 240)⟩ : Exts) = ⟨(l.val &&& 15) ||| (bitR ro &&& 240)⟩
  rw [(flank_and lo ro).2]

/-- the flank byte of the interval `[a, a+len)` of `s` -/
def flankE (s : Seq) (a len : Nat) : Exts := ⟨optPow 0 (if a = 0 then none else s[a - 1]?) + optPow 4 s[a + len]?⟩

theorem flankByte_eq (seq : Array Base) (a len : Nat) : (⟨flankByte seq a len⟩ : Exts) = flankE seq.toList a len := by
  unfold flankByte flankE
  congr 2
  · by_cases h : a = 0
    · simp [h, optPow]
    · simp [h]
  · simp

/-- **one piece**: the stream of the substring `[a, a+len)` of `s`, fed with its true flanks as boundary extensions, is
    the stream of `s` restricted to the windows starting in `[a, a+len-K]` -/
theorem piece_stream (s : Seq) (K len a : Nat) (hK : 1 ≤ K) (hkl : K ≤ len) (hle : a + len ≤ s.length) :
    kmerExtsOf K (win s len a) (flankE s a len) =
      (List.range' a (len - K + 1)).map fun i => (win s K i, rawE s K i) := by
  have hlen : (win s len a).length = len := win_length s len a hle
  unfold kmerExtsOf
  rw [hlen, if_neg (by omega), List.range'_eq_map_range, List.map_map]
  apply List.map_congr_left
  intro i hi
  rw [List.mem_range] at hi
  simp only [Function.comp]
  congr 1
  · rw [Array.toList_extract, List.extract_eq_take_drop]
    simp only [List.toList_toArray, win]
    rw [List.drop_take, List.take_take, List.drop_drop]
    congr 1; omega
  · rw [rawE, mkE_eq]
    have mcongr : ∀ (x x' y y' : Nat), x = x' → y = y' → Exts.merge ⟨x⟩ ⟨y⟩ = Exts.merge ⟨x'⟩ ⟨y'⟩ := by
      intro x x' y y' h1 h2; rw [h1, h2]
    by_cases h0 : i = 0
    · subst h0
      simp only [if_true, Nat.add_zero]
      by_cases h1 : 0 + 1 = len - K + 1
      · rw [if_pos h1]
        have hK' : a + K = a + len := by omega
        unfold flankE
        rw [merge_flank_left, merge_flank_right, hK']
      · rw [if_neg h1]
        unfold flankE
        rw [merge_flank_left]
        apply mcongr _ _ _ _ rfl
        rw [List.getElem?_toArray, win_getElem? s len a (0 + K) (by omega)]
        have : a + (0 + K) = a + K := by omega
        rw [this]
        generalize s[a + K]? = o
        cases o <;> rfl
    · rw [if_neg h0]
      have ha : ¬ (a + i = 0) := by omega
      rw [if_neg ha]
      by_cases h1 : i + 1 = len - K + 1
      · rw [if_pos h1]
        unfold flankE
        rw [merge_flank_right]
        have : a + i + K = a + len := by omega
        rw [this]
        refine mcongr _ _ _ _ ?_ rfl
        rw [List.getElem?_toArray, win_getElem? s len a (i - 1) (by omega)]
        have : a + (i - 1) = a + i - 1 := by omega
        rw [this]
        generalize s[a + i - 1]? = o
        cases o <;> rfl
      · rw [if_neg h1]
        refine mcongr _ _ _ _ ?_ ?_
        · rw [List.getElem?_toArray, win_getElem? s len a (i - 1) (by omega)]
          have : a + (i - 1) = a + i - 1 := by omega
          rw [this]
          generalize s[a + i - 1]? = o
          cases o <;> rfl
        · rw [List.getElem?_toArray, win_getElem? s len a (i + K) (by omega)]
          have : a + (i + K) = a + i + K := by omega
          rw [this]
          generalize s[a + i + K]? = o
          cases o <;> rfl

/-- **tiling pieces**: the streams of the pieces of a read, concatenated, are the stream of the read from the first
    piece's start on -/
theorem pieces_stream (seq : Array Base) (K : Nat) (hK : 1 ≤ K) :
    ∀ (pcs : List Piece) (a : Nat), PiecesFrom seq K a pcs →
      pcs.flatMap (fun pc => kmerExtsOf K pc.seq ⟨pc.exts⟩) =
        (List.range' a (seq.size - K + 1 - a)).map fun i => (win seq.toList K i, rawE seq.toList K i) := by
  intro pcs
  induction pcs with
  | nil => intro a h; exact absurd h (by simp [PiecesFrom])
  | cons pc rest ih =>
    intro a h
    have one : K ≤ pc.seq.length → a + pc.seq.length ≤ seq.size → pc.seq = window seq pc.seq.length a →
        pc.exts = flankByte seq a pc.seq.length →
        kmerExtsOf K pc.seq ⟨pc.exts⟩ =
          (List.range' a (pc.seq.length - K + 1)).map fun i => (win seq.toList K i, rawE seq.toList K i) := by
      intro hkl hle hw he
      have h1 := piece_stream seq.toList K pc.seq.length a hK hkl (by simpa using hle)
      rw [← flankByte_eq, ← he] at h1
      have h2 : win seq.toList pc.seq.length a = pc.seq := by
        exact ((Msp.window_eq seq pc.seq.length a).symm.trans hw.symm)
      rw [h2] at h1
      exact h1
    cases rest with
    | nil =>
      obtain ⟨h1, h2, h3, h4⟩ : K ≤ pc.seq.length ∧ a + pc.seq.length = seq.size ∧ pc.seq = window seq pc.seq.length a ∧
        pc.exts = flankByte seq a pc.seq.length := h
      simp only [List.flatMap_cons, List.flatMap_nil, List.append_nil]
      rw [one h1 (by omega) h3 h4]
      congr 2; omega
    | cons pc' rest =>
      obtain ⟨h1, h2, h3, h4, h5⟩ : K ≤ pc.seq.length ∧ a + pc.seq.length ≤ seq.size ∧ pc.seq = window seq pc.seq.length a ∧
        pc.exts = flankByte seq a pc.seq.length ∧ PiecesFrom seq K (a + pc.seq.length - (K - 1)) (pc' :: rest) := h
      have ihh := ih _ h5
      simp only [List.flatMap_cons] at ihh ⊢
      rw [ihh, one h1 h2 h3 h4, ← List.map_append]
      congr 1
      have e1 : a + pc.seq.length - (K - 1) = a + (pc.seq.length - K + 1) := by omega
      rw [e1, List.range'_append_1]
      have hnext : a + (pc.seq.length - K + 1) + K ≤ seq.size := by
        cases rest with
        | nil =>
          obtain ⟨g1, g2, _⟩ : K ≤ pc'.seq.length ∧ (a + pc.seq.length - (K - 1)) + pc'.seq.length = seq.size ∧ _ := h5
          omega
        | cons _ _ =>
          obtain ⟨g1, g2, _⟩ : K ≤ pc'.seq.length ∧ (a + pc.seq.length - (K - 1)) + pc'.seq.length ≤ seq.size ∧ _ := h5
          omega
      congr 1; omega

/-! ### observations of the pieces = observations of the reads -/

theorem observations_canon (K : Nat) (reads : List (Seq × Exts × Nat)) (st : Bool) :
    observations K reads st = reads.flatMap fun r => (kmerExtsOf K r.1 r.2.1).map fun x => canonObs st x.1 x.2 r.2.2 := by
  unfold observations
  rw [List.flatMap_def, List.flatMap_def]
  congr 1

theorem observations_append (K : Nat) (l1 l2 : List (Seq × Exts × Nat)) (st : Bool) :
    observations K (l1 ++ l2) st = observations K l1 st ++ observations K l2 st := by
  unfold observations; rw [List.flatMap_append]

/-- a piece as an input of `filter_kmers` (label 0) -/
def pieceRead (pc : Piece) : Seq × Exts × Nat := (pc.seq, ⟨pc.exts⟩, 0)

/-- the pieces of one read are either a tiling of it, or there are none because the read is shorter than `K` -/
def TilesRead (K : Nat) (seq : Array Base) (pieces : List Piece) : Prop :=
  if seq.size < K then pieces = [] else PiecesFrom seq K 0 pieces

/-- **one read**: filtering its pieces observes exactly what filtering the read observes, in the same order -/
theorem read_observations (K : Nat) (hK : 1 ≤ K) (seq : Array Base) (pieces : List Piece) (st : Bool)
    (h : TilesRead K seq pieces) :
    observations K (pieces.map pieceRead) st = observations K [(seq.toList, (⟨0⟩ : Exts), 0)] st := by
  rw [observations_canon, observations_canon]
  simp only [List.flatMap_cons, List.flatMap_nil, List.append_nil]
  rw [kmerExtsOf_zero K seq.toList hK]
  unfold TilesRead at h
  by_cases hs : seq.size < K
  · rw [if_pos hs] at h
    subst h
    simp [hs]
  · rw [if_neg hs] at h
    have hp := pieces_stream seq K hK pieces 0 h
    have : ¬ seq.toList.length < K := by simpa using hs
    rw [if_neg this]
    have e : (pieces.map pieceRead).flatMap (fun r => (kmerExtsOf K r.1 r.2.1).map fun x => canonObs st x.1 x.2 r.2.2) =
        (pieces.flatMap fun pc => kmerExtsOf K pc.seq ⟨pc.exts⟩).map fun x => canonObs st x.1 x.2 0 := by
      rw [List.flatMap_map, List.map_flatMap]
      rfl
    rw [e, hp, List.range_eq_range']
    simp

/-- read by read, the pieces tile the reads -/
def AllTile (K : Nat) : List Seq → List (List Piece) → Prop
  | [], [] => True
  | r :: rs, ps :: pss => TilesRead K r.toArray ps ∧ AllTile K rs pss
  | _, _ => False

/-- a read as the one-pass pipeline feeds it to `filter_kmers`: no boundary extensions, label 0 -/
def plainRead (r : Seq) : Seq × Exts × Nat := (r, ⟨0⟩, 0)

/-- **all reads**: the pieces of all reads, in order, observe exactly what the reads observe, in the same order -/
theorem reads_observations (K : Nat) (hK : 1 ≤ K) (st : Bool) :
    ∀ (reads : List Seq) (pss : List (List Piece)), AllTile K reads pss →
      observations K (pss.flatten.map pieceRead) st = observations K (reads.map plainRead) st := by
  intro reads
  induction reads with
  | nil =>
    intro pss h
    cases pss with
    | nil => rfl
    | cons _ _ => exact absurd h (by simp [AllTile])
  | cons r rs ih =>
    intro pss h
    cases pss with
    | nil => exact absurd h (by simp [AllTile])
    | cons ps pss =>
      obtain ⟨h1, h2⟩ : TilesRead K r.toArray ps ∧ AllTile K rs pss := h
      rw [List.flatten_cons, List.map_append, observations_append, ih pss h2, read_observations K hK r.toArray ps st h1]
      rw [List.map_cons, ← observations_append]
      rfl

/-! ### one shard = the observations whose key falls in its bucket -/

theorem flatMap_filter_of {α β} (l : List α) (f : α → List β) (p : α → Bool) (q : β → Bool)
    (h : ∀ x ∈ l, ∀ y ∈ f x, q y = p x) : (l.filter p).flatMap f = (l.flatMap f).filter q := by
  induction l with
  | nil => rfl
  | cons x xs ih =>
    have ihh := ih (fun x hx => h x (List.mem_cons_of_mem _ hx))
    have hx := h x (List.mem_cons_self ..)
    rw [List.flatMap_cons, List.filter_append, ← ihh]
    by_cases hp : p x = true
    · rw [List.filter_cons_of_pos hp, List.flatMap_cons]
      congr 1
      exact (List.filter_eq_self.mpr (fun y hy => by rw [hx y hy, hp])).symm
    · rw [List.filter_cons_of_neg hp]
      have : (f x).filter q = [] := List.filter_eq_nil_iff.mpr (fun y hy => by rw [hx y hy]; exact hp)
      rw [this, List.nil_append]

/-- the observations of the pieces selected by a predicate are the observations selected by any predicate that agrees
    with it on every observation of every piece -/
theorem shard_observations (K : Nat) (st : Bool) (all : List Piece) (p : Piece → Bool) (q : Seq → Bool)
    (h : ∀ pc ∈ all, ∀ o ∈ observations K [pieceRead pc] st, q o.1 = p pc) :
    observations K ((all.filter p).map pieceRead) st = (observations K (all.map pieceRead) st).filter fun o => q o.1 := by
  have e : ∀ l : List Piece, observations K (l.map pieceRead) st = l.flatMap fun pc => observations K [pieceRead pc] st := by
    intro l
    unfold observations
    rw [List.flatMap_map]
    simp
  rw [e, e]
  exact flatMap_filter_of all _ p _ h

/-! ### the table of a sub-stream selected by key is the selected part of the table -/

theorem distinctKeys_filter (obs : List Ob) (q : Seq → Bool) :
    distinctKeys (obs.filter fun o => q o.1) = (distinctKeys obs).filter q := by
  obtain ⟨a1, b1⟩ := distinctKeys_spec (obs.filter fun o => q o.1)
  obtain ⟨a2, b2⟩ := distinctKeys_spec obs
  apply asc_unique _ _ a1 (a2.filter _)
  intro k
  rw [b1 k, List.mem_filter, b2 k]
  constructor
  · rintro ⟨o, ho, e⟩
    rw [List.mem_filter] at ho
    exact ⟨⟨o, ho.1, e⟩, by rw [← e]; exact ho.2⟩
  · rintro ⟨⟨o, ho, e⟩, hq⟩
    exact ⟨o, List.mem_filter.mpr ⟨ho, by rw [e]; exact hq⟩, e⟩

theorem obsOf_filter (obs : List Ob) (q : Seq → Bool) (k : Seq) (hq : q k = true) :
    obsOf (obs.filter fun o => q o.1) k = obsOf obs k := by
  unfold obsOf
  rw [List.filter_filter]
  congr 2
  apply List.filter_congr
  intro o _
  by_cases h : (o.1 == k) = true
  · have : o.1 = k := by simpa using h
    rw [this, hq]; simp
  · simp [h]

/-- the reference groups of an observation list -/
def groupsOf (obs : List Ob) : List (Seq × List (Exts × Nat)) := (distinctKeys obs).map (obsOf obs)

theorem refGroups_eq (K : Nat) (reads : List (Seq × Exts × Nat)) (st : Bool) :
    refGroups K reads st = groupsOf (observations K reads st) := rfl

theorem groupsOf_filter (obs : List Ob) (q : Seq → Bool) :
    groupsOf (obs.filter fun o => q o.1) = (groupsOf obs).filter fun g => q g.1 := by
  unfold groupsOf
  rw [distinctKeys_filter, List.filter_map]
  have : ((fun (g : Seq × List (Exts × Nat)) => q g.1) ∘ obsOf obs) = q := by
    funext k; rfl
  rw [this]
  apply List.map_congr_left
  intro k hk
  exact obsOf_filter obs q k (List.mem_filter.mp hk).2

/-- one row of the table from one group -/
def rowOf (sm : Summarizer) (g : Seq × List (Exts × Nat)) : Option (Entry Payload) :=
  if (summarize sm g.2).1 then some ⟨g.1, (summarize sm g.2).2.1, (summarize sm g.2).2.2⟩ else none

theorem refTable_rows (K : Nat) (reads : List (Seq × Exts × Nat)) (sm : Summarizer) (st : Bool) :
    refTable K reads sm st = (groupsOf (observations K reads st)).filterMap (rowOf sm) := by
  unfold refTable
  rw [refGroups_eq]
  rfl

theorem rowOf_key (sm : Summarizer) (g : Seq × List (Exts × Nat)) (e : Entry Payload) (h : rowOf sm g = some e) : e.key = g.1 := by
  unfold rowOf at h
  split at h
  · cases h; rfl
  · cases h

theorem filterMap_filter_key (sm : Summarizer) (l : List (Seq × List (Exts × Nat))) (q : Seq → Bool) :
    (l.filter fun g => q g.1).filterMap (rowOf sm) = (l.filterMap (rowOf sm)).filter fun e => q e.key := by
  induction l with
  | nil => rfl
  | cons g gs ih =>
    by_cases hq : q g.1 = true
    · have e1 : (g :: gs).filter (fun g => q g.1) = g :: gs.filter (fun g => q g.1) := List.filter_cons_of_pos (by exact hq)
      rw [e1]
      cases hr : rowOf sm g with
      | none => rw [List.filterMap_cons_none hr, List.filterMap_cons_none hr, ih]
      | some e =>
        rw [List.filterMap_cons_some hr, List.filterMap_cons_some hr, ih, List.filter_cons_of_pos (by rw [rowOf_key sm g e hr]; exact hq)]
    · have e1 : (g :: gs).filter (fun g => q g.1) = gs.filter (fun g => q g.1) := List.filter_cons_of_neg (by exact hq)
      rw [e1]
      cases hr : rowOf sm g with
      | none => rw [List.filterMap_cons_none hr, ih]
      | some e =>
        rw [List.filterMap_cons_some hr, ih, List.filter_cons_of_neg (by rw [rowOf_key sm g e hr]; exact hq)]

/-- **restriction**: if the reads `sub` observe exactly the observations of `full` whose key satisfies `q`, then the
    table of `sub` is the part of the table of `full` with keys satisfying `q`, row for row (same extensions, same
    payload, same order), and likewise the list of all k-mers -/
theorem table_restrict (K : Nat) (sub full : List (Seq × Exts × Nat)) (sm : Summarizer) (st : Bool) (q : Seq → Bool)
    (h : observations K sub st = (observations K full st).filter fun o => q o.1) :
    refTable K sub sm st = (refTable K full sm st).filter (fun e => q e.key) ∧
    refAllKmers K sub st = (refAllKmers K full st).filter q := by
  constructor
  · rw [refTable_rows, refTable_rows, h, groupsOf_filter, filterMap_filter_key]
  · unfold refAllKmers
    rw [refGroups_eq, refGroups_eq, h, groupsOf_filter, List.filter_map]
    rfl

/-! ### bucket purity at the level of observations -/

theorem kmerExtsOf_keys (K : Nat) (s : Seq) (e : Exts) : (kmerExtsOf K s e).map (·.1) = Msp.kmersOfSeq K s := by
  unfold kmerExtsOf Msp.kmersOfSeq
  split
  · rfl
  · rw [List.map_map]
    apply List.map_congr_left
    intro i _
    simp only [Function.comp]
    rw [Array.toList_extract, List.extract_eq_take_drop]
    simp only [List.toList_toArray]
    congr 1; omega

/-- every observation made from a piece whose k-mers all fall in the piece's bucket has a key in that bucket: the key
    is the k-mer itself or (unstranded: reverse-complement mode) its reverse complement, which has the same bucket -/
theorem piece_obs_bucket (K P : Nat) (hPK : P ≤ K) (perm : Array Nat) (hsz : perm.size = 4 ^ P) (hinj : Msp.PermInj perm)
    (st : Bool) (pc : Piece) (hpure : ∀ x ∈ Msp.kmersOfSeq K pc.seq, pc.bucket = Msp.bucketOf perm (!st) P x) :
    ∀ o ∈ observations K [pieceRead pc] st, Msp.bucketOf perm (!st) P o.1 = pc.bucket := by
  intro o ho
  rw [observations_canon] at ho
  simp only [List.flatMap_cons, List.flatMap_nil, List.append_nil, List.mem_map, pieceRead] at ho
  obtain ⟨x, hx, rfl⟩ := ho
  have hk : x.1 ∈ Msp.kmersOfSeq K pc.seq := by
    rw [← kmerExtsOf_keys K pc.seq ⟨pc.exts⟩]; exact List.mem_map_of_mem hx
  have hlen : x.1.length = K := kmerExtsOf_len K pc.seq ⟨pc.exts⟩ x hx
  have hb := (hpure x.1 hk).symm
  unfold canonObs
  cases st with
  | true => simpa using hb
  | false =>
    simp only [Bool.false_eq_true, if_false]
    by_cases hlt : x.1 < rc x.1
    · rw [if_pos hlt]; exact hb
    · rw [if_neg hlt]
      simp only [Bool.not_false] at hb ⊢
      rw [Msp.bucketOf_rc perm P hsz hinj x.1 (by omega)]
      exact hb

end Filter
