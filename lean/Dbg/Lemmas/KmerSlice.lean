import Dbg.Lemmas.KmerExtend
/-! `set_slice_mut` of the packed k-mer model writes exactly the addressed bases. -/
namespace Kmer
variable {c : Cfg}

/-- bits of `bottom_mask(m)`: the low `2m` bits -/
theorem bottomMask_bits (m i : Nat) (hm : 2 * m ≤ c.w) (hi : i < c.w) :
    (bottomMask c m).getLsbD i = decide (i < 2 * m) := by
  unfold bottomMask
  by_cases h0 : m > 0
  · simp only [h0, if_true]
    rw [Mask.lowMask_getLsbD c.w (m * 2) i (by omega)]
    simp [hi, Nat.mul_comm]
  · have : m = 0 := by omega
    subst this; simp

/-- bits of `top_mask(n)`: the lanes before `n` and, for the partial-width type, the unused high bits -/
theorem topMask_bits (hc : c.WF) (n i : Nat) (hn : n ≤ c.K) (hi : i < c.w) :
    (topMask c n).getLsbD i = decide (2 * (c.K - n) ≤ i) := by
  have hw := hc.hw
  unfold topMask
  by_cases hv : c.var = true
  · simp only [hv, if_true]
    by_cases h0 : n * 2 + (c.w - c.K * 2) > 0
    · simp only [h0, if_true]
      rw [BitVec.getLsbD_shiftLeft, Mask.lowMask_getLsbD c.w _ _ (by omega)]
      have e : c.w - (n * 2 + (c.w - c.K * 2)) = 2 * (c.K - n) := by omega
      rw [e]
      by_cases h : 2 * (c.K - n) ≤ i
      · have h1 : ¬ i < 2 * (c.K - n) := by omega
        have h2 : i - 2 * (c.K - n) < n * 2 + (c.w - c.K * 2) := by omega
        have h3 : i - 2 * (c.K - n) < c.w := by omega
        simp [h, hi, h1, h2, h3]
      · have h1 : i < 2 * (c.K - n) := by omega
        simp [h, h1]
    · simp only [h0, if_false]
      have : ¬ 2 * (c.K - n) ≤ i := by omega
      simp [this]
  · have hv' : c.var = false := by cases h : c.var <;> simp_all
    have hfull := hc.hint hv'
    simp only [hv', Bool.false_eq_true, if_false]
    by_cases h0 : n > 0
    · simp only [h0, if_true]
      rw [BitVec.getLsbD_shiftLeft, Mask.lowMask_getLsbD c.w _ _ (by omega)]
      have e : c.w - n * 2 = 2 * (c.K - n) := by omega
      rw [e]
      by_cases h : 2 * (c.K - n) ≤ i
      · have h1 : ¬ i < 2 * (c.K - n) := by omega
        have h2 : i - 2 * (c.K - n) < n * 2 := by omega
        have h3 : i - 2 * (c.K - n) < c.w := by omega
        simp [h, hi, h1, h2, h3]
      · have h1 : i < 2 * (c.K - n) := by omega
        simp [h, h1]
    · have : n = 0 := by omega
      subst this
      have h9 : i < 2 * c.K := by omega
      simp [h9]

/-- the 64-bit `value` moved to the top of the storage word -/
def valueTop (c : Cfg) (value : BitVec 64) : St c :=
  if c.w < 64 then (value >>> (64 - c.w)).setWidth c.w
  else if c.w > 64 then (value.setWidth c.w) <<< (c.w - 64)
  else value.setWidth c.w

theorem valueTop_bits (value : BitVec 64) (j : Nat) (hj : j < c.w) :
    (valueTop c value).getLsbD j = (decide (c.w ≤ j + 64) && value.getLsbD (j + 64 - c.w)) := by
  unfold valueTop
  by_cases h1 : c.w < 64
  · simp only [h1, if_true, BitVec.getLsbD_setWidth, BitVec.getLsbD_ushiftRight, hj, decide_true, Bool.true_and]
    have : c.w ≤ j + 64 := by omega
    simp only [this, decide_true, Bool.true_and]
    congr 1; omega
  · by_cases h2 : c.w > 64
    · simp only [h1, h2, if_false, if_true, BitVec.getLsbD_shiftLeft, BitVec.getLsbD_setWidth, hj, decide_true, Bool.true_and]
      by_cases h3 : j < c.w - 64
      · have : ¬ c.w ≤ j + 64 := by omega
        simp [h3, this]
      · have h4 : c.w ≤ j + 64 := by omega
        have e : j - (c.w - 64) = j + 64 - c.w := by omega
        have h5 : j + 64 - c.w < c.w := by omega
        simp [h3, h4, h5, e]
    · have : c.w = 64 := by omega
      simp only [h1, h2, if_false, BitVec.getLsbD_setWidth, hj, decide_true, Bool.true_and]
      have h4 : c.w ≤ j + 64 := by omega
      have e : j + 64 - c.w = j := by omega
      simp [h4, e]

theorem setSliceMut_eq (s : St c) (pos n : Nat) (value : BitVec 64) :
    setSliceMut c s pos n value =
      let mask := topMask c pos ||| bottomMask c (c.K - (pos + n))
      let shift := if c.var then 2 * pos + (c.w - c.K * 2) else 2 * pos
      (s &&& mask) ||| ((valueTop c value >>> shift) &&& ~~~mask) := rfl

/-- bits of `set_slice_mut`: inside the run the bits of `value` (top-aligned), outside the old bits -/
theorem setSliceMut_bits (hc : c.WF) (s : St c) (pos n : Nat) (value : BitVec 64) (i : Nat)
    (hn1 : 1 ≤ n) (hn32 : n ≤ 32) (hpn : pos + n ≤ c.K) (hi : i < c.w) :
    (setSliceMut c s pos n value).getLsbD i =
      if 2 * (c.K - (pos + n)) ≤ i ∧ i < 2 * (c.K - pos) then value.getLsbD (i + 64 - 2 * (c.K - pos))
      else s.getLsbD i := by
  have hw := hc.hw
  rw [setSliceMut_eq]
  simp only [BitVec.getLsbD_or, BitVec.getLsbD_and, BitVec.getLsbD_not, BitVec.getLsbD_ushiftRight, hi, decide_true, Bool.true_and]
  rw [topMask_bits hc pos i (by omega) hi, bottomMask_bits (c.K - (pos + n)) i (by omega) hi]
  have hshift : (if c.var = true then 2 * pos + (c.w - c.K * 2) else 2 * pos) = 2 * pos + (c.w - 2 * c.K) := by
    by_cases hv : c.var = true
    · simp [hv]; omega
    · have hv' : c.var = false := by cases h : c.var <;> simp_all
      have := hc.hint hv'
      simp [hv']; omega
  rw [hshift]
  by_cases hin : 2 * (c.K - (pos + n)) ≤ i ∧ i < 2 * (c.K - pos)
  · have h1 : ¬ 2 * (c.K - pos) ≤ i := by omega
    have h2 : ¬ i < 2 * (c.K - (pos + n)) := by omega
    have hj : 2 * pos + (c.w - 2 * c.K) + i < c.w := by omega
    rw [valueTop_bits value _ hj]
    have h3 : c.w ≤ 2 * pos + (c.w - 2 * c.K) + i + 64 := by omega
    have e : 2 * pos + (c.w - 2 * c.K) + i + 64 - c.w = i + 64 - 2 * (c.K - pos) := by omega
    simp [hin, h1, h2, h3, e]
  · simp only [hin, if_false]
    by_cases h1 : 2 * (c.K - pos) ≤ i
    · simp [h1]
    · have h2 : i < 2 * (c.K - (pos + n)) := by omega
      simp [h1, h2]

/-- `get` after `set_slice_mut`: the run's bases come from `value`, the others are unchanged -/
theorem get_setSliceMut (hc : c.WF) (s : St c) (pos n : Nat) (value : BitVec 64) (q : Nat)
    (hn1 : 1 ≤ n) (hn32 : n ≤ 32) (hpn : pos + n ≤ c.K) (hq : q < c.K) :
    get c (setSliceMut c s pos n value) q = if pos ≤ q ∧ q < pos + n then KSpec.runBase value (q - pos) else get c s q := by
  have hq1 := addr_lt hc q hq
  rw [get_bits hc, setSliceMut_bits hc s pos n value _ hn1 hn32 hpn hq1,
    setSliceMut_bits hc s pos n value _ hn1 hn32 hpn (by omega)]
  by_cases hin : pos ≤ q ∧ q < pos + n
  · have a1 : 2 * (c.K - (pos + n)) ≤ addr c q + 1 ∧ addr c q + 1 < 2 * (c.K - pos) := by unfold addr; omega
    have a0 : 2 * (c.K - (pos + n)) ≤ addr c q ∧ addr c q < 2 * (c.K - pos) := by unfold addr; omega
    simp only [a1, a0, hin, and_self, if_true]
    have e1 : addr c q + 1 + 64 - 2 * (c.K - pos) = (62 - 2 * (q - pos)) + 1 := by unfold addr; omega
    have e0 : addr c q + 64 - 2 * (c.K - pos) = 62 - 2 * (q - pos) := by unfold addr; omega
    rw [e1, e0]
    -- the reference reads the same two bits of `value`
    unfold KSpec.runBase
    rw [BitVec.toNat_and, BitVec.toNat_ushiftRight, show (3#64).toNat = 2 ^ 2 - 1 from rfl, Nat.and_two_pow_sub_one_eq_mod,
      show (2:Nat) ^ 2 = 4 from rfl, mod4_testBit]
    simp only [Nat.testBit_shiftRight, BitVec.testBit_toNat]
    rw [Nat.add_comm (62 - 2 * (q - pos)) 1]
    simp
  · have a1 : ¬ (2 * (c.K - (pos + n)) ≤ addr c q + 1 ∧ addr c q + 1 < 2 * (c.K - pos)) := by unfold addr; omega
    have a0 : ¬ (2 * (c.K - (pos + n)) ≤ addr c q ∧ addr c q < 2 * (c.K - pos)) := by unfold addr; omega
    simp only [a1, a0, hin, if_false]
    rw [get_bits hc]

/-- **`set_slice_mut` refines "replace bases pos..pos+n by the packed run".** Bits of `value` beyond the run are irrelevant. -/
theorem toSeq_setSliceMut (hc : c.WF) (s : St c) (pos n : Nat) (value : BitVec 64)
    (hn1 : 1 ≤ n) (hn32 : n ≤ 32) (hpn : pos + n ≤ c.K) :
    toSeq c (setSliceMut c s pos n value) = KSpec.setSlice (toSeq c s) pos n value := by
  apply List.ext_getElem
  · simp [toSeq, KSpec.setSlice]
  · intro q h1 h2
    simp only [toSeq, List.length_map, List.length_range] at h1
    simp only [toSeq, KSpec.setSlice, List.getElem_map, List.getElem_range, List.getElem_zipIdx, Nat.zero_add]
    exact get_setSliceMut hc s pos n value q hn1 hn32 hpn h1

theorem inv_setSliceMut (hc : c.WF) (s : St c) (pos n : Nat) (value : BitVec 64)
    (hn1 : 1 ≤ n) (hn32 : n ≤ 32) (hpn : pos + n ≤ c.K) (hs : Inv c s) : Inv c (setSliceMut c s pos n value) := by
  intro i hi
  by_cases hw : i < c.w
  · rw [setSliceMut_bits hc s pos n value i hn1 hn32 hpn hw]
    have : ¬ (2 * (c.K - (pos + n)) ≤ i ∧ i < 2 * (c.K - pos)) := by omega
    simp only [this, if_false]; exact hs i hi
  · exact BitVec.getLsbD_of_ge _ _ (by omega)

end Kmer
