import Dbg.Model.MspSeq
/-! List facts about `window` (the substring read by `get_kmer` / `from_slice`). -/
namespace Msp
open Compress (Seq Base)

theorem window_eq (seq : Array Base) (p q : Nat) : window seq p q = (seq.toList.drop q).take p := by
  simp [window, Array.toList_extract, List.extract_eq_take_drop]

theorem window_length (seq : Array Base) (p q : Nat) (h : q + p ≤ seq.size) : (window seq p q).length = p := by
  rw [window_eq]; simp [List.length_take, List.length_drop]; omega

/-- a window of a window is a window of the sequence -/
theorem window_window (seq : Array Base) (len start k j : Nat) (h : j + k ≤ len) :
    ((window seq len start).drop j).take k = window seq k (start + j) := by
  rw [window_eq, window_eq, List.drop_take, List.take_take, List.drop_drop]
  congr 1; omega

theorem getElem?_eq_toList (seq : Array Base) (i : Nat) : seq[i]? = seq.toList[i]? := by simp

end Msp
