import Dbg.Lemmas.Sandwich
/-! The graphs built from the shards of a table, side by side: they are ported into the concatenated table, so the
    combined graph satisfies the node-level invariant and its re-compression is characterised by `pgraph_recompress`. -/
namespace Compress
open Walk (Dir Conn Rel)
open Filter (has ExtSym2 removeCensoredExts)
variable {D : Type}

theorem extSym2_append_left {A B : Table D} {st : Bool} (h : ExtSym2 (A ++ B) st) : ExtSym2 A st := by
  intro x ex d b y ey hx hb hy hy'
  exact h x ex d b y ey (by rw [List.getElem?_append_left (List.getElem?_eq_some_iff.mp hx).1]; exact hx) hb
    (findId_append_left A B _ y hy) (by rw [List.getElem?_append_left (List.getElem?_eq_some_iff.mp hy').1]; exact hy')

theorem extSym2_append_right {A B : Table D} {K : Nat} {st : Bool} (wf : WF (A ++ B) K st) (h : ExtSym2 (A ++ B) st) : ExtSym2 B st := by
  intro x ex d b y ey hx hb hy hy'
  exact h (A.length + x) ex d b (A.length + y) ey (by rw [getElem?_append_off]; exact hx) hb
    (findId_append_right wf _ y hy) (by rw [getElem?_append_off]; exact hy')

/-- the outputs of `compress_kmers` on each table of a list -/
def AllBuilt (st : Bool) (join : D → D → Bool) (reduce : D → D → D) : List (Table D) → List (List (Node D × List Nat)) → Prop
  | [], [] => True
  | T :: Ts, o :: os => compressKmersC T st join reduce = some o ∧ AllBuilt st join reduce Ts os
  | _, _ => False

/-- **every shard is compressed without panic, and the results are ported into their tables** -/
theorem allBuilt_of_tables {K : Nat} {st : Bool} (join : D → D → Bool) (hj : ∀ a b, join a b = join b a) (reduce : D → D → D) :
    ∀ (Ts : List (Table D)), WF Ts.flatten K st → ExtSym2 Ts.flatten st →
      ∃ outs, AllBuilt st join reduce Ts outs ∧ AllPorted K st join Ts (outs.map fun o => o.map (·.1)) := by
  intro Ts
  induction Ts with
  | nil => intro _ _; exact ⟨[], trivial, trivial⟩
  | cons T Ts ih =>
    intro wf hes
    rw [List.flatten_cons] at wf hes
    have wfT := wf_append_left wf
    have hesT := extSym2_append_left hes
    obtain ⟨outs, hb, hp⟩ := ih (wf_append_right wf) (extSym2_append_right wf hes)
    obtain ⟨o, ho, _⟩ := compressKmersC_partition (join := join) reduce wfT hesT.toExtSym hj
    obtain ⟨port, mem, pg, _⟩ := pgraph_of_compress reduce wfT hesT.toExtSym hj o ho
    exact ⟨o :: outs, ⟨ho, hb⟩, ⟨⟨port, mem, _, pg⟩, hp⟩⟩

end Compress
