import Dbg.Lemmas.Block64
import Dbg.Lemmas.KmerOrder
import Dbg.Lemmas.KmerCount
/-! Refinement of the `DnaString` model to plain base vectors. -/
namespace DnaStr
open Block64 (blockSeq k32 k32_wf)

/-- all lanes of all blocks -/
def flat (d : T) : List Nat := d.storage.flatMap blockSeq
/-- the base vector a DnaString stands for -/
def toSeq (d : T) : List Nat := (flat d).take d.len

theorem blockSeq_length (b : BitVec 64) : (blockSeq b).length = 32 := by simp [blockSeq, Kmer.toSeq, k32]

theorem flatMap_length (l : List (BitVec 64)) : (l.flatMap blockSeq).length = 32 * l.length := by
  induction l with
  | nil => rfl
  | cons a t ih => simp [List.flatMap_cons, blockSeq_length, ih]; omega

theorem flat_length (d : T) : (flat d).length = 32 * d.storage.length := flatMap_length _

/-- representation invariant: ⌈len/32⌉ blocks, all lanes from `len` on are zero -/
structure Inv (d : T) : Prop where
  blocks : d.storage.length = (d.len + 31) / 32
  pad : ∀ i, d.len ≤ i → i < 32 * d.storage.length → (flat d)[i]? = some 0

theorem toSeq_length (d : T) (h : Inv d) : (toSeq d).length = d.len := by
  unfold toSeq; rw [List.length_take, flat_length, h.blocks]; omega

/-- lane `i` of the flattened blocks -/
theorem flatMap_getElem (l : List (BitVec 64)) (i : Nat) (b : BitVec 64) (hb : l[i / 32]? = some b) :
    (l.flatMap blockSeq)[i]? = (blockSeq b)[i % 32]? := by
  induction l generalizing i with
  | nil => simp at hb
  | cons a t ih =>
    rw [List.flatMap_cons]
    by_cases h : i < 32
    · have : i / 32 = 0 := by omega
      rw [this] at hb
      simp only [List.getElem?_cons_zero, Option.some.injEq] at hb
      subst hb
      rw [List.getElem?_append_left (by rw [blockSeq_length]; exact h), Nat.mod_eq_of_lt h]
    · have e : i / 32 = (i - 32) / 32 + 1 := by omega
      rw [e, List.getElem?_cons_succ] at hb
      rw [List.getElem?_append_right (by rw [blockSeq_length]; omega), blockSeq_length, ih (i - 32) hb]
      congr 1; omega

theorem addr_eq (i : Nat) : addr i = (i / 32, 2 * (i % 32)) := by
  unfold addr; simp only [Gen.dnaWidth, Gen.dnaBlockBits]; ext <;> simp <;> omega

/-- **`get`** reads the `i`-th base -/
theorem get_spec (d : T) (h : Inv d) (i : Nat) (hi : i < d.len) : get d i = (toSeq d)[i]? := by
  have hblk : i / 32 < d.storage.length := by rw [h.blocks]; omega
  unfold get
  rw [addr_eq]
  simp only
  rw [List.getElem?_eq_getElem hblk]
  simp only
  unfold toSeq
  rw [List.getElem?_take_of_lt hi, flat, flatMap_getElem _ i _ (List.getElem?_eq_getElem hblk),
    Block64.dna_blockGet_spec _ _ (Nat.mod_lt _ (by decide))]

/-- replacing lane `i` of the flattened blocks -/
theorem flatMap_set (l : List (BitVec 64)) (i v : Nat) (b : BitVec 64) (hb : l[i / 32]? = some b) (hv : v < 4) :
    (l.set (i / 32) (blockSet b (2 * (i % 32)) v)).flatMap blockSeq = (l.flatMap blockSeq).set i v := by
  induction l generalizing i with
  | nil => simp at hb
  | cons a t ih =>
    by_cases h : i < 32
    · have e0 : i / 32 = 0 := by omega
      rw [e0] at hb ⊢
      simp only [List.getElem?_cons_zero, Option.some.injEq] at hb
      subst hb
      simp only [List.set_cons_zero, List.flatMap_cons]
      rw [Nat.mod_eq_of_lt h, Block64.dna_blockSet_spec _ _ _ h hv, List.set_append_left _ _ (by rw [blockSeq_length]; exact h)]
    · have e : i / 32 = (i - 32) / 32 + 1 := by omega
      rw [e] at hb ⊢
      rw [List.getElem?_cons_succ] at hb
      simp only [List.set_cons_succ, List.flatMap_cons]
      have hm : i % 32 = (i - 32) % 32 := by omega
      rw [hm, ih (i - 32) hb, List.set_append_right _ _ (by rw [blockSeq_length]; omega), blockSeq_length]

/-- **`set_mut`** (index inside the string) replaces exactly that base and keeps the invariant -/
theorem setMut_spec (d : T) (h : Inv d) (i v : Nat) (hi : i < d.len) (hv : v < 4) :
    ∃ d', setMut d i v = some d' ∧ Inv d' ∧ toSeq d' = (toSeq d).set i v ∧ d'.len = d.len := by
  have hblk : i / 32 < d.storage.length := by rw [h.blocks]; omega
  unfold setMut
  rw [addr_eq]
  simp only [List.getElem?_eq_getElem hblk]
  refine ⟨_, rfl, ?_, ?_, rfl⟩
  · constructor
    · simp [h.blocks]
    · intro j hj1 hj2
      simp only [List.length_set] at hj2
      have hj1' : d.len ≤ j := hj1
      show ((d.storage.set (i / 32) _).flatMap blockSeq)[j]? = some 0
      rw [flatMap_set d.storage i v _ (List.getElem?_eq_getElem hblk) hv, List.getElem?_set_ne (by omega)]
      exact h.pad j hj1 hj2
  · show ((d.storage.set (i / 32) _).flatMap blockSeq).take d.len = _
    rw [flatMap_set d.storage i v _ (List.getElem?_eq_getElem hblk) hv]
    unfold toSeq flat
    rw [List.take_set]

end DnaStr

namespace DnaStr
open Block64 (blockSeq k32 k32_wf)

theorem blockSeq_zero : blockSeq 0#64 = List.replicate 32 0 := by decide

theorem take_succ_set (F : List Nat) (n v : Nat) (h : n < F.length) : ((F.set n v).take (n + 1)) = F.take n ++ [v] := by
  rw [List.take_set, List.take_succ, List.getElem?_eq_getElem h]
  simp only [Option.toList_some]
  rw [List.set_append_right _ _ (by simp; omega)]
  simp [Nat.min_eq_left (Nat.le_of_lt h)]

/-- **`push`** appends one base and keeps the invariant -/
theorem push_spec (d : T) (h : Inv d) (v : Nat) (hv : v < 4) :
    ∃ d', push d v = some d' ∧ Inv d' ∧ toSeq d' = toSeq d ++ [v] ∧ d'.len = d.len + 1 := by
  have hb := h.blocks
  unfold push
  rw [addr_eq]
  simp only
  generalize hst : (if (2 * (d.len % 32) == 0 && decide (d.len / 32 ≥ d.storage.length)) = true then d.storage ++ [0#64] else d.storage) = st
  -- the (possibly grown) storage: one more zero block exactly when the last block is full
  have hF : st.flatMap blockSeq = flat d ++ (if d.len % 32 = 0 then List.replicate 32 0 else []) ∧
      st.length = (d.len + 1 + 31) / 32 := by
    by_cases h0 : d.len % 32 = 0
    · have : (2 * (d.len % 32) == 0 && decide (d.len / 32 ≥ d.storage.length)) = true := by
        simp only [Bool.and_eq_true, beq_iff_eq, decide_eq_true_eq]; omega
      rw [if_pos this] at hst; subst hst
      simp only [h0, if_true, List.flatMap_append, List.flatMap_cons, List.flatMap_nil, List.append_nil, blockSeq_zero,
        List.length_append, List.length_cons, List.length_nil]
      exact ⟨rfl, by omega⟩
    · have : ¬ (2 * (d.len % 32) == 0 && decide (d.len / 32 ≥ d.storage.length)) = true := by
        simp only [Bool.and_eq_true, beq_iff_eq, decide_eq_true_eq]; omega
      rw [if_neg this] at hst; subst hst
      simp only [h0, if_false, List.append_nil]
      exact ⟨rfl, by omega⟩
  obtain ⟨hF, hlen⟩ := hF
  have hblk : d.len / 32 < st.length := by omega
  have hFl : (st.flatMap blockSeq).length = 32 * st.length := flatMap_length st
  have hfl := flat_length d
  simp only [List.getElem?_eq_getElem hblk]
  refine ⟨_, rfl, ?_, ?_, rfl⟩
  · constructor
    · simpa using hlen
    · intro j hj1 hj2
      have hj1' : d.len + 1 ≤ j := hj1
      simp only [List.length_set] at hj2
      show ((st.set (d.len / 32) _).flatMap blockSeq)[j]? = some 0
      rw [flatMap_set st d.len v _ (List.getElem?_eq_getElem hblk) hv, List.getElem?_set_ne (by omega), hF]
      by_cases hjl : j < (flat d).length
      · rw [List.getElem?_append_left hjl]; exact h.pad j (by omega) (by omega)
      · rw [List.getElem?_append_right (by omega)]
        have hlt : j < (st.flatMap blockSeq).length := by omega
        rw [hF, List.length_append] at hlt
        by_cases h0 : d.len % 32 = 0
        · simp only [h0, if_true, List.length_replicate] at hlt ⊢
          rw [List.getElem?_replicate]; simp; omega
        · simp only [h0, if_false, List.length_nil] at hlt; omega
  · show ((st.set (d.len / 32) _).flatMap blockSeq).take (d.len + 1) = _
    rw [flatMap_set st d.len v _ (List.getElem?_eq_getElem hblk) hv, take_succ_set _ _ _ (by omega), hF,
      List.take_append_of_le_length (by omega)]
    rfl

/-- folding `push` over a list of bases appends them all -/
theorem pushAll_spec (vs : List Nat) (d : T) (h : Inv d) (hv : ∀ v ∈ vs, v < 4) :
    ∃ d', vs.foldl (fun acc v => acc.bind (push · v)) (some d) = some d' ∧ Inv d' ∧ toSeq d' = toSeq d ++ vs ∧
      d'.len = d.len + vs.length := by
  induction vs generalizing d with
  | nil => exact ⟨d, rfl, h, by simp, rfl⟩
  | cons v vs ih =>
    obtain ⟨d1, e1, i1, s1, l1⟩ := push_spec d h v (hv v (by simp))
    obtain ⟨d2, e2, i2, s2, l2⟩ := ih d1 i1 (fun x hx => hv x (by simp [hx]))
    refine ⟨d2, ?_, i2, ?_, ?_⟩
    · simp only [List.foldl_cons, Option.bind_some, e1]; exact e2
    · rw [s2, s1]; simp
    · rw [l2, l1]; simp; omega

end DnaStr

namespace DnaStr
open Block64 (blockSeq k32 k32_wf)

/-- or-ing a base into an empty lane is `set` -/
theorem or_lane_zero' (v : Kmer.St k32) (j b : Nat) (hz : Kmer.get k32 v j = 0) :
    v ||| (BitVec.ofNat k32.w b <<< Kmer.addr k32 j) = Kmer.setMut k32 v j b := by
  unfold Kmer.setMut
  congr 1
  apply BitVec.eq_of_getLsbD_eq
  intro i hi
  rw [Kmer.get_bits k32_wf] at hz
  have h3 : ((3#k32.w) <<< Kmer.addr k32 j).getLsbD i = (decide (Kmer.addr k32 j ≤ i) && (3 : Nat).testBit (i - Kmer.addr k32 j)) :=
    Kmer.ofNat_shift_bits k32.w 3 _ i (by decide) hi
  simp only [BitVec.getLsbD_and, BitVec.getLsbD_not, hi, decide_true, Bool.true_and, h3]
  by_cases h1 : i = Kmer.addr k32 j
  · subst h1
    have : v.getLsbD (Kmer.addr k32 j) = false := by
      cases hh : v.getLsbD (Kmer.addr k32 j) <;> simp [hh] at hz ⊢
    simp [this]
  · by_cases h2 : i = Kmer.addr k32 j + 1
    · subst h2
      have : v.getLsbD (Kmer.addr k32 j + 1) = false := by
        cases hh : v.getLsbD (Kmer.addr k32 j + 1) <;> simp [hh] at hz ⊢
      simp [this]
    · by_cases h4 : Kmer.addr k32 j ≤ i
      · have : (3 : Nat).testBit (i - Kmer.addr k32 j) = false := Kmer.testBit_lt4 3 _ (by decide) (by omega)
        simp [this]
      · simp [h4]

theorem or_lane_zero (v : BitVec 64) (j b : Nat) (hj : j < 32) (hz : Kmer.get k32 v j = 0) :
    v ||| (BitVec.ofNat 64 b <<< (62 - 2 * j)) = Kmer.setMut k32 v j b := by
  have ea : 62 - 2 * j = Kmer.addr k32 j := by simp [Kmer.addr, k32]; omega
  rw [ea]
  exact or_lane_zero' v j b hz

theorem blockSeq_get (v : BitVec 64) (j : Nat) (hj : j < 32) : (blockSeq v)[j]? = some (Kmer.get k32 v j) := by
  simp [blockSeq, Kmer.toSeq, hj, k32]

def packStep (acc : Option Block) (bi : Nat × Nat) : Option Block :=
  match acc with
  | none => none
  | some v => if bi.1 < 4 then some (v ||| (BitVec.ofNat 64 bi.1 <<< (62 - 2 * bi.2))) else none

theorem packChunk_eq (chunk : List Nat) : packChunk chunk = chunk.zipIdx.foldl packStep (some 0#64) := rfl

theorem packFold (chunk : List Nat) (k : Nat) (v : Block) (hk : k + chunk.length ≤ 32) (hv : ∀ b ∈ chunk, b < 4)
    (hz : ∀ j, k ≤ j → j < 32 → (blockSeq v)[j]? = some 0) :
    ∃ v', (chunk.zipIdx k).foldl packStep (some v) = some v' ∧
      blockSeq v' = (blockSeq v).take k ++ chunk ++ List.replicate (32 - k - chunk.length) 0 := by
  induction chunk generalizing k v with
  | nil =>
    refine ⟨v, rfl, ?_⟩
    apply List.ext_getElem?
    intro j
    simp only [List.append_nil, List.length_nil, Nat.sub_zero]
    by_cases hj : j < k
    · rw [List.getElem?_append_left (by rw [List.length_take, blockSeq_length]; omega), List.getElem?_take_of_lt hj]
    · rw [List.getElem?_append_right (by rw [List.length_take, blockSeq_length]; omega), List.length_take, blockSeq_length,
        Nat.min_eq_left (by simpa using hk), List.getElem?_replicate]
      by_cases hj2 : j < 32
      · rw [hz j (by omega) hj2]; simp; omega
      · rw [List.getElem?_eq_none (by rw [blockSeq_length]; omega)]; simp; omega
  | cons b rest ih =>
    simp only [List.length_cons] at hk
    have hb : b < 4 := hv b (by simp)
    have hz0 : Kmer.get k32 v k = 0 := by
      have := hz k (Nat.le_refl _) (by omega)
      rw [blockSeq_get v k (by omega)] at this
      exact Option.some.inj this
    have hset : blockSeq (v ||| (BitVec.ofNat 64 b <<< (62 - 2 * k))) = (blockSeq v).set k b := by
      rw [or_lane_zero v k b (by omega) hz0]; exact Kmer.toSeq_setMut k32_wf v k b (by simp [k32]; omega) hb
    obtain ⟨v', e, s⟩ := ih (k + 1) (v ||| (BitVec.ofNat 64 b <<< (62 - 2 * k))) (by omega) (fun x hx => hv x (by simp [hx]))
      (fun j hj1 hj2 => by rw [hset, List.getElem?_set_ne (by omega)]; exact hz j (by omega) hj2)
    refine ⟨v', ?_, ?_⟩
    · simp only [List.zipIdx_cons, List.foldl_cons]
      show List.foldl packStep (packStep (some v) (b, k)) _ = _
      simp only [packStep, hb, if_true]
      exact e
    · rw [s, hset, take_succ_set _ _ _ (by rw [blockSeq_length]; omega)]
      have e32 : 32 - (k + 1) - rest.length = 32 - k - (rest.length + 1) := by omega
      simp only [List.length_cons, List.append_assoc, List.cons_append, List.nil_append, e32]

theorem packChunk_spec (chunk : List Nat) (hk : chunk.length ≤ 32) (hv : ∀ b ∈ chunk, b < 4) :
    ∃ v, packChunk chunk = some v ∧ blockSeq v = chunk ++ List.replicate (32 - chunk.length) 0 := by
  obtain ⟨v, e, s⟩ := packFold chunk 0 0#64 (by omega) hv (fun j _ hj => by rw [blockSeq_zero, List.getElem?_replicate]; simp [hj])
  exact ⟨v, by rw [packChunk_eq]; exact e, by simpa using s⟩

end DnaStr

namespace DnaStr
open Block64 (blockSeq k32 k32_wf)

/-- a string whose length is a multiple of 32 has no padding -/
theorem toSeq_full (d : T) (h : Inv d) (h0 : d.len % 32 = 0) : toSeq d = flat d ∧ (flat d).length = d.len := by
  have hl : (flat d).length = d.len := by rw [flat_length, h.blocks]; omega
  exact ⟨by unfold toSeq; rw [← hl, List.take_length], hl⟩

/-- appending one packed chunk to a block-aligned string -/
theorem appendChunk_spec (d : T) (h : Inv d) (h0 : d.len % 32 = 0) (chunk : List Nat) (v : Block)
    (h1 : 1 ≤ chunk.length) (h32 : chunk.length ≤ 32) (hv : blockSeq v = chunk ++ List.replicate (32 - chunk.length) 0) :
    Inv ⟨d.storage ++ [v], d.len + chunk.length⟩ ∧ toSeq ⟨d.storage ++ [v], d.len + chunk.length⟩ = toSeq d ++ chunk := by
  obtain ⟨hs, hl⟩ := toSeq_full d h h0
  have hb := h.blocks
  have hflat : flat ⟨d.storage ++ [v], d.len + chunk.length⟩ = flat d ++ (chunk ++ List.replicate (32 - chunk.length) 0) := by
    simp [flat, List.flatMap_append, hv]
  constructor
  · constructor
    · simp only [List.length_append, List.length_cons, List.length_nil]; omega
    · intro j hj1 hj2
      have hj1' : d.len + chunk.length ≤ j := hj1
      simp only [List.length_append, List.length_cons, List.length_nil] at hj2
      rw [hflat, List.getElem?_append_right (by omega), List.getElem?_append_right (by omega), List.getElem?_replicate]
      simp; omega
  · unfold toSeq
    rw [hflat, ← List.append_assoc, List.take_append_of_le_length (by simp; omega)]
    show List.take (d.len + chunk.length) (flat d ++ chunk) = List.take d.len (flat d) ++ chunk
    rw [← hl, List.take_length]
    have : (flat d).length + chunk.length = (flat d ++ chunk).length := by simp
    rw [this, List.take_length]

/-- phase 2 of `extend` -/
theorem extendChunks_spec (d : T) (bytes : List Nat) (h : Inv d) (h0 : bytes ≠ [] → d.len % 32 = 0)
    (hv : ∀ b ∈ bytes, b < 4) :
    ∃ d', extendChunks d bytes = some d' ∧ Inv d' ∧ toSeq d' = toSeq d ++ bytes ∧ d'.len = d.len + bytes.length := by
  fun_induction extendChunks d bytes with
  | case1 d => exact ⟨d, rfl, h, by simp, rfl⟩
  | case2 d bytes hne chunk hp =>
    exfalso
    have hl : chunk.length ≤ 32 := by simp [chunk, List.length_take]; omega
    obtain ⟨v, e, _⟩ := packChunk_spec chunk hl (fun b hb => hv b (List.mem_of_mem_take hb))
    rw [hp] at e; cases e
  | case3 d bytes hne chunk v hp ih =>
    have hpos : 0 < bytes.length := List.length_pos_iff.mpr hne
    have hl : chunk.length ≤ 32 := by simp [chunk, List.length_take]; omega
    have hl1 : 1 ≤ chunk.length := by simp [chunk, List.length_take]; omega
    obtain ⟨v', e, sv⟩ := packChunk_spec chunk hl (fun b hb => hv b (List.mem_of_mem_take hb))
    rw [hp] at e; cases e
    obtain ⟨i1, s1⟩ := appendChunk_spec d h (h0 hne) chunk v hl1 hl sv
    have hrest : bytes.drop 32 ≠ [] → (d.len + chunk.length) % 32 = 0 := by
      intro hd
      have : 0 < (bytes.drop 32).length := List.length_pos_iff.mpr hd
      simp only [List.length_drop] at this
      have hc : chunk.length = 32 := by simp [chunk, List.length_take]; omega
      have := h0 hne
      omega
    obtain ⟨d', e', i', s', l'⟩ := ih i1 hrest (fun b hb => hv b (List.mem_of_mem_drop hb))
    refine ⟨d', e', i', ?_, ?_⟩
    · rw [s', s1, List.append_assoc, List.take_append_drop]
    · rw [l']
      show d.len + chunk.length + (bytes.drop 32).length = d.len + bytes.length
      simp only [chunk, List.length_take, List.length_drop]; omega

/-- **`extend`** appends the bases and keeps the invariant -/
theorem extend_spec (bytes : List Nat) (d : T) (h : Inv d) (hv : ∀ b ∈ bytes, b < 4) :
    ∃ d', extend d bytes = some d' ∧ Inv d' ∧ toSeq d' = toSeq d ++ bytes ∧ d'.len = d.len + bytes.length := by
  induction bytes generalizing d with
  | nil => exact ⟨d, rfl, h, by simp, rfl⟩
  | cons b rest ih =>
    unfold extend
    by_cases h0 : d.len % 32 = 0
    · have : ¬ ((d.len % 32 != 0) = true) := by simp [h0]
      rw [if_neg this]
      exact extendChunks_spec d (b :: rest) h (fun _ => h0) hv
    · have : (d.len % 32 != 0) = true := by simp [h0]
      rw [if_pos this]
      obtain ⟨d1, e1, i1, s1, l1⟩ := push_spec d h b (hv b (by simp))
      obtain ⟨d2, e2, i2, s2, l2⟩ := ih d1 i1 (fun x hx => hv x (by simp [hx]))
      refine ⟨d2, by rw [e1]; exact e2, i2, by rw [s2, s1]; simp, by rw [l2, l1]; simp; omega⟩

theorem inv_new : Inv new := ⟨rfl, fun j _ hj => by simp [new] at hj⟩
theorem toSeq_new : toSeq new = [] := rfl

/-- **`from_bytes`** -/
theorem fromBytes_spec (bytes : List Nat) (hv : ∀ b ∈ bytes, b < 4) :
    ∃ d, fromBytes bytes = some d ∧ Inv d ∧ toSeq d = bytes ∧ d.len = bytes.length := by
  obtain ⟨d, e, i, s, l⟩ := extend_spec bytes new inv_new hv
  exact ⟨d, e, i, by simpa [toSeq_new] using s, by simpa [new] using l⟩

theorem mapM_get (d : T) (h : Inv d) (n : Nat) (hn : n ≤ d.len) :
    (List.range n).mapM (get d) = some ((toSeq d).take n) := by
  induction n with
  | zero => rfl
  | succ n ih =>
    rw [List.range_succ, List.mapM_append, ih (by omega)]
    have hg := get_spec d h n (by omega)
    have hlt : n < (toSeq d).length := by rw [toSeq_length d h]; omega
    simp only [List.mapM_cons, List.mapM_nil, hg, List.getElem?_eq_getElem hlt, Option.pure_def, Option.bind_eq_bind,
      Option.bind_some]
    rw [List.take_succ, List.getElem?_eq_getElem hlt]; rfl

/-- **`to_bytes` / `iter`** return the bases -/
theorem toBytes_spec (d : T) (h : Inv d) : toBytes d = some (toSeq d) := by
  unfold toBytes
  rw [mapM_get d h d.len (Nat.le_refl _), ← toSeq_length d h, List.take_length]

theorem toSeq_lt4 (d : T) (h : Inv d) : ∀ b ∈ toSeq d, b < 4 := by
  intro b hb
  obtain ⟨i, hi, e⟩ := List.getElem_of_mem hb
  have hi' : i < d.len := by rwa [toSeq_length d h] at hi
  have := get_spec d h i hi'
  rw [List.getElem?_eq_getElem hi, e] at this
  unfold get at this
  rw [addr_eq] at this
  simp only at this
  split at this
  · cases this
    rw [Block64.dna_blockGet_eq _ _ (Nat.mod_lt _ (by decide))]
    exact Kmer.get_lt k32_wf _ _
  · cases this

/-- **`reverse`** -/
theorem reverse_spec (d : T) (h : Inv d) : ∃ d', reverse d = some d' ∧ Inv d' ∧ toSeq d' = (toSeq d).reverse := by
  unfold reverse
  rw [toBytes_spec d h]
  obtain ⟨d', e, i, s, _⟩ := pushAll_spec (toSeq d).reverse new inv_new (fun v hv => toSeq_lt4 d h v (List.mem_reverse.mp hv))
  exact ⟨d', e, i, by simpa [toSeq_new] using s⟩

/-- **`rc`** -/
theorem rc_spec (d : T) (h : Inv d) : ∃ d', rc d = some d' ∧ Inv d' ∧ toSeq d' = (toSeq d).reverse.map (3 - ·) := by
  unfold rc
  rw [toBytes_spec d h]
  obtain ⟨d', e, i, s, _⟩ := extend_spec ((toSeq d).reverse.map (3 - ·)) new inv_new (fun v hv => by
    obtain ⟨x, _, rfl⟩ := List.mem_map.mp hv; omega)
  exact ⟨d', e, i, by simpa [toSeq_new] using s⟩

theorem inv_clear (d : T) : Inv (clear d) ∧ toSeq (clear d) = [] := ⟨inv_new, rfl⟩

theorem flatMap_replicate_zero (n : Nat) : (List.replicate n 0#64).flatMap blockSeq = List.replicate (32 * n) 0 := by
  induction n with
  | zero => rfl
  | succ n ih =>
    rw [List.replicate_succ, List.flatMap_cons, ih, blockSeq_zero, List.replicate_append_replicate]; congr 1; omega

/-- **`blank(n)`** is `n` A's -/
theorem blank_spec (n : Nat) : Inv (blank n) ∧ toSeq (blank n) = List.replicate n 0 := by
  have hb : (blank n).len = n ∧ (blank n).storage = List.replicate ((n + 31) / 32) 0#64 := by
    unfold blank
    refine ⟨rfl, ?_⟩
    simp only [show Gen.dnaWidth = 2 from rfl]
    congr 1
    have h1 : (n * 2) >>> 6 = n * 2 / 64 := Nat.shiftRight_eq_div_pow _ 6
    have h2 : (n * 2) &&& 0x3F = n * 2 % 64 := Nat.and_two_pow_sub_one_eq_mod _ 6
    simp only [h1, h2]
    by_cases h : n * 2 % 64 > 0
    · simp only [h, if_true]; omega
    · simp only [h, if_false]; omega
  have hf : flat (blank n) = List.replicate (32 * ((n + 31) / 32)) 0 := by rw [flat, hb.2, flatMap_replicate_zero]
  constructor
  · constructor
    · rw [hb.2, hb.1]; simp
    · intro j _ hj2
      rw [hf, List.getElem?_replicate]
      rw [hb.2, List.length_replicate] at hj2
      simp [hj2]
  · unfold toSeq
    rw [hf, hb.1, List.take_replicate]; congr 1; omega

/-- **representation is canonical**: two values satisfying the invariant with the same bases are the same value
    (same `storage` vector and `len`), so derived `==` and `Hash` are those of the base vector -/
theorem repr_inj (a b : T) (ha : Inv a) (hb : Inv b) (h : toSeq a = toSeq b) : a = b := by
  have hl : a.len = b.len := by rw [← toSeq_length a ha, ← toSeq_length b hb, h]
  have hsl : a.storage.length = b.storage.length := by rw [ha.blocks, hb.blocks, hl]
  have hflat : flat a = flat b := by
    apply List.ext_getElem?
    intro j
    by_cases hj : j < a.len
    · have e1 : (toSeq a)[j]? = (flat a)[j]? := List.getElem?_take_of_lt hj
      have e2 : (toSeq b)[j]? = (flat b)[j]? := List.getElem?_take_of_lt (by omega)
      rw [← e1, ← e2, h]
    · by_cases hj2 : j < 32 * a.storage.length
      · rw [ha.pad j (by omega) hj2, hb.pad j (by omega) (by omega)]
      · rw [List.getElem?_eq_none (by rw [flat_length]; omega), List.getElem?_eq_none (by rw [flat_length]; omega)]
  have hst : a.storage = b.storage := by
    apply List.ext_getElem hsl
    intro i h1 h2
    -- equal lanes of block i ⇒ equal blocks
    apply Kmer.toSeq_inj k32_wf _ _ (fun i hi => BitVec.getLsbD_of_ge _ _ (by simpa [k32] using hi))
      (fun i hi => BitVec.getLsbD_of_ge _ _ (by simpa [k32] using hi))
    apply List.ext_getElem?
    intro j
    by_cases hj : j < 32
    · have ea := flatMap_getElem a.storage (32 * i + j) a.storage[i] (by
        rw [show (32 * i + j) / 32 = i by omega]; exact List.getElem?_eq_getElem h1)
      have eb := flatMap_getElem b.storage (32 * i + j) b.storage[i] (by
        rw [show (32 * i + j) / 32 = i by omega]; exact List.getElem?_eq_getElem h2)
      rw [show (32 * i + j) % 32 = j by omega] at ea eb
      show (blockSeq a.storage[i])[j]? = (blockSeq b.storage[i])[j]?
      rw [← ea, ← eb]
      exact congrArg (·[32 * i + j]?) hflat
    · show (blockSeq a.storage[i])[j]? = (blockSeq b.storage[i])[j]?
      rw [List.getElem?_eq_none (by rw [blockSeq_length]; omega), List.getElem?_eq_none (by rw [blockSeq_length]; omega)]
  cases a; cases b; simp_all

end DnaStr

namespace DnaStr
open Block64 (blockSeq k32 k32_wf)

/-! ### derived `Ord` -/

theorem append_lt_append_iff (x y xs ys : List Nat) (h : x.length = y.length) :
    x ++ xs < y ++ ys ↔ x < y ∨ (x = y ∧ xs < ys) := by
  induction x generalizing y with
  | nil =>
    cases y with
    | nil => simp
    | cons b y => simp at h
  | cons a x ih =>
    cases y with
    | nil => simp at h
    | cons b y =>
      simp only [List.length_cons, Nat.add_right_cancel_iff] at h
      simp only [List.cons_append, List.cons_lt_cons_iff, ih y h, List.cons.injEq]
      constructor
      · rintro (h1 | ⟨rfl, h2 | ⟨rfl, h3⟩⟩)
        · exact Or.inl (Or.inl h1)
        · exact Or.inl (Or.inr ⟨rfl, h2⟩)
        · exact Or.inr ⟨⟨rfl, rfl⟩, h3⟩
      · rintro ((h1 | ⟨rfl, h2⟩) | ⟨⟨rfl, rfl⟩, h3⟩)
        · exact Or.inl h1
        · exact Or.inr ⟨rfl, Or.inl h2⟩
        · exact Or.inr ⟨rfl, Or.inr ⟨rfl, h3⟩⟩

theorem blockSeq_inj (a b : BitVec 64) (h : blockSeq a = blockSeq b) : a = b :=
  Kmer.toSeq_inj k32_wf a b (fun i hi => BitVec.getLsbD_of_ge _ _ (by simpa [k32] using hi))
    (fun i hi => BitVec.getLsbD_of_ge _ _ (by simpa [k32] using hi)) h

theorem block_lt (a b : BitVec 64) : a.toNat < b.toNat ↔ blockSeq a < blockSeq b :=
  Kmer.lt_iff_lex k32_wf a b (fun i hi => BitVec.getLsbD_of_ge _ _ (by simpa [k32] using hi))
    (fun i hi => BitVec.getLsbD_of_ge _ _ (by simpa [k32] using hi))

theorem list_lt_irrefl (l : List Nat) : ¬ l < l := List.lt_irrefl l
theorem list_lt_asymm (a b : List Nat) (h : a < b) : ¬ b < a := List.lt_asymm h

theorem flatMap_inj (A B : List Block) (h : A.flatMap blockSeq = B.flatMap blockSeq) : A = B := by
  induction A generalizing B with
  | nil =>
    cases B with
    | nil => rfl
    | cons b B =>
      have := congrArg List.length h
      rw [flatMap_length, flatMap_length] at this
      simp at this
  | cons a A ih =>
    cases B with
    | nil =>
      have := congrArg List.length h
      rw [flatMap_length, flatMap_length] at this
      simp at this
    | cons b B =>
      simp only [List.flatMap_cons] at h
      obtain ⟨h1, h2⟩ := List.append_inj h (by rw [blockSeq_length, blockSeq_length])
      rw [blockSeq_inj a b h1, ih B h2]

theorem cmpStorage_eq (A B : List Block) : cmpStorage A B = .eq ↔ A = B := by
  induction A generalizing B with
  | nil => cases B <;> simp [cmpStorage]
  | cons a A ih =>
    cases B with
    | nil => simp [cmpStorage]
    | cons b B =>
      unfold cmpStorage
      by_cases h1 : a.toNat < b.toNat
      · simp only [h1, if_true]
        constructor
        · intro h; cases h
        · intro h; cases h; omega
      · by_cases h2 : b.toNat < a.toNat
        · simp only [h1, h2, if_true, if_false]
          constructor
          · intro h; cases h
          · intro h; cases h; omega
        · simp only [h1, h2, if_false, ih B, List.cons.injEq]
          have : a = b := BitVec.eq_of_toNat_eq (by omega)
          simp [this]

theorem cmpStorage_lt (A B : List Block) : cmpStorage A B = .lt ↔ A.flatMap blockSeq < B.flatMap blockSeq := by
  induction A generalizing B with
  | nil =>
    cases B with
    | nil => simp [cmpStorage]
    | cons b B =>
      simp only [cmpStorage, List.flatMap_nil, List.flatMap_cons, true_iff]
      have : ∃ c t, blockSeq b = c :: t := by
        cases hb : blockSeq b with
        | nil => have := blockSeq_length b; rw [hb] at this; simp at this
        | cons c t => exact ⟨c, t, rfl⟩
      obtain ⟨c, t, e⟩ := this
      rw [e]; exact List.nil_lt_cons _ _
  | cons a A ih =>
    cases B with
    | nil => simp [cmpStorage]
    | cons b B =>
      unfold cmpStorage
      simp only [List.flatMap_cons]
      rw [append_lt_append_iff _ _ _ _ (by rw [blockSeq_length, blockSeq_length])]
      by_cases h1 : a.toNat < b.toNat
      · simp only [h1, if_true, true_iff]
        exact Or.inl ((block_lt a b).mp h1)
      · by_cases h2 : b.toNat < a.toNat
        · simp only [h1, h2, if_true, if_false]
          constructor
          · intro h; cases h
          · rintro (h | ⟨h, _⟩)
            · exact absurd ((block_lt a b).mpr h) h1
            · have := blockSeq_inj a b h; subst this; omega
        · simp only [h1, h2, if_false, ih B]
          have : a = b := BitVec.eq_of_toNat_eq (by omega)
          subst this
          constructor
          · intro h; exact Or.inr ⟨rfl, h⟩
          · rintro (h | ⟨_, h⟩)
            · exact absurd h (list_lt_irrefl _)
            · exact h

/-- zeros are below everything at least as long -/
theorem zeros_le (p : Nat) (L : List Nat) (h : p ≤ L.length) : List.replicate p 0 < L ∨ List.replicate p 0 = L := by
  induction p generalizing L with
  | zero =>
    cases L with
    | nil => exact Or.inr rfl
    | cons a L => exact Or.inl (List.nil_lt_cons _ _)
  | succ p ih =>
    cases L with
    | nil => simp at h
    | cons a L =>
      simp only [List.length_cons] at h
      rw [List.replicate_succ, List.cons_lt_cons_iff]
      by_cases ha : a = 0
      · subst ha
        rcases ih L (by omega) with h1 | h1
        · exact Or.inl (Or.inr ⟨rfl, h1⟩)
        · exact Or.inr (by rw [h1])
      · exact Or.inl (Or.inl (by omega))

/-- comparing zero-padded strings (padding to a monotone length) then lengths = comparing the strings -/
theorem pad_lt (x y : List Nat) (p q : Nat)
    (hxy : x.length ≤ y.length → x.length + p ≤ y.length + q)
    (hyx : y.length ≤ x.length → y.length + q ≤ x.length + p) :
    (x ++ List.replicate p 0 < y ++ List.replicate q 0 ∨
      (x ++ List.replicate p 0 = y ++ List.replicate q 0 ∧ x.length < y.length)) ↔ x < y := by
  induction x generalizing y with
  | nil =>
    cases y with
    | nil =>
      have : p = q := by simp at hxy hyx; omega
      subst this
      simp [list_lt_irrefl]
    | cons b y =>
      simp only [List.nil_append, List.length_nil, List.nil_lt_cons, iff_true]
      rcases zeros_le p (b :: y ++ List.replicate q 0) (by simp at hxy ⊢; omega) with h | h
      · exact Or.inl h
      · exact Or.inr ⟨h, by simp⟩
  | cons a x ih =>
    cases y with
    | nil =>
      simp only [List.nil_append, List.length_nil, List.not_lt_nil, iff_false, Nat.not_lt_zero, and_false, or_false]
      intro h
      rcases zeros_le q (a :: x ++ List.replicate p 0) (by simp at hyx ⊢; omega) with h1 | h1
      · exact list_lt_asymm _ _ h h1
      · rw [h1] at h; exact list_lt_irrefl _ h
    | cons b y =>
      simp only [List.length_cons] at hxy hyx
      have := ih y (fun h => by have := hxy (by omega); omega) (fun h => by have := hyx (by omega); omega)
      simp only [List.cons_append, List.cons_lt_cons_iff, List.cons.injEq, List.length_cons, Nat.add_lt_add_iff_right, ← this]
      constructor
      · rintro ((h1 | ⟨rfl, h2⟩) | ⟨⟨rfl, h3⟩, h4⟩)
        · exact Or.inl h1
        · exact Or.inr ⟨rfl, Or.inl h2⟩
        · exact Or.inr ⟨rfl, Or.inr ⟨h3, h4⟩⟩
      · rintro (h1 | ⟨rfl, h2 | ⟨h3, h4⟩⟩)
        · exact Or.inl (Or.inl h1)
        · exact Or.inl (Or.inr ⟨rfl, h2⟩)
        · exact Or.inr ⟨⟨rfl, h3⟩, h4⟩

/-- the blocks are the bases followed by zero padding -/
theorem flat_eq_pad (d : T) (h : Inv d) : flat d = toSeq d ++ List.replicate (32 * d.storage.length - d.len) 0 := by
  have hb := h.blocks
  apply List.ext_getElem?
  intro j
  by_cases hj : j < d.len
  · rw [List.getElem?_append_left (by rw [toSeq_length d h]; exact hj)]
    exact (List.getElem?_take_of_lt hj).symm
  · rw [List.getElem?_append_right (by rw [toSeq_length d h]; omega), toSeq_length d h, List.getElem?_replicate]
    by_cases hj2 : j < 32 * d.storage.length
    · rw [h.pad j (by omega) hj2]; simp; omega
    · rw [List.getElem?_eq_none (by rw [flat_length]; omega)]; simp; omega

/-- **derived `Ord`** = lexicographic order of the base vectors (a proper prefix first) -/
theorem cmp_lt_iff (a b : T) (ha : Inv a) (hb : Inv b) : cmp a b = .lt ↔ toSeq a < toSeq b := by
  have hba := ha.blocks; have hbb := hb.blocks
  have la := toSeq_length a ha; have lb := toSeq_length b hb
  rw [← pad_lt (toSeq a) (toSeq b) (32 * a.storage.length - a.len) (32 * b.storage.length - b.len)
    (by rw [la, lb]; omega) (by rw [la, lb]; omega), ← flat_eq_pad a ha, ← flat_eq_pad b hb, la, lb]
  unfold cmp
  cases hc : cmpStorage a.storage b.storage with
  | lt => simp only [true_iff]; exact Or.inl ((cmpStorage_lt _ _).mp hc)
  | gt =>
    constructor
    · intro h; cases h
    rintro (h | ⟨h, _⟩)
    · have h' := (cmpStorage_lt a.storage b.storage).mpr h; rw [h'] at hc; cases hc
    · have h' := (cmpStorage_eq _ _).mpr (flatMap_inj a.storage b.storage h); rw [h'] at hc; cases hc
  | eq =>
    have hs := (cmpStorage_eq _ _).mp hc
    simp only [Nat.compare_eq_lt]
    constructor
    · intro h; exact Or.inr ⟨by unfold flat; rw [hs], h⟩
    · rintro (h | ⟨_, h⟩)
      · unfold flat at h; rw [hs] at h; exact absurd h (list_lt_irrefl _)
      · exact h

theorem cmp_eq_iff (a b : T) (ha : Inv a) (hb : Inv b) : cmp a b = .eq ↔ toSeq a = toSeq b := by
  constructor
  · unfold cmp
    cases hc : cmpStorage a.storage b.storage with
    | lt => intro h; cases h
    | gt => intro h; cases h
    | eq =>
      simp only [Nat.compare_eq_eq]
      intro h
      have hs := (cmpStorage_eq _ _).mp hc
      unfold toSeq flat; rw [hs, h]
  · intro h
    have := repr_inj a b ha hb h
    subst this
    unfold cmp
    rw [(cmpStorage_eq _ _).mpr rfl]
    simp

end DnaStr

namespace DnaStr
open Block64 (blockSeq k32 k32_wf)

/-! ### `ndiffs`, packed-byte push, renderings, packed string set -/

theorem countDiff_spec (a b : Block) : countDiff2Bit a b = KSpec.hamming (blockSeq a) (blockSeq b) := by
  have := Kmer.hammingDist_spec k32_wf (by decide) a b (fun i hi => BitVec.getLsbD_of_ge _ _ (by simpa [k32] using hi))
    (fun i hi => BitVec.getLsbD_of_ge _ _ (by simpa [k32] using hi))
  exact this

theorem hamming_append (x y xs ys : List Nat) (h : x.length = y.length) :
    KSpec.hamming (x ++ xs) (y ++ ys) = KSpec.hamming x y + KSpec.hamming xs ys := by
  unfold KSpec.hamming
  rw [List.zip_append h, List.countP_append]

theorem foldl_add_eq (l : List (Block × Block)) (n : Nat) :
    l.foldl (fun acc p => acc + countDiff2Bit p.1 p.2) n = n + (l.map fun p => countDiff2Bit p.1 p.2).sum := by
  induction l generalizing n with
  | nil => simp
  | cons a l ih => simp only [List.foldl_cons, ih, List.map_cons, List.sum_cons]; omega

theorem ndiffs_blocks (A B : List Block) (h : A.length = B.length) :
    ((A.zip B).map fun p => countDiff2Bit p.1 p.2).sum = KSpec.hamming (A.flatMap blockSeq) (B.flatMap blockSeq) := by
  induction A generalizing B with
  | nil => cases B <;> simp [KSpec.hamming]
  | cons a A ih =>
    cases B with
    | nil => simp at h
    | cons b B =>
      simp only [List.length_cons, Nat.add_right_cancel_iff] at h
      simp only [List.zip_cons_cons, List.map_cons, List.sum_cons, List.flatMap_cons]
      rw [hamming_append _ _ _ _ (by rw [blockSeq_length, blockSeq_length]), ih B h, countDiff_spec]

theorem hamming_zeros (n m : Nat) : KSpec.hamming (List.replicate n 0) (List.replicate m 0) = 0 := by
  unfold KSpec.hamming
  rw [List.countP_eq_zero]
  intro p hp
  have h1 := (List.of_mem_zip hp).1; have h2 := (List.of_mem_zip hp).2
  rw [List.mem_replicate] at h1 h2
  simp [h1.2, h2.2]

/-- **`ndiffs`** counts the differing positions -/
theorem ndiffs_spec (a b : T) (ha : Inv a) (hb : Inv b) (hl : a.len = b.len) :
    ndiffs a b = some (KSpec.hamming (toSeq a) (toSeq b)) := by
  have hsl : a.storage.length = b.storage.length := by rw [ha.blocks, hb.blocks, hl]
  unfold ndiffs
  rw [if_neg (by simp [hl]), if_neg (by omega), foldl_add_eq, ndiffs_blocks _ _ hsl]
  show some (0 + KSpec.hamming (flat a) (flat b)) = _
  rw [flat_eq_pad a ha, flat_eq_pad b hb,
    hamming_append _ _ _ _ (by rw [toSeq_length a ha, toSeq_length b hb, hl]), hamming_zeros]
  simp

/-- the 2-bit fields of a packed byte string, least significant first -/
def unpackBytes (bytes : List Nat) (n : Nat) : List Nat :=
  (List.range n).map fun i => ((bytes.getD (i / 4) 0) >>> (2 * (i % 4))) &&& 3

theorem pushBytes_fold (bytes : List Nat) (is : List Nat) (his : ∀ i ∈ is, i / 4 < bytes.length) (d : T) (h : Inv d) :
    ∃ d', is.foldl (fun acc i =>
        match acc with
        | none => none
        | some d =>
          match bytes[(i * Gen.dnaWidth) / 8]? with
          | some v => push d ((v >>> ((i * Gen.dnaWidth) % 8)) &&& (Gen.dnaMask % 256))
          | none => none) (some d) = some d' ∧ Inv d' ∧
      toSeq d' = toSeq d ++ is.map (fun i => ((bytes.getD (i / 4) 0) >>> (2 * (i % 4))) &&& 3) ∧
      d'.len = d.len + is.length := by
  induction is generalizing d with
  | nil => exact ⟨d, rfl, h, by simp, rfl⟩
  | cons i is ih =>
    have hi : i / 4 < bytes.length := his i (by simp)
    have e1 : i * Gen.dnaWidth / 8 = i / 4 := by simp only [show Gen.dnaWidth = 2 from rfl]; omega
    have e2 : i * Gen.dnaWidth % 8 = 2 * (i % 4) := by simp only [show Gen.dnaWidth = 2 from rfl]; omega
    have e3 : Gen.dnaMask % 256 = 3 := rfl
    have hlt : (bytes[i / 4] >>> (2 * (i % 4))) &&& 3 < 4 := by
      have := @Nat.and_le_right (bytes[i / 4] >>> (2 * (i % 4))) 3; omega
    obtain ⟨d1, p1, i1, s1, l1⟩ := push_spec d h _ hlt
    obtain ⟨d2, p2, i2, s2, l2⟩ := ih (fun j hj => his j (by simp [hj])) d1 i1
    refine ⟨d2, ?_, i2, ?_, ?_⟩
    · simp only [List.foldl_cons, e1, e2, e3, List.getElem?_eq_getElem hi, p1]; exact p2
    · rw [s2, s1]; simp [List.getD_eq_getElem?_getD, List.getElem?_eq_getElem hi]
    · rw [l2, l1]; simp; omega

/-- **`push_bytes(bytes, n)`** appends the first `n` 2-bit fields (and panics exactly when there are fewer) -/
theorem pushBytes_spec (d : T) (h : Inv d) (bytes : List Nat) (n : Nat) :
    (n ≤ bytes.length * 4 → ∃ d', pushBytes d bytes n = some d' ∧ Inv d' ∧ toSeq d' = toSeq d ++ unpackBytes bytes n ∧
      d'.len = d.len + n) ∧ (¬ n ≤ bytes.length * 4 → pushBytes d bytes n = none) := by
  have e : bytes.length * 8 / Gen.dnaWidth = bytes.length * 4 := by simp only [show Gen.dnaWidth = 2 from rfl]; omega
  constructor
  · intro hn
    unfold pushBytes
    rw [e, if_neg (by simpa using hn)]
    obtain ⟨d', p, i, s, l⟩ := pushBytes_fold bytes (List.range n) (fun i hi => by rw [List.mem_range] at hi; omega) d h
    exact ⟨d', p, i, s, by simpa using l⟩
  · intro hn
    unfold pushBytes
    rw [e, if_pos (by simpa using hn)]

/-- **`to_ascii_vec` / `Display`** render the bases through the shipped tables -/
theorem toAsciiVec_spec (d : T) (h : Inv d) : toAsciiVec d = some ((toSeq d).map bitsToAscii) := by
  unfold toAsciiVec; rw [toBytes_spec d h]; rfl
theorem display_spec (d : T) (h : Inv d) : display d = some ((toSeq d).map bitsToBase) := by
  unfold display; rw [toBytes_spec d h]; rfl

/-- invariant of a packed set: the backing string is well-formed and the `i`-th (start, length) pair
    delimits the `i`-th added sequence -/
structure PSet.Inv (s : PSet) (added : List (List Nat)) : Prop where
  seq : DnaStr.Inv s.sequence
  cat : toSeq s.sequence = added.flatten
  n1 : s.start.length = added.length
  n2 : s.length.length = added.length
  pos : ∀ i (hi : i < added.length), s.start[i]? = some ((added.take i).flatten.length) ∧ s.length[i]? = some (added[i].length)

theorem PSet.inv_new : PSet.Inv PSet.new [] := ⟨DnaStr.inv_new, rfl, rfl, rfl, fun i hi => by simp at hi⟩

/-- **`PackedDnaStringSet::add`** (sequence shorter than 2³² bases, the width of the stored length) -/
theorem PSet.add_spec (s : PSet) (added : List (List Nat)) (h : PSet.Inv s added) (seq : List Nat) (hv : ∀ b ∈ seq, b < 4)
    (hlen : seq.length < 2 ^ 32) :
    ∃ s', PSet.add s seq = some s' ∧ PSet.Inv s' (added ++ [seq]) := by
  obtain ⟨d, e, i, sq, l⟩ := pushAll_spec seq s.sequence h.seq hv
  unfold PSet.add
  rw [e]
  refine ⟨_, rfl, ⟨i, ?_, ?_, ?_, ?_⟩⟩
  · show toSeq d = _; rw [sq, h.cat]; simp
  · simp [h.n1]
  · simp [h.n2]
  · intro j hj
    simp only [List.length_append, List.length_cons, List.length_nil] at hj
    by_cases hj' : j < added.length
    · obtain ⟨p1, p2⟩ := h.pos j hj'
      constructor
      · show (s.start ++ [s.sequence.len])[j]? = _
        rw [List.getElem?_append_left (by rw [h.n1]; exact hj'), p1, List.take_append_of_le_length (by omega)]
      · show (s.length ++ [seq.length % 2 ^ 32])[j]? = _
        rw [List.getElem?_append_left (by rw [h.n2]; exact hj'), p2]
        simp [List.getElem_append_left hj']
    · have : j = added.length := by omega
      subst this
      constructor
      · show (s.start ++ [s.sequence.len])[added.length]? = _
        rw [List.getElem?_append_right (by rw [h.n1]; exact Nat.le_refl _), h.n1]
        simp only [Nat.sub_self, List.getElem?_cons_zero, List.take_left', Option.some.injEq]
        rw [← toSeq_length _ h.seq, h.cat]
      · show (s.length ++ [seq.length % 2 ^ 32])[added.length]? = _
        rw [List.getElem?_append_right (by rw [h.n2]; exact Nat.le_refl _), h.n2]
        simp [Nat.mod_eq_of_lt hlen]

/-- **`PackedDnaStringSet::get(i)`** returns the `i`-th added sequence unchanged -/
theorem PSet.get_spec (s : PSet) (added : List (List Nat)) (h : PSet.Inv s added) (i : Nat) (hi : i < added.length) :
    PSet.get s i = some added[i] := by
  obtain ⟨p1, p2⟩ := h.pos i hi
  unfold PSet.get
  rw [p1, p2]
  simp only
  -- the bases at start .. start+len of the concatenation
  have hsplit : added.flatten = (added.take i).flatten ++ added[i] ++ (added.drop (i + 1)).flatten := by
    have e1 := List.take_append_drop i added
    have e2 := List.drop_eq_getElem_cons hi
    have e3 : added.flatten = (added.take i ++ (added[i] :: added.drop (i + 1))).flatten := by rw [← e2, e1]
    rw [e3, List.flatten_append, List.flatten_cons, List.append_assoc]
  have hget : ∀ j, j < added[i].length →
      DnaStr.get s.sequence ((added.take i).flatten.length + j) = some (added[i][j]!) := by
    intro j hj
    have hlt : (added.take i).flatten.length + j < s.sequence.len := by
      rw [← toSeq_length _ h.seq, h.cat, hsplit]; simp; omega
    rw [DnaStr.get_spec s.sequence h.seq _ hlt, h.cat, hsplit, List.append_assoc,
      List.getElem?_append_right (by omega), Nat.add_sub_cancel_left, List.getElem?_append_left hj]
    simp [hj]
  have : ∀ n, n ≤ added[i].length →
      (List.range n).mapM (fun j => DnaStr.get s.sequence ((added.take i).flatten.length + j)) = some (added[i].take n) := by
    intro n
    induction n with
    | zero => intro _; rfl
    | succ n ih =>
      intro hn
      rw [List.range_succ, List.mapM_append, ih (by omega)]
      simp only [List.mapM_cons, List.mapM_nil, hget n (by omega), Option.pure_def, Option.bind_eq_bind, Option.bind_some]
      rw [List.take_add_one, List.getElem?_eq_getElem (by omega)]
      simp [show n < added[i].length by omega]
  rw [this _ (Nat.le_refl _), List.take_length]

end DnaStr
