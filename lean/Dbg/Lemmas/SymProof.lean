import Dbg.Lemmas.LinkInv
import Dbg.Lemmas.WalkProofs
namespace Compress
open Walk (Dir)

variable {D : Type}

structure WF (T : Table D) (K : Nat) (st : Bool) : Prop where
  kpos : 1 ≤ K
  len : ∀ (x : Nat) (e : Entry D), T[x]? = some e → e.key.length = K
  distinct : ∀ (x y : Nat) (ex ey : Entry D), T[x]? = some ex → T[y]? = some ey → ex.key = ey.key → x = y
  canon : st = false → ∀ (x : Nat) (e : Entry D), T[x]? = some e → ¬ (rc e.key < e.key)
  ext8 : ∀ (x : Nat) (e : Entry D), T[x]? = some e → e.exts.val < 256

/-- reciprocity of recorded extensions between present, non-palindromic k-mers -/
def ExtSym (T : Table D) (st : Bool) : Prop :=
  ∀ (x : Nat) (ex : Entry D) (d : Dir) (b : Base) (y : Nat) (ey : Entry D), T[x]? = some ex → nibHas (ex.exts.dirBits d) b = true →
    findId T (canonSt st (extend ex.key b d)).1 = some y → T[y]? = some ey →
    (!st && isPalindrome ex.key) = false → (!st && isPalindrome ey.key) = false →
    nibHas (ey.exts.dirBits (condFlip d.flip (canonSt st (extend ex.key b d)).2))
      (recip ex.key d (canonSt st (extend ex.key b d)).2) = true

theorem findId_some {T : Table D} {k : Seq} {y : Nat} (h : findId T k = some y) :
    ∃ ey, T[y]? = some ey ∧ ey.key = k := by
  unfold findId at h
  obtain ⟨hlt, hp, _⟩ := List.findIdx?_eq_some_iff_getElem.mp h
  exact ⟨T[y], by simp [hlt], by simpa using hp⟩

theorem findId_self {T : Table D} {K st} (wf : WF T K st) {x : Nat} {ex : Entry D} (hx : T[x]? = some ex) :
    findId T ex.key = some x := by
  unfold findId
  cases hf : List.findIdx? (fun e => e.key == ex.key) T with
  | none =>
    have := List.findIdx?_eq_none_iff.mp hf ex (List.mem_of_getElem? hx)
    simp at this
  | some j =>
    obtain ⟨hlt, hp, _⟩ := List.findIdx?_eq_some_iff_getElem.mp hf
    have hj : T[j]? = some T[j] := by simp [hlt]
    have : j = x := wf.distinct j x T[j] ex hj hx (by simpa using hp)
    rw [this]

/-- a self-reverse-complementary sequence has even length -/
theorem rc_eq_self_even (x : Seq) (h : rc x = x) : x.length % 2 = 0 := by
  by_cases hodd : x.length % 2 = 0
  · exact hodd
  · exfalso
    have hn : x.length % 2 = 1 := by omega
    have hi : x.length / 2 < x.length := by omega
    have e2 : (rc x)[x.length / 2]? = (x[x.length - 1 - x.length / 2]?).map comp := by
      unfold rc
      rw [List.getElem?_reverse (by simpa using hi), List.getElem?_map]
      simp
    have hidx : x.length - 1 - x.length / 2 = x.length / 2 := by omega
    rw [h, hidx] at e2
    rw [List.getElem?_eq_getElem hi] at e2
    simp only [Option.map_some, Option.some.injEq] at e2
    have := congrArg Fin.val e2
    simp only [comp] at this
    omega

theorem notPal_ne {x : Seq} (h : isPalindrome x = false) : rc x ≠ x := by
  intro e
  have := rc_eq_self_even x e
  unfold isPalindrome at h
  simp [this, e] at h

theorem canonSt_self {st : Bool} {x : Seq} (hc : st = false → ¬ (rc x < x))
    (hp : (!st && isPalindrome x) = false) : canonSt st x = (x, false) := by
  unfold canonSt
  cases st with
  | true => rfl
  | false =>
    simp only [Bool.false_eq_true, if_false]
    simp only [Bool.not_false, Bool.true_and] at hp
    have hne := notPal_ne hp
    have hlt : x < rc x := by
      rcases Std.lt_trichotomy x (rc x) with h | h | h
      · exact h
      · exact absurd h.symm hne
      · exact absurd h (hc rfl)
    simp [minRcFlip, hlt]

theorem canonSt_rc {x : Seq} (hc : ¬ (rc x < x)) (hp : isPalindrome x = false) :
    minRcFlip (rc x) = (x, true) := by
  have hne := notPal_ne hp
  unfold minRcFlip
  rw [rc_rc]
  simp [hc]

end Compress

namespace Compress
open Walk (Dir)
variable {D : Type}

theorem condFlip_condFlip (d : Dir) (f : Bool) : condFlip (condFlip d f) f = d := by
  cases f <;> simp [condFlip]
theorem condFlip_flip (d : Dir) (f : Bool) : (condFlip d f).flip = condFlip d.flip f := by
  cases f <;> simp [condFlip]

/-- stepping back from the neighbour with the reciprocal base returns to `x` with the same flip -/
theorem canon_back {st : Bool} {x : Seq} {b : Base} {d : Dir} (hx : x ≠ [])
    (hc : st = false → ¬ (rc x < x)) (hp : (!st && isPalindrome x) = false) :
    canonSt st (extend (canonSt st (extend x b d)).1 (recip x d (canonSt st (extend x b d)).2)
      (condFlip d.flip (canonSt st (extend x b d)).2)) = (x, (canonSt st (extend x b d)).2) := by
  cases st with
  | true =>
    simp only [canonSt, if_true, condFlip, Bool.false_eq_true, if_false]
    rw [extend_back x b d hx]
  | false =>
    have hp' : isPalindrome x = false := by simpa using hp
    simp only [canonSt, Bool.false_eq_true, if_false]
    unfold minRcFlip
    by_cases hlt : extend x b d < rc (extend x b d)
    · simp only [hlt, if_true, condFlip, Bool.false_eq_true, if_false]
      rw [extend_back x b d hx]
      have := canonSt_self (st := false) (x := x) hc hp
      simpa [canonSt, minRcFlip] using this
    · simp only [hlt, if_false, condFlip, if_true, Dir.flip_flip]
      rw [extend_back_flip x b d hx]
      have := canonSt_rc (hc rfl) hp'
      simpa [minRcFlip] using this

theorem linkOf_sym {T : Table D} {K : Nat} {st : Bool} {join : D → D → Bool} (wf : WF T K st)
    (hes : ExtSym T st) (hj : ∀ a b, join a b = join b a) : Walk.Sym (linkOf T st join) := by
  intro x d y d' h
  obtain ⟨ex, ey, b, f⟩ := linkOf_inv T st join h
  have hxne : ex.key ≠ [] := by
    intro e
    have := wf.len x ex f.hx
    rw [e] at this
    have := wf.kpos
    simp at *; omega
  obtain ⟨ey', hy', hkey⟩ := findId_some f.hfind
  have : ey' = ey := by rw [f.hy] at hy'; exact (Option.some.inj hy').symm
  subst this
  -- x records b on port d
  have hbx := wf.ext8 x ex f.hx
  have hby := wf.ext8 y ey' f.hy
  have tx := nib_table ⟨ex.exts.dirBits d, dirBits_lt _ hbx d⟩ b
  have hasx : nibHas (ex.exts.dirBits d) b = true := tx.2.1 f.cntx f.uniq
  have paly' : (!st && isPalindrome ey'.key) = false := by rw [hkey]; exact f.paly
  have hasy := hes x ex d b y ey' f.hx hasx f.hfind f.hy f.palx paly'
  have ty := nib_table ⟨ey'.exts.dirBits (condFlip d.flip (canonSt st (extend ex.key b d)).2), dirBits_lt _ hby _⟩
    (recip ex.key d (canonSt st (extend ex.key b d)).2)
  have uniqy := ty.1 f.cnty hasy
  have hback := canon_back (b := b) (d := d) hxne (fun h => wf.canon h x ex f.hx) f.palx
  rw [← hkey] at hback
  have hd'' : d'.flip = condFlip d.flip (canonSt st (extend ex.key b d)).2 := by
    rw [f.hd', condFlip_flip]
  rw [hd'']
  apply linkOf_intro T st join (ex := ey') (ey := ex)
    (b := recip ex.key d (canonSt st (extend ex.key b d)).2)
  refine ⟨f.hy, f.cnty, paly', uniqy, ?_, f.hx, ?_, ?_, ?_, ?_⟩
  · rw [hback]; exact findId_self wf f.hx
  · rw [hback]; simp only; rw [condFlip_condFlip]
  · rw [hback]; simp only
    rw [condFlip_flip, Dir.flip_flip, condFlip_condFlip]; exact f.cntx
  · rw [hj]; exact f.hjoin
  · rw [hback]; exact f.palx

/-- the `unreachable` panic cannot fire on a reciprocal table -/
theorem noPanic {T : Table D} {K : Nat} {st : Bool} {join : D → D → Bool} (wf : WF T K st)
    (hes : ExtSym T st) : NoPanic T st join := by
  intro x d y d' ok e hs
  unfold staticStep at hs
  split at hs
  · cases hs
  · rename_i ex hx
    split at hs
    · cases hs
    · rename_i hc
      split at hs
      · cases hs
      · rename_i b hb
        simp only at hs
        split at hs
        · cases hs
        · rename_i y1 hf
          split at hs
          · cases hs
          · rename_i ey hy
            simp only [Static.cand.injEq] at hs
            obtain ⟨rfl, _, _, hpanic, _⟩ := hs
            rw [numExtDir_eq] at hc hpanic
            rw [uniqueExt_eq] at hb
            simp only [Bool.or_eq_true, bne_iff_ne, ne_eq, not_or, Bool.not_eq_true] at hc
            have hc1 : nibCnt (ex.exts.dirBits d) = 1 := by have := hc.1; simpa using this
            simp only [hc1, bne_self_eq_false, Bool.false_eq_true, if_false] at hb
            simp only [Bool.and_eq_true, beq_iff_eq, Bool.not_eq_true'] at hpanic
            obtain ⟨ey', hy', hkey⟩ := findId_some hf
            have : ey' = ey := by rw [hy] at hy'; exact (Option.some.inj hy').symm
            subst this
            have tx := nib_table ⟨ex.exts.dirBits d, dirBits_lt _ (wf.ext8 x ex hx) d⟩ b
            have hasx := tx.2.1 hc1 hb
            have paly' : (!st && isPalindrome ey'.key) = false := by rw [hkey]; exact hpanic.2
            have hasy := hes x ex d b y1 ey' hx hasx hf hy hc.2 paly'
            have ty := nib_table ⟨ey'.exts.dirBits (condFlip d.flip (canonSt st (extend ex.key b d)).2),
              dirBits_lt _ (wf.ext8 y1 ey' hy) _⟩ (recip ex.key d (canonSt st (extend ex.key b d)).2)
            exact ty.2.2.1 hasy hpanic.1

end Compress
