import Dbg.Lemmas.LinkInv
import Dbg.Lemmas.SymProof
/-! Good links do not read the extension bytes of self-complementary k-mers: two tables that agree everywhere else
    induce the same link relation. -/
namespace Compress
open Walk (Dir)
variable {D : Type}

/-- same keys and payloads position by position; same extension bytes except (unstranded) at palindromic keys -/
structure TableAgree (st : Bool) (T T' : Table D) : Prop where
  len : T'.length = T.length
  ent : ∀ (i : Nat) (e e' : Entry D), T[i]? = some e → T'[i]? = some e' →
    e'.key = e.key ∧ e'.data = e.data ∧ ((!st && isPalindrome e.key) = false → e'.exts = e.exts)

theorem TableAgree.symm {st : Bool} {T T' : Table D} (h : TableAgree st T T') : TableAgree st T' T where
  len := h.len.symm
  ent := fun i e' e h' h0 => by
    obtain ⟨a, b, c⟩ := h.ent i e e' h0 h'
    exact ⟨a.symm, b.symm, fun hp => (c (by rw [← a]; exact hp)).symm⟩

theorem TableAgree.get {st : Bool} {T T' : Table D} (h : TableAgree st T T') (i : Nat) (e : Entry D) (hi : T[i]? = some e) :
    ∃ e', T'[i]? = some e' ∧ e'.key = e.key ∧ e'.data = e.data ∧ ((!st && isPalindrome e.key) = false → e'.exts = e.exts) := by
  have hlt : i < T.length := by
    cases hd : decide (i < T.length) with
    | true => simpa using hd
    | false => rw [List.getElem?_eq_none (by simpa using hd)] at hi; cases hi
  have hlt' : i < T'.length := by rw [h.len]; exact hlt
  exact ⟨T'[i], List.getElem?_eq_getElem hlt', h.ent i e T'[i] hi (List.getElem?_eq_getElem hlt')⟩

theorem TableAgree.keys {st : Bool} {T T' : Table D} (h : TableAgree st T T') : T'.map (·.key) = T.map (·.key) := by
  apply List.ext_getElem
  · simp [h.len]
  · intro i h1 h2
    simp only [List.length_map] at h1 h2
    simp only [List.getElem_map]
    exact (h.ent i T[i] T'[i] (List.getElem?_eq_getElem h2) (List.getElem?_eq_getElem h1)).1

theorem TableAgree.findId {st : Bool} {T T' : Table D} (h : TableAgree st T T') (k : Seq) : findId T' k = findId T k := by
  have e : ∀ (L : Table D), Compress.findId L k = (L.map (·.key)).findIdx? (· == k) := by
    intro L; unfold Compress.findId; rw [List.findIdx?_map]; rfl
  rw [e, e, h.keys]

theorem linkFacts_transfer {st : Bool} {join : D → D → Bool} {T T' : Table D} (h : TableAgree st T T')
    {x : Nat} {d : Dir} {y : Nat} {d' : Dir} {ex ey : Entry D} {b : Base} (f : LinkFacts T st join x d y d' ex ey b) :
    ∃ ex' ey', LinkFacts T' st join x d y d' ex' ey' b := by
  obtain ⟨hx, cntx, palx, uniq, hfind, hy, hd', cnty, hjoin, paly⟩ := f
  obtain ⟨ex', hx', kx, dx, exx⟩ := h.get x ex hx
  obtain ⟨ey', hy', ky, dy, eyy⟩ := h.get y ey hy
  have hkey' : ey.key = (canonSt st (extend ex.key b d)).1 := by
    obtain ⟨ey2, h2, k2⟩ := findId_some hfind
    rw [hy] at h2; cases h2; exact k2
  have hex := exx palx
  have hey := eyy (by rw [hkey']; exact paly)
  refine ⟨ex', ey', ⟨hx', by rw [hex]; exact cntx, by rw [kx]; exact palx, by rw [hex]; exact uniq, ?_, hy', ?_, ?_, ?_, ?_⟩⟩
  · rw [kx, h.findId]; exact hfind
  · rw [kx]; exact hd'
  · rw [kx, hey]; exact cnty
  · rw [dx, dy]; exact hjoin
  · rw [kx]; exact paly

/-- **the link relation of two agreeing tables is the same** -/
theorem linkOf_congr {st : Bool} {join : D → D → Bool} {T T' : Table D} (h : TableAgree st T T') :
    linkOf T' st join = linkOf T st join := by
  funext x d
  cases h1 : linkOf T st join x d with
  | some yd =>
    obtain ⟨y, d'⟩ := yd
    obtain ⟨ex, ey, b, f⟩ := linkOf_inv T st join h1
    obtain ⟨ex', ey', f'⟩ := linkFacts_transfer h f
    exact linkOf_intro T' st join f'
  | none =>
    cases h2 : linkOf T' st join x d with
    | none => rfl
    | some yd =>
      obtain ⟨y, d'⟩ := yd
      obtain ⟨ex, ey, b, f⟩ := linkOf_inv T' st join h2
      obtain ⟨ex', ey', f'⟩ := linkFacts_transfer h.symm f
      rw [linkOf_intro T st join f'] at h1; cases h1

end Compress
