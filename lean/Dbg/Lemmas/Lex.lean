/-! Probe: base-4 value order = lexicographic order (MSB first), equal lengths. -/
namespace Lex

def val (l : List Nat) : Nat := l.foldl (fun acc d => 4 * acc + d) 0

theorem foldl_val (acc : Nat) (l : List Nat) :
    l.foldl (fun acc d => 4 * acc + d) acc = acc * 4 ^ l.length + val l := by
  induction l generalizing acc with
  | nil => simp [val]
  | cons a t ih =>
    have e1 : (a :: t).foldl (fun acc d => 4 * acc + d) acc = (4 * acc + a) * 4 ^ t.length + val t := ih _
    have e2 : val (a :: t) = (4 * 0 + a) * 4 ^ t.length + val t := ih _
    rw [e1, e2, List.length_cons, Nat.pow_succ, Nat.add_mul, Nat.mul_assoc 4 acc, ← Nat.mul_assoc acc]
    simp only [Nat.mul_zero, Nat.zero_add]
    omega

theorem val_cons (a : Nat) (t : List Nat) : val (a :: t) = a * 4 ^ t.length + val t := by
  show List.foldl (fun acc d => 4 * acc + d) (4 * 0 + a) t = _
  rw [foldl_val]; simp

theorem val_lt (l : List Nat) (h : ∀ d ∈ l, d < 4) : val l < 4 ^ l.length := by
  induction l with
  | nil => simp [val]
  | cons a t ih =>
    rw [val_cons, List.length_cons, Nat.pow_succ]
    have h1 := ih (fun d hd => h d (List.mem_cons_of_mem _ hd))
    have h2 : a < 4 := h a (List.mem_cons_self)
    have : a * 4 ^ t.length ≤ 3 * 4 ^ t.length := Nat.mul_le_mul_right _ (by omega)
    omega

theorem val_lt_iff_lex (l1 l2 : List Nat) (hlen : l1.length = l2.length)
    (h1 : ∀ d ∈ l1, d < 4) (h2 : ∀ d ∈ l2, d < 4) : val l1 < val l2 ↔ l1 < l2 := by
  induction l1 generalizing l2 with
  | nil =>
    cases l2 with
    | nil => simp [val]
    | cons b t => simp at hlen
  | cons a t1 ih =>
    cases l2 with
    | nil => simp at hlen
    | cons b t2 =>
      simp only [List.length_cons, Nat.add_right_cancel_iff] at hlen
      have ht1 := fun d hd => h1 d (List.mem_cons_of_mem _ hd)
      have ht2 := fun d hd => h2 d (List.mem_cons_of_mem _ hd)
      have ih := ih t2 hlen ht1 ht2
      have v1 := val_lt t1 ht1
      have v2 := val_lt t2 ht2
      rw [val_cons, val_cons, hlen, List.cons_lt_cons_iff]
      have hp : 0 < 4 ^ t2.length := Nat.pow_pos (by decide)
      rw [hlen] at v1
      constructor
      · intro h
        by_cases hab : a < b
        · exact Or.inl hab
        · by_cases hba : a = b
          · subst hba
            right; refine ⟨rfl, ih.mp (by omega)⟩
          · exfalso
            have : b + 1 ≤ a := by omega
            have : (b + 1) * 4 ^ t2.length ≤ a * 4 ^ t2.length := Nat.mul_le_mul_right _ this
            rw [Nat.add_mul] at this
            omega
      · rintro (hab | ⟨rfl, hlt⟩)
        · have : a + 1 ≤ b := hab
          have : (a + 1) * 4 ^ t2.length ≤ b * 4 ^ t2.length := Nat.mul_le_mul_right _ this
          rw [Nat.add_mul] at this
          omega
        · have := ih.mpr hlt; omega

end Lex
