import Dbg.Lemmas.RecompressConn
/-! The extension byte and the terminal k-mers of a node built by `compress_graph`'s `build_node`, in terms of the two
    node-level end ports where its walks stopped. -/
namespace CompressGraph
open Compress (Seq Exts Node windowsOf rc lastPort)
open Walk (Dir rm mem_rm)
open Graph
open Filter (has)
variable {D : Type}

theorem staticNode_terminal (g : G D) (st : Bool) (join : D → D → Bool) (x : Nat) (d : Dir) (e : Exts) (nd : Node D)
    (hx : g.nodes[x]? = some nd) (h : staticNode g st join x d = .terminal e) : e = nd.exts.singleDir d := by
  unfold staticNode at h
  rw [hx] at h
  simp only at h
  split at h
  · cases h; rfl
  · split at h
    · cases h
    · split at h
      · cases h
      · split at h
        · cases h
        · split at h <;> cases h

theorem tryExtendNode_terminal (g : G D) (st : Bool) (join : D → D → Bool) (avail : List Nat) (x : Nat) (d : Dir) (e : Exts)
    (nd : Node D) (hx : g.nodes[x]? = some nd) (h : tryExtendNode g st join avail x d = .terminal e) : e = nd.exts.singleDir d := by
  unfold tryExtendNode at h
  cases hs : staticNode g st join x d with
  | panic => rw [hs] at h; cases h
  | terminal e0 => rw [hs] at h; cases h; exact staticNode_terminal g st join x d e nd hx hs
  | cand y inc bad cnt e0 =>
    obtain ⟨nd', _, _, _, hx', _, _, _, _, _, _, _, he⟩ := staticNode_cand g st join x d y inc bad cnt e0 hs
    rw [hx] at hx'; cases hx'
    rw [hs] at h
    simp only at h
    split at h
    · cases h; exact he
    · split at h
      · cases h
      · split at h
        · cases h
        · cases h; exact he

theorem tryExtendNode_unique_node (g : G D) (st : Bool) (join : D → D → Bool) (avail : List Nat) (x : Nat) (d : Dir)
    (nx : Nat) (out : Dir) (h : tryExtendNode g st join avail x d = .unique nx out) : ∃ nn, g.nodes[nx]? = some nn := by
  unfold tryExtendNode at h
  cases hs : staticNode g st join x d with
  | panic => rw [hs] at h; cases h
  | terminal e0 => rw [hs] at h; cases h
  | cand y inc bad cnt e0 =>
    obtain ⟨_, nn, _, _, _, hy, _⟩ := staticNode_cand g st join x d y inc bad cnt e0 hs
    rw [hs] at h
    simp only at h
    split at h
    · cases h
    · split at h
      · cases h
      · split at h
        · simp only [ExtModeNode.unique.injEq] at h
          rw [← h.1]; exact ⟨nn, hy⟩
        · cases h

/-- **the walk returns the extension set of the node where it stopped**, on the side it was about to leave -/
theorem extendNode_exts (g : G D) (st : Bool) (join : D → D → Bool) (avail : List Nat) (x : Nat) (d : Dir) :
    ∀ p e a nd, g.nodes[x]? = some nd → extendNode g st join avail x d = some (p, e, a) →
      ∃ nn, g.nodes[(lastPort (p.map flip2) x d).1]? = some nn ∧ e = nn.exts.singleDir (lastPort (p.map flip2) x d).2 := by
  fun_induction extendNode g st join avail x d with
  | case1 avail cur dir nx out hx hmem p0 e0 a0 hrec ih =>
    intro p e a nd hn h
    simp only [Option.some.injEq, Prod.mk.injEq] at h
    obtain ⟨rfl, rfl, rfl⟩ := h
    obtain ⟨nn, hnn⟩ := tryExtendNode_unique_node g st join avail cur dir nx out hx
    obtain ⟨nl, h1, h2⟩ := ih p0 e0 a0 nn hnn hrec
    refine ⟨nl, ?_, ?_⟩
    · rw [List.map_cons, Compress.lastPort_cons]
      simpa [flip2, Dir.flip_flip] using h1
    · rw [List.map_cons, Compress.lastPort_cons]
      simpa [flip2, Dir.flip_flip] using h2
  | case2 avail cur dir nx out hx hmem hrec => intro p e a nd hn h; simp at h
  | case3 avail cur dir nx out hx hmem => intro p e a nd hn h; simp at h
  | case4 avail cur dir e1 hx =>
    intro p e a nd hn h
    simp only [Option.some.injEq, Prod.mk.injEq] at h
    obtain ⟨rfl, rfl, rfl⟩ := h
    exact ⟨nd, hn, tryExtendNode_terminal g st join avail cur dir e1 nd hn hx⟩
  | case5 avail cur dir hx => intro p e a nd hn h; simp at h

theorem flip2_eq : (flip2 : Nat × Dir → Nat × Dir) = Compress.flip2 := rfl

theorem map_flip2_flip2 (l : List (Nat × Dir)) : (l.map flip2).map flip2 = l := by
  rw [List.map_map]
  have : (flip2 ∘ flip2) = id := by funext p; rw [flip2_eq]; exact Compress.flip2_flip2 p
  rw [this, List.map_id]

/-- **`build_node` of the re-compression, completely**: the path is the flipped node chain of the two abstract walks, and
    the extension byte is that of the two old nodes at the node-level end ports, complemented when the old node lies
    reverse-complemented in the new one -/
theorem buildNode_ports (g : G D) (valid : List Nat) (hr : RInv g valid) (st : Bool) (hst : st = g.stranded) (join : D → D → Bool)
    (reduce : D → D → D) (avail : List Nat) (hav : ∀ z ∈ avail, z ∈ valid) (seed : Nat) (hs : seed ∈ avail)
    (hsn : (g.nodes[seed]?).isSome) :
    ∃ nd, buildNode g st join reduce avail seed =
        some (nd, (Compress.nodeChain (Walk.walk (glinkV g st join valid) (rm avail seed) seed .L).1
          (Walk.walk (glinkV g st join valid) (Walk.walk (glinkV g st join valid) (rm avail seed) seed .L).2 seed .R).1 seed).map flip2,
          (Walk.build (glinkV g st join valid) avail seed).2) ∧
      (∃ nl, g.nodes[(lastPort (Walk.walk (glinkV g st join valid) (rm avail seed) seed .L).1 seed .L).1]? = some nl ∧
        ∀ b, has nd.exts .L b ↔ has nl.exts (lastPort (Walk.walk (glinkV g st join valid) (rm avail seed) seed .L).1 seed .L).2
          (if (lastPort (Walk.walk (glinkV g st join valid) (rm avail seed) seed .L).1 seed .L).2 = .R then Compress.comp b else b)) ∧
      (∃ nr, g.nodes[(lastPort (Walk.walk (glinkV g st join valid) (Walk.walk (glinkV g st join valid) (rm avail seed) seed .L).2 seed .R).1 seed .R).1]? = some nr ∧
        ∀ b, has nd.exts .R b ↔ has nr.exts (lastPort (Walk.walk (glinkV g st join valid) (Walk.walk (glinkV g st join valid) (rm avail seed) seed .L).2 seed .R).1 seed .R).2
          (if (lastPort (Walk.walk (glinkV g st join valid) (Walk.walk (glinkV g st join valid) (rm avail seed) seed .L).2 seed .R).1 seed .R).2 = .L then Compress.comp b else b)) := by
  obtain ⟨sn, hsn'⟩ := Option.isSome_iff_exists.mp hsn
  obtain ⟨nd, path, hb, _⟩ := buildNode_refines g valid hr st hst join reduce avail hav seed hs hsn
  generalize hlink : glinkV g st join valid = link at *
  have hsv : seed ∈ valid := hav seed hs
  obtain ⟨el, hL⟩ := extendNode_refines g valid hr st hst join (rm avail seed) seed .L
    (fun z hz => hav z (mem_rm.mp hz).1) hsv hsn
  rw [hlink] at hL
  generalize hlw : Walk.walk link (rm avail seed) seed .L = lw at *
  have hnot : seed ∉ lw.2 := by
    intro h
    rw [← hlw] at h
    exact (mem_rm.mp (walk_rest_sub link _ _ _ seed h)).2 rfl
  have hrm : rm lw.2 seed = lw.2 := Compress.rm_of_not_mem _ _ hnot
  have hsub2 : ∀ z ∈ lw.2, z ∈ valid := by
    intro z hz
    rw [← hlw] at hz
    exact hav z (mem_rm.mp (walk_rest_sub link _ _ _ z hz)).1
  obtain ⟨er, hR⟩ := extendNode_refines g valid hr st hst join lw.2 seed .R hsub2 hsv hsn
  rw [hlink] at hR
  generalize hrw : Walk.walk link lw.2 seed .R = rw at *
  -- what the two walks returned
  obtain ⟨nl, hnl, hel⟩ := extendNode_exts g st join _ seed .L _ _ _ sn hsn' hL
  obtain ⟨nr, hnr, her⟩ := extendNode_exts g st join _ seed .R _ _ _ sn hsn' hR
  rw [map_flip2_flip2] at hnl hel hnr her
  -- open `build_node`
  have hb0 := hb
  unfold buildNode at hb
  rw [hsn'] at hb
  simp only at hb
  rw [hL] at hb
  simp only at hb
  rw [hrm, hR] at hb
  simp only at hb
  split at hb
  · rename_i dat sq hdat hsq
    simp only [Option.some.injEq, Prod.mk.injEq] at hb
    obtain ⟨hnd, hpath, _⟩ := hb
    subst hnd
    have hmapeq : (List.map (fun p => (p.1, p.2.flip)) (List.map flip2 lw.1)) = lw.1 := map_flip2_flip2 lw.1
    have hchain : (Compress.nodeChain lw.1 rw.1 seed).map flip2 = lw.1.reverse ++ [(seed, Dir.L)] ++ rw.1.map flip2 := by
      unfold Compress.nodeChain
      simp only [List.map_append, List.map_reverse, List.map_cons, List.map_nil]
      rw [← flip2_eq, map_flip2_flip2]; rfl
    have hbuild : (Walk.build link avail seed).2 = rw.2 := by
      unfold Walk.build; simp only [hlw, hrw]
    have h8l := hr.x8 _ nl hnl
    have h8r := hr.x8 _ nr hnr
    have fin : ∀ (cl cr : Bool), cl = decide ((lastPort lw.1 seed .L).2 = .R) → cr = decide ((lastPort rw.1 seed .R).2 = .L) →
        (∀ b, has (Compress.Exts.fromSingleDirs (if cl then el.complement else el) (if cr then er.complement else er)) .L b ↔
          has nl.exts (lastPort lw.1 seed .L).2 (if (lastPort lw.1 seed .L).2 = .R then Compress.comp b else b)) ∧
        (∀ b, has (Compress.Exts.fromSingleDirs (if cl then el.complement else el) (if cr then er.complement else er)) .R b ↔
          has nr.exts (lastPort rw.1 seed .R).2 (if (lastPort rw.1 seed .R).2 = .L then Compress.comp b else b)) := by
      intro cl cr hcl hcr
      rw [hel, her]
      have hfs := Compress.fromSingleDirs_has nl.exts nr.exts h8l h8r (lastPort lw.1 seed .L).2 (lastPort rw.1 seed .R).2 cl cr
      constructor
      · intro b
        rw [(hfs b).1, hcl]
        by_cases hc : (lastPort lw.1 seed .L).2 = .R <;> simp [hc]
      · intro b
        rw [(hfs b).2, hcr]
        by_cases hc : (lastPort rw.1 seed .R).2 = .L <;> simp [hc]
    have hlp : lastPort lw.1 seed .L = (lw.1.getLast?).getD (seed, .L) := rfl
    have hrp : lastPort rw.1 seed .R = (rw.1.getLast?).getD (seed, .R) := rfl
    have key : (∀ b, has (Compress.Exts.fromSingleDirs
          (match (lw.1.map flip2).getLast? with | none => el | some (_, .L) => el.complement | some (_, .R) => el)
          (match (rw.1.map flip2).getLast? with | none => er | some (_, .L) => er | some (_, .R) => er.complement)) .L b ↔
          has nl.exts (lastPort lw.1 seed .L).2 (if (lastPort lw.1 seed .L).2 = .R then Compress.comp b else b)) ∧
        (∀ b, has (Compress.Exts.fromSingleDirs
          (match (lw.1.map flip2).getLast? with | none => el | some (_, .L) => el.complement | some (_, .R) => el)
          (match (rw.1.map flip2).getLast? with | none => er | some (_, .L) => er | some (_, .R) => er.complement)) .R b ↔
          has nr.exts (lastPort rw.1 seed .R).2 (if (lastPort rw.1 seed .R).2 = .L then Compress.comp b else b)) := by
      rw [List.getLast?_map, List.getLast?_map]
      cases hgl : lw.1.getLast? with
      | none =>
        have dl : (lastPort lw.1 seed .L).2 = .L := by rw [hlp, hgl]; rfl
        cases hgr : rw.1.getLast? with
        | none =>
          have dr : (lastPort rw.1 seed .R).2 = .R := by rw [hrp, hgr]; rfl
          exact fin false false (by simp [dl]) (by simp [dr])
        | some q =>
          obtain ⟨q1, q2⟩ := q
          have dr : (lastPort rw.1 seed .R).2 = q2 := by rw [hrp, hgr]; rfl
          cases q2 with
          | L => exact fin false true (by simp [dl]) (by simp [dr])
          | R => exact fin false false (by simp [dl]) (by simp [dr])
      | some p =>
        obtain ⟨p1, p2⟩ := p
        have dl : (lastPort lw.1 seed .L).2 = p2 := by rw [hlp, hgl]; rfl
        cases hgr : rw.1.getLast? with
        | none =>
          have dr : (lastPort rw.1 seed .R).2 = .R := by rw [hrp, hgr]; rfl
          cases p2 with
          | L => exact fin false false (by simp [dl]) (by simp [dr])
          | R => exact fin true false (by simp [dl]) (by simp [dr])
        | some q =>
          obtain ⟨q1, q2⟩ := q
          have dr : (lastPort rw.1 seed .R).2 = q2 := by rw [hrp, hgr]; rfl
          cases p2 <;> cases q2
          · exact fin false true (by simp [dl]) (by simp [dr])
          · exact fin false false (by simp [dl]) (by simp [dr])
          · exact fin true true (by simp [dl]) (by simp [dr])
          · exact fin true false (by simp [dl]) (by simp [dr])
    refine ⟨?nd, ?h1, ⟨nl, hnl, ?h2⟩, ⟨nr, hnr, ?h3⟩⟩
    case h1 => rw [hb0, hchain, hbuild, ← hpath, hmapeq]
    case h2 => exact key.1
    case h3 => exact key.2
  · simp at hb

end CompressGraph
