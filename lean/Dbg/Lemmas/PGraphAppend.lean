import Dbg.Lemmas.PGraph
/-! Ported graphs over key-disjoint tables concatenate: the nodes built from the shards, side by side, are a graph ported
    into the concatenated table. -/
namespace Compress
open Walk (Dir rm)
open Filter (has hasExt_iff ExtSym2)
open Graph (termKmer)
variable {D : Type}

def shiftP (off : Nat) (p : Nat × Dir) : Nat × Dir := (off + p.1, p.2)

theorem wf_append_left {A B : Table D} {K : Nat} {st : Bool} (wf : WF (A ++ B) K st) : WF A K st where
  kpos := wf.kpos
  len := fun x e h => wf.len x e (by rw [List.getElem?_append_left (List.getElem?_eq_some_iff.mp h).1]; exact h)
  distinct := fun x y ex ey hx hy hk => wf.distinct x y ex ey
    (by rw [List.getElem?_append_left (List.getElem?_eq_some_iff.mp hx).1]; exact hx)
    (by rw [List.getElem?_append_left (List.getElem?_eq_some_iff.mp hy).1]; exact hy) hk
  canon := fun hst x e h => wf.canon hst x e (by rw [List.getElem?_append_left (List.getElem?_eq_some_iff.mp h).1]; exact h)
  ext8 := fun x e h => wf.ext8 x e (by rw [List.getElem?_append_left (List.getElem?_eq_some_iff.mp h).1]; exact h)

theorem getElem?_append_off {α} (A B : List α) (x : Nat) : (A ++ B)[A.length + x]? = B[x]? := by
  rw [List.getElem?_append_right (by omega)]
  congr 1; omega

theorem wf_append_right {A B : Table D} {K : Nat} {st : Bool} (wf : WF (A ++ B) K st) : WF B K st where
  kpos := wf.kpos
  len := fun x e h => wf.len (A.length + x) e (by rw [getElem?_append_off]; exact h)
  distinct := fun x y ex ey hx hy hk => by
    have := wf.distinct (A.length + x) (A.length + y) ex ey (by rw [getElem?_append_off]; exact hx) (by rw [getElem?_append_off]; exact hy) hk
    omega
  canon := fun hst x e h => wf.canon hst (A.length + x) e (by rw [getElem?_append_off]; exact h)
  ext8 := fun x e h => wf.ext8 (A.length + x) e (by rw [getElem?_append_off]; exact h)

theorem findId_append_left (A B : Table D) (k : Seq) (y : Nat) (h : findId A k = some y) : findId (A ++ B) k = some y := by
  unfold findId at *
  rw [List.findIdx?_append, h]; rfl

theorem findId_append_right {A B : Table D} {K : Nat} {st : Bool} (wf : WF (A ++ B) K st) (k : Seq) (y : Nat)
    (h : findId B k = some y) : findId (A ++ B) k = some (A.length + y) := by
  obtain ⟨ey, hy, hk⟩ := findId_some h
  have hU : (A ++ B)[A.length + y]? = some ey := by rw [getElem?_append_off]; exact hy
  have := findId_self wf hU
  rw [hk] at this
  exact this

theorem linkOf_append_left {A B : Table D} {K : Nat} {st : Bool} (join : D → D → Bool)
    (x : Nat) (d : Dir) (y : Nat) (d' : Dir) (h : linkOf A st join x d = some (y, d')) :
    linkOf (A ++ B) st join x d = some (y, d') := by
  obtain ⟨ex, ey, b, f⟩ := linkOf_inv A st join h
  apply linkOf_intro (A ++ B) st join (ex := ex) (ey := ey) (b := b)
  exact ⟨by rw [List.getElem?_append_left (List.getElem?_eq_some_iff.mp f.hx).1]; exact f.hx, f.cntx, f.palx, f.uniq,
    findId_append_left A B _ y f.hfind, by rw [List.getElem?_append_left (List.getElem?_eq_some_iff.mp f.hy).1]; exact f.hy,
    f.hd', f.cnty, f.hjoin, f.paly⟩

theorem linkOf_append_right {A B : Table D} {K : Nat} {st : Bool} (wf : WF (A ++ B) K st) (join : D → D → Bool)
    (x : Nat) (d : Dir) (y : Nat) (d' : Dir) (h : linkOf B st join x d = some (y, d')) :
    linkOf (A ++ B) st join (A.length + x) d = some (A.length + y, d') := by
  obtain ⟨ex, ey, b, f⟩ := linkOf_inv B st join h
  apply linkOf_intro (A ++ B) st join (ex := ex) (ey := ey) (b := b)
  exact ⟨by rw [getElem?_append_off]; exact f.hx, f.cntx, f.palx, f.uniq,
    findId_append_right wf _ y f.hfind, by rw [getElem?_append_off]; exact f.hy,
    f.hd', f.cnty, f.hjoin, f.paly⟩

theorem keyOf_append_left (A B : Table D) (x : Nat) (h : x < A.length) : keyOf (A ++ B) x = keyOf A x := by
  unfold keyOf; rw [List.getElem?_append_left h]

theorem keyOf_append_right (A B : Table D) (x : Nat) : keyOf (A ++ B) (A.length + x) = keyOf B x := by
  unfold keyOf; rw [getElem?_append_off]

theorem nodePort_lift_left {A B : Table D} {K : Nat} {st : Bool} {n : Node D} {s : Dir} {p : Nat × Dir} {e : Entry D}
    (h : NodePort A K st n s p e) : NodePort (A ++ B) K st n s p e :=
  ⟨by rw [List.getElem?_append_left (List.getElem?_eq_some_iff.mp h.ent).1]; exact h.ent, h.term, h.exts, h.strand⟩

theorem nodePort_lift_right {A B : Table D} {K : Nat} {st : Bool} {n : Node D} {s : Dir} {p : Nat × Dir} {e : Entry D}
    (h : NodePort B K st n s p e) : NodePort (A ++ B) K st n s (shiftP A.length p) e :=
  ⟨by show (A ++ B)[A.length + p.1]? = some e; rw [getElem?_append_off]; exact h.ent, h.term, h.exts, h.strand⟩

theorem nodePort_drop_left {A B : Table D} {K : Nat} {st : Bool} {n : Node D} {s : Dir} {p : Nat × Dir} {e : Entry D}
    (hp : p.1 < A.length) (h : NodePort (A ++ B) K st n s p e) : NodePort A K st n s p e :=
  ⟨by have := h.ent; rw [List.getElem?_append_left hp] at this; exact this, h.term, h.exts, h.strand⟩

theorem nodePort_drop_right {A B : Table D} {K : Nat} {st : Bool} {n : Node D} {s : Dir} {p : Nat × Dir} {e : Entry D}
    (h : NodePort (A ++ B) K st n s (shiftP A.length p) e) : NodePort B K st n s p e :=
  ⟨by have := h.ent; show B[p.1]? = some e; rw [← getElem?_append_off A B]; exact this, h.term, h.exts, h.strand⟩

theorem conn_map (l1 l2 : Walk.Link) (f : Nat → Nat) (h : ∀ z z', Walk.Rel l1 z z' → Walk.Rel l2 (f z) (f z')) (x y : Nat)
    (hc : Walk.Conn l1 x y) : Walk.Conn l2 (f x) (f y) := by
  induction hc with
  | refl => exact Walk.Conn.refl _
  | step _ r ih => exact Walk.Conn.step ih (h _ _ r)

theorem linkedFrom_map (l1 l2 : Walk.Link) (f : Nat × Dir → Nat × Dir) (hf2 : ∀ p, (f p).2 = p.2)
    (h : ∀ a b, l1 a.1 a.2 = some b → l2 (f a).1 (f a).2 = some (f b)) :
    ∀ (cs : List (Nat × Dir)) (x : Nat × Dir), LinkedFrom l1 x.1 x.2 cs → LinkedFrom l2 (f x).1 (f x).2 (cs.map f) := by
  intro cs
  induction cs with
  | nil => intro x _; trivial
  | cons c t ih =>
    intro x hx
    obtain ⟨c1, c2⟩ := c
    obtain ⟨h1, h2⟩ := hx
    have := h x (c1, c2) h1
    exact ⟨this, ih (c1, c2) h2⟩

theorem ochain_map (l1 l2 : Walk.Link) (f : Nat × Dir → Nat × Dir) (hf2 : ∀ p, (f p).2 = p.2)
    (h : ∀ a b, l1 a.1 a.2 = some b → l2 (f a).1 (f a).2 = some (f b)) (cs : List (Nat × Dir)) (hc : OChain l1 cs) :
    OChain l2 (cs.map f) := by
  cases cs with
  | nil => trivial
  | cons c t => exact linkedFrom_map l1 l2 f hf2 h t c hc

/-- **concatenation of ported graphs** over the two halves of a well-formed table -/
theorem pgraph_append {A B : Table D} {K : Nat} {st : Bool} {join0 : D → D → Bool} (wf : WF (A ++ B) K st)
    {nodesA nodesB : List (Node D)} {portA portB : Nat → Dir → Nat × Dir} {memA memB : Nat → List Nat} {lkA lkB : Walk.Link}
    (pa : PGraph A K st join0 nodesA portA memA lkA) (pb : PGraph B K st join0 nodesB portB memB lkB) :
    PGraph (A ++ B) K st join0 (nodesA ++ nodesB)
      (fun i s => if i < nodesA.length then portA i s else shiftP A.length (portB (i - nodesA.length) s))
      (fun i => if i < nodesA.length then memA i else (memB (i - nodesA.length)).map (A.length + ·))
      (fun x d => if x < A.length then lkA x d else (lkB (x - A.length) d).map (shiftP A.length)) := by
  have hA : ∀ (i : Nat) (n : Node D), (nodesA ++ nodesB)[i]? = some n → i < nodesA.length → nodesA[i]? = some n := by
    intro i n h hi; rw [List.getElem?_append_left hi] at h; exact h
  have hB : ∀ (i : Nat) (n : Node D), (nodesA ++ nodesB)[i]? = some n → ¬ i < nodesA.length →
      nodesB[i - nodesA.length]? = some n ∧ i - nodesA.length < nodesB.length := by
    intro i n h hi
    rw [List.getElem?_append_right (by omega)] at h
    exact ⟨h, (List.getElem?_eq_some_iff.mp h).1⟩
  have hlenAB : (nodesA ++ nodesB).length = nodesA.length + nodesB.length := List.length_append
  refine ⟨?_, ?_, ?_, ?_, ?_, ?_, ?_, ?_, ?_, ?_, ?_, ?_, ?_, ?_⟩
  · intro i n h
    by_cases hi : i < nodesA.length
    · exact pa.len i n (hA i n h hi)
    · exact pb.len _ n (hB i n h hi).1
  · intro i n s h
    by_cases hi : i < nodesA.length
    · obtain ⟨e, np⟩ := pa.np i n s (hA i n h hi)
      simp only [hi, if_true]
      exact ⟨e, nodePort_lift_left np⟩
    · obtain ⟨e, np⟩ := pb.np _ n s (hB i n h hi).1
      simp only [hi, if_false]
      exact ⟨e, nodePort_lift_right np⟩
  · intro i n s e h hnp hst hrc
    by_cases hi : i < nodesA.length
    · simp only [hi, if_true] at hnp ⊢
      have hp : (portA i s).1 < A.length := pa.inRange i hi _ (pa.portMem i s hi)
      exact pa.pal i n s e (hA i n h hi) (nodePort_drop_left hp hnp) hst hrc
    · simp only [hi, if_false] at hnp ⊢
      obtain ⟨h1, h2, h3⟩ := pb.pal _ n s e (hB i n h hi).1 (nodePort_drop_right hnp) hst hrc
      refine ⟨h1, h2, fun t => ?_⟩
      rw [h3 t]; rfl
  · intro i n h
    by_cases hi : i < nodesA.length
    · simp only [hi, if_true]
      rw [pa.keys i n (hA i n h hi)]
      apply List.map_congr_left
      intro z hz
      exact (keyOf_append_left A B z (pa.inRange i hi z hz)).symm
    · simp only [hi, if_false]
      rw [pb.keys _ n (hB i n h hi).1, List.map_map]
      apply List.map_congr_left
      intro z _
      exact (keyOf_append_right A B z).symm
  · intro i hi
    rw [hlenAB] at hi
    by_cases hiA : i < nodesA.length
    · simp only [hiA, if_true]; exact pa.nodupM i hiA
    · simp only [hiA, if_false]
      apply nodup_map_inj_on _ _ (pb.nodupM _ (by omega))
      intro a _ b _ hab; omega
  · intro i j hi hj z h1 h2
    rw [hlenAB] at hi hj
    by_cases hiA : i < nodesA.length
    · simp only [hiA, if_true] at h1
      have hz : z < A.length := pa.inRange i hiA z h1
      by_cases hjA : j < nodesA.length
      · simp only [hjA, if_true] at h2
        exact pa.disjoint i j hiA hjA z h1 h2
      · simp only [hjA, if_false] at h2
        obtain ⟨w, _, hw⟩ := List.mem_map.mp h2
        omega
    · simp only [hiA, if_false] at h1
      obtain ⟨w1, hw1, e1⟩ := List.mem_map.mp h1
      by_cases hjA : j < nodesA.length
      · simp only [hjA, if_true] at h2
        have hz : z < A.length := pa.inRange j hjA z h2
        omega
      · simp only [hjA, if_false] at h2
        obtain ⟨w2, hw2, e2⟩ := List.mem_map.mp h2
        have : w1 = w2 := by omega
        subst this
        have := pb.disjoint (i - nodesA.length) (j - nodesA.length) (by omega) (by omega) w1 hw1 hw2
        omega
  · intro i hi z hz
    rw [hlenAB] at hi
    rw [List.length_append]
    by_cases hiA : i < nodesA.length
    · simp only [hiA, if_true] at hz
      have := pa.inRange i hiA z hz; omega
    · simp only [hiA, if_false] at hz
      obtain ⟨w, hw, e⟩ := List.mem_map.mp hz
      have := pb.inRange _ (by omega) w hw
      omega
  · intro z hz
    rw [List.length_append] at hz
    by_cases hzA : z < A.length
    · obtain ⟨i, hi, hzi⟩ := pa.cover z hzA
      exact ⟨i, by rw [hlenAB]; omega, by simp only [hi, if_true]; exact hzi⟩
    · obtain ⟨j, hj, hzj⟩ := pb.cover (z - A.length) (by omega)
      refine ⟨nodesA.length + j, by rw [hlenAB]; omega, ?_⟩
      have : ¬ (nodesA.length + j < nodesA.length) := by omega
      simp only [this, if_false]
      rw [show nodesA.length + j - nodesA.length = j by omega]
      exact List.mem_map.mpr ⟨z - A.length, hzj, by omega⟩
  · intro i s hi
    rw [hlenAB] at hi
    by_cases hiA : i < nodesA.length
    · simp only [hiA, if_true]; exact pa.portMem i s hiA
    · simp only [hiA, if_false]
      exact List.mem_map.mpr ⟨_, pb.portMem _ s (by omega), rfl⟩
  · intro i hi
    rw [hlenAB] at hi
    by_cases hiA : i < nodesA.length
    · simp only [hiA, if_true]; exact pa.portNe i hiA
    · simp only [hiA, if_false]
      intro h
      apply pb.portNe _ (by omega : i - nodesA.length < nodesB.length)
      have h1 := congrArg Prod.fst h; have h2 := congrArg Prod.snd h
      simp only [shiftP] at h1 h2
      exact Prod.ext (by omega) h2
  · intro x d y d' h
    by_cases hx : x < A.length
    · simp only [hx, if_true] at h
      exact linkOf_append_left (K := K) join0 x d y d' (pa.lkSub _ _ _ _ h)
    · simp only [hx, if_false] at h
      cases hb : lkB (x - A.length) d with
      | none => rw [hb] at h; cases h
      | some q =>
        rw [hb] at h
        simp only [Option.map_some, Option.some.injEq] at h
        obtain ⟨q1, q2⟩ := q
        have hq := pb.lkSub _ _ _ _ hb
        have := linkOf_append_right wf join0 (x - A.length) d q1 q2 hq
        rw [show A.length + (x - A.length) = x by omega] at this
        rw [this, ← h]; rfl
  · intro i hi w hw δ hL hR
    rw [hlenAB] at hi
    by_cases hiA : i < nodesA.length
    · simp only [hiA, if_true] at hw hL hR ⊢
      have hwA : w < A.length := pa.inRange i hiA w hw
      obtain ⟨w', d', h1, h2, h3, h4⟩ := pa.inner i hiA w hw δ hL hR
      exact ⟨w', d', by simp only [hwA, if_true]; exact h1, h2, h3, h4⟩
    · simp only [hiA, if_false] at hw hL hR ⊢
      obtain ⟨w0, hw0, e0⟩ := List.mem_map.mp hw
      have hwA : ¬ w < A.length := by omega
      have e1 : w - A.length = w0 := by omega
      obtain ⟨w', d', h1, h2, h3, h4⟩ := pb.inner _ (by omega) w0 hw0 δ
        (fun h => hL (by rw [← h, ← e0]; rfl)) (fun h => hR (by rw [← h, ← e0]; rfl))
      refine ⟨A.length + w', d', ?_, List.mem_map.mpr ⟨w', h2, rfl⟩, ?_, ?_⟩
      · simp only [hwA, if_false, e1, h1]; rfl
      · intro h; apply h3
        have := congrArg Prod.fst h; have h' := congrArg Prod.snd h
        simp only [shiftP] at this h'
        exact Prod.ext (by simp only; omega) h'
      · intro h; apply h4
        have := congrArg Prod.fst h; have h' := congrArg Prod.snd h
        simp only [shiftP] at this h'
        exact Prod.ext (by simp only; omega) h'

  · intro i hi x hx y hy
    rw [hlenAB] at hi
    by_cases hiA : i < nodesA.length
    · simp only [hiA, if_true] at hx hy
      have hc := pa.connM i hiA x hx y hy
      apply conn_map lkA _ (fun z => z) _ x y hc
      intro z z' ⟨d, d', hr⟩
      obtain ⟨ez, _, _, f⟩ := linkOf_inv A st join0 (pa.lkSub _ _ _ _ hr)
      have hz : z < A.length := (List.getElem?_eq_some_iff.mp f.hx).1
      exact ⟨d, d', by simp only [hz, if_true]; exact hr⟩
    · simp only [hiA, if_false] at hx hy
      obtain ⟨x0, hx0, rfl⟩ := List.mem_map.mp hx
      obtain ⟨y0, hy0, rfl⟩ := List.mem_map.mp hy
      have hc := pb.connM _ (by omega) x0 hx0 y0 hy0
      apply conn_map lkB _ (fun z => A.length + z) _ x0 y0 hc
      intro z z' ⟨d, d', hr⟩
      refine ⟨d, d', ?_⟩
      have hz : ¬ (A.length + z < A.length) := by omega
      simp only [hz, if_false]
      rw [show A.length + z - A.length = z by omega, hr]; rfl

  · intro i hi
    rw [hlenAB] at hi
    by_cases hiA : i < nodesA.length
    · simp only [hiA, if_true]
      obtain ⟨cs, h1, h2, h3, h4⟩ := pa.chain i hiA
      refine ⟨cs, h1, ?_, h3, h4⟩
      have := ochain_map lkA (fun x d => if x < A.length then lkA x d else (lkB (x - A.length) d).map (shiftP A.length)) (fun p => p) (fun _ => rfl) (fun a b hab => by
        obtain ⟨ez, _, _, f⟩ := linkOf_inv A st join0 (pa.lkSub _ _ _ _ hab)
        have hz : a.1 < A.length := (List.getElem?_eq_some_iff.mp f.hx).1
        show (if a.1 < A.length then lkA a.1 a.2 else _) = some b
        rw [if_pos hz]; exact hab) cs h2
      simpa using this
    · simp only [hiA, if_false]
      obtain ⟨cs, h1, h2, h3, h4⟩ := pb.chain _ (by omega : i - nodesA.length < nodesB.length)
      refine ⟨cs.map (shiftP A.length), ?_, ?_, ?_, ?_⟩
      · rw [List.map_map, ← h1, List.map_map]; rfl
      · exact ochain_map lkB (fun x d => if x < A.length then lkA x d else (lkB (x - A.length) d).map (shiftP A.length)) (shiftP A.length) (fun _ => rfl) (fun a b hab => by
          have hz : ¬ (A.length + a.1 < A.length) := by omega
          show (if A.length + a.1 < A.length then _ else (lkB (A.length + a.1 - A.length) a.2).map (shiftP A.length)) = some (shiftP A.length b)
          rw [if_neg hz, show A.length + a.1 - A.length = a.1 by omega, hab]; rfl) cs h2
      · rw [List.head?_map]
        cases hh : cs.head? with
        | none => rw [hh] at h3; cases h3
        | some c =>
          rw [hh] at h3
          simp only [Option.map_some, Option.some.injEq] at h3 ⊢
          rw [← h3]; rfl
      · rw [List.getLast?_map, h4]; rfl

/-- shard by shard, the nodes are ported into the shard's table -/
def AllPorted (K : Nat) (st : Bool) (join0 : D → D → Bool) : List (Table D) → List (List (Node D)) → Prop
  | [], [] => True
  | T :: Ts, N :: Ns => (∃ port mem lk, PGraph T K st join0 N port mem lk) ∧ AllPorted K st join0 Ts Ns
  | _, _ => False

theorem pgraph_nil (K : Nat) (st : Bool) (join0 : D → D → Bool) :
    PGraph ([] : Table D) K st join0 [] (fun _ s => (0, s)) (fun _ => []) (fun _ _ => none) := by
  refine ⟨?_, ?_, ?_, ?_, ?_, ?_, ?_, ?_, ?_, ?_, ?_, ?_, ?_, ?_⟩ <;> intros <;> simp_all

/-- **the shards' graphs, side by side, are ported into the concatenated table** -/
theorem pgraph_flatten (K : Nat) (st : Bool) (join0 : D → D → Bool) :
    ∀ (Ts : List (Table D)) (Ns : List (List (Node D))), AllPorted K st join0 Ts Ns → WF Ts.flatten K st →
      ∃ port mem lk, PGraph Ts.flatten K st join0 Ns.flatten port mem lk := by
  intro Ts
  induction Ts with
  | nil =>
    intro Ns h _
    cases Ns with
    | nil => exact ⟨_, _, _, pgraph_nil K st join0⟩
    | cons _ _ => exact absurd h (by simp [AllPorted])
  | cons T Ts ih =>
    intro Ns h wf
    cases Ns with
    | nil => exact absurd h (by simp [AllPorted])
    | cons N Ns =>
      obtain ⟨⟨pa, ma, la, hpa⟩, hrest⟩ : (∃ port mem lk, PGraph T K st join0 N port mem lk) ∧ AllPorted K st join0 Ts Ns := h
      rw [List.flatten_cons] at wf ⊢
      obtain ⟨pb, mb, lb, hpb⟩ := ih Ns hrest (wf_append_right wf)
      rw [List.flatten_cons]
      exact ⟨_, _, _, pgraph_append wf hpa hpb⟩

end Compress
