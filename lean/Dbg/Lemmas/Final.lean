import Dbg.Lemmas.SymProof
import Dbg.Lemmas.CompressProofs
namespace Compress
open Walk (Dir)
variable {D : Type}

/-- C01 (ids) + C02 for the string-level model: on a well-formed reciprocal table, the id-nodes produced by the
    seed-and-walk loop over `linkOf T` partition the table and are exactly the connected components of the
    good-link relation; and the concrete `walkC` (the code's control flow) computes exactly those walks. -/
theorem compress_components_concrete {T : Table D} {K : Nat} {st : Bool} {join : D → D → Bool}
    (wf : WF T K st) (hes : ExtSym T st) (hj : ∀ a b, join a b = join b a) :
    let link := linkOf T st join
    let ns := Walk.compress link (List.range T.length) (List.range T.length)
    ns.flatten.Nodup ∧ (∀ z, z ∈ ns.flatten ↔ z < T.length) ∧
    (∀ x y, x < T.length → (Walk.Conn link x y ↔ ∃ N ∈ ns, x ∈ N ∧ y ∈ N)) ∧
    (∀ avail x d, ∃ e, walkC T st join avail x d =
        some ((Walk.walk link avail x d).1, e, (Walk.walk link avail x d).2)) := by
  intro link ns
  have hs := linkOf_sym wf hes hj
  have hrange : ∀ x d y d', link x d = some (y, d') → y < T.length := by
    intro x d y d' h
    obtain ⟨ex, ey, b, f⟩ := linkOf_inv T st join h
    have := f.hy
    rw [List.getElem?_eq_some_iff] at this
    exact this.1
  obtain ⟨h1, h2, h3⟩ := Walk.compress_components link hs T.length hrange
  exact ⟨h1, h2, h3, walkC_refines T st join (noPanic wf hes)⟩

end Compress
