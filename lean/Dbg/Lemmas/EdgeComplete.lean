import Dbg.Lemmas.EndPorts
import Dbg.Lemmas.GraphLink
/-! `find_link` is complete on the graphs `compress_kmers` builds: an extension recorded on a node side whose target
    k-mer is in the table always resolves to a node. -/
namespace Compress
open Walk (Dir rm)
open Filter (has hasExt_iff ExtSym2)
open Graph (termKmer findLink searchKmer)
variable {D : Type}

theorem side_parity (s p2 s' : Dir) (f : Bool) :
    s' = condFlip s.flip (xor (xor (decide (condFlip p2.flip f ≠ s')) f) (decide (p2 ≠ s))) := by
  cases s <;> cases p2 <;> cases s' <;> cases f <;> rfl

theorem rcIf_parity (a f o : Bool) (t : Seq) : rcIf a (rcIf f t) = rcIf (xor (xor a f) o) (rcIf o t) := by
  cases a <;> cases f <;> cases o <;> simp [rcIf]

/-- a k-mer that some node carries at the facing end (or, unstranded, reverse-complemented at the same end) is found -/
theorem findLink_isSome (g : Graph.G D) (km : Seq) (dir : Dir) (nd : Node D) (hnd : nd ∈ g.nodes) (c : Bool)
    (hterm : termKmer g.K nd.seq (condFlip dir.flip c) = rcIf c km) (hc : c = true → g.stranded = false) :
    (findLink g km dir).isSome := by
  cases c with
  | false =>
    have h1 : (searchKmer g km dir.flip).isSome := (Graph.searchKmer_complete g km dir.flip).mpr ⟨nd, hnd, hterm⟩
    obtain ⟨idx, hidx⟩ := Option.isSome_iff_exists.mp h1
    unfold findLink
    cases dir with
    | L => have h2 : searchKmer g km .R = some idx := hidx
           simp [h2]
    | R => have h2 : searchKmer g km .L = some idx := hidx
           simp [h2]
  | true =>
    have hst := hc rfl
    have h1 : (searchKmer g (rc km) dir).isSome := (Graph.searchKmer_complete g (rc km) dir).mpr
      ⟨nd, hnd, by simpa [condFlip, rcIf] using hterm⟩
    obtain ⟨idx, hidx⟩ := Option.isSome_iff_exists.mp h1
    unfold findLink
    cases dir with
    | L =>
      simp only
      cases h0 : searchKmer g km .R with
      | some i0 => simp
      | none => simp [hst, hidx]
    | R =>
      simp only
      cases h0 : searchKmer g km .L with
      | some i0 => simp
      | none => simp [hst, hidx]

/-- the target of a node-level extension, seen from the k-mer at the node's port: the node-level target is the k-mer-level
    target, reverse-complemented when the k-mer lies reverse-complemented in the node — so both have the same canonical form -/
theorem node_target {T : Table D} {K : Nat} {st : Bool} (nd : Node D) (s : Dir) (p : Nat × Dir) (ex : Entry D)
    (np : NodePort T K st nd s p ex) (β : Base) :
    extend (termKmer K nd.seq s) β s = rcIf (decide (p.2 ≠ s)) (extend ex.key (if p.2 = s then β else comp β) p.2) ∧
    (canonSt st (extend (termKmer K nd.seq s) β s)).1 = (canonSt st (extend ex.key (if p.2 = s then β else comp β) p.2)).1 := by
  have hterm := np.term
  have htn : extend (termKmer K nd.seq s) β s = rcIf (decide (p.2 ≠ s)) (extend ex.key (if p.2 = s then β else comp β) p.2) := by
    rw [hterm]
    by_cases h : p.2 = s
    · simp [h, rcIf]
    · have hs : s = p.2.flip := by
        cases hh : p.2 <;> cases hs : s <;> simp_all [Dir.flip]
      simp only [h, if_false, ne_eq, not_false_eq_true, decide_true, rcIf, if_true]
      rw [hs]
      have := Filter.extend_comp_flip (rc ex.key) (comp β) p.2
      rw [comp_comp, rc_rc] at this
      exact this
  refine ⟨htn, ?_⟩
  rw [htn]
  by_cases h : p.2 = s
  · simp [h, rcIf]
  · have hst' : st = false := by
      cases st with
      | false => rfl
      | true => exact absurd (np.strand rfl) h
    subst hst'
    simp only [ne_eq, h, not_false_eq_true, decide_true, rcIf, if_true, canonSt, Bool.false_eq_true, if_false]
    exact Filter.minRcFlip_rc_key _

/-- every side of every built node is a k-mer port of the table -/
theorem node_port_exists {T : Table D} {K : Nat} {st : Bool} {join : D → D → Bool} (reduce : D → D → D)
    (wf : WF T K st) (hes : ExtSym T st) (hj : ∀ a b, join a b = join b a)
    (out : List (Node D × List Nat)) (ho : compressKmersC T st join reduce = some out)
    (X : Node D × List Nat) (hX : X ∈ out) (s : Dir) : ∃ p ex, NodePort T K st X.1 s p ex := by
  obtain ⟨provs, hB⟩ := built_of_compress reduce wf hes hj out ho
  obtain ⟨i, hi, hXi⟩ := List.getElem_of_mem hX
  have hXi' : out[i]? = some X := by rw [List.getElem?_eq_getElem hi, hXi]
  obtain ⟨prX, hpX⟩ : ∃ pr, provs[i]? = some pr := ⟨_, List.getElem?_eq_getElem (by rw [hB.len]; exact hi)⟩
  obtain ⟨hltX, _, aX, hbX⟩ := hB.prov i X prX hXi' hpX
  obtain ⟨_, hportsX⟩ := built_node_ports (join := join) reduce wf hes prX.1 prX.2 hltX X.1 X.2 aX hbX
  obtain ⟨ex, npX⟩ := hportsX s
  exact ⟨_, ex, npX⟩

/-- **completeness of `find_link` on built graphs.**  If a node of the graph built from `T` records base `β` on side
    `s` and the canonical form of the k-mer this leads to is a key of `T`, then `find_link` resolves it. -/
theorem findLink_complete {T : Table D} {K : Nat} {st : Bool} {join : D → D → Bool} (reduce : D → D → D)
    (wf : WF T K st) (hes2 : ExtSym2 T st) (hj : ∀ a b, join a b = join b a)
    (out : List (Node D × List Nat)) (ho : compressKmersC T st join reduce = some out)
    (X : Node D × List Nat) (hX : X ∈ out) (s : Dir) (β : Base) (hβ : has X.1.exts s β)
    (y : Nat) (hy : findId T (canonSt st (extend (termKmer K X.1.seq s) β s)).1 = some y) :
    (findLink (⟨K, out.map (·.1), st⟩ : Graph.G D) (extend (termKmer K X.1.seq s) β s) s).isSome := by
  have hes := hes2.toExtSym
  obtain ⟨provs, hB⟩ := built_of_compress reduce wf hes hj out ho
  obtain ⟨i, hi, hXi⟩ := List.getElem_of_mem hX
  have hXi' : out[i]? = some X := by rw [List.getElem?_eq_getElem hi, hXi]
  obtain ⟨prX, hpX⟩ : ∃ pr, provs[i]? = some pr := ⟨_, List.getElem?_eq_getElem (by rw [hB.len]; exact hi)⟩
  obtain ⟨hltX, _, aX, hbX⟩ := hB.prov i X prX hXi' hpX
  obtain ⟨_, hportsX⟩ := built_node_ports (join := join) reduce wf hes prX.1 prX.2 hltX X.1 X.2 aX hbX
  obtain ⟨ex, npX⟩ := hportsX s
  generalize hp : nodePort T st join prX.1 prX.2 s = p at npX
  -- the k-mer level base and target
  have hb := (npX.exts β).mp hβ
  have hterm := npX.term
  have hst : st = true → p.2 = s := npX.strand
  obtain ⟨htn, hcan⟩ := node_target X.1 s p ex npX β
  rw [hcan] at hy
  rw [← hp] at hb hy npX
  obtain ⟨j, Y, prY, s', hYj, hpY, hport⟩ := ext_target_port reduce wf hes2 hj out provs hB i X prX hXi' hpX s ex npX.ent
    (if (nodePort T st join prX.1 prX.2 s).2 = s then β else comp β) hb y hy
  rw [hp] at hport hb hy
  obtain ⟨hltY, _, aY, hbY⟩ := hB.prov j Y prY hYj hpY
  obtain ⟨_, hportsY⟩ := built_node_ports (join := join) reduce wf hes prY.1 prY.2 hltY Y.1 Y.2 aY hbY
  obtain ⟨ey, npY⟩ := hportsY s'
  rw [hport] at npY
  obtain ⟨ey', hey', hkey⟩ := findId_some hy
  have : ey' = ey := by have := npY.ent; simp only at this; rw [hey'] at this; exact Option.some.inj this
  subst this
  generalize hb0 : (if p.2 = s then β else comp β) = b at *
  generalize hf : (canonSt st (extend ex.key b p.2)).2 = f at *
  have hkey' : ey'.key = rcIf f (extend ex.key b p.2) := by rw [hkey, canonSt_rcIf, hf]
  -- the terminal k-mer of `Y` on side `s'`
  have htY : termKmer K Y.1.seq s' = rcIf (decide (condFlip p.2.flip f ≠ s')) ey'.key := by
    have := npY.term
    simp only at this
    rw [this]
    by_cases h : condFlip p.2.flip f = s' <;> simp [h, rcIf]
  have hside := side_parity s p.2 s' f
  generalize hc : xor (xor (decide (condFlip p.2.flip f ≠ s')) f) (decide (p.2 ≠ s)) = c at hside
  have hfin : termKmer K Y.1.seq (condFlip s.flip c) = rcIf c (extend (termKmer K X.1.seq s) β s) := by
    rw [← hside, htY, hkey', htn, rcIf_parity _ f (decide (p.2 ≠ s)), hc]
  have hYm : Y.1 ∈ out.map (·.1) := List.mem_map_of_mem (List.mem_of_getElem? hYj)
  apply findLink_isSome (⟨K, out.map (·.1), st⟩ : Graph.G D) _ s Y.1 hYm c hfin
  intro hct
  show st = false
  cases st with
  | false => rfl
  | true =>
    exfalso
    have h1 : p.2 = s := hst rfl
    have h2 : f = false := by rw [← hf]; rfl
    have h3 : condFlip p.2.flip f = s' := by
      have := npY.strand rfl
      simpa using this
    rw [← hc, h2] at hct
    rw [h2, h1] at h3
    simp [h1] at hct
    exact hct h3

/-- **soundness of `find_link` w.r.t. the table**: a k-mer that resolves to a node of the built graph is, in canonical
    form, a key of the table -/
theorem findLink_in_table {T : Table D} {K : Nat} {st : Bool} {join : D → D → Bool} (reduce : D → D → D)
    (wf : WF T K st) (hes : ExtSym T st) (hj : ∀ a b, join a b = join b a)
    (out : List (Node D × List Nat)) (ho : compressKmersC T st join reduce = some out)
    (km : Seq) (dir : Dir) (h : (findLink (⟨K, out.map (·.1), st⟩ : Graph.G D) km dir).isSome) :
    (canonSt st km).1 ∈ T.map (·.key) := by
  obtain ⟨⟨v, s', f⟩, hl⟩ := Option.isSome_iff_exists.mp h
  obtain ⟨nd, hv, hterm, _, hf1⟩ := Graph.findLink_sound _ _ _ _ _ _ hl
  obtain ⟨out', ho', hm, hw⟩ := compressLoopC_spec (join := join) reduce wf hes (List.range T.length) (List.range T.length)
    (fun i hi => List.mem_range.mp hi)
  have : out' = out := by
    have h1 : compressKmersC T st join reduce = some out' := ho'
    rw [ho] at h1; exact (Option.some.inj h1).symm
  subst this
  have hv' : (out'.map (·.1))[v]? = some nd := hv
  rw [List.getElem?_map] at hv'
  cases hY : out'[v]? with
  | none => rw [hY] at hv'; cases hv'
  | some Y =>
    rw [hY] at hv'
    have hnd : nd = Y.1 := by simpa using hv'.symm
    subst hnd
    have hYm : Y ∈ out' := List.mem_of_getElem? hY
    obtain ⟨hwin, hlen⟩ := hw Y hYm
    have hmem : (canonSt st (termKmer K Y.1.seq s')).1 ∈ Y.2.map (keyOf T) := by
      rw [← hwin]
      exact List.mem_map_of_mem (term_mem_windows K Y.1.seq wf.kpos hlen s')
    have hcan : (canonSt st (termKmer K Y.1.seq s')).1 = (canonSt st km).1 := by
      have ht : termKmer K Y.1.seq s' = if f then rc km else km := hterm
      rw [ht]
      cases f with
      | false => rfl
      | true =>
        have hst : st = false := (hf1 rfl).2
        subst hst
        simp only [if_true, canonSt, Bool.false_eq_true, if_false]
        exact Filter.minRcFlip_rc_key km
    rw [hcan] at hmem
    obtain ⟨id, hid, hk⟩ := List.mem_map.mp hmem
    obtain ⟨hnd', hcov, _⟩ := compress_components_concrete wf hes hj
    have hlt : id < T.length := by
      apply (hcov id).mp
      rw [← hm]
      exact List.mem_flatten.mpr ⟨Y.2, List.mem_map_of_mem hYm, hid⟩
    rw [← hk]
    unfold keyOf
    rw [List.getElem?_eq_getElem hlt]
    exact List.mem_map_of_mem (List.getElem_mem hlt)

theorem findId_isSome_of_mem (T : Table D) (k : Seq) (h : k ∈ T.map (·.key)) : ∃ y, findId T k = some y := by
  unfold findId
  apply Option.isSome_iff_exists.mp
  rw [List.findIdx?_isSome, List.any_eq_true]
  obtain ⟨e, he, hk⟩ := List.mem_map.mp h
  exact ⟨e, he, by simp [hk]⟩

/-- **edges = recorded extensions towards present k-mers.**  In the graph `compress_kmers` builds from a well-formed
    reciprocal table, a recorded node extension resolves through `find_link` exactly when the canonical form of the
    k-mer it leads to is a key of the table. -/
theorem edge_iff_target_present {T : Table D} {K : Nat} {st : Bool} {join : D → D → Bool} (reduce : D → D → D)
    (wf : WF T K st) (hes2 : ExtSym2 T st) (hj : ∀ a b, join a b = join b a)
    (out : List (Node D × List Nat)) (ho : compressKmersC T st join reduce = some out)
    (X : Node D × List Nat) (hX : X ∈ out) (s : Dir) (β : Base) (hβ : has X.1.exts s β) :
    (findLink (⟨K, out.map (·.1), st⟩ : Graph.G D) (extend (termKmer K X.1.seq s) β s) s).isSome ↔
      (canonSt st (extend (termKmer K X.1.seq s) β s)).1 ∈ T.map (·.key) := by
  constructor
  · exact findLink_in_table reduce wf hes2.toExtSym hj out ho _ s
  · intro h
    obtain ⟨y, hy⟩ := findId_isSome_of_mem T _ h
    exact findLink_complete reduce wf hes2 hj out ho X hX s β hβ y hy

end Compress
