import Dbg.Lemmas.Recompress
import Dbg.Lemmas.Beam
/-! `is_compressed`: on a ported graph over a closed table in which no good link joins the end ports of two different
    nodes, the crate's own maximality check finds nothing to merge. -/
namespace Compress
open Walk (Dir)
open Filter (has ExtSym2)
open Graph (G findLink findEdges termKmer isCompressedAt isCompressed palSingle base4)
variable {D : Type}

theorem filter_has_length : ∀ n : Fin 16, (base4.filter (fun b => nibHas n.val b)).length = nibCnt n.val := by decide

theorem filterMap_length_filter {α β} (F : α → Option β) (G : α → Bool) : ∀ (l : List α), (∀ a ∈ l, (F a).isSome = G a) →
    (l.filterMap F).length = (l.filter G).length := by
  intro l
  induction l with
  | nil => intro _; rfl
  | cons a t ih =>
    intro h
    have ha := h a (List.mem_cons_self ..)
    have iht := ih (fun x hx => h x (List.mem_cons_of_mem _ hx))
    rw [List.filterMap_cons, List.filter_cons]
    cases hF : F a with
    | none =>
      rw [hF] at ha
      have : G a = false := by simpa using ha.symm
      simp [this, iht]
    | some v =>
      rw [hF] at ha
      have : G a = true := by simpa using ha.symm
      simp [this, iht]

/-- in a ported graph over a closed table every recorded extension of a node resolves: the edge list of a side has as many
    entries as the side has extensions, each the link of an extension base -/
theorem PGraph.findEdges_spec {T : Table D} {K : Nat} {st : Bool} {join0 : D → D → Bool} {nodes : List (Node D)}
    {port : Nat → Dir → Nat × Dir} {members : Nat → List Nat} {lk : Walk.Link}
    (pg : PGraph T K st join0 nodes port members lk) (wf : WF T K st) (hes2 : ExtSym2 T st) (hcl : Closed T st)
    (hx8 : ∀ (i : Nat) (n : Node D), nodes[i]? = some n → n.exts.val < 256)
    (i : Nat) (n : Node D) (hi : nodes[i]? = some n) (d : Dir) (es : List (Nat × Dir × Bool))
    (he : findEdges (⟨K, nodes, st⟩ : G D) i d = some es) :
    es.length = n.exts.numExtDir d ∧
      ∀ e ∈ es, ∃ b, has n.exts d b ∧ findLink (⟨K, nodes, st⟩ : G D) (extend (termKmer K n.seq d) b d) d = some e := by
  unfold findEdges at he
  have hi' : (⟨K, nodes, st⟩ : G D).nodes[i]? = some n := hi
  rw [hi'] at he
  simp only [Option.some.injEq] at he
  subst he
  have hres : ∀ b, has n.exts d b → (findLink (⟨K, nodes, st⟩ : G D) (extend (termKmer K n.seq d) b d) d).isSome = true := by
    intro b hb
    rw [pg.edge_iff wf hes2 i n hi d b hb]
    obtain ⟨ex, np⟩ := pg.np i n d hi
    have hbx := (np.exts b).mp hb
    obtain ⟨y, hy⟩ := hcl _ ex _ _ np.ent hbx
    obtain ⟨_, hcan⟩ := node_target n d (port i d) ex np b
    rw [hcan]
    obtain ⟨ey, hey, hk⟩ := findId_some hy
    rw [← hk]; exact List.mem_map_of_mem (List.mem_of_getElem? hey)
  constructor
  · rw [filterMap_length_filter _ (fun b => nibHas (n.exts.dirBits d) b) base4 (fun b _ => by
      by_cases hh : n.exts.hasExt d b.val = true
      · rw [if_pos hh]
        have hb := (Filter.hasExt_iff n.exts d b).mp hh
        rw [hres b hb]; exact hb.symm
      · rw [if_neg hh]
        have : ¬ has n.exts d b := fun h => hh ((Filter.hasExt_iff n.exts d b).mpr h)
        unfold has at this
        simp only [Option.isSome_none]
        cases hnb : nibHas (n.exts.dirBits d) b
        · rfl
        · exact absurd hnb this)]
    rw [numExtDir_eq]
    exact filter_has_length ⟨n.exts.dirBits d, dirBits_lt _ (hx8 i n hi) d⟩
  · intro e hem
    obtain ⟨b, _, hb⟩ := List.mem_filterMap.mp hem
    by_cases hh : n.exts.hasExt d b.val = true
    · rw [if_pos hh] at hb
      exact ⟨b, (Filter.hasExt_iff n.exts d b).mp hh, hb⟩
    · rw [if_neg hh] at hb; cases hb

/-- **an unbranched edge that `is_compressed` would report is a good link between end ports** -/
theorem PGraph.isCompressedAt_link {T : Table D} {K : Nat} {st : Bool} {join0 : D → D → Bool} {nodes : List (Node D)}
    {port : Nat → Dir → Nat × Dir} {members : Nat → List Nat} {lk : Walk.Link}
    (pg : PGraph T K st join0 nodes port members lk) (wf : WF T K st) (hes2 : ExtSym2 T st) (hcl : Closed T st)
    (hx8 : ∀ (i : Nat) (n : Node D), nodes[i]? = some n → n.exts.val < 256)
    (i : Nat) (d : Dir) (r : Nat × Nat)
    (h : isCompressedAt (⟨K, nodes, st⟩ : G D) (fun _ _ => true) i d = some r) :
    ∃ (j : Nat) (o : Dir), j < nodes.length ∧ i < nodes.length ∧ i ≠ j ∧
      linkOf T st (fun _ _ => true) (port i d).1 (port i d).2 = some ((port j o.flip).1, (port j o.flip).2.flip) := by
  unfold isCompressedAt at h
  cases hn : (⟨K, nodes, st⟩ : G D).nodes[i]? with
  | none => rw [hn] at h; cases h
  | some n =>
    cases he : findEdges (⟨K, nodes, st⟩ : G D) i d with
    | none => rw [hn, he] at h; cases h
    | some es =>
      rw [hn, he] at h
      match es, he, h with
      | [], _, h => cases h
      | _ :: _ :: _, _, h => cases h
      | [e], he, h =>
        simp only at h
        cases hnx : (⟨K, nodes, st⟩ : G D).nodes[e.1]? with
        | none => rw [hnx] at h; cases h
        | some nx =>
          cases he2 : findEdges (⟨K, nodes, st⟩ : G D) e.1 e.2.1 with
          | none => rw [hnx, he2] at h; cases h
          | some es2 =>
            rw [hnx, he2] at h
            match es2, he2, h with
            | [], _, h => cases h
            | _ :: _ :: _, _, h => cases h
            | [e2], he2, h =>
              simp only at h
              by_cases hskip : (palSingle (⟨K, nodes, st⟩ : G D) n || palSingle (⟨K, nodes, st⟩ : G D) nx || i == e.1) = true
              · rw [if_pos hskip] at h; cases h
              · rw [if_neg hskip] at h
                simp only [Bool.or_eq_true, not_or, Bool.not_eq_true, beq_eq_false_iff_ne] at hskip
                obtain ⟨⟨hp1, hp2⟩, hne⟩ := hskip
                have hn' : nodes[i]? = some n := hn
                have hnx' : nodes[e.1]? = some nx := hnx
                have hilt : i < nodes.length := (List.getElem?_eq_some_iff.mp hn').1
                have hjlt : e.1 < nodes.length := (List.getElem?_eq_some_iff.mp hnx').1
                obtain ⟨hl1, hm1⟩ := pg.findEdges_spec wf hes2 hcl hx8 i n hn' d [e] he
                obtain ⟨hl2, _⟩ := pg.findEdges_spec wf hes2 hcl hx8 e.1 nx hnx' e.2.1 [e2] he2
                obtain ⟨b, hb, hfl⟩ := hm1 e (by simp)
                have hc : n.exts.numExtDir d = 1 := by simpa using hl1.symm
                have hc2 : nx.exts.numExtDir e.2.1 = 1 := by simpa using hl2.symm
                have hu : n.exts.uniqueExt d = some b := by
                  rw [uniqueExt_eq, ← numExtDir_eq, hc]
                  simp only [bne_self_eq_false, Bool.false_eq_true, if_false]
                  exact (nib_table ⟨n.exts.dirBits d, dirBits_lt _ (hx8 i n hn') d⟩ b).1 (by rw [← numExtDir_eq]; exact hc) hb
                have hsp : (!st && n.seq.length == K && isPalindrome (n.seq.take K)) = false := by
                  unfold palSingle at hp1
                  simp only at hp1
                  cases st <;> simp_all
                obtain ⟨nn, hY, hterm, hf0, hf1⟩ := Graph.findLink_sound _ _ _ _ _ _ hfl
                have hnn : nn = nx := by
                  have : nodes[e.1]? = some nn := hY
                  rw [hnx'] at this; exact (Option.some.inj this).symm
                subst hnn
                have hcons : CompressGraph.consistentDir d e.2.1 e.2.2 = true := by
                  cases hf : e.2.2 with
                  | false => rw [hf0 hf]; cases d <;> rfl
                  | true => rw [(hf1 hf).1]; cases d <;> rfl
                have hstat := CompressGraph.staticNode_intro (⟨K, nodes, st⟩ : G D) st (fun _ _ => true) i d n nn b e.1 e.2.1 e.2.2 hn
                  hc hsp hu hfl hnx hcons
                -- the entered k-mer is not a palindrome: otherwise its node is a palindromic single-k-mer node
                have hbad : ((!st && isPalindrome (extend (termKmer K n.seq d) b d)) || !((fun _ _ => true) n.data nn.data)) = false := by
                  simp only [Bool.not_true, Bool.or_false]
                  cases hst : st with
                  | true => rfl
                  | false =>
                    subst hst
                    simp only [Bool.not_false, Bool.true_and]
                    cases hpl : isPalindrome (extend (termKmer K n.seq d) b d) with
                    | false => rfl
                    | true =>
                      exfalso
                      have hrc : rc (extend (termKmer K n.seq d) b d) = extend (termKmer K n.seq d) b d := by
                        unfold isPalindrome at hpl
                        simp only [Bool.and_eq_true, beq_iff_eq] at hpl
                        exact hpl.2.symm
                      have hK : (⟨K, nodes, false⟩ : G D).K = K := rfl
                      rw [hK] at hterm
                      have hterm' : termKmer K nn.seq e.2.1 = extend (termKmer K n.seq d) b d := by
                        rw [hterm]; split
                        · exact hrc
                        · rfl
                      have hlenK := pg.palEnd e.1 nn e.2.1 rfl hnx' (by rw [hterm']; exact hrc)
                      have hseq : nn.seq.take K = nn.seq := by rw [← hlenK, List.take_length]
                      have : palSingle (⟨K, nodes, false⟩ : G D) nn = true := by
                        unfold palSingle
                        simp only [hlenK, beq_self_eq_true, Bool.true_and]
                        rw [hseq]
                        have : termKmer K nn.seq e.2.1 = nn.seq := termKmer_single K nn.seq hlenK e.2.1
                        rw [← this, hterm']; exact hpl
                      rw [this] at hp2; cases hp2
                have hK : (⟨K, nodes, st⟩ : G D).K = K := rfl
                rw [hK, hbad, hc2] at hstat
                have hg := CompressGraph.glinkV_intro _ st (fun _ _ => true) (List.range nodes.length) i d e.1 e.2.1 _
                  (List.mem_range.mpr hilt) (List.mem_range.mpr hjlt) hstat
                have hlink := pg.glink_to_link wf hes2 hcl hx8 (fun _ _ => true) (fun _ _ => true) (fun _ _ _ _ _ _ _ _ _ _ _ _ => rfl)
                  (List.range nodes.length) i d e.1 e.2.1.flip hg
                exact ⟨e.1, e.2.1.flip, hjlt, hilt, hne, hlink⟩

/-- **`is_compressed` finds nothing** on a ported graph over a closed table whose nodes are sealed: no good link of the
    table joins the end ports of two different nodes -/
theorem PGraph.isCompressed_none {T : Table D} {K : Nat} {st : Bool} {join0 : D → D → Bool} {nodes : List (Node D)}
    {port : Nat → Dir → Nat × Dir} {members : Nat → List Nat} {lk : Walk.Link}
    (pg : PGraph T K st join0 nodes port members lk) (wf : WF T K st) (hes2 : ExtSym2 T st) (hcl : Closed T st)
    (hx8 : ∀ (i : Nat) (n : Node D), nodes[i]? = some n → n.exts.val < 256)
    (hsealed : ∀ (i j : Nat) (d o : Dir), i < nodes.length → j < nodes.length →
      linkOf T st (fun _ _ => true) (port i d).1 (port i d).2 = some ((port j o).1, (port j o).2.flip) → i = j) :
    isCompressed (⟨K, nodes, st⟩ : G D) (fun _ _ => true) = none := by
  unfold isCompressed
  rw [List.findSome?_eq_none_iff]
  intro i _
  rw [List.findSome?_eq_none_iff]
  intro d _
  cases h : isCompressedAt (⟨K, nodes, st⟩ : G D) (fun _ _ => true) i d with
  | none => rfl
  | some r =>
    exfalso
    obtain ⟨j, o, hj, hi, hne, hl⟩ := pg.isCompressedAt_link wf hes2 hcl hx8 i d r h
    exact hne (hsealed i j d o.flip hi hj hl)

/-- a ported graph over a closed table is resolving: a side that records an extension has an edge -/
theorem PGraph.resolving {T : Table D} {K : Nat} {st : Bool} {join0 : D → D → Bool} {nodes : List (Node D)}
    {port : Nat → Dir → Nat × Dir} {members : Nat → List Nat} {lk : Walk.Link}
    (pg : PGraph T K st join0 nodes port members lk) (wf : WF T K st) (hes2 : ExtSym2 T st) (hcl : Closed T st)
    (hx8 : ∀ (i : Nat) (n : Node D), nodes[i]? = some n → n.exts.val < 256) :
    Graph.Resolving (⟨K, nodes, st⟩ : G D) := by
  intro i n d hi hpos
  have hi' : nodes[i]? = some n := hi
  obtain ⟨es, he⟩ : ∃ es, findEdges (⟨K, nodes, st⟩ : G D) i d = some es := by
    unfold findEdges; rw [hi]; exact ⟨_, rfl⟩
  obtain ⟨hl, _⟩ := pg.findEdges_spec wf hes2 hcl hx8 i n hi' d es he
  refine ⟨es, he, ?_⟩
  intro e; rw [e] at hl; simp at hl; omega

end Compress
