import Dbg.Lemmas.Ports
/-! Operations on oriented chains: monotonicity in the link relation, reversal as a whole, concatenation of several
    chains whose ends are joined by links. -/
namespace Compress
open Walk (Dir Link Sym)

theorem linkedFrom_mono (l1 l2 : Link) (h : ∀ x d r, l1 x d = some r → l2 x d = some r) :
    ∀ (cs : List (Nat × Dir)) (x : Nat) (d : Dir), LinkedFrom l1 x d cs → LinkedFrom l2 x d cs := by
  intro cs
  induction cs with
  | nil => intro _ _ _; trivial
  | cons c t ih =>
    intro x d hx
    obtain ⟨c1, c2⟩ := c
    exact ⟨h x d _ hx.1, ih c1 c2 hx.2⟩

theorem ochain_mono (l1 l2 : Link) (h : ∀ x d r, l1 x d = some r → l2 x d = some r) (cs : List (Nat × Dir)) (hc : OChain l1 cs) :
    OChain l2 cs := by
  cases cs with
  | nil => trivial
  | cons c t => exact linkedFrom_mono l1 l2 h t c.1 c.2 hc

/-- a whole chain read backwards with every port flipped -/
theorem ochain_rev (link : Link) (hs : Sym link) (cs : List (Nat × Dir)) (hc : OChain link cs) :
    OChain link (cs.map flip2).reverse := by
  cases cs with
  | nil => trivial
  | cons c t =>
    have := ochain_reverse link hs c.1 c.2 t hc
    simpa [List.map_cons, List.reverse_cons] using this

theorem linkedFrom_last (link : Link) : ∀ (cs : List (Nat × Dir)) (x : Nat) (d : Dir) (q : Nat × Dir) (rest : List (Nat × Dir)),
    LinkedFrom link x d cs → link ((cs.getLast?).getD (x, d)).1 ((cs.getLast?).getD (x, d)).2 = some q → LinkedFrom link q.1 q.2 rest →
    LinkedFrom link x d (cs ++ q :: rest) := by
  intro cs
  induction cs with
  | nil => intro x d q rest _ hl hr; exact ⟨hl, hr⟩
  | cons c t ih =>
    intro x d q rest hx hl hr
    obtain ⟨c1, c2⟩ := c
    refine ⟨hx.1, ih c1 c2 q rest hx.2 ?_ hr⟩
    cases ht : t.getLast? with
    | none =>
      have : t = [] := List.getLast?_eq_none_iff.mp ht
      subst this
      simpa using hl
    | some z =>
      have : ((c1, c2) :: t).getLast? = some z := by
        rw [List.getLast?_cons_cons_of_ne_nil] <;> simp_all
        intro e; rw [e] at ht; cases ht
      rw [this] at hl
      simpa using hl
where
  List.getLast?_cons_cons_of_ne_nil {α} {a : α} {l : List α} (h : l ≠ []) : (a :: l).getLast? = l.getLast? := by
    cases l with
    | nil => exact absurd rfl h
    | cons b t => exact List.getLast?_cons_cons

/-- two chains joined by a link from the last entry of the first to the head of the second -/
theorem ochain_join (link : Link) (c1 c2 : List (Nat × Dir)) (h1 : OChain link c1) (h2 : OChain link c2)
    (a b : Nat × Dir) (ha : c1.getLast? = some a) (hb : c2.head? = some b) (hl : link a.1 a.2 = some b) : OChain link (c1 ++ c2) := by
  cases c1 with
  | nil => cases ha
  | cons x t =>
    cases c2 with
    | nil => cases hb
    | cons y t2 =>
      simp only [List.head?_cons, Option.some.injEq] at hb
      subst hb
      show LinkedFrom link x.1 x.2 (t ++ y :: t2)
      apply linkedFrom_last link t x.1 x.2 y t2 h1 _ h2
      cases ht : t.getLast? with
      | none =>
        have : t = [] := List.getLast?_eq_none_iff.mp ht
        subst this
        simp only [List.getLast?_singleton, Option.some.injEq] at ha
        subst ha
        exact hl
      | some z =>
        have : (x :: t).getLast? = some z := by
          cases t with
          | nil => cases ht
          | cons b t' => rw [List.getLast?_cons_cons]; exact ht
        rw [this] at ha
        cases ha
        exact hl

end Compress

namespace Compress
open Walk (Dir Link Sym)

/-- consecutive pieces are joined: the last entry of each links to the head of the next -/
def Joined {α} (link : Link) (och : α → List (Nat × Dir)) : List α → Prop
  | [] => True
  | [_] => True
  | c :: c' :: rest => (∃ a b, (och c).getLast? = some a ∧ (och c').head? = some b ∧ link a.1 a.2 = some b) ∧ Joined link och (c' :: rest)

theorem head?_flatMap_cons {α β} (f : α → List β) (a : α) (t : List α) (h : f a ≠ []) : ((a :: t).flatMap f).head? = (f a).head? := by
  rw [List.flatMap_cons, List.head?_append]
  cases hfa : f a with
  | nil => exact absurd hfa h
  | cons x xs => rfl

theorem getLast?_flatMap_snoc {α β} (f : α → List β) (t : List α) (a : α) (h : f a ≠ []) :
    ((t ++ [a]).flatMap f).getLast? = (f a).getLast? := by
  rw [List.flatMap_append, List.flatMap_cons, List.flatMap_nil, List.append_nil, List.getLast?_append]
  cases hfa : (f a).getLast? with
  | none => exact absurd (List.getLast?_eq_none_iff.mp hfa) h
  | some x => rfl

/-- **chains joined end to end form a chain** -/
theorem ochain_flatMap {α} (link : Link) (och : α → List (Nat × Dir)) :
    ∀ (cs : List α), (∀ c ∈ cs, OChain link (och c) ∧ och c ≠ []) → Joined link och cs → OChain link (cs.flatMap och) := by
  intro cs
  induction cs with
  | nil => intro _ _; trivial
  | cons c t ih =>
    intro hoc hj
    cases t with
    | nil =>
      rw [List.flatMap_cons, List.flatMap_nil, List.append_nil]
      exact (hoc c (List.mem_cons_self ..)).1
    | cons c' rest =>
      obtain ⟨⟨a, b, ha, hb, hl⟩, hj'⟩ : (∃ a b, (och c).getLast? = some a ∧ (och c').head? = some b ∧ link a.1 a.2 = some b) ∧ Joined link och (c' :: rest) := hj
      rw [List.flatMap_cons]
      have hrest := ih (fun x hx => hoc x (List.mem_cons_of_mem _ hx)) hj'
      apply ochain_join link _ _ (hoc c (List.mem_cons_self ..)).1 hrest a b ha _ hl
      rw [head?_flatMap_cons och c' rest (hoc c' (by simp)).2]
      exact hb

end Compress
