import Dbg.Model.KmerIter
import Dbg.Lemmas.KmerExtend
/-! The rolling k-mer iterators over any container that reads its bases and k-mers faithfully. -/
namespace KIter
open Kmer

variable {c : Cfg}

/-- bases `i .. i+K` -/
def win (seq : List Nat) (K i : Nat) : List Nat := (seq.drop i).take K

/-- a container that stands for the base vector `seq` -/
structure Faithful (v : Cont c) (seq : List Nat) : Prop where
  len : v.len = seq.length
  base : ∀ b ∈ seq, b < 4
  get : ∀ i (h : i < seq.length), v.get i = some seq[i]
  kmer : ∀ pos, pos + c.K ≤ seq.length → ∃ s, v.getKmer pos = some s ∧ Inv c s ∧ toSeq c s = win seq c.K pos

theorem win_succ (seq : List Nat) (K pos : Nat) (hK : 1 ≤ K) (hKp : K ≤ pos) (h : pos < seq.length) :
    (win seq K (pos - K)).tail ++ [seq[pos]] = win seq K (pos - K + 1) := by
  unfold win
  apply List.ext_getElem?
  intro j
  by_cases hj : j < K - 1
  · rw [List.getElem?_append_left (by simp; omega), List.getElem?_tail, List.getElem?_take_of_lt (by omega),
      List.getElem?_take_of_lt (by omega), List.getElem?_drop, List.getElem?_drop]
    congr 1; omega
  · by_cases hj2 : j = K - 1
    · subst hj2
      rw [List.getElem?_append_right (by simp; omega)]
      have : (List.take K (List.drop (pos - K) seq)).tail.length = K - 1 := by simp; omega
      rw [this, Nat.sub_self, List.getElem?_cons_zero, List.getElem?_take_of_lt (by omega), List.getElem?_drop,
        show pos - K + 1 + (K - 1) = pos by omega, List.getElem?_eq_getElem h]
    · rw [List.getElem?_eq_none (by simp; omega), List.getElem?_eq_none (by simp; omega)]

theorem range_succ_map {α} (f : Nat → α) (n : Nat) : (List.range (n + 1)).map f = f 0 :: (List.range n).map (fun j => f (j + 1)) := by
  rw [List.range_succ_eq_map]; simp [List.map_map, Function.comp_def]

/-- the loop of `KmerIter::next` from position `pos` -/
theorem iterLoop_spec (hc : c.WF) (v : Cont c) (seq : List Nat) (hf : Faithful v seq)
    (pos : Nat) (kmer : St c) (acc : List (St c)) (hpos : c.K ≤ pos)
    (hk : pos ≤ seq.length → Inv c kmer ∧ toSeq c kmer = win seq c.K (pos - c.K)) :
    ∃ ks, iterLoop v pos kmer acc = some (acc.reverse ++ ks) ∧
      ks.map (toSeq c) = (List.range (seq.length + 1 - pos)).map (fun j => win seq c.K (pos - c.K + j)) ∧
      ∀ k ∈ ks, Inv c k := by
  have hlen := hf.len
  fun_induction iterLoop v pos kmer acc with
  | case1 pos kmer acc hle hlt b hb ih =>
    rw [hlen] at hle hlt
    obtain ⟨hi, hs⟩ := hk hle
    have hbv : b = seq[pos] := by rw [hf.get pos hlt] at hb; exact (Option.some.inj hb).symm
    have hb4 : b < 4 := by rw [hbv]; exact hf.base _ (List.getElem_mem _)
    obtain ⟨ks, e, m, inv⟩ := ih (by omega) (fun _ => ⟨inv_extendRight hc kmer b hb4, by
      rw [toSeq_extendRight hc kmer b hb4, hs, KSpec.extendRight, hbv, win_succ seq c.K pos hc.hK hpos hlt]
      congr 1; omega⟩)
    refine ⟨kmer :: ks, ?_, ?_, ?_⟩
    · rw [e]; simp
    · rw [show seq.length + 1 - pos = (seq.length + 1 - (pos + 1)) + 1 by omega, range_succ_map, List.map_cons, m, hs]
      simp only [Nat.add_zero, List.cons.injEq, true_and]
      apply List.map_congr_left; intro j _; congr 1; omega
    · intro k hk'
      rcases List.mem_cons.mp hk' with rfl | h
      · exact hi
      · exact inv k h
  | case2 pos kmer acc hle hlt hnone =>
    rw [hlen] at hlt
    rw [hf.get pos hlt] at hnone; cases hnone
  | case3 pos kmer acc hle hnlt ih =>
    rw [hlen] at hle hnlt
    have hp : pos = seq.length := by omega
    obtain ⟨hi, hs⟩ := hk hle
    obtain ⟨ks, e, m, inv⟩ := ih (by omega) (fun h => by omega)
    have hks : ks = [] := by
      have := congrArg List.length m
      simp only [List.length_map, List.length_range] at this
      exact List.eq_nil_of_length_eq_zero (by omega)
    subst hks
    refine ⟨[kmer], by rw [e]; simp, ?_, ?_⟩
    · rw [show seq.length + 1 - pos = 1 by omega]; simp [hs]
    · intro k hk'; simp at hk'; subst hk'; exact hi
  | case4 pos kmer acc hnle =>
    rw [hlen] at hnle
    exact ⟨[], by simp, by rw [show seq.length + 1 - pos = 0 by omega]; rfl, by simp⟩

/-- **`iter_kmers`** yields exactly `max(0, n-K+1)` k-mers, the `i`-th spelling bases `i..i+K` -/
theorem iterKmers_spec (hc : c.WF) (v : Cont c) (seq : List Nat) (hf : Faithful v seq) :
    ∃ ks, iterKmers v = some ks ∧
      ks.map (toSeq c) = (List.range (seq.length + 1 - c.K)).map (fun i => win seq c.K i) ∧ ∀ k ∈ ks, Inv c k := by
  unfold iterKmers
  by_cases h : v.len ≥ c.K
  · rw [if_pos h]
    rw [hf.len] at h
    obtain ⟨s0, e0, i0, t0⟩ := hf.kmer 0 (by omega)
    unfold firstKmer
    rw [e0]
    obtain ⟨ks, e, m, inv⟩ := iterLoop_spec hc v seq hf c.K s0 [] (Nat.le_refl _) (fun _ => ⟨i0, by simpa using t0⟩)
    exact ⟨ks, by simpa using e, by simpa using m, inv⟩
  · rw [if_neg h]
    rw [hf.len] at h
    obtain ⟨ks, e, m, inv⟩ := iterLoop_spec hc v seq hf c.K (Kmer.empty c) [] (Nat.le_refl _) (fun h' => by omega)
    exact ⟨ks, by simpa using e, by simpa using m, inv⟩

/-- the extension byte of the k-mer at position `i`: true flanking bases inside the sequence, the
    caller's boundary extensions at the two ends -/
def specExt (seq : List Nat) (K exts i : Nat) : Nat :=
  merge (if i = 0 then exts else mkLeft (seq.getD (i - 1) 0)) (if i + K < seq.length then mkRight (seq.getD (i + K) 0) else exts)

theorem extsLoop_spec (hc : c.WF) (v : Cont c) (seq : List Nat) (hf : Faithful v seq) (exts : Nat)
    (pos : Nat) (kmer : St c) (acc : List (St c × Nat)) (hpos : c.K ≤ pos)
    (hk : pos ≤ seq.length → Inv c kmer ∧ toSeq c kmer = win seq c.K (pos - c.K)) :
    ∃ ks, extsLoop v exts pos kmer acc = some (acc.reverse ++ ks) ∧
      ks.map (fun p => (toSeq c p.1, p.2)) =
        (List.range (seq.length + 1 - pos)).map (fun j => (win seq c.K (pos - c.K + j), specExt seq c.K exts (pos - c.K + j))) ∧
      ∀ k ∈ ks, Inv c k.1 := by
  have hlen := hf.len
  fun_induction extsLoop v exts pos kmer acc with
  | case1 pos kmer acc hle nextBase? curLeft? nb cl hcl hnb cr ih =>
    rw [hlen] at hle
    obtain ⟨hi, hs⟩ := hk hle
    -- the next base and the two extension nibbles
    have hnb4 : nb < 4 ∧ (∀ h : pos < seq.length, nb = seq[pos]) := by
      simp only [nextBase?, hlen] at hnb
      by_cases hlt : pos < seq.length
      · rw [dif_pos hlt, hf.get pos hlt] at hnb
        have := (Option.some.inj hnb).symm
        exact ⟨by rw [this]; exact hf.base _ (List.getElem_mem _), fun _ => this⟩
      · rw [dif_neg hlt] at hnb
        have := (Option.some.inj hnb).symm
        exact ⟨by omega, fun h => absurd h hlt⟩
    have hclv : cl = (if pos - c.K = 0 then exts else mkLeft (seq.getD (pos - c.K - 1) 0)) := by
      simp only [curLeft?] at hcl
      by_cases he : pos = c.K
      · subst he; simp at hcl; simp [hcl]
      · have hne : ¬ (pos == c.K) = true := by simp [he]
        rw [dif_neg hne, hf.get (pos - c.K - 1) (by omega)] at hcl
        simp only [Option.map_some, Option.some.injEq] at hcl
        rw [if_neg (by omega), ← hcl]
        simp [show pos - c.K - 1 < seq.length by omega]
    have hcrv : cr = (if pos - c.K + c.K < seq.length then mkRight (seq.getD (pos - c.K + c.K) 0) else exts) := by
      simp only [cr, hlen]
      rw [show pos - c.K + c.K = pos by omega]
      by_cases hlt : pos < seq.length
      · rw [dif_pos hlt, if_pos hlt, hnb4.2 hlt]; simp [hlt]
      · rw [dif_neg hlt, if_neg hlt]
    obtain ⟨ks, e, m, inv⟩ := ih (by omega) (fun hle' => ⟨inv_extendRight hc kmer nb hnb4.1, by
      have hlt : pos < seq.length := by omega
      rw [toSeq_extendRight hc kmer nb hnb4.1, hs, KSpec.extendRight, hnb4.2 hlt, win_succ seq c.K pos hc.hK hpos hlt]
      congr 1; omega⟩)
    refine ⟨(kmer, merge cl cr) :: ks, ?_, ?_, ?_⟩
    · rw [e]; simp
    · rw [show seq.length + 1 - pos = (seq.length + 1 - (pos + 1)) + 1 by omega, range_succ_map, List.map_cons, m, hs]
      simp only [Nat.add_zero, List.cons.injEq]
      refine ⟨?_, ?_⟩
      · rw [specExt, ← hclv, ← hcrv]
      · apply List.map_congr_left; intro j _
        rw [show pos + 1 - c.K + j = pos - c.K + (j + 1) by omega]
    · intro k hk'
      rcases List.mem_cons.mp hk' with rfl | h
      · exact hi
      · exact inv k h
  | case2 pos kmer acc hle nextBase? curLeft? hnone =>
    exfalso
    rw [hlen] at hle
    -- neither lookup can fail inside the sequence
    have hN : ∃ nb, nextBase? = some nb := by
      simp only [nextBase?, hlen]
      by_cases hlt : pos < seq.length
      · rw [dif_pos hlt, hf.get pos hlt]; exact ⟨_, rfl⟩
      · rw [dif_neg hlt]; exact ⟨_, rfl⟩
    have hC : ∃ cl, curLeft? = some cl := by
      simp only [curLeft?]
      by_cases he : (pos == c.K) = true
      · rw [dif_pos he]; exact ⟨_, rfl⟩
      · have : pos ≠ c.K := by simpa using he
        rw [dif_neg he, hf.get (pos - c.K - 1) (by omega)]; exact ⟨_, rfl⟩
    obtain ⟨nb, hN⟩ := hN
    obtain ⟨cl, hC⟩ := hC
    exact hnone nb cl hN hC
  | case3 pos kmer acc hnle =>
    rw [hlen] at hnle
    exact ⟨[], by simp, by rw [show seq.length + 1 - pos = 0 by omega]; rfl, by simp⟩

/-- **`iter_kmer_exts`** pairs each k-mer with its true flanking bases, using the caller's extensions only at the ends -/
theorem iterKmerExts_spec (hc : c.WF) (v : Cont c) (seq : List Nat) (hf : Faithful v seq) (exts : Nat) :
    ∃ ks, iterKmerExts v exts = some ks ∧
      ks.map (fun p => (toSeq c p.1, p.2)) =
        (List.range (seq.length + 1 - c.K)).map (fun i => (win seq c.K i, specExt seq c.K exts i)) ∧
      ∀ k ∈ ks, Inv c k.1 := by
  unfold iterKmerExts
  by_cases h : v.len ≥ c.K
  · rw [if_pos h]
    rw [hf.len] at h
    obtain ⟨s0, e0, i0, t0⟩ := hf.kmer 0 (by omega)
    unfold firstKmer
    rw [e0]
    obtain ⟨ks, e, m, inv⟩ := extsLoop_spec hc v seq hf exts c.K s0 [] (Nat.le_refl _) (fun _ => ⟨i0, by simpa using t0⟩)
    exact ⟨ks, by simpa using e, by simpa using m, inv⟩
  · rw [if_neg h]
    rw [hf.len] at h
    obtain ⟨ks, e, m, inv⟩ := extsLoop_spec hc v seq hf exts c.K (Kmer.empty c) [] (Nat.le_refl _) (fun h' => by omega)
    exact ⟨ks, by simpa using e, by simpa using m, inv⟩

/-- first / last / terminal k-mers -/
theorem termKmer_spec (v : Cont c) (seq : List Nat) (hf : Faithful v seq) (hK : c.K ≤ seq.length) :
    (∃ s, firstKmer v = some s ∧ Inv c s ∧ toSeq c s = win seq c.K 0) ∧
    (∃ s, lastKmer v = some s ∧ Inv c s ∧ toSeq c s = win seq c.K (seq.length - c.K)) := by
  refine ⟨hf.kmer 0 (by omega), ?_⟩
  unfold lastKmer
  rw [hf.len, if_neg (by omega)]
  exact hf.kmer _ (by omega)

theorem lastKmer_short (v : Cont c) (seq : List Nat) (hf : Faithful v seq) (hK : seq.length < c.K) : lastKmer v = none := by
  unfold lastKmer; rw [hf.len, if_pos hK]

end KIter
