import Dbg.Model.Serde
import Dbg.Driver.C03
/-! C09: graph re-compression with node censoring; C18: node k-mer iterator; C20: exports. -/
namespace Drv.C09
open Compress Graph Drv.Gr Drv.C03
open Walk (Dir)

/-- the k-mer table underlying a graph restricted to the nodes in `keep`: every window of every kept node with the
    extensions it has inside its node (neighbouring bases) or, at the node's ends, the node's own extensions;
    canonicalised when unstranded -/
def kmerTable (g : G (List Nat)) (keep : List Nat) : List (Entry (List Nat)) :=
  g.nodes.zipIdx.flatMap fun (n, i) =>
    if !keep.contains i then [] else
    let ws := windowsOf g.K n.seq
    let m := ws.length
    ws.zipIdx.map fun (w, j) =>
      let left : Exts := if j = 0 then ⟨n.exts.val &&& 0x0f⟩ else ⟨match n.seq[j - 1]? with | some b => 1 <<< b.val | none => 0⟩
      let right : Exts := if j + 1 = m then ⟨n.exts.val &&& 0xf0⟩ else ⟨match n.seq[j + g.K]? with | some b => 1 <<< (b.val + 4) | none => 0⟩
      let e : Exts := ⟨left.val ||| right.val⟩
      let (c, flip) := canonOf g.stranded w
      ⟨c, if flip then e.rc else e, n.data⟩

/-- `recompress <K> <gstranded> <stranded> <join> <reduce> <censor> <nodes>` -/
def handle (args : List String) (impl : String) : R Ans :=
  match args with
  | ["iscomp", k, st, jn, nodes] => do
    -- `is_compressed(spec)`: the first unbranched edge the spec would merge
    let K ← nat k; let st ← bool st
    let join ← joinOf jn
    let ns ← parseNodes nodes
    let g : G (List Nat) := ⟨K, ns, st⟩
    let model := match isCompressed g join with | some (i, j) => s!"{i},{j}" | none => "none"
    pure { model, verdict := if impl == "panic" then "FAIL:panic-in-range" else "ok" }
  | ["tips", k, st, maxLen, nodes] => do
    -- `CleanGraph::new(|n| n.len() < maxLen).find_bad_nodes(g)`
    let K ← nat k; let st ← bool st; let maxLen ← nat maxLen
    let ns ← parseNodes nodes
    let g : G (List Nat) := ⟨K, ns, st⟩
    let model := findBadNodes g (fun n => decide (n.seq.length < maxLen))
    let verdict ← do
      if impl == "panic" then pure "FAIL:panic-in-range" else do
      let ids ← natList impl
      -- exactly the dead ends that satisfy the predicate, ascending
      let cnt := fun (x : Nat) => (List.range 4).countP (fun b => x.testBit b)
      let isTip := fun (i : Nat) => match ns[i]? with
        | some n => (n.exts.dirBits .L == 0 && cnt (n.exts.dirBits .R) ≤ 1 || n.exts.dirBits .R == 0 && cnt (n.exts.dirBits .L) ≤ 1) && n.seq.length < maxLen
        | none => false
      pure (if ids == (List.range ns.length).filter isTip then "ok" else "FAIL:tips-differ-from-dead-ends-meeting-the-predicate")
    pure { model := showNatList model, verdict }
  | ["recompress", k, gst, st, jn, rd, censor, nodes] => do
    let K ← nat k; let gst ← bool gst; let st ← bool st
    let join ← joinOf jn; let reduce ← reduceOf rd
    let censor ← natList censor
    let ns ← parseNodes nodes
    let g : G (List Nat) := ⟨K, ns, gst⟩
    let res := CompressGraph.compressGraph st g join reduce censor
    let model := match res with | some (g', _) => showNodes g'.nodes | none => "panic"
    let verdict ← do
      -- the property is about graphs and strandedness that belong together
      if gst ≠ st then pure "skip:mixed-strandedness"
      else if impl == "panic" then pure (if res.isNone then "skip:invalid-graph(model-panics-too)" else "FAIL:panic-on-valid-graph")
      else do
        let out ← parseNodes impl
        let keep := (List.range ns.length).filter fun i => !censor.contains i
        -- surviving k-mer table with extensions pruned to surviving k-mers
        let T := Filter.removeCensoredExts st (kmerTable g keep)
        let og : G (List Nat) := ⟨K, out, st⟩
        let dangling := og.nodes.any fun n => [Dir.L, Dir.R].any fun d => base4.any fun b =>
          n.exts.hasExt d b.val && (findLink og (extend (termKmer K n.seq d) b d) d).isNone
        let payloadOk := rd == "mix" || rd == "first" || out.all fun n =>
          -- the merged input nodes: those sharing a k-mer with the output node
          let ks := (windowsOf K n.seq).map fun w => (canonOf st w).1
          let merged := ns.zipIdx.filter fun (m, i) => keep.contains i && (windowsOf K m.seq).any fun w => ks.contains (canonOf st w).1
          match merged.map (·.1.data) with
          | [] => false
          | d :: rest => rest.foldl reduce d == n.data
        pure (if ¬ partitionOK K st T out then "FAIL:kmers-differ-from-those-of-the-non-censored-nodes"
              else if ¬ extSymOK st T then "skip:input-graph-extensions-not-reciprocal"
              else if ¬ componentsOK K st join T out then "FAIL:nodes-are-not-the-maximal-unbranched-paths-of-the-surviving-adjacencies"
              else if dangling then "FAIL:extension-points-at-a-removed-or-absent-node"
              else if ¬ payloadOk then "FAIL:payload-is-not-the-reduction-of-the-merged-nodes"
              else "ok")
    pure { model, verdict }
  | _ => throw "bad-request"

end Drv.C09

namespace Drv.C18
open Compress Export Drv.Gr

inductive Call | next | nth (n : Nat)

def parseCall (t : String) : R Call :=
  if t == "n" then pure .next else
  match t.toList with
  | 's' :: r => do pure (.nth (← nat (String.ofList r)))
  | _ => throw "bad-call"

/-- `iter <K> <node seqs> <node index> <calls>`; answers: `len=<size_hint>|<answer per call>` -/
def handle (args : List String) (impl : String) : R Ans :=
  match args with
  | ["iter", k, seqs, idx, calls] => do
    let K ← nat k; let idx ← nat idx
    let seqs ← (seqs.splitOn ",").mapM digits
    let calls ← if calls == "-" then pure [] else (calls.splitOn ",").mapM parseCall
    let some s := seqs[idx]? | throw "bad-index"
    let show1 := fun (o : Option Seq) => match o with | some x => showDigits x | none => "end"
    let model := match NIter.start K s with
      | none => "panic"
      | some it0 =>
        let (_, outs) := calls.foldl (fun (acc : NIter × List String) c =>
          let (it', o) := match c with | .next => acc.1.next | .nth n => acc.1.nth n
          (it', show1 o :: acc.2)) (it0, [])
        s!"len={it0.numKmers}|{if outs.isEmpty then "-" else ",".intercalate outs.reverse}"
    -- specification: a cursor into the list of the node's k-mers
    let L := windowsOf K s
    let (_, exp) := calls.foldl (fun (acc : Nat × List String) c =>
      match c with
      | .next => (min (acc.1 + 1) L.length, show1 L[acc.1]? :: acc.2)
      | .nth n => (min (acc.1 + n + 1) L.length, show1 L[acc.1 + n]? :: acc.2)) (0, [])
    let expect := s!"len={L.length}|{if exp.isEmpty then "-" else ",".intercalate exp.reverse}"
    pure { model, verdict := if s.length < K then "skip:node-shorter-than-K" else if impl == expect then "ok"
                             else s!"FAIL:iterator-contract(expected {expect})" }
  | ["all", k, seqs] => do
    -- iterating all nodes visits every k-mer once: the answer lists the k-mers in visiting order
    let K ← nat k
    let seqs ← (seqs.splitOn ",").mapM digits
    let all := seqs.flatMap (windowsOf K)
    let txt := if all.isEmpty then "-" else ",".intercalate (all.map showDigits)
    -- the harness also builds perfect-hash indexes from the iteration (serial and parallel) and checks distinct slots
    let model := txt ++ "|mphf=1"
    pure { model, verdict := if impl == model then "ok"
                             else if (impl.splitOn "|").head? == some txt then "FAIL:perfect-hash-index-built-from-the-iteration-is-not-injective"
                             else "FAIL:iteration-over-all-nodes-differs-from-the-kmers-of-the-graph" }
  | _ => throw "bad-request"

end Drv.C18

namespace Drv.C20
open Compress Graph Export Drv.Gr
open Walk (Dir)

def esc (s : String) : String := (s.replace "\\" "\\\\").replace "\n" "\\n" |>.replace "\t" "\\t" |>.replace " " "\\s"

/-- `export <K> <stranded> <nodes>`: answer `gfa=<escaped>|json=<escaped>` -/
def handle (args : List String) (impl : String) : R Ans :=
  match args with
  | ["export", k, st, nodes, rest] => do
    let K ← nat k; let st ← bool st
    let ns ← parseNodes nodes
    let g : G (List Nat) := ⟨K, ns, st⟩
    let restKv : Option (List (String × String)) := if rest == "none" then none else
      some ((rest.splitOn ",").filterMap fun kv => match kv.splitOn "=" with
        | [a, b] =>
          -- the key is hex-encoded ASCII
          let cs := a.toList
          let hexVal := fun (c : Char) => if '0' ≤ c ∧ c ≤ '9' then c.toNat - '0'.toNat else if 'a' ≤ c ∧ c ≤ 'f' then c.toNat - 'a'.toNat + 10 else 0
          let bytes := (List.range (cs.length / 2)).map fun i => (hexVal (cs.getD (2 * i) '0')) * 16 + hexVal (cs.getD (2 * i + 1) '0')
          some (String.ofList (bytes.map Char.ofNat), b)
        | _ => none)
    let gfa := writeGfa g
    let json := toJsonRestImp g (fun d => toString (d.headD 0)) restKv
    let gfaTags := writeGfaTags g fun _ nd => s!"LN:i:{nd.seq.length}\tDA:i:{nd.data.headD 0}"
    let dot := toDot g (fun d => toString (d.headD 0))
    let dbg := (List.range ns.length).mapM (nodeDebug g (fun d => toString (d.headD 0)))
    let model := match gfa, json, gfaTags, dot, dbg with
      | some a, some b, some t, some o, some ds => s!"gfa={esc a}|json={esc b}|gfatags={esc t}|dot={esc o}|dbg={(esc ("\n".intercalate ds)).replace "|" "\\p"}"
      | _, _, _, _, _ => "panic"
    -- property: GFA lists every node once, every adjacency exactly once (a palindromic single-k-mer end: once or
    -- twice) and nothing else; JSON well-formedness is checked by the harness with serde_json (flag `jsonok`)
    let verdict ← do
      match (impl.splitOn "|") with
      | gfaF :: _ :: tagsF :: _ :: _ :: flags =>
        let lines := ((gfaF.drop 4).toString.splitOn "\\n").filter (· ≠ "")
        let sLines := lines.filter (·.startsWith "S\\t")
        let lLines := lines.filter (·.startsWith "L\\t")
        let segOk := sLines == (ns.zipIdx.map fun (n, i) => s!"S\\t{i}\\t{seqStr n.seq}")
        -- links as unordered port pairs
        let parseL := fun (l : String) => match l.splitOn "\\t" with
          | [_, a, sa, b, sb, ov] => some ((a.toNat!, if sa == "+" then Dir.R else Dir.L), (b.toNat!, if sb == "+" then Dir.L else Dir.R), ov)
          | _ => none
        let links := lLines.filterMap parseL
        -- both sides of a palindromic single-k-mer node count as one port
        let port := fun (p : Nat × Dir) => if palNode g p.1 then (p.1, Dir.L) else p
        let code := fun (p : Nat × Dir) => 2 * p.1 + (if p.2 == .R then 1 else 0)
        let norm := fun (p q : Nat × Dir) => let p := port p; let q := port q; if code p ≤ code q then (p, q) else (q, p)
        let linkPairs := links.map fun (p, q, _) => norm p q
        let ovOk := links.all fun (_, _, ov) => ov == s!"{K - 1}M"
        let edges := Drv.C03.allEdges g
        let adj := (edges.zipIdx.flatMap fun ((le, re), u) =>
          (le.map fun e => norm (u, Dir.L) (e.1, e.2.1)) ++ (re.map fun e => norm (u, Dir.R) (e.1, e.2.1))).eraseDups
        let sound := linkPairs.all (adj.contains ·)
        let complete := adj.all (linkPairs.contains ·)
        let pal := fun (i : Nat) => palNode g i
        let once := adj.all fun a =>
          let c := linkPairs.count a
          c == 1 || ((pal a.1.1 || pal a.2.1) && c ≤ 2)
        let jsonOk := flags.any (· == "jsonok=1")
        -- `to_gfa` writes to a file what `write_gfa` writes to a writer (compared by the harness)
        let fileOk := flags.any (· == "gfafile=1")
        -- and into a writer that accepts only a few bytes per `write` call (pipes, sockets, encoders do that)
        let shortOk := flags.any (· == "gfashort=1")
        -- `to_gfa_with_tags` (file): the same records as `write_gfa`, every S line with one further field per tag
        let untag := fun (l : String) => if l.startsWith "S\\t" then "\\t".intercalate ((l.splitOn "\\t").take 3) else l
        let tagsOk := (((tagsF.drop 8).toString.splitOn "\\n").map untag) == ((gfaF.drop 4).toString.splitOn "\\n")
        pure (if ¬ segOk then "FAIL:gfa-segments"
              else if ¬ ovOk then "FAIL:gfa-overlap-field"
              else if ¬ sound then "FAIL:gfa-lists-a-link-that-is-not-an-adjacency"
              else if ¬ complete then "FAIL:gfa-omits-an-adjacency"
              else if ¬ once then "FAIL:gfa-duplicates-a-link"
              else if ¬ jsonOk then "FAIL:json-not-well-formed-or-incomplete"
              else if ¬ fileOk then "FAIL:to_gfa-file-differs-from-write_gfa"
              else if ¬ shortOk then "FAIL:write_gfa-into-a-short-writing-sink-differs"
              else if ¬ tagsOk then "FAIL:to_gfa_with_tags-file-is-not-write_gfa-with-a-tag-field-per-segment"
              else "ok")
      | _ => pure "FAIL:malformed-answer"
    -- the model compares the two texts only (flags are the harness's own checks)
    let implTexts := "|".intercalate ((impl.splitOn "|").take 5)
    pure { model := if implTexts == model then impl else model, verdict }
  | "persist" :: rest => do
    -- the text the serializer writes is modelled (`Serde.*`); reading it back is the harness's observation (`roundtrip=ok`)
    let txt : Option (List Char) ← match rest with
      | ["kmer", ty, raw] => do
        match Kmer.Cfg.ofName ty with
        | some c => pure (some (Serde.kmer c (BitVec.ofNat c.w (← Drv.hex raw))))
        | none => throw "bad-type"
      | ["dna", ds] => do pure ((DnaStr.fromBytes ((← Drv.digits ds).map (·.val))).map Serde.dna)
      | ["exts", h] => do pure (some (Serde.exts ⟨← Drv.hex h⟩))
      | ["lmer", ds] => do pure ((Lmer.fromSlice 3 ((← Drv.digits ds).map (·.val))).map Serde.lmer)
      | ["graph", k, st, nodes] => do
        let K ← nat k; let st ← bool st
        let ns ← parseNodes nodes
        let g : G (List Nat) := ⟨K, ns, st⟩
        pure ((Serde.baseOf g).map (Serde.baseGraph fun d => Serde.num (d.headD 0)))
      | _ => throw "bad-request"
    let model := match txt with
      | some t => s!"roundtrip=ok|json={esc (String.ofList t)}"
      | none => "panic"
    pure { model, verdict := if impl.startsWith "roundtrip=ok" then "ok" else s!"FAIL:serde-round-trip({impl})" }
  | _ => throw "bad-request"

end Drv.C20
