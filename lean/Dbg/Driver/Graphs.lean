import Dbg.Driver.Util
import Dbg.Model.Filter
import Dbg.Model.CompressGraph
import Dbg.Model.Export
/-! Shared parsing/printing for the graph-level requests (tables, nodes, reads). -/
namespace Drv.Gr
open Compress (Seq Exts Entry Node)
open Walk (Dir)

def showPayload (p : List Nat) : String := if p.isEmpty then "_" else ".".intercalate (p.map toString)
def parsePayload (s : String) : R (List Nat) := if s == "_" then pure [] else (s.splitOn ".").mapM nat

/-- `key:exts:payload` -/
def showEntry (e : Entry (List Nat)) : String := s!"{showDigits e.key}:{toHex e.exts.val 2}:{showPayload e.data}"
def parseEntry (s : String) : R (Entry (List Nat)) :=
  match s.splitOn ":" with
  | [k, e, d] => do pure ⟨← digits k, ⟨← hex e⟩, ← parsePayload d⟩
  | _ => throw "bad-entry"

def showTable (t : List (Entry (List Nat))) : String := if t.isEmpty then "-" else ",".intercalate (t.map showEntry)
def parseTable (s : String) : R (List (Entry (List Nat))) := if s == "-" then pure [] else (s.splitOn ",").mapM parseEntry

def showNode (n : Node (List Nat)) : String := s!"{showDigits n.seq}:{toHex n.exts.val 2}:{showPayload n.data}"
def parseNode (s : String) : R (Node (List Nat)) :=
  match s.splitOn ":" with
  | [k, e, d] => do pure ⟨← digits k, ⟨← hex e⟩, ← parsePayload d⟩
  | _ => throw "bad-node"
def showNodes (t : List (Node (List Nat))) : String := if t.isEmpty then "-" else ",".intercalate (t.map showNode)
def parseNodes (s : String) : R (List (Node (List Nat))) := if s == "-" then pure [] else (s.splitOn ",").mapM parseNode

/-- reads: `seq:exts:label` -/
def parseReads (s : String) : R (List (Seq × Exts × Nat)) :=
  if s == "-" then pure [] else (s.splitOn ",").mapM fun r =>
    match r.splitOn ":" with
    | [q, e, l] => do pure (← digits q, ⟨← hex e⟩, ← nat l)
    | _ => throw "bad-read"

def showDir : Dir → String | .L => "L" | .R => "R"
def parseDir (s : String) : R Dir := if s == "L" then pure .L else if s == "R" then pure .R else throw "bad-dir"

def showEdge (e : Nat × Dir × Bool) : String := s!"{e.1}{showDir e.2.1}{if e.2.2 then "f" else "n"}"
def showEdges (l : List (Nat × Dir × Bool)) : String := if l.isEmpty then "-" else ".".intercalate (l.map showEdge)

/-- reductions on payloads `[x]`: the harness offers sum (saturating u32), max, and the non-commutative mix -/
def reduceOf (name : String) : R (List Nat → List Nat → List Nat) :=
  let on := fun (f : Nat → Nat → Nat) (a b : List Nat) => [f (a.headD 0) (b.headD 0)]
  match name with
  | "sum" => pure (on fun a b => min (a + b) (2 ^ 32 - 1))
  | "max" => pure (on max)
  | "mix" => pure (on fun a b => (31 * a + b) % 2 ^ 32)
  | "first" => pure fun a _ => a          -- ScmapCompress: payloads are equal along a path
  | _ => throw "bad-reduce"

def joinOf (name : String) : R (List Nat → List Nat → Bool) :=
  match name with
  | "always" => pure fun _ _ => true
  | "eq" => pure fun a b => a == b
  | _ => throw "bad-join"

end Drv.Gr
