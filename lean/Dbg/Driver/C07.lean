import Dbg.Driver.Util
import Dbg.Spec.C07
import Dbg.Model.MspSeq
namespace Drv.C07
open Msp

open Compress (rank)

/-- score functions the harness can express on both sides -/
def parseScore (p : Nat) (s : String) : R (Compress.Seq → Nat) :=
  match s.splitOn ":" with
  | ["tab", t] => do
    let tab ← natList t
    if tab.length ≠ 4 ^ p then throw "bad-table" else
    let arr := tab.toArray
    pure fun w => arr[rank w]?.getD 0     -- total: rank w < 4^p for a p-mer
  | ["lin", t] => do
    match ← natList t with
    | [a, b, m] => if m = 0 then throw "bad-lin" else pure fun w => ((rank w * a + b) % 1000003) % m
    | _ => throw "bad-lin"
  | ["big", t] => do
    -- scores far above 2^32 (a narrowing of the cached score would reorder them)
    match ← natList t with
    | [a, b] => pure fun w => (let x := (rank w * a + b) % 1000003; x * 4294967296 + (1000003 - x))
    | _ => throw "bad-big"
  | ["const"] => pure fun _ => 7
  | _ => throw s!"bad-score:{s}"

def showIvs (ivs : List Iv) : String :=
  if ivs.isEmpty then "-" else
  ";".intercalate (ivs.map fun iv => s!"{iv.start}:{iv.len}:{iv.mpos}:{showDigits iv.mini}")

def parseIvs (s : String) : R (List Iv) :=
  if s == "-" then pure [] else
  (s.splitOn ";").mapM fun t =>
    match t.splitOn ":" with
    | [a, b, c, d] => do pure ⟨← nat a, ← nat b, ← nat c, ← digits d⟩
    | _ => throw "bad-interval"

def parseTriples (s : String) : R (List (Nat × Nat × Nat)) :=
  if s == "-" then pure [] else
  (s.splitOn ";").mapM fun t =>
    match t.splitOn ":" with
    | [a, b, c] => do pure (← nat a, ← nat b, ← nat c)
    | _ => throw "bad-interval"

/-- `scan <k> <p> <seq> <score> [container]` — the container (slice / string / lmer3) only selects which
    `Vmer` implementation the harness scans; the model is the same for all of them -/
def handle (args : List String) (impl : String) : R Ans :=
  match args with
  | ["sscan", k, p, rcm, perm, read] => do
    -- the deprecated wrapper `simple_scan` (an observation point of C07): intervals `(bucket, start, len)`
    let k ← nat k; let p ← nat p; let rcm ← bool rcm
    let perm := (← natList perm).toArray
    let seq := (← digits read).toArray
    let model := match simpleScan k p seq perm rcm with
      | none => "panic"
      | some ivs => if ivs.isEmpty then "-" else ";".intercalate (ivs.map fun (b, s, l) => s!"{b}:{s}:{l}")
    let inGuard := 1 ≤ p ∧ p ≤ 8 ∧ p ≤ k ∧ k ≤ seq.size ∧ seq.size < 2 ^ 32 ∧ 4 ^ p ≤ perm.size ∧ 2 * k - p ≤ 65535
    let verdict ←
      if impl == "panic" then pure (if inGuard then "FAIL:panic-inside-guard" else "ok")
      else if ¬ inGuard then pure "ok" else do
        let ivs ← parseTriples impl
        let sc := fun (q : Nat) => permScore perm rcm (window seq p q)
        let m := seq.size
        -- start order, k-1 overlaps, every k-mer start in one interval, lengths within k..2k-p
        let tiles := (ivs.head?.map (·.2.1) == some 0) && (ivs.getLast?.map (fun iv => iv.2.1 + iv.2.2) == some m) &&
          (ivs.zip ivs.tail).all (fun (a, b) => a.2.1 + a.2.2 == b.2.1 + (k - 1) && a.2.1 < b.2.1) &&
          ivs.all (fun iv => k ≤ iv.2.2 && iv.2.2 ≤ 2 * k - p)
        -- the bucket is the canonical rank of a p-mer that lies in every k-mer of the interval and has the minimum score
        let minOK := ivs.all fun (b, s, l) =>
          let qs := (List.range (l + 1 - p)).map (· + s)
          let best := qs.foldl (fun acc q => min acc (sc q)) (sc s)
          qs.any fun q => sc q == best && s + l - k ≤ q && q + p ≤ s + k && rank (minRc (window seq p q)) % 2 ^ 16 == b
        pure (if ¬ tiles then "FAIL:intervals-do-not-tile-the-kmer-starts" else if ¬ minOK then "FAIL:minimizer-not-minimal" else "ok")
    pure { model, verdict }
  | ["scan", k, p, seq, score, _] => handle ["scan", k, p, seq, score] impl
  | ["scan", k, p, seq, score] => do
    let k ← nat k; let p ← nat p
    let seq := (← digits seq).toArray
    let score ← parseScore p score
    let model := match scan seq score k p with
      | some ivs => showIvs ivs
      | none => "panic"
    -- the property's own guard: 1 ≤ p ≤ k ≤ |seq| < 2^32 (2k-p ≤ 65535 is *not* part of the
    -- property: outside it the verdict is the known finding D7)
    let inGuard := 1 ≤ p ∧ p ≤ k ∧ k ≤ seq.size ∧ seq.size < 2 ^ 32
    let verdict ←
      if impl == "panic" then pure (if inGuard then "FAIL:panic-inside-guard" else "ok")
      else do
        let ivs ← parseIvs impl
        pure (let e := explainC07 seq score k p ivs
              if e == "ok" then (if holdsC07 seq score k p ivs then "ok" else "FAIL:holds") else s!"FAIL:{e}")
    pure { model, verdict }
  | _ => throw "bad-request"

end Drv.C07
