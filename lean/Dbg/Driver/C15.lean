import Dbg.Driver.C14
/-! C15: slices of a DnaString, nested and reverse-complemented, against substrings of the base vector. -/
namespace Drv.C15
open DnaStr Drv.C10 Drv.C14

inductive SOp | slice (a b : Nat) | rc | pre (k : Nat) | suf (k : Nat)

def parseOp (t : String) : R SOp :=
  match t.toList with
  | ['r'] => pure .rc
  | 's' :: r => match (String.ofList r).splitOn "-" with
    | [a, b] => do pure (.slice (← nat a) (← nat b))
    | _ => throw "bad-slice-op"
  | 'p' :: r => do pure (.pre (← nat (String.ofList r)))
  | 'x' :: r => do pure (.suf (← nat (String.ofList r)))
  | _ => throw "bad-slice-op"

/-- model: the first operation acts on the DnaString, the rest on slices -/
def stepM (d : T) (cur : Option Slice) : SOp → Option Slice
  | .slice a b => match cur with | none => sliceOf d a b | some s => s.slice a b
  | .rc => match cur with | none => (sliceOf d 0 d.len).map Slice.rc | some s => some s.rc
  | .pre k => match cur with | none => prefix_ d k | some s => s.slice 0 k
  | .suf k => match cur with | none => suffix_ d k | some s => if k ≤ s.length then s.slice (s.length - k) s.length else none

/-- spec: the same on a plain vector; `none` = out of range (the real code asserts) -/
def stepS (l : List Nat) : SOp → Option (List Nat)
  | .slice a b => if a ≤ b ∧ b ≤ l.length then some ((l.drop a).take (b - a)) else none
  | .rc => some (KSpec.rc l)
  | .pre k => if k ≤ l.length then some (l.take k) else none
  | .suf k => if k ≤ l.length then some (l.drop (l.length - k)) else none

def showS (s : Slice) : String := s!"{s.start}:{s.length}:{if s.isRc then 1 else 0}"

def handle (args : List String) (impl : String) : R Ans :=
  match args with
  | ["slice", seq, ops, ktype, pos] => do
    let seq ← natDigits seq
    let ops ← (ops.splitOn ",").mapM parseOp
    let some c := Kmer.Cfg.ofName ktype | throw "bad-type"
    let pos ← nat pos
    let some d := fromBytes seq | throw "bad-seq"
    -- model
    let mut cur : Option Slice := none
    let mut ok := true
    let mut tr : List String := []
    for op in ops do
      if ok then
        match stepM d cur op with
        | some s => cur := some s; tr := showS s :: tr
        | none => ok := false
    let spec := ops.foldl (fun (acc : Option (List Nat)) op => acc.bind (stepS · op)) (some seq)
    let model ← match ok, cur with
      | true, some s => do
        let bs := (Slice.bytes d s).getD []
        let owned := (Slice.toOwned d s).getD DnaStr.new
        let other := ((fromBytes bs).getD DnaStr.new)
        let eq := (Slice.eq d s other ⟨0, other.len, false⟩).getD false
        let km := match Slice.getKmer c d s pos with | some k => showK c k | none => "panic"
        let b2n := fun (o : Option Bool) (w : Nat) => if o.getD false then w else 0
        let eqrc := b2n (Slice.eq d s d (Slice.rc s)) 1 + b2n (Slice.eq d (Slice.rc s) d s) 2 + b2n (Slice.eq d s d (Slice.rc (Slice.rc s))) 4
        pure (";".intercalate tr.reverse ++
          s!"|bytes={showNats bs} ascii={txt ((Slice.ascii d s).getD [])} str={txt ((Slice.toDnaString d s).getD [])} disp={txt ((Slice.display d s).getD [])} owned={showT owned} eq={if eq then 1 else 0} eqrc={eqrc} it={adaptorsTxt (bs.map toString)} kmer={km} dbg={txt ((Slice.debug d s).getD [])}")
      | _, _ => pure "panic"
    let verdict ← match spec with
      | none => pure (if impl == "panic" then "ok" else "FAIL:no-panic-on-out-of-range-interval")
      | some l => do
        if impl == "panic" then pure "FAIL:panic-in-range" else
        match impl.splitOn "|" with
        | [_, tl] =>
          let ownedExpect := showT ((fromBytes l).getD DnaStr.new)
          let kmExpect := if pos + c.K ≤ l.length then
              let w := (l.drop pos).take c.K
              s!"{toHex (KSpec.val4 w)}:{showNats w}"
            else "panic"
          let expect := s!"bytes={showNats l} ascii={txt (KSpec.toText l)} str={txt (KSpec.toText l)} disp={txt (KSpec.toText l)} owned={ownedExpect} eq=1 eqrc={if l == KSpec.rc l then 7 else 4} it={adaptorsTxt (l.map toString)} kmer={kmExpect}"
          -- the debug form is the last field; from length 256 on it is a summary that does not render the
          -- sequence, so it is compared with the model only
          let (front, dbg) := match tl.splitOn " dbg=" with
            | [f, g] => (f, g)
            | _ => (tl, "?")
          pure (if front ≠ expect then s!"FAIL:slice-content-differs-from-substring(expected {expect})"
                else if l.length < 256 ∧ dbg ≠ txt (KSpec.toText l) then "FAIL:debug-form-differs-from-substring"
                else "ok")
        | _ => pure "FAIL:malformed-answer"
    pure { model, verdict }
  | ["ham", s1, s2, a1, r1, a2, r2, n] => do
    let l1 ← natDigits s1; let l2 ← natDigits s2
    let a1 ← nat a1; let a2 ← nat a2; let n ← nat n; let r1 ← bool r1; let r2 ← bool r2
    let some d1 := fromBytes l1 | throw "bad-seq"
    let some d2 := fromBytes l2 | throw "bad-seq"
    let mk (d : T) (a : Nat) (r : Bool) : Option Slice := (sliceOf d a (a + n)).map fun s => if r then s.rc else s
    let model := match mk d1 a1 r1, mk d2 a2 r2 with
      | some x, some y => (match Slice.hammingDist d1 x d2 y with | some v => toString v | none => "panic")
      | _, _ => "panic"
    let sub (l : List Nat) (a : Nat) (r : Bool) := let w := (l.drop a).take n; if r then KSpec.rc w else w
    let inRange := a1 + n ≤ l1.length ∧ a2 + n ≤ l2.length
    let verdict := if ¬ inRange then (if impl == "panic" then "ok" else "FAIL:no-panic-on-out-of-range-interval")
      else if impl == toString (KSpec.hamming (sub l1 a1 r1) (sub l2 a2 r2)) then "ok" else "FAIL:hamming-distance-differs-from-number-of-differing-positions"
    pure { model, verdict }
  | _ => throw "bad-request"

end Drv.C15
