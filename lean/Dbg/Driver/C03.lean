import Dbg.Driver.Graphs
import Dbg.Spec.C03
import Dbg.Lemmas.GraphSym
/-! C03: edges / links / extension pruning / walks of a finished graph. -/
namespace Drv.C03
open Compress Graph Drv.Gr
open Walk (Dir)

def parseEdge (s : String) : R Edge :=
  match s.toList.reverse with
  | f :: d :: r => do
    let id ← nat (String.ofList r.reverse)
    let d ← parseDir (String.ofList [d])
    pure (id, d, f == 'f')
  | _ => throw "bad-edge"
def parseEdges (s : String) : R (List Edge) := if s == "-" then pure [] else (s.splitOn ".").mapM parseEdge

def showPath (p : List (Nat × Dir)) : String := if p.isEmpty then "-" else ".".intercalate (p.map fun (i, d) => s!"{i}{showDir d}")
def parsePath (s : String) : R (List (Nat × Dir)) :=
  if s == "-" then pure [] else (s.splitOn ".").mapM fun t =>
    match t.toList.reverse with
    | d :: r => do pure (← nat (String.ofList r.reverse), ← parseDir (String.ofList [d]))
    | _ => throw "bad-path"

def allEdges (g : G (List Nat)) : List (List Edge × List Edge) :=
  (List.range g.nodes.length).map fun i => ((findEdges g i .L).getD [], (findEdges g i .R).getD [])
def showAllEdges (a : List (List Edge × List Edge)) : String :=
  if a.isEmpty then "-" else ",".intercalate (a.map fun (l, r) => s!"{showEdges l}/{showEdges r}")
def parseAllEdges (s : String) : R (List (List Edge × List Edge)) :=
  if s == "-" then pure [] else (s.splitOn ",").mapM fun t =>
    match t.splitOn "/" with
    | [l, r] => do pure (← parseEdges l, ← parseEdges r)
    | _ => throw "bad-edges"

def field (impl : String) (name : String) : Option String :=
  (impl.splitOn "|").findSome? fun f => if f.startsWith (name ++ "=") then some ((f.drop (name.length + 1)).toString) else none

/-- the (K+1)-mers of the reads as unordered canonical port pairs between retained k-mers -/
def observedAdj (K : Nat) (st : Bool) (reads : List Seq) (keys : List Seq) : List (Seq × Seq) :=
  let raw := reads.flatMap fun r => (windowsOf (K + 1) r).filterMap fun w =>
    let x := (canonOf st (w.take K)).1; let y := (canonOf st (w.drop 1)).1
    if keys.contains x ∧ keys.contains y then some (if x ≤ y then (x, y) else (y, x)) else none
  raw.eraseDups

def parseProbe (t : String) : R (Seq × Dir) :=
  match t.splitOn "@" with
  | [km, d] => do pure (← digits km, ← parseDir d)
  | _ => throw "bad-probe"

def parseScore (t : String) : R (Nat × Bool) :=
  match t.splitOn "/" with
  | [a, b] => do pure (← nat a, ← bool b)
  | _ => throw "bad-score"

def handle (args : List String) (impl : String) : R Ans :=
  match args with
  | ["graph", k, st, nodes, probes, valid, scores, walk] => do
    let K ← nat k; let st ← bool st
    let ns ← parseNodes nodes
    let g : G (List Nat) := ⟨K, ns, st⟩
    let probes ← if probes == "-" then pure [] else (probes.splitOn ";").mapM parseProbe
    let valid ← if valid == "*" then pure none else do pure (some (← natList valid))
    let scores ← if scores == "-" then pure [] else (scores.splitOn ",").mapM parseScore
    let walk ← parsePath walk
    -- payload carries the node id in these requests so that score/solid can be looked up
    let scoreOf := fun (d : List Nat) => ((scores.getD (d.headD 0) (0, false)).1 : Int)
    let solidOf := fun (d : List Nat) => (scores.getD (d.headD 0) (0, false)).2
    let edges := allEdges g
    let links := probes.map fun (km, d) => match findLink g km d with | some e => showEdge e | none => "none"
    let vex := (List.range ns.length).map fun i => (getValidExts g i valid).getD ⟨0⟩
    let mp := maxPath g scoreOf solidOf
    let mpSeq := sequenceOfPath g mp
    let wSeq := sequenceOfPath g walk
    let beams := [1, 2, 5].map fun b => maxPathBeam g b scoreOf
    let showB := fun (p : Option (List (Nat × Dir))) => match p with | some p => showPath p | none => "panic"
    let showBS := fun (p : Option (List (Nat × Dir))) => match p with
      | some p => (match sequenceOfPath g p with | some s => showDigits s | none => "panic")
      | none => "panic"
    let model := s!"edges={showAllEdges edges}|links={if links.isEmpty then "-" else ",".intercalate links}|valid={if vex.isEmpty then "-" else ",".intercalate (vex.map fun e => toHex e.val 2)}|maxpath={showPath mp}|mpseq={match mpSeq with | some s => showDigits s | none => "panic"}|wseq={match wSeq with | some s => showDigits s | none => "panic"}|beam={";".intercalate (beams.map showB)}|bseq={";".intercalate (beams.map showBS)}|iter={if ns.isEmpty then "-" else ",".intercalate (ns.zipIdx.map fun (n, i) => s!"{i}:{showDigits n.seq}:{toHex n.exts.val 2}:{n.data.headD 0}")}"
    -- a recorded extension that resolves to no node end (the beam search is only judged without any)
    let dangling := ns.any fun n => [Dir.L, Dir.R].any fun d => base4.any fun b =>
      n.exts.hasExt d b.val && (findLink g (extend (termKmer K n.seq d) b d) d).isNone
    let verdict ← do
      if impl == "panic" then pure "FAIL:panic-in-range" else
      match field impl "edges", field impl "valid", field impl "maxpath", field impl "mpseq", field impl "wseq" with
      | some e, some v, some m, some ms, some ws => do
        let ie ← parseAllEdges e
        let il ← match field impl "links" with
          | some l => if l == "-" then pure [] else (l.splitOn ",").mapM fun t => if t == "none" then pure none else do pure (some (← parseEdge t))
          | none => throw "malformed-answer"
        let iv ← if v == "-" then pure [] else (v.splitOn ",").mapM fun h => do pure (⟨← hex h⟩ : Exts)
        let im ← parsePath m
        let ims ← digits ms; let iws ← digits ws
        let ib ← match field impl "beam", field impl "bseq" with
          | some b, some bs =>
            if (b.splitOn ";").length ≠ 3 ∨ (bs.splitOn ";").length ≠ 3 then throw "malformed-answer" else
            ((b.splitOn ";").zip (bs.splitOn ";")).mapM fun (x : String × String) =>
              if x.1 == "panic" ∨ x.2 == "panic" then pure none else do pure (some (← parsePath x.1, ← digits x.2))
          | _, _ => throw "malformed-answer"
        pure (if ¬ edgesSound g ie then "FAIL:edge-without-K-1-overlap/arrival-side/flip"
              else if il.length ≠ probes.length ∨ ¬ (probes.zip il).all (fun (p, a) => linkExact g p.1 p.2 a) then "FAIL:link-lookup-not-exact"
              else if ¬ validExtsExact g valid iv then "FAIL:extension-pruning-not-exact"
              else if ¬ walkValid ie im then "FAIL:best-path-steps-off-the-reported-edges"
              else if ¬ (im.map (·.1)).Nodup then "FAIL:best-path-repeats-a-node"
              else if ¬ pathSeqOK g im ims then "FAIL:best-path-sequence-kmers-differ-from-walked-nodes"
              else if walkValid ie walk ∧ ¬ pathSeqOK g walk iws then "FAIL:walk-sequence-kmers-differ-from-walked-nodes"
              else if ib.any (·.isNone) ∧ ¬ dangling then "FAIL:beam-search-panics-on-a-graph-whose-extensions-all-resolve"
              else if ¬ ib.all (fun x => match x with | some (p, _) => walkValid ie p | none => true) then "FAIL:beam-path-steps-off-the-reported-edges"
              else if ¬ ib.all (fun x => match x with | some (p, s) => p.isEmpty ∨ pathSeqOK g p s | none => true) then "FAIL:beam-path-sequence-kmers-differ-from-walked-nodes"
              else "ok")
      | _, _, _, _, _ => pure "FAIL:malformed-answer"
    pure { model, verdict }
  | ["prune", k, st, sharded, table, allk] => do
    let _K ← nat k; let st ← bool st; let sh ← bool sharded
    let T ← parseTable table
    let all ← if allk == "-" then pure [] else (allk.splitOn ",").mapM digits
    let out := if sh then Filter.removeCensoredExtsSharded st T all else Filter.removeCensoredExts st T
    let verdict ← do
      if impl == "panic" then pure "FAIL:panic-in-range" else do
      let it ← parseTable impl
      pure (if (if sh then pruneShardedExact st T it all else pruneExact st T it) then "ok" else "FAIL:pruning-not-exact")
    pure { model := showTable out, verdict }
  | ["pipe", k, st, thr, reads] => do
    -- answer: `sigma=…|nodes=…|edges=…` of filter → prune → compress → finish on the real crate
    -- `thr` = `<n>`: CountFilter(n); `s<n>`: CountFilterSet(n) with every read labelled 0 (payload = the code 1 of the label set {0})
    let setMode := thr.startsWith "s"
    let K ← nat k; let st ← bool st; let thr ← nat (if setMode then (thr.drop 1).toString else thr)
    let reads ← parseReads reads
    match field impl "sigma", field impl "nodes", field impl "edges" with
    | some sg, some nd, some ed => do
      let sigma ← natList sg
      let some fr := Filter.filterKmers K reads (if setMode then .set thr else .count thr) st false 4 Gen.filterBytesPerUnit 16 | throw "filter-panic"
      let T0 := (Filter.removeCensoredExts st fr.table).map fun e => if setMode then { e with data := [1] } else e
      let T := sigma.filterMap fun i => T0[i]?
      let on := fun (f : Nat → Nat → Nat) (a b : List Nat) => [f (a.headD 0) (b.headD 0)]
      let res := compressKmersC T st (fun _ _ => true) (on fun a b => min (a + b) (2 ^ 32 - 1))
      let g : G (List Nat) := ⟨K, (res.getD []).map (·.1), st⟩
      let model := s!"sigma={sg}|nodes={match res with | some _ => showNodes g.nodes | none => "panic"}|edges={showAllEdges (allEdges g)}"
      let ins ← parseNodes nd
      let ie ← parseAllEdges ed
      let ig : G (List Nat) := ⟨K, ins, st⟩
      -- adjacencies of the graph as unordered canonical k-mer pairs: node-internal steps and resolved edges
      let keys := T0.map (·.key)
      let internal := ins.flatMap fun n =>
        let ws := (windowsOf K n.seq).map fun w => (canonOf st w).1
        (ws.zip ws.tail).map fun (x, y) => if x ≤ y then (x, y) else (y, x)
      let external := ie.zipIdx.flatMap fun ((le, re), u) =>
        let mk := fun (d : Dir) (es : List Edge) => es.filterMap fun e =>
          match ins[u]?, ins[e.1]? with
          | some nu, some nv =>
            let x := (canonOf st (termKmer K nu.seq d)).1; let y := (canonOf st (termKmer K nv.seq e.2.1)).1
            some (if x ≤ y then (x, y) else (y, x))
          | _, _ => none
        mk .L le ++ mk .R re
      let adj := (internal ++ external).eraseDups
      let obs := observedAdj K st (reads.map (·.1)) keys
      let same := adj.all (obs.contains ·) && obs.all (adj.contains ·)
      pure { model,
             verdict := if ¬ edgesSound ig ie then "FAIL:edge-without-K-1-overlap/arrival-side/flip"
                        else if ¬ ginvOK ig then "FAIL:node-level-invariant-violated(unique-ends/reciprocal-extensions)"
                        else if ¬ edgesSymmetric ig ie then "FAIL:edges-not-symmetric"
                        else if ¬ same then "FAIL:adjacencies-differ-from-the-(K+1)-mers-of-the-reads"
                        else "ok" }
    | _, _, _ => pure { model := "panic", verdict := "FAIL:panic-in-range" }
  | _ => throw "bad-request"

end Drv.C03
