import Dbg.Driver.Util
import Dbg.Spec.C08
namespace Drv.C08
open Msp

def maxLenOf (container : String) : R Nat :=
  match container with
  | "bytes" => pure (2 ^ 48)
  | "string" => pure (2 ^ 64 - 1)
  | "lmer1" => pure 28
  | "lmer2" => pure 60
  | "lmer3" => pure 92
  | _ => throw "bad-container"

def showPieces (ps : List Piece) : String :=
  if ps.isEmpty then "-" else ";".intercalate (ps.map fun pc => s!"{pc.bucket}:{toHex pc.exts 2}:{showDigits pc.seq}")

def parsePieces (s : String) : R (List Piece) :=
  if s == "-" then pure [] else
  (s.splitOn ";").mapM fun t =>
    match t.splitOn ":" with
    | [a, b, c] => do pure ⟨← nat a, ← hex b, ← digits c⟩
    | _ => throw "bad-piece"

/-- `msp <k> <p> <rc> <perm|default> <container> <read,read,…>` -/
def handle (args : List String) (impl : String) : R Ans :=
  match args with
  | ["sscan", k, p, rcm, perm, read] => do
    -- the deprecated `simple_scan`
    let k ← nat k; let p ← nat p; let rcm ← bool rcm
    let perm ← natList perm
    let r ← digits read
    let model := match simpleScan k p r.toArray perm.toArray rcm with
      | none => "panic"
      | some ivs => if ivs.isEmpty then "-" else ";".intercalate (ivs.map fun (b, s, l) => s!"{b}:{s}:{l}")
    pure { model, verdict := "ok" }
  | ["msp", k, p, rcm, perm, container, reads] => do
    let k ← nat k; let p ← nat p; let rcm ← bool rcm
    let perm ← if perm == "default" then pure none else do pure (some (← natList perm).toArray)
    let maxLen ← maxLenOf container
    let reads ← (reads.splitOn ",").mapM fun r => do pure (← digits r).toArray
    let outs := reads.map fun r => mspSequence k p r perm rcm maxLen
    let model := if outs.any (·.isNone) then "panic" else "|".intercalate (outs.map fun o => showPieces (o.getD []))
    -- guard of the property: p < k, pieces fit the container, permutation covers all p-mers
    let permArr := perm.getD (Array.range (4 ^ p))
    let inGuard := 1 ≤ p ∧ p < k ∧ 2 * k - p ≤ maxLen ∧ 4 ^ p ≤ permArr.size ∧ 2 * k - p ≤ 65535
    let verdict ←
      if impl == "panic" then pure (if inGuard then "FAIL:panic-inside-guard" else "ok")
      else if ¬ inGuard then pure "ok" else do
        let parts := impl.splitOn "|"
        if parts.length ≠ reads.length then pure "FAIL:wrong-number-of-reads" else
        let mut v := "ok"
        for (r, t) in reads.zip parts do
          let pcs ← parsePieces t
          let e := explainC08 permArr rcm k p r pcs
          if e ≠ "ok" then v := s!"FAIL:{e}"
          else if ¬ holdsC08 permArr rcm k p r pcs then v := "FAIL:holds"
        pure v
    pure { model, verdict }
  | _ => throw "bad-request"

end Drv.C08
