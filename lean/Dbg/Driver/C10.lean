import Dbg.Model.KmerExts
import Dbg.Driver.Util
import Dbg.Spec.C10
/-! Requests on packed k-mers (C10, and the histories of C11). K-mers travel as raw storage in hex; a
    k-mer-valued answer is `<hex>:<bases>` where the bases are what the implementation's own `get`
    reads back. The verdict compares those bases with the string-level reference applied to the
    bases of the inputs and checks that no bit outside the 2K used ones is set. -/
namespace Drv.C10
open Kmer

def natDigits (s : String) : R (List Nat) := do pure ((← digits s).map (·.val))
def showNats (l : List Nat) : String := if l.isEmpty then "-" else String.ofList (l.map fun b => Char.ofNat (b + '0'.toNat))

def showK (c : Cfg) (s : St c) : String := s!"{toHex s.toNat}:{showNats (toSeq c s)}"

/-- parse `<hex>:<bases>` -/
def parseK (s : String) : R (Nat × List Nat) :=
  match s.splitOn ":" with
  | [h, d] => do pure (← hex h, ← natDigits d)
  | _ => throw "bad-kmer-answer"

def inv (c : Cfg) (raw : Nat) : Bool := raw < 2 ^ (2 * c.K)

/-- verdict for a k-mer valued answer -/
def vK (c : Cfg) (impl : String) (expect : List Nat) : R String := do
  if impl == "panic" then return "FAIL:panic-in-range"
  let (raw, bases) ← parseK impl
  if bases ≠ expect then return "FAIL:result-differs-from-string-operation"
  if ¬ inv c raw then return "FAIL:bits-set-outside-the-K-lanes"
  return "ok"

def vEq (impl expect : String) : String :=
  if impl == expect then "ok" else "FAIL:result-differs-from-string-operation"

def vList (c : Cfg) (impl : String) (expect : List (List Nat)) : R String := do
  let parts := if impl == "-" then [] else impl.splitOn ","
  if parts.length ≠ expect.length then return "FAIL:wrong-number-of-kmers"
  let mut v := "ok"
  for (p, e) in parts.zip expect do
    let r ← vK c p e
    if r ≠ "ok" then v := r
  return v

def handle (args : List String) (impl : String) : R Ans :=
  match args with
  | ty :: op :: rest => do
    let some c := Cfg.ofName ty | throw "bad-type"
    let st (h : String) : R (St c) := do pure (BitVec.ofNat c.w (← hex h))
    match op, rest with
    | "get", [x, pos] => do
      let s ← st x; let pos ← nat pos
      pure { model := toString (get c s pos), verdict := vEq impl (toString ((toSeq c s).getD pos 99)) }
    | "set", [x, pos, v] => do
      let s ← st x; let pos ← nat pos; let v ← nat v
      pure { model := showK c (setMut c s pos v), verdict := ← vK c impl ((toSeq c s).set pos v) }
    | "setslice", [x, pos, n, value] => do
      let s ← st x; let pos ← nat pos; let n ← nat n; let value := BitVec.ofNat 64 (← hex value)
      pure { model := showK c (setSliceMut c s pos n value), verdict := ← vK c impl (KSpec.setSlice (toSeq c s) pos n value) }
    | "extl", [x, v] => do
      let s ← st x; let v ← nat v
      pure { model := showK c (extendLeft c s v), verdict := ← vK c impl (KSpec.extendLeft (toSeq c s) v) }
    | "extr", [x, v] => do
      let s ← st x; let v ← nat v
      pure { model := showK c (extendRight c s v), verdict := ← vK c impl (KSpec.extendRight (toSeq c s) v) }
    | "rc", [x] => do
      let s ← st x
      pure { model := showK c (rc c s), verdict := ← vK c impl (KSpec.rc (toSeq c s)) }
    | "tou64", [x] => do
      let s ← st x
      let model := match toU64 c s with | some v => toString v | none => "panic"
      -- rank conversion is claimed for K ≤ 32 only
      pure { model, verdict := if c.K ≤ 32 then vEq impl (toString (KSpec.val4 (toSeq c s))) else "ok" }
    | "fromu64", [v] => do
      let v ← nat v
      let model := match fromU64 c v with | some s => showK c s | none => "panic"
      -- K ≤ 32: ranks below 4^K; K > 32: any u64, the leading bases are A (documented)
      let verdict ← if v < 4 ^ c.K ∧ v < 2 ^ 64 then vK c impl (KSpec.digits4 c.K v) else pure "ok"
      pure { model, verdict }
    | "ham", [x, y] => do
      let s ← st x; let t ← st y
      pure { model := toString (hammingDist c s t), verdict := vEq impl (toString (KSpec.hamming (toSeq c s) (toSeq c t))) }
    | "at", [x] => do
      let s ← st x
      pure { model := toString (atCount c s), verdict := vEq impl (toString (KSpec.atCount (toSeq c s))) }
    | "gc", [x] => do
      let s ← st x
      pure { model := toString (gcCount c s), verdict := vEq impl (toString (KSpec.gcCount (toSeq c s))) }
    | "tostr", [x] => do
      let s ← st x
      -- `to_string()` and the `Debug` form both render the K letters
      let m := String.ofList ((toStr c s).map Char.ofNat)
      let e := String.ofList ((KSpec.toText (toSeq c s)).map Char.ofNat)
      pure { model := m ++ "|" ++ m, verdict := vEq impl (e ++ "|" ++ e) }
    | "frombytes", [bs] => do
      let bs ← natDigits bs
      let model := match fromBytes c bs with | some s => showK c s | none => "panic"
      let verdict ← if c.K ≤ bs.length then vK c impl (bs.take c.K) else pure (if impl == "panic" then "ok" else "FAIL:no-panic-on-short-input")
      pure { model, verdict }
    | "fromascii", [txt] => do
      let bs := txt.toList.map Char.toNat
      let model := match fromAscii c bs with | some s => showK c s | none => "panic"
      let verdict ← if c.K ≤ bs.length then vK c impl ((bs.take c.K).map KSpec.asciiToBase) else pure (if impl == "panic" then "ok" else "FAIL:no-panic-on-short-input")
      pure { model, verdict }
    | "minrc", [x] => do
      let s ← st x
      let (m, f) := minRcFlip c s
      let model := s!"{showK c m}:{if f then 1 else 0}:{showK c (minRc c s)}:{if isPalindrome c s then 1 else 0}"
      -- impl: `<hex>:<bases>:<flip>:<hex>:<bases>:<pal>`
      let verdict ← match impl.splitOn ":" with
        | [h1, b1, f1, h2, b2, p1] => do
          let l := toSeq c s
          let e := KSpec.minRc l
          let v1 ← vK c s!"{h1}:{b1}" e
          let v2 ← vK c s!"{h2}:{b2}" e
          let flipOk := (f1 == "1") == !(KSpec.lexLt l (KSpec.rc l))
          let palOk := (p1 == "1") == (l == KSpec.rc l)
          pure (if v1 ≠ "ok" then v1 else if v2 ≠ "ok" then v2 else if ¬ flipOk then "FAIL:flip-flag" else if ¬ palOk then "FAIL:palindrome-flag" else "ok")
        | _ => pure "FAIL:panic-in-range"
      pure { model, verdict }
    | "cmp", [x, y] => do
      let s ← st x; let t ← st y
      let ord := fun (a b : Bool) => if a then "lt" else if b then "gt" else "eq"
      let l := toSeq c s; let m := toSeq c t
      pure { model := ord (lt c s t) (lt c t s), verdict := vEq impl (ord (KSpec.lexLt l m) (KSpec.lexLt m l)) }
    | "kmersb", [bs] => do
      let bs ← natDigits bs
      let show' := fun (l : List (St c)) => if l.isEmpty then "-" else ",".intercalate (l.map (showK c))
      pure { model := show' (kmersFromBytes c bs), verdict := ← vList c impl (KSpec.windows c.K bs) }
    | "kmersa", [txt] => do
      let bs := txt.toList.map Char.toNat
      let show' := fun (l : List (St c)) => if l.isEmpty then "-" else ",".intercalate (l.map (showK c))
      pure { model := show' (kmersFromAscii c bs), verdict := ← vList c impl (KSpec.windows c.K (bs.map KSpec.asciiToBase)) }
    | "extend", [x, v, d] => do
      let s ← st x; let v ← nat v
      let right := d == "R"
      pure { model := showK c (extend c s v right),
             verdict := ← vK c impl (if right then KSpec.extendRight (toSeq c s) v else KSpec.extendLeft (toSeq c s) v) }
    | "iter", [x] => do
      let s ← st x
      let txt := String.join ((toSeq c s).map toString) ++ " it=" ++ adaptorsTxt ((toSeq c s).map toString)
      pure { model := txt, verdict := vEq impl txt }
    | "setimm", [x, pos, v] => do
      -- `MerImmut::set`: the copy is changed, the original is not
      let s ← st x; let pos ← nat pos; let v ← nat v
      let model := s!"{showK c (setMut c s pos v)}|{showK c s}"
      let verdict ← match impl.splitOn "|" with
        | [y, x0] => do
          let v1 ← vK c y ((toSeq c s).set pos v)
          let v2 ← vK c x0 (toSeq c s)
          pure (if v1 ≠ "ok" then v1 else v2)
        | _ => pure "FAIL:malformed-answer"
      pure { model, verdict }
    | "setsliceimm", [x, pos, n, value] => do
      let s ← st x; let pos ← nat pos; let n ← nat n; let value := BitVec.ofNat 64 (← hex value)
      let model := s!"{showK c (setSliceMut c s pos n value)}|{showK c s}"
      let verdict ← match impl.splitOn "|" with
        | [y, x0] => do
          let v1 ← vK c y (KSpec.setSlice (toSeq c s) pos n value)
          let v2 ← vK c x0 (toSeq c s)
          pure (if v1 ≠ "ok" then v1 else v2)
        | _ => pure "FAIL:malformed-answer"
      pure { model, verdict }
    | "meta", [x] => do
      let _s ← st x
      let model := s!"len={c.K} empty={if c.K == 0 then 1 else 0} k={c.K} zero={showK c (empty c)}"
      pure { model, verdict := vEq impl model }
    | "getexts", [x, e, d] => do
      -- `get_extensions(exts, dir)`
      let s ← st x
      let ex : Compress.Exts := ⟨← hex e⟩
      let d ← if d == "L" then pure Walk.Dir.L else if d == "R" then pure Walk.Dir.R else throw "bad-dir"
      let show' := fun (l : List (St c)) => if l.isEmpty then "-" else ",".intercalate (l.map (showK c))
      let expect := (ex.get d).map fun b => match d with
        | .R => KSpec.extendRight (toSeq c s) b
        | .L => KSpec.extendLeft (toSeq c s) b
      pure { model := show' (getExtensions c s ex d), verdict := ← vList c impl expect }
    | "hd1", [x] => do
      -- `KmerOneHammingIter`: all k-mers at Hamming distance 1, in iteration order
      let s ← st x
      let show' := fun (l : List (St c)) => if l.isEmpty then "-" else ",".intercalate (l.map (showK c))
      pure { model := show' (hd1 c s), verdict := ← vList c impl (KSpec.hd1 (toSeq c s)) }
    | _, _ => throw "bad-op"
  | _ => throw "bad-request"

end Drv.C10
