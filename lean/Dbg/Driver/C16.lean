import Dbg.Driver.C14
import Dbg.Model.Avx2
/-! C16: ASCII ingestion — both paths of `from_acgt_bytes`, the raw AVX2 kernels, the str constructors,
    the strict constructor and the hashed-N constructor. -/
namespace Drv.C16
open Drv.C10 Drv.C14

def showBytes (l : List Nat) : String := if l.isEmpty then "-" else String.ofList (l.flatMap fun b => [hexChar (b / 16), hexChar (b % 16)])

def isAcgt (c : Nat) : Bool := Gen.isValidBase.getD c 0 == 1
def upper (c : Nat) : Nat := if 97 ≤ c ∧ c ≤ 122 then c - 32 else c

def handle (args : List String) (impl : String) : R Ans :=
  match args with
  | ["acgt", path, h] => do
    let bytes ← hexBytes h
    let m := if path == "scalar" then Avx2.fromAcgtBytesScalar bytes else Avx2.fromAcgtBytesVec bytes
    let model := match m with
      | some d => s!"{showT d}|{txt ((DnaStr.toAsciiVec d).getD [])}|{txt ((DnaStr.display d).getD [])}"
      | none => "panic"
    -- property: A/C/G/T either case -> 0/1/2/3, every other byte -> A; identical on both paths; rendering back
    -- gives the upper-cased input with non-ACGT replaced by 'A'
    let bases := bytes.map KSpec.asciiToBase
    let up := txt (bytes.map fun c => if isAcgt c then upper c else 65)
    let expect := s!"{showT ((DnaStr.fromBytes bases).getD DnaStr.new)}|{up}|{up}"
    pure { model, verdict := if impl == expect then "ok" else s!"FAIL:ingestion-differs-from-bytewise-conversion(expected {expect})" }
  | ["kernel", "convert", h] => do
    let bytes ← hexBytes h
    if bytes.length ≠ 32 then throw "need-32-bytes" else
    let (lanes, valid) := Avx2.convertBases bytes
    let model := s!"{showBytes lanes}:{if valid then 1 else 0}"
    let expect := s!"{showBytes (bytes.map KSpec.asciiToBase)}:{if bytes.all isAcgt then 1 else 0}"
    pure { model, verdict := if impl == "unavailable" ∨ impl == expect then "ok" else "FAIL:convert_bases-lane-differs-from-base_to_bits/validity" }
  | ["kernel", "pack", h] => do
    let bytes ← hexBytes h
    if bytes.length ≠ 32 then throw "need-32-bytes" else
    let model := toHex (Avx2.pack32Bases bytes)
    -- specified only for lanes < 4: first byte = highest two bits
    let inRange := bytes.all (· < 4)
    let expect := toHex (bytes.foldl (fun acc b => acc * 4 + b) 0)
    pure { model, verdict := if impl == "unavailable" ∨ ¬ inRange ∨ impl == expect then "ok" else "FAIL:pack_32_bases-differs-from-2-bit-packing" }
  | ["str", h] => do
    -- from_dna_string on ASCII text must agree with from_acgt_bytes on its bytes
    let bytes ← hexBytes h
    let model := match Avx2.fromDnaString bytes with | some d => s!"{showT d}|{txt ((DnaStr.display d).getD [])}" | none => "panic"
    -- and `to_string()` of the result is the upper-cased text with every other character replaced by 'A'
    let expect := s!"{showT ((DnaStr.fromBytes (bytes.map KSpec.asciiToBase)).getD DnaStr.new)}|{txt (bytes.map fun c => if isAcgt c then upper c else 65)}"
    pure { model, verdict := if impl == expect then "ok" else "FAIL:str-constructor-differs-from-byte-constructor" }
  | ["only", h] => do
    let bytes ← hexBytes h
    let runs := Avx2.fromDnaOnlyString bytes
    let model := if runs.isEmpty then "-" else ",".intercalate (runs.map showNats)
    -- reference: split at every non-ACGT byte, drop empty pieces
    let ref := (bytes.splitBy fun a b => isAcgt a && isAcgt b).filter (fun g => g.all isAcgt) |>.map (·.map KSpec.asciiToBase)
    let expect := if ref.isEmpty then "-" else ",".intercalate (ref.map showNats)
    pure { model, verdict := if impl == expect then "ok" else "FAIL:strict-constructor-is-not-the-maximal-ACGT-runs" }
  | ["hashn", h1, h2, _name] => do
    -- impl answer: `<bases1>:<bases2>`; the hash is a parameter of the model: its values are read off the first answer
    let b1 ← hexBytes h1; let b2 ← hexBytes h2
    match impl.splitOn ":" with
    | [r1, r2] => do
      let r1 ← natDigits r1; let r2 ← natDigits r2
      -- model of the second call, using the table observed in the first one where the position is non-ACGT in both
      let pred := (b2.zipIdx.map fun (c, i) =>
        if isAcgt c then some (KSpec.asciiToBase c)
        else if i < b1.length ∧ ¬ isAcgt (b1.getD i 65) then some (r1.getD i 9) else none)
      let model2 := (pred.zip r2).map fun (p, r) => p.getD r
      let ok1 := r1.length == b1.length && (b1.zip r1).all fun (c, r) => r < 4 && (¬ isAcgt c || r == KSpec.asciiToBase c)
      let ok2 := r2.length == b2.length && (b2.zip r2).all fun (c, r) => r < 4 && (¬ isAcgt c || r == KSpec.asciiToBase c)
      let det := model2 == r2
      pure { model := s!"{showNats r1}:{showNats model2}",
             verdict := if ¬ ok1 ∨ ¬ ok2 then "FAIL:hashed-N-touches-ACGT-or-substitutes-an-invalid-base"
                        else if ¬ det then "FAIL:hashed-N-not-a-function-of-(name,position)" else "ok" }
    | _ => pure { model := "panic", verdict := "FAIL:panic-in-range" }
  | _ => throw "bad-request"

end Drv.C16
