import Dbg.Driver.C10
import Dbg.Model.Lmer
/-! C17: fixed-size DNA strings (`Lmer<[u64; n]>`), histories of writes against a plain vector of bases. -/
namespace Drv.C17
open Drv.C10

inductive LOp | set (pos v : Nat) | slice (pos n : Nat) (value : Nat) | rc

def parseOp (t : String) : R LOp :=
  match t.toList with
  | ['C'] => pure .rc
  | 'S' :: r => match (String.ofList r).splitOn "." with
    | [p, v] => do pure (.set (← nat p) (← nat v))
    | _ => throw "bad-op"
  | 'P' :: r => match (String.ofList r).splitOn "." with
    | [p, n, h] => do pure (.slice (← nat p) (← nat n) (← hex h))
    | _ => throw "bad-op"
  | _ => throw "bad-op"

def runM (l : Lmer.T) : LOp → Option Lmer.T
  | .set p v => Lmer.setMut l p v
  | .slice p n v => Lmer.setSliceMut l p n (BitVec.ofNat 64 v)
  | .rc => Lmer.rc l

def runS (l : List Nat) : LOp → List Nat
  | .set p v => l.set p v
  | .slice p n v => KSpec.setSlice l p n (BitVec.ofNat 64 v)
  | .rc => KSpec.rc l

def showL (l : Lmer.T) : String := ".".intercalate (l.storage.map fun b => toHex b.toNat)

def parseL (s : String) : R Lmer.T := do
  pure ⟨← (s.splitOn ".").mapM fun h => do pure (BitVec.ofNat 64 (← hex h))⟩

/-- invariant: stored length ≤ max_len and every lane ≥ len is zero outside the length byte -/
def invOk (l : Lmer.T) : Bool :=
  match Lmer.len l with
  | none => false
  | some len =>
    len ≤ Lmer.maxLen l.n &&
    (List.range (l.n * 32)).all fun i =>
      i < len || i ≥ l.n * 32 - 4 || (Lmer.get l i == some 0)

def handle (args : List String) (impl : String) : R Ans :=
  match args with
  | ["hist", n, seq, ops] => do
    let n ← nat n
    let seq ← natDigits seq
    let ops ← if ops == "-" then pure [] else (ops.splitOn ",").mapM parseOp
    let l0? := Lmer.fromSlice n seq
    let mut cur := l0?
    let mut tr : List String := []
    match cur with | some l => tr := [showL l] | none => pure ()
    for op in ops do
      cur := cur.bind (runM · op)
      match cur with
      | some l => tr := showL l :: tr
      | none => pure ()
    let model := match cur with
      | none => "panic"
      | some l =>
        let bs := (Lmer.toBytes l).getD []
        let canon := Lmer.fromSlice n bs
        ";".intercalate tr.reverse ++ s!"|len={(Lmer.len l).getD 0} bytes={showNats bs} eqc={if some l == canon then 1 else 0} hashc={if some l == canon then 1 else 0} cmpc={if some l == canon then 1 else 0} dbg=1 it={adaptorsTxt (bs.map toString)}"
    let inRange := seq.length ≤ Lmer.maxLen n
    let verdict ← do
      if ¬ inRange then pure "ok" else
      if impl == "panic" then pure "FAIL:panic-in-range" else
      match impl.splitOn "|" with
      | [trS, tl] => do
        let steps ← (trS.splitOn ";").mapM parseL
        if steps.length ≠ ops.length + 1 then pure "FAIL:trace-length" else
        let mut l := seq
        let mut v := "ok"
        for (st, op?) in steps.zip (none :: ops.map some) do
          match op? with
          | some op => l := runS l op
          | none => pure ()
          if v == "ok" then
            if Lmer.len st ≠ some seq.length then v := "FAIL:stored-length-changed"
            else if Lmer.toBytes st ≠ some l then v := "FAIL:bases-differ-from-vector"
            else if ¬ invOk st then v := "FAIL:bits-set-beyond-the-length(eq/hash would depend on history)"
        let expect := s!"len={seq.length} bytes={showNats l} eqc=1 hashc=1 cmpc=1 dbg=1 it={adaptorsTxt (l.map toString)}"
        if v == "ok" ∧ tl ≠ expect then v := s!"FAIL:len/bytes/eq/hash-differ-from-vector(expected {expect})"
        pure v
      | _ => pure "FAIL:malformed-answer"
    pure { model, verdict }
  | ["new", n, len] => do
    let n ← nat n; let len ← nat len
    let model := match Lmer.new n len with
      | some l => s!"{showL l}|len={(Lmer.len l).getD 0} bytes={showNats ((Lmer.toBytes l).getD [])}"
      | none => "panic"
    let verdict := if len ≤ Lmer.maxLen n then
        (match impl.splitOn "|" with
         | [_, tl] => if tl == s!"len={len} bytes={showNats (List.replicate len 0)}" then "ok" else "FAIL:new-does-not-report-its-length-or-is-not-all-A"
         | _ => "FAIL:panic-in-range")
      else "ok"
    pure { model, verdict }
  | _ => throw "bad-request"

end Drv.C17
