import Dbg.Driver.Graphs
import Dbg.Spec.C01
/-! C01 / C02: the three k-mer-table compression entry points, against the partition / recorded-steps /
    payload / connected-components predicates. -/
namespace Drv.C01
open Compress Drv.Gr

/-- `compress <entry> <K> <stranded> <join> <reduce> <table>`; the implementation's answer starts with the index
    order σ of its hash map (`σ|nodes`), which is an input of the algorithm and is handed to the model as data -/
def handle (prop : String) (args : List String) (impl : String) : R Ans :=
  match args with
  | ["compress", entry, k, st, jn, rd, table] => do
    let K ← nat k; let st ← bool st
    let join ← joinOf jn; let reduce ← reduceOf rd
    let T0 ← parseTable table
    let (sigmaS, implNodes) := match impl.splitOn "|" with
      | [a, b] => (a, b)
      | _ => ("", "malformed")
    let sigma ← natList sigmaS
    if sigma.length ≠ T0.length then throw "bad-sigma" else
    let T1 := sigma.filterMap fun i => T0[i]?
    -- `compress_kmers_no_exts` discovers the extensions itself
    let keys := T1.map (·.key)
    let T := if entry == "noexts" then T1.map fun e => { e with exts := discoverExts st keys e.key } else T1
    let res := compressKmersC T st join reduce
    let model := s!"{sigmaS}|" ++ (match res with | some ns => showNodes (ns.map (·.1)) | none => "panic")
    -- well-formedness of the request (the property's quantifier): distinct keys of length K, canonical when unstranded
    let wf := T.all (fun e => e.key.length == K && (st || (canonOf st e.key).1 == e.key)) &&
              (((sortSeqs keys).zip (sortSeqs keys).tail).all fun (a, b) => a != b)
    let verdict ← do
      -- the quantifier of C01/C02: tables whose extensions are reciprocal (every table that comes from reads is;
      -- the malformed stream is compared with the model only); C02 also needs every extension to resolve
      if ¬ wf then pure "skip:malformed-table"
      -- (the table `compress_kmers_no_exts` discovers is no input: it is reciprocal by `noExts_table_ok`, and the crate is held to it)
      else if entry ≠ "noexts" ∧ ¬ extSymOK st T then pure "skip:extensions-not-reciprocal"
      else if prop == "C02" ∧ ¬ extsPresentOK st T then pure "skip:dangling-extensions"
      else if implNodes == "panic" then
        -- a panic is legitimate only on tables whose extensions are not reciprocal (the model panics too)
        pure (if res.isNone then "ok" else "FAIL:panic-on-reciprocal-table")
      else do
        let ns ← parseNodes implNodes
        if prop == "C02" then
          pure (if componentsOK K st join T ns then "ok" else "FAIL:nodes-are-not-the-components-of-the-good-link-relation")
        else
          pure (if ¬ partitionOK K st T ns then "FAIL:not-a-partition-of-the-input-kmers"
                else if ¬ stepsOK K st T ns then "FAIL:step-not-recorded-by-both-kmers"
                else if rd ≠ "mix" ∧ ¬ payloadOK K st T reduce ns then "FAIL:payload-is-not-the-reduction-of-the-node's-kmers"
                else "ok")
    pure { model, verdict }
  | ["longpath", k, _seed, len, _st, _entry] => do
    -- a repeat-free read (checked by the harness: all canonical k-mers distinct, none self-complementary): every k-mer has exactly one
    -- extension on each inner side, so by C02 the whole read is one maximal unbranched path = one node. Too large for the executable
    -- model: the crate's answer is judged against that statement directly.
    let K ← nat k; let len ← nat len
    let f := fun (name : String) => ((impl.splitOn "|").findSome? fun x => if x.startsWith (name ++ "=") then some ((x.drop (name.length + 1)).toString) else none).getD "?"
    let verdict := if impl == "panic" then "FAIL:panic-in-range"
      else if f "distinct" ≠ "1" then "ok"
      else if f "kmers" ≠ toString (len + 1 - K) then "FAIL:table-does-not-hold-every-k-mer-of-the-read"
      else if f "nodes" ≠ "1" ∨ f "lens" ≠ toString len then s!"FAIL:unbranched-path-of-{len + 1 - K}-k-mers-is-not-one-node"
      else "ok"
    pure { model := impl, verdict }
  | _ => throw "bad-request"

end Drv.C01
