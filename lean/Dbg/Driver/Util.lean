import Dbg.Model.Seq
/-! Parsing/printing helpers for the line protocol. -/
namespace Drv

abbrev R := Except String

def nat (s : String) : R Nat :=
  match s.toNat? with
  | some n => pure n
  | none => throw s!"bad-nat:{s}"

def splitOn (s : String) (sep : String) : List String :=
  if s.isEmpty then [] else s.splitOn sep

/-- "0123…" → bases -/
def digits (s : String) : R Compress.Seq :=
  if s == "-" then pure [] else
  s.toList.mapM fun c =>
    if c == '0' then pure (0 : Fin 4) else if c == '1' then pure 1 else if c == '2' then pure 2
    else if c == '3' then pure 3 else throw s!"bad-base:{c}"

def showDigits (l : Compress.Seq) : String :=
  if l.isEmpty then "-" else String.ofList (l.map fun b => Char.ofNat (b.val + '0'.toNat))

def natList (s : String) (sep : String := ",") : R (List Nat) :=
  if s == "-" then pure [] else (splitOn s sep).mapM nat

def showNatList (l : List Nat) (sep : String := ",") : String :=
  if l.isEmpty then "-" else sep.intercalate (l.map toString)

def bool (s : String) : R Bool :=
  if s == "1" || s == "true" then pure true
  else if s == "0" || s == "false" then pure false
  else throw s!"bad-bool:{s}"

def hexDigit (c : Char) : R Nat :=
  if '0' ≤ c ∧ c ≤ '9' then pure (c.toNat - '0'.toNat)
  else if 'a' ≤ c ∧ c ≤ 'f' then pure (c.toNat - 'a'.toNat + 10)
  else if 'A' ≤ c ∧ c ≤ 'F' then pure (c.toNat - 'A'.toNat + 10)
  else throw s!"bad-hex:{c}"

def hex (s : String) : R Nat := do
  let ds ← s.toList.mapM hexDigit
  pure (ds.foldl (fun a d => a * 16 + d) 0)

def hexChar (n : Nat) : Char := if n < 10 then Char.ofNat (n + '0'.toNat) else Char.ofNat (n - 10 + 'a'.toNat)

partial def toHexAux (n : Nat) (acc : List Char) : List Char :=
  if n < 16 then hexChar n :: acc else toHexAux (n / 16) (hexChar (n % 16) :: acc)

def toHex (n : Nat) (minDigits : Nat := 1) : String :=
  let cs := toHexAux n []
  String.ofList (List.replicate (minDigits - cs.length) '0' ++ cs)

/-- an iterator observed after it was advanced: `count after n/3 steps : last after n/3 steps : exhausted-stays-exhausted`
    (after `n` steps `next`, `last`, `count`, `nth(0)` find nothing; `skip(n).last()` and `skip(n+1).next()` find nothing) -/
def statefulTxt (items : List String) : String :=
  let n := items.length
  s!"{n - n / 3}:{(items.getLast?).getD "-"}:1"

/-- what the standard adaptors must deliver on the list of items an iterator yields:
    `count:nth(n-1):skip(n/2):step_by(3):last:nth(n):size_hint-consistent`, then `statefulTxt` -/
def adaptorsTxt (items : List String) : String :=
  let n := items.length
  let o := fun (x : Option String) => x.getD "-"
  let l := fun (v : List String) => if v.isEmpty then "-" else ".".intercalate v
  let step3 := (items.zipIdx.filter fun x => x.2 % 3 == 0).map (·.1)
  s!"{n}:{o items.getLast?}:{l (items.drop (n / 2))}:{l step3}:{o items.getLast?}:-:1:{statefulTxt items}"

/-- answer of a handler: model answer and verdict of the property predicate on the implementation's answer -/
structure Ans where
  model : String
  verdict : String := "ok"

end Drv
