import Dbg.Driver.Graphs
import Dbg.Spec.C05
/-! C05: `filter_kmers` against the pass-free reference grouping. -/
namespace Drv.C05
open Filter Drv.Gr

def parseSumm (s : String) : R Summarizer :=
  match s.splitOn ":" with
  | ["count", n] => do pure (.count (← nat n))
  | ["set", n] => do pure (.set (← nat n))
  | _ => throw "bad-summarizer"

/-- `filter <K> <stranded> <reportall> <summ> <memsize> <bytesPerUnit> <sizeOfPair> <probes> <reads>` -/
def handle (args : List String) (impl : String) : R Ans :=
  match args with
  | ["filter", k, st, ra, sm, mem, bpu, sz, probes, reads] => do
    let K ← nat k; let st ← bool st; let ra ← bool ra; let sm ← parseSumm sm
    let mem ← nat mem; let bpu ← nat bpu; let sz ← nat sz
    let probes ← if probes == "-" then pure [] else (probes.splitOn ";").mapM digits
    let reads ← parseReads reads
    let bpu' := if bpu = 0 then Gen.filterBytesPerUnit else bpu
    let render := fun (passes : Nat) (tab : List (Compress.Entry Payload)) (all : List Compress.Seq) =>
      let hits := String.ofList (probes.map fun p => if tab.any (·.key == p) then '1' else '0')
      s!"passes={passes}|{showTable tab}|{if all.isEmpty then "-" else ",".intercalate (all.map showDigits)}|{if probes.isEmpty then "-" else hits}"
    let model := match filterKmers K reads sm st ra mem bpu' sz with
      | some r => render r.passes r.table r.allKmers
      | none => "panic"
    -- the property: equal to the reference grouping, whatever the number of passes
    let verdict :=
      if K < 4 ∨ mem = 0 then "ok"        -- outside the stated range (bucket reads bases 0..3; division by max_mem)
      else if impl == "panic" then "FAIL:panic-in-range"
      else
        match impl.splitOn "|" with
        | [_, t, a, h] =>
          let rt := refTable K reads sm st
          let ra' := if ra then refAllKmers K reads st else []
          let exp := (render 0 rt ra').splitOn "|"
          if t ≠ exp.getD 1 "" then "FAIL:table-differs-from-reference-grouping"
          else if a ≠ exp.getD 2 "" then "FAIL:all-kmers-list-differs-from-distinct-kmers-ascending"
          else if h ≠ exp.getD 3 "" then "FAIL:lookup-of-absent/present-kmer"
          else "ok"
        | _ => "FAIL:malformed-answer"
    pure { model, verdict }
  | ["deep", k, base, nobs, st, sm, label] => do
    -- one read of `nobs + K - 1` equal bases: a single k-mer observed `nobs` times (more than any internal batch), too many for the
    -- executable model; the crate is judged against the statement in closed form: one row, both flanks = the base, count saturated at
    -- the extracted 2^16-1 (or the label set), accepted iff the (saturated) count reaches the threshold
    let K ← nat k; let b ← nat base; let nobs ← nat nobs; let st ← bool st; let sm ← parseSumm sm; let label ← nat label
    let c := if st ∨ b ≤ 3 - b then b else 3 - b
    let key := String.ofList (List.replicate K (Char.ofNat (c + '0'.toNat)))
    let exts := (if nobs ≥ 2 then (1 <<< c) ||| (16 <<< c) else 0)
    let (valid, payload) := match sm with
      | .count n => (decide (min nobs Gen.countSaturation ≥ n), toString (min nobs Gen.countSaturation))
      | .set n => (decide (nobs ≥ n), toString label)
    let expect := if valid ∧ nobs ≥ 1 then s!"{key}:{toHex exts 2}:{payload}" else "-"
    pure { model := expect, verdict := if impl == expect then "ok" else s!"FAIL:deep-k-mer-row-differs-from-the-statement(expected {expect})" }
  | ["deepmix", k, n, t, st] => do
    -- one read `A^n t A^n`, n > 2^19: the bucket of `A^K` receives more than 2^20 observations and holds several distinct k-mers.
    -- Too long for the executable model; judged against the statement: the distinct k-mers, their extension sets and the counts
    -- of the k-mers across `t` are those of the short read `A^(K+2) t A^(K+2)` (same windows, same flanks), computed by the
    -- reference grouping; only the count of `A^K` differs: 2 (n - K + 1), saturated. All k-mers valid (count >= 1), listed ascending.
    let K ← nat k; let n ← nat n; let t ← digits t; let st ← bool st
    if n < K + 2 then throw "bad-request" else
    let short : Compress.Seq := List.replicate (K + 2) 0 ++ t ++ List.replicate (K + 2) 0
    let reads : List (Compress.Seq × Compress.Exts × Nat) := [(short, ⟨0⟩, 0)]
    let aK : Compress.Seq := List.replicate K 0
    let rt := (refTable K reads (.count 1) st).map fun e =>
      if e.key == aK then { e with data := [min (2 * (n - K + 1)) Gen.countSaturation] } else e
    let all := refAllKmers K reads st
    let expect := s!"{showTable rt}|{if all.isEmpty then "-" else ",".intercalate (all.map showDigits)}"
    pure { model := expect, verdict := if impl == expect then "ok" else
      if (impl.splitOn "|").head? ≠ (expect.splitOn "|").head? then "FAIL:table-differs-from-reference-grouping(deepmix)"
      else "FAIL:all-kmers-list-differs-from-distinct-kmers-ascending(deepmix)" }
  | _ => throw "bad-request"

end Drv.C05
