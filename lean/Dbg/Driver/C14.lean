import Dbg.Driver.C10
import Dbg.Model.Slice
/-! C14: operation histories on `DnaString`, compared with a plain vector of bases. -/
namespace Drv.C14
open DnaStr Drv.C10

inductive HOp
  | push (b : Nat) | ext (bs : List Nat) | pb (bytes : List Nat) (n : Nat) | set (i b : Nat) | clear | blank (n : Nat)
  | fb (bs : List Nat) | fa (cs : List Nat) | fs (cs : List Nat) | own (a b : Nat) (r : Bool)

def hexBytes (s : String) : R (List Nat) :=
  if s == "-" then pure [] else
  let rec go : List Char → R (List Nat)
    | a :: b :: r => do pure (((← hexDigit a) * 16 + (← hexDigit b)) :: (← go r))
    | [] => pure []
    | _ => throw "odd-hex"
  go s.toList

def parseOp (t : String) : R HOp :=
  match t.splitOn "." with
  | ["push", b] => do pure (.push (← nat b))
  | ["ext", d] => do pure (.ext (← natDigits d))
  | ["pb", h, n] => do pure (.pb (← hexBytes h) (← nat n))
  | ["set", i, b] => do pure (.set (← nat i) (← nat b))
  | ["clear"] => pure .clear
  | ["blank", n] => do pure (.blank (← nat n))
  | ["fb", d] => do pure (.fb (← natDigits d))
  | ["fa", h] => do pure (.fa (← hexBytes h))
  | ["fs", h] => do pure (.fs (← hexBytes h))
  | ["own", a, b, r] => do pure (.own (← nat a) (← nat b) (r == "1"))
  | _ => throw s!"bad-op:{t}"

def baseOf (ch : Nat) : Nat := Gen.baseToBits.getD ch 0

/-- what the iterator adaptors must deliver on the base list: count, nth(len-1), skip(len/2), step_by(3), last, nth(len) -/
def itTxt (bs : List Nat) : String :=
  let n := bs.length
  let ob := fun (o : Option Nat) => match o with | some x => toString x | none => "-"
  let sd := fun (l : List Nat) => if l.isEmpty then "-" else String.join (l.map toString)
  let step3 := (bs.zipIdx.filter fun x => x.2 % 3 == 0).map (·.1)
  s!"{n}:{ob bs.getLast?}:{sd (bs.drop (n / 2))}:{sd step3}:{ob bs.getLast?}:-:1:1:{statefulTxt (bs.map toString)}"

/-- the model: `none` = panic -/
def runM (d : T) : HOp → Option T
  | .push b => push d b
  | .ext bs => extend d bs
  | .pb bytes n => pushBytes d bytes n
  | .set i b => setMut d i b
  | .clear => some (clear d)
  | .blank n => some (blank n)
  | .fb bs => fromBytes bs
  | .fa cs => fromBytes (cs.map baseOf)          -- both paths of from_acgt_bytes produce this (C16)
  | .fs cs => fromBytes (cs.map baseOf)          -- from_dna_string on ASCII text
  | .own a b r => (sliceOf d a b).bind fun s => Slice.toOwned d (if r then s.rc else s)   -- `slice(a, b)[.rc()].to_owned()`

/-- the same operations on a plain vector of bases -/
def runS (l : List Nat) : HOp → List Nat
  | .push b => l ++ [b]
  | .ext bs => l ++ bs
  | .pb bytes n => l ++ (List.range n).map fun i => ((bytes.getD (i / 4) 0) / 4 ^ (i % 4)) % 4
  | .set i b => l.set i b
  | .clear => []
  | .blank n => List.replicate n 0
  | .fb bs => bs
  | .fa cs => cs.map KSpec.asciiToBase
  | .fs cs => cs.map KSpec.asciiToBase
  | .own a b r => let sub := (l.drop a).take (b - a); if r then KSpec.rc sub else sub

def showT (d : T) : String :=
  s!"{d.len}:{if d.storage.isEmpty then "-" else ".".intercalate (d.storage.map fun b => toHex b.toNat)}"

def parseT (s : String) : R T :=
  match s.splitOn ":" with
  | [l, b] => do
    let blks ← if b == "-" then pure [] else (b.splitOn ".").mapM fun h => do pure (BitVec.ofNat 64 (← hex h))
    pure ⟨blks, ← nat l⟩
  | _ => throw "bad-dnastring"

/-- representation invariant: block count = ⌈len/32⌉ and all lanes ≥ len are zero -/
def invOk (d : T) : Bool :=
  d.storage.length == (d.len + 31) / 32 &&
  (match d.storage.getLast? with
   | none => true
   | some b => d.len % 32 == 0 || (b.toNat % 2 ^ (64 - 2 * (d.len % 32)) == 0))

/-- lexicographic comparison of base vectors, a proper prefix first -/
def lexCmp (a b : List Nat) : String := if a < b then "lt" else if b < a then "gt" else "eq"

def ordStr : Ordering → String | .lt => "lt" | .gt => "gt" | .eq => "eq"

def txt (l : List Nat) : String := if l.isEmpty then "-" else String.ofList (l.map Char.ofNat)

def handle (args : List String) (impl : String) : R Ans :=
  match args with
  | ["hist", ops, other] => do
    let ops ← (ops.splitOn ";").mapM parseOp
    -- `other`: literal bases, `P<n>` = final minus its last n bases, `X<bases>` = final extended
    let resolve (final : List Nat) : R (List Nat) :=
      match other.toList with
      | 'P' :: r => do let n ← nat (String.ofList r); pure (final.take (final.length - n))
      | 'X' :: r => do pure (final ++ (← natDigits (String.ofList r)))
      | _ => natDigits other
    -- model trace
    let mut cur : Option T := some DnaStr.new
    let mut tr : List String := []
    for op in ops do
      cur := cur.bind (runM · op)
      match cur with
      | some d => tr := showT d :: tr
      | none => pure ()
    let spec := ops.foldl runS []
    let model ← match cur with
      | none => pure "panic"
      | some d => do
        let bs := (toBytes d).getD []
        let canon := (fromBytes bs).getD d
        let oth := (fromBytes (← resolve bs)).getD d
        let nd := if d.len == oth.len then (match ndiffs d oth with | some n => toString n | none => "panic") else "-"
        pure (";".intercalate tr.reverse ++
          s!"|bytes={showNats bs} ascii={txt ((toAsciiVec d).getD [])} disp={txt ((display d).getD [])} rev={showNats (((reverse d).bind toBytes).getD [])} rc={showNats (((rc d).bind toBytes).getD [])} eqc={if d == canon then 1 else 0} hashc={if d == canon then 1 else 0} cmpc={ordStr (cmp d canon)} cmpo={ordStr (cmp d oth)} eqo={if d == oth then 1 else 0} nd={nd} it={itTxt bs}")
    let verdict ← do
      if impl == "panic" then pure "FAIL:panic-in-range" else
      match impl.splitOn "|" with
      | [trS, tl] => do
        let steps ← (trS.splitOn ";").mapM parseT
        if steps.length ≠ ops.length then pure "FAIL:trace-length" else
        let mut l : List Nat := []
        let mut v := "ok"
        for (d, op) in steps.zip ops do
          l := runS l op
          if v == "ok" then
            if d.len ≠ l.length then v := "FAIL:length-differs-from-vector"
            else if (toBytes d) ≠ some l then v := "FAIL:bases-differ-from-vector"
            else if ¬ invOk d then v := "FAIL:padding-or-block-count(eq/hash/ord would depend on history)"
        let other ← resolve spec
        let nd := if spec.length == other.length then toString (KSpec.hamming spec other) else "-"
        let expect := s!"bytes={showNats spec} ascii={txt (KSpec.toText spec)} disp={txt (KSpec.toText spec)} rev={showNats spec.reverse} rc={showNats (KSpec.rc spec)} eqc=1 hashc=1 cmpc=eq cmpo={lexCmp spec other} eqo={if spec == other then 1 else 0} nd={nd} it={itTxt spec}"
        if v == "ok" ∧ tl ≠ expect then v := s!"FAIL:renderings/iteration/eq/hash/order-differ-from-vector(expected {expect})"
        pure v
      | _ => pure "FAIL:malformed-answer"
    pure { model, verdict }
  | ["pset", seqs] => do
    let seqs ← (seqs.splitOn ",").mapM natDigits
    let ps := seqs.foldl (fun acc s => acc.bind (PSet.add · s)) (some PSet.new)
    let model := match ps with
      | none => "panic"
      | some p => ",".intercalate ((List.range seqs.length).map fun i => match p.get i with | some b => showNats b | none => "panic")
    let expect := ",".intercalate (seqs.map showNats)
    pure { model, verdict := if impl == expect then "ok" else "FAIL:packed-set-returns-a-different-sequence" }
  | _ => throw "bad-request"

end Drv.C14
