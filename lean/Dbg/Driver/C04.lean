import Dbg.Model.Boom
import Dbg.Driver.C09
import Dbg.Model.Pipeline
/-! C04 (sharded = direct), C06 (strand symmetry / separation), C19 (index construction is schedule independent). -/
namespace Drv.C04
open Compress Graph Drv.Gr Drv.C03
open Walk (Dir)

def sortSeqLists (l : List (List Seq)) : List (List Seq) :=
  l.foldl (fun acc x => (acc.takeWhile (· < x)) ++ [x] ++ (acc.dropWhile (· < x))) []

/-- canonical partition: each node as its sorted list of canonical k-mers with its payload; nodes sorted -/
def canonPartition (K : Nat) (st : Bool) (nodes : List (Node (List Nat))) : List (List Seq × List Nat) :=
  let ps := nodes.map fun n => (sortSeqs ((windowsOf K n.seq).map fun w => (canonOf st w).1), n.data)
  ps.foldl (fun acc x => (acc.takeWhile (·.1 < x.1)) ++ [x] ++ (acc.dropWhile (·.1 < x.1))) []

/-- adjacencies as unordered pairs of canonical k-mers: node-internal steps and resolved edges -/
def canonAdj (g : G (List Nat)) : List (Seq × Seq) :=
  let st := g.stranded
  let internal := g.nodes.flatMap fun n =>
    let ws := (windowsOf g.K n.seq).map fun w => (canonOf st w).1
    (ws.zip ws.tail).map fun (x, y) => if x ≤ y then (x, y) else (y, x)
  let external := (allEdges g).zipIdx.flatMap fun ((le, re), u) =>
    let mk := fun (d : Dir) (es : List Edge) => es.filterMap fun e =>
      match g.nodes[u]?, g.nodes[e.1]? with
      | some nu, some nv =>
        let x := (canonOf st (termKmer g.K nu.seq d)).1; let y := (canonOf st (termKmer g.K nv.seq e.2.1)).1
        some (if x ≤ y then (x, y) else (y, x))
      | _, _ => none
    mk .L le ++ mk .R re
  let all := (internal ++ external).eraseDups
  all.foldl (fun acc x => if acc.contains x then acc else x :: acc) []

def sameSet {α} [BEq α] (a b : List α) : Bool := a.all (b.contains ·) && b.all (a.contains ·)

def parseSigmas (s : String) : R (List (List Nat)) := if s == "-" then pure [] else (s.splitOn ";").mapM natList

/-- `sharded <K> <P> <perm> <stranded> <thr> <prune> <reads>` -/
def handle (args : List String) (impl : String) : R Ans :=
  match args with
  | "bigrep" :: _ =>
    -- a repeat longer than 2^16 bases: sharded against direct assembly, implementation against implementation (the statement of
    -- C04 itself; the executable model is not consulted at this size)
    pure { model := impl, verdict := if impl.startsWith "same=1" then "ok" else s!"FAIL:sharded-and-direct-assembly-differ({impl})" }
  | ["sharded", k, p, perm, st, thr, prune, reads] => do
    let K ← nat k; let P ← nat p; let st ← bool st; let thr ← nat thr; let prune ← bool prune
    let perm ← if perm == "default" then pure none else do pure (some (← natList perm).toArray)
    let reads ← parseReads reads
    match field impl "sigmas", field impl "final", field impl "dsigma", field impl "direct" with
    | some sg, some fin, some dsg, some dir => do
      let sigmas ← parseSigmas sg
      let dsigma ← natList dsg
      let mS := Pipeline.sharded K P (reads.map (·.1)) perm st thr prune sigmas
      let mD := Pipeline.direct K reads st thr dsigma
      let model := s!"sigmas={sg}|final={match mS with | some g => showNodes g.nodes | none => "panic"}|dsigma={dsg}|direct={match mD with | some g => showNodes g.nodes | none => "panic"}"
      let fn ← parseNodes fin
      let dn ← parseNodes dir
      let gS : G (List Nat) := ⟨K, fn, st⟩
      let gD : G (List Nat) := ⟨K, dn, st⟩
      let pS := canonPartition K st fn; let pD := canonPartition K st dn
      let verdict :=
        if P ≥ K then "skip:P>=K"
        else if pS.map (·.1) ≠ pD.map (·.1) then "FAIL:sharded-and-direct-partitions-differ"
        else if pS ≠ pD then "FAIL:payload-totals-per-node-differ"
        else if ¬ sameSet (canonAdj gS) (canonAdj gD) then "FAIL:adjacencies-differ"
        else "ok"
      pure { model, verdict }
    | _, _, _, _ => pure { model := "panic", verdict := if P_ge_K k p then "skip:P>=K" else "FAIL:panic-in-range" }
  | _ => throw "bad-request"
where P_ge_K (k p : String) : Bool := p.toNat! ≥ k.toNat!

end Drv.C04

namespace Drv.C06
open Compress Graph Drv.Gr Drv.C03 Drv.C04
open Walk (Dir)

/-- `rcsym <K> <stranded> <thr> <mask> <reads>`: the harness runs the table and the three pipelines on `reads` and on the read
    set with the masked reads reverse-complemented. Answer fields: t0,t1 (tables sorted by key), d0,d1 (direct graph
    nodes), s0,s1 (sharded), r0,r1 (re-compressed direct graph). -/
def handle (args : List String) (impl : String) : R Ans :=
  match args with
  | ["rcsym", k, st, thr, mask, reads] => do
    let K ← nat k; let st ← bool st; let thr ← nat thr
    let mask ← natList mask
    let reads ← parseReads reads
    let reads1 := reads.zipIdx.map fun (r, i) => if mask.contains i then (Compress.rc r.1, r.2.1.rc, r.2.2) else r
    -- model: the k-mer tables of both read sets (hash order plays no role: sorted by key)
    let tab := fun (rs : List (Seq × Exts × Nat)) => match Filter.filterKmers K rs (.count thr) st false 4 Gen.filterBytesPerUnit 16 with
      | some fr => showTable fr.table | none => "panic"
    let get := fun (n : String) => (field impl n).getD "?"
    -- the graphs come from the crate (their algorithms are tied to the model by C01/C04/C09); only the tables are re-computed
    let model := "|".intercalate ([("t0", tab reads), ("t1", tab reads1)].map (fun (n, v) => s!"{n}={v}") ++
      ["d0", "d1", "s0", "s1", "r0", "r1"].map fun n => s!"{n}={get n}")
    let verdict ← do
      if impl == "panic" then pure "FAIL:panic-in-range" else do
      let t0 ← parseTable (get "t0"); let t1 ← parseTable (get "t1")
      let part := fun (n : String) => do
        let ns ← parseNodes (get n)
        pure (canonPartition K st ns, canonAdj ⟨K, ns, st⟩)
      let (pd0, ad0) ← part "d0"; let (pd1, ad1) ← part "d1"
      let (ps0, as0) ← part "s0"; let (ps1, as1) ← part "s1"
      let (pr0, ar0) ← part "r0"; let (pr1, ar1) ← part "r1"
      if st then
        -- stranded: keys are exactly the forward k-mers of the reads, never canonicalised
        let fwd := (reads.flatMap fun r => windowsOf K r.1)
        let keys := t0.map (·.key)
        let cnt := fun (x : Seq) => min (fwd.count x) 65535
        -- stranded graphs: a k-mer and its reverse complement are never identified, so palindromes are ordinary k-mers:
        -- the three pipelines must produce the maximal unbranched paths of the forward links
        let T := Filter.removeCensoredExts true t0
        let d0 ← parseNodes (get "d0")
        pure (if ¬ keys.all (fun x => fwd.contains x) then "FAIL:stranded-table-contains-a-kmer-not-in-the-reads"
              else if ¬ (fwd.all fun x => cnt x < thr || keys.contains x) then "FAIL:stranded-table-misses-a-forward-kmer"
              else if ¬ t0.all (fun e => e.data == [cnt e.key]) then "FAIL:stranded-count"
              else if ¬ partitionOK K true T d0 then "FAIL:stranded-graph-is-not-a-partition-of-the-forward-kmers"
              else if ¬ componentsOK K true (fun _ _ => true) T d0 then "FAIL:stranded-graph-identifies-or-splits-at-a-reverse-complement"
              else if pd0.map (·.1) ≠ pr0.map (·.1) ∨ pd0.map (·.1) ≠ ps0.map (·.1) then "FAIL:stranded-pipelines-disagree"
              else if pd1.map (·.1) ≠ pr1.map (·.1) ∨ pd1.map (·.1) ≠ ps1.map (·.1) then "FAIL:stranded-pipelines-disagree"
              else "ok")
      else
        let nonPal := fun (e : Entry (List Nat)) => e.key != Compress.rc e.key
        let same := t0.length == t1.length && (t0.zip t1).all fun (a, b) =>
          a.key == b.key && a.data == b.data && (!nonPal a || a.exts.val == b.exts.val)
        let minKeys := t0.all fun e => e.key ≤ Compress.rc e.key
        pure (if ¬ minKeys then "FAIL:key-is-not-the-minimum-of-kmer-and-reverse-complement"
              else if ¬ same then "FAIL:table-changes-when-reads-are-reverse-complemented"
              else if pd0 ≠ pd1 ∨ ¬ sameSet ad0 ad1 then "FAIL:direct-graph-changes-when-reads-are-reverse-complemented"
              else if ps0 ≠ ps1 ∨ ¬ sameSet as0 as1 then "FAIL:sharded-graph-changes-when-reads-are-reverse-complemented"
              else if pr0 ≠ pr1 ∨ ¬ sameSet ar0 ar1 then "FAIL:recompressed-graph-changes-when-reads-are-reverse-complemented"
              else "ok")
    pure { model, verdict }
  | _ => throw "bad-request"

end Drv.C06

namespace Drv.C19
open Compress Graph Drv.Gr Drv.C03

/-- one index map as the hook reports it: `key=value=slot,...` in slot order -/
def parseMap (t : String) : R (List Seq × List Nat × List (Option Nat)) :=
  if t == "-" then pure ([], [], []) else do
    let items ← (t.splitOn ",").mapM fun it =>
      match it.splitOn "=" with
      | [k, v, i] => do pure (← digits k, ← nat v, i.toNat?)
      | _ => throw "bad-layout"
    pure (items.map (·.1), items.map (·.2.1), items.map (·.2.2))

/-- `finish <K> <stranded> <threads> <nodes> <probes>`: answer `serial=<edges>#<links>|parallel=<edges>#<links>|runs=<n>|same=<0/1>`;
    `big …`: large graphs, implementation against implementation only -/
def handle (args : List String) (impl : String) : R Ans :=
  match args with
  | ["finish", k, st, _threads, nodes, probes] => do
    let K ← nat k; let st ← bool st
    let ns ← parseNodes nodes
    let g : G (List Nat) := ⟨K, ns, st⟩
    let probes ← if probes == "-" then pure [] else (probes.splitOn ";").mapM parseProbe
    let links := probes.map fun (km, d) => match findLink g km d with | some e => showEdge e | none => "none"
    let q := s!"{showAllEdges (allEdges g)}#{if links.isEmpty then "-" else ",".intercalate links}"
    let runs := (field impl "runs").getD "?"
    let lay := (field impl "layout").getD "?"
    let model := s!"serial={q}|parallel={q}|runs={runs}|same=1|layout={lay}"
    -- the slot layout of the real maps (serial L, R; parallel L, R) meets the hypotheses of `Boom.C19_builders_agree`
    -- `unavailable`: the harness was built without the layout hook (check.py reports that obligation as no longer checked)
    let maps ← if lay == "unavailable/unavailable" then pure [] else (lay.splitOn "/").mapM parseMap
    let layoutFine := lay == "unavailable/unavailable" || maps.length == 4 && (maps.zip [Walk.Dir.L, Walk.Dir.R, Walk.Dir.L, Walk.Dir.R]).all fun ((ks, vs, ids), side) =>
      Boom.layoutOK g side ks vs && Boom.slotsOK ks ids
    -- exactness of lookups: a k-mer is found as a node end exactly when some node starts or ends with it
    let exact := probes.all fun (km, d) =>
      let found := (findLink g km d).isSome
      let want := ns.any (fun n => termKmer K n.seq d.flip == km) || (!st && ns.any (fun n => termKmer K n.seq d == Compress.rc km))
      found == want
    pure { model, verdict := if impl ≠ model then "FAIL:parallel/serial/model-answers-differ" else if ¬ exact then "FAIL:lookup-not-exact"
                             else if ¬ layoutFine then "FAIL:index-slots-do-not-hold-the-node-ends" else "ok" }
  | "big" :: _ => pure { model := impl, verdict := if impl.startsWith "same=1" then "ok" else s!"FAIL:parallel-and-serial-index-differ({impl})" }
  | _ => throw "bad-request"

end Drv.C19
