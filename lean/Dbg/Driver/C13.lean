import Dbg.Model.ExtsOps
import Dbg.Driver.C14
import Dbg.Model.KmerIter
/-! C13: k-mer extraction across containers; C12: reverse complement across containers and extension sets. -/
namespace Drv.C13
open Kmer KIter Drv.C10

/-- the view named by `a.b.r` (window `[a,b)` of the string, reverse-complemented when `r`) or `a.b.r.x.y` (then its window `[x,y)`) -/
def sliceSpec (d : DnaStr.T) (fs : List String) : Option DnaStr.Slice :=
  match fs with
  | [a, b, r] => (DnaStr.sliceOf d a.toNat! b.toNat!).map fun s => if r == "1" then s.rc else s
  | [a, b, r, x, y] => ((DnaStr.sliceOf d a.toNat! b.toNat!).map fun s => if r == "1" then s.rc else s).bind fun s => DnaStr.Slice.slice s x.toNat! y.toNat!
  | _ => none

/-- the bases that view is supposed to hold -/
def sliceBases (seq : List Nat) (fs : List String) : List Nat :=
  match fs with
  | [a, b, r] => let sub := (seq.drop a.toNat!).take (b.toNat! - a.toNat!); if r == "1" then KSpec.rc sub else sub
  | [a, b, r, x, y] =>
    let sub := (seq.drop a.toNat!).take (b.toNat! - a.toNat!)
    let v := if r == "1" then KSpec.rc sub else sub
    (v.drop x.toNat!).take (y.toNat! - x.toNat!)
  | _ => []

/-- build the container named by `spec` over the bases `seq`; returns the container view and the bases
    the container is supposed to hold -/
def mkCont (c : Cfg) (spec : String) (seq : List Nat) : R (Option (Cont c) × List Nat) :=
  match spec.splitOn "." with
  | ["string"] => pure ((DnaStr.fromBytes seq).map (ofDnaString c), seq)
  | "slice" :: fs => do
    let v := (DnaStr.fromBytes seq).bind fun d => (sliceSpec d fs).map fun s => ofSlice c d s
    pure (v, sliceBases seq fs)
  | ["lmer", n] => do
    let n ← nat n
    pure ((Lmer.fromSlice n seq).map (ofLmer c), seq)
  | ["bytes"] => pure (some (ofBytes c seq), seq)
  | ["dslice"] => pure (some (ofBytes c seq), seq)
  | ["grown", a, b, r, tail, how] => do
    -- an owned copy of a view, grown afterwards by `push`, `extend` or `push_bytes`
    let tl ← natDigits tail
    let packed := (List.range ((tl.length + 3) / 4)).map fun j => ((tl.drop (4 * j)).take 4).zipIdx.foldl (fun acc x => acc + x.1 * 4 ^ x.2) 0
    let v := (DnaStr.fromBytes seq).bind fun d => (sliceSpec d [a, b, r]).bind fun s => (DnaStr.Slice.toOwned d s).bind fun o =>
      if how == "push" then tl.foldlM DnaStr.push o else if how == "ext" then DnaStr.extend o tl else DnaStr.pushBytes o packed tl.length
    pure (v.map (ofDnaString c), sliceBases seq [a, b, r] ++ tl)
  | _ => throw "bad-container"

def showKs (c : Cfg) (l : List (St c)) : String := if l.isEmpty then "-" else ",".intercalate (l.map (showK c))

/-- expected `<hex>:<bases>` of the k-mer spelled `w` -/
def expK (w : List Nat) : String := s!"{toHex (KSpec.val4 w)}:{showNats w}"

def handle (args : List String) (impl : String) : R Ans :=
  match args with
  -- the bulk constructors `kmers_from_bytes` / `kmers_from_ascii` (named by C13) are requests of the k-mer driver
  | [_, "kmersb", _] => Drv.C10.handle args impl
  | [_, "kmersa", _] => Drv.C10.handle args impl
  | ktype :: req :: cont :: seq :: rest => do
    let some c := Cfg.ofName ktype | throw "bad-type"
    let seq ← natDigits seq
    let (v?, l) ← mkCont c cont seq
    let n := l.length
    match req, rest with
    | "getkmer", [pos] => do
      let pos ← nat pos
      let model := match v?.bind (·.getKmer pos) with | some k => showK c k | none => "panic"
      let verdict := if pos + c.K ≤ n then (if impl == expK ((l.drop pos).take c.K) then "ok" else "FAIL:kmer-differs-from-bases[pos..pos+K]")
        else "ok"   -- out of range: asserted / unspecified
      pure { model, verdict }
    | "iter", [] => do
      let model := match v?.bind iterKmers with | some ks => showKs c ks ++ " it=" ++ adaptorsTxt (ks.map (showK c)) | none => "panic"
      let ws := KSpec.windows c.K l
      let expect := (if ws.isEmpty then "-" else ",".intercalate (ws.map expK)) ++ " it=" ++ adaptorsTxt (ws.map expK)
      pure { model, verdict := if impl == expect then "ok" else "FAIL:iterator-differs-from-the-n-K+1-windows" }
    | "iterexts", [e] => do
      let e ← hex e
      let model := match v?.bind (iterKmerExts · e) with
        | some ks =>
          let items := ks.map fun (k, x) => s!"{showK c k}:{toHex x 2}"
          (if items.isEmpty then "-" else ",".intercalate items) ++ " it=" ++ adaptorsTxt items
        | none => "panic"
      let ws := KSpec.windows c.K l
      let m := ws.length
      let expItems := ws.zipIdx.map fun (w, i) =>
        let left := if i = 0 then e % 16 else 2 ^ (l.getD (i - 1) 0)
        let right := if i + 1 = m then (e / 16) * 16 else 2 ^ (4 + l.getD (i + c.K) 0)
        s!"{expK w}:{toHex (left + right) 2}"
      let expect := (if ws.isEmpty then "-" else ",".intercalate expItems) ++ " it=" ++ adaptorsTxt expItems
      pure { model, verdict := if impl == expect then "ok" else "FAIL:kmer/extension-pairs-differ-from-true-flanks" }
    | "term", [] => do
      let sh := fun (o : Option (St c)) => match o with | some k => showK c k | none => "panic"
      let model := match v? with
        | none => "panic"
        | some v => s!"{sh (firstKmer v)};{sh (lastKmer v)};{sh (termKmer v false)};{sh (termKmer v true)}"
      let verdict := if c.K ≤ n then
          let f := expK (l.take c.K); let la := expK (l.drop (n - c.K))
          (if impl == s!"{f};{la};{f};{la}" then "ok" else "FAIL:terminal-kmers-differ-from-first/last-window")
        else "ok"
      pure { model, verdict }
    | "rc", [] => do
      -- C12: reverse complement of the container, twice, and the k-mers of the reverse complement
      let rcBases : Option (List Nat) := match cont.splitOn "." with
        | ["string"] => ((DnaStr.fromBytes seq).bind DnaStr.rc).bind DnaStr.toBytes
        | "slice" :: fs => (DnaStr.fromBytes seq).bind fun d =>
            (sliceSpec d fs).bind fun s => DnaStr.Slice.bytes d s.rc
        | ["lmer", n] => ((Lmer.fromSlice n.toNat! seq).bind Lmer.rc).bind Lmer.toBytes
        | _ => none
      let rcrc : Option (List Nat) := match cont.splitOn "." with
        | ["string"] => (((DnaStr.fromBytes seq).bind DnaStr.rc).bind DnaStr.rc).bind DnaStr.toBytes
        | "slice" :: fs => (DnaStr.fromBytes seq).bind fun d =>
            (sliceSpec d fs).bind fun s => DnaStr.Slice.bytes d s.rc.rc
        | ["lmer", n] => (((Lmer.fromSlice n.toNat! seq).bind Lmer.rc).bind Lmer.rc).bind Lmer.toBytes
        | _ => none
      let kmersRc : Option (List (St c)) := match cont.splitOn "." with
        | ["string"] => ((DnaStr.fromBytes seq).bind DnaStr.rc).bind fun d => iterKmers (ofDnaString c d)
        | "slice" :: fs => (DnaStr.fromBytes seq).bind fun d =>
            (sliceSpec d fs).bind fun s => iterKmers (ofSlice c d s.rc)
        | ["lmer", n] => ((Lmer.fromSlice n.toNat! seq).bind Lmer.rc).bind fun x => iterKmers (ofLmer c x)
        | _ => none
      -- equality of values: x.rc().rc() == x, and x == x.rc() iff the sequence is its own reverse complement
      let b3 := fun (b : Bool) => if b then 3 else 0
      let (inv, pal) : Nat × Nat := match cont.splitOn "." with
        | ["string"] => (match DnaStr.fromBytes seq with
            | some d => (match DnaStr.rc d with
              | some r => (b3 (decide ((DnaStr.rc r) = some d)), b3 (decide (r = d)))
              | none => (9, 9))
            | none => (9, 9))
        | "slice" :: fs => (match (DnaStr.fromBytes seq).bind fun d => (sliceSpec d fs).map fun s => (d, s) with
            | some (d, s) => (b3 ((DnaStr.Slice.eq d s.rc.rc d s).getD false), b3 ((DnaStr.Slice.eq d s d s.rc).getD false))
            | none => (9, 9))
        | ["lmer", n] => (match Lmer.fromSlice n.toNat! seq with
            | some x => (match Lmer.rc x with
              | some r => (b3 (decide (Lmer.rc r = some x)), b3 (decide (r = x)))
              | none => (9, 9))
            | none => (9, 9))
        | _ => (9, 9)
      -- slices: the owned copy of the rc view, and the rc of the owned copy of the view
      let own : Option String := match cont.splitOn "." with
        | "slice" :: fs => some <|
            match (DnaStr.fromBytes seq).bind fun d => (sliceSpec d fs).map fun s => (d, s) with
            | some (d, s) =>
              (match (DnaStr.Slice.toOwned d s.rc).bind DnaStr.toBytes, ((DnaStr.Slice.toOwned d s).bind DnaStr.rc).bind DnaStr.toBytes with
               | some x, some y => s!" own={showNats x} ownrc={showNats y}"
               | _, _ => " own=panic")
            | none => " own=panic"
        | _ => none
      let model := match rcBases, rcrc, kmersRc with
        | some a, some b, some ks => s!"rc={showNats a} rcrc={showNats b} kmers={showKs c ks} inv={inv} pal={pal}{own.getD ""}"
        | _, _, _ => "panic"
      let r := KSpec.rc l
      let ws := KSpec.windows c.K l
      -- the i-th k-mer of the reverse complement is the reverse complement of the (n-K-i)-th k-mer
      let expectK := if ws.isEmpty then "-" else ",".intercalate (ws.reverse.map fun w => expK (KSpec.rc w))
      let expect := s!"rc={showNats r} rcrc={showNats l} kmers={expectK} inv=3 pal={if l == r then 3 else 0}" ++
        (if own.isSome then s!" own={showNats r} ownrc={showNats r}" else "")
      pure { model, verdict := if impl == expect then "ok" else s!"FAIL:rc-not-coherent(expected {expect})" }
    | _, _ => throw "bad-op"
  | _ => throw "bad-request"

/-- C12 on extension sets: `exts <hex>` -/
def handleExts (args : List String) (impl : String) : R Ans :=
  match args with
  | ["extsops", h1, h2, d, b, sq, st, ln] => do
    let e1 : Compress.Exts := ⟨← hex h1⟩; let e2 : Compress.Exts := ⟨← hex h2⟩
    let d ← if d == "L" then pure Walk.Dir.L else if d == "R" then pure Walk.Dir.R else throw "bad-dir"
    let b ← nat b; let sq ← natDigits sq; let st ← nat st; let ln ← nat ln
    let l := fun (v : List Nat) => if v.isEmpty then "-" else String.join (v.map toString)
    let o := fun (v : Option Compress.Base) => match v with | some x => toString x.val | none => "-"
    let fsb := match Compress.Exts.fromSliceBounds sq st ln with | some e => toHex e.val 2 | none => "panic"
    let model := s!"add={toHex (e1.add e2).val 2} set={toHex (Graph.Exts.set e1 d b).val 2} merge={toHex (Compress.Exts.merge e1 e2).val 2} fsd={toHex (Compress.Exts.fromSingleDirs e1 e2).val 2} getL={l (e1.get .L)} getR={l (e1.get .R)} has={if e1.hasExt d b then 1 else 0} numL={e1.numExtDir .L} numR={e1.numExtDir .R} uqL={o (e1.uniqueExt .L)} uqR={o (e1.uniqueExt .R)} sdL={toHex (e1.singleDir .L).val 2} sdR={toHex (e1.singleDir .R).val 2} mkl={toHex (Compress.Exts.mkLeft b).val 2} mkr={toHex (Compress.Exts.mkRight b).val 2} mk={toHex (Compress.Exts.mkBoth b (3 - b)).val 2} fsb={fsb} fds={fsb} dbg={String.ofList (e1.debug.map Char.ofNat)}"
    pure { model, verdict := if impl == "panic" then "FAIL:panic-in-range" else "ok" }
  | ["exts", h] => do
    let v ← hex h
    let e : Compress.Exts := ⟨v⟩
    let model := s!"rc={toHex e.rc.val 2} rcrc={toHex e.rc.rc.val 2} comp={toHex e.complement.val 2} rev={toHex e.reverse.val 2}"
    -- semantic reference: bit b of the left nibble <-> bit 3-b of the right nibble
    let bit := fun (x i : Nat) => (x / 2 ^ i) % 2
    let rcRef := (List.range 8).foldl (fun acc i =>
      let (side, b) := (i / 4, i % 4)
      acc + bit v ((1 - side) * 4 + (3 - b)) * 2 ^ i) 0
    let compRef := (List.range 8).foldl (fun acc i => acc + bit v ((i / 4) * 4 + (3 - i % 4)) * 2 ^ i) 0
    let revRef := (List.range 8).foldl (fun acc i => acc + bit v ((1 - i / 4) * 4 + i % 4) * 2 ^ i) 0
    let expect := s!"rc={toHex rcRef 2} rcrc={toHex v 2} comp={toHex compRef 2} rev={toHex revRef 2}"
    pure { model, verdict := if impl == expect then "ok" else s!"FAIL:extension-set-rc(expected {expect})" }
  | _ => throw "bad-request"

end Drv.C13
