import Dbg.Driver.C10
/-! C11: operation histories on packed k-mers; `==`, `cmp`, `Hash`, sort/dedup/binary search against strings. -/
namespace Drv.C11
open Kmer Drv.C10

inductive HOp
  | L (b : Nat) | R (b : Nat) | C | S (pos v : Nat) | P (pos n : Nat) (value : Nat) | M | E (b : Nat) (right : Bool)

def parseOp (t : String) : R HOp :=
  match t.toList with
  | 'L' :: r => do pure (.L (← nat (String.ofList r)))
  | 'R' :: r => do pure (.R (← nat (String.ofList r)))
  | ['C'] => pure .C
  | ['M'] => pure .M
  | 'S' :: r => match (String.ofList r).splitOn "." with
    | [p, v] => do pure (.S (← nat p) (← nat v))
    | _ => throw "bad-op"
  | 'P' :: r => match (String.ofList r).splitOn "." with
    | [p, n, h] => do pure (.P (← nat p) (← nat n) (← hex h))
    | _ => throw "bad-op"
  | 'E' :: 'L' :: r => do pure (.E (← nat (String.ofList r)) false)
  | 'E' :: 'R' :: r => do pure (.E (← nat (String.ofList r)) true)
  | _ => throw "bad-op"

def runM (c : Cfg) (s : St c) : HOp → St c
  | .L b => extendLeft c s b | .R b => extendRight c s b | .C => rc c s | .S p v => setMut c s p v
  | .P p n v => setSliceMut c s p n (BitVec.ofNat 64 v) | .M => minRc c s | .E b r => extend c s b r

def runS (l : List Nat) : HOp → List Nat
  | .L b => KSpec.extendLeft l b | .R b => KSpec.extendRight l b | .C => KSpec.rc l | .S p v => l.set p v
  | .P p n v => KSpec.setSlice l p n (BitVec.ofNat 64 v) | .M => KSpec.minRc l
  | .E b r => if r then KSpec.extendRight l b else KSpec.extendLeft l b

/-- the neighbour family used for the sort/dedup/binary-search observation: the value twice and all
    single-base substitutions at the first 21 positions -/
def neighbours (l : List Nat) : List (List Nat) :=
  let subs := (List.range (min l.length 21)).flatMap fun i => [1, 2, 3].map fun d => l.set i ((l.getD i 0 + d) % 4)
  l :: l :: subs

def insertSorted (x : List Nat) : List (List Nat) → List (List Nat)
  | [] => [x]
  | y :: ys => if x < y then x :: y :: ys else if x = y then y :: ys else y :: insertSorted x ys

def sortDedup (ls : List (List Nat)) : List (List Nat) := ls.foldl (fun acc x => insertSorted x acc) []

def handle (args : List String) (impl : String) : R Ans :=
  match args with
  | [ty, "hist", ini, ops, other] => do
    let some c := Cfg.ofName ty | throw "bad-type"
    let ops ← if ops == "-" then pure [] else (ops.splitOn ",").mapM parseOp
    -- `other`: literal bases, or `W<m>` = the final string with its first and last `m` bases exchanged (a near twin of the final
    -- k-mer whose storage words are a permutation of each other's pieces)
    let otherLit ← if other.startsWith "W" then pure [] else natDigits other
    let swapM ← if other.startsWith "W" then nat (other.drop 1).toString else pure 0
    let otherOf := fun (fl : List Nat) =>
      if other.startsWith "W" then
        let m := min swapM (fl.length / 2)
        fl.drop (fl.length - m) ++ (fl.drop m).take (fl.length - 2 * m) ++ fl.take m
      else otherLit
    let (s0?, l0) ← match ini.splitOn ":" with
      | ["b", d] => do let d ← natDigits d; pure (fromBytes c d, d.take c.K)
      | ["u", r] => do let r ← nat r; pure (fromU64 c r, KSpec.digits4 c.K r)
      | ["a", t] => do let bs := t.toList.map Char.toNat; pure (fromAscii c bs, (bs.take c.K).map KSpec.asciiToBase)
      | _ => throw "bad-init"
    let some s0 := s0? | pure { model := "panic", verdict := if impl == "panic" then "ok" else "FAIL:no-panic" }
    -- model trace
    let trace := ops.foldl (fun (acc : List (St c)) op => runM c (acc.headD s0) op :: acc) [s0]
    let final := trace.headD s0
    let fl := toSeq c final
    let canon := (fromBytes c fl).getD final
    let other := otherOf fl
    let oth := (fromBytes c other).getD final
    let ord := fun (a b : Bool) => if a then "lt" else if b then "gt" else "eq"
    let sd := sortDedup (neighbours fl)
    let tail (eq hash : Bool) (cmpo : String) (eqo : Bool) (pos len : Nat) :=
      s!"eq={if eq then 1 else 0} hash={if hash then 1 else 0} cmpother={cmpo} eqother={if eqo then 1 else 0} hashother={if eqo then 1 else 0} pos={pos} len={len}"
    let model := ";".intercalate (trace.reverse.map (showK c)) ++ "|" ++
      tail (final == canon) (final == canon) (ord (lt c final oth) (lt c oth final)) (final == oth) (sd.findIdx (· == fl)) sd.length
    -- verdict on the implementation's answer
    let verdict ← do
      if impl == "panic" then pure "FAIL:panic-in-range" else
      match impl.splitOn "|" with
      | [tr, tl] => do
        let steps ← (tr.splitOn ";").mapM parseK
        if steps.length ≠ ops.length + 1 then pure "FAIL:trace-length" else
        let mut cur := l0
        let mut v := "ok"
        let mut first := true
        let mut lastBases := l0
        for ((raw, bases), op?) in steps.zip (none :: ops.map some) do
          match op? with
          | none => pure ()
          | some op => cur := runS cur op
          if bases ≠ cur ∧ v == "ok" then v := if first then "FAIL:constructor-differs-from-string" else "FAIL:step-differs-from-string-operation"
          if ¬ inv c raw ∧ v == "ok" then v := "FAIL:bits-set-outside-the-K-lanes"
          first := false
          lastBases := bases
        let other := otherOf lastBases
        let lexo := ord (decide (lastBases < other)) (decide (other < lastBases))
        let sd' := sortDedup (neighbours lastBases)
        let expectTail := tail true true lexo (lastBases == other) (sd'.findIdx (· == lastBases)) sd'.length
        if v == "ok" ∧ tl ≠ expectTail then v := s!"FAIL:eq/hash/order/sort-disagree-with-strings(expected {expectTail})"
        pure v
      | _ => pure "FAIL:malformed-answer"
    pure { model, verdict }
  | _ => throw "bad-request"

end Drv.C11
