import Dbg.Props.C07
import Dbg.Lemmas.Final
import Dbg.Lemmas.Ladder128
import Dbg.Lemmas.Mask
import Dbg.Lemmas.Lex
