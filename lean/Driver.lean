import Dbg.Driver.C07
import Dbg.Driver.C08
import Dbg.Driver.C10
import Dbg.Driver.C11
import Dbg.Driver.C14
import Dbg.Driver.C15
import Dbg.Driver.C17
import Dbg.Driver.C13
import Dbg.Driver.C16
import Dbg.Driver.C05
import Dbg.Driver.C01
import Dbg.Driver.C03
import Dbg.Driver.C09
import Dbg.Driver.C04
/-! `dbgdriver`: one request per line on stdin (`<prop> <op> <args…>\t<implementation answer>`),
    one line per request on stdout (`<model answer>\t<verdict of holdsCxx on the implementation answer>`). -/
open Drv

def dispatch (prop : String) (args : List String) (impl : String) : R Ans :=
  match prop with
  | "C07" => C07.handle args impl
  | "C08" => C08.handle args impl
  | "C10" => C10.handle args impl
  | "C11" => C11.handle args impl
  | "C14" => C14.handle args impl
  | "C15" => C15.handle args impl
  | "C17" => C17.handle args impl
  | "C13" => C13.handle args impl
  | "C16" => C16.handle args impl
  | "C05" => C05.handle args impl
  | "C01" => C01.handle "C01" args impl
  | "C02" => C01.handle "C02" args impl
  | "C03" => C03.handle args impl
  | "C09" => C09.handle args impl
  | "C18" => C18.handle args impl
  | "C20" => C20.handle args impl
  | "C04" => C04.handle args impl
  | "C06" => C06.handle args impl
  | "C19" => C19.handle args impl
  | "C12" => (match args with | "exts" :: _ => C13.handleExts args impl | "extsops" :: _ => C13.handleExts args impl | _ => C13.handle args impl)
  | _ => throw s!"unknown-property:{prop}"

def answer (line : String) : String :=
  let (req, impl) := match line.splitOn "\t" with
    | [r, i] => (r, i)
    | [r] => (r, "")
    | _ => ("", "")
  match (req.splitOn " ").filter (· ≠ "") with
  | prop :: args =>
    match dispatch prop args impl with
    | .ok a => s!"{a.model}\t{a.verdict}"
    | .error e => s!"bad-request({e})\tbad-request"
  | [] => "bad-request(empty)\tbad-request"

partial def loop (h : IO.FS.Stream) (out : IO.FS.Stream) : IO Unit := do
  let line ← h.getLine
  if line.isEmpty then return ()
  let line := (line.dropEndWhile (fun c => c == '\n' || c == '\r')).toString
  out.putStrLn (answer line)
  loop h out

def main : IO Unit := do
  let out ← IO.getStdout
  loop (← IO.getStdin) out
  out.flush
