#!/usr/bin/env python3
"""Single entry point of the verification machinery (DESIGN.md 2.5).

  python3 check.py <Cxx> --tier quick|thorough     decide one property on /repo's current tree
  python3 check.py <Cxx> --replay <file>            re-run the request stored in a replay file
  python3 check.py --setup                          build everything once (offline)

Exit 0: every theorem of the property re-checked against the constants regenerated from the source,
model and implementation agreed on every request, and the executable property predicate held on
every implementation answer.  Exit 1 + `VIOLATION property=<id> replay=<path>` otherwise.
"""
import sys, os, json, time, subprocess, hashlib, re, fcntl, argparse, shutil, glob

VERIF = os.path.dirname(os.path.abspath(__file__))
LEAN = os.path.join(VERIF, "lean")
HARN = os.path.join(VERIF, "harness")
SCRATCH = os.path.join(VERIF, "scratch")
DRIVER = os.path.join(LEAN, ".lake", "build", "bin", "dbgdriver")
ENV = dict(os.environ, CARGO_NET_OFFLINE="true")
ALLOWED_AXIOMS = {"propext", "Classical.choice", "Quot.sound"}
NCPU = os.cpu_count() or 4

sys.path.insert(0, VERIF)
from props import PROPS   # per-property configuration


def sh(cmd, cwd=None, timeout=None, stdin=None, env=ENV):
    p = subprocess.run(cmd, cwd=cwd, env=env, stdin=stdin, stdout=subprocess.PIPE, stderr=subprocess.STDOUT,
                       timeout=timeout, text=True, errors="replace")
    return p.returncode, p.stdout


class Lock:
    def __enter__(self):
        self.f = open(os.path.join(VERIF, ".build.lock"), "w")
        fcntl.flock(self.f, fcntl.LOCK_EX)
    def __exit__(self, *a):
        fcntl.flock(self.f, fcntl.LOCK_UN)
        self.f.close()


# --------------------------------------------------------------------------- build steps
def extract_consts(pin=None):
    env = dict(ENV)
    if pin:
        env["VERIF_T1_PIN"] = ",".join(pin)
    rc, out = sh([sys.executable, os.path.join(VERIF, "tools", "extract_consts.py")], env=env)
    try:
        r = json.loads(out.strip().splitlines()[-1])
        r["rejected"] = list(pin or [])
        return r
    except Exception:
        return {"changed": False, "fallbacks": ["<extractor failed: %s>" % out[-300:]], "differs_from_pinned": [], "items": 0}


def lake_build(targets):
    rc, out = sh(["lake", "build"] + targets, cwd=LEAN, timeout=3600)
    return rc == 0, out


def strip_comments(text):
    text = re.sub(r"/-.*?-/", "", text, flags=re.S)
    text = re.sub(r"--.*", "", text)
    return text


FORBIDDEN = re.compile(r"\bsorry\b|\badmit\b|^\s*axiom\s|native_decide|bv_decide|implemented_by|\bunsafe\s|maxHeartbeats\s+0", re.M)


def grep_forbidden():
    hits = []
    files = glob.glob(os.path.join(LEAN, "Dbg", "**", "*.lean"), recursive=True) + [os.path.join(LEAN, "Driver.lean")]
    for f in files:
        t = strip_comments(open(f).read())
        for m in FORBIDDEN.finditer(t):
            hits.append("%s: %s" % (os.path.relpath(f, LEAN), m.group(0).strip()))
    return hits


def audit_axioms(prop, cfg):
    """#print axioms for every obligation; returns (per-theorem dict name -> list of axioms or None if missing, raw)"""
    d = os.path.join(LEAN, ".lake", "audit")
    os.makedirs(d, exist_ok=True)
    path = os.path.join(d, prop + ".lean")
    with open(path, "w") as f:
        for m in cfg["lean_modules"]:
            f.write("import %s\n" % m)
        for t in cfg["theorems"]:
            f.write("#print axioms %s\n" % t)
    rc, out = sh(["lake", "env", "lean", path], cwd=LEAN, timeout=1800)
    res = {}
    flat = re.sub(r"\s+", " ", out)
    for t in cfg["theorems"]:
        m = re.search(r"'%s' depends on axioms: \[([^\]]*)\]" % re.escape(t), flat)
        if m:
            res[t] = [a.strip() for a in m.group(1).split(",") if a.strip()]
        elif re.search(r"'%s' does not depend on any axioms" % re.escape(t), flat):
            res[t] = []
        else:
            res[t] = None
    return res, out


def cargo_build(release=False):
    lock = os.path.join(HARN, "Cargo.lock")
    if not os.path.exists(lock) and os.path.exists("/repo/Cargo.lock"):
        shutil.copy("/repo/Cargo.lock", lock)
    cmd = ["cargo", "build", "--offline"] + (["--release"] if release else [])
    rc, out = sh(cmd, cwd=HARN, timeout=3600)
    global LAYOUT_HOOK_LOST
    LAYOUT_HOOK_LOST = None
    if rc != 0:
        # the C19 slot-layout accessor lives inside graph.rs; a change to the index maps can stop it compiling although the crate
        # itself builds. Build without it, so that the requests still run and can exhibit a failing input; the lost obligation is reported.
        rc2, out2 = sh(cmd + ["--no-default-features"], cwd=HARN, timeout=3600)
        if rc2 == 0:
            LAYOUT_HOOK_LOST = out
            return True, out2
    return rc == 0, out


LAYOUT_HOOK_LOST = None


def harness_bin(release=False):
    return os.path.join(HARN, "target", "release" if release else "debug", "dbg-harness")


# --------------------------------------------------------------------------- running cases
def run_shards(prop, cfg, seed, n, tier, tag, release=False):
    """generate+execute n requests over parallel shards, pipe through the driver; returns list of records"""
    d = os.path.join(SCRATCH, prop)
    os.makedirs(d, exist_ok=True)
    shards = max(1, min(NCPU, n // 50 if n >= 50 else 1))
    per = [n // shards + (1 if i < n % shards else 0) for i in range(shards)]
    procs = []
    for i, cnt in enumerate(per):
        if cnt == 0:
            continue
        req = os.path.join(d, "%s-%d.req" % (tag, i))
        out = os.path.join(d, "%s-%d.out" % (tag, i))
        key = cfg.get("harness_key", prop)
        cmd = "VERIF_OUT=%s %s gen %s %d %d %s > /dev/null && %s < %s > %s" % (
            req, harness_bin(release), key, seed * 1000 + i, cnt, tier, DRIVER, req, out)
        procs.append((subprocess.Popen(cmd, shell=True, env=ENV, stderr=subprocess.PIPE, text=True), req, out, seed * 1000 + i))
    recs = []
    deadline = time.time() + (3600 if tier == "thorough" else 900)
    for p, req, out, s in procs:
        try:
            _, err = p.communicate(timeout=max(5, deadline - time.time()))
        except subprocess.TimeoutExpired:
            subprocess.run("pkill -9 -P %d" % p.pid, shell=True)
            p.kill()
            _, err = p.communicate()
            err = (err or "") + " [shard timed out]"
        recs.extend(read_pair(req, out, s, p.returncode, err))
    return recs


def run_requests(prop, requests, tag, release=False):
    d = os.path.join(SCRATCH, prop)
    os.makedirs(d, exist_ok=True)
    inp = os.path.join(d, tag + ".in"); req = os.path.join(d, tag + ".req"); out = os.path.join(d, tag + ".out")
    with open(inp, "w") as f:
        for r in requests:
            f.write(r + "\n")
    cmd = "VERIF_OUT=%s %s exec < %s > /dev/null && %s < %s > %s" % (req, harness_bin(release), inp, DRIVER, req, out)
    try:
        p = subprocess.run(cmd, shell=True, env=ENV, stderr=subprocess.PIPE, text=True, timeout=900)
        rc, err = p.returncode, p.stderr
    except subprocess.TimeoutExpired:
        subprocess.run("pkill -9 -f 'dbgdriver|dbg-harness exec'", shell=True)
        rc, err = 124, "[timed out]"
    return read_pair(req, out, None, rc, err)


def read_pair(req, out, seed, rc, err):
    recs = []
    try:
        a = open(req).read().split("\n")
        b = open(out).read().split("\n")
    except FileNotFoundError:
        a, b = [], []
    if a and a[-1] == "": a.pop()
    if b and b[-1] == "": b.pop()
    if rc != 0 or len(a) != len(b):
        recs.append({"req": "<shard seed=%s>" % seed, "impl": "harness-or-driver-crashed rc=%s %s" % (rc, (err or "")[-300:]),
                     "model": "lines %d/%d" % (len(a), len(b)), "verdict": "internal-error", "seed": seed})
        n = min(len(a), len(b))
        a, b = a[:n], b[:n]
    for x, y in zip(a, b):
        r, _, i = x.partition("\t")
        m, _, v = y.partition("\t")
        recs.append({"req": r, "impl": i, "model": m, "verdict": v, "seed": seed})
    return recs


def corpus_requests(prop):
    reqs = []
    for f in sorted(glob.glob(os.path.join(VERIF, "corpus", prop, "*.req"))):
        for line in open(f):
            line = line.rstrip("\n")
            if line and not line.startswith("#"):
                reqs.append(line.split("\t")[0])
    return reqs


# --------------------------------------------------------------------------- known findings
def load_known():
    p = os.path.join(VERIF, "known_findings.json")
    if not os.path.exists(p):
        return []
    return json.load(open(p)).get("findings", [])


def match_known(prop, rec, known):
    for k in known:
        if k.get("status") != "known" or k.get("property") != prop:
            continue
        m = k.get("match", {})
        if "request_regex" in m and not re.search(m["request_regex"], rec["req"]):
            continue
        if "verdict_regex" in m and not re.search(m["verdict_regex"], rec["verdict"]):
            continue
        return k
    return None


# --------------------------------------------------------------------------- main check
def trunc(s, n=400):
    return s if len(s) <= n else s[:n] + "...(%d chars)" % len(s)


def classify(recs):
    fails = [r for r in recs if r["verdict"].startswith("FAIL")]
    internal = [r for r in recs if r["verdict"] in ("internal-error", "bad-request") or r["model"].startswith("bad-request")]
    disagree = [r for r in recs if r["model"] != r["impl"] and r not in internal]
    return fails, disagree, internal


def write_replay(prop, kind, body):
    d = os.path.join(VERIF, "replays")
    os.makedirs(d, exist_ok=True)
    n = 0
    while os.path.exists(os.path.join(d, "%s-%d.json" % (prop, n))):
        n += 1
    path = os.path.join(d, "%s-%d.json" % (prop, n))
    body = dict(body, property=prop, kind=kind,
                replay_cmd="python3 check.py %s --replay %s" % (prop, os.path.relpath(path, VERIF)))
    json.dump(body, open(path, "w"), indent=1)
    return path


def check(prop, tier, seed):
    """One check.  (T1) is a translator of constants, and a translator can misread a rewritten source: when the values it
    extracts differ from the pinned ones AND the run with them does not come out clean, the run is repeated with those
    items pinned.  If that second run is clean in every respect (all theorems, zero disagreements, zero predicate
    failures) the extraction is rejected as a translator miss - the pinned model is the one that corresponds to the code -
    and the clean result stands, with the rejection recorded in the evidence.  Otherwise the first run's verdict stands:
    a real change of a constant makes the pinned model disagree with the implementation too."""
    import io, contextlib
    rdir = os.path.join(VERIF, "replays")
    before = set(glob.glob(os.path.join(rdir, "*.json")))
    buf_a = io.StringIO()
    with contextlib.redirect_stdout(buf_a):
        rc_a, ext_a = check_once(prop, tier, seed, None)
    differs = ext_a.get("differs_from_pinned") or []
    if rc_a == 0 or not differs:
        sys.stdout.write(buf_a.getvalue())
        return rc_a
    evp = os.path.join(VERIF, "evidence", prop + ".json")
    ev_a = open(evp).read() if os.path.exists(evp) else None
    new_a = set(glob.glob(os.path.join(rdir, "*.json"))) - before
    buf_b = io.StringIO()
    with contextlib.redirect_stdout(buf_b):
        rc_b, ext_b = check_once(prop, tier, seed, differs)
    new_b = set(glob.glob(os.path.join(rdir, "*.json"))) - before - new_a
    if rc_b == 0:
        for f in new_a:
            os.remove(f)
        sys.stdout.write(buf_b.getvalue())
        print("  T1: the values extracted for %s differ from the pinned ones and the model regenerated from them does not check "
              "against the implementation, while the model with the pinned values does (all theorems, every request): "
              "extraction rejected as a translator miss, pinned values used" % differs)
        return 0
    for f in new_b:
        os.remove(f)
    if ev_a is not None:
        open(evp, "w").write(ev_a)
    with Lock():
        extract_consts()
    sys.stdout.write(buf_a.getvalue())
    return rc_a


def check_once(prop, tier, seed, pin):
    cfg = PROPS[prop]
    t0 = time.time()
    known = load_known()
    log = []
    problems = []          # (kind, detail) — things that no longer check (proof / correspondence / build)
    with Lock():
        ext = extract_consts(pin)
        ok_thm, out_thm = lake_build(cfg["lean_modules"])
        ok_drv, out_drv = lake_build(["dbgdriver"])
        if ok_thm:
            axioms, raw = audit_axioms(prop, cfg)
        else:
            axioms, raw = {t: None for t in cfg["theorems"]}, ""
        ok_h, out_h = cargo_build(False)
        ok_hr = True
        if tier == "thorough" and ok_h:
            ok_hr, out_hr = cargo_build(True)
    forbidden = grep_forbidden()
    discharged = 0
    extra_axioms = set()
    for t in cfg["theorems"]:
        ax = axioms.get(t)
        if ax is None:
            problems.append(("theorem", "%s does not check (%s)" % (t, "build of %s failed" % ",".join(cfg["lean_modules"]) if not ok_thm else "not found")))
        elif not set(ax) <= ALLOWED_AXIOMS:
            extra_axioms |= set(ax) - ALLOWED_AXIOMS
            problems.append(("theorem", "%s depends on non-standard axioms %s" % (t, sorted(set(ax) - ALLOWED_AXIOMS))))
        else:
            discharged += 1
    if forbidden:
        problems.append(("audit", "forbidden tokens in Lean sources: %s" % forbidden[:5]))
    if not ok_thm:
        m = re.findall(r"error: ([^\n]*\n[^\n]*)", out_thm)
        log.append("lake build failed: " + trunc(" | ".join(m[:3]) if m else out_thm[-600:], 900))
    leanchecker = None
    if tier == "thorough" and ok_thm:
        rcs = []
        for m in cfg["lean_modules"]:
            rc, o = sh(["lake", "env", "leanchecker", m], cwd=LEAN, timeout=3600)
            rcs.append(rc)
            if rc != 0:
                problems.append(("audit", "leanchecker rejected %s: %s" % (m, o[-300:])))
        leanchecker = "ok" if all(r == 0 for r in rcs) else "failed"

    recs = []
    if LAYOUT_HOOK_LOST is not None:
        problems.append(("hook", "the index-layout hook (feature verif_index_layout) no longer compiles against /repo; harness built without it, "
                                 "the slot-layout hypotheses of Boom.C19_builders_agree are not evaluated on this tree: " + trunc(LAYOUT_HOOK_LOST[-500:], 500)))
    if not ok_h:
        problems.append(("harness-build", trunc(out_h[-800:], 800)))
    if not ok_drv:
        problems.append(("driver-build", trunc(out_drv[-800:], 800)))
    can_run = ok_h and ok_drv
    n = cfg["n_thorough"] if tier == "thorough" else cfg["n_quick"]
    if can_run:
        creqs = corpus_requests(prop)
        if creqs:
            recs += run_requests(prop, creqs, "corpus")
        recs += run_shards(prop, cfg, seed, n, tier, "gen")
        if tier == "thorough" and ok_hr and cfg.get("release_share", 0.25) > 0:
            recs += run_shards(prop, cfg, seed + 7919, int(n * cfg.get("release_share", 0.25)), tier, "rel", release=True)
    fails, disagree, internal = classify(recs)
    if internal:
        problems.append(("correspondence", "protocol/internal error on request: %s -> impl=%s model=%s" % (trunc(internal[0]["req"], 200), trunc(internal[0]["impl"], 200), trunc(internal[0]["model"], 200))))
    disagree.sort(key=lambda r: len(r["req"]))
    if disagree:
        problems.append(("correspondence", "model and implementation disagree on %d request(s); shortest: %s" % (len(disagree), trunc(disagree[0]["req"], 300))))

    # known findings
    known_hit = {}
    new_fails = []
    for r in fails:
        k = match_known(prop, r, known)
        if k is not None:
            known_hit.setdefault(k["id"], (k, r))
        else:
            new_fails.append(r)

    # extended search for a failing input when something no longer checks but no failure was seen
    searched = 0
    if problems and not new_fails and can_run:
        budget = max(20 * cfg["n_quick"], 2 * n)
        more = run_shards(prop, cfg, seed + 104729, budget, "thorough", "search")
        searched = len(more)
        f2, _, _ = classify(more)
        for r in f2:
            if match_known(prop, r, known) is None:
                new_fails.append(r)
        recs_all = recs + more
    else:
        recs_all = recs

    # ------------------------------------------------------------------ evidence
    nontrivial = cfg.get("nontrivial", lambda req, impl: True)
    tags = cfg.get("tags", lambda req, impl: [])
    seen = set(); distinct_nt = 0; dist = {}
    for r in recs:
        toks = r["req"].split(" ")
        try:
            nt = nontrivial(toks, r["impl"])
            tg = tags(toks, r["impl"])
        except Exception:
            nt, tg = False, ["<unparsed>"]
        for t in tg:
            dist[t] = dist.get(t, 0) + 1
        if nt:
            h = hashlib.sha1(r["req"].encode()).digest()
            if h not in seen:
                seen.add(h); distinct_nt += 1
    samples = [{"request": trunc(r["req"], 300), "implementation": trunc(r["impl"], 300), "model": trunc(r["model"], 300), "verdict": r["verdict"]}
               for r in recs[:1] + recs[len(recs) // 2: len(recs) // 2 + 2]]
    violations = 0
    lines = []
    for kid, (k, r) in sorted(known_hit.items()):
        lines.append("KNOWN-FINDING: property=%s %s" % (prop, k["what"]))
    replay_path = None
    if new_fails:
        violations = len(new_fails)
        best = min(new_fails, key=lambda r: len(r["req"]))
        best = shrink(prop, cfg, best)
        replay_path = write_replay(prop, "failing-input", {
            "seed": best.get("seed"), "request": best["req"], "implementation_answer": best["impl"],
            "model_answer": best["model"], "verdict": best["verdict"],
            "what_no_longer_checks": [p[1] for p in problems], "failing_requests_found": len(new_fails)})
        lines.append("VIOLATION property=%s replay=%s" % (prop, replay_path))
    elif problems:
        violations = 1
        first = problems[0]
        body = {"what_no_longer_checks": [("%s: %s" % p) for p in problems], "searched_requests": searched + len(recs),
                "lake_log": log, "note": "no input with holds%s = false was found on the implementation; the property is no longer shown to hold" % prop}
        if disagree:
            body.update(request=disagree[0]["req"], implementation_answer=disagree[0]["impl"], model_answer=disagree[0]["model"], seed=disagree[0].get("seed"))
        replay_path = write_replay(prop, "no-longer-checks:" + first[0], body)
        lines.append("VIOLATION property=%s replay=%s no-failing-input-found" % (prop, replay_path))

    wall = time.time() - t0
    ev = {
        "property_id": prop, "tier": tier, "seed": seed, "level": "proof",
        "coverage": {
            "obligations": len(cfg["theorems"]), "discharged": discharged,
            "checker_cmd": "cd lean && lake build %s && lake env lean .lake/audit/%s.lean   (# print axioms)%s" % (
                " ".join(cfg["lean_modules"]), prop, " && lake env leanchecker " + " ".join(cfg["lean_modules"]) if tier == "thorough" else ""),
            "trusted_base": [
                "Lean 4.33.0 kernel; axioms used by the property theorems: %s" % sorted({a for ax in axioms.values() if ax for a in ax}),
                "no native_decide / bv_decide / sorry (source grep: %s)" % ("clean" if not forbidden else forbidden[:3]),
                "tools/extract_consts.py (T1): %d items regenerated from /repo/src; fallbacks to pinned values: %s; values differing from pinned: %s%s" % (
                    ext.get("items", 0), [f for f in ext.get("fallbacks", []) if f not in ext.get("rejected", [])], ext.get("differs_from_pinned"),
                    ("; extracted values REJECTED for %s (the model regenerated from them did not correspond to the implementation, the pinned model does)" % ext["rejected"]) if ext.get("rejected") else ""),
                "correspondence check (T2): harness/ (Rust, calls the crate in-process), lean/Driver.lean, check.py",
            ] + cfg.get("trusted_base", []),
            "theorems": {t: ("missing" if axioms.get(t) is None else axioms.get(t)) for t in cfg["theorems"]},
            "partial_theorems": cfg.get("partial", []),
            "leanchecker": leanchecker,
            "evaluations": len(recs), "distinct_nontrivial": distinct_nt,
            "rule": cfg.get("rule", ""),
            "samples": samples,
            "input_distribution": dict(sorted(dist.items())),
            "traces_validated_against_impl": len(recs) - len(disagree) - len(internal),
            "disagreements_checked": len(disagree),
            "holds_failures_on_implementation": len(fails),
            "predicate_evaluated_on": sum(1 for r in recs if r["verdict"] == "ok"),
            "outside_the_property_quantifier": sum(1 for r in recs if r["verdict"].startswith("skip:")),
            "outside_the_quantifier_by_reason": {k: sum(1 for r in recs if r["verdict"] == k) for k in sorted({r["verdict"] for r in recs if r["verdict"].startswith("skip:")})},
            "known_findings_reproduced": sorted(known_hit.keys()),
            "extended_search_requests": searched,
            "corpus_requests": len(corpus_requests(prop)),
            "exhaustive": False,
        },
        "assumptions": cfg.get("assumptions", []),
        "wall_s": round(wall, 2),
        "violations": violations,
    }
    os.makedirs(os.path.join(VERIF, "evidence"), exist_ok=True)
    json.dump(ev, open(os.path.join(VERIF, "evidence", prop + ".json"), "w"), indent=1)
    print("[%s %s] theorems %d/%d, requests %d (non-trivial distinct %d), disagreements %d, holds failures %d (known %d), %.1fs" % (
        prop, tier, discharged, len(cfg["theorems"]), len(recs), distinct_nt, len(disagree), len(fails), len(fails) - len(new_fails) if not searched else len(known_hit), wall))
    for p in problems:
        print("  no longer checks: %s: %s" % (p[0], trunc(p[1], 300)))
    for l in log:
        print("  " + l)
    for l in lines:
        print(l)
    return (1 if violations else 0), ext


def shrink(prop, cfg, rec):
    """greedy shrinking of a failing request with the property's own candidate generator (if any)"""
    cand_fn = cfg.get("shrink")
    if not cand_fn:
        return rec
    best = rec
    t_end = time.time() + 180          # shrinking is a convenience: bounded in time, and skipped for huge requests
    for _ in range(60):
        if time.time() > t_end or len(best["req"]) > 30000:
            break
        try:
            cands = cand_fn(best["req"].split(" "))
        except Exception:
            cands = []      # a request shape the shrinker does not know: keep the failing request as it is
        if not cands:
            break
        rs = run_requests(prop, [" ".join(c) for c in cands[:64]], "shrink")
        better = [r for r in rs if r["verdict"].startswith("FAIL") and len(r["req"]) < len(best["req"])]
        if not better:
            break
        best = min(better, key=lambda r: len(r["req"]))
        best["seed"] = rec.get("seed")
    return best


def replay(prop, path):
    body = json.load(open(path))
    req = body.get("request")
    with Lock():
        extract_consts()
        ok_t, out_t = lake_build(PROPS[prop]["lean_modules"])
        lake_build(["dbgdriver"])
        cargo_build(False)
    print("theorems of %s build: %s" % (prop, "yes" if ok_t else "NO"))
    if not req:
        print("replay file names no request: ", body.get("what_no_longer_checks"))
        return 0 if ok_t else 1
    rs = run_requests(prop, [req], "replay")
    bad = not ok_t
    for r in rs:
        print("request       :", trunc(r["req"], 2000))
        print("implementation:", trunc(r["impl"], 2000))
        print("model         :", trunc(r["model"], 2000))
        print("verdict       :", r["verdict"])
        if r["verdict"] != "ok" or r["impl"] != r["model"]:
            bad = True
    if bad:
        print("VIOLATION property=%s replay=%s" % (prop, path))
    return 1 if bad else 0


def setup():
    with Lock():
        print(extract_consts())
        ok, out = lake_build(["Dbg", "dbgdriver"])
        print(out[-1500:])
        if not ok:
            return 1
        ok, out = cargo_build(False)
        print(out[-600:])
        if not ok:
            return 1
        ok, out = cargo_build(True)
        print(out[-300:])
        return 0 if ok else 1


def main():
    ap = argparse.ArgumentParser()
    ap.add_argument("prop", nargs="?")
    ap.add_argument("--tier", default=os.environ.get("VERIF_TIER", "quick"))
    ap.add_argument("--replay")
    ap.add_argument("--setup", action="store_true")
    a = ap.parse_args()
    if a.setup:
        sys.exit(setup())
    if a.prop not in PROPS:
        print("unknown property", a.prop); sys.exit(2)
    if a.replay:
        sys.exit(replay(a.prop, a.replay))
    seed = int(os.environ.get("VERIF_SEED", "1"))
    tier = a.tier if a.tier in ("quick", "thorough") else "quick"
    sys.exit(check(a.prop, tier, seed))


if __name__ == "__main__":
    main()
