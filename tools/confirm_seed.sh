#!/bin/bash
# confirm a seeded change in its scratch worktree: suite passes with the patch, demo fails with / passes without
# usage: confirm_seed.sh <worktree> <outdir>
set -u
WT=$1; OUT=$2
mkdir -p "$OUT"
cd "$WT" || exit 2
export CARGO_NET_OFFLINE=true CARGO_TARGET_DIR=$WT/target
cp _seeded/patch.diff "$OUT/patch.diff"; cp _seeded/seeded_demo.rs "$OUT/seeded_demo.rs"; cp _seeded/notes.md "$OUT/notes.md" 2>/dev/null
git checkout -q -- src; git apply _seeded/patch.diff || { echo "patch does not apply" > "$OUT/confirm.log"; exit 1; }
mkdir -p tests; cp _seeded/seeded_demo.rs tests/seeded_demo.rs
{
echo "== suite with patch"; cargo test --offline --lib 2>&1 | grep -E "^test result|FAILED|failed|panicked" | head -20
echo "== demo with patch (must fail)"; cargo test --offline --test seeded_demo 2>&1 | grep -E "^test result|^test .*(ok|FAILED)" | head -20
git checkout -q -- src
echo "== demo without patch (must pass)"; cargo test --offline --test seeded_demo 2>&1 | grep -E "^test result|^test .*(ok|FAILED)" | head -20
git apply _seeded/patch.diff
} > "$OUT/confirm.log" 2>&1
