#!/usr/bin/env python3
"""Regenerate MANIFEST.json from props.py (claimed properties) + the fixed list C01..C20."""
import json, os, sys
V = os.path.dirname(os.path.dirname(os.path.abspath(__file__)))
sys.path.insert(0, V)
from props import PROPS
from manifest_text import TEXT, NOT_YET, HOOK_COMMITS, NOTES

checks = []
CLAIMED = sorted(p for p in PROPS if PROPS[p]['theorems'])
for pid in CLAIMED:
    t = TEXT[pid]
    checks.append({
        "property_id": pid,
        "quick_cmd": "python3 check.py %s --tier quick" % pid,
        "thorough_cmd": "python3 check.py %s --tier thorough" % pid,
        "evidence_file": "/verif/evidence/%s.json" % pid,
        "replay_cmd_template": "python3 check.py %s --replay {path}" % pid,
        "engine": "lean-proof+correspondence",
        "level_claimed": {"category": "proof", "text": t["level_text"], "design_ref": t["design_ref"]},
        "level_note": t["level_note"],
        "technique": t["technique"],
    })
na = [{"property_id": "C%02d" % i, "reason": NOT_YET.get("C%02d" % i, "not yet built (framework under construction; planned, see DESIGN.md section 6)")}
      for i in range(1, 21) if "C%02d" % i not in CLAIMED]
m = {
    "version": 1,
    "setup_cmd": "python3 check.py --setup",
    "hooks": {
        "guard": "verif_hooks",
        "enable": "cargo features `verif_hooks` (and `verif_index_layout`, which implies it: the C19 slot-layout accessor) of the debruijn crate; the harness crate depends on /repo with features=[\"verif_hooks\"] and, through its default feature `layout`, `verif_index_layout`",
        "baseline_off_cmd": "cd /repo && cargo test --workspace --no-fail-fast --offline",
        "source_commits": HOOK_COMMITS,
        "add_only": True,
    },
    "engines": [{
        "name": "lean-proof+correspondence", "path": "/verif/check.py",
        "serves_properties": CLAIMED,
        "kind_free_text": "Lean 4 theorems about a hand-written executable model (lean/Dbg), re-checked on every run against constants "
                          "regenerated from /repo/src (tools/extract_consts.py); the model is tied to the code by a differential "
                          "correspondence check (Rust harness calling the crate in-process vs the compiled Lean driver) and the "
                          "executable property predicate is evaluated on the implementation's answers",
    }],
    "checks": checks,
    "notes": NOTES,
    "not_applicable": na,
}
json.dump(m, open(os.path.join(V, "MANIFEST.json"), "w"), indent=1)
print("claimed:", CLAIMED)
