#!/usr/bin/env python3
"""Write seeded/<id>/meta.json from the table below (what each seeded change breaks, what it needs to manifest, what was
run to confirm it, which checks catch it)."""
import json, os
V = os.path.dirname(os.path.dirname(os.path.abspath(__file__)))
T = {
 "C01": ("compression.rs: the seed k-mer is no longer cleared from the availability set before the walks (removed only after build_node)",
         "a seed whose component is a closed unbranched cycle (circular / tandem-repeat / homopolymer read): the walk re-joins the seed, the node is one base too long and the seed's payload is folded twice",
         {"C01": "failing input (not-a-partition)", "C02": "correspondence broken, no failing input for the components predicate"}),
 "C02": ("compression.rs try_extend_kmer: dropped the `!stranded && kmer.is_palindrome()` terminal test for the current k-mer",
         "unstranded, even K, a palindromic k-mer with a single extension that is visited as a seed before its neighbours (hash order)",
         {"C01": "failing input", "C02": "failing input (nodes are not the components)"}),
 "C03": ("graph.rs max_path: the used_nodes set became local to each arm of the greedy walk",
         "the best-scoring node lies on a cycle of >= 2 nodes and both arms step onto the same partner",
         {"C03": "failing input (best-path-repeats-a-node)"}),
 "C04": ("compression.rs try_extend_node: dropped the `!stranded` guard of the single-k-mer palindromic node rule",
         "stranded mode, even K, a palindromic k-mer that is a length-K node of the combined shard graph on an unbranched path",
         {"C04": "failing input (partitions differ)", "C09": "failing input", "C06": "failing input"}),
 "C05": ("filter.rs: bucket ranges built as start..start+sz-1 (inclusive-end thinking) while the membership test stays exclusive",
         "two or more passes and a k-mer in the last bucket of a non-final pass",
         {"C05": "failing input (table differs from reference grouping), shrunk to one 15-base read"}),
 "C06": ("compression.rs try_extend_kmer: dropped the `!stranded` guard of the palindrome terminal test",
         "stranded mode, even K, a read with a self-reverse-complementary k-mer on an unbranched stretch",
         {"C06": "failing input after the stranded branch of the predicate was strengthened (initially missed: the stranded branch only judged the table)", "C01": "correspondence broken, no failing input", "C04": "failing input"}),
 "C07": ("msp.rs: the cached score MinPos::val narrowed from usize to u32 (`as u32` in mp/incr)",
         "a score function returning values >= 2^32",
         {"C07": "initially missed (scores were < 2^20); now the T1 constant mspScoreBits breaks theorem C07_scan_valid and the new `big` score generator finds a 5-base failing input"}),
 "C08": ("msp.rs msp_sequence: rc-mode score = min(perm[p], rank(rc p)) (dropped permutation lookup)",
         "rc = true together with a non-identity permutation",
         {"C08": "failing input (bucket-not-a-function-of-the-kmer)"}),
 "C09": ("compression.rs try_extend_node: palindrome guard became `!stranded && rc && next_kmer.is_palindrome()` (find_link reports palindromes with rc = false)",
         "unstranded, even K, a palindromic single-k-mer node with one extension facing a neighbour that links to it uniquely, palindrome id > seed id",
         {"C09": "failing input", "C04": "failing input"}),
 "C10": ("kmer.rs VarIntKmer::set_slice_mut: bottom mask computed as (1 << addr(pos+n)) - 1 (off by one lane)",
         "a partial-width type, a run ending before K, a non-A base right after the run",
         {"C10": "failing input (setslice)"}),
 "C11": ("kmer.rs VarIntKmer: the top-align shift for >64-bit storage moved into the shared helper t_from_u64, so from_u64 stores v << 64",
         "Kmer48/Kmer40::from_u64 with a large rank",
         {"C11": "initially missed (from_u64 was only exercised for K <= 32); caught after the generator was extended to K > 32", "C10": "failing input (fromu64)"}),
 "C12": ("dna_string.rs DnaString::rc: word-at-a-time fast path for len % 32 == 0 that forgets to reverse the block order",
         "an owned DnaString of length 64, 96, 128, …",
         {"C12": "failing input (rc-not-coherent)"}),
 "C13": ("dna_string.rs DnaString::get_kmer: block loop unrolled to 'first block, then the next one'",
         "K > 32 at an unaligned offset (a k-mer spanning three blocks)",
         {"C13": "failing input"}),
 "C14": ("dna_string.rs with_capacity/blank: block count (n*2 + 64)/64 (round-up without the -1)",
         "blank / Vmer::new / from_slice with a length that is a multiple of 32, then ==/hash/cmp against another route or a bulk extend",
         {"C14": "failing input (padding-or-block-count), shrunk to `blank.0`"}),
 "C15": ("dna_string.rs DnaStringSlice::slice, rc branch: new_start = length - end (parent start dropped)",
         "a slice with non-zero backing start, then rc, then slice",
         {"C15": "failing input"}),
 "C16": ("bitops_avx2.rs convert_bases: returns shuffle(lut, input) without andnot(mask, ·)",
         "AVX2 path, a full 32-byte block containing a non-ACGT 7-bit byte whose low nibble is 3, 4 or 7",
         {"C16": "failing input (acgt auto and kernel convert)"}),
 "C17": ("vmer.rs Lmer::set_slice_mut: `bottom_mask |= 0xFF` became `bottom_mask = 0xFF`",
         "a packed write starting in the word that holds the length byte and ending before the string's end",
         {"C17": "failing input (bits-set-beyond-the-length)"}),
 "C19": ("graph.rs BaseGraph::finish (parallel builder only): skips a node's first/last k-mer in the index when that side has no extensions",
         "finish() (not finish_serial) and a lookup aimed at a dead-end side",
         {"C19": "failing input (parallel/serial/model answers differ)"}),
 "C18": ("graph.rs NodeKmerIter::nth: end check `n >= self.num_kmers - self.kmer_id` became `n >= self.len()` (len() is the up-front total)",
         "an iterator that has already advanced, then a skip reaching past the last k-mer but shorter than the node's total count",
         {"C18": "failing input (k-mer of a neighbouring node / stream does not end)"}),
 "C20": ("graph.rs node_to_gfa: right-edge filter `target > id || (target == id && dir == Right)` simplified to `target >= id`",
         "a node whose right end links to its own left end (circular self-link, e.g. a homopolymer or tandem repeat)",
         {"C20": "failing input (FAIL:gfa-duplicates-a-link)"}),
}
for pid, (what, needs, caught) in T.items():
    d = os.path.join(V, "seeded", pid)
    if not os.path.isdir(d) or not os.path.exists(os.path.join(d, "patch.diff")):
        continue
    conf = open(os.path.join(d, "confirm.log")).read() if os.path.exists(os.path.join(d, "confirm.log")) else ""
    meta = {
        "property": pid,
        "change": what,
        "needs_to_manifest": needs,
        "files": {"patch": "patch.diff", "demonstration": "seeded_demo.rs", "author_notes": "notes.md", "confirmation_log": "confirm.log"},
        "confirmed_by_me": {
            "how": "tools/confirm_seed.sh in a scratch worktree outside /repo and /verif: patch applied -> `cargo test --offline --lib` (existing suite), "
                   "`cargo test --offline --test seeded_demo` (must fail); patch reverted -> demo again (must pass)",
            "suite_with_patch": next((l for l in conf.splitlines() if l.startswith("test result")), "n/a"),
            "demo_fails_with_patch": "FAILED" in conf,
            "demo_passes_without_patch": conf.strip().splitlines()[-1].startswith("test result: ok") if conf.strip() else False,
        },
        "detected_by": caught,
        "how_checked": "git -C /repo apply seeded/%s/patch.diff; python3 check.py <id> --tier quick; git -C /repo checkout -- ." % pid,
    }
    json.dump(meta, open(os.path.join(d, "meta.json"), "w"), indent=1)
    print(pid, meta["confirmed_by_me"]["suite_with_patch"][:40], meta["confirmed_by_me"]["demo_fails_with_patch"], meta["confirmed_by_me"]["demo_passes_without_patch"])
