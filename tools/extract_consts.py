#!/usr/bin/env python3
"""(T1) Regenerate lean/Dbg/Gen/Consts.lean from /repo/src on every run.

Each item is found by a regular expression anchored on the surrounding Rust code.  If an item
cannot be found (the code was restructured) its pinned value is used and the item is reported as a
fallback: an extraction miss is never by itself a verdict; the correspondence check (T2) is then
the only tie for that item."""
import re, sys, os, json

REPO = os.environ.get("VERIF_REPO", "/repo")
OUT = os.path.join(os.path.dirname(os.path.abspath(__file__)), "..", "lean", "Dbg", "Gen", "Consts.lean")

def src(name):
    with open(os.path.join(REPO, "src", name)) as f:
        return f.read()

ITEMS = []   # (lean name, lean type, pinned value (string), extractor -> string or None, doc)

def item(name, ty, pinned, doc):
    def deco(fn):
        ITEMS.append((name, ty, pinned, fn, doc))
        return fn
    return deco

INT_BITS = {"u8": 8, "u16": 16, "u32": 32, "u64": 64, "u128": 128, "usize": 64}

def struct_field_type(text, struct, field):
    m = re.search(r"(?:pub )?struct %s(?:<[^>]*>)?\s*\{(.*?)\n\}" % re.escape(struct), text, re.S)
    if not m:
        return None
    f = re.search(r"\b%s\s*:\s*([A-Za-z0-9_]+)" % re.escape(field), m.group(1))
    return f.group(1) if f else None

# ---------------------------------------------------------------- msp.rs
@item("mspStartBits", "Nat", "32", "width of MspIntervalP.start / minimizer_pos (`as u32`)")
def _():
    t = src("msp.rs")
    a = struct_field_type(t, "MspIntervalP", "start"); b = struct_field_type(t, "MspIntervalP", "minimizer_pos")
    if a in INT_BITS and a == b:
        # the casts must name the same types
        if re.search(r"minimizer_pos:\s*min_pos\.pos as %s" % a, t) and re.search(r"start:\s*\w+ as %s" % a, t):
            return str(INT_BITS[a])
    return None

@item("mspLenBits", "Nat", "16", "width of MspIntervalP.len (`as u16`)")
def _():
    t = src("msp.rs")
    a = struct_field_type(t, "MspIntervalP", "len")
    if a in INT_BITS and len(re.findall(r"len:\s*\([^;]*?\) as %s" % a, t)) == 2:
        return str(INT_BITS[a])
    return None

@item("mspScoreBits", "Nat", "64", "width of the cached score MinPos.val (usize) and of the closure's return type")
def _():
    t = src("msp.rs")
    a = struct_field_type(t, "MinPos", "val")
    # the score must be stored without a narrowing cast
    if a in INT_BITS and len(re.findall(r"let val = \(self\.score\)\(&kmer\);", t)) == 2 and re.search(r"F: Fn\(&P\) -> usize", t):
        return str(INT_BITS[a])
    if a in INT_BITS:
        casts = re.findall(r"let val = \(self\.score\)\(&kmer\) as (\w+);", t)
        if casts and all(c in INT_BITS for c in casts):
            return str(min([INT_BITS[a]] + [INT_BITS[c] for c in casts]))
    return None

@item("mspMaxLenLog", "Nat", "32", "`assert!(self.seq.len() < 1 << 32)` in Scanner::scan")
def _():
    t = src("msp.rs")
    m = re.search(r"pub fn scan\(&self\).*?assert!\(self\.seq\.len\(\) >= self\.k\);\s*assert!\(self\.seq\.len\(\) < 1 << (\d+)\);", t, re.S)
    return m.group(1) if m else None

# ---------------------------------------------------------------- kmer.rs
def _ksizes(t):
    return {m.group(1): int(m.group(2)) for m in re.finditer(r"impl KmerSize for (K\d+) \{[^}]*?fn K\(\) -> usize \{\s*(\d+)\s*\}", t, re.S)}

@item("shipped", "List (String × Nat × Nat × Bool)",
      '[("Kmer64",128,64,false),("Kmer48",128,48,true),("Kmer40",128,40,true),("Kmer32",64,32,false),("Kmer30",64,30,true),("Kmer24",64,24,true),("Kmer20",64,20,true),("Kmer16",32,16,false),("Kmer15",32,15,true),("Kmer14",32,14,true),("Kmer12",32,12,true),("Kmer10",32,10,true),("Kmer8",16,8,false),("Kmer6",16,6,true),("Kmer5",16,5,true),("Kmer4",8,4,false),("Kmer3",8,3,true),("Kmer2",8,2,true),("K31",64,31,true),("VK4",8,4,true),("V16K4",16,4,true),("V128K31",128,31,true),("V128K33",128,33,true),("V128K41",128,41,true),("V128K63",128,63,true)]',
      "k-mer types: (name, storage bits, K, is VarIntKmer); the 18 aliases of kmer.rs plus VarIntKmer<u64,K31>, <u8,K4>, <u16,K4>, <u128,K31>")
def _():
    t = src("kmer.rs")
    ks = _ksizes(t)
    out = []
    for m in re.finditer(r"pub type (Kmer\d+) = (IntKmer|VarIntKmer)<(u\d+)(?:,\s*(K\d+))?>;", t):
        name, kind, ty, ksz = m.groups()
        w = INT_BITS[ty]
        if kind == "IntKmer":
            # K = size_of::<T>() * 4
            if not re.search(r"fn _k\(\) -> usize \{\s*// 4 bases per byte\s*std::mem::size_of::<T>\(\) \* 4", t):
                return None
            out.append((name, w, w // 2, "false"))
        else:
            if ksz not in ks:
                return None
            out.append((name, w, ks[ksz], "true"))
    # completeness: every alias declared in the file must have been understood
    if len(out) != len(re.findall(r"^pub type Kmer\w*\b", t, re.M)):
        return None
    if len(out) < 1 or "K31" not in ks or "K4" not in ks:
        return None
    out.append(("K31", 64, ks["K31"], "true"))
    # VarIntKmer instances that are no alias but can be written from the shipped parts: the only one that fills its
    # storage (u8, K4), and two with much spare room
    out.append(("VK4", 8, ks["K4"], "true"))
    out.append(("V16K4", 16, ks["K4"], "true"))
    out.append(("V128K31", 128, ks["K31"], "true"))
    # sizes a user may define (KmerSize is a public trait; defined in harness/src/util.rs): odd K beyond 32 on u128 storage
    out.append(("V128K33", 128, 33, "true"))
    out.append(("V128K41", 128, 41, "true"))
    out.append(("V128K63", 128, 63, "true"))
    return "[" + ",".join('("%s",%d,%d,%s)' % o for o in out) + "]"

def _ladder(ty):
    t = src("kmer.rs")
    m = re.search(r"impl IntHelp for %s \{(.*?)\n\}\n" % ty, t, re.S)
    if not m:
        return None, None
    body = m.group(1)
    f = re.search(r"fn reverse_by_twos\(&self\) -> %s \{(.*?)\n        r\n" % ty, body, re.S)
    if not f:
        return None, None
    layers = []
    # completeness: every layer of the ladder is one `<<`; a layer written differently (a named constant, another
    # form of the expression) must make the whole item a miss, not a shorter ladder
    n_shifts = len(re.findall(r"<<", f.group(1)))
    # ((X & MASK) << S) | ((X >> S) & MASK)
    for st in re.finditer(r"\(\((\w+) & (0x[0-9A-Fa-f]+)%s\) << (\d+)\)\s*\|\s*\(\((\w+) >> (\d+)\) & (0x[0-9A-Fa-f]+)%s\)" % (ty, ty), f.group(1)):
        x1, m1, s1, x2, s2, m2 = st.groups()
        if x1 != x2:
            return None, None
        layers.append((int(m1, 16), int(s1), int(m2, 16), int(s2)))
    lo = re.search(r"fn lower_of_two\(\) -> %s \{\s*(0x[0-9A-Fa-f]+)%s" % (ty, ty), body)
    if len(layers) != n_shifts:
        layers = None
    return layers, (int(lo.group(1), 16) if lo else None)

for _ty in ("u8", "u16", "u32", "u64", "u128"):
    _w = INT_BITS[_ty]
    _pin_masks = {2: "3", 4: "0F", 8: "00FF", 16: "0000FFFF", 32: "00000000FFFFFFFF", 64: "0000000000000000FFFFFFFFFFFFFFFF"}
    def _pinned_layers(w):
        out = []
        s = 2
        while s < w:
            unit = int(_pin_masks[s], 16)
            mask = 0
            for off in range(0, w, 2 * s):
                mask |= unit << off
            out.append("(%d,%d,%d,%d)" % (mask, s, mask, s))
            s *= 2
        return "[" + ",".join(out) + "]"
    def _mk(ty=_ty, w=_w):
        @item("rev%d" % w, "List (Nat × Nat × Nat × Nat)", _pinned_layers(w),
              "reverse_by_twos for %s: per layer (mask of the left-shifted half, left shift, mask of the right-shifted half, right shift)" % ty)
        def _():
            layers, lo = _ladder(ty)
            if not layers:
                return None
            return "[" + ",".join("(%d,%d,%d,%d)" % l for l in layers) + "]"
        @item("lowerOfTwo%d" % w, "Nat", str(int("55" * (w // 8), 16)), "IntHelp::lower_of_two for %s" % ty)
        def _():
            layers, lo = _ladder(ty)
            return None if lo is None else str(lo)
    _mk()

# ---------------------------------------------------------------- lib.rs tables
def _match_table(fn_name, default_re, arm_re, conv):
    """build a 256-entry table from the match arms of a small function in lib.rs"""
    t = src("lib.rs")
    m = re.search(r"pub fn %s\(c: u8\)[^{]*\{\s*match c \{(.*?)\n    \}\n\}" % fn_name, t, re.S)
    if not m:
        return None
    body = m.group(1)
    table = [None] * 256
    default = None
    for line in body.strip().split("\n"):
        line = line.strip().rstrip(",")
        if not line:
            continue
        lhs, _, rhs = line.partition("=>")
        lhs = lhs.strip(); rhs = rhs.strip()
        v = conv(rhs)
        if v is None:
            return None
        if lhs == "_":
            default = v
            continue
        for alt in lhs.split("|"):
            alt = alt.strip()
            mm = re.fullmatch(r"b'(.)'", alt)
            nn = re.fullmatch(r"(\d+)u8", alt)
            if mm:
                table[ord(mm.group(1))] = v
            elif nn:
                table[int(nn.group(1))] = v
            else:
                return None
    if default is None:
        return None
    return [default if x is None else x for x in table]

def _conv_u8(rhs):
    m = re.fullmatch(r"(\d+)u8", rhs)
    if m: return int(m.group(1))
    m = re.fullmatch(r"b'(.)'", rhs)
    if m: return ord(m.group(1))
    m = re.fullmatch(r"'(.)'", rhs)
    if m: return ord(m.group(1))
    return None

def _conv_opt(rhs):
    if rhs == "None": return 255
    m = re.fullmatch(r"Some\((\d+)u8\)", rhs)
    return int(m.group(1)) if m else None

def _lean_list(xs):
    return "[" + ",".join(str(x) for x in xs) + "]"

_B2B = [0] * 256
for _c, _v in ((65, 0), (97, 0), (67, 1), (99, 1), (71, 2), (103, 2), (84, 3), (116, 3)):
    _B2B[_c] = _v
@item("baseToBits", "List Nat", _lean_list(_B2B), "lib.rs base_to_bits as a 256-entry table")
def _():
    t = _match_table("base_to_bits", None, None, _conv_u8)
    return None if t is None else _lean_list(t)

_D2B = [255] * 256
for _c, _v in ((65, 0), (97, 0), (67, 1), (99, 1), (71, 2), (103, 2), (84, 3), (116, 3)):
    _D2B[_c] = _v
@item("dnaOnlyBaseToBits", "List Nat", _lean_list(_D2B), "lib.rs dna_only_base_to_bits as a 256-entry table (255 = None)")
def _():
    t = _match_table("dna_only_base_to_bits", None, None, _conv_opt)
    return None if t is None else _lean_list(t)

@item("hashnArms", "List Nat", _lean_list(_D2B), "dna_string.rs from_acgt_bytes_hashn: the inline match on the byte as a 256-entry table (255 = the hashed arm)")
def _():
    t = src("dna_string.rs")
    m = re.search(r"pub fn from_acgt_bytes_hashn\(.*?let v = match c \{(.*?)\n\s*_ => \{", t, re.S)
    if not m:
        return None
    table = [255] * 256
    for line in m.group(1).strip().split("\n"):
        line = line.strip().rstrip(",")
        if not line:
            continue
        lhs, _, rhs = line.partition("=>")
        v = _conv_u8(rhs.strip())
        if v is None:
            return None
        for alt in lhs.split("|"):
            mm = re.fullmatch(r"b'(.)'", alt.strip())
            if not mm:
                return None
            table[ord(mm.group(1))] = v
    return _lean_list(table)

_BTA = [88] * 256
_BTA[0], _BTA[1], _BTA[2], _BTA[3] = 65, 67, 71, 84
@item("bitsToAscii", "List Nat", _lean_list(_BTA), "lib.rs bits_to_ascii as a 256-entry table")
def _():
    t = _match_table("bits_to_ascii", None, None, _conv_u8)
    return None if t is None else _lean_list(t)

@item("bitsToBase", "List Nat", _lean_list(_BTA), "lib.rs bits_to_base (char code) as a 256-entry table")
def _():
    t = _match_table("bits_to_base", None, None, _conv_u8)
    return None if t is None else _lean_list(t)

_VALID = [1 if c in (65, 67, 71, 84, 97, 99, 103, 116) else 0 for c in range(256)]
@item("isValidBase", "List Nat", _lean_list(_VALID), "lib.rs is_valid_base as a 256-entry 0/1 table")
def _():
    t = src("lib.rs")
    m = re.search(r"pub fn is_valid_base\(c: u8\) -> bool \{\s*matches!\(c,([^)]*)\)", t)
    if not m:
        return None
    tab = [0] * 256
    for alt in m.group(1).split("|"):
        mm = re.fullmatch(r"b'(.)'", alt.strip())
        if not mm:
            return None
        tab[ord(mm.group(1))] = 1
    return _lean_list(tab)

@item("complementMask", "Nat", "3", "lib.rs complement: (!base) & 0x3")
def _():
    t = src("lib.rs")
    m = re.search(r"pub fn complement\(base: u8\) -> u8 \{\s*\(!base\) & 0x([0-9a-fA-F]+)u8", t)
    return str(int(m.group(1), 16)) if m else None

# ---------------------------------------------------------------- dna_string.rs
def _const(name, ty_re=r"[a-z0-9]+"):
    t = src("dna_string.rs")
    m = re.search(r"^const %s: %s = (0x[0-9a-fA-F]+|\d+);" % (name, ty_re), t, re.M)
    return None if not m else str(int(m.group(1), 0))

@item("dnaBlockBits", "Nat", "64", "dna_string.rs BLOCK_BITS")
def _(): return _const("BLOCK_BITS")

@item("dnaWidth", "Nat", "2", "dna_string.rs WIDTH")
def _(): return _const("WIDTH")

@item("dnaMask", "Nat", "3", "dna_string.rs MASK")
def _(): return _const("MASK")

@item("dnaLowerOfTwo", "Nat", str(0x5555555555555555), "mask in count_diff_2_bit_packed")
def _():
    t = src("dna_string.rs")
    m = re.search(r"fn count_diff_2_bit_packed\(a: u64, b: u64\) -> u32 \{\s*let bit_diffs = a \^ b;\s*let two_bit_diffs = \(bit_diffs \| bit_diffs >> 1\) & (0x[0-9a-fA-F]+);", t)
    return str(int(m.group(1), 16)) if m else None

@item("sliceDebugLimit", "Nat", "256", "length from which Debug for DnaStringSlice prints a summary")
def _():
    t = src("dna_string.rs")
    m = re.search(r"impl<'a> fmt::Debug for DnaStringSlice<'a> \{.*?if self\.length < (\d+) \{", t, re.S)
    return m.group(1) if m else None

# ---------------------------------------------------------------- lib.rs Exts
@item("extsComplement", "List (Nat × Nat)", "[(85,1),(51,2)]", "Exts::complement: (mask, shift) of the two swap steps")
def _():
    t = src("lib.rs")
    m = re.search(r"pub fn complement\(&self\) -> Exts \{(.*?)Exts \{ val: r \}", t, re.S)
    if not m:
        return None
    steps = re.findall(r"\((\w+) & 0x([0-9a-fA-F]+)u8\) << (\d+) \| \(\((\w+) >> (\d+)\) & 0x([0-9a-fA-F]+)u8\)", m.group(1))
    if len(steps) != 2 or any(st[1].lower() != st[5].lower() or st[2] != st[4] or st[0] != st[3] for st in steps):
        return None
    return "[" + ",".join("(%d,%d)" % (int(st[1], 16), int(st[2])) for st in steps) + "]"

@item("extsReverse", "Nat × Nat × Nat", "(15,4,4)", "Exts::reverse: (v & MASK) << L | (v >> R)")
def _():
    t = src("lib.rs")
    m = re.search(r"pub fn reverse\(&self\) -> Exts \{\s*let v = self\.val;\s*let r = \(v & 0x([0-9a-fA-F]+)\) << (\d+) \| \(v >> (\d+)\);", t)
    return "(%d,%s,%s)" % (int(m.group(1), 16), m.group(2), m.group(3)) if m else None

@item("extsMerge", "Nat × Nat", "(15,240)", "Exts::merge: left.val & L | right.val & R")
def _():
    t = src("lib.rs")
    m = re.search(r"pub fn merge\(left: Exts, right: Exts\) -> Exts \{\s*Exts \{\s*val: left\.val & 0x([0-9a-fA-F]+) \| right\.val & 0x([0-9a-fA-F]+),", t)
    return "(%d,%d)" % (int(m.group(1), 16), int(m.group(2), 16)) if m else None

# ---------------------------------------------------------------- bitops_avx2.rs
def _set_epi8(text, var):
    """byte-position-indexed list (32 entries) of a `let var = _mm256_set_epi8(...)` (arguments are listed from byte 31 down)"""
    m = re.search(r"let %s = _mm256_set_epi8\((.*?)\);" % var, text, re.S)
    if not m:
        return None
    body = re.sub(r"/\*.*?\*/", "", m.group(1), flags=re.S)
    args = [a.strip() for a in body.split(",") if a.strip()]
    if len(args) != 32:
        return None
    vals = []
    for a in args:
        mm = re.fullmatch(r"(\d+)i8 << (\d+)", a)
        if mm:
            vals.append((int(mm.group(1)) << int(mm.group(2))) & 0xFF)
        elif re.fullmatch(r"\d+", a):
            vals.append(int(a))
        else:
            return None
    return list(reversed(vals))

@item("avxReverseMask", "List Nat", _lean_list([15 - (i % 16) for i in range(32)]), "pack_32_bases: shuffle control reversing bytes within 128-bit lanes (indexed by byte position)")
def _():
    v = _set_epi8(src("bitops_avx2.rs"), "reverse_mask")
    return None if v is None else _lean_list(v)

@item("avxPermuteImm", "Nat", str(0b01110010), "pack_32_bases: immediate of _mm256_permute4x64_epi64")
def _():
    m = re.search(r"_mm256_permute4x64_epi64\(reversed, 0b([01_]+)\)", src("bitops_avx2.rs"))
    return str(int(m.group(1).replace("_", ""), 2)) if m else None

@item("avxShifts", "Nat × Nat", "(7,6)", "pack_32_bases: slli_epi16 counts for the first and second bit")
def _():
    t = src("bitops_avx2.rs")
    a = re.search(r"let first_bits = _mm256_slli_epi16\(permuted, (\d+)\);", t)
    b = re.search(r"let second_bits = _mm256_slli_epi16\(permuted, (\d+)\);", t)
    return "(%s,%s)" % (a.group(1), b.group(1)) if a and b else None

@item("avxHiLutChars", "List Nat", _lean_list([65, 67, 71, 84, 97, 99, 103, 116]), "convert_bases: characters whose bit is set in lut_hi")
def _():
    t = src("bitops_avx2.rs")
    cs = re.findall(r"lut_hi \|= 1i64 << \(\(b'(.)' as i64\) - 64i64\);", t)
    # completeness: every statement that sets a bit of lut_hi must have been understood
    if not cs or len(cs) != len(re.findall(r"lut_hi \|=", t)) or not re.search(r"_mm256_set_epi64x\(lut_hi, 0i64, lut_hi, 0i64\)", t):
        return None
    return _lean_list([ord(c) for c in cs])

@item("avxLoLut", "List Nat", _lean_list([1 << (i % 8) for i in range(32)]), "convert_bases: lo_lut (indexed by byte position)")
def _():
    v = _set_epi8(src("bitops_avx2.rs"), "lo_lut")
    return None if v is None else _lean_list(v)

@item("avxLoMask", "Nat", "15", "convert_bases: lo_mask byte")
def _():
    m = re.search(r"let lo_mask = _mm256_set1_epi8\(0b([01]+)\);", src("bitops_avx2.rs"))
    return str(int(m.group(1), 2)) if m else None

@item("avxLut", "List Nat", _lean_list([0, 0, 0, 1, 3, 0, 0, 2, 0, 0, 0, 0, 0, 0, 0, 0] * 2), "convert_bases: lut from the low 4 bits to the 2-bit code (indexed by byte position)")
def _():
    v = _set_epi8(src("bitops_avx2.rs"), "lut")
    return None if v is None else _lean_list(v)

@item("avxHiShift", "Nat", "3", "convert_bases: srli_epi16 count")
def _():
    m = re.search(r"let hi = _mm256_and_si256\(_mm256_srli_epi16\(input, (\d+)\), lo_mask\);", src("bitops_avx2.rs"))
    return m.group(1) if m else None

# ---------------------------------------------------------------- filter.rs
@item("countSaturation", "Nat", "65535", "CountFilter: the count is a u16 incremented with saturating_add")
def _():
    t = src("filter.rs")
    m = re.search(r"impl<D> KmerSummarizer<D, (u\d+)> for CountFilter \{.*?let mut count = 0(u\d+);.*?count = count\.(saturating_add|wrapping_add)\(1\);", t, re.S)
    if not m or m.group(1) != m.group(2) or m.group(3) != "saturating_add":
        return None
    return str(2 ** INT_BITS[m.group(1)] - 1)

@item("filterBytesPerUnit", "Nat", "1000000000", "filter_kmers: max_mem = memory_size * 10^9")
def _():
    m = re.search(r"let max_mem = memory_size \* 10_usize\.pow\((\d+)\);", src("filter.rs"))
    return str(10 ** int(m.group(1))) if m else None

# ---------------------------------------------------------------- graph.rs
@item("nodeIterSkipThreshold", "Nat", "4", "NodeKmerIter::nth: skips of at most this many k-mers step base by base")
def _():
    m = re.search(r"fn nth\(&mut self, n: usize\) -> Option<Self::Item> \{\s*if n <= (\d+) \{", src("graph.rs"))
    return m.group(1) if m else None

def generate():
    lines = ["/-! GENERATED by tools/extract_consts.py from /repo/src — do not edit. -/", "namespace Gen", ""]
    fallbacks = []
    values = {}
    # VERIF_T1_PIN: items whose extracted value check.py has rejected (see check.py, `check`): use the pinned value
    pin = set(x for x in os.environ.get("VERIF_T1_PIN", "").split(",") if x)
    for name, ty, pinned, fn, doc in ITEMS:
        try:
            v = None if name in pin else fn()
        except Exception as e:  # extractor bug = miss
            v = None
        if v is None:
            v = pinned
            fallbacks.append(name)
        values[name] = v
        lines.append(f"/-- {doc} -/")
        lines.append(f"def {name} : {ty} := {v}")
        lines.append("")
    lines.append("end Gen")
    return "\n".join(lines) + "\n", fallbacks, values

def main():
    text, fallbacks, values = generate()
    out = os.path.normpath(OUT)
    old = open(out).read() if os.path.exists(out) else None
    changed = old != text
    if changed:
        os.makedirs(os.path.dirname(out), exist_ok=True)
        with open(out, "w") as f:
            f.write(text)
    pinned = {name: p for name, _, p, _, _ in ITEMS}
    differs = sorted(n for n in values if values[n] != pinned[n])
    print(json.dumps({"changed": changed, "fallbacks": fallbacks, "differs_from_pinned": differs, "items": len(ITEMS)}))

if __name__ == "__main__":
    main()
