#!/usr/bin/env python3
"""Write seeded/<id>-r11/meta.json (round 11: two cooperating sites / multi-step histories / unusual argument combinations)."""
import json, os
V = os.path.dirname(os.path.dirname(os.path.abspath(__file__)))
T = {
 "C01": ("compression.rs: `try_extend_kmer` retires the neighbour's id itself and no longer calls `join_test`; `extend_kmer` applies `join_test` afterwards (two sites, each harmless alone)",
         "a `CompressionSpec` whose `join_test` refuses some adjacent pair inside an unbranched stretch (ScmapCompress with several colours, any user spec): the refused k-mer is marked used and lands in no node",
         {"C01": "failing input (108 requests), as the checks stood"}),
 "C03": ("lib.rs: `Dir` derives PartialEq/Eq/Hash; graph.rs `max_path` stops on a repeated (node, orientation) state instead of a repeated node id",
         "an unstranded graph where the best-scoring walk re-enters a node through its other side (hairpin, inverted repeat)",
         None),
 "C04": ("msp.rs: `Scanner::scan` merges neighbouring intervals with the same minimizer up to a new `max_interval`; `msp_sequence` raises it to `V::max_len()`; the pre-existing `len as u16` then wraps",
         "one read whose same-minimizer run is longer than 65 535 bases (homopolymer / short-period tandem repeat) through `msp_sequence` with DnaString pieces",
         None),
 "C05": ("filter.rs: a bucket with more than 2^20 observations (K >= 8) is split into 256 parts by the k-mer's last four bases before sorting",
         "one first-four-bases bucket with > 1 048 576 observations, K >= 9, at least two distinct k-mers in it, report_all_kmers = true: `all_kmers` is no longer ascending",
         None),
 "C07": ("msp.rs `Scanner::scan`: `find_min` stops its re-scan at a `floor` score and returns the last p-mer visited; the main loop takes `end_pos` from it (two edits, each correct alone). NB the crate's randomized `test_msp_scanner` (not among the 51 pinned tests: the baseline lists it as always failing) fails with the patch",
         "the minimizer leaves the window, a tied p-mer sits before the window's last position, and a strictly better p-mer enters within the lag (tied, non-constant scores)",
         None),
 "C09": ("compression.rs `compress_graph`: seed loop breaks once `n_placed >= n_nodes - censor.len()`; clean_graph.rs `find_bad_nodes` rewritten per end, listing an isolated tip twice",
         "a censor list with a repeated id (now produced by the crate's own `find_bad_nodes` for an isolated node): the last surviving nodes are never seeded",
         {"C09": "failing input (383 requests), as the checks stood"}),
 "C10": ("lib.rs trait Kmer: new helper `extend_right_all`; `from_bytes`/`from_ascii` fold over the whole slice instead of its first K items",
         "`from_bytes` / `from_ascii` given more than K letters (documented: the first K are used): the last K come out",
         {"C10": "failing input (1783 requests), as the checks stood"}),
 "C13": ("dna_string.rs: `DnaString::push` ORs the base in instead of clearing the slot first; `DnaStringSlice::to_owned` block-copies forward views that start on a 32-base boundary without masking the last block",
         "history: forward view with block-aligned start and an end inside a block, non-A bases behind it in the parent -> `to_owned()` -> push/extend -> read a k-mer over an appended base",
         None),
 "C14": ("dna_string.rs `DnaStringIter` and lib.rs `MerIter`: exact `size_hint` (`len - i`) plus O(1) `nth` (`i = i.saturating_add(n)`)",
         "history: a jump strictly beyond the end (`nth`, `skip`, `step_by`) and then a consumer that asks `size_hint` on the same iterator (`collect::<String>()`, `extend`, `zip`): underflow",
         None),
 "C15": ("dna_string.rs: same pair as C13-r11 (`to_owned` block copy for views >= 256 bases, `push` ORs)",
         "history: aligned forward view of >= 256 bases ending inside a block -> `to_owned()` -> (`==` / grow and view again)",
         {"C15": "failing input (5 requests), as the checks stood: the owned copy's padding makes derived `==` differ"}),
 "C16": ("dna_string.rs + bitops_avx2.rs: bulk AVX2 path for inputs with >= 4096 bytes of whole blocks (`pack_ascii_blocks`, `len` set at the end) and a scalar tail written with `push` (slot found from `len`)",
         "AVX2 path, len >= 4096 and len % 32 != 0: the tail bases overwrite bases 0..len%32 of block 0",
         None),
 "C18": ("graph.rs `NodeKmerIter`: new private `seek` clamps to `num_kmers`; `nth`'s long-skip branch calls `seek(self.kmer_id + n)` without its own end test",
         "an iterator already advanced, then `nth(n)` with `n > usize::MAX - kmer_id` (`nth(usize::MAX)` after a step): overflow / wrap-around",
         {"C18": "failing input (628 requests), as the checks stood"}),
 "C19": ("graph.rs: the two end indexes become `NoKeyBoomHashMap` (hash + ids only), `search_kmer` verifies against the node sequence; `find_edges` goes through a new `find_neighbor` that takes the reverse-complement candidate unchecked when the forward lookup misses",
         "unstranded graph, an extension bit whose target k-mer is an end of no node (shards, graphs before `fix_exts`, hand-built graphs), an edge-list query: spurious `(id, dir, true)` edges",
         None),
 "C20": ("dna_string.rs: `PackedDnaStringSet` serde no longer writes `start` (rebuilt as the running sum of `length`); graph.rs `BaseGraph::combine` bulk-copies packed words padded to block boundaries",
         "a graph from `BaseGraph::combine` of >= 2 non-empty shards whose earlier shards are not a multiple of 32 bases, finished, written and read back, then queried or exported",
         None),
}
DET = json.load(open(os.path.join(V, "seeded", "r11_detected.json"))) if os.path.exists(os.path.join(V, "seeded", "r11_detected.json")) else {}
for pid, (what, needs, caught) in T.items():
    d = os.path.join(V, "seeded", pid + "-r11")
    if not os.path.exists(os.path.join(d, "patch.diff")):
        continue
    conf = open(os.path.join(d, "confirm.log")).read() if os.path.exists(os.path.join(d, "confirm.log")) else ""
    results = [l for l in conf.splitlines() if l.startswith("test result")]
    meta = {
        "property": pid, "round": 11, "change": what, "needs_to_manifest": needs,
        "files": {"patch": "patch.diff", "demonstration": "seeded_demo.rs", "author_notes": "notes.md", "confirmation_log": "confirm.log"},
        "confirmed_by_me": {
            "how": "tools/confirm_seed.sh in the agent's scratch worktree /tmp/seed11/<id> (outside /repo and /verif, removed afterwards): patch applied -> `cargo test --offline --lib`, "
                   "`cargo test --offline --test seeded_demo` (must fail); patch reverted -> demo again (must pass)",
            "suite_with_patch": results[0] if results else "n/a",
            "demo_fails_with_patch": len(results) > 1 and "FAILED" in results[1],
            "demo_passes_without_patch": len(results) > 2 and results[2].startswith("test result: ok"),
        },
        "detected_by": DET.get(pid, caught),
        "how_checked": "git -C /repo apply seeded/%s-r11/patch.diff; python3 check.py %s --tier quick; git -C /repo checkout -- ." % (pid, pid),
    }
    json.dump(meta, open(os.path.join(d, "meta.json"), "w"), indent=1)
    print(pid, meta["confirmed_by_me"]["suite_with_patch"][:45], meta["confirmed_by_me"]["demo_fails_with_patch"], meta["confirmed_by_me"]["demo_passes_without_patch"])
