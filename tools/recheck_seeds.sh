#!/bin/bash
# Re-run every seeded change against the current checks: apply, run the quick check of its property, revert.
cd /verif
for d in seeded/C*/; do
  id=$(basename $d | cut -c1-3)
  git -C /repo checkout -- . 2>/dev/null
  if ! git -C /repo apply /verif/$d/patch.diff 2>/dev/null; then echo "$(basename $d) APPLY-FAILED"; continue; fi
  out=$(python3 check.py $id --tier quick 2>&1 | grep -E "VIOLATION|quick\]" | tr '\n' ' ')
  git -C /repo checkout -- .
  if echo "$out" | grep -q VIOLATION; then echo "$(basename $d) caught: $out"; else echo "$(basename $d) MISSED: $out"; fi
done
git -C /repo status --short
