//! C07: `Scanner::scan` on DnaSlice / DnaString / Lmer containers with table, linear-hash and constant scores.
use crate::util::*;
use crate::with_kmer_type;
use debruijn::dna_string::DnaString;
use debruijn::msp::Scanner;
use debruijn::vmer::Lmer3;
use debruijn::{DnaSlice, Kmer, Vmer};

enum Score {
    Tab(Vec<usize>),
    Lin(usize, usize, usize),
    Big(usize, usize),
    Const,
}

fn parse_score(s: &str) -> Score {
    let mut it = s.splitn(2, ':');
    match (it.next().unwrap(), it.next()) {
        ("tab", Some(t)) => Score::Tab(nat_list(t)),
        ("lin", Some(t)) => {
            let v = nat_list(t);
            Score::Lin(v[0], v[1], v[2])
        }
        ("big", Some(t)) => {
            let v = nat_list(t);
            Score::Big(v[0], v[1])
        }
        ("const", _) => Score::Const,
        _ => panic!("bad score"),
    }
}

fn scan_on<P: Kmer, V: Vmer>(seq: &V, k: usize, score: &Score) -> String {
    let f = |pm: &P| -> usize {
        let r = pm.to_u64() as usize;
        match score {
            Score::Tab(t) => t[r],
            Score::Lin(a, b, m) => ((r * a + b) % 1000003) % m,
            Score::Big(a, b) => { let x = (r * a + b) % 1000003; x * 4294967296 + (1000003 - x) }
            Score::Const => 7,
        }
    };
    let ivs = Scanner::new(seq, f, k).scan();
    if ivs.is_empty() {
        return "-".into();
    }
    ivs.iter()
        .map(|iv| format!("{}:{}:{}:{}", iv.start, iv.len, iv.minimizer_pos, acgt_to_digits(&iv.minimizer.to_string())))
        .collect::<Vec<_>>()
        .join(";")
}

fn scan_p<P: Kmer>(container: &str, seq: &[u8], k: usize, score: &Score) -> String {
    match container {
        "slice" => scan_on::<P, _>(&DnaSlice(seq), k, score),
        "string" => scan_on::<P, _>(&DnaString::from_bytes(seq), k, score),
        "lmer3" => scan_on::<P, _>(&Lmer3::from_slice(seq), k, score),
        _ => panic!("bad container"),
    }
}

/// `scan <k> <p> <seq> <score> [container]`
pub fn exec(a: &[&str]) -> String {
    if a[0] == "sscan" {
        // the deprecated wrapper `simple_scan`: `sscan <k> <p> <rc> <perm> <read>`
        let k: usize = a[1].parse().unwrap();
        let p: usize = a[2].parse().unwrap();
        let perm = nat_list(a[4]);
        let read = digits(a[5]);
        return with_kmer_type!(p, sscan_p, k, a[3] == "1", &perm, &read);
    }
    assert!(a[0] == "scan");
    let k: usize = a[1].parse().unwrap();
    let p: usize = a[2].parse().unwrap();
    let seq = digits(a[3]);
    let score = parse_score(a[4]);
    let container = a.get(5).copied().unwrap_or("slice");
    with_kmer_type!(p, scan_p, container, &seq, k, &score)
}

fn sscan_p<P: debruijn::Kmer>(k: usize, rc: bool, perm: &[usize], read: &[u8]) -> String {
    crate::c08::sscan::<P>(k, rc, perm, read)
}

pub fn gen(rng: &mut Rng, tier: &str) -> String {
    if rng.chance(1, 10) {
        // `simple_scan`: a permutation score (random permutation, rc mode on or off), p <= 4 so that the table stays small
        let p = *rng.pick(&[2usize, 3, 4]);
        let k = p + if rng.chance(1, 6) { 0 } else { rng.below(13) };
        let alpha = rng.range(2, 4);
        let len = if rng.chance(1, 40) { rng.below(k) } else { k + rng.below(60) };
        let seq = random_seq(rng, len, alpha);
        let n = 1usize << (2 * p);
        let mut v: Vec<usize> = (0..n).collect();
        if rng.chance(3, 4) { for i in (1..n).rev() { let j = rng.below(i + 1); v.swap(i, j); } }
        if rng.chance(1, 12) { v.pop(); }
        return format!("C07 sscan {} {} {} {} {}", k, p, rng.below(2), show_nat_list(&v), show_digits(&seq));
    }
    let ps: &[usize] = if tier == "thorough" { &[2, 3, 4, 5, 6, 8, 10, 12, 14, 15, 16] } else { &[2, 3, 4, 5, 8] };
    // now and then a window of 62..72 p-mers (k - p around 64) on a longer sequence, with p-mers wide enough for distinct scores
    let widewin = rng.chance(1, 12);
    let p = if widewin { *rng.pick(&[4usize, 5, 5, 8]) } else { *rng.pick(ps) };
    let k = p + if widewin { *rng.pick(&[61usize, 62, 63, 64, 64, 65, 66, 71]) } else if rng.chance(1, 6) { 0 } else { rng.below(13) };
    let alpha = rng.range(1, 4);
    // mostly valid (len >= k), a small malformed stream (len < k) to compare the assertion
    let len = if widewin { k + rng.range(300, 900) } else if rng.chance(1, 40) { rng.below(k) } else { k + if rng.chance(1, 5) { rng.below(3) } else { rng.below(70) } };
    let seq = random_seq(rng, len, alpha);
    let score = if p <= 4 && rng.chance(1, 2) {
        let n = 1usize << (2 * p);
        let kind = rng.below(5);
        let t: Vec<usize> = match kind {
            4 => {
                // masking scores: some p-mers (sometimes all, sometimes all but one) get usize::MAX, others values next to it or small
                let dens = *rng.pick(&[1usize, 2, 4, 1000]);
                (0..n).map(|r| if rng.below(dens + 1) != 0 || dens == 1000 && r != 0 { usize::MAX } else { *rng.pick(&[usize::MAX - 1, 0, r, usize::MAX]) }).collect()
            }
            0 => {
                // random permutation
                let mut v: Vec<usize> = (0..n).collect();
                for i in (1..n).rev() {
                    let j = rng.below(i + 1);
                    v.swap(i, j);
                }
                v
            }
            1 => (0..n).map(|r| r % 3).collect(),              // heavy ties
            2 => (0..n).map(|_| rng.below(4)).collect(),       // random with ties
            _ => {
                // rc-symmetric: min(rank, rank of rc)
                (0..n)
                    .map(|r| {
                        let mut rc = 0usize;
                        let mut x = r;
                        for _ in 0..p {
                            rc = rc * 4 + (3 - (x & 3));
                            x >>= 2;
                        }
                        r.min(rc)
                    })
                    .collect()
            }
        };
        format!("tab:{}", show_nat_list(&t))
    } else if rng.chance(1, 8) {
        "const".to_string()
    } else if rng.chance(1, 5) {
        format!("big:{},{}", rng.range(1, 1 << 20), rng.below(1 << 20))
    } else {
        let m = *rng.pick(&[1usize, 2, 3, 5, 17, 1000, 1000003]);
        format!("lin:{},{},{}", rng.range(1, 1 << 20), rng.below(1 << 20), m)
    };
    let container = if len <= 92 && rng.chance(1, 4) {
        "lmer3"
    } else if rng.chance(1, 3) {
        "string"
    } else {
        "slice"
    };
    format!("C07 scan {} {} {} {} {}", k, p, show_digits(&seq), score, container)
}
