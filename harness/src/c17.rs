//! C17: Lmer<[u64; n]>, n = 1..6: histories of set_mut / set_slice_mut / rc; raw words through serde_json.
use crate::util::*;
use debruijn::vmer::{Array, Lmer};
use debruijn::{Mer, Vmer};
use std::collections::hash_map::DefaultHasher;
use std::hash::{Hash, Hasher};

fn h<K: Hash>(k: &K) -> u64 {
    let mut s = DefaultHasher::new();
    k.hash(&mut s);
    s.finish()
}

pub fn show_l<A: Array<Item = u64> + Copy + Eq + Ord + Hash + serde::Serialize>(l: &Lmer<A>) -> String {
    let v: serde_json::Value = serde_json::to_value(l).unwrap();
    v["storage"].as_array().unwrap().iter().map(|b| format!("{:x}", b.as_u64().unwrap())).collect::<Vec<_>>().join(".")
}

fn bases<A: Array<Item = u64> + Copy + Eq + Ord + Hash>(l: &Lmer<A>) -> Vec<u8> {
    (0..l.len()).map(|i| l.get(i)).collect()
}

fn hist<A: Array<Item = u64> + Copy + Eq + Ord + Hash + serde::Serialize>(seq: &[u8], ops: &str) -> String {
    let mut l: Lmer<A> = Lmer::from_slice(seq);
    let mut tr = vec![show_l(&l)];
    if ops != "-" {
        for t in ops.split(',') {
            let (c, r) = t.split_at(1);
            match c {
                "C" => l = l.rc(),
                "S" => {
                    let (p, v) = r.split_once('.').unwrap();
                    l.set_mut(p.parse().unwrap(), v.parse().unwrap());
                }
                "P" => {
                    let f: Vec<&str> = r.split('.').collect();
                    l.set_slice_mut(f[0].parse().unwrap(), f[1].parse().unwrap(), u64::from_str_radix(f[2], 16).unwrap());
                }
                _ => panic!("bad op"),
            }
            tr.push(show_l(&l));
        }
    }
    let b = bases(&l);
    let canon: Lmer<A> = Lmer::from_slice(&b);
    // also: order against the canonical value, the `Debug` rendering (the letters) and the base iterator through its adaptors
    let letters: String = b.iter().map(|x| debruijn::bits_to_base(*x)).collect();
    format!("{}|len={} bytes={} eqc={} hashc={} cmpc={} dbg={} it={}", tr.join(";"), l.len(), show_digits(&b), (l == canon) as u8, (h(&l) == h(&canon)) as u8,
        (l.cmp(&canon) == std::cmp::Ordering::Equal) as u8, (format!("{:?}", l) == letters) as u8, adaptors(|| l.iter(), |x| x.to_string()))
}

fn newl<A: Array<Item = u64> + Copy + Eq + Ord + Hash + serde::Serialize>(len: usize) -> String {
    let l: Lmer<A> = Lmer::new(len);
    format!("{}|len={} bytes={}", show_l(&l), l.len(), show_digits(&bases(&l)))
}

pub fn exec(a: &[&str]) -> String {
    let n: usize = a[1].parse().unwrap();
    match a[0] {
        "hist" => {
            let seq = digits(a[2]);
            match n {
                1 => hist::<[u64; 1]>(&seq, a[3]),
                2 => hist::<[u64; 2]>(&seq, a[3]),
                3 => hist::<[u64; 3]>(&seq, a[3]),
                4 => hist::<[u64; 4]>(&seq, a[3]),
                5 => hist::<[u64; 5]>(&seq, a[3]),
                6 => hist::<[u64; 6]>(&seq, a[3]),
                _ => panic!("bad n"),
            }
        }
        "new" => {
            let len: usize = a[2].parse().unwrap();
            match n {
                1 => newl::<[u64; 1]>(len),
                2 => newl::<[u64; 2]>(len),
                3 => newl::<[u64; 3]>(len),
                4 => newl::<[u64; 4]>(len),
                5 => newl::<[u64; 5]>(len),
                6 => newl::<[u64; 6]>(len),
                _ => panic!("bad n"),
            }
        }
        _ => panic!("bad request"),
    }
}

pub fn gen(rng: &mut Rng, _tier: &str) -> String {
    let n = *rng.pick(&[1usize, 1, 2, 2, 3, 3, 4, 5, 6]);
    let maxlen = (n * 64 - 8) / 2;
    let len = match rng.below(5) {
        0 => maxlen,
        1 => maxlen - rng.below(3),
        2 => *rng.pick(&[0usize, 1, 31, 32, 33]).min(&maxlen),
        _ => rng.below(maxlen + 1),
    };
    if rng.chance(1, 15) {
        return format!("C17 new {} {}", n, len);
    }
    let seq: Vec<u8> = (0..len).map(|_| if rng.chance(1, 6) { 0 } else { rng.below(4) as u8 }).collect();
    let nops = rng.below(9);
    let mut ops = Vec::new();
    for _ in 0..nops {
        if len == 0 {
            ops.push("C".to_string());
            continue;
        }
        match rng.below(5) {
            0 => ops.push("C".to_string()),
            1 => ops.push(format!("S{}.{}", rng.below(len), rng.below(4))),
            _ => {
                // runs crossing a word boundary and runs touching the last word are favoured
                let pos = match rng.below(4) {
                    0 => { let b = 32 * rng.below(n); (b + 32).saturating_sub(rng.range(1, 8)).min(len - 1) }
                    1 => ((n - 1) * 32 + rng.below(28)).min(len - 1),
                    _ => rng.below(len),
                };
                let m = rng.range(1, 32.min(len - pos));
                ops.push(format!("P{}.{}.{:x}", pos, m, rng.next()));
            }
        }
    }
    format!("C17 hist {} {} {}", n, show_digits(&seq), if ops.is_empty() { "-".to_string() } else { ops.join(",") })
}
