//! Shared pieces of the graph-level harness modules: read-set generator, table / node formats.
#![allow(dead_code)]
use crate::util::*;
use debruijn::dna_string::DnaString;
use debruijn::{Exts, Kmer, Mer};

pub fn rc_of(s: &[u8]) -> Vec<u8> {
    s.iter().rev().map(|b| 3 - b).collect()
}

fn rnd(rng: &mut Rng, n: usize, alpha: usize) -> Vec<u8> {
    (0..n).map(|_| rng.below(alpha) as u8).collect()
}

/// Structured, mostly valid read sets; every choice comes from `rng`. Returns the reads and the name of the
/// dominant generation mode of each read (for the input-distribution report).
pub fn gen_reads(rng: &mut Rng, k: usize, max_reads: usize, max_len: usize) -> Vec<Vec<u8>> {
    let alpha = *rng.pick(&[1usize, 2, 2, 3, 4, 4, 4]);
    let nreads = rng.range(1, max_reads);
    let npool = rng.range(2, 5);
    let pool: Vec<Vec<u8>> = (0..npool).map(|_| { let l = rng.range(k.saturating_sub(2).max(1), 2 * k + 4); rnd(rng, l, alpha) }).collect();
    let mut reads: Vec<Vec<u8>> = Vec::new();
    for _ in 0..nreads {
        let mode = rng.below(12);
        let mut r: Vec<u8> = match mode {
            0 | 1 => { let l = rng.range(k.saturating_sub(3), (k + 40).min(max_len)); rnd(rng, l, alpha) }
            2 | 3 | 4 => {
                let n = rng.range(1, 4);
                let mut v = Vec::new();
                for _ in 0..n { v.extend_from_slice(&pool[rng.below(npool)]); }
                v
            }
            5 => { let l = rng.range(k / 2 + 1, k + 6); let s = rnd(rng, l, alpha.max(2)); let mut v = s.clone(); v.extend(rc_of(&s)); v }
            6 => {
                // hairpin junction: s ++ x ++ rc(s) (x empty or a single base)
                let l = rng.range(k / 2 + 1, k + 4);
                let s = rnd(rng, l, 4);
                let mut v = s.clone();
                if rng.chance(1, 2) { v.push(rng.below(4) as u8); }
                v.extend(rc_of(&s));
                v
            }
            7 => { let u = rng.range(1, k + 2); let unit = rnd(rng, u, alpha.max(2)); let n = (k + 8) / u + rng.range(1, 3); (0..n * u).map(|i| unit[i % u]).collect() }
            8 => { let b = rng.below(4) as u8; vec![b; rng.range(k, k + 12)] }
            9 => { let l = rng.range(k, k + 10); let s = rnd(rng, l, 4); let mut v = s.clone(); v.extend_from_slice(&s); v.extend_from_slice(&s[..k.min(s.len())]); v }
            _ if !reads.is_empty() => {
                let src = reads[rng.below(reads.len())].clone();
                match rng.below(4) {
                    0 => rc_of(&src),
                    1 => src,
                    2 if !src.is_empty() => { let mut v = src; let p = rng.below(v.len()); v[p] = (v[p] + rng.range(1, 3) as u8) % 4; v } // SNP bubble
                    _ => { let cut = rng.below(src.len().max(1)); let mut v = src[..cut].to_vec(); let t = rng.range(1, k); v.extend(rnd(rng, t, 4)); v } // tip
                }
            }
            _ => { let l = rng.range(k, k + 20); rnd(rng, l, alpha) }
        };
        if r.len() > max_len { r.truncate(max_len); }
        reads.push(r);
    }
    reads
}

pub fn show_payload_u32(d: u32) -> String {
    d.to_string()
}

pub fn show_payload_vec(d: &[u8]) -> String {
    if d.is_empty() { "_".into() } else { d.iter().map(|x| x.to_string()).collect::<Vec<_>>().join(".") }
}

pub fn kmer_digits<K: Kmer>(k: &K) -> String {
    let b: Vec<u8> = (0..K::k()).map(|i| k.get(i)).collect();
    show_digits(&b)
}

pub fn seq_digits<M: Mer>(m: &M) -> String {
    let b: Vec<u8> = (0..m.len()).map(|i| m.get(i)).collect();
    show_digits(&b)
}

/// reads: `seq:exts:label`
pub fn parse_reads(s: &str) -> Vec<(DnaString, Exts, u8)> {
    if s == "-" {
        return vec![];
    }
    s.split(',')
        .map(|r| {
            let f: Vec<&str> = r.split(':').collect();
            (DnaString::from_bytes(&digits(f[0])), Exts::new(u8::from_str_radix(f[1], 16).unwrap()), f[2].parse().unwrap())
        })
        .collect()
}

pub fn show_reads(reads: &[Vec<u8>], rng: &mut Rng, with_exts: bool) -> String {
    if reads.is_empty() {
        return "-".into();
    }
    reads
        .iter()
        .map(|r| {
            let e = if with_exts && rng.chance(1, 4) { rng.below(256) } else { 0 };
            format!("{}:{:02x}:{}", show_digits(r), e, rng.below(3))
        })
        .collect::<Vec<_>>()
        .join(",")
}

/// one read in which a k-mer is observed more often than a u16 count can tell: a run of 65 600..70 000 equal bases with up to
/// two other bases before it and up to three after it (the run's first and last observations carry flanks no other does)
pub fn saturating_read(rng: &mut Rng) -> Vec<u8> {
    let b = rng.below(4) as u8;
    let mut r: Vec<u8> = (0..rng.below(3)).map(|_| rng.below(4) as u8).collect();
    r.extend(std::iter::repeat(b).take(rng.range(65600, 70000)));
    r.extend((0..rng.below(4)).map(|_| rng.below(4) as u8));
    r
}

/// k-mer types used by the graph-level requests (K >= 4)
#[macro_export]
macro_rules! with_graph_kmer {
    ($k:expr, $f:ident, $($args:expr),*) => {
        match $k {
            4 => $f::<debruijn::kmer::Kmer4>($($args),*),
            5 => $f::<debruijn::kmer::Kmer5>($($args),*),
            6 => $f::<debruijn::kmer::Kmer6>($($args),*),
            8 => $f::<debruijn::kmer::Kmer8>($($args),*),
            10 => $f::<debruijn::kmer::Kmer10>($($args),*),
            12 => $f::<debruijn::kmer::Kmer12>($($args),*),
            14 => $f::<debruijn::kmer::Kmer14>($($args),*),
            15 => $f::<debruijn::kmer::Kmer15>($($args),*),
            16 => $f::<debruijn::kmer::Kmer16>($($args),*),
            20 => $f::<debruijn::kmer::Kmer20>($($args),*),
            24 => $f::<debruijn::kmer::Kmer24>($($args),*),
            30 => $f::<debruijn::kmer::Kmer30>($($args),*),
            31 => $f::<debruijn::kmer::VarIntKmer<u64, debruijn::kmer::K31>>($($args),*),
            32 => $f::<debruijn::kmer::Kmer32>($($args),*),
            33 => $f::<debruijn::kmer::VarIntKmer<u128, $crate::util::K33>>($($args),*),
            40 => $f::<debruijn::kmer::Kmer40>($($args),*),
            41 => $f::<debruijn::kmer::VarIntKmer<u128, $crate::util::K41>>($($args),*),
            48 => $f::<debruijn::kmer::Kmer48>($($args),*),
            63 => $f::<debruijn::kmer::VarIntKmer<u128, $crate::util::K63>>($($args),*),
            64 => $f::<debruijn::kmer::Kmer64>($($args),*),
            _ => panic!("unsupported K"),
        }
    };
}

pub const QUICK_KS: [usize; 12] = [4, 5, 6, 8, 12, 16, 31, 32, 40, 41, 48, 64];
pub const ALL_KS: [usize; 20] = [4, 5, 6, 8, 10, 12, 14, 15, 16, 20, 24, 30, 31, 32, 33, 40, 41, 48, 63, 64];

pub fn pick_k(rng: &mut Rng, tier: &str) -> usize {
    // small K dominates: dense branching, palindromes and hairpins are frequent there
    if rng.chance(3, 5) { *rng.pick(&[4usize, 5, 5, 6, 6, 8]) } else if tier == "thorough" { *rng.pick(&ALL_KS) } else { *rng.pick(&QUICK_KS) }
}
