//! One PRNG (every random choice of a run derives from the seed) and protocol helpers.
#![allow(dead_code)]

pub struct Rng(u64);

impl Rng {
    pub fn new(seed: u64) -> Rng {
        // splitmix64 scramble so that nearby seeds give unrelated streams
        let mut z = seed.wrapping_add(0x9E3779B97F4A7C15);
        z = (z ^ (z >> 30)).wrapping_mul(0xBF58476D1CE4E5B9);
        z = (z ^ (z >> 27)).wrapping_mul(0x94D049BB133111EB);
        z ^= z >> 31;
        Rng(if z == 0 { 0x1234567 } else { z })
    }
    pub fn next(&mut self) -> u64 {
        let mut x = self.0;
        x ^= x << 13;
        x ^= x >> 7;
        x ^= x << 17;
        self.0 = x;
        x.wrapping_mul(0x2545F4914F6CDD1D)
    }
    /// uniform in 0..n (n > 0)
    pub fn below(&mut self, n: usize) -> usize {
        (self.next() % (n as u64)) as usize
    }
    /// uniform in lo..=hi (an empty interval, hi < lo, yields lo)
    pub fn range(&mut self, lo: usize, hi: usize) -> usize {
        let hi = hi.max(lo);
        lo + self.below(hi - lo + 1)
    }
    pub fn chance(&mut self, num: usize, den: usize) -> bool {
        self.below(den) < num
    }
    pub fn pick<'a, T>(&mut self, xs: &'a [T]) -> &'a T {
        &xs[self.below(xs.len())]
    }
}

pub fn digits(s: &str) -> Vec<u8> {
    if s == "-" {
        return vec![];
    }
    s.bytes().map(|c| c - b'0').collect()
}

pub fn show_digits(v: &[u8]) -> String {
    if v.is_empty() {
        return "-".into();
    }
    v.iter().map(|b| (b'0' + b) as char).collect()
}

/// "ACGT" text -> "0123" digits
pub fn acgt_to_digits(s: &str) -> String {
    if s.is_empty() {
        return "-".into();
    }
    s.bytes()
        .map(|c| match c {
            b'A' => '0',
            b'C' => '1',
            b'G' => '2',
            b'T' => '3',
            _ => '?',
        })
        .collect()
}

pub fn nat_list(s: &str) -> Vec<usize> {
    if s == "-" {
        return vec![];
    }
    s.split(',').map(|t| t.parse().unwrap()).collect()
}

pub fn show_nat_list(v: &[usize]) -> String {
    if v.is_empty() {
        return "-".into();
    }
    v.iter().map(|x| x.to_string()).collect::<Vec<_>>().join(",")
}

/// random DNA with a given alphabet size and a mode-dependent structure
pub fn random_seq(rng: &mut Rng, len: usize, alpha: usize) -> Vec<u8> {
    let mode = rng.below(6);
    let mut v: Vec<u8> = Vec::with_capacity(len);
    match mode {
        0 | 1 => {
            for _ in 0..len {
                v.push(rng.below(alpha) as u8);
            }
        }
        2 => {
            // tandem repeat of a short unit
            let u = rng.range(1, 5);
            let unit: Vec<u8> = (0..u).map(|_| rng.below(alpha) as u8).collect();
            for i in 0..len {
                v.push(unit[i % u]);
            }
        }
        3 => {
            // homopolymer with sparse mutations
            let b = rng.below(alpha) as u8;
            for _ in 0..len {
                v.push(if rng.chance(1, 8) { rng.below(alpha) as u8 } else { b });
            }
        }
        4 => {
            // s ++ rc(s) palindromic structure
            let half = len / 2;
            let s: Vec<u8> = (0..half).map(|_| rng.below(alpha) as u8).collect();
            v.extend_from_slice(&s);
            for b in s.iter().rev() {
                v.push(3 - b);
            }
            while v.len() < len {
                v.push(rng.below(alpha) as u8);
            }
        }
        _ => {
            // chunk pasting with reuse
            let nchunks = rng.range(1, 4);
            let chunks: Vec<Vec<u8>> = (0..nchunks)
                .map(|_| {
                    let l = rng.range(1, 12);
                    (0..l).map(|_| rng.below(alpha) as u8).collect()
                })
                .collect();
            while v.len() < len {
                let c = &chunks[rng.below(nchunks)];
                v.extend_from_slice(c);
            }
            v.truncate(len);
        }
    }
    v
}

/// the 18 aliases + K31 by K (only the Kmer types; dispatch on P/K at run time)
/// k-mer sizes a user of the crate may define (`KmerSize` is a public trait): odd K beyond 32, on u128 storage
#[derive(Debug, Hash, Copy, Clone, Ord, PartialOrd, Eq, PartialEq)]
pub struct K33;
impl debruijn::kmer::KmerSize for K33 { fn K() -> usize { 33 } }
#[derive(Debug, Hash, Copy, Clone, Ord, PartialOrd, Eq, PartialEq)]
pub struct K41;
impl debruijn::kmer::KmerSize for K41 { fn K() -> usize { 41 } }
#[derive(Debug, Hash, Copy, Clone, Ord, PartialOrd, Eq, PartialEq)]
pub struct K63;
impl debruijn::kmer::KmerSize for K63 { fn K() -> usize { 63 } }

#[macro_export]
macro_rules! with_kmer_type {
    ($k:expr, $f:ident, $($args:expr),*) => {
        match $k {
            2 => $f::<debruijn::kmer::Kmer2>($($args),*),
            3 => $f::<debruijn::kmer::Kmer3>($($args),*),
            4 => $f::<debruijn::kmer::Kmer4>($($args),*),
            5 => $f::<debruijn::kmer::Kmer5>($($args),*),
            6 => $f::<debruijn::kmer::Kmer6>($($args),*),
            8 => $f::<debruijn::kmer::Kmer8>($($args),*),
            10 => $f::<debruijn::kmer::Kmer10>($($args),*),
            12 => $f::<debruijn::kmer::Kmer12>($($args),*),
            14 => $f::<debruijn::kmer::Kmer14>($($args),*),
            15 => $f::<debruijn::kmer::Kmer15>($($args),*),
            16 => $f::<debruijn::kmer::Kmer16>($($args),*),
            20 => $f::<debruijn::kmer::Kmer20>($($args),*),
            24 => $f::<debruijn::kmer::Kmer24>($($args),*),
            30 => $f::<debruijn::kmer::Kmer30>($($args),*),
            31 => $f::<debruijn::kmer::VarIntKmer<u64, debruijn::kmer::K31>>($($args),*),
            32 => $f::<debruijn::kmer::Kmer32>($($args),*),
            33 => $f::<debruijn::kmer::VarIntKmer<u128, $crate::util::K33>>($($args),*),
            40 => $f::<debruijn::kmer::Kmer40>($($args),*),
            41 => $f::<debruijn::kmer::VarIntKmer<u128, $crate::util::K41>>($($args),*),
            48 => $f::<debruijn::kmer::Kmer48>($($args),*),
            63 => $f::<debruijn::kmer::VarIntKmer<u128, $crate::util::K63>>($($args),*),
            64 => $f::<debruijn::kmer::Kmer64>($($args),*),
            _ => panic!("unsupported K"),
        }
    };
}

/// An iterator observed after it was advanced: `count after n/3 steps : last after n/3 steps : exhausted-stays-exhausted`.
pub fn stateful<T, I: Iterator<Item = T>, F: Fn() -> I, S: Fn(&T) -> String>(mk: F, show: S) -> String {
    let n = mk().collect::<Vec<T>>().len();
    let j = n / 3;
    let adv = |steps: usize| { let mut it = mk(); for _ in 0..steps { it.next(); } it };
    let rem = adv(j).count();
    let last_after = adv(j).last().map(|v| show(&v)).unwrap_or("-".into());
    let e = adv(n).next().is_none() && adv(n).last().is_none() && adv(n).count() == 0 && adv(n).nth(0).is_none()
        && mk().skip(n).last().is_none() && mk().skip(n + 1).next().is_none();
    // a jump strictly beyond the end (from the start, and from the middle), then what a consumer does with the same iterator:
    // the lower size hint must not exceed what is left (nothing), and collecting (which consults the hint) must deliver nothing
    let beyond = |from: usize, by: usize| { let mut it = adv(from); let gone = it.nth(by).is_none(); let (lo, _) = it.size_hint();
        gone && lo == 0 && it.by_ref().map(|v| show(&v)).collect::<String>().is_empty() && it.next().is_none() };
    let e = e && beyond(0, n + 1) && beyond(j, n + 7) && beyond(n, 1) && beyond(j.min(1), usize::MAX);
    format!("{}:{}:{}", rem, last_after, e as u8)
}

/// An iterator seen through its adaptors: `count:nth(n-1):skip(n/2):step_by(3):last:nth(n):size_hint-consistent`, where `n` is
/// the number of items `collect` delivers.  `show` renders one item.
pub fn adaptors<T, I: Iterator<Item = T>, F: Fn() -> I, S: Fn(&T) -> String>(mk: F, show: S) -> String {
    let all: Vec<T> = mk().collect();
    let n = all.len();
    let o = |x: Option<T>| x.map(|v| show(&v)).unwrap_or("-".into());
    let l = |v: Vec<T>| if v.is_empty() { "-".to_string() } else { v.iter().map(|x| show(x)).collect::<Vec<_>>().join(".") };
    let (lo, hi) = mk().size_hint();
    let hint_ok = lo <= n && hi.map(|h| n <= h).unwrap_or(true);
    format!("{}:{}:{}:{}:{}:{}:{}:{}", mk().count(), o(if n > 0 { mk().nth(n - 1) } else { mk().nth(0) }), l(mk().skip(n / 2).collect()),
        l(mk().step_by(3).collect()), o(mk().last()), o(mk().nth(n)), hint_ok as u8, stateful(&mk, &show))
}
