//! C03: edges, link lookups, extension pruning, best paths and path sequences of finished graphs.
use crate::c01::{parse_table, show_graph, show_table, table_from_reads, Spec};
use crate::gr::*;
use crate::util::*;
use crate::with_graph_kmer;
use bit_set::BitSet;
use boomphf::hashmap::BoomHashMap2;
use debruijn::compression::compress_kmers_with_hash;
use debruijn::filter::{remove_censored_exts, remove_censored_exts_sharded};
use debruijn::graph::{BaseGraph, DebruijnGraph};
use debruijn::{Dir, Exts, Kmer, Vmer};
use std::collections::HashMap;

pub fn dir_s(d: Dir) -> &'static str {
    match d { Dir::Left => "L", Dir::Right => "R" }
}
pub fn parse_dir(s: &str) -> Dir {
    if s == "L" { Dir::Left } else { Dir::Right }
}

pub fn build_graph<K: Kmer + Send + Sync>(stranded: bool, nodes: &str) -> DebruijnGraph<K, u32> {
    let mut g: BaseGraph<K, u32> = BaseGraph::new(stranded);
    if nodes != "-" {
        for t in nodes.split(',') {
            let f: Vec<&str> = t.split(':').collect();
            g.add(digits(f[0]), Exts::new(u8::from_str_radix(f[1], 16).unwrap()), if f[2] == "_" { 0 } else { f[2].parse().unwrap() });
        }
    }
    g.finish()
}

pub fn show_edges(es: &[(usize, Dir, bool)]) -> String {
    if es.is_empty() { return "-".into(); }
    es.iter().map(|(i, d, f)| format!("{}{}{}", i, dir_s(*d), if *f { "f" } else { "n" })).collect::<Vec<_>>().join(".")
}

pub fn all_edges<K: Kmer>(g: &DebruijnGraph<K, u32>) -> String {
    if g.len() == 0 { return "-".into(); }
    (0..g.len()).map(|i| { let n = g.get_node(i); format!("{}/{}", show_edges(&n.l_edges()), show_edges(&n.r_edges())) }).collect::<Vec<_>>().join(",")
}

pub fn show_path(p: &[(usize, Dir)]) -> String {
    if p.is_empty() { return "-".into(); }
    p.iter().map(|(i, d)| format!("{}{}", i, dir_s(*d))).collect::<Vec<_>>().join(".")
}
pub fn parse_path(s: &str) -> Vec<(usize, Dir)> {
    if s == "-" { return vec![]; }
    s.split('.').map(|t| { let (a, b) = t.split_at(t.len() - 1); (a.parse().unwrap(), parse_dir(b)) }).collect()
}

fn graph_req<K: Kmer + Send + Sync>(a: &[&str]) -> String {
    let g: DebruijnGraph<K, u32> = build_graph(a[2] == "1", a[3]);
    let links: Vec<String> = if a[4] == "-" { vec![] } else {
        a[4].split(';').map(|t| { let (km, d) = t.split_once('@').unwrap();
            match g.find_link(K::from_bytes(&digits(km)), parse_dir(d)) { Some((i, d, f)) => format!("{}{}{}", i, dir_s(d), if f { "f" } else { "n" }), None => "none".into() } }).collect()
    };
    let valid: Option<BitSet> = if a[5] == "*" { None } else { let mut b = BitSet::new(); for i in nat_list(a[5]) { b.insert(i); } Some(b) };
    let vex: Vec<String> = (0..g.len()).map(|i| format!("{:02x}", g.get_valid_exts(i, valid.as_ref()).val)).collect();
    let scores: Vec<(u32, bool)> = if a[6] == "-" { vec![] } else { a[6].split(',').map(|t| { let (x, y) = t.split_once('/').unwrap(); (x.parse().unwrap(), y == "1") }).collect() };
    let mp = g.max_path(|d| scores.get(*d as usize).map(|s| s.0 as f32).unwrap_or(0.0), |d| scores.get(*d as usize).map(|s| s.1).unwrap_or(false));
    let walk = parse_path(a[7]);
    // beam search with widths 1, 2, 5 (each call on its own: `states[0]` panics on an empty beam)
    let beams: Vec<(String, String)> = [1usize, 2, 5].iter().map(|&b| {
        let r = std::panic::catch_unwind(std::panic::AssertUnwindSafe(|| {
            let p = g.max_path_beam(b, |d| scores.get(*d as usize).map(|s| s.0 as f32).unwrap_or(0.0), |_| false);
            let s = seq_digits(&g.sequence_of_path(p.iter()));
            (show_path(&p), s)
        }));
        r.unwrap_or(("panic".into(), "panic".into()))
    }).collect();
    // `iter_nodes()`: every node once, in id order, with its sequence, extensions and payload
    let it: Vec<String> = g.iter_nodes().map(|n| format!("{}:{}:{:02x}:{}", n.node_id, seq_digits(&n.sequence()), n.exts().val, n.data())).collect();
    format!("edges={}|links={}|valid={}|maxpath={}|mpseq={}|wseq={}|beam={}|bseq={}|iter={}",
        all_edges(&g),
        if links.is_empty() { "-".to_string() } else { links.join(",") },
        if vex.is_empty() { "-".to_string() } else { vex.join(",") },
        show_path(&mp), seq_digits(&g.sequence_of_path(mp.iter())), seq_digits(&g.sequence_of_path(walk.iter())),
        beams.iter().map(|x| x.0.clone()).collect::<Vec<_>>().join(";"), beams.iter().map(|x| x.1.clone()).collect::<Vec<_>>().join(";"),
        if it.is_empty() { "-".to_string() } else { it.join(",") })
}

fn prune_req<K: Kmer>(a: &[&str]) -> String {
    let mut t: Vec<(K, (Exts, u32))> = parse_table(a[4]);
    let stranded = a[2] == "1";
    if a[3] == "1" {
        let all: Vec<K> = if a[5] == "-" { vec![] } else { a[5].split(',').map(|k| K::from_bytes(&digits(k))).collect() };
        remove_censored_exts_sharded(stranded, &mut t, &all);
    } else {
        remove_censored_exts(stranded, &mut t);
    }
    show_table(&t)
}

/// filter → prune → compress → finish; returns (sigma, base graph text, finished graph)
pub fn pipeline<K: Kmer + Send + Sync>(reads: &[Vec<u8>], stranded: bool, thr: usize) -> (Vec<usize>, DebruijnGraph<K, u32>) {
    pipeline_sm(reads, stranded, thr, false)
}

/// the same with the summarizer chosen: `set` = CountFilterSet with every read labelled 0 (payload = code 1 of the label set {0})
pub fn pipeline_sm<K: Kmer + Send + Sync>(reads: &[Vec<u8>], stranded: bool, thr: usize, set: bool) -> (Vec<usize>, DebruijnGraph<K, u32>) {
    let labels = vec![0u8; reads.len()];
    let t: Vec<(K, (Exts, u32))> = table_from_reads(reads, &labels, stranded, thr, set, true);
    let keys: Vec<K> = t.iter().map(|x| x.0).collect();
    let pos: HashMap<K, usize> = keys.iter().enumerate().map(|(i, k)| (*k, i)).collect();
    let index = BoomHashMap2::new(keys, t.iter().map(|x| (x.1).0).collect(), t.iter().map(|x| (x.1).1).collect());
    let sigma: Vec<usize> = (0..index.len()).map(|i| pos[index.get_key(i).unwrap()]).collect();
    let spec = Spec { join_eq: false, reduce: 0 };
    (sigma, compress_kmers_with_hash(stranded, &spec, &index).finish())
}

fn pipe_req<K: Kmer + Send + Sync>(a: &[&str]) -> String {
    let reads: Vec<Vec<u8>> = if a[4] == "-" { vec![] } else { a[4].split(',').map(|r| digits(r.split(':').next().unwrap())).collect() };
    let (set, thr) = match a[3].strip_prefix('s') { Some(t) => (true, t), None => (false, a[3]) };
    let (sigma, g) = pipeline_sm::<K>(&reads, a[2] == "1", thr.parse().unwrap(), set);
    format!("sigma={}|nodes={}|edges={}", show_nat_list(&sigma), show_graph(&g.base), all_edges(&g))
}

pub fn exec(a: &[&str]) -> String {
    let k: usize = a[1].parse().unwrap();
    match a[0] {
        "graph" => with_graph_kmer!(k, graph_req, a),
        "prune" => with_graph_kmer!(k, prune_req, a),
        "pipe" => with_graph_kmer!(k, pipe_req, a),
        _ => panic!("bad request"),
    }
}

/// nodes text of a pipeline graph with payload = node id
pub fn nodes_with_ids<K: Kmer>(g: &DebruijnGraph<K, u32>) -> String {
    if g.len() == 0 { return "-".into(); }
    (0..g.len()).map(|i| format!("{}:{:02x}:{}", seq_digits(&g.base.sequences.get(i)), g.base.exts[i].val, i)).collect::<Vec<_>>().join(",")
}

/// node text of the graph with up to three dangling extension bits added (the extended terminal k-mer is no node end,
/// so no resolvable edge appears or disappears) and, every other time, one node removed (links to it dangle)
pub fn dangle_nodes<K: Kmer + Send + Sync>(nodes: &str, stranded: bool, picks: &[usize], may_remove: bool) -> String {
    if nodes == "-" { return nodes.to_string(); }
    let mut items: Vec<(String, u8, String)> = nodes.split(',').map(|t| { let f: Vec<&str> = t.split(':').collect(); (f[0].to_string(), u8::from_str_radix(f[1], 16).unwrap(), f[2].to_string()) }).collect();
    if may_remove && picks[0] % 2 == 0 && items.len() > 1 { items.remove(picks[1] % items.len()); }
    let txt = |it: &Vec<(String, u8, String)>| it.iter().map(|x| format!("{}:{:02x}:{}", x.0, x.1, x.2)).collect::<Vec<_>>().join(",");
    let g: DebruijnGraph<K, u32> = build_graph(stranded, &txt(&items));
    for j in 0..3 {
        let i = picks[2 + j] % items.len();
        let dir = if (picks[2 + j] >> 8) % 2 == 0 { Dir::Left } else { Dir::Right };
        let b = ((picks[2 + j] >> 10) % 4) as u8;
        let node = g.get_node(i);
        if node.exts().has_ext(dir, b) { continue; }
        let term: K = node.sequence().term_kmer(dir);
        if g.find_link(term.extend(b, dir), dir).is_none() {
            items[i].1 = Exts::new(items[i].1).set(dir, b).val;
        }
    }
    txt(&items)
}

fn gen_graph<K: Kmer + Send + Sync>(rng: &mut Rng, k: usize, tier: &str, stranded: bool) -> String {
    let reads = gen_reads(rng, k, if tier == "thorough" { 20 } else { 6 }, if tier == "thorough" { 300 } else { 50 });
    let (_, g0) = pipeline::<K>(&reads, stranded, *rng.pick(&[1usize, 1, 2]));
    // one graph in six gets dangling extension bits (recorded extensions whose k-mer is no node end): edges, pruning, walks
    // and `max_path` must cope; `max_path_beam` may panic there (`states[0]` on an emptied beam), which is not judged
    let g: DebruijnGraph<K, u32> = if g0.len() > 0 && rng.chance(1, 6) {
        let picks: Vec<usize> = (0..6).map(|_| rng.below(1 << 20)).collect();
        build_graph(stranded, &dangle_nodes::<K>(&nodes_with_ids(&g0), stranded, &picks, false))
    } else { g0 };
    let n = g.len();
    // probes: terminal k-mers extended by a base, internal k-mers, random k-mers
    let mut probes: Vec<String> = Vec::new();
    for _ in 0..6 {
        let d = if rng.chance(1, 2) { "L" } else { "R" };
        let km: Vec<u8> = if n > 0 && rng.chance(3, 4) {
            let s = g.base.sequences.get(rng.below(n)).bytes();
            let p = if rng.chance(2, 3) { if rng.chance(1, 2) { 0 } else { s.len() - k } } else { rng.below(s.len() - k + 1) };
            let mut w = s[p..p + k].to_vec();
            if rng.chance(1, 2) { if d == "R" { w.remove(0); w.push(rng.below(4) as u8); } else { w.pop(); w.insert(0, rng.below(4) as u8); } }
            if rng.chance(1, 4) { crate::gr::rc_of(&w) } else { w }
        } else { (0..k).map(|_| rng.below(4) as u8).collect() };
        probes.push(format!("{}@{}", show_digits(&km), d));
    }
    let valid = if rng.chance(1, 2) || n == 0 { "*".to_string() } else { let v: Vec<usize> = (0..n).filter(|_| rng.chance(2, 3)).collect(); show_nat_list(&v) };
    let scores: Vec<String> = (0..n).map(|_| format!("{}/{}", rng.below(6), rng.below(2))).collect();
    // a random walk along reported edges
    let mut walk: Vec<(usize, Dir)> = Vec::new();
    if n > 0 {
        let mut cur = (rng.below(n), if rng.chance(1, 2) { Dir::Left } else { Dir::Right });
        walk.push(cur);
        for _ in 0..rng.below(6) {
            let es = g.get_node(cur.0).edges(cur.1.flip());
            if es.is_empty() { break; }
            let e = es[rng.below(es.len())];
            cur = (e.0, e.1);
            walk.push(cur);
        }
    }
    format!("C03 graph {} {} {} {} {} {} {}", k, stranded as u8, nodes_with_ids(&g), probes.join(";"), valid,
        if scores.is_empty() { "-".to_string() } else { scores.join(",") }, show_path(&walk))
}

fn gen_prune<K: Kmer>(rng: &mut Rng, k: usize, stranded: bool) -> String {
    let reads = gen_reads(rng, k, 6, 50);
    let labels = vec![0u8; reads.len()];
    let all: Vec<(K, (Exts, u32))> = table_from_reads(&reads, &labels, stranded, 1, false, false);
    // a random censored subset; `all_kmers` = every k-mer of the shard (sorted), or a part of it (other shards)
    let valid: Vec<(K, (Exts, u32))> = all.iter().filter(|_| rng.chance(3, 4)).cloned().collect();
    let sharded = rng.chance(1, 2);
    let allk: Vec<String> = all.iter().filter(|_| rng.chance(5, 6)).map(|x| kmer_digits(&x.0)).collect();
    format!("C03 prune {} {} {} {} {}", k, stranded as u8, sharded as u8, show_table(&valid), if sharded && !allk.is_empty() { allk.join(",") } else { "-".to_string() })
}

pub fn gen(rng: &mut Rng, tier: &str) -> String {
    let k = pick_k(rng, tier);
    let stranded = rng.chance(1, 3);
    if rng.chance(1, 150) {
        // the pipeline on a read set in which one k-mer is observed more than 65 535 times and its last observations bring new flanks
        let reads = vec![saturating_read(rng)];
        return format!("C03 pipe {} {} {} {}", k, stranded as u8, *rng.pick(&[1usize, 2]), show_reads(&reads, rng, false));
    }
    match rng.below(6) {
        0 => with_graph_kmer!(k, gen_prune, rng, k, stranded),
        1 | 2 => {
            let reads = gen_reads(rng, k, 6, 50);
            // a third of the time through CountFilterSet (all reads under one label: consecutive observations share it)
            format!("C03 pipe {} {} {}{} {}", k, stranded as u8, if rng.chance(1, 3) { "s" } else { "" }, *rng.pick(&[1usize, 1, 2, 3]), show_reads(&reads, rng, false))
        }
        _ => with_graph_kmer!(k, gen_graph, rng, k, tier, stranded),
    }
}
