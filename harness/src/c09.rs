//! C09: compress_graph with censoring; C18: NodeKmerIter; C20: GFA / JSON exports and serde round trips.
use crate::c01::{parse_spec, show_graph, show_table, table_from_reads, Spec};
use crate::c03::{all_edges, build_graph, dangle_nodes, nodes_with_ids, pipeline};
use crate::c10::Raw;
use crate::gr::*;
use crate::util::*;
use crate::with_graph_kmer;
use debruijn::clean_graph::CleanGraph;
use debruijn::compression::{compress_graph, compress_kmers_with_hash};
use debruijn::dna_string::DnaString;
use debruijn::graph::{BaseGraph, DebruijnGraph};
use debruijn::vmer::Lmer3;
use debruijn::{Dir, Exts, Kmer, Mer};

fn recompress<K: Kmer + Send + Sync>(a: &[&str]) -> String {
    let g: DebruijnGraph<K, u32> = build_graph(a[2] == "1", a[7]);
    let spec = parse_spec(a[4], a[5]);
    let censor = nat_list(a[6]);
    let out = compress_graph(a[3] == "1", &spec, g, if censor.is_empty() && a[6] == "-" { None } else { Some(censor) });
    show_graph(&out.base)
}

fn iter_req<K: Kmer + Send + Sync>(a: &[&str]) -> String {
    let mut bg: BaseGraph<K, u32> = BaseGraph::new(false);
    for s in a[2].split(',') {
        bg.add(digits(s), Exts::empty(), 0);
    }
    let g = bg.finish();
    match a[0] {
        "iter" => {
            let idx: usize = a[3].parse().unwrap();
            let mut it = g.get_node_kmer(idx).into_iter();
            let len = it.len();
            let mut outs: Vec<String> = Vec::new();
            if a[4] != "-" {
                for c in a[4].split(',') {
                    let r = if c == "n" { it.next() } else { it.nth(c[1..].parse().unwrap()) };
                    outs.push(match r { Some(k) => kmer_digits(&k), None => "end".into() });
                }
            }
            format!("len={}|{}", len, if outs.is_empty() { "-".to_string() } else { outs.join(",") })
        }
        "all" => {
            let mut all: Vec<String> = Vec::new();
            for nk in &g {
                for k in nk {
                    all.push(kmer_digits(&k));
                }
            }
            // a perfect-hash index built from that iteration (serial and parallel builders) gives every k-mer a distinct slot
            let kmers: Vec<K> = (&g).into_iter().flat_map(|nk| nk.into_iter()).collect();
            let n = kmers.len() as u64;
            let distinct: std::collections::HashSet<K> = kmers.iter().cloned().collect();
            let mut mphf_ok = true;
            if n > 0 && distinct.len() == kmers.len() {
                let m1 = boomphf::Mphf::from_chunked_iterator(1.7, &g, n);
                let m2 = boomphf::Mphf::from_chunked_iterator_parallel(1.7, &g, None, n, 3);
                for m in [&m1, &m2] {
                    let mut seen = vec![false; n as usize];
                    for k in &kmers {
                        match m.try_hash(k) { Some(h) if (h as usize) < seen.len() && !seen[h as usize] => seen[h as usize] = true, _ => mphf_ok = false }
                    }
                }
            }
            format!("{}|mphf={}", if all.is_empty() { "-".to_string() } else { all.join(",") }, mphf_ok as u8)
        }
        _ => panic!("bad request"),
    }
}

pub fn esc(s: &str) -> String {
    s.replace('\\', "\\\\").replace('\n', "\\n").replace('\t', "\\t").replace(' ', "\\s")
}

/// a sink that accepts at most `max` bytes per `write` call, as pipes, sockets and encoders may
struct ShortWriter { buf: Vec<u8>, max: usize }
impl std::io::Write for ShortWriter {
    fn write(&mut self, b: &[u8]) -> std::io::Result<usize> { let n = b.len().min(self.max); self.buf.extend_from_slice(&b[..n]); Ok(n) }
    fn flush(&mut self) -> std::io::Result<()> { Ok(()) }
}

fn export_req<K: Kmer + Send + Sync>(a: &[&str]) -> String {
    let g: DebruijnGraph<K, u32> = build_graph(a[2] == "1", a[3]);
    let mut gfa: Vec<u8> = Vec::new();
    g.write_gfa(&mut gfa).unwrap();
    let mut json: Vec<u8> = Vec::new();
    let rest = if a[4] == "none" { None } else {
        let mut m = serde_json::Map::new();
        // keys travel hex-encoded (ASCII): they may contain quotes, backslashes and control characters
        for kv in a[4].split(',') {
            let (k, v) = kv.split_once('=').unwrap();
            let key: String = (0..k.len() / 2).map(|i| u8::from_str_radix(&k[2 * i..2 * i + 2], 16).unwrap() as char).collect();
            m.insert(key, serde_json::from_str(v).unwrap());
        }
        Some(serde_json::Value::Object(m))
    };
    let rest_copy = rest.clone();
    g.to_json_rest(|d: &u32| serde_json::json!(*d), &mut json, rest);
    let jtxt = String::from_utf8(json).unwrap();
    // the harness's own checks on the JSON text: it parses, lists every node and every right-going link
    let jsonok = match serde_json::from_str::<serde_json::Value>(&jtxt) {
        Ok(v) => {
            let nn = v["nodes"].as_array().map(|x| x.len()).unwrap_or(usize::MAX);
            let nl = v["links"].as_array().map(|x| x.len()).unwrap_or(usize::MAX);
            let expect_links: usize = (0..g.len()).map(|i| g.get_node(i).r_edges().len()).sum();
            // every member of `rest` must come back under its own key with its own value
            let rest_ok = match &rest_copy {
                Some(serde_json::Value::Object(m)) => m.iter().all(|(k, val)| v.get(k.as_str()) == Some(val)),
                _ => true,
            };
            nn == g.len() && nl == expect_links && rest_ok
        }
        Err(_) => false,
    };
    // the file-writing variants: `to_gfa` must write what `write_gfa` writes; `to_gfa_with_tags` adds a tag field to the S lines
    static COUNTER: std::sync::atomic::AtomicUsize = std::sync::atomic::AtomicUsize::new(0);
    let dir = std::env::temp_dir();
    let stem = format!("dbg-harness-{}-{}", std::process::id(), COUNTER.fetch_add(1, std::sync::atomic::Ordering::SeqCst));
    let (p1, p2, p3) = (dir.join(format!("{}.gfa", stem)), dir.join(format!("{}.tags.gfa", stem)), dir.join(format!("{}.dot", stem)));
    // the output paths exist already and hold more bytes than the export will write (a pipeline re-run to the same names)
    for p in [&p1, &p2, &p3] { std::fs::write(p, vec![b'#'; 40000]).unwrap(); }
    g.to_gfa(&p1).unwrap();
    g.to_gfa_with_tags(&p2, |n: &debruijn::graph::Node<K, u32>| format!("LN:i:{}\tDA:i:{}", n.len(), n.data())).unwrap();
    let f1 = std::fs::read(&p1).unwrap();
    let f2 = String::from_utf8(std::fs::read(&p2).unwrap()).unwrap();
    // the dot export and `Debug` of every node (not named by the property; modelled and compared all the same)
    g.to_dot(&p3, &|d: &u32| d.to_string());
    let f3 = String::from_utf8(std::fs::read(&p3).unwrap()).unwrap();
    let dbg: Vec<String> = g.iter_nodes().map(|n| format!("{:?}", n)).collect();
    let _ = std::fs::remove_file(&p1);
    let _ = std::fs::remove_file(&p2);
    let _ = std::fs::remove_file(&p3);
    let gfa_txt = String::from_utf8(gfa).unwrap();
    let gfafile = f1 == gfa_txt.as_bytes();
    let gfashort = [1usize, 7, 64].iter().all(|m| { let mut w = ShortWriter { buf: Vec::new(), max: *m }; g.write_gfa(&mut w).is_ok() && w.buf == gfa_txt.as_bytes() });
    format!("gfa={}|json={}|gfatags={}|dot={}|dbg={}|jsonok={}|gfafile={}|gfashort={}", esc(&gfa_txt), esc(&jtxt), esc(&f2), esc(&f3), esc(&dbg.join("\n")).replace('|', "\\p"), jsonok as u8, gfafile as u8, gfashort as u8)
}

fn persist_kmer<K: Raw + serde::Serialize + serde::de::DeserializeOwned>(raw: u128) -> String {
    let k = K::from_raw(raw);
    let s = serde_json::to_string(&k).unwrap();
    let k2: K = serde_json::from_str(&s).unwrap();
    if k == k2 && k.to_string() == k2.to_string() { format!("roundtrip=ok|json={}", esc(&s)) } else { format!("kmer:{}", s) }
}

fn persist_graph<K: Kmer + Send + Sync + serde::Serialize + serde::de::DeserializeOwned>(a: &[&str]) -> String {
    let g: DebruijnGraph<K, u32> = build_graph(a[2] == "1", a[3]);
    let s = serde_json::to_string(&g).unwrap();
    let g2: DebruijnGraph<K, u32> = serde_json::from_str(&s).unwrap();
    if show_graph(&g.base) != show_graph(&g2.base) { return "graph-nodes-differ".into(); }
    if all_edges(&g) != all_edges(&g2) { return "graph-edges-differ".into(); }
    // base graph alone, finished again
    let bs = serde_json::to_string(&g.base).unwrap();
    let b2: BaseGraph<K, u32> = serde_json::from_str(&bs).unwrap();
    let g3 = b2.finish();
    if all_edges(&g) != all_edges(&g3) { return "basegraph-edges-differ".into(); }
    // link lookups for every terminal k-mer
    for i in 0..g.len() {
        let n = g.get_node(i);
        let sq = n.sequence();
        for km in [sq.first_kmer::<K>(), sq.last_kmer::<K>()] {
            for d in [debruijn::Dir::Left, debruijn::Dir::Right] {
                let x = g.find_link(km, d).map(|t| (t.0, crate::c03::dir_s(t.1), t.2));
                let y = g2.find_link(km, d).map(|t| (t.0, crate::c03::dir_s(t.1), t.2));
                if x != y { return "find_link-differs".into(); }
            }
        }
    }
    // the same graph assembled from two / three shards (`BaseGraph::combine`), finished, written and read back
    let items: Vec<&str> = if a[3] == "-" { vec![] } else { a[3].split(',').collect() };
    if items.len() >= 2 {
        for parts in [2usize, 3] {
            let chunk = (items.len() + parts - 1) / parts;
            let shards: Vec<BaseGraph<K, u32>> = items.chunks(chunk).map(|c| {
                let mut b: BaseGraph<K, u32> = BaseGraph::new(a[2] == "1");
                for t in c { let f: Vec<&str> = t.split(':').collect();
                    b.add(digits(f[0]), Exts::new(u8::from_str_radix(f[1], 16).unwrap()), if f[2] == "_" { 0 } else { f[2].parse().unwrap() }); }
                b }).collect();
            let gc = BaseGraph::combine(shards.into_iter()).finish();
            if show_graph(&gc.base) != show_graph(&g.base) || all_edges(&gc) != all_edges(&g) { return "combined-graph-differs".into(); }
            let sc = serde_json::to_string(&gc).unwrap();
            let gc2: DebruijnGraph<K, u32> = serde_json::from_str(&sc).unwrap();
            if show_graph(&gc2.base) != show_graph(&g.base) { return "combined-graph-nodes-differ-after-round-trip".into(); }
            if all_edges(&gc2) != all_edges(&g) { return "combined-graph-edges-differ-after-round-trip".into(); }
        }
    }
    // the text of the base graph (the finished graph adds the two perfect-hash indexes, whose layout belongs to boomphf)
    format!("roundtrip=ok|json={}", esc(&bs))
}

fn persist_misc(a: &[&str]) -> String {
    // persist dna <digits> | persist exts <hex> | persist lmer <digits>
    match a[1] {
        "dna" => {
            let d = DnaString::from_bytes(&digits(a[2]));
            let s = serde_json::to_string(&d).unwrap();
            let d2: DnaString = serde_json::from_str(&s).unwrap();
            if d == d2 && d.to_string() == d2.to_string() && d.len() == d2.len() { format!("roundtrip=ok|json={}", esc(&s)) } else { "dna-differs".into() }
        }
        "exts" => {
            let e = Exts::new(u8::from_str_radix(a[2], 16).unwrap());
            let s = serde_json::to_string(&e).unwrap();
            let e2: Exts = serde_json::from_str(&s).unwrap();
            if e == e2 { format!("roundtrip=ok|json={}", esc(&s)) } else { "exts-differs".into() }
        }
        "lmer" => {
            let l = Lmer3::from_slice(&digits(a[2]));
            let s = serde_json::to_string(&l).unwrap();
            let l2: Lmer3 = serde_json::from_str(&s).unwrap();
            if l == l2 && l.len() == l2.len() { format!("roundtrip=ok|json={}", esc(&s)) } else { "lmer-differs".into() }
        }
        _ => panic!("bad persist"),
    }
}

use debruijn::Vmer;

fn tips_req<K: Kmer + Send + Sync>(a: &[&str]) -> String {
    let g: DebruijnGraph<K, u32> = build_graph(a[2] == "1", a[4]);
    let max_len: usize = a[3].parse().unwrap();
    show_nat_list(&CleanGraph::new(|n: &debruijn::graph::Node<K, u32>| n.len() < max_len).find_bad_nodes(&g))
}

fn iscomp_req<K: Kmer + Send + Sync>(a: &[&str]) -> String {
    let g: DebruijnGraph<K, u32> = build_graph(a[2] == "1", a[4]);
    let spec = parse_spec(a[3], "sum");
    match g.is_compressed(&spec) { Some((i, j)) => format!("{},{}", i, j), None => "none".into() }
}

pub fn exec09(a: &[&str]) -> String {
    let k: usize = a[1].parse().unwrap();
    if a[0] == "tips" { return with_graph_kmer!(k, tips_req, a); }
    if a[0] == "iscomp" { return with_graph_kmer!(k, iscomp_req, a); }
    with_graph_kmer!(k, recompress, a)
}

pub fn exec18(a: &[&str]) -> String {
    let k: usize = a[1].parse().unwrap();
    with_graph_kmer!(k, iter_req, a)
}

pub fn exec20(a: &[&str]) -> String {
    match a[0] {
        "export" => { let k: usize = a[1].parse().unwrap(); with_graph_kmer!(k, export_req, a) }
        "persist" => match a[1] {
            "kmer" => { let raw = crate::c10::hex128(a[3]); crate::with_named_kmer!(a[2], persist_kmer, raw) }
            "graph" => { let k: usize = a[2].parse().unwrap(); let b = [a[0], a[2], a[3], a[4]]; with_graph_kmer!(k, persist_graph, &b) }
            _ => persist_misc(a),
        },
        _ => panic!("bad request"),
    }
}

/// the one-k-mer-per-node graph of a table
fn kmer_graph_nodes<K: Kmer>(t: &[(K, (Exts, u32))]) -> String {
    if t.is_empty() { return "-".into(); }
    t.iter().map(|(k, (e, d))| format!("{}:{:02x}:{}", kmer_digits(k), e.val, d)).collect::<Vec<_>>().join(",")
}

fn gen_graph_nodes<K: Kmer + Send + Sync>(rng: &mut Rng, k: usize, tier: &str, stranded: bool, colour: bool) -> (String, Vec<usize>) {
    let reads = gen_reads(rng, k, if tier == "thorough" { 16 } else { 6 }, if tier == "thorough" { 200 } else { 50 });
    let labels: Vec<u8> = reads.iter().map(|_| rng.below(3) as u8).collect();
    let thr = *rng.pick(&[1usize, 1, 2]);
    let t: Vec<(K, (Exts, u32))> = table_from_reads(&reads, &labels, stranded, thr, colour, true);
    let level = rng.below(3);
    let (nodes, g): (String, DebruijnGraph<K, u32>) = match level {
        // one k-mer per node
        0 => { let n = kmer_graph_nodes(&t); let g = build_graph::<K>(stranded, &n); (n, g) }
        // partially compressed: compress two halves of the table separately (dangling extensions between them), combine
        1 => {
            let spec = Spec { join_eq: colour, reduce: if colour { 3 } else { 0 } };
            let half = t.len() / 2;
            let mk = |part: &[(K, (Exts, u32))]| {
                let idx = boomphf::hashmap::BoomHashMap2::new(part.iter().map(|x| x.0).collect(), part.iter().map(|x| (x.1).0).collect(), part.iter().map(|x| (x.1).1).collect());
                compress_kmers_with_hash(stranded, &spec, &idx)
            };
            let g = BaseGraph::combine(vec![mk(&t[..half]), mk(&t[half..])].into_iter()).finish();
            (show_graph(&g.base), g)
        }
        // fully compressed
        _ => {
            let spec = Spec { join_eq: colour, reduce: if colour { 3 } else { 0 } };
            let idx = boomphf::hashmap::BoomHashMap2::new(t.iter().map(|x| x.0).collect(), t.iter().map(|x| (x.1).0).collect(), t.iter().map(|x| (x.1).1).collect());
            let g = compress_kmers_with_hash(stranded, &spec, &idx).finish();
            (show_graph(&g.base), g)
        }
    };
    // censor set: none, the real tip finder, or a random subset
    let censor: Vec<usize> = match rng.below(3) {
        0 => vec![],
        1 => CleanGraph::new(|n: &debruijn::graph::Node<K, u32>| n.len() < 2 * k).find_bad_nodes(&g),
        _ => (0..g.len()).filter(|_| rng.chance(1, 5)).collect(),
    };
    // a list as a caller may assemble it from several cleaners: repeated ids, any order, ids beyond the graph
    let mut censor = censor;
    if rng.chance(1, 4) {
        for _ in 0..rng.range(1, 3) {
            if !censor.is_empty() && rng.chance(3, 4) { let x = censor[rng.below(censor.len())]; let at = rng.below(censor.len() + 1); censor.insert(at, x); }
            else { censor.push(g.len() + rng.below(3)); }
        }
    }
    (nodes, censor)
}

/// stranded, even K: the read `L ++ P ++ R` with `P` its own reverse complement, compressed in three pieces (k-mers before `P` | `P` |
/// k-mers after `P`) and combined: every adjacency that can still be merged touches the single-k-mer node `P`
fn gen_pal_pieces<K: Kmer + Send + Sync>(rng: &mut Rng, k: usize) -> String {
    loop {
        let half: Vec<u8> = (0..k / 2).map(|_| rng.below(4) as u8).collect();
        let mut s: Vec<u8> = (0..rng.range(1, 6)).map(|_| rng.below(4) as u8).collect();
        let ip = s.len();
        s.extend(half.iter()); s.extend(crate::gr::rc_of(&half));
        s.extend((0..rng.range(1, 6)).map(|_| rng.below(4) as u8));
        let ws: Vec<Vec<u8>> = s.windows(k).map(|w| w.to_vec()).collect();
        if (0..ws.len()).any(|i| (0..i).any(|j| ws[i] == ws[j])) { continue; }
        let t: Vec<(K, (Exts, u32))> = table_from_reads(&[s.clone()], &[0], true, 1, false, true);
        let spec = Spec { join_eq: false, reduce: 0 };
        let bases = |x: &K| -> Vec<u8> { (0..k).map(|i| x.get(i)).collect() };
        let mut parts = Vec::new();
        for sel in 0..3 {
            let part: Vec<(K, (Exts, u32))> = t.iter().filter(|x| { let p = ws.iter().position(|w| *w == bases(&x.0)).unwrap(); (sel == 0 && p < ip) || (sel == 1 && p == ip) || (sel == 2 && p > ip) }).cloned().collect();
            if part.is_empty() { continue; }
            let idx = boomphf::hashmap::BoomHashMap2::new(part.iter().map(|x| x.0).collect(), part.iter().map(|x| (x.1).0).collect(), part.iter().map(|x| (x.1).1).collect());
            parts.push(compress_kmers_with_hash(true, &spec, &idx));
        }
        let g = BaseGraph::combine(parts.into_iter()).finish();
        return format!("C09 recompress {} 1 1 always {} {} {}", k, *rng.pick(&["sum", "max"]), show_nat_list(&[]), show_graph(&g.base));
    }
}

pub fn gen09(rng: &mut Rng, tier: &str) -> String {
    if rng.chance(1, 12) {
        let k = *rng.pick(&[4usize, 4, 6, 8]);
        return with_graph_kmer!(k, gen_pal_pieces, rng, k);
    }
    let k = pick_k(rng, tier);
    let stranded = rng.chance(1, 3);
    let colour = rng.chance(1, 4);
    let (nodes, censor) = with_graph_kmer!(k, gen_graph_nodes, rng, k, tier, stranded, colour);
    if rng.chance(1, 10) {
        // the tip finder itself
        return format!("C09 tips {} {} {} {}", k, stranded as u8, *rng.pick(&[k, k + 1, 2 * k, 3 * k, 1000]), nodes);
    }
    let (join, reduce) = if colour { ("eq", "first") } else { ("always", *rng.pick(&["sum", "max", "mix"])) };
    if rng.chance(1, 8) {
        // the crate's own maximality check, on graphs at all three compression levels
        return format!("C09 iscomp {} {} {} {}", k, stranded as u8, join, nodes);
    }
    format!("C09 recompress {} {} {} {} {} {} {}", k, stranded as u8, stranded as u8, join, reduce, show_nat_list(&censor), nodes)
}

pub fn gen18(rng: &mut Rng, tier: &str) -> String {
    let k = pick_k(rng, tier);
    let nn = rng.range(1, 4);
    // node ends must be distinct (the index maps of a finished graph require distinct keys)
    let mut seqs: Vec<Vec<u8>> = Vec::new();
    while seqs.len() < nn {
        let l = k + if rng.chance(1, 4) { 0 } else { rng.below(14) };
        let s: Vec<u8> = (0..l).map(|_| rng.below(4) as u8).collect();
        if seqs.iter().all(|t: &Vec<u8>| t[..k] != s[..k] && t[t.len() - k..] != s[s.len() - k..]) {
            seqs.push(s);
        }
    }
    let txt: Vec<String> = seqs.iter().map(|s| show_digits(s)).collect();
    if rng.chance(1, 8) {
        return format!("C18 all {} {}", k, txt.join(","));
    }
    // first, middle or last node; calls with n on both sides of the skip threshold and of the remaining count
    let mid = rng.below(nn);
    let idx = *rng.pick(&[0usize, nn - 1, mid]);
    let nk = seqs[idx].len() - k + 1;
    let ncalls = rng.range(1, 12);
    let calls: Vec<String> = (0..ncalls).map(|_| match rng.below(5) {
        0 | 1 => "n".to_string(),
        2 => format!("s{}", rng.below(5)),
        3 => format!("s{}", rng.range(5, 9)),
        _ => format!("s{}", *rng.pick(&[nk.saturating_sub(1), nk, nk + 1, nk + 5, 0usize, usize::MAX, usize::MAX - 2, 1usize << 63])),
    }).collect();
    format!("C18 iter {} {} {} {}", k, txt.join(","), idx, calls.join(","))
}

pub fn gen20(rng: &mut Rng, tier: &str) -> String {
    let k = pick_k(rng, tier);
    let stranded = rng.chance(1, 3);
    match rng.below(10) {
        0 => { let (n, kk) = *rng.pick(&crate::c10::TYPES); format!("C20 persist kmer {} {:x}", n, crate::c10::bases_to_raw(&crate::c10::random_kmer_bases(rng, kk))) }
        1 => { let l = crate::c14::boundary_len(rng); let v: Vec<u8> = (0..l).map(|_| rng.below(4) as u8).collect(); format!("C20 persist dna {}", show_digits(&v)) }
        2 => if rng.chance(1, 2) { format!("C20 persist exts {:02x}", rng.below(256)) } else { let l = rng.below(93); let v: Vec<u8> = (0..l).map(|_| rng.below(4) as u8).collect(); format!("C20 persist lmer {}", show_digits(&v)) },
        3 | 4 => {
            let reads = gen_reads(rng, k, 5, 50);
            let nodes = with_graph_kmer!(k, pipe_nodes, &reads, stranded);
            format!("C20 persist graph {} {} {}", k, stranded as u8, nodes)
        }
        _ => {
            // exports: pipeline graphs, plus hand-made shapes (empty, single node, link-free, hairpins)
            let nodes = match rng.below(8) {
                0 => "-".to_string(),
                // one node; now and then on either side of 256 bases (where `Debug` of a sequence stops printing it)
                1 => { let l = if rng.chance(1, 2) { k + rng.below(6) } else if rng.chance(1, 6) { rng.range(8190, 8200) + 8192 * rng.below(2) } else { rng.range(250, 262).max(k) }; let v: Vec<u8> = (0..l).map(|_| rng.below(4) as u8).collect(); format!("{}:00:0", show_digits(&v)) }
                2 => {
                    // link-free nodes with distinct ends
                    let want = rng.range(2, 4);
                    let mut seqs: Vec<Vec<u8>> = Vec::new();
                    while seqs.len() < want {
                        let l = if rng.chance(1, 5) { rng.range(254, 258).max(k) } else { k + rng.below(4) };
                        let v: Vec<u8> = (0..l).map(|_| rng.below(4) as u8).collect();
                        let ends = |t: &Vec<u8>| (t[..k].to_vec(), t[t.len() - k..].to_vec(), crate::gr::rc_of(&t[..k]), crate::gr::rc_of(&t[t.len() - k..]));
                        let (a, b, c, d) = ends(&v);
                        if seqs.iter().all(|t| { let (p, q, r, s2) = ends(t); p != a && q != b && r != b && s2 != a && p != d && q != c }) { seqs.push(v); }
                    }
                    seqs.iter().enumerate().map(|(i, v)| format!("{}:00:{}", show_digits(v), i)).collect::<Vec<_>>().join(",")
                }
                3 | 4 => {
                    // pipeline graph with dangling extensions: extra bits whose target k-mer is no node end, and/or a node removed
                    let reads = gen_reads(rng, k, 5, 50);
                    let nodes = with_graph_kmer!(k, pipe_nodes, &reads, stranded);
                    let picks: Vec<usize> = (0..6).map(|_| rng.below(1 << 20)).collect();
                    with_graph_kmer!(k, dangle_nodes, &nodes, stranded, &picks, true)
                }
                5 => {
                    // a long read among the others: for K >= 8 it compresses into a node of more than 256 bases, with links
                    let mut reads = gen_reads(rng, k, 5, 50);
                    let l = rng.range(280, 340);
                    reads.push((0..l).map(|_| rng.below(4) as u8).collect());
                    with_graph_kmer!(k, pipe_nodes, &reads, stranded)
                }
                _ => { let reads = gen_reads(rng, k, 5, 50); with_graph_kmer!(k, pipe_nodes, &reads, stranded) }
            };
            let rest = match rng.below(6) {
                0 => "6d657461=1,746167=\"x\"".to_string(),
                1 => {
                    // one to three distinct keys over an alphabet with quotes, backslashes, control characters; sorted
                    // (serde_json's map iterates in key order)
                    let alpha: [u8; 12] = [b'a', b'b', b'"', b'\\', b'/', 0x01, 0x08, 0x0c, 0x1f, 0x7f, b'u', b'0'];
                    let mut keys: Vec<Vec<u8>> = Vec::new();
                    for _ in 0..rng.range(1, 4) {
                        let key: Vec<u8> = (0..rng.range(1, 5)).map(|_| *rng.pick(&alpha)).collect();
                        if !keys.contains(&key) { keys.push(key); }
                    }
                    keys.sort();
                    keys.iter().enumerate().map(|(i, key)| format!("{}={}", key.iter().map(|b| format!("{:02x}", b)).collect::<String>(), i)).collect::<Vec<_>>().join(",")
                }
                _ => "none".to_string(),
            };
            format!("C20 export {} {} {} {}", k, stranded as u8, nodes, rest)
        }
    }
}

fn pipe_nodes<K: Kmer + Send + Sync>(reads: &[Vec<u8>], stranded: bool) -> String {
    let (_, g) = pipeline::<K>(reads, stranded, 1);
    nodes_with_ids(&g)
}

#[allow(dead_code)]
fn unused() { let _ = show_table::<debruijn::kmer::Kmer4>; }
