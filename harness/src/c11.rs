//! C11: operation histories on k-mers; equality / order / hash / sort-dedup-search against strings.
use crate::c10::{bases_to_raw, random_kmer_bases, show_k, Raw, TYPES};
use crate::util::*;
use crate::with_named_kmer;
use debruijn::{Dir, Kmer, Mer};
use std::collections::hash_map::DefaultHasher;
use std::hash::{Hash, Hasher};

fn h<K: Hash>(k: &K) -> u64 {
    let mut s = DefaultHasher::new();
    k.hash(&mut s);
    s.finish()
}

fn hist<K: Raw>(ini: &str, ops: &str, other: &str) -> String {
    let (kind, arg) = ini.split_once(':').unwrap();
    let mut x: K = match kind {
        "b" => K::from_bytes(&digits(arg)),
        "u" => K::from_u64(arg.parse::<u64>().unwrap()),
        "a" => K::from_ascii(arg.as_bytes()),
        _ => panic!("bad init"),
    };
    let mut trace = vec![show_k(&x)];
    if ops != "-" {
        for t in ops.split(',') {
            let (c, r) = t.split_at(1);
            x = match c {
                "L" => x.extend_left(r.parse::<u8>().unwrap()),
                "R" => x.extend_right(r.parse::<u8>().unwrap()),
                "C" => x.rc(),
                "M" => x.min_rc(),
                "S" => {
                    let (p, v) = r.split_once('.').unwrap();
                    let mut y = x;
                    y.set_mut(p.parse().unwrap(), v.parse().unwrap());
                    y
                }
                "P" => {
                    let f: Vec<&str> = r.split('.').collect();
                    let mut y = x;
                    y.set_slice_mut(f[0].parse().unwrap(), f[1].parse().unwrap(), u64::from_str_radix(f[2], 16).unwrap());
                    y
                }
                "E" => {
                    let (d, b) = r.split_at(1);
                    x.extend(b.parse::<u8>().unwrap(), if d == "R" { Dir::Right } else { Dir::Left })
                }
                _ => panic!("bad op"),
            };
            trace.push(show_k(&x));
        }
    }
    // the other route to the same string: from_bytes of the bases read back
    let bases: Vec<u8> = (0..K::k()).map(|i| x.get(i)).collect();
    let canon = K::from_bytes(&bases);
    // `other`: literal bases, or `W<m>`: the final string with its first and last m bases exchanged
    let oth_bases: Vec<u8> = if let Some(m) = other.strip_prefix('W') {
        let m: usize = m.parse::<usize>().unwrap().min(bases.len() / 2);
        let n = bases.len();
        let mut v = bases[n - m..].to_vec(); v.extend_from_slice(&bases[m..n - m]); v.extend_from_slice(&bases[..m]); v
    } else { digits(other) };
    let oth = K::from_bytes(&oth_bases);
    let cmpo = match x.cmp(&oth) {
        std::cmp::Ordering::Less => "lt",
        std::cmp::Ordering::Greater => "gt",
        std::cmp::Ordering::Equal => "eq",
    };
    // sort / dedup / binary search in a family of neighbours built by from_bytes
    let mut fam: Vec<K> = vec![x, canon];
    for i in 0..K::k().min(21) {
        for d in 1..4u8 {
            let mut b = bases.clone();
            b[i] = (b[i] + d) % 4;
            fam.push(K::from_bytes(&b));
        }
    }
    fam.sort();
    fam.dedup();
    let pos = fam.binary_search(&x).map(|p| p as i64).unwrap_or(-1);
    format!(
        "{}|eq={} hash={} cmpother={} eqother={} hashother={} pos={} len={}",
        trace.join(";"),
        (x == canon) as u8,
        (h(&x) == h(&canon)) as u8,
        cmpo,
        (x == oth) as u8,
        (h(&x) == h(&oth)) as u8,
        pos,
        fam.len()
    )
}

/// `<type> hist <init> <ops> <other>`
pub fn exec(a: &[&str]) -> String {
    assert!(a[1] == "hist");
    with_named_kmer!(a[0], hist, a[2], a[3], a[4])
}

pub fn gen(rng: &mut Rng, _tier: &str) -> String {
    let (name, k) = *rng.pick(&TYPES);
    let bases = random_kmer_bases(rng, k);
    let ini = match rng.below(4) {
        0 if k <= 32 => format!("u:{}", bases_to_raw(&bases) as u64),
        0 => format!("u:{}", if rng.chance(1, 3) { rng.next() >> rng.below(40) } else { rng.next() }),
        1 => {
            let tbl = [["A", "a"], ["C", "c"], ["G", "g"], ["T", "t"]];
            let mut s = String::new();
            for b in bases.iter() {
                s.push_str(tbl[*b as usize][rng.below(2)]);
            }
            let noise = if rng.chance(1, 3) { "N" } else { "" };
            format!("a:{}{}", s, noise)
        }
        _ => {
            let mut b = bases.clone();
            for _ in 0..rng.below(3) {
                b.push(rng.below(4) as u8);
            }
            format!("b:{}", show_digits(&b))
        }
    };
    let nops = rng.below(41);
    let mut ops: Vec<String> = Vec::new();
    for _ in 0..nops {
        ops.push(match rng.below(9) {
            0 | 1 => format!("L{}", rng.below(4)),
            2 | 3 => format!("R{}", rng.below(4)),
            4 => "C".into(),
            5 => format!("S{}.{}", rng.below(k), rng.below(4)),
            6 => {
                let pos = rng.below(k);
                let n = rng.range(1, 32.min(k - pos));
                format!("P{}.{}.{:x}", pos, n, rng.next())
            }
            7 => "M".into(),
            _ => format!("E{}{}", if rng.chance(1, 2) { "L" } else { "R" }, rng.below(4)),
        });
    }
    // `other`: mostly a near neighbour of something reachable, sometimes random
    // a fifth of the time the twin of the final string with its two ends exchanged (the ends as long as the part of a wide k-mer that
    // lies in the other storage word, or half, or a few bases)
    let other = if rng.chance(1, 5) { format!("W{}", *rng.pick(&[if k > 32 { k - 32 } else { k / 2 }, k / 2, 1, 8.min(k / 2), 16.min(k / 2)])) } else { show_digits(&random_kmer_bases(rng, k)) };
    format!("C11 {} hist {} {} {}", name, ini, if ops.is_empty() { "-".into() } else { ops.join(",") }, other)
}
