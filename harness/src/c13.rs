//! C13: k-mer extraction over all containers; C12: reverse complement across containers and Exts.
use crate::c10::{show_k, Raw};
use crate::util::*;
use crate::with_named_kmer;
use debruijn::dna_string::DnaString;
use debruijn::vmer::{Array, Lmer};
use debruijn::{Dir, DnaBytes, DnaSlice, Exts, Mer, Vmer};
use std::hash::Hash;

fn show_ks<K: Raw>(v: &[K]) -> String {
    if v.is_empty() { "-".into() } else { v.iter().map(show_k).collect::<Vec<_>>().join(",") }
}

fn on_vmer<K: Raw, V: Vmer>(v: &V, req: &str, rest: &[&str]) -> String {
    match req {
        "getkmer" => show_k(&v.get_kmer::<K>(rest[0].parse().unwrap())),
        "iter" => format!("{} it={}", show_ks(&v.iter_kmers::<K>().collect::<Vec<K>>()), adaptors(|| v.iter_kmers::<K>(), |k| show_k(k))),
        "iterexts" => {
            let e = Exts::new(u8::from_str_radix(rest[0], 16).unwrap());
            let items: Vec<String> = v.iter_kmer_exts::<K>(e).map(|(k, x)| format!("{}:{:02x}", show_k(&k), x.val)).collect();
            format!("{} it={}", if items.is_empty() { "-".to_string() } else { items.join(",") },
                adaptors(|| v.iter_kmer_exts::<K>(e), |(k, x)| format!("{}:{:02x}", show_k(k), x.val)))
        }
        "term" => {
            let (f, l) = v.both_term_kmer::<K>();
            let f0: K = v.first_kmer();
            let l0: K = v.last_kmer();
            assert!(f == f0 && l == l0);
            format!("{};{};{};{}", show_k(&f0), show_k(&l0), show_k(&v.term_kmer::<K>(Dir::Left)), show_k(&v.term_kmer::<K>(Dir::Right)))
        }
        _ => panic!("bad req"),
    }
}

fn bases<M: Mer>(m: &M) -> Vec<u8> {
    (0..m.len()).map(|i| m.get(i)).collect()
}

fn rc_of<K: Raw, V: Vmer + PartialEq>(v: &V) -> String {
    let r = v.rc();
    let rr = r.rc();
    // as values: rc is an involution (`rr == v`), and `v == rc(v)` exactly when the sequence is its own reverse complement
    format!("rc={} rcrc={} kmers={} inv={} pal={}", show_digits(&bases(&r)), show_digits(&bases(&rr)), show_ks(&r.iter_kmers::<K>().collect::<Vec<K>>()),
        (rr == *v) as u8 + 2 * (*v == rr) as u8, (*v == r) as u8 + 2 * (r == *v) as u8)
}

fn lmer_req<K: Raw, A: Array<Item = u64> + Copy + Eq + Ord + Hash>(seq: &[u8], req: &str, rest: &[&str]) -> String {
    let l: Lmer<A> = Lmer::from_slice(seq);
    if req == "rc" { rc_of::<K, _>(&l) } else { on_vmer::<K, _>(&l, req, rest) }
}

fn slice_req<K: Raw>(s: &debruijn::dna_string::DnaStringSlice, req: &str, rest: &[&str]) -> String {
    if req == "rc" {
        let r = s.rc();
        let rr = r.rc();
        // owned copies: of the rc view, and the rc of the owned copy of the view itself
        format!("rc={} rcrc={} kmers={} inv={} pal={} own={} ownrc={}", show_digits(&bases(&r)), show_digits(&bases(&rr)), show_ks(&r.iter_kmers::<K>().collect::<Vec<K>>()),
            (rr == *s) as u8 + 2 * (*s == rr) as u8, (*s == r) as u8 + 2 * (r == *s) as u8,
            show_digits(&bases(&r.to_owned())), show_digits(&bases(&s.to_owned().rc())))
    } else { on_vmer::<K, _>(s, req, rest) }
}

fn run<K: Raw>(req: &str, cont: &str, seq: &[u8], rest: &[&str]) -> String {
    let f: Vec<&str> = cont.split('.').collect();
    match f[0] {
        "string" => {
            let d = DnaString::from_bytes(seq);
            if req == "rc" { rc_of::<K, _>(&d) } else { on_vmer::<K, _>(&d, req, rest) }
        }
        "slice" => {
            let d = DnaString::from_bytes(seq);
            let s0 = d.slice(f[1].parse().unwrap(), f[2].parse().unwrap());
            let s1 = if f[3] == "1" { s0.rc() } else { s0 };
            // `slice.a.b.r.x.y`: a window of that (possibly reverse-complemented) view
            if f.len() == 6 {
                let s2 = s1.slice(f[4].parse().unwrap(), f[5].parse().unwrap());
                slice_req::<K>(&s2, req, rest)
            } else {
                slice_req::<K>(&s1, req, rest)
            }
        }
        "lmer" => match f[1] {
            "1" => lmer_req::<K, [u64; 1]>(seq, req, rest),
            "2" => lmer_req::<K, [u64; 2]>(seq, req, rest),
            "3" => lmer_req::<K, [u64; 3]>(seq, req, rest),
            "4" => lmer_req::<K, [u64; 4]>(seq, req, rest),
            "6" => lmer_req::<K, [u64; 6]>(seq, req, rest),
            _ => panic!("bad n"),
        },
        "grown" => {
            // an owned copy of a (possibly reverse-complemented) view, grown afterwards: `grown.a.b.r.tail.how`
            let d = DnaString::from_bytes(seq);
            let s0 = d.slice(f[1].parse().unwrap(), f[2].parse().unwrap());
            let s1 = if f[3] == "1" { s0.rc() } else { s0 };
            let mut o = s1.to_owned();
            let tail = digits(f[4]);
            match f[5] { "push" => { for b in &tail { o.push(*b); } } "ext" => o.extend(tail.iter().copied()), _ => { let mut packed = vec![0u8; (tail.len() + 3) / 4];
                for (i, b) in tail.iter().enumerate() { packed[i / 4] |= b << (2 * (i % 4)); } o.push_bytes(&packed, tail.len()); } }
            on_vmer::<K, _>(&o, req, rest)
        }
        "bytes" => on_vmer::<K, _>(&DnaBytes(seq.to_vec()), req, rest),
        "dslice" => on_vmer::<K, _>(&DnaSlice(seq), req, rest),
        _ => panic!("bad container"),
    }
}

/// `<ktype> <req> <container> <seq> [args]`  (C13 and the container part of C12)
pub fn exec(a: &[&str]) -> String {
    if a[0] == "extsops" {
        // every remaining operation of `Exts`: `extsops <e1> <e2> <dir> <base> <seq> <start> <len>`
        let e1 = Exts::new(u8::from_str_radix(a[1], 16).unwrap());
        let e2 = Exts::new(u8::from_str_radix(a[2], 16).unwrap());
        let d = if a[3] == "L" { Dir::Left } else { Dir::Right };
        let b: u8 = a[4].parse().unwrap();
        let seq = digits(a[5]);
        let (st, ln): (usize, usize) = (a[6].parse().unwrap(), a[7].parse().unwrap());
        let l = |v: Vec<u8>| if v.is_empty() { "-".to_string() } else { v.iter().map(|x| x.to_string()).collect::<Vec<_>>().join("") };
        let o = |v: Option<u8>| v.map(|x| x.to_string()).unwrap_or("-".into());
        return format!("add={:02x} set={:02x} merge={:02x} fsd={:02x} getL={} getR={} has={} numL={} numR={} uqL={} uqR={} sdL={:02x} sdR={:02x} mkl={:02x} mkr={:02x} mk={:02x} fsb={:02x} fds={:02x} dbg={:?}",
            e1.add(e2).val, e1.set(d, b).val, Exts::merge(e1, e2).val, Exts::from_single_dirs(e1, e2).val,
            l(e1.get(Dir::Left)), l(e1.get(Dir::Right)), e1.has_ext(d, b) as u8, e1.num_exts_l(), e1.num_exts_r(),
            o(e1.get_unique_extension(Dir::Left)), o(e1.get_unique_extension(Dir::Right)),
            e1.single_dir(Dir::Left).val, e1.single_dir(Dir::Right).val,
            Exts::mk_left(b).val, Exts::mk_right(b).val, Exts::mk(b, 3 - b).val,
            Exts::from_slice_bounds(&seq, st, ln).val, Exts::from_dna_string(&DnaString::from_bytes(&seq), st, ln).val, e1);
    }
    if a[0] == "exts" {
        let e = Exts::new(u8::from_str_radix(a[1], 16).unwrap());
        return format!("rc={:02x} rcrc={:02x} comp={:02x} rev={:02x}", e.rc().val, e.rc().rc().val, e.complement().val, e.reverse().val);
    }
    if a[1] == "kmersb" || a[1] == "kmersa" {
        // the bulk constructors (named by C13) are requests of the k-mer harness
        return crate::c10::exec(a);
    }
    let seq = digits(a[3]);
    with_named_kmer!(a[0], run, a[1], a[2], &seq, &a[4..])
}

const KTYPES: [(&str, usize); 16] = [("V128K41", 41), ("Kmer2", 2), ("Kmer4", 4), ("Kmer5", 5), ("Kmer8", 8), ("Kmer12", 12), ("Kmer16", 16), ("Kmer20", 20),
    ("K31", 31), ("Kmer32", 32), ("Kmer40", 40), ("Kmer48", 48), ("Kmer64", 64), ("VK4", 4), ("V16K4", 4), ("V128K31", 31)];

fn container(rng: &mut Rng, k: usize, allow_bytes: bool) -> (String, Vec<u8>, usize) {
    // returns (spec, backing sequence, length of the viewed sequence)
    let pick = rng.below(if allow_bytes { 8 } else { 5 });
    let len = match rng.below(6) {
        0 => rng.below(k + 1),                                  // shorter than / equal to K
        1 => *rng.pick(&[31usize, 32, 33, 63, 64, 65, 95, 96, 97, 127, 128, 129, 160, 191, 192, 193, 256, 257, 300]),
        _ => k + rng.below(80),
    };
    match pick {
        0 | 1 => {
            let seq: Vec<u8> = (0..len).map(|_| rng.below(4) as u8).collect();
            ("string".into(), seq, len)
        }
        2 | 3 => {
            let a = rng.below(40);
            let pad = rng.below(40);
            let seq: Vec<u8> = (0..a + len + pad).map(|_| rng.below(4) as u8).collect();
            if rng.chance(1, 3) {
                // a window of the (possibly reverse-complemented) view: the inner view is wider by up to 20 bases on either side
                let (x, extra) = (rng.below(20), rng.below(20));
                let pad2 = pad + x + extra;
                let seq: Vec<u8> = (0..a + len + pad2).map(|_| rng.below(4) as u8).collect();
                (format!("slice.{}.{}.{}.{}.{}", a, a + x + len + extra, rng.below(2), x, x + len), seq, len)
            } else {
                (format!("slice.{}.{}.{}", a, a + len, rng.below(2)), seq, len)
            }
        }
        4 => {
            let n = *rng.pick(&[1usize, 2, 3, 4, 6]);
            let maxlen = (n * 64 - 8) / 2;
            let l = len.min(maxlen);
            let l = if rng.chance(1, 4) { maxlen } else { l };
            let seq: Vec<u8> = (0..l).map(|_| rng.below(4) as u8).collect();
            (format!("lmer.{}", n), seq, l)
        }
        5 => {
            let seq: Vec<u8> = (0..len).map(|_| rng.below(4) as u8).collect();
            ("bytes".into(), seq, len)
        }
        7 => {
            // `to_owned` of a view (start often on a block boundary, end inside a block, non-A bases behind it), then growth
            let a = if rng.chance(2, 3) { 32 * rng.below(3) } else { rng.below(40) };
            let vl = if rng.chance(1, 4) { 256 + rng.below(80) } else { rng.below(70) };
            let pad = rng.below(40);
            let seq: Vec<u8> = (0..a + vl + pad).map(|_| if rng.chance(1, 2) { 3 } else { rng.below(4) as u8 }).collect();
            let tl = k + rng.below(40);
            let tail: Vec<u8> = (0..tl).map(|_| rng.below(4) as u8).collect();
            (format!("grown.{}.{}.{}.{}.{}", a, a + vl, rng.chance(1, 4) as u8, show_digits(&tail), *rng.pick(&["push", "ext", "pb"])), seq, vl + tl)
        }
        _ => {
            let seq: Vec<u8> = (0..len).map(|_| rng.below(4) as u8).collect();
            ("dslice".into(), seq, len)
        }
    }
}

pub fn gen(rng: &mut Rng, _tier: &str) -> String {
    let (kt, k) = *rng.pick(&KTYPES);
    if rng.chance(1, 10) {
        // bulk constructors: packed bases, or text in either case with other characters
        let len = if rng.chance(1, 10) { rng.below(k) } else { k + rng.below(40) };
        if rng.chance(1, 2) {
            let v: Vec<u8> = (0..len).map(|_| rng.below(4) as u8).collect();
            return format!("C13 {} kmersb {}", kt, show_digits(&v));
        }
        return format!("C13 {} kmersa {}", kt, crate::c10::ascii_noise(rng, len.max(1)));
    }
    let (spec, seq, n) = container(rng, k, true);
    match rng.below(5) {
        0 | 1 if n >= k => format!("C13 {} getkmer {} {} {}", kt, spec, show_digits(&seq), rng.below(n - k + 1)),
        2 => format!("C13 {} iterexts {} {} {:02x}", kt, spec, show_digits(&seq), rng.below(256)),
        3 if n >= k => format!("C13 {} term {} {}", kt, spec, show_digits(&seq)),
        // the plain k-mer iterator, on sequences of every length (it used to be drawn only as the fall-back for sequences shorter than K)
        _ => format!("C13 {} iter {} {}", kt, spec, show_digits(&seq)),
    }
}

pub fn gen12(rng: &mut Rng, _tier: &str) -> String {
    if rng.chance(1, 8) {
        return format!("C12 exts {:02x}", rng.below(256));
    }
    if rng.chance(1, 7) {
        let n = rng.range(1, 12);
        let seq: Vec<u8> = (0..n).map(|_| rng.below(4) as u8).collect();
        let st = rng.below(n + 1);
        let ln = rng.below(n - st + 1);
        return format!("C12 extsops {:02x} {:02x} {} {} {} {} {}", rng.below(256), rng.below(256), if rng.chance(1, 2) { "L" } else { "R" }, rng.below(4), show_digits(&seq), st, ln);
    }
    let (kt, k) = *rng.pick(&KTYPES);
    let (spec, seq, _) = container(rng, k, false);
    format!("C12 {} rc {} {}", kt, spec, show_digits(&seq))
}
