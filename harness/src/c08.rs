//! C08: `msp_sequence` over read sets, all piece container types, default and arbitrary permutations.
use crate::util::*;
use crate::with_kmer_type;
use debruijn::dna_string::DnaString;
use debruijn::msp::msp_sequence;
use debruijn::vmer::{Lmer1, Lmer2, Lmer3};
use debruijn::{DnaBytes, Exts, Kmer, Mer, Vmer};

fn show<V: Vmer>(pieces: Vec<(u32, Exts, V)>) -> String {
    if pieces.is_empty() {
        return "-".into();
    }
    pieces
        .iter()
        .map(|(b, e, v)| {
            let s: Vec<u8> = (0..v.len()).map(|i| v.get(i)).collect();
            format!("{}:{:02x}:{}", b, e.val, show_digits(&s))
        })
        .collect::<Vec<_>>()
        .join(";")
}

fn run<P: Kmer>(k: usize, rc: bool, perm: Option<&[usize]>, container: &str, reads: &[Vec<u8>]) -> String {
    let mut out = Vec::new();
    for r in reads {
        out.push(match container {
            "bytes" => show(msp_sequence::<P, DnaBytes>(k, r, perm, rc)),
            "string" => show(msp_sequence::<P, DnaString>(k, r, perm, rc)),
            "lmer1" => show(msp_sequence::<P, Lmer1>(k, r, perm, rc)),
            "lmer2" => show(msp_sequence::<P, Lmer2>(k, r, perm, rc)),
            "lmer3" => show(msp_sequence::<P, Lmer3>(k, r, perm, rc)),
            _ => panic!("bad container"),
        });
    }
    out.join("|")
}

#[allow(deprecated)]
pub fn sscan<P: Kmer>(k: usize, rc: bool, perm: &[usize], read: &[u8]) -> String {
    let ivs = debruijn::msp::simple_scan::<_, P>(k, &DnaBytes(read.to_vec()), perm, rc);
    if ivs.is_empty() { return "-".into(); }
    ivs.iter().map(|iv| format!("{}:{}:{}", iv.bucket(), iv.start(), iv.len())).collect::<Vec<_>>().join(";")
}

/// `msp <k> <p> <rc> <perm|default> <container> <read,read,…>` | `sscan <k> <p> <rc> <perm> <read>`
pub fn exec(a: &[&str]) -> String {
    if a[0] == "sscan" {
        let k: usize = a[1].parse().unwrap();
        let p: usize = a[2].parse().unwrap();
        let perm = nat_list(a[4]);
        let read = digits(a[5]);
        return with_kmer_type!(p, sscan, k, a[3] == "1", &perm, &read);
    }
    assert!(a[0] == "msp");
    let k: usize = a[1].parse().unwrap();
    let p: usize = a[2].parse().unwrap();
    let rc = a[3] == "1";
    let perm: Option<Vec<usize>> = if a[4] == "default" { None } else { Some(nat_list(a[4])) };
    let reads: Vec<Vec<u8>> = a[6].split(',').map(digits).collect();
    with_kmer_type!(p, run, k, rc, perm.as_deref(), a[5], &reads)
}

pub fn rc_of(s: &[u8]) -> Vec<u8> {
    s.iter().rev().map(|b| 3 - b).collect()
}

pub fn gen(rng: &mut Rng, tier: &str) -> String {
    let ps: &[usize] = if tier == "thorough" { &[2, 3, 4, 5, 6] } else { &[2, 3, 4] };
    // wide minimizers (p = 8, 10, 12) with the default permutation only: the identity table has 4^p entries
    let wide = rng.chance(1, 15);
    let p = if wide { if tier == "thorough" { *rng.pick(&[8usize, 10, 10, 12, 12]) } else { *rng.pick(&[8usize, 10, 10, 12]) } } else { *rng.pick(ps) };
    // now and then a window of 62..72 p-mers (k - p around 64), reads long enough to rescan (growable containers only)
    let widewin = !wide && rng.chance(1, 20);
    let container = if widewin { *rng.pick(&["bytes", "string"]) } else { *rng.pick(&["bytes", "bytes", "string", "lmer1", "lmer2", "lmer3"]) };
    let maxlen = match container {
        "lmer1" => 28,
        "lmer2" => 60,
        "lmer3" => 92,
        _ => 1 << 40,
    };
    // k > p, pieces (<= 2k-p) must fit; a small stream violates the capacity assertion on purpose
    let mut k = p + if widewin { *rng.pick(&[61usize, 62, 63, 64, 64, 65, 66, 71]) } else { 1 + rng.below(12) };
    if 2 * k - p > maxlen && !rng.chance(1, 30) {
        k = (maxlen + p) / 2;
    }
    let alpha = rng.range(2, 4);
    let nreads = rng.range(1, 5);
    let mut reads: Vec<Vec<u8>> = Vec::new();
    for _ in 0..nreads {
        let r = if !reads.is_empty() && rng.chance(1, 3) {
            // reuse: reverse complement, a shifted window or a copy of an earlier read, so that the same k-mer
            // occurs in several reads / positions / strands
            let src = reads[rng.below(reads.len())].clone();
            match rng.below(3) {
                0 => rc_of(&src),
                1 => {
                    let a = rng.below(src.len().max(1));
                    let mut v = src[a.min(src.len())..].to_vec();
                    let extra = rng.below(6);
                    for _ in 0..extra {
                        v.push(rng.below(alpha) as u8);
                    }
                    if rng.chance(1, 2) { rc_of(&v) } else { v }
                }
                _ => src,
            }
        } else {
            let len = if widewin { k + rng.range(80, 300) } else if rng.chance(1, 25) { rng.below(k) } else { k + rng.below(50) };
            random_seq(rng, len, alpha)
        };
        reads.push(r);
    }
    let perm = if wide || rng.chance(1, 2) {
        "default".to_string()
    } else {
        let n = 1usize << (2 * p);
        let mut v: Vec<usize> = (0..n).collect();
        for i in (1..n).rev() {
            let j = rng.below(i + 1);
            v.swap(i, j);
        }
        show_nat_list(&v)
    };
    let rc = rng.chance(1, 2);
    if !wide && rng.chance(1, 12) {
        // the deprecated wrapper `simple_scan`: explicit permutation (sometimes one entry short), one read (sometimes shorter than k)
        let n = 1usize << (2 * p);
        let mut v: Vec<usize> = if perm == "default" { (0..n).collect() } else { nat_list(&perm) };
        if rng.chance(1, 10) { v.pop(); }
        return format!("C08 sscan {} {} {} {} {}", k, p, if rc { 1 } else { 0 }, show_nat_list(&v), show_digits(&reads[0]));
    }
    let rs: Vec<String> = reads.iter().map(|r| show_digits(r)).collect();
    format!("C08 msp {} {} {} {} {} {}", k, p, if rc { 1 } else { 0 }, perm, container, rs.join(","))
}
