//! C05: filter_kmers with every achievable pass count (bytes-per-unit hook), both summarizers.
use crate::gr::*;
use crate::util::*;
use crate::with_graph_kmer;
use debruijn::dna_string::DnaString;
use debruijn::filter::{filter_kmers, CountFilter, CountFilterSet};
use debruijn::{verif_hooks, Exts, Kmer};

fn run<K: Kmer>(reads: &[(DnaString, Exts, u8)], summ: &str, stranded: bool, report_all: bool, mem: usize, bpu: usize, probes: &[Vec<u8>]) -> String {
    verif_hooks::set_bytes_per_unit(bpu);
    let (kind, n) = summ.split_once(':').unwrap();
    let n: usize = n.parse().unwrap();
    let hits = |f: &dyn Fn(&K) -> bool| -> String {
        if probes.is_empty() { return "-".into(); }
        probes.iter().map(|p| if f(&K::from_bytes(p)) { '1' } else { '0' }).collect()
    };
    let out = match kind {
        "count" => {
            let (map, all) = filter_kmers::<K, _, _, _, _>(reads, &Box::new(CountFilter::new(n)), stranded, report_all, mem);
            let mut rows: Vec<String> = map.iter().map(|(k, e, d)| format!("{}:{:02x}:{}", kmer_digits(k), e.val, d)).collect();
            rows.sort();
            (rows, all, hits(&|k| map.get(k).is_some()))
        }
        "set" => {
            let (map, all) = filter_kmers::<K, _, _, _, _>(reads, &Box::new(CountFilterSet::new(n)), stranded, report_all, mem);
            let mut rows: Vec<String> = map.iter().map(|(k, e, d)| format!("{}:{:02x}:{}", kmer_digits(k), e.val, show_payload_vec(d))).collect();
            rows.sort();
            (rows, all, hits(&|k| map.get(k).is_some()))
        }
        _ => panic!("bad summarizer"),
    };
    let passes = verif_hooks::last_passes();
    verif_hooks::set_bytes_per_unit(0);
    let all: Vec<String> = out.1.iter().map(|k| kmer_digits(k)).collect();
    format!(
        "passes={}|{}|{}|{}",
        passes,
        if out.0.is_empty() { "-".to_string() } else { out.0.join(",") },
        if all.is_empty() { "-".to_string() } else { all.join(",") },
        out.2
    )
}

/// `deep <K> <base> <nobs> <stranded> <summ> <label>`: one read of nobs + K - 1 equal bases
fn deep<K: Kmer>(base: u8, nobs: usize, stranded: bool, summ: &str, label: u8) -> String {
    let reads = vec![(DnaString::from_bytes(&vec![base; nobs + K::k() - 1]), Exts::empty(), label)];
    let (kind, n) = summ.split_once(':').unwrap();
    let n: usize = n.parse().unwrap();
    let mut rows: Vec<String> = if kind == "count" {
        let (map, _) = filter_kmers::<K, _, _, _, _>(&reads, &Box::new(CountFilter::new(n)), stranded, false, 4);
        map.iter().map(|(k, e, d)| format!("{}:{:02x}:{}", kmer_digits(k), e.val, d)).collect()
    } else {
        let (map, _) = filter_kmers::<K, _, _, _, _>(&reads, &Box::new(CountFilterSet::new(n)), stranded, false, 4);
        map.iter().map(|(k, e, d)| format!("{}:{:02x}:{}", kmer_digits(k), e.val, show_payload_vec(d))).collect()
    };
    rows.sort();
    if rows.is_empty() { "-".into() } else { rows.join(",") }
}

/// `deepmix <K> <n> <t> <stranded>`: one read `A^n t A^n` (count >= 1, all k-mers reported): the bucket of `A^K` receives more than
/// 2^20 observations and holds, besides `A^K`, the handful of k-mers that cross `t`
fn deepmix<K: Kmer>(n: usize, t: &[u8], stranded: bool) -> String {
    let mut v = vec![0u8; n];
    v.extend_from_slice(t);
    v.extend(vec![0u8; n]);
    let reads = vec![(DnaString::from_bytes(&v), Exts::empty(), 0u8)];
    let (map, all) = filter_kmers::<K, _, _, _, _>(&reads, &Box::new(CountFilter::new(1)), stranded, true, 4);
    let mut rows: Vec<String> = map.iter().map(|(k, e, d)| format!("{}:{:02x}:{}", kmer_digits(k), e.val, d)).collect();
    rows.sort();
    let all: Vec<String> = all.iter().map(|k| kmer_digits(k)).collect();
    format!("{}|{}", if rows.is_empty() { "-".to_string() } else { rows.join(",") }, if all.is_empty() { "-".to_string() } else { all.join(",") })
}

/// `filter <K> <stranded> <reportall> <summ> <memsize> <bytesPerUnit> <sizeOfPair> <probes> <reads>`
pub fn exec(a: &[&str]) -> String {
    if a[0] == "deepmix" {
        let k: usize = a[1].parse().unwrap();
        let t = digits(a[3]);
        let r = std::panic::catch_unwind(std::panic::AssertUnwindSafe(|| {
            with_graph_kmer!(k, deepmix, a[2].parse().unwrap(), &t, a[4] == "1")
        }));
        return r.unwrap_or_else(|_| "panic".into());
    }
    if a[0] == "deep" {
        let k: usize = a[1].parse().unwrap();
        let r = std::panic::catch_unwind(std::panic::AssertUnwindSafe(|| {
            with_graph_kmer!(k, deep, a[2].parse().unwrap(), a[3].parse().unwrap(), a[4] == "1", a[5], a[6].parse().unwrap())
        }));
        return r.unwrap_or_else(|_| "panic".into());
    }
    let k: usize = a[1].parse().unwrap();
    let reads = parse_reads(a[9]);
    let probes: Vec<Vec<u8>> = if a[8] == "-" { vec![] } else { a[8].split(';').map(digits).collect() };
    let r = std::panic::catch_unwind(std::panic::AssertUnwindSafe(|| {
        with_graph_kmer!(k, run, &reads, a[4], a[2] == "1", a[3] == "1", a[5].parse().unwrap(), a[6].parse().unwrap(), &probes)
    }));
    verif_hooks::set_bytes_per_unit(0);
    match r {
        Ok(s) => s,
        Err(_) => "panic".into(),
    }
}

fn size_of_pair<K: Kmer>() -> usize {
    std::mem::size_of::<(K, u8)>()
}

pub fn gen(rng: &mut Rng, tier: &str) -> String {
    if rng.chance(1, 400) {
        // more than 2^20 observations in one bucket that holds several distinct k-mers (cheap on the crate's side; judged in closed form)
        let t: Vec<u8> = (0..1 + rng.below(2)).map(|_| 1 + rng.below(3) as u8).collect();
        return format!("C05 deepmix {} {} {} {}", *rng.pick(&[10usize, 12, 16, 31, 32, 48]), *rng.pick(&[524300usize, 530000, 600000]), show_digits(&t), rng.below(2));
    }
    if rng.chance(1, 60) {
        // one k-mer observed more than 2^20 times (or around 2^16): past any batch a summarizer may work in (cheap on the crate's side)
        let nobs = if rng.chance(2, 3) { (1usize << 20) + *rng.pick(&[1usize, 1, 2, 3, 10, 4000]) } else { *rng.pick(&[65535usize, 65536, 65537, 131073]) };
        let summ = if rng.chance(1, 2) { format!("set:{}", *rng.pick(&[1usize, 2, 3, 5, 50, 6000, 65535, 65536, 70000, 1048577])) } else { format!("count:{}", *rng.pick(&[1usize, 3, 65535, 65536])) };
        return format!("C05 deep {} {} {} {} {} {}", *rng.pick(&[4usize, 8, 16, 31, 32, 48]), rng.below(4), nobs, rng.below(2), summ, rng.below(3));
    }
    let k = pick_k(rng, tier);
    // one homopolymer-dominated read of up to 70 000 bases now and then: more than 65 535 observations of one k-mer (saturation)
    let saturating = rng.chance(1, if tier == "thorough" { 200 } else { 150 });
    let reads = if saturating {
        // a homopolymer run of more than 65 535 bases, with a few other bases before and after it: the run's k-mer is
        // observed more often than its u16 count can tell, and its first / last observations carry flanks no other does
        vec![saturating_read(rng)]
    } else {
        gen_reads(rng, k, if tier == "thorough" { 30 } else { 8 }, if tier == "thorough" { 400 } else { 70 })
    };
    let n_kmers: usize = reads.iter().map(|r| r.len().saturating_sub(k - 1)).sum();
    let sz = with_graph_kmer!(k, size_of_pair,);
    // choose bytes-per-unit so that the pass count sweeps 1..256: slices = kmer_mem / (mem * bpu) + 1
    let mem = rng.range(1, 3);
    let target = match rng.below(6) { 0 => 1, 1 => 2, 2 => rng.range(2, 8), 3 => rng.range(8, 64), 4 => rng.range(64, 256), _ => 300 };
    let kmer_mem = (n_kmers * sz).max(1);
    let bpu = if target == 1 { kmer_mem + 1 } else { (kmer_mem / (mem * (target - 1))).max(1) };
    let summ = if saturating {
        // thresholds around the u16 saturation point of the count: at 65535 the k-mer is accepted, above it nothing is
        format!("count:{}", *rng.pick(&[65535usize, 65535, 65536, 70000, 2, 1]))
    } else if rng.chance(1, 2) { format!("count:{}", *rng.pick(&[0usize, 1, 1, 2, 2, 3, 4, 70000])) } else { format!("set:{}", *rng.pick(&[0usize, 1, 1, 2, 3, 4])) };
    // probes: some present k-mers (windows of reads), some random
    let mut probes: Vec<String> = Vec::new();
    for _ in 0..6 {
        if rng.chance(1, 2) && !reads.is_empty() {
            let r = &reads[rng.below(reads.len())];
            if r.len() >= k { let p = rng.below(r.len() - k + 1); probes.push(show_digits(&r[p..p + k])); continue; }
        }
        let v: Vec<u8> = (0..k).map(|_| rng.below(4) as u8).collect();
        probes.push(show_digits(&v));
    }
    format!(
        "C05 filter {} {} {} {} {} {} {} {} {}",
        k, rng.below(2), rng.below(2), summ, mem, bpu, sz, probes.join(";"), show_reads(&reads, rng, true)
    )
}
