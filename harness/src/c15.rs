//! C15: DnaStringSlice views (nesting, rc, renderers, to_owned, ==, get_kmer) and hamming_dist.
use crate::c10::{show_k, Raw};
use crate::c14::show_t;
use crate::util::*;
use crate::with_named_kmer;
use debruijn::dna_string::{DnaString, DnaStringSlice};
use debruijn::{Mer, Vmer};

fn show_s(s: &DnaStringSlice) -> String {
    format!("{}:{}:{}", s.start, s.length, s.is_rc as u8)
}

fn txt(v: &[u8]) -> String {
    if v.is_empty() { "-".into() } else { String::from_utf8_lossy(v).to_string() }
}

fn kmer_at<K: Raw>(s: &DnaStringSlice, pos: usize) -> String {
    let k: K = s.get_kmer(pos);
    show_k(&k)
}

pub fn exec(a: &[&str]) -> String {
    match a[0] {
        "slice" => {
            let d = DnaString::from_bytes(&digits(a[1]));
            let mut cur: Option<DnaStringSlice> = None;
            let mut tr = Vec::new();
            for t in a[2].split(',') {
                let (c, r) = t.split_at(1);
                let next = match (c, &cur) {
                    ("s", None) => { let (x, y) = r.split_once('-').unwrap(); d.slice(x.parse().unwrap(), y.parse().unwrap()) }
                    ("s", Some(s)) => { let (x, y) = r.split_once('-').unwrap(); s.slice(x.parse().unwrap(), y.parse().unwrap()) }
                    ("r", None) => d.slice(0, d.len()).rc(),
                    ("r", Some(s)) => s.rc(),
                    ("p", None) => d.prefix(r.parse().unwrap()),
                    ("p", Some(s)) => s.slice(0, r.parse().unwrap()),
                    ("x", None) => d.suffix(r.parse().unwrap()),
                    ("x", Some(s)) => { let k: usize = r.parse().unwrap(); assert!(k <= s.len()); s.slice(s.len() - k, s.len()) }
                    _ => panic!("bad op"),
                };
                // detach the lifetime from `cur` (the views all borrow `d`)
                let next = DnaStringSlice { dna_string: &d, start: next.start, length: next.length, is_rc: next.is_rc };
                tr.push(show_s(&next));
                cur = Some(next);
            }
            let s = cur.unwrap();
            let bytes = s.bytes();
            let owned = s.to_owned();
            let other = DnaString::from_bytes(&bytes);
            let eq = s == other.slice(0, other.len());
            // the view against its own reverse-complement view (same backing string, same window): equal iff the window is its
            // own reverse complement - in particular for empty windows
            let s_rc = s.rc();
            let eqrc = (s == s_rc) as u8 + 2 * (s_rc == s) as u8 + 4 * (s == s_rc.rc()) as u8;
            let pos: usize = a[4].parse().unwrap();
            // `get_kmer`'s range check is a `debug_assert!`: in the release profile a k-mer that does not fit
            // the view has no "corresponding substring", so the call is outside C15's quantifier and is not made
            // (the checked profile makes it and must see the panic the model's guard theorem predicts)
            let fits = pos + KTYPES.iter().find(|t| t.0 == a[3]).map(|t| t.1).unwrap() <= s.len();
            let km = if !fits && !cfg!(debug_assertions) { "panic".to_string() } else { std::panic::catch_unwind(std::panic::AssertUnwindSafe(|| with_named_kmer!(a[3], kmer_at, &s, pos))).unwrap_or_else(|_| "panic".to_string()) };
            format!(
                "{}|bytes={} ascii={} str={} disp={} owned={} eq={} eqrc={} it={} kmer={} dbg={}",
                tr.join(";"), show_digits(&bytes), txt(&s.ascii()), txt(s.to_dna_string().as_bytes()), txt(format!("{}", s).as_bytes()),
                show_t(&owned), eq as u8, eqrc, adaptors(|| s.iter(), |b| b.to_string()), km, txt(format!("{:?}", s).as_bytes())
            )
        }
        "ham" => {
            let d1 = DnaString::from_bytes(&digits(a[1]));
            let d2_own = DnaString::from_bytes(&digits(a[2]));
            // equal sequences: both views are taken from the same string object
            let d2: &DnaString = if a[1] == a[2] { &d1 } else { &d2_own };
            let a1: usize = a[3].parse().unwrap();
            let a2: usize = a[5].parse().unwrap();
            let n: usize = a[7].parse().unwrap();
            let mut s1 = d1.slice(a1, a1 + n);
            if a[4] == "1" { s1 = s1.rc(); }
            let mut s2 = d2.slice(a2, a2 + n);
            if a[6] == "1" { s2 = s2.rc(); }
            s1.hamming_dist(&s2).to_string()
        }
        _ => panic!("bad request"),
    }
}

const KTYPES: [(&str, usize); 9] = [("Kmer3", 3), ("Kmer5", 5), ("Kmer8", 8), ("Kmer14", 14), ("Kmer16", 16), ("K31", 31), ("Kmer32", 32), ("Kmer48", 48), ("VK4", 4)];

pub fn gen(rng: &mut Rng, tier: &str) -> String {
    if rng.chance(1, 5) {
        // hamming distance, lengths on both sides of 1024, differences planted at critical positions
        let n = if rng.chance(1, 3) { *rng.pick(&[1024usize, 1025, 1056, 2048, 2100, if tier == "thorough" { 5000 } else { 1500 }]) }
                else if rng.chance(1, 2) { *rng.pick(&[0usize, 1, 31, 32, 33, 63, 64, 65, 1023]) } else { rng.below(200) };
        let a1 = rng.below(40);
        let a2 = rng.below(40);
        let pad1 = rng.below(10);
        let pad2 = rng.below(10);
        let r1 = rng.chance(1, 3);
        let r2 = rng.chance(1, 3);
        // dense differences now and then: long stretches in which every base differs (complement, constant shift, a sequence against
        // a homopolymer), at lengths past every internal batch of the block loop
        let dense = rng.chance(1, 5);
        let n = if dense { *rng.pick(&[2048usize, 2049, 2080, 2100, 3000, 4096, 4100]) } else { n };
        let core: Vec<u8> = if dense && rng.chance(1, 3) { vec![rng.below(4) as u8; n] } else { (0..n).map(|_| rng.below(4) as u8).collect() };
        let mut other = core.clone();
        if dense {
            let sh = rng.range(1, 3) as u8;
            let from = if rng.chance(1, 2) { 0 } else { rng.below(n / 2) };
            let to = if rng.chance(1, 2) { n } else { from + rng.below(n - from + 1) };
            for p in from..to { other[p] = (core[p] + sh) % 4; }
        }
        if n > 0 && !dense {
            let crit = [0usize, 31, 32, 1023, 1024, n - 1, n / 2];
            let nd = rng.below(5);
            for _ in 0..nd {
                let p = if rng.chance(2, 3) { *rng.pick(&crit) } else { rng.below(n) };
                if p < n { other[p] = (other[p] + rng.range(1, 3) as u8) % 4; }
            }
        }
        let rc = |v: &[u8]| -> Vec<u8> { v.iter().rev().map(|b| 3 - b).collect() };
        let emb = |rng: &mut Rng, w: &[u8], a: usize, pad: usize, r: bool| -> Vec<u8> {
            let mut v: Vec<u8> = (0..a).map(|_| rng.below(4) as u8).collect();
            if r { v.extend(rc(w)); } else { v.extend_from_slice(w); }
            for _ in 0..pad { v.push(rng.below(4) as u8); }
            v
        };
        if rng.chance(1, 6) {
            // two views of one and the same string: the same window in both orientations, or two windows
            let s = emb(rng, &core, a1, pad1 + 40, false);
            let (b2, q2) = if rng.chance(2, 3) { (a1, !r1) } else { (rng.below(a1 + pad1 + 41), rng.chance(1, 2)) };
            return format!("C15 ham {} {} {} {} {} {} {}", show_digits(&s), show_digits(&s), a1, r1 as u8, b2, q2 as u8, n);
        }
        let s1 = emb(rng, &core, a1, pad1, r1);
        let s2 = emb(rng, &other, a2, pad2, r2);
        return format!("C15 ham {} {} {} {} {} {} {}", show_digits(&s1), show_digits(&s2), a1, r1 as u8, a2, r2 as u8, n);
    }
    if rng.chance(1, 8) {
        // a sequence equal to its own reverse complement, viewed through symmetric windows and rc's: such views equal their rc views
        let m = rng.below(40);
        let half: Vec<u8> = (0..m).map(|_| rng.below(4) as u8).collect();
        let mut seq = half.clone();
        seq.extend(half.iter().rev().map(|b| 3 - b));
        let mut cur_len = seq.len();
        let mut ops = Vec::new();
        for _ in 0..rng.range(1, 5) {
            if rng.chance(1, 2) { ops.push("r".to_string()); } else {
                let a = rng.below(cur_len / 2 + 1);
                ops.push(format!("s{}-{}", a, cur_len - a));
                cur_len -= 2 * a;
            }
        }
        let (kt, k) = *rng.pick(&KTYPES);
        let pos = if cur_len >= k { rng.below(cur_len - k + 1) } else { 0 };
        return format!("C15 slice {} {} {} {}", show_digits(&seq), ops.join(","), kt, pos);
    }
    let len = if rng.chance(1, 10) { rng.range(256, 300) } else { crate::c14::boundary_len(rng) + rng.below(40) };
    let seq: Vec<u8> = (0..len).map(|_| rng.below(4) as u8).collect();
    let depth = rng.range(1, 7);
    let mut cur_len = len;
    let mut ops = Vec::new();
    for i in 0..depth {
        let bad = rng.chance(1, 60); // malformed stream: an interval outside the view
        match rng.below(6) {
            0 | 1 => ops.push("r".to_string()),
            2 => {
                let k = if bad { cur_len + 1 } else { rng.below(cur_len + 1) };
                ops.push(format!("p{}", k));
                cur_len = k.min(cur_len);
            }
            3 => {
                let k = if bad { cur_len + 1 } else { rng.below(cur_len + 1) };
                ops.push(format!("x{}", k));
                cur_len = k.min(cur_len);
            }
            _ => {
                let a = rng.below(cur_len + 1);
                let b = if bad { cur_len + 1 + rng.below(3) } else { a + rng.below(cur_len - a + 1) };
                // keep the early views large so that nesting stays interesting
                let (a, b) = if i == 0 && !bad && cur_len > 8 && rng.chance(1, 2) { (rng.below(4), cur_len - rng.below(4)) } else { (a, b) };
                ops.push(format!("s{}-{}", a, b));
                cur_len = b.saturating_sub(a).min(cur_len);
            }
        }
    }
    let (kt, k) = *rng.pick(&KTYPES);
    let pos = if cur_len >= k { rng.below(cur_len - k + 1) } else { 0 };
    format!("C15 slice {} {} {} {}", show_digits(&seq), ops.join(","), kt, pos)
}
