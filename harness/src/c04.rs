//! C04: sharded vs direct assembly; C06: strand symmetry / separation; C19: parallel vs serial index construction.
use crate::c01::{show_graph, table_from_reads, Spec};
use crate::c03::{all_edges, build_graph, dir_s, parse_dir, pipeline};
use crate::gr::*;
use crate::util::*;
use crate::with_graph_kmer;
use boomphf::hashmap::BoomHashMap2;
use debruijn::compression::{compress_graph, compress_kmers_with_hash};
use debruijn::dna_string::DnaString;
use debruijn::filter::{filter_kmers, remove_censored_exts_sharded, CountFilter};
use debruijn::graph::{BaseGraph, DebruijnGraph};
use debruijn::msp::msp_sequence;
use debruijn::{Exts, Kmer, Mer, Vmer};
use std::collections::{BTreeMap, HashMap};

macro_rules! with_p_type {
    ($p:expr, $f:ident, $K:ty, $($args:expr),*) => {
        match $p {
            2 => $f::<$K, debruijn::kmer::Kmer2>($($args),*),
            3 => $f::<$K, debruijn::kmer::Kmer3>($($args),*),
            4 => $f::<$K, debruijn::kmer::Kmer4>($($args),*),
            5 => $f::<$K, debruijn::kmer::Kmer5>($($args),*),
            6 => $f::<$K, debruijn::kmer::Kmer6>($($args),*),
            8 => $f::<$K, debruijn::kmer::Kmer8>($($args),*),
            _ => panic!("unsupported P"),
        }
    };
}

/// minimizer partition → per-shard filter (→ sharded prune) → per-shard compress → combine → finish → compress_graph
pub fn sharded<K: Kmer + Send + Sync, P: Kmer>(reads: &[Vec<u8>], perm: Option<&[usize]>, stranded: bool, thr: usize, prune: bool) -> (Vec<Vec<usize>>, DebruijnGraph<K, u32>) {
    let mut shards: BTreeMap<u32, Vec<(DnaString, Exts, u8)>> = BTreeMap::new();
    for r in reads {
        for (b, e, v) in msp_sequence::<P, DnaString>(K::k(), r, perm, !stranded) {
            shards.entry(b).or_default().push((v, e, 0u8));
        }
    }
    let spec = Spec { join_eq: false, reduce: 0 };
    let mut sigmas = Vec::new();
    let mut graphs: Vec<BaseGraph<K, u32>> = Vec::new();
    for seqs in shards.values() {
        let (m, all) = filter_kmers::<K, _, _, _, _>(seqs, &Box::new(CountFilter::new(thr)), stranded, prune, 4);
        let mut t: Vec<(K, (Exts, u32))> = m.iter().map(|(k, e, d)| (*k, (*e, *d as u32))).collect();
        t.sort_by_key(|x| x.0);
        if prune {
            remove_censored_exts_sharded(stranded, &mut t, &all);
        }
        let keys: Vec<K> = t.iter().map(|x| x.0).collect();
        let pos: HashMap<K, usize> = keys.iter().enumerate().map(|(i, k)| (*k, i)).collect();
        let index = BoomHashMap2::new(keys, t.iter().map(|x| (x.1).0).collect(), t.iter().map(|x| (x.1).1).collect());
        sigmas.push((0..index.len()).map(|i| pos[index.get_key(i).unwrap()]).collect());
        graphs.push(compress_kmers_with_hash(stranded, &spec, &index));
    }
    let combined = BaseGraph::combine(graphs.into_iter()).finish();
    (sigmas, compress_graph(stranded, &spec, combined, None))
}

fn sharded_kp<K: Kmer + Send + Sync, P: Kmer>(reads: &[Vec<u8>], perm: Option<&[usize]>, stranded: bool, thr: usize, prune: bool) -> String {
    let (sigmas, g) = sharded::<K, P>(reads, perm, stranded, thr, prune);
    let (dsigma, d) = pipeline::<K>(reads, stranded, thr);
    let sg: Vec<String> = sigmas.iter().map(|s| show_nat_list(s)).collect();
    format!("sigmas={}|final={}|dsigma={}|direct={}", if sg.is_empty() { "-".to_string() } else { sg.join(";") }, show_graph(&g.base), show_nat_list(&dsigma), show_graph(&d.base))
}

fn sharded_k<K: Kmer + Send + Sync>(p: usize, reads: &[Vec<u8>], perm: Option<&[usize]>, stranded: bool, thr: usize, prune: bool) -> String {
    with_p_type!(p, sharded_kp, K, reads, perm, stranded, thr, prune)
}

fn read_seqs(s: &str) -> Vec<Vec<u8>> {
    if s == "-" { vec![] } else { s.split(',').map(|r| digits(r.split(':').next().unwrap())).collect() }
}

/// canonical partition of a graph: every node as the sorted list of its canonical k-mers with its payload; nodes sorted
fn canon_partition<K: Kmer>(g: &DebruijnGraph<K, u32>, stranded: bool) -> Vec<(Vec<Vec<u8>>, u32)> {
    let k = K::k();
    let mut out: Vec<(Vec<Vec<u8>>, u32)> = (0..g.len()).map(|i| {
        let n = g.get_node(i);
        let s = n.sequence().bytes();
        let mut kms: Vec<Vec<u8>> = (0..s.len() + 1 - k).map(|j| { let w = s[j..j + k].to_vec(); let r = rc_of(&w); if !stranded && r < w { r } else { w } }).collect();
        kms.sort();
        (kms, *n.data())
    }).collect();
    out.sort();
    out
}

/// `bigrep <K> <P> <stranded> <thr> <unit> <reps> <seed>`: one read `flank unit^reps flank` whose repeat is longer than 2^16 bases
/// (one minimizer governs the whole run), a second read across one flank; sharded against direct assembly, implementation against
/// implementation - the statement of C04 itself
fn bigrep_kp<K: Kmer + Send + Sync, P: Kmer>(stranded: bool, thr: usize, unit: &[u8], reps: usize, seed: u64) -> String {
    let mut rng = Rng::new(seed);
    let mut r: Vec<u8> = (0..40).map(|_| rng.below(4) as u8).collect();
    for _ in 0..reps { r.extend_from_slice(unit); }
    let tail: Vec<u8> = (0..40).map(|_| rng.below(4) as u8).collect();
    r.extend_from_slice(&tail);
    let mut r2: Vec<u8> = unit.iter().cycle().take(2 * K::k()).copied().collect();
    r2.extend_from_slice(&tail);
    let reads = vec![r, r2];
    let (_, g) = sharded::<K, P>(&reads, None, stranded, thr, false);
    let (_, d) = pipeline::<K>(&reads, stranded, thr);
    let (a, b) = (canon_partition(&g, stranded), canon_partition(&d, stranded));
    if a == b { format!("same=1 nodes={} bases={}", a.len(), reads[0].len()) } else {
        let diff: Vec<String> = a.iter().filter(|x| !b.contains(x)).chain(b.iter().filter(|x| !a.contains(x))).take(4)
            .map(|(kms, dat)| format!("{}x{}:{}", show_digits(&kms[0]), kms.len(), dat)).collect();
        format!("same=0 sharded-nodes={} direct-nodes={} differing={}", a.len(), b.len(), diff.join(","))
    }
}

fn bigrep_k<K: Kmer + Send + Sync>(p: usize, stranded: bool, thr: usize, unit: &[u8], reps: usize, seed: u64) -> String {
    with_p_type!(p, bigrep_kp, K, stranded, thr, unit, reps, seed)
}

/// `sharded <K> <P> <perm> <stranded> <thr> <prune> <reads>`
pub fn exec04(a: &[&str]) -> String {
    if a[0] == "bigrep" {
        let k: usize = a[1].parse().unwrap();
        let unit = digits(a[5]);
        return with_graph_kmer!(k, bigrep_k, a[2].parse().unwrap(), a[3] == "1", a[4].parse().unwrap(), &unit, a[6].parse().unwrap(), a[7].parse().unwrap());
    }
    let k: usize = a[1].parse().unwrap();
    let p: usize = a[2].parse().unwrap();
    let perm: Option<Vec<usize>> = if a[3] == "default" { None } else { Some(nat_list(a[3])) };
    let reads = read_seqs(a[7]);
    with_graph_kmer!(k, sharded_k, p, &reads, perm.as_deref(), a[4] == "1", a[5].parse().unwrap(), a[6] == "1")
}

fn rcsym_k<K: Kmer + Send + Sync>(reads0: &[Vec<u8>], reads1: &[Vec<u8>], stranded: bool, thr: usize) -> String {
    let mut out: Vec<String> = Vec::new();
    let spec = Spec { join_eq: false, reduce: 0 };
    for (i, reads) in [reads0, reads1].iter().enumerate() {
        let labels = vec![0u8; reads.len()];
        let t: Vec<(K, (Exts, u32))> = table_from_reads(reads, &labels, stranded, thr, false, false);
        out.push(format!("t{}={}", i, crate::c01::show_table(&t)));
    }
    for (i, reads) in [reads0, reads1].iter().enumerate() {
        let (_, d) = pipeline::<K>(reads, stranded, thr);
        out.push(format!("d{}={}", i, show_graph(&d.base)));
    }
    for (i, reads) in [reads0, reads1].iter().enumerate() {
        let p = if K::k() > 6 { 4 } else { 2 };
        let (_, g) = if p == 4 { sharded::<K, debruijn::kmer::Kmer4>(reads, None, stranded, thr, false) } else { sharded::<K, debruijn::kmer::Kmer2>(reads, None, stranded, thr, false) };
        out.push(format!("s{}={}", i, show_graph(&g.base)));
    }
    for (i, reads) in [reads0, reads1].iter().enumerate() {
        let (_, d) = pipeline::<K>(reads, stranded, thr);
        let r = compress_graph(stranded, &spec, d, None);
        out.push(format!("r{}={}", i, show_graph(&r.base)));
    }
    out.join("|")
}

/// `rcsym <K> <stranded> <thr> <mask> <reads>`
pub fn exec06(a: &[&str]) -> String {
    let k: usize = a[1].parse().unwrap();
    let mask = nat_list(a[4]);
    let reads0 = read_seqs(a[5]);
    let reads1: Vec<Vec<u8>> = reads0.iter().enumerate().map(|(i, r)| if mask.contains(&i) { rc_of(r) } else { r.clone() }).collect();
    // the strand symmetry must hold for every number of bucket passes of filter_kmers: pick one deterministically from the
    // request (1, 2, 3, 5 or 17 passes; the model is pass-independent by C05) through the bytes-per-unit hook
    let total: usize = reads0.iter().map(|r| r.len().saturating_sub(k - 1)).sum();
    let target = [1usize, 1, 2, 3, 5, 17][(total + reads0.len()) % 6];
    if target > 1 && total > 0 {
        debruijn::verif_hooks::set_bytes_per_unit((4 * total / target).max(1));
    }
    let r = std::panic::catch_unwind(std::panic::AssertUnwindSafe(|| {
        with_graph_kmer!(k, rcsym_k, &reads0, &reads1, a[2] == "1", a[3].parse().unwrap())
    }));
    debruijn::verif_hooks::set_bytes_per_unit(0);
    match r { Ok(s) => s, Err(e) => std::panic::resume_unwind(e) }
}

fn queries<K: Kmer>(g: &DebruijnGraph<K, u32>, probes: &str) -> String {
    let links: Vec<String> = if probes == "-" { vec![] } else {
        probes.split(';').map(|t| { let (km, d) = t.split_once('@').unwrap();
            match g.find_link(K::from_bytes(&digits(km)), parse_dir(d)) { Some((i, d, f)) => format!("{}{}{}", i, dir_s(d), if f { "f" } else { "n" }), None => "none".into() } }).collect()
    };
    format!("{}#{}", all_edges(g), if links.is_empty() { "-".to_string() } else { links.join(",") })
}

fn base_of<K: Kmer>(stranded: bool, nodes: &str) -> BaseGraph<K, u32> {
    let mut g: BaseGraph<K, u32> = BaseGraph::new(stranded);
    if nodes != "-" {
        for t in nodes.split(',') {
            let f: Vec<&str> = t.split(':').collect();
            g.add(digits(f[0]), Exts::new(u8::from_str_radix(f[1], 16).unwrap()), if f[2] == "_" { 0 } else { f[2].parse().unwrap() });
        }
    }
    g
}

fn finish_k<K: Kmer + Send + Sync>(a: &[&str]) -> String {
    let stranded = a[2] == "1";
    let threads: usize = a[3].parse().unwrap();
    let gs = base_of::<K>(stranded, a[4]).finish_serial();
    let serial = queries(&gs, a[5]);
    // the slot layout of the four index maps as they really are (hook `verif_index_layout`): of the serially built graph
    // and of the parallel run that differs most from it (the last one whose slot order is not the serial one, else the last)
    let lay_s = layout(&gs);
    let pool = rayon::ThreadPoolBuilder::new().num_threads(threads).build().unwrap();
    let runs = 5;
    let mut same = true;
    let mut par = String::new();
    let mut lay_p = String::new();
    for _ in 0..runs {
        let (q, l) = pool.install(|| { let g = base_of::<K>(stranded, a[4]).finish(); (queries(&g, a[5]), layout(&g)) });
        if q != serial { same = false; }
        par = q;
        if lay_p.is_empty() || l != lay_s { lay_p = l; }
    }
    format!("serial={}|parallel={}|runs={}|same={}|layout={}/{}", serial, par, runs, same as u8, lay_s, lay_p)
}

/// `L-map/R-map`, each `key=value=slot-reported-by-get_key_id,...` in slot order (`-` if empty, `x` for a key not found)
#[cfg(not(feature = "layout"))]
fn layout<K: Kmer>(_g: &DebruijnGraph<K, u32>) -> String { "unavailable".to_string() }
#[cfg(not(feature = "layout"))]
fn layout_ok_big<K: Kmer>(_g: &DebruijnGraph<K, u32>) -> bool { true }

#[cfg(feature = "layout")]
fn layout<K: Kmer>(g: &DebruijnGraph<K, u32>) -> String {
    [debruijn::Dir::Left, debruijn::Dir::Right].iter().map(|d| {
        let v = g.verif_index_layout(*d);
        if v.is_empty() { "-".to_string() } else {
            v.iter().map(|(k, val, id)| format!("{}={}={}", show_digits(&k.iter().collect::<Vec<u8>>()), val, match id { Some(i) => i.to_string(), None => "x".into() })).collect::<Vec<_>>().join(",")
        }
    }).collect::<Vec<_>>().join("/")
}

/// the two predicates of the C19b theorem evaluated in Rust on one map of a large graph: every slot's key is the terminal
/// k-mer of the node its value names and is reported at that slot, and every node is named exactly once
#[cfg(feature = "layout")]
fn layout_ok_big<K: Kmer>(g: &DebruijnGraph<K, u32>) -> bool {
    let k = K::k();
    for d in [debruijn::Dir::Left, debruijn::Dir::Right] {
        let v = g.verif_index_layout(d);
        if v.len() != g.len() { return false; }
        let mut seen = vec![false; g.len()];
        for (slot, (key, val, id)) in v.iter().enumerate() {
            let i = *val as usize;
            if i >= g.len() || seen[i] || *id != Some(slot) { return false; }
            seen[i] = true;
            let s = g.get_node(i).sequence();
            let want: K = match d { debruijn::Dir::Left => s.get_kmer(0), debruijn::Dir::Right => s.get_kmer(s.len() - k) };
            if want != *key { return false; }
        }
    }
    true
}

/// big graphs: implementation against implementation, every node / side and absent k-mers
fn big_k<K: Kmer + Send + Sync>(seed: u64, n_nodes: usize, threads: usize, reps: usize) -> String {
    let mut rng = Rng::new(seed);
    let k = K::k();
    // long random reads give about one node per read after compression; build nodes directly: distinct random sequences
    let mut bg: BaseGraph<K, u32> = BaseGraph::new(false);
    let mut seen = std::collections::HashSet::new();
    let mut seqs: Vec<Vec<u8>> = Vec::new();
    while seqs.len() < n_nodes {
        let l = k + rng.below(8);
        let s: Vec<u8> = (0..l).map(|_| rng.below(4) as u8).collect();
        let a = s[..k].to_vec(); let b = s[l - k..].to_vec();
        if seen.contains(&a) || seen.contains(&b) || a == b { continue; }
        seen.insert(a); seen.insert(b);
        seqs.push(s);
    }
    for (i, s) in seqs.iter().enumerate() {
        // extensions pointing at the next node's start / previous node's end where they overlap by chance are irrelevant:
        // give every node all extensions so that every edge lookup is exercised
        bg.add(s.clone(), Exts::new(0xff), i as u32);
    }
    let serial = bg.clone().finish_serial();
    let probes: Vec<(K, debruijn::Dir)> = (0..10000).map(|_| { let v: Vec<u8> = (0..k).map(|_| rng.below(4) as u8).collect(); (K::from_bytes(&v), if rng.chance(1, 2) { debruijn::Dir::Left } else { debruijn::Dir::Right }) }).collect();
    let fp = |g: &DebruijnGraph<K, u32>| -> u64 {
        // order-sensitive fingerprint of every edge list and every probe answer
        let mut h: u64 = 0xcbf29ce484222325;
        let mut mix = |x: u64| { h ^= x; h = h.wrapping_mul(0x100000001b3); };
        for i in 0..g.len() {
            let n = g.get_node(i);
            for (side, es) in [(0u64, n.l_edges()), (1u64, n.r_edges())] {
                mix(side);
                for (t, d, f) in es { mix(t as u64); mix(matches!(d, debruijn::Dir::Left) as u64); mix(f as u64); }
            }
        }
        for (km, d) in &probes {
            match g.find_link(*km, *d) { Some((t, dd, f)) => { mix(t as u64 + 7); mix(matches!(dd, debruijn::Dir::Left) as u64); mix(f as u64); } None => mix(3) }
        }
        // lookups for PRESENT k-mers: both terminal k-mers of every node must be found, as ends of that very node
        for i in 0..g.len() {
            let s = g.get_node(i).sequence();
            let first: K = s.get_kmer(0);
            let last: K = s.get_kmer(s.len() - k);
            for (km, d) in [(first, debruijn::Dir::Right), (last, debruijn::Dir::Left)] {
                match g.find_link(km, d) { Some((t, dd, f)) => { mix(t as u64 + 11); mix(matches!(dd, debruijn::Dir::Left) as u64); mix(f as u64); } None => mix(5) }
            }
        }
        h
    };
    let want = fp(&serial);
    if !layout_ok_big(&serial) { return "same=0 layout-not-exact serial".to_string(); }
    let pool = rayon::ThreadPoolBuilder::new().num_threads(threads).build().unwrap();
    for r in 0..reps {
        let (got, lay) = pool.install(|| { let g = bg.clone().finish(); (fp(&g), layout_ok_big(&g)) });
        if got != want { return format!("same=0 rep={} threads={}", r, threads); }
        if !lay { return format!("same=0 layout-not-exact rep={} threads={}", r, threads); }
    }
    format!("same=1 nodes={} queries={} threads={} reps={}", n_nodes, 4 * n_nodes + probes.len(), threads, reps)
}

pub fn exec19(a: &[&str]) -> String {
    match a[0] {
        "finish" => { let k: usize = a[1].parse().unwrap(); with_graph_kmer!(k, finish_k, a) }
        "big" => { let k: usize = a[1].parse().unwrap(); with_graph_kmer!(k, big_k, a[2].parse().unwrap(), a[3].parse().unwrap(), a[4].parse().unwrap(), a[5].parse().unwrap()) }
        _ => panic!("bad request"),
    }
}

pub fn gen04(rng: &mut Rng, tier: &str) -> String {
    if rng.chance(1, if tier == "thorough" { 300 } else { 500 }) {
        // a tandem repeat / homopolymer longer than 2^16 bases: one minimizer governs more bases than a 16-bit length can tell
        let (k, p) = *rng.pick(&[(12usize, 4usize), (16, 5), (31, 6), (32, 8)]);
        let ul = 1 + rng.below(3);
        let unit: Vec<u8> = (0..ul).map(|_| rng.below(4) as u8).collect();
        let total = *rng.pick(&[65536usize, 65600, 70000, 131100]);
        return format!("C04 bigrep {} {} {} {} {} {} {}", k, p, rng.below(2), *rng.pick(&[1usize, 1, 2]), show_digits(&unit), total / ul + 1, rng.next() % 100000);
    }
    let (k, p) = if tier == "thorough" { *rng.pick(&[(5usize, 2usize), (6, 3), (8, 3), (16, 5), (32, 6), (31, 6), (12, 4), (48, 8), (4, 2), (6, 2)]) }
                 else { *rng.pick(&[(5usize, 2usize), (5, 2), (6, 3), (6, 2), (8, 3), (16, 5), (4, 2)]) };
    let reads = gen_reads(rng, k, if tier == "thorough" { 16 } else { 6 }, if tier == "thorough" { 200 } else { 60 });
    let perm = if p <= 4 && rng.chance(1, 2) {
        let n = 1usize << (2 * p);
        let mut v: Vec<usize> = (0..n).collect();
        for i in (1..n).rev() { let j = rng.below(i + 1); v.swap(i, j); }
        show_nat_list(&v)
    } else { "default".to_string() };
    format!("C04 sharded {} {} {} {} {} {} {}", k, p, perm, rng.chance(1, 3) as u8, *rng.pick(&[1usize, 1, 2, 3]), rng.chance(1, 2) as u8, show_reads(&reads, rng, false))
}

pub fn gen06(rng: &mut Rng, tier: &str) -> String {
    let k = *rng.pick(&[4usize, 5, 5, 6, 6, 8, 12, 16, 33, 41]);
    let mut reads = gen_reads(rng, k, if tier == "thorough" { 10 } else { 5 }, 60);
    if k % 2 == 1 && rng.chance(1, 3) {
        // odd K: a read through a k-mer `X m rc(X)` (equal to its reverse complement everywhere but in the middle base)
        let h = k / 2 + rng.below(4);
        let x: Vec<u8> = (0..h).map(|_| rng.below(4) as u8).collect();
        let mut r = x.clone(); r.push(rng.below(4) as u8); r.extend(rc_of(&x));
        reads.push(r);
    }
    let mask: Vec<usize> = (0..reads.len()).filter(|_| rng.chance(1, 2)).collect();
    format!("C06 rcsym {} {} {} {} {}", k, rng.chance(1, 3) as u8, *rng.pick(&[1usize, 1, 2]), show_nat_list(&mask), show_reads(&reads, rng, false))
}

fn gen19_k<K: Kmer + Send + Sync>(rng: &mut Rng, k: usize, stranded: bool) -> String {
    let reads = gen_reads(rng, k, 6, 60);
    let (_, g) = pipeline::<K>(&reads, stranded, 1);
    let n = g.len();
    let mut probes: Vec<String> = Vec::new();
    for _ in 0..8 {
        let d = if rng.chance(1, 2) { "L" } else { "R" };
        let km: Vec<u8> = if n > 0 && rng.chance(2, 3) {
            let s = g.base.sequences.get(rng.below(n)).bytes();
            let p = if rng.chance(3, 4) { if rng.chance(1, 2) { 0 } else { s.len() - k } } else { rng.below(s.len() - k + 1) };
            let w = s[p..p + k].to_vec();
            if rng.chance(1, 3) { rc_of(&w) } else { w }
        } else { (0..k).map(|_| rng.below(4) as u8).collect() };
        probes.push(format!("{}@{}", show_digits(&km), d));
    }
    let mut nodes = crate::c03::nodes_with_ids(&g);
    if k % 2 == 0 && rng.chance(1, 3) {
        // hand-built additions around a k-mer P that is its own reverse complement: a node longer than K that starts or
        // ends with P, and nodes whose extension towards P only the lookup of the reverse complement can resolve.
        // (first k-mers stay distinct, last k-mers stay distinct: the two index maps need distinct keys)
        let mut seqs: Vec<Vec<u8>> = (0..n).map(|i| g.base.sequences.get(i).bytes()).collect();
        let mut items: Vec<String> = if n == 0 { vec![] } else { nodes.split(',').map(|x| x.to_string()).collect() };
        let half: Vec<u8> = (0..k / 2).map(|_| rng.below(4) as u8).collect();
        let mut p = half.clone();
        p.extend(rc_of(&half));
        let rnd = |rng: &mut Rng, l: usize| -> Vec<u8> { (0..l).map(|_| rng.below(4) as u8).collect() };
        let mut cands: Vec<(Vec<u8>, u8)> = Vec::new();
        let t = rng.range(1, 6);
        if rng.chance(1, 2) { let mut v = p.clone(); v.extend(rnd(rng, t)); cands.push((v, 0xff)); }   // P + tail
        else { let mut v = rnd(rng, t); v.extend(p.iter()); cands.push((v, 0xff)); }                   // head + P
        // … x P[..k-1] with the right extension P[k-1]; and P[1..] y … with the left extension P[0]
        { let l = rng.range(1, 4); let mut v = rnd(rng, l); v.extend(p[..k - 1].iter()); cands.push((v, 16u8 << p[k - 1])); }
        { let l = rng.range(1, 4); let mut v = p[1..].to_vec(); v.extend(rnd(rng, l)); cands.push((v, 1u8 << p[0])); }
        for (v, e) in cands {
            if v.len() >= k && seqs.iter().all(|t| t[..k] != v[..k] && t[t.len() - k..] != v[v.len() - k..]) {
                items.push(format!("{}:{:02x}:{}", show_digits(&v), e, items.len()));
                seqs.push(v);
            }
        }
        for d in ["L", "R"] { probes.push(format!("{}@{}", show_digits(&p), d)); }
        for sq in seqs.iter().rev().take(3) {
            probes.push(format!("{}@{}", show_digits(&sq[..k]), if rng.chance(1, 2) { "L" } else { "R" }));
            probes.push(format!("{}@{}", show_digits(&sq[sq.len() - k..]), if rng.chance(1, 2) { "L" } else { "R" }));
        }
        if !items.is_empty() { nodes = items.join(","); }
    }
    if k > 32 && rng.chance(1, 3) {
        // wide k-mers (two storage words): two further nodes whose first (or last) k-mers are twins - `P M Q` and `Q M P` with
        // |P| = |Q| = K - 32, the part of the k-mer that lies in the upper word - so that their words are permutations of each other's pieces
        let mut seqs: Vec<Vec<u8>> = if nodes == "-" { vec![] } else { nodes.split(',').map(|x| digits(x.split(':').next().unwrap())).collect() };
        let mut items: Vec<String> = if nodes == "-" { vec![] } else { nodes.split(',').map(|x| x.to_string()).collect() };
        let m = k - 32;
        let rnd = |rng: &mut Rng, l: usize| -> Vec<u8> { (0..l).map(|_| rng.below(4) as u8).collect() };
        let (p, mid, q) = (rnd(rng, m), rnd(rng, k - 2 * m), rnd(rng, m));
        let a: Vec<u8> = [p.clone(), mid.clone(), q.clone()].concat();
        let b: Vec<u8> = [q, mid, p].concat();
        let at_start = rng.chance(1, 2);
        for km in [a, b] {
            let extra = rng.range(0, 5);
            let t = rnd(rng, extra);
            let v: Vec<u8> = if at_start { [km.clone(), t].concat() } else { [t, km.clone()].concat() };
            if seqs.iter().all(|s| s[..k] != v[..k] && s[s.len() - k..] != v[v.len() - k..]) {
                items.push(format!("{}:{:02x}:{}", show_digits(&v), rng.below(256), items.len()));
                probes.push(format!("{}@{}", show_digits(&km), if rng.chance(1, 2) { "L" } else { "R" }));
                seqs.push(v);
            }
        }
        if !items.is_empty() { nodes = items.join(","); }
    }
    format!("C19 finish {} {} {} {} {}", k, stranded as u8, *rng.pick(&[1usize, 2, 3, 4, 8, 16]), nodes, probes.join(";"))
}

pub fn gen19(rng: &mut Rng, tier: &str) -> String {
    if rng.chance(1, if tier == "thorough" { 60 } else { 400 }) {
        // a graph large enough for the parallel builder to split work
        let n = if tier == "thorough" { *rng.pick(&[100000usize, 300000]) } else { 100000 };
        return format!("C19 big 16 {} {} {} {}", rng.next() % 1000000, n, *rng.pick(&[2usize, 4, 8, 16]), if tier == "thorough" { 5 } else { 2 });
    }
    let k = pick_k(rng, tier);
    let stranded = rng.chance(1, 3);
    with_graph_kmer!(k, gen19_k, rng, k, stranded)
}

#[allow(dead_code)]
fn unused() { let _ = build_graph::<debruijn::kmer::Kmer4>; }
