//! C16: ASCII ingestion: from_acgt_bytes on both paths (hook: forced scalar), raw AVX2 kernels (hook wrappers),
//! from_dna_string, from_dna_only_string, from_acgt_bytes_hashn.
use crate::c14::{show_t, tohex, unhex};
use crate::util::*;
use debruijn::dna_string::DnaString;
use debruijn::verif_hooks;
use debruijn::Mer;

fn txt(v: &[u8]) -> String {
    if v.is_empty() { "-".into() } else { String::from_utf8_lossy(v).to_string() }
}

fn bases(d: &DnaString) -> Vec<u8> {
    (0..d.len()).map(|i| d.get(i)).collect()
}

pub fn exec(a: &[&str]) -> String {
    match a[0] {
        "acgt" => {
            let bytes = unhex(a[2]);
            verif_hooks::set_force_scalar(a[1] == "scalar");
            let d = DnaString::from_acgt_bytes(&bytes);
            verif_hooks::set_force_scalar(false);
            format!("{}|{}|{}", show_t(&d), txt(&d.to_ascii_vec()), txt(d.to_string().as_bytes()))
        }
        "kernel" => {
            let bytes = unhex(a[2]);
            let mut arr = [0u8; 32];
            arr.copy_from_slice(&bytes);
            match a[1] {
                "convert" => match verif_hooks::convert_bases(&arr) {
                    Some((lanes, ok)) => format!("{}:{}", tohex(&lanes), ok as u8),
                    None => "unavailable".into(),
                },
                "pack" => match verif_hooks::pack_32_bases(&arr) {
                    Some(v) => format!("{:x}", v),
                    None => "unavailable".into(),
                },
                _ => panic!("bad kernel"),
            }
        }
        "str" => {
            let bytes = unhex(a[1]);
            // the bytes of the request are code points (0..255): characters beyond ASCII are two bytes of UTF-8 but one character
            let d = DnaString::from_dna_string(&bytes.iter().map(|b| *b as char).collect::<String>());
            format!("{}|{}", show_t(&d), txt(d.to_string().as_bytes()))
        }
        "only" => {
            let bytes = unhex(a[1]);
            let v = DnaString::from_dna_only_string(&bytes.iter().map(|b| *b as char).collect::<String>());
            if v.is_empty() { "-".into() } else { v.iter().map(|d| show_digits(&bases(d))).collect::<Vec<_>>().join(",") }
        }
        "hashn" => {
            let name = unhex(a[3]);
            let d1 = DnaString::from_acgt_bytes_hashn(&unhex(a[1]), &name);
            let d2 = DnaString::from_acgt_bytes_hashn(&unhex(a[2]), &name);
            format!("{}:{}", show_digits(&bases(&d1)), show_digits(&bases(&d2)))
        }
        _ => panic!("bad request"),
    }
}

fn ascii_mix(rng: &mut Rng, n: usize, ascii_only: bool) -> Vec<u8> {
    (0..n)
        .map(|_| {
            if rng.chance(3, 5) { *rng.pick(b"ACGTacgt") }
            else if ascii_only { rng.below(128) as u8 }
            else { rng.below(256) as u8 }
        })
        .collect()
}

fn len_choice(rng: &mut Rng) -> usize {
    match rng.below(10) {
        0 | 1 => *rng.pick(&[0usize, 1, 31, 32, 33, 63, 64, 65, 95, 96, 97, 128, 130]),
        // long texts: renderings and block loops have their own internal batch sizes
        2 if rng.chance(1, 4) => *rng.pick(&[255usize, 256, 257, 512, 768, 1023, 1024, 1025, 1100, 2048, 2049]),
        3 if rng.chance(1, 12) => *rng.pick(&[4095usize, 4096, 4097, 4100, 4127, 4128, 8191, 8192, 8193, 8200, 16383, 16385, 16400, 32769, 32790]),
        _ => rng.below(131),
    }
}

pub fn gen(rng: &mut Rng, _tier: &str) -> String {
    match rng.below(12) {
        0 | 1 | 2 | 3 => {
            let n = len_choice(rng);
            let b = ascii_mix(rng, n, false);
            format!("C16 acgt {} {}", if rng.chance(1, 2) { "auto" } else { "scalar" }, tohex(&b))
        }
        4 | 5 => {
            // a valid block with one byte perturbed to an arbitrary value at an arbitrary lane
            let mut b: Vec<u8> = (0..32).map(|_| *rng.pick(b"ACGTacgt")).collect();
            let k = rng.below(3);
            for _ in 0..k {
                let lane = rng.below(32);
                b[lane] = rng.below(256) as u8;
            }
            let tail = rng.below(40);
            let mut full = b.clone();
            full.extend(ascii_mix(rng, tail, false));
            if rng.chance(1, 2) { format!("C16 kernel convert {}", tohex(&b)) } else { format!("C16 acgt auto {}", tohex(&full)) }
        }
        6 => {
            let b: Vec<u8> = (0..32).map(|_| rng.below(256) as u8).collect();
            format!("C16 kernel convert {}", tohex(&b))
        }
        7 => {
            // pack: in-range lanes mostly, arbitrary bytes sometimes (validates the transcription beyond the precondition)
            let b: Vec<u8> = if rng.chance(3, 4) { (0..32).map(|_| rng.below(4) as u8).collect() } else { (0..32).map(|_| rng.below(256) as u8).collect() };
            format!("C16 kernel pack {}", tohex(&b))
        }
        8 => { let n = len_choice(rng); let ao = rng.chance(1, 2); format!("C16 str {}", tohex(&ascii_mix(rng, n, ao))) }
        9 => {
            if rng.chance(1, 2) {
                // runs of bases with lengths on both sides of the 32-base block boundaries, one to three separators between
                let mut b: Vec<u8> = Vec::new();
                for _ in 0..rng.range(1, 4) {
                    let run = match rng.below(3) { 0 => *rng.pick(&[0usize, 1, 31, 32, 33, 63, 64, 65, 96]), 1 => 32 * rng.range(1, 3), _ => rng.below(70) };
                    b.extend((0..run).map(|_| *rng.pick(b"ACGTacgt")));
                    if rng.chance(4, 5) { b.extend((0..rng.range(1, 3)).map(|_| *rng.pick(b"NnXx-. \n0Uu"))); }
                }
                format!("C16 only {}", tohex(&b))
            } else { let n = len_choice(rng); let ao = rng.chance(1, 2); format!("C16 only {}", tohex(&ascii_mix(rng, n, ao))) }
        }
        _ => {
            let n = rng.below(60);
            let mut b1 = ascii_mix(rng, n, false);
            if rng.chance(1, 3) {
                // a gap: a run of 30..100 non-ACGT bytes somewhere in the read (whole 32-base blocks without a valid base)
                let at = rng.below(b1.len() + 1);
                let run: Vec<u8> = (0..rng.range(30, 100)).map(|_| *rng.pick(b"NNNNn-X")).collect();
                b1.splice(at..at, run);
            }
            // second string: same length, other ACGT letters, non-ACGT at overlapping and new positions
            let b2: Vec<u8> = b1.iter().map(|c| if rng.chance(1, 3) { rng.below(256) as u8 } else if rng.chance(1, 2) { *rng.pick(b"ACGTacgt") } else { *c }).collect();
            let nl = rng.below(12);
            let name: Vec<u8> = (0..nl).map(|_| rng.below(256) as u8).collect();
            format!("C16 hashn {} {} {}", tohex(&b1), tohex(&b2), tohex(&name))
        }
    }
}
