//! C14: operation histories on DnaString (raw storage observed through serde_json) and PackedDnaStringSet.
use crate::util::*;
use debruijn::dna_string::{ndiffs, DnaString, PackedDnaStringSet};
use debruijn::Mer;
use std::collections::hash_map::DefaultHasher;
use std::hash::{Hash, Hasher};

pub fn show_t(d: &DnaString) -> String {
    let v: serde_json::Value = serde_json::to_value(d).unwrap();
    let blks: Vec<String> = v["storage"].as_array().unwrap().iter().map(|b| format!("{:x}", b.as_u64().unwrap())).collect();
    format!("{}:{}", v["len"].as_u64().unwrap(), if blks.is_empty() { "-".to_string() } else { blks.join(".") })
}

pub fn unhex(s: &str) -> Vec<u8> {
    if s == "-" {
        return vec![];
    }
    (0..s.len() / 2).map(|i| u8::from_str_radix(&s[2 * i..2 * i + 2], 16).unwrap()).collect()
}

pub fn tohex(b: &[u8]) -> String {
    if b.is_empty() {
        return "-".into();
    }
    b.iter().map(|x| format!("{:02x}", x)).collect()
}

fn h<K: Hash>(k: &K) -> u64 {
    let mut s = DefaultHasher::new();
    k.hash(&mut s);
    s.finish()
}

fn ord(o: std::cmp::Ordering) -> &'static str {
    match o {
        std::cmp::Ordering::Less => "lt",
        std::cmp::Ordering::Greater => "gt",
        std::cmp::Ordering::Equal => "eq",
    }
}

fn txt(v: &[u8]) -> String {
    if v.is_empty() {
        "-".into()
    } else {
        String::from_utf8_lossy(v).to_string()
    }
}

pub fn exec(a: &[&str]) -> String {
    match a[0] {
        "hist" => {
            let mut d = DnaString::new();
            let mut tr = Vec::new();
            for t in a[1].split(';') {
                let f: Vec<&str> = t.split('.').collect();
                match f[0] {
                    "push" => d.push(f[1].parse().unwrap()),
                    "ext" => d.extend(digits(f[1]).into_iter()),
                    "pb" => d.push_bytes(&unhex(f[1]), f[2].parse().unwrap()),
                    "set" => d.set_mut(f[1].parse().unwrap(), f[2].parse().unwrap()),
                    "clear" => d.clear(),
                    "blank" => d = DnaString::blank(f[1].parse().unwrap()),
                    "own" => { let s = d.slice(f[1].parse().unwrap(), f[2].parse().unwrap()); d = if f[3] == "1" { s.rc().to_owned() } else { s.to_owned() }; }
                    "fb" => d = DnaString::from_bytes(&digits(f[1])),
                    "fa" => d = DnaString::from_acgt_bytes(&unhex(f[1])),
                    "fs" => d = DnaString::from_dna_string(&unhex(f[1]).iter().map(|b| *b as char).collect::<String>()),   // the bytes are code points (0..255)
                    _ => panic!("bad op"),
                }
                tr.push(show_t(&d));
            }
            let bytes = d.to_bytes();
            let canon = DnaString::from_bytes(&bytes);
            // `other`: literal bases, `P<n>` = the final string minus its last n bases, `X<bases>` = the final string extended
            let oth_bases: Vec<u8> = if let Some(n) = a[2].strip_prefix('P') {
                let n: usize = n.parse().unwrap();
                bytes[..bytes.len().saturating_sub(n)].to_vec()
            } else if let Some(x) = a[2].strip_prefix('X') {
                let mut v = bytes.clone();
                v.extend(digits(x));
                v
            } else {
                digits(a[2])
            };
            let oth = DnaString::from_bytes(&oth_bases);
            let nd = if d.len() == oth.len() { ndiffs(&d, &oth).to_string() } else { "-".into() };
            // the iterator through its adaptors: count, nth to the last base, skip, step_by, last
            let n = d.len();
            let ob = |o: Option<u8>| o.map(|x| x.to_string()).unwrap_or("-".into());
            let it = format!("{}:{}:{}:{}:{}:{}", d.iter().count(), ob(if n > 0 { d.iter().nth(n - 1) } else { d.iter().nth(0) }),
                show_digits(&d.iter().skip(n / 2).collect::<Vec<u8>>()), show_digits(&d.iter().step_by(3).collect::<Vec<u8>>()),
                ob(d.iter().last()), ob(d.iter().nth(n)));
            // `Debug` renders the letters like `Display`; `for b in &d` is the same iteration
            let dbg_ok = format!("{:?}", d) == d.to_string();
            let into_ok = (&d).into_iter().collect::<Vec<u8>>() == bytes;
            let it = format!("{}:{}:{}:{}", it, dbg_ok as u8, into_ok as u8, stateful(|| d.iter(), |b| b.to_string()));
            format!(
                "{}|bytes={} ascii={} disp={} rev={} rc={} eqc={} hashc={} cmpc={} cmpo={} eqo={} nd={} it={}",
                tr.join(";"),
                show_digits(&bytes),
                txt(&d.to_ascii_vec()),
                txt(d.to_string().as_bytes()),
                show_digits(&d.reverse().to_bytes()),
                show_digits(&d.rc().to_bytes()),
                (d == canon) as u8,
                (h(&d) == h(&canon)) as u8,
                ord(d.cmp(&canon)),
                ord(d.cmp(&oth)),
                (d == oth) as u8,
                nd,
                it
            )
        }
        "pset" => {
            let mut ps = PackedDnaStringSet::new();
            let seqs: Vec<Vec<u8>> = a[1].split(',').map(digits).collect();
            for s in &seqs {
                ps.add(s.iter());
            }
            (0..seqs.len()).map(|i| show_digits(&ps.get(i).bytes())).collect::<Vec<_>>().join(",")
        }
        _ => panic!("bad request"),
    }
}

fn rand_bases(rng: &mut Rng, n: usize) -> Vec<u8> {
    (0..n).map(|_| rng.below(4) as u8).collect()
}

/// lengths chosen to hit block boundaries
pub fn boundary_len(rng: &mut Rng) -> usize {
    match rng.below(6) {
        0 => *rng.pick(&[0usize, 1, 31, 32, 33, 63, 64, 65, 95, 96, 97]),
        1 => rng.below(5),
        _ => rng.below(80),
    }
}

pub fn gen(rng: &mut Rng, _tier: &str) -> String {
    if rng.chance(1, 12) {
        let n = rng.range(1, 6);
        let seqs: Vec<String> = (0..n).map(|_| { let l = boundary_len(rng); show_digits(&rand_bases(rng, l)) }).collect();
        return format!("C14 pset {}", seqs.join(","));
    }
    let nops = rng.range(1, 25);
    let mut len = 0usize; // track the length so that `set` stays in range
    let mut ops: Vec<String> = Vec::new();
    if rng.chance(1, 15) {
        // a long string first: renderings, iteration and comparison loops have their own internal batch sizes
        let n = *rng.pick(&[255usize, 256, 257, 512, 1023, 1024, 1025, 1100, 2048, 2049, 4100]);
        ops.push(format!("fb.{}", show_digits(&rand_bases(rng, n))));
        len = n;
        if rng.chance(1, 2) {
            // ... and an owned copy of a long window of it (block-aligned start, end inside a block) that the history then grows
            let a = 32 * rng.below(3);
            let lo = 180usize.min(n - a);
            let b = (a + lo + rng.below(n - a - lo + 1)).min(n);
            ops.push(format!("own.{}.{}.{}", a, b, rng.chance(1, 5) as u8));
            len = b - a;
        }
    }
    for _ in 0..nops {
        match rng.below(14) {
            0 | 1 | 2 => {
                ops.push(format!("push.{}", rng.below(4)));
                len += 1;
            }
            3 | 4 | 5 => {
                // extend: often exactly to / across a block boundary
                let n = if rng.chance(1, 2) { let r = 32 - len % 32; *rng.pick(&[r, r + 1, r.saturating_sub(1), r + 32]) } else { boundary_len(rng) };
                ops.push(format!("ext.{}", show_digits(&rand_bases(rng, n))));
                len += n;
            }
            6 => {
                let nb = rng.range(1, 12);
                let bytes: Vec<u8> = (0..nb).map(|_| rng.below(256) as u8).collect();
                let n = rng.below(nb * 4 + 1);
                ops.push(format!("pb.{}.{}", tohex(&bytes), n));
                len += n;
            }
            7 if len > 0 && rng.chance(1, 2) => {
                // replace the string by the owned copy of one of its views (`slice(a, b)[.rc()].to_owned()`)
                let a = if rng.chance(1, 2) { (32 * rng.below(len / 32 + 1)).min(len) } else { rng.below(len + 1) };
                let b = a + rng.below(len - a + 1);
                ops.push(format!("own.{}.{}.{}", a, b, rng.chance(1, 4) as u8));
                len = b - a;
            }
            7 | 8 if len > 0 => ops.push(format!("set.{}.{}", rng.below(len), rng.below(4))),
            9 if rng.chance(1, 3) => {
                ops.push("clear".into());
                len = 0;
            }
            10 => {
                let n = boundary_len(rng);
                ops.push(format!("blank.{}", n));
                len = n;
            }
            11 => {
                let n = boundary_len(rng);
                ops.push(format!("fb.{}", show_digits(&rand_bases(rng, n))));
                len = n;
            }
            12 | 13 => {
                let n = if rng.chance(1, 3) { rng.below(140) } else { boundary_len(rng) };
                let s: Vec<u8> = (0..n)
                    .map(|_| if rng.chance(9, 10) { *rng.pick(b"ACGTacgt") } else if rng.chance(1, 4) { rng.range(128, 255) as u8 } else { *rng.pick(b"NnXx-.0RYk") })
                    .collect();
                ops.push(format!("{}.{}", if rng.chance(1, 2) { "fa" } else { "fs" }, tohex(&s)));
                len = n;
            }
            _ => {
                ops.push(format!("push.{}", rng.below(4)));
                len += 1;
            }
        }
    }
    // `other`: same length (so that ndiffs and the prefix rule are exercised), a prefix, an extension, or random
    let other = match rng.below(6) {
        0 => show_digits(&rand_bases(rng, len)),
        1 => format!("P{}", rng.below(4)),
        2 => {
            // extension by A's (equal blocks, larger len) or by random bases
            let n = rng.range(1, 34);
            let ext = if rng.chance(1, 2) { vec![0u8; n] } else { rand_bases(rng, n) };
            format!("X{}", show_digits(&ext))
        }
        3 => format!("P{}", *rng.pick(&[31usize, 32, 33])),
        _ => { let l = boundary_len(rng); show_digits(&rand_bases(rng, l)) }
    };
    format!("C14 hist {} {}", ops.join(";"), other)
}
