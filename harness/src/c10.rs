//! C10: every k-mer operation on all 19 shipped k-mer types and three further VarIntKmer instances; k-mers travel as raw storage (hex).
use crate::util::*;
use debruijn::kmer::*;
use debruijn::{Dir, Kmer, Mer};
use num_traits::{FromPrimitive, PrimInt, ToPrimitive};
use std::hash::Hash;

pub trait Raw: Kmer {
    fn raw(&self) -> u128;
    fn from_raw(x: u128) -> Self;
}
impl<T: PrimInt + FromPrimitive + Hash + IntHelp + ToPrimitive> Raw for IntKmer<T> {
    fn raw(&self) -> u128 {
        self.storage.to_u128().unwrap()
    }
    fn from_raw(x: u128) -> Self {
        IntKmer { storage: T::from_u128(x).unwrap() }
    }
}
impl<T: PrimInt + FromPrimitive + Hash + IntHelp + ToPrimitive, KS: KmerSize> Raw for VarIntKmer<T, KS> {
    fn raw(&self) -> u128 {
        self.storage.to_u128().unwrap()
    }
    fn from_raw(x: u128) -> Self {
        VarIntKmer { storage: T::from_u128(x).unwrap(), phantom: std::marker::PhantomData }
    }
}

pub const TYPES: [(&str, usize); 25] = [
    ("Kmer2", 2), ("Kmer3", 3), ("Kmer4", 4), ("Kmer5", 5), ("Kmer6", 6), ("Kmer8", 8), ("Kmer10", 10), ("Kmer12", 12),
    ("Kmer14", 14), ("Kmer15", 15), ("Kmer16", 16), ("Kmer20", 20), ("Kmer24", 24), ("Kmer30", 30), ("K31", 31),
    ("Kmer32", 32), ("Kmer40", 40), ("Kmer48", 48), ("Kmer64", 64),
    // VarIntKmer instances that are no alias: the only one that fills its storage, and two with much spare room
    ("VK4", 4), ("V16K4", 4), ("V128K31", 31),
    // user-defined sizes (KmerSize is a public trait): odd K beyond 32
    ("V128K33", 33), ("V128K41", 41), ("V128K63", 63),
];

#[macro_export]
macro_rules! with_named_kmer {
    ($name:expr, $f:ident, $($args:expr),*) => {
        match $name {
            "Kmer2" => $f::<debruijn::kmer::Kmer2>($($args),*),
            "Kmer3" => $f::<debruijn::kmer::Kmer3>($($args),*),
            "Kmer4" => $f::<debruijn::kmer::Kmer4>($($args),*),
            "Kmer5" => $f::<debruijn::kmer::Kmer5>($($args),*),
            "Kmer6" => $f::<debruijn::kmer::Kmer6>($($args),*),
            "Kmer8" => $f::<debruijn::kmer::Kmer8>($($args),*),
            "Kmer10" => $f::<debruijn::kmer::Kmer10>($($args),*),
            "Kmer12" => $f::<debruijn::kmer::Kmer12>($($args),*),
            "Kmer14" => $f::<debruijn::kmer::Kmer14>($($args),*),
            "Kmer15" => $f::<debruijn::kmer::Kmer15>($($args),*),
            "Kmer16" => $f::<debruijn::kmer::Kmer16>($($args),*),
            "Kmer20" => $f::<debruijn::kmer::Kmer20>($($args),*),
            "Kmer24" => $f::<debruijn::kmer::Kmer24>($($args),*),
            "Kmer30" => $f::<debruijn::kmer::Kmer30>($($args),*),
            "K31" => $f::<debruijn::kmer::VarIntKmer<u64, debruijn::kmer::K31>>($($args),*),
            "VK4" => $f::<debruijn::kmer::VarIntKmer<u8, debruijn::kmer::K4>>($($args),*),
            "V16K4" => $f::<debruijn::kmer::VarIntKmer<u16, debruijn::kmer::K4>>($($args),*),
            "V128K31" => $f::<debruijn::kmer::VarIntKmer<u128, debruijn::kmer::K31>>($($args),*),
            "V128K33" => $f::<debruijn::kmer::VarIntKmer<u128, $crate::util::K33>>($($args),*),
            "V128K41" => $f::<debruijn::kmer::VarIntKmer<u128, $crate::util::K41>>($($args),*),
            "V128K63" => $f::<debruijn::kmer::VarIntKmer<u128, $crate::util::K63>>($($args),*),
            "Kmer32" => $f::<debruijn::kmer::Kmer32>($($args),*),
            "Kmer40" => $f::<debruijn::kmer::Kmer40>($($args),*),
            "Kmer48" => $f::<debruijn::kmer::Kmer48>($($args),*),
            "Kmer64" => $f::<debruijn::kmer::Kmer64>($($args),*),
            _ => panic!("unsupported type"),
        }
    };
}

pub fn hex128(s: &str) -> u128 {
    u128::from_str_radix(s, 16).unwrap()
}

pub fn show_k<K: Raw>(k: &K) -> String {
    let bases: Vec<u8> = (0..K::k()).map(|i| k.get(i)).collect();
    format!("{:x}:{}", k.raw(), show_digits(&bases))
}

fn show_list<K: Raw>(v: &[K]) -> String {
    if v.is_empty() {
        return "-".into();
    }
    v.iter().map(show_k).collect::<Vec<_>>().join(",")
}

pub fn op<K: Raw>(op: &str, a: &[&str]) -> String {
    let k = |i: usize| K::from_raw(hex128(a[i]));
    let n = |i: usize| a[i].parse::<usize>().unwrap();
    match op {
        "get" => k(0).get(n(1)).to_string(),
        "set" => {
            let mut x = k(0);
            x.set_mut(n(1), n(2) as u8);
            show_k(&x)
        }
        "setslice" => {
            let mut x = k(0);
            x.set_slice_mut(n(1), n(2), u64::from_str_radix(a[3], 16).unwrap());
            show_k(&x)
        }
        "extl" => show_k(&k(0).extend_left(n(1) as u8)),
        "extr" => show_k(&k(0).extend_right(n(1) as u8)),
        "rc" => show_k(&k(0).rc()),
        "tou64" => k(0).to_u64().to_string(),
        "fromu64" => show_k(&K::from_u64(a[0].parse::<u64>().unwrap())),
        "ham" => k(0).hamming_dist(k(1)).to_string(),
        "at" => k(0).at_count().to_string(),
        "gc" => k(0).gc_count().to_string(),
        "tostr" => format!("{}|{:?}", k(0).to_string(), k(0)),
        "frombytes" => show_k(&K::from_bytes(&digits(a[0]))),
        "fromascii" => show_k(&K::from_ascii(a[0].as_bytes())),
        "minrc" => {
            let x = k(0);
            let (m, f) = x.min_rc_flip();
            format!("{}:{}:{}:{}", show_k(&m), if f { 1 } else { 0 }, show_k(&x.min_rc()), if x.is_palindrome() { 1 } else { 0 })
        }
        "cmp" => match k(0).cmp(&k(1)) {
            std::cmp::Ordering::Less => "lt".into(),
            std::cmp::Ordering::Greater => "gt".into(),
            std::cmp::Ordering::Equal => "eq".into(),
        },
        "kmersb" => show_list(&K::kmers_from_bytes(&digits(a[0]))),
        "kmersa" => show_list(&K::kmers_from_ascii(a[0].as_bytes())),
        "extend" => show_k(&k(0).extend(n(1) as u8, if a[2] == "R" { Dir::Right } else { Dir::Left })),
        "iter" => { let x = k(0); let v: Vec<u8> = x.iter().collect(); format!("{} it={}", show_digits(&v), adaptors(|| x.iter(), |b| b.to_string())) }
        "setimm" => { use debruijn::MerImmut; let x = k(0); let y = x.set(n(1), n(2) as u8); format!("{}|{}", show_k(&y), show_k(&x)) }
        "setsliceimm" => { use debruijn::MerImmut; let x = k(0); let y = x.set_slice(n(1), n(2), u64::from_str_radix(a[3], 16).unwrap()); format!("{}|{}", show_k(&y), show_k(&x)) }
        "meta" => { let x = k(0); format!("len={} empty={} k={} zero={}", x.len(), x.is_empty() as u8, K::k(), show_k(&K::empty())) }
        "getexts" => show_list(&k(0).get_extensions(debruijn::Exts::new(u8::from_str_radix(a[1], 16).unwrap()), if a[2] == "R" { Dir::Right } else { Dir::Left })),
        "hd1" => show_list(&debruijn::neighbors::KmerOneHammingIter::new(k(0)).collect::<Vec<K>>()),
        _ => panic!("bad op"),
    }
}

/// `<type> <op> <args…>`
pub fn exec(a: &[&str]) -> String {
    with_named_kmer!(a[0], op, a[1], &a[2..])
}

/// random k-mer (as bases), biased towards extreme lanes
pub fn random_kmer_bases(rng: &mut Rng, k: usize) -> Vec<u8> {
    match rng.below(9) {
        8 => {
            // one base followed by A's (the value 4^(K-1) * x: the lane next to the unused ones), or A's followed by one base
            let mut v = vec![0u8; k];
            if rng.chance(2, 3) { v[0] = rng.range(1, 3) as u8; } else { v[k - 1] = rng.range(1, 3) as u8; }
            v
        }
        0 => vec![0; k],
        1 => vec![3; k],
        2 => (0..k).map(|i| if i % 2 == 0 { 0 } else { 3 }).collect(),
        3 => {
            // one-hot lane
            let mut v = vec![0u8; k];
            let i = rng.below(k);
            v[i] = rng.range(1, 3) as u8;
            v
        }
        4 => {
            // palindrome-ish: s ++ rc(s)
            let half = k / 2;
            let s: Vec<u8> = (0..half).map(|_| rng.below(4) as u8).collect();
            let mut v = s.clone();
            if k % 2 == 1 {
                v.push(rng.below(4) as u8);
            }
            for b in s.iter().rev() {
                v.push(3 - b);
            }
            v
        }
        _ => (0..k).map(|_| rng.below(4) as u8).collect(),
    }
}

pub fn bases_to_raw(b: &[u8]) -> u128 {
    b.iter().fold(0u128, |a, x| (a << 2) | (*x as u128))
}

pub fn ascii_noise(rng: &mut Rng, len: usize) -> String {
    (0..len)
        .map(|_| {
            if rng.chance(5, 6) {
                *rng.pick(&['A', 'C', 'G', 'T', 'a', 'c', 'g', 't'])
            } else {
                *rng.pick(&['N', 'n', 'X', '-', '.', '0', 'B', 'u', 'Z', '@'])
            }
        })
        .collect()
}

pub fn gen_for(rng: &mut Rng, name: &str, k: usize, raw: u128) -> String {
    let ops = ["get", "set", "setslice", "extl", "extr", "rc", "tou64", "fromu64", "ham", "at", "gc", "tostr", "frombytes",
               "fromascii", "minrc", "cmp", "kmersb", "kmersa", "setslice", "extr", "rc", "hd1", "getexts", "extend", "iter", "setimm", "setsliceimm", "meta"];
    let op = *rng.pick(&ops);
    let other = bases_to_raw(&random_kmer_bases(rng, k));
    let args = match op {
        "get" => format!("{:x} {}", raw, rng.below(k)),
        "extend" => format!("{:x} {} {}", raw, rng.below(4), if rng.chance(1, 2) { "L" } else { "R" }),
        "iter" | "meta" => format!("{:x}", raw),
        "setimm" => format!("{:x} {} {}", raw, rng.below(k), rng.below(4)),
        "setsliceimm" => {
            let pos = rng.below(k);
            let n = rng.range(1, 32.min(k - pos));
            format!("{:x} {} {} {:x}", raw, pos, n, rng.next())
        }
        "set" => format!("{:x} {} {}", raw, rng.below(k), rng.below(4)),
        "setslice" => {
            let pos = rng.below(k);
            let n = rng.range(1, 32.min(k - pos));
            // the run in the top 2n bits, garbage below
            let v = rng.next();
            format!("{:x} {} {} {:x}", raw, pos, n, v)
        }
        "extl" | "extr" => format!("{:x} {}", raw, rng.below(4)),
        "getexts" => format!("{:x} {:02x} {}", raw, rng.below(256), if rng.chance(1, 2) { "L" } else { "R" }),
        "rc" | "at" | "gc" | "tostr" | "minrc" | "hd1" => format!("{:x}", raw),
        "tou64" => {
            if k > 32 { format!("{:x}", raw & 0xffff_ffff_ffff_ffff) } else { format!("{:x}", raw) }
        }
        "fromu64" => {
            // K > 32: any u64 (the leading bases are A's)
            let max: u128 = if k >= 32 { u64::MAX as u128 } else { (1u128 << (2 * k)) - 1 };
            let v = if rng.chance(1, 6) { max } else if rng.chance(1, 6) { 0 } else { (rng.next() as u128) % (max + 1) };
            format!("{}", v)
        }
        "ham" | "cmp" => {
            // sometimes a near neighbour
            let o = if rng.chance(1, 2) {
                let i = rng.below(k);
                raw ^ ((rng.range(1, 3) as u128) << (2 * i))
            } else if rng.chance(1, 8) { raw } else { other };
            format!("{:x} {:x}", raw, o)
        }
        "frombytes" | "kmersb" => {
            let len = if rng.chance(1, 12) { rng.below(k) } else { k + rng.below(if op == "kmersb" { 12 } else { 3 }) };
            let v: Vec<u8> = (0..len).map(|_| rng.below(4) as u8).collect();
            show_digits(&v)
        }
        "fromascii" | "kmersa" => {
            let len = if rng.chance(1, 12) { rng.range(1, k.max(2) - 1) } else { k + rng.below(if op == "kmersa" { 12 } else { 3 }) };
            ascii_noise(rng, len.max(1))
        }
        _ => unreachable!(),
    };
    format!("C10 {} {} {}", name, op, args)
}

pub fn gen(rng: &mut Rng, tier: &str) -> String {
    let (name, k) = *rng.pick(&TYPES);
    // small types: sample uniformly from all 4^K values (the thorough tier thereby covers K <= 8 essentially exhaustively)
    let raw = if k <= 8 && (tier == "thorough" || rng.chance(1, 2)) {
        (rng.next() as u128) % (1u128 << (2 * k))
    } else {
        bases_to_raw(&random_kmer_bases(rng, k))
    };
    gen_for(rng, name, k, raw)
}
