//! C01 / C02: the three compression entry points on k-mer tables (from the real filter, synthetic, malformed).
use crate::gr::*;
use crate::util::*;
use crate::with_graph_kmer;
use boomphf::hashmap::BoomHashMap2;
use debruijn::compression::{compress_kmers, compress_kmers_no_exts, compress_kmers_with_hash, CompressionSpec};
use debruijn::dna_string::DnaString;
use debruijn::filter::{filter_kmers, remove_censored_exts, CountFilter, CountFilterSet};
use debruijn::graph::BaseGraph;
use debruijn::{Exts, Kmer, Mer};
use std::collections::HashMap;

pub struct Spec {
    pub join_eq: bool,
    pub reduce: u8, // 0 sum (saturating u32), 1 max, 2 mix, 3 first
}

impl Spec {
    fn raw_reduce(&self, a: u32, b: &u32) -> u32 {
        match self.reduce {
            0 => a.saturating_add(*b),
            1 => a.max(*b),
            2 => a.wrapping_mul(31).wrapping_add(*b),
            _ => a,
        }
    }
}

/// The two specs the crate ships are the ones actually used: `ScmapCompress` (join = payload equality; its `reduce` keeps the
/// common payload and panics on unequal ones) for `eq`/`first`, `SimpleCompress` (join always, reduction by closure) for
/// `always`/sum|max|mix.  Other combinations (only reachable by hand-written requests) use the plain functions.
impl CompressionSpec<u32> for Spec {
    fn reduce(&self, a: u32, b: &u32) -> u32 {
        if self.join_eq && self.reduce == 3 {
            debruijn::compression::ScmapCompress::<u32>::new().reduce(a, b)
        } else if !self.join_eq {
            debruijn::compression::SimpleCompress::new(|x: u32, y: &u32| self.raw_reduce(x, y)).reduce(a, b)
        } else {
            self.raw_reduce(a, b)
        }
    }
    fn join_test(&self, a: &u32, b: &u32) -> bool {
        if self.join_eq {
            debruijn::compression::ScmapCompress::<u32>::new().join_test(a, b)
        } else {
            debruijn::compression::SimpleCompress::new(|x: u32, y: &u32| self.raw_reduce(x, y)).join_test(a, b)
        }
    }
}

pub fn parse_spec(jn: &str, rd: &str) -> Spec {
    Spec { join_eq: jn == "eq", reduce: match rd { "sum" => 0, "max" => 1, "mix" => 2, _ => 3 } }
}

pub fn parse_table<K: Kmer>(s: &str) -> Vec<(K, (Exts, u32))> {
    if s == "-" {
        return vec![];
    }
    s.split(',')
        .map(|t| {
            let f: Vec<&str> = t.split(':').collect();
            (K::from_bytes(&digits(f[0])), (Exts::new(u8::from_str_radix(f[1], 16).unwrap()), if f[2] == "_" { 0 } else { f[2].parse().unwrap() }))
        })
        .collect()
}

pub fn show_graph<K: Kmer>(g: &BaseGraph<K, u32>) -> String {
    if g.len() == 0 {
        return "-".into();
    }
    (0..g.len()).map(|i| format!("{}:{:02x}:{}", seq_digits(&g.sequences.get(i)), g.exts[i].val, g.data[i])).collect::<Vec<_>>().join(",")
}

fn run<K: Kmer>(entry: &str, stranded: bool, spec: &Spec, table: &str) -> String {
    let t: Vec<(K, (Exts, u32))> = parse_table(table);
    let keys: Vec<K> = t.iter().map(|x| x.0).collect();
    let exts: Vec<Exts> = t.iter().map(|x| (x.1).0).collect();
    let data: Vec<u32> = t.iter().map(|x| (x.1).1).collect();
    let pos: HashMap<K, usize> = keys.iter().enumerate().map(|(i, k)| (*k, i)).collect();
    let index = BoomHashMap2::new(keys.clone(), exts, data);
    let sigma: Vec<usize> = (0..index.len()).map(|i| pos[index.get_key(i).unwrap()]).collect();
    let res = std::panic::catch_unwind(std::panic::AssertUnwindSafe(|| match entry {
        "hash" => show_graph(&compress_kmers_with_hash(stranded, spec, &index)),
        "slice" => show_graph(&compress_kmers(stranded, spec, &t)),
        "noexts" => {
            let kd: Vec<(K, u32)> = t.iter().map(|x| (x.0, (x.1).1)).collect();
            show_graph(&compress_kmers_no_exts(stranded, spec, &kd))
        }
        _ => panic!("bad entry"),
    }));
    format!("{}|{}", show_nat_list(&sigma), res.unwrap_or_else(|_| "panic".to_string()))
}

/// `longpath <K> <seed> <len> <stranded> <entry>`: one repeat-free random read of `len` bases (all canonical k-mers distinct, none its
/// own reverse complement: checked here and reported), through the real filter and the chosen entry point. The table is too large
/// for the line protocol and for the executable model; the answer is judged against the property directly: one unbranched path.
fn longpath<K: Kmer>(seed: u64, len: usize, stranded: bool, entry: &str) -> String {
    let mut rng = Rng::new(seed);
    let k = K::k();
    let seq: Vec<u8> = (0..len).map(|_| rng.below(4) as u8).collect();
    let mut seen = std::collections::HashSet::new();
    let mut distinct = true;
    for w in seq.windows(k) {
        let km = K::from_bytes(w);
        if !stranded && km == km.rc() { distinct = false; }
        if !seen.insert(if stranded { km } else { km.min_rc() }) { distinct = false; }
    }
    let t: Vec<(K, (Exts, u32))> = table_from_reads(&[seq], &[0], stranded, 1, false, false);
    let spec = Spec { join_eq: false, reduce: 0 };
    let g = match entry {
        "hash" => {
            let index = BoomHashMap2::new(t.iter().map(|x| x.0).collect(), t.iter().map(|x| (x.1).0).collect(), t.iter().map(|x| (x.1).1).collect());
            compress_kmers_with_hash(stranded, &spec, &index)
        }
        "slice" => compress_kmers(stranded, &spec, &t),
        _ => { let kd: Vec<(K, u32)> = t.iter().map(|x| (x.0, (x.1).1)).collect(); compress_kmers_no_exts(stranded, &spec, &kd) }
    };
    let lens: Vec<usize> = (0..g.len()).map(|i| g.sequences.get(i).len()).collect();
    format!("distinct={}|kmers={}|nodes={}|lens={}", distinct as u8, t.len(), g.len(), show_nat_list(&lens))
}

/// `compress <entry> <K> <stranded> <join> <reduce> <table>`
pub fn exec(a: &[&str]) -> String {
    if a[0] == "longpath" {
        let k: usize = a[1].parse().unwrap();
        return with_graph_kmer!(k, longpath, a[2].parse().unwrap(), a[3].parse().unwrap(), a[4] == "1", a[5]);
    }
    let k: usize = a[2].parse().unwrap();
    let spec = parse_spec(a[4], a[5]);
    with_graph_kmer!(k, run, a[1], a[3] == "1", &spec, a[6])
}

/// a k-mer table from the real filter (sorted by key), optionally pruned; payload = count, or a code of the label set
pub fn table_from_reads<K: Kmer>(reads: &[Vec<u8>], labels: &[u8], stranded: bool, thr: usize, colour: bool, prune: bool) -> Vec<(K, (Exts, u32))> {
    let seqs: Vec<(DnaString, Exts, u8)> = reads.iter().zip(labels.iter()).map(|(r, l)| (DnaString::from_bytes(r), Exts::empty(), *l)).collect();
    let mut v: Vec<(K, (Exts, u32))> = if colour {
        let (m, _) = filter_kmers::<K, _, _, _, _>(&seqs, &Box::new(CountFilterSet::new(thr)), stranded, false, 4);
        m.iter().map(|(k, e, d)| (*k, (*e, d.iter().fold(0u32, |a, x| a | (1 << x))))).collect()
    } else {
        let (m, _) = filter_kmers::<K, _, _, _, _>(&seqs, &Box::new(CountFilter::new(thr)), stranded, false, 4);
        m.iter().map(|(k, e, d)| (*k, (*e, *d as u32))).collect()
    };
    v.sort_by_key(|x| x.0);
    if prune {
        remove_censored_exts(stranded, &mut v);
    }
    v
}

pub fn show_table<K: Kmer>(t: &[(K, (Exts, u32))]) -> String {
    if t.is_empty() {
        return "-".into();
    }
    t.iter().map(|(k, (e, d))| format!("{}:{:02x}:{}", kmer_digits(k), e.val, d)).collect::<Vec<_>>().join(",")
}

fn gen_table<K: Kmer>(rng: &mut Rng, k: usize, tier: &str, stranded: bool, colour: bool) -> String {
    let reads = gen_reads(rng, k, if tier == "thorough" { 20 } else { 6 }, if tier == "thorough" { 300 } else { 50 });
    let labels: Vec<u8> = reads.iter().map(|_| rng.below(3) as u8).collect();
    let thr = *rng.pick(&[1usize, 1, 1, 2, 2, 3]);
    let mut t: Vec<(K, (Exts, u32))> = table_from_reads(&reads, &labels, stranded, thr, colour, thr > 1 || rng.chance(1, 2));
    match rng.below(20) {
        // malformed stream: flip one extension bit (non-reciprocal table: compared for the panic branch)
        0 if !t.is_empty() => {
            let i = rng.below(t.len());
            (t[i].1).0 = Exts::new((t[i].1).0.val ^ (1 << rng.below(8)));
        }
        // drop one k-mer without pruning: dangling extensions
        1 if t.len() > 1 => {
            let i = rng.below(t.len());
            t.remove(i);
        }
        _ => {}
    }
    show_table(&t)
}

pub fn gen_prop(prop: &str, rng: &mut Rng, tier: &str) -> String {
    if rng.chance(1, if tier == "thorough" { 300 } else { 500 }) {
        // an unbranched path of more than 2 * 65 536 k-mers (counters and distances inside the walk are sized somewhere)
        return format!("{} longpath {} {} {} {} {}", prop, *rng.pick(&[31usize, 31, 24, 48]), rng.next() % 1000000, rng.range(131200, 150000), rng.below(2),
            *rng.pick(&["hash", "hash", "slice", "noexts"]));
    }
    let k = pick_k(rng, tier);
    let stranded = rng.chance(1, 3);
    let colour = rng.chance(1, 3);
    let table = with_graph_kmer!(k, gen_table, rng, k, tier, stranded, colour);
    let entry = *rng.pick(&["hash", "hash", "slice", "noexts"]);
    let join = if colour { "eq" } else { "always" };
    let reduce = if colour { "first" } else { *rng.pick(&["sum", "max", "mix"]) };
    format!("{} compress {} {} {} {} {} {}", prop, entry, k, stranded as u8, join, reduce, table)
}

pub fn gen(rng: &mut Rng, tier: &str) -> String {
    gen_prop("C01", rng, tier)
}

pub fn gen02(rng: &mut Rng, tier: &str) -> String {
    gen_prop("C02", rng, tier)
}
