//! dbg-harness: runs the real `debruijn` crate on request lines of the /verif line protocol.
//!
//!   dbg-harness gen <prop> <seed> <n> <tier>   generate n requests, execute them, print `request\tanswer`
//!   dbg-harness exec                            read request lines from stdin, print `request\tanswer`
use std::io::{BufRead, Write};
use std::panic::{catch_unwind, AssertUnwindSafe};

mod util;
mod c07;
mod c08;
mod c10;
mod c11;
mod c14;
mod c15;
mod c17;
mod c13;
mod c16;
mod gr;
mod c05;
mod c01;
mod c03;
mod c09;
mod c04;

pub type Gen = fn(&mut util::Rng, &str) -> String;
pub type Exec = fn(&[&str]) -> String;

fn table(prop: &str) -> Option<(Gen, Exec)> {
    match prop {
        "C07" => Some((c07::gen, c07::exec)),
        "C08" => Some((c08::gen, c08::exec)),
        "C10" => Some((c10::gen, c10::exec)),
        "C11" => Some((c11::gen, c11::exec)),
        "C14" => Some((c14::gen, c14::exec)),
        "C15" => Some((c15::gen, c15::exec)),
        "C17" => Some((c17::gen, c17::exec)),
        "C13" => Some((c13::gen, c13::exec)),
        "C16" => Some((c16::gen, c16::exec)),
        "C05" => Some((c05::gen, c05::exec)),
        "C01" => Some((c01::gen, c01::exec)),
        "C02" => Some((c01::gen02, c01::exec)),
        "C03" => Some((c03::gen, c03::exec)),
        "C09" => Some((c09::gen09, c09::exec09)),
        "C18" => Some((c09::gen18, c09::exec18)),
        "C20" => Some((c09::gen20, c09::exec20)),
        "C04" => Some((c04::gen04, c04::exec04)),
        "C06" => Some((c04::gen06, c04::exec06)),
        "C19" => Some((c04::gen19, c04::exec19)),
        "C12" => Some((c13::gen12, c13::exec)),
        _ => None,
    }
}

fn run_one(req: &str) -> String {
    let toks: Vec<&str> = req.split(' ').filter(|t| !t.is_empty()).collect();
    if toks.is_empty() {
        return "bad-request".into();
    }
    let (_, exec) = match table(toks[0]) {
        Some(t) => t,
        None => return "bad-request".into(),
    };
    match catch_unwind(AssertUnwindSafe(|| exec(&toks[1..]))) {
        Ok(a) => a,
        Err(_) => "panic".into(),
    }
}

fn main() {
    if std::env::var("VERIF_HARNESS_VERBOSE").is_err() {
        std::panic::set_hook(Box::new(|_| {}));
    }
    let args: Vec<String> = std::env::args().collect();
    // protocol lines go to the file named by VERIF_OUT (the library itself prints diagnostics to stdout
    // before some of its panics); without it they go to stdout
    let mut out: Box<dyn Write> = match std::env::var("VERIF_OUT") {
        Ok(p) => Box::new(std::io::BufWriter::new(std::fs::File::create(p).unwrap())),
        Err(_) => Box::new(std::io::BufWriter::new(std::io::stdout())),
    };
    match args.get(1).map(|s| s.as_str()) {
        Some("gen") => {
            let prop = &args[2];
            let seed: u64 = args[3].parse().unwrap();
            let n: usize = args[4].parse().unwrap();
            let tier = args.get(5).map(|s| s.as_str()).unwrap_or("quick");
            let (gen, _) = table(prop).expect("unknown property");
            let mut rng = util::Rng::new(seed);
            for _ in 0..n {
                let req = gen(&mut rng, tier);
                let ans = run_one(&req);
                writeln!(out, "{}\t{}", req, ans).unwrap();
            }
        }
        Some("exec") => {
            let stdin = std::io::stdin();
            for line in stdin.lock().lines() {
                let line = line.unwrap();
                let req = line.split('\t').next().unwrap().trim_end();
                if req.is_empty() || req.starts_with('#') {
                    continue;
                }
                let ans = run_one(req);
                writeln!(out, "{}\t{}", req, ans).unwrap();
            }
        }
        _ => {
            eprintln!("usage: dbg-harness gen <prop> <seed> <n> [tier] | exec");
            std::process::exit(2);
        }
    }
}
