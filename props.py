"""Per-property configuration of check.py: which Lean modules/theorems are the proof obligations,
how many requests each tier generates, what counts as a non-trivial case, and how to shrink."""


def _c07_nontrivial(toks, impl):
    # at least two intervals (a minimizer change actually happened)
    return impl != "panic" and impl.count(";") >= 1


def _c07_tags(toks, impl):
    k, p = int(toks[2]), int(toks[3])
    n = 0 if toks[4] == "-" else len(toks[4])
    t = ["p=%d" % p, "score=" + toks[5].split(":")[0], "container=" + (toks[6] if len(toks) > 6 else "slice")]
    t.append("k=p" if k == p else "k>p")
    t.append("len<k" if n < k else ("len=k" if n == k else "len>k"))
    t.append("alphabet=%d" % len(set(toks[4])) if toks[4] != "-" else "alphabet=0")
    t.append("answer=panic" if impl == "panic" else "intervals=%s" % ("1" if ";" not in impl else ("2-4" if impl.count(";") < 4 else "5+")))
    return t


def _c07_shrink(toks):
    # drop one base / a block of bases from the sequence, lower k
    out = []
    seq = toks[4]
    n = len(seq)
    for blk in (n // 2, n // 4, 8, 1):
        if blk >= 1:
            for i in range(0, n - blk + 1, max(1, blk)):
                s = seq[:i] + seq[i + blk:]
                if s:
                    out.append(toks[:4] + [s] + toks[5:])
    k, p = int(toks[2]), int(toks[3])
    if k > p:
        out.append(toks[:2] + [str(k - 1)] + toks[3:])
    return out


PROPS = {
    "C07": {
        "lean_modules": ["Dbg.Props.C07"],
        "theorems": ["Msp.C07_scan_valid", "Msp.C07_scan_holds", "Msp.C07_scan_guard", "Msp.C07_every_kmer_once"],
        "partial": [],
        "n_quick": 4000, "n_thorough": 300000,
        "nontrivial": _c07_nontrivial, "tags": _c07_tags, "shrink": _c07_shrink,
        "rule": "requests `scan k p seq score container` generated from one xorshift state (alphabet 1-4; uniform, tandem-repeat, "
                "homopolymer, s++rc(s) and chunk-pasted sequences; k = p..p+12 incl. k = p; scores: random permutation table, "
                "rank mod 3, random 0..3, rc-symmetric, linear-hash mod {1,2,3,5,17,1000,1000003}, constant; containers DnaSlice, "
                "DnaString, Lmer3; 2.5% sequences shorter than k). Non-trivial = the real scan returned at least two intervals; "
                "distinct = distinct request lines.",
        "trusted_base": ["modelled, not verified: `Vmer::get_kmer`/`Kmer::extend_right` deliver the p-mer at a position (the model reads "
                         "the window directly; tied by T2 through the reported minimizer strings); the score closure is a pure function"],
        "assumptions": ["score function is pure", "theorem guard 2k-p <= 65535 (outside it: known finding D7)"],
    },
}
